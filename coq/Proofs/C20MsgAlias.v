(* C20, message level, from_dict on what OTHER writers produce: in each of the five positions from_dict accepts the number
   itself or ANY declared name of it - the first declared one or an alias - and builds the message holding the number
   (whose attribute is the canonical member): lookup by name at the JSON message level. *)
From BP Require Import Base.Prelude Model.Types Model.Float Model.Utf8 Model.Object Model.Eq Model.TimeCore.
From BP Require Import Model.Encode Model.WellFormed Model.Json Model.C20Msg.
From BP Require Model.Casing Model.Enum Proofs.EnumP.
From BP Require Import gen.Tables Proofs.BytesP Proofs.C04Def Proofs.C04ScalarP Proofs.C04ElemP Proofs.C04FieldP Proofs.C04ObjP
     Proofs.C20MsgDef Proofs.C20MsgBuilt Proofs.C20MsgBuiltC.
From Coq Require Import Lia ZifyBool.

(* j is a JSON form of number v a writer may use: the number, or any declared name of it *)
Definition json_names (sc : schema) (e : nat) (j : json) (v : Z) : Prop :=
  j = JInt v \/ exists n, j = JStr n /\ In (n, v) (Enum.members_of (enum_body sc e)).

Lemma accept_elem sc e j v : json_names sc e j v -> scalar_from_json sc TEnum (PyEnum e) j = Ok (PInt v).
Proof.
  intros [->|(n & -> & Hin)].
  - change (scalar_from_json sc TEnum (PyEnum e) (JInt v)) with (enum_from_json sc e (JInt v)).
    exact (proj1 (parse_bridge sc e v)).
  - change (scalar_from_json sc TEnum (PyEnum e) (JStr n)) with (enum_from_json sc e (JStr n)).
    cbn [enum_from_json]. rewrite enum_cls_body.
    destruct (EnumP.by_name (enum_body sc e) n v Hin) as (_ & Hfs & _ & Hc & Hs).
    rewrite Hfs, Hc. cbn [bind]. rewrite Hs. reflexivity.
Qed.

Lemma accept_value sc f pos e jk j k v :
  enum_position f = Some (pos, e) -> json_names sc e j v ->
  (pos = PosMapValue -> key_from_json (key_type f) jk = Ok k) ->
  value_from_json (recf sc) sc f (jplace pos jk j) = Ok (place pos k v).
Proof.
  intros Hp Hj Hk. pose proof (accept_elem sc e j v Hj) as Ha.
  assert (Hat : forall conv, list_or_single conv j = conv j) by (intros conv; destruct Hj as [->|(n & -> & _)]; reflexivity).
  destruct (enum_position_inv f pos e Hp) as (Hw & Hpos). unfold value_from_json.
  destruct pos; cbn [jplace place].
  - destruct Hpos as (Hh & Ht & Ho & Hg & Hm). rewrite Ht, Hm. cbn [ptype_eqb ptype_tag Z.eqb]. unfold hint_elem. rewrite Hh, Hat. exact Ha.
  - destruct Hpos as (Hh & Ht & Ho & Hg & Hm). rewrite Ht, Hm. cbn [ptype_eqb ptype_tag Z.eqb]. unfold hint_elem. rewrite Hh.
    cbn [list_or_single mapM]. rewrite Ha. reflexivity.
  - destruct Hpos as (pk & kt & Hh & Ht & Ho & Hg & Hm). rewrite Ht, Hm. cbn [ptype_eqb ptype_tag Z.eqb]. unfold hint_elem. rewrite Hh.
    specialize (Hk eq_refl). unfold key_type in Hk. rewrite Hm in Hk. cbn [mapM]. rewrite Hk. cbn [bind].
    unfold elem_from_json. cbn [ptype_eqb ptype_tag Z.eqb]. rewrite Ha. reflexivity.
  - destruct Hpos as (Hh & Ht & Ho & Hg & Hm). rewrite Ht, Hm. cbn [ptype_eqb ptype_tag Z.eqb]. unfold hint_elem. rewrite Hh, Hat. exact Ha.
  - destruct Hpos as (Hh & Ht & Ho & Hg & Hm). rewrite Ht, Hm. cbn [ptype_eqb ptype_tag Z.eqb]. unfold hint_elem. rewrite Hh, Hat. exact Ha.
Qed.

Lemma jplace_not_null pos jk j sc e v : json_names sc e j v -> jplace pos jk j <> JNull.
Proof. intros [->|(n & -> & _)]; destruct pos; discriminate. Qed.

Theorem from_dict_accepts_names sc cs c i f pos e jk j k v :
  wf_schema sc = true -> keys_ok cs sc = true ->
  nth_error (cfields (get_class sc c)) i = Some f -> enum_position f = Some (pos, e) ->
  json_names sc e j v ->
  (pos = PosMapValue -> key_from_json (key_type f) jk = Ok k) ->
  from_dict_cls sc c (jdoc (key_of_field cs f) pos jk j) = Ok (built sc c i pos k v) /\
  from_dict_inst sc (new sc c) (jdoc (key_of_field cs f) pos jk j) = Ok (built sc c i pos k v) /\
  read sc (built sc c i pos k v) i = Ok (place pos k v) /\ holds_enum pos (place pos k v) v = true.
Proof.
  intros W K Hf Hp Hj Hk. pose proof (wf_fields sc c W) as Hwf.
  destruct (keys_fields cs sc c K) as [L _]. destruct (L i f Hf) as (nm & Hfk & Hff). cbn [Nat.add] in Hff.
  assert (Hinit : from_dict_init sc c (jdoc (key_of_field cs f) pos jk j) = Ok [(i, place pos k v)]).
  { unfold jdoc. rewrite from_dict_init_unfold. cbn [fd_items]. unfold item_from_json. rewrite Hfk, Hff.
    rewrite (accept_value sc f pos e jk j k v Hp Hj Hk).
    pose proof (jplace_not_null pos jk j sc e v Hj) as Hnn.
    destruct (jplace pos jk j); try congruence; reflexivity. }
  split; [|split; [|split]].
  - unfold from_dict_cls. rewrite Hinit. cbn [bind]. unfold finish_cls.
    rewrite (construct_is_built sc c i f pos e k v Hwf Hf Hp), (built_unfold sc c Hwf i f pos k v Hf). reflexivity.
  - unfold from_dict_inst. change (ocls (new sc c)) with c. rewrite Hinit. cbn [bind fold_left fst snd].
    unfold built.
    assert (Hs : setattr sc (set_sow (new sc c)) i (place pos k v) = setattr sc (new sc c) i (place pos k v)).
    { rewrite C01Builtin.new_unfold. cbn [set_sow]. rewrite !C01Apply.setattr_unfold, Hf. destruct (fgroup f); reflexivity. }
    rewrite Hs. reflexivity.
  - exact (built_reads sc c Hwf i f pos e k v Hf Hp).
  - exact (place_holds f pos e k v Hp).
Qed.
