(* C02, encoder side: one element of a field of every kind — scalar, nested message (induction hypothesis),
   datetime, timedelta, wrapped scalar — is written as nothing or as one legal record that is fine as an element
   of the field. *)
From BP Require Import Base.Prelude Model.Types Model.Varint Model.Scalar Model.Float Model.Utf8.
From BP Require Import Model.Object Model.Eq Model.TimeCore Model.Encode Model.Decode Model.WellFormed Model.C01Def.
From BP Require Import Spec.Varint Spec.Wire.
From BP Require Import Proofs.BytesP Proofs.LenP Proofs.C02Abs Proofs.C02WireP Proofs.C02ListP Proofs.C02StepP Proofs.C02SimP Proofs.C02MapP.
From BP Require Import Proofs.C01Frame Proofs.C01Elem Proofs.C01Builtin Proofs.C01Unfold Proofs.C01Value Proofs.C01Slot Proofs.C01Main
     Proofs.C01Stable.
From BP Require Import Proofs.C02LegalSpec Proofs.C02LegalLeaf Proofs.C02LegalWalk Proofs.C02LegalFlat.
From BP Require Import gen.Tables.
From Coq Require Import ZifyBool.
Ltac Zify.zify_post_hook ::= Z.to_euclidean_division_equations.

(* [exact_ok], given the denotation of the nested payload *)
Definition exact_val (f : fdesc) (a : aval) : bool :=
  match elem_hint (fhint f), fwraps f with
  | PyDatetime, _ => match a with AMsg [AInt s; AInt nn] [] => ts_exact s nn | _ => false end
  | PyTimedelta, _ => match a with AMsg [AInt s; AInt nn] [] => dur_exact s nn | _ => false end
  | _, Some _ => match a with AMsg [a0] [] => is_plain a0 | _ => false end
  | _, None => true
  end.

Lemma exact_ok_val nested f c' b a : nested c' b = Some a -> exact_val f a = true -> exact_ok nested f c' b = true.
Proof.
  intros Hn. unfold exact_val, exact_ok. rewrite Hn.
  destruct (elem_hint (fhint f)), (fwraps f); intros H; try reflexivity; exact H.
Qed.

Lemma legal_at_nil sc c : legal_at sc c [] (empty_msg sc c).
Proof.
  exists []. split; [constructor|]. intros n L. destruct n as [|n']; [cbn in L; lia|]. split; [|reflexivity].
  rewrite sem_S. cbv zeta. cbn [forallb]. unfold gather. cbn [fold_left]. rewrite omap_interp_empty. reflexivity.
Qed.

(* a message-typed element: one Len record around the bytes of the value *)
Lemma msg_elem2 msg sc f c' x :
  fty f = TMessage -> msg_class f = Some c' -> 1 <= fnum f < 2 ^ 29 ->
  (forall val, preprocess_with msg TMessage (fwraps f) x = Ok val -> lsmall val ->
               exists a, legal_at sc c' val a /\ exact_val f a = true) ->
  elem_legal_with msg sc f x.
Proof.
  intros Hty Hmc Hn Hval n' se bs E. rewrite Hty in E.
  destruct (preprocess_with msg TMessage (fwraps f) x) as [val|] eqn:Hp;
    [|unfold serialize_with in E; rewrite Hp in E; discriminate].
  destruct (ser_len_rec msg (fnum f) TMessage x se (fwraps f) val bs eq_refl Hn Hp E) as [(-> & _ & -> & _) | (Hne & Hrec)];
    [left; auto|].
  right. split; [exact Hne|]. intros Hs Hl. destruct (Hrec Hs) as (Rp & Lv).
  assert (Hsv : lsmall val) by (unfold lsmall, Zlength in *; lia).
  destruct (Hval val eq_refl Hsv) as (a & La & Xa).
  destruct (nested_of_legal sc c' val a n' La ltac:(lia)) as (Ns & No).
  exists (Len val). split; [exact Rp|].
  unfold elem_fine, wire_match, elem_of, narrow_ok. rewrite Hty, Hmc. cbn [wire_of narrow32 len_bytes andb].
  rewrite Ns, No, (exact_ok_val _ f c' val a Ns Xa). reflexivity.
Qed.

Section Elems.
  Variable sc : schema.
  Hypothesis Hsc : c01_schema_ok sc = true.

  Lemma elem_msg2 f o :
    fty f = TMessage -> fwraps f = None -> elem_hint (fhint f) = PyMsg (ocls o) -> 1 <= fnum f < 2 ^ 29 ->
    Good2 sc o -> elem_legal sc f (PMsg o).
  Proof.
    intros Hty Hw Hh Hn HG.
    apply (msg_elem2 _ sc f (ocls o)); try assumption.
    - unfold msg_class. rewrite Hty, Hh, Hw. reflexivity.
    - intros val Hp Hs. rewrite Hw in Hp. unfold preprocess_with in Hp.
      cbn [tmem existsb ptype_eqb ptype_tag Z.eqb orb FIXED_TYPES] in Hp. unfold msg_bytes in Hp.
      eexists. split; [apply (HG val Hp Hs)|]. unfold exact_val. rewrite Hh, Hw. reflexivity.
  Qed.

  Lemma elem_datetime2 enc_msg f us :
    fty f = TMessage -> elem_hint (fhint f) = PyDatetime -> 1 <= fnum f < 2 ^ 29 ->
    dt_min_us <= us <= dt_max_us -> elem_legal_with (msg_bytes enc_msg) sc f (PDatetime us).
  Proof.
    intros Hty Hh Hn Hr.
    apply (msg_elem2 _ sc f timestamp_cls); try assumption.
    - unfold msg_class. rewrite Hty, Hh. reflexivity.
    - intros val Hp Hs.
      assert (Hp' : (let '(s, n) := ts_pair_of_us us in layout_bytes timestamp_fields [s; n]) = Ok val)
        by (destruct (fwraps f); exact Hp).
      destruct (datetime_legal sc us val Hsc Hr Hp' Hs) as (s & n & La & Ex).
      eexists. split; [exact La|]. unfold exact_val. rewrite Hh. exact Ex.
  Qed.

  Lemma elem_timedelta2 enc_msg f us :
    fty f = TMessage -> elem_hint (fhint f) = PyTimedelta -> 1 <= fnum f < 2 ^ 29 ->
    - 315576000000000000 <= us <= 315576000000000000 -> elem_legal_with (msg_bytes enc_msg) sc f (PTimedelta us).
  Proof.
    intros Hty Hh Hn Hr.
    apply (msg_elem2 _ sc f duration_cls); try assumption.
    - unfold msg_class. rewrite Hty, Hh. reflexivity.
    - intros val Hp Hs.
      assert (Hp' : (let '(s, n) := dur_pair_of_us us in layout_bytes duration_fields [s; n]) = Ok val)
        by (destruct (fwraps f); exact Hp).
      destruct (timedelta_legal sc us val Hsc Hr Hp' Hs) as (s & n & La & Ex).
      eexists. split; [exact La|]. unfold exact_val. rewrite Hh. exact Ex.
  Qed.

  Lemma elem_wrapped2 f w vt x :
    fty f = TMessage -> fwraps f = Some w -> wrapper_value_type w = Some vt -> is_some' (wrapper_cls w) = true ->
    elem_hint (fhint f) <> PyDatetime -> elem_hint (fhint f) <> PyTimedelta -> 1 <= fnum f < 2 ^ 29 ->
    scalar_in_range w x = true -> elem_legal sc f x.
  Proof.
    intros Hty Hw Hvt Hwc Hd Ht Hn Hr. destruct (wrapper_cls w) as [wc|] eqn:Ewc; [|discriminate].
    apply (msg_elem2 _ sc f wc); try assumption.
    - unfold msg_class. rewrite Hty, Hw. destruct (elem_hint (fhint f)); try reflexivity; congruence.
    - intros val Hp Hs. rewrite Hw in Hp.
      assert (Hw' : vt = w) by (destruct w; try discriminate Hvt; injection Hvt as <-; reflexivity).
      rewrite preprocess_wrapped in Hp; try (subst vt; destruct w, x; try discriminate Hr; try discriminate Hvt; try reflexivity; discriminate).
      destruct (wrapper_legal sc w vt wc x val Hsc Hvt Ewc Hr Hp Hs) as (a & La & Pa).
      exists (AMsg [a] []). split; [exact La|]. unfold exact_val. rewrite Hw.
      destruct (elem_hint (fhint f)); try congruence; exact Pa.
  Qed.

  (* every element kind of a field without wrapper *)
  Lemma elem_any2 f p x :
    fwraps f = None -> elem_hint (fhint f) = p -> 1 <= fnum f < 2 ^ 29 ->
    pyty_fits (length (classes sc)) (length (enums sc)) (fty f) p = true ->
    elem_in_range sc (fty f) p x = true -> elemP (Good2 sc) x -> elem_legal sc f x.
  Proof.
    intros Hw Hh Hn Hfit Hr HG. pose proof (pyty_fits_scalar _ _ _ _ Hfit) as Ht.
    destruct p.
    1-6: (rewrite scalar_elem_in_range in Hr by exact I; apply elem_scalar2; try assumption;
          unfold msg_class; destruct (fty f); try reflexivity; discriminate Ht).
    - destruct x; try (destruct o; discriminate Hr); try discriminate Hr.
      rewrite elem_in_range_msg in Hr. apply andb_true_iff in Hr as [Hc _]. apply Nat.eqb_eq in Hc. subst c.
      apply elem_msg2; assumption.
    - destruct x; try discriminate Hr; try (destruct o; discriminate Hr). cbn [elem_in_range] in Hr.
      apply elem_datetime2; try assumption. lia.
    - destruct x; try discriminate Hr; try (destruct o; discriminate Hr). cbn [elem_in_range] in Hr.
      apply elem_timedelta2; try assumption. lia.
  Qed.
End Elems.
