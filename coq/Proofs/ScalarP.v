(* Proofs about Model/Scalar.v: zig-zag, sign recovery, integer struct formats. *)
From BP Require Import Base.Prelude Model.Types Model.Scalar Spec.Varint Proofs.BytesP.
From Coq Require Import ZifyBool ZifyN.
Ltac Zify.zify_post_hook ::= Z.to_euclidean_division_equations.

(* ---------- zig-zag ---------- *)
Lemma lxor_m1 a : Z.lxor a (Z.lnot 0) = - a - 1.
Proof. change (Z.lnot 0) with (-1). rewrite Z.lxor_m1_r. unfold Z.lnot. lia. Qed.

Theorem zigzag_is_spec v : zigzag v = zigzag_spec v.
Proof.
  unfold zigzag, zigzag_spec. destruct (Z.geb_spec v 0) as [H|H].
  - replace (v <? 0) with false by lia. rewrite shiftl_1. lia.
  - replace (v <? 0) with true by lia. rewrite lxor_m1, shiftl_1. lia.
Qed.

Theorem unzigzag_zigzag v : unzigzag (zigzag v) = v.
Proof.
  rewrite zigzag_is_spec. unfold unzigzag, zigzag_spec.
  rewrite shiftr_1, land_1. destruct (Z.ltb_spec v 0) as [H|H].
  - replace ((-2 * v - 1) / 2) with (- v - 1) by lia.
    replace ((-2 * v - 1) mod 2) with 1 by lia.
    change (- (1)) with (Z.lnot 0). rewrite lxor_m1. lia.
  - replace (2 * v / 2) with v by lia. replace ((2 * v) mod 2) with 0 by lia.
    change (- 0) with 0. apply Z.lxor_0_r.
Qed.

Lemma zigzag_range bits v :
  0 < bits -> - 2 ^ (bits - 1) <= v < 2 ^ (bits - 1) -> 0 <= zigzag v < 2 ^ bits.
Proof.
  intros Hb Hv. rewrite zigzag_is_spec. unfold zigzag_spec.
  assert (Eb : 2 ^ bits = 2 * 2 ^ (bits - 1)).
  { rewrite <- Z.pow_succ_r by lia. f_equal. lia. }
  destruct (v <? 0) eqn:E; lia.
Qed.

(* zigzag is a bijection onto the naturals: the inverse direction *)
Theorem zigzag_unzigzag u : 0 <= u -> zigzag (unzigzag u) = u.
Proof.
  intros Hu. rewrite zigzag_is_spec. unfold unzigzag, zigzag_spec.
  rewrite shiftr_1, land_1.
  assert (Hm : u mod 2 = 0 \/ u mod 2 = 1) by lia. destruct Hm as [Hm|Hm]; rewrite Hm.
  - change (- 0) with 0. rewrite Z.lxor_0_r. replace (u / 2 <? 0) with false by lia. lia.
  - change (- (1)) with (Z.lnot 0). rewrite lxor_m1. replace (- (u / 2) - 1 <? 0) with true by lia. lia.
Qed.

(* ---------- sign recovery ---------- *)
Lemma land_pow2_small x k : 0 <= k -> 0 <= x < 2 ^ k -> Z.land x (2 ^ k) = 0.
Proof.
  intros Hk Hx. apply Z.bits_inj'. intros n Hn. rewrite Z.land_spec, Z.bits_0.
  rewrite Z.pow2_bits_eqb by lia. destruct (Z.eqb_spec k n) as [<-|Hne]; [|apply andb_false_r].
  rewrite andb_true_r. destruct (Z.eq_dec x 0) as [->|Hx0]; [apply Z.bits_0|].
  apply Z.bits_above_log2; [lia|]. apply Z.log2_lt_pow2; lia.
Qed.

Lemma lxor_signbit w k :
  0 <= k -> 0 <= w < 2 ^ (k + 1) ->
  Z.lxor w (2 ^ k) = if w <? 2 ^ k then w + 2 ^ k else w - 2 ^ k.
Proof.
  intros Hk Hw. rewrite Z.pow_add_r in Hw by lia. change (2 ^ 1) with 2 in Hw.
  destruct (Z.ltb_spec w (2 ^ k)) as [Hlt|Hge].
  - symmetry. apply Z.add_nocarry_lxor. apply land_pow2_small; lia.
  - set (w' := w - 2 ^ k). assert (Hw' : 0 <= w' < 2 ^ k) by (unfold w'; lia).
    replace w with (w' + 2 ^ k) by (unfold w'; lia).
    rewrite (Z.add_nocarry_lxor w' (2 ^ k)) by (apply land_pow2_small; lia).
    rewrite Z.lxor_assoc, Z.lxor_nilpotent, Z.lxor_0_r. unfold w'; lia.
Qed.

Theorem sign_recover_correct bits v :
  0 < bits <= 64 -> - 2 ^ (bits - 1) <= v < 2 ^ (bits - 1) ->
  sign_recover bits (v mod 2 ^ 64) = v.
Proof.
  intros Hb Hv. unfold sign_recover.
  rewrite !Z.shiftl_1_l.
  replace (2 ^ bits - 1) with (Z.ones bits) by (rewrite Z.ones_equiv; lia).
  rewrite Z.land_ones by lia.
  assert (E64 : 2 ^ 64 = 2 ^ bits * 2 ^ (64 - bits)) by (rewrite <- Z.pow_add_r by lia; f_equal; lia).
  assert (Hp : 0 < 2 ^ bits) by (apply Z.pow_pos_nonneg; lia).
  assert (Hq : 0 < 2 ^ (64 - bits)) by (apply Z.pow_pos_nonneg; lia).
  assert (Hmm : (v mod 2 ^ 64) mod 2 ^ bits = v mod 2 ^ bits).
  { rewrite E64. rewrite Z.rem_mul_r by lia.
    rewrite Z.mul_comm, Z.mod_add by lia. apply Z.mod_mod. lia. }
  rewrite Hmm.
  assert (Eb : 2 ^ bits = 2 * 2 ^ (bits - 1)).
  { rewrite <- Z.pow_succ_r by lia. f_equal. lia. }
  assert (Hs : 0 < 2 ^ (bits - 1)) by (apply Z.pow_pos_nonneg; lia).
  rewrite lxor_signbit; [| lia | replace (bits - 1 + 1) with bits by lia; apply Z.mod_pos_bound; lia].
  destruct (Z.ltb_spec v 0) as [Hneg|Hpos].
  - replace (v mod 2 ^ bits) with (v + 2 ^ bits).
    + replace (v + 2 ^ bits <? 2 ^ (bits - 1)) with false by lia. lia.
    + apply Z.mod_unique with (-1); lia.
  - rewrite Z.mod_small by lia. replace (v <? 2 ^ (bits - 1)) with true by lia. lia.
Qed.

(* uint32/uint64 fields get no post-processing: the decoded varint is the value *)

(* ---------- struct integer formats ---------- *)
Theorem pack_unpack_int f lo hi n v :
  fmt_int_range f = Some (lo, hi, n) -> lo <= v < hi ->
  exists bs, pack_int f v = Ok bs /\ bs = twos_le n v /\ length bs = n /\ unpack_int f bs = Ok v.
Proof.
  intros Hf Hv. unfold pack_int, unpack_int. rewrite Hf.
  replace ((lo <=? v) && (v <? hi)) with true by lia.
  eexists. split; [reflexivity|].
  assert (Hw : hi - lo = 256 ^ Z.of_nat n /\ (lo = 0 \/ lo = - hi) /\ 0 < hi).
  { destruct f; cbn in Hf; try discriminate; injection Hf as <- <- <-; cbn; lia. }
  destruct Hw as (Hw & Hlo & Hhi).
  split; [unfold twos_le; rewrite Hw; reflexivity|].
  rewrite le_bytes_length. split; [reflexivity|]. rewrite Nat.eqb_refl.
  rewrite le_value_le_bytes by (rewrite <- Hw; apply Z.mod_pos_bound; lia).
  f_equal. destruct Hlo as [-> | ->].
  - rewrite Z.sub_0_r, Z.mod_small by lia. replace (v <? hi) with true by lia. reflexivity.
  - replace (hi - - hi) with (2 * hi) by lia.
    destruct (Z.ltb_spec v 0) as [Hneg|Hpos].
    + replace (v mod (2 * hi)) with (v + 2 * hi) by (apply Z.mod_unique with (-1); lia).
      replace (v + 2 * hi <? hi) with false by lia. lia.
    + rewrite Z.mod_small by lia. replace (v <? hi) with true by lia. reflexivity.
Qed.

Theorem pack_int_out_of_range f lo hi n v :
  fmt_int_range f = Some (lo, hi, n) -> ~ (lo <= v < hi) -> pack_int f v = Err EStruct.
Proof.
  intros Hf Hv. unfold pack_int. rewrite Hf.
  replace ((lo <=? v) && (v <? hi)) with false by lia. reflexivity.
Qed.

Theorem unpack_pack_int f lo hi n bs :
  fmt_int_range f = Some (lo, hi, n) -> length bs = n ->
  exists v, unpack_int f bs = Ok v /\ lo <= v < hi /\ pack_int f v = Ok bs.
Proof.
  intros Hf Hl. unfold unpack_int. rewrite Hf, Hl, Nat.eqb_refl.
  assert (Hw : hi - lo = 256 ^ Z.of_nat n /\ (lo = 0 \/ lo = - hi) /\ 0 < hi).
  { destruct f; cbn in Hf; try discriminate; injection Hf as <- <- <-; cbn; lia. }
  destruct Hw as (Hw & Hlo & Hhi).
  pose proof (le_value_range bs) as Hr. rewrite Hl, <- Hw in Hr.
  eexists. split; [reflexivity|].
  assert (Hv : lo <= (if le_value bs <? hi then le_value bs else le_value bs - (hi - lo)) < hi).
  { destruct (le_value bs <? hi) eqn:E; destruct Hlo; lia. }
  split; [exact Hv|]. unfold pack_int. rewrite Hf.
  replace ((lo <=? _) && (_ <? hi)) with true by lia. f_equal.
  replace ((if le_value bs <? hi then le_value bs else le_value bs - (hi - lo)) mod (hi - lo)) with (le_value bs).
  - rewrite <- Hl. apply le_bytes_le_value.
  - destruct (le_value bs <? hi) eqn:E.
    + rewrite Z.mod_small; lia.
    + apply Z.mod_unique with (-1); lia.
Qed.
