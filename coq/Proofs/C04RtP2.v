(* C04, object level (B), part 4: one field of the rebuilt object against the same field of the
   original (encoder and ==), then the loops, then the theorem rt_ok for every good object. *)
From BP Require Import Base.Prelude Model.Types Model.Varint Model.Scalar Model.Float Model.Utf8 Model.Object Model.Eq Model.TimeCore.
From BP Require Import Model.Encode Model.WellFormed Model.Json.
From BP Require Import gen.Tables Proofs.BytesP Proofs.C04Def Proofs.C04ScalarP Proofs.C04ElemP Proofs.C04FieldP Proofs.C04ObjP
  Proofs.C04CurP Proofs.C04EncP Proofs.C04RtP.
From Coq Require Import Lia ZifyBool.

Lemma osow_norm sc o : osow (norm_obj sc o) = true.
Proof. destruct o as [c raw s u g]. reflexivity. Qed.

Lemma is_default_list sc f p l h : fhint f = HList p -> is_default sc f (PList (map h l)) = is_default sc f (PList l).
Proof. intros H. cbn [is_default]. rewrite H. destruct l; reflexivity. Qed.
Lemma is_default_dict sc f pk p (d : list (pv * pv)) (h : pv * pv -> pv * pv) :
  fhint f = HDict pk p -> is_default sc f (PDict (map h d)) = is_default sc f (PDict d).
Proof. intros H. cbn [is_default]. rewrite H. destruct d; reflexivity. Qed.

Section Field.
  Variable sc : schema.
  Variable n : nat.
  Hypothesis WS : wf_schema sc = true.
  Hypothesis IHo : forall o', (pv_size (PMsg o') < n)%nat -> in_range sc o' = true -> pv_good sc (PMsg o') = true -> rt_ok sc o'.

  Let nc := length (classes sc).
  Let ne := length (enums sc).
  Let msgf := msg_bytes (enc_obj sc).

  (* an emitted value and its normal form are encoded alike *)
  Lemma emit_norm ng f sel x :
    wf_field sc ng f = true -> (fgroup f = None -> sel = None) ->
    (pv_size x < n)%nat -> x <> PPlaceholder -> x <> PNone ->
    value_ok sc f x = true -> pv_good sc x = true -> emitted sc f sel x = true ->
    emit_field (enc_obj sc) sc f sel (norm_pv sc x) = emit_field (enc_obj sc) sc f sel x.
  Proof.
    intros W Hsel Hs Hx Hxn Hv Hg He.
    destruct f as [name num t mp grp wr op hint ent].
    assert (W0 := W). unfold wf_field in W. cbn [fnum fgroup fhint fopt fwraps fmap fty] in W, Hsel.
    fold nc ne in W. apply andb_prop in W as [_ Wh].
    unfold value_ok in Hv. cbn [fhint fty fwraps fmap] in Hv.
    destruct hint as [p|p|p|pk p].
    - (* plain *)
      apply andb_true5 in Wh as [Wop [Wwr [Wmp [Wt Wp]]]].
      apply negb_true in Wop. apply is_some'_false in Wwr. apply is_some'_false in Wmp. subst op wr mp.
      assert (Hr : elem_in_range sc t p x = true) by (destruct x; try discriminate Hv; try congruence; exact Hv).
      destruct (py_cases p) as [K|[c ->]]; [rewrite (norm_elem_id sc t p x K Hr); reflexivity|].
      assert (t = TMessage) as -> by (destruct t; try discriminate Wp; reflexivity).
      destruct x as [| | | | | | | | | | |o]; try discriminate Hr.
      rewrite norm_pv_msg. unfold emit_field. cbn [fgroup fopt fty fnum fwraps]. rewrite osow_norm.
      unfold emitted, field_to_json, emit in He. cbn [fty fwraps fhint fopt orb] in He.
      change (ptype_eqb TMessage TMessage) with true in He. cbv iota in He. rewrite orb_false_r in He.
      assert (Flag : is_some grp || false || osow o || match sel with Some true => true | _ => false end = true).
      { destruct (osow o); [apply orb_true_r || (rewrite !orb_true_r; reflexivity)|].
        destruct sel as [[|]|]; try discriminate He. destruct grp; [reflexivity|]. specialize (Hsel eq_refl). discriminate Hsel. }
      assert (Flag2 : (osow o || false) || (is_some grp || false) = true).
      { destruct (osow o); [reflexivity|]. destruct grp; [reflexivity|]. specialize (Hsel eq_refl). subst sel. discriminate He. }
      rewrite !orb_true_r. cbn [negb andb]. rewrite andb_false_r.
      replace (is_default sc _ (PMsg o) && negb (is_some grp || false || osow o || match sel with Some true => true | _ => false end))
        with false by (rewrite Flag; cbn [negb]; rewrite andb_false_r; reflexivity).
      cbn [orb]. rewrite Flag2.
      apply serialize_with_congr. rewrite <- norm_pv_msg.
      destruct (in_range_obj sc c o Hr) as [_ Ho].
      exact (elem_norm_enc sc n IHo TMessage (PyMsg c) (PMsg o) Hs Wp Hr Hg).
    - (* optional / wrapper *)
      destruct wr as [w|].
      + apply andb_prop in Wh as [_ Wrest]. apply andb_prop in Wrest as [Wrest Wfit]. apply andb_prop in Wrest as [Wrest Wcls].
        destruct (wrapper_value_type w) as [vt|] eqn:Ev; [|discriminate Wfit].
        pose proof (wrapper_same w vt Ev) as Evt. subst vt.
        pose proof (fits_scalar_py _ _ _ _ (wrapper_scalar w Wcls) Wfit) as Sp.
        assert (Hr : elem_in_range sc w p x = true) by (destruct x; try congruence; exact Hv).
        rewrite (norm_elem_id sc w p x (or_introl Sp) Hr). reflexivity.
      + apply andb_prop in Wh as [Wh Wrest]. apply andb_prop in Wh as [_ Wgrp]. apply is_some'_false in Wgrp. subst grp.
        apply andb_prop in Wrest as [Wrest Wp]. apply andb_prop in Wrest as [Wop Wt]. subst op.
        assert (Hr : elem_in_range sc t p x = true) by (destruct x; try congruence; exact Hv).
        destruct (py_cases p) as [K|[c ->]]; [rewrite (norm_elem_id sc t p x K Hr); reflexivity|].
        assert (t = TMessage) as -> by (destruct t; try discriminate Wp; reflexivity).
        destruct x as [| | | | | | | | | | |o]; try discriminate Hr.
        rewrite norm_pv_msg. unfold emit_field. cbn [fgroup fopt fty fnum fwraps is_some orb]. rewrite osow_norm.
        cbn [negb andb orb]. rewrite !andb_false_r, !orb_true_r.
        apply serialize_with_congr. rewrite <- norm_pv_msg.
        exact (elem_norm_enc sc n IHo TMessage (PyMsg c) (PMsg o) Hs Wp Hr Hg).
    - (* repeated *)
      apply andb_prop in Wh as [Wh Wp]. apply andb_prop in Wh as [Wh Wt]. apply andb_prop in Wh as [Wh Wgrp].
      apply andb_prop in Wh as [Wh Wmp]. apply andb_prop in Wh as [Wop Wwr].
      apply negb_true in Wop. apply is_some'_false in Wwr. apply is_some'_false in Wmp. subst op wr mp.
      destruct x as [| | | | | | | | |l| |]; try discriminate Hv; try congruence.
      cbv beta iota in Hv. rewrite all_list_forallb in Hv. rewrite forallb_forall in Hv.
      unfold pv_good in Hg. cbn [pv_all] in Hg. rewrite forallb_forall in Hg.
      cbn [norm_pv]. unfold emit_field. cbn [fgroup fopt fty fnum fwraps].
      match goal with |- context [is_default sc ?f0 (PList (map _ _))] => rewrite (is_default_list sc f0 p l (norm_pv sc) eq_refl) end.
      match goal with |- (if ?c then _ else _) = _ => destruct c; [reflexivity|] end.
      assert (E : forall y, In y l -> preprocess_with (msg_bytes (enc_obj sc)) t None (norm_pv sc y) = preprocess_with (msg_bytes (enc_obj sc)) t None y).
      { intros y Hy. apply (elem_norm_enc sc n IHo t p y); [|exact Wp|exact (Hv y Hy)|exact (Hg y Hy)].
        rewrite size_list in Hs. pose proof (in_sum_size y l Hy). lia. }
      destruct (tmem t PACKED_TYPES).
      + rewrite (concat_map_map _ (norm_pv sc) l E). reflexivity.
      + apply concat_map_map. intros y Hy. rewrite (serialize_with_congr _ num t _ _ true None (E y Hy)). reflexivity.
    - (* map *)
      apply andb_prop in Wh as [Wh _]. apply andb_prop in Wh as [Wh Wmap]. apply andb_prop in Wh as [Wh Wt].
      apply ptype_eqb_eq in Wt. subst t.
      destruct mp as [[kt vt]|]; [|discriminate Wmap].
      apply andb_prop in Wmap as [Wmap Wv].
      destruct x as [| | | | | | | | | |d|]; try discriminate Hv; try congruence.
      cbv beta iota in Hv. rewrite all_dict_forallb in Hv. rewrite forallb_forall in Hv.
      unfold pv_good in Hg. cbn [pv_all] in Hg. rewrite forallb_forall in Hg.
      cbn [norm_pv]. unfold emit_field. cbn [fgroup fopt fty fnum fwraps fmap].
      match goal with |- context [is_default sc ?f0 (PDict (map ?h _))] => rewrite (is_default_dict sc f0 pk p d h eq_refl) end.
      match goal with |- (if ?c then _ else _) = _ => destruct c; [reflexivity|] end.
      assert (E : forall ky, In ky d -> preprocess_with (msg_bytes (enc_obj sc)) vt None (norm_pv sc (snd ky)) = preprocess_with (msg_bytes (enc_obj sc)) vt None (snd ky)).
      { intros [k y] Hy. cbn [snd]. specialize (Hv _ Hy). cbn [fst snd] in Hv. apply andb_prop in Hv as [_ Hv].
        apply (elem_norm_enc sc n IHo vt p y); [|exact Wv|exact Hv|exact (Hg _ Hy)].
        rewrite size_dict in Hs. pose proof (in_sum_size_d k y d Hy). lia. }
      clear Hv Hg Hs He Hx Hxn. induction d as [|[k y] d IH]; [reflexivity|].
      cbn [map fst snd].
      pose proof (E (k, y) (or_introl eq_refl)) as E0. cbn [snd] in E0.
      rewrite (serialize_with_congr _ 2 vt _ _ false None E0).
      rewrite IH; [reflexivity|]. intros ky Hky. apply E. right. exact Hky.
  Qed.
End Field.
