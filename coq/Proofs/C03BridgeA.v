(* C03 bridge, part A (tables): a class table all of whose fields have a shape the runtime model knows
   ([table_ok], Model/C03Bridge.v) is translated by [schema_of_table] to a schema that satisfies
   [c01_schema_ok] (wf_schema + builtins_exact + entries_ok): class / enum indices are in range, every map
   field's [fentry] is the index of ITS synthetic Entry class, group indices are below [cngroups]. *)
From BP Require Import Base.Prelude Model.Types Spec.Descriptor Model.Object Model.WellFormed Model.C01Def.
From BP Require Import Model.C03Bridge Proofs.PluginP.
From BP Require gen.Tables.
From Coq Require Import Lia.

(* ---- the resolver ---- *)
Lemma msg_rows_cons r l :
  msg_rows (r :: l) = (match snd r with ClsMessage fs => [fs] | ClsEnum _ => [] end) ++ msg_rows l.
Proof. reflexivity. Qed.
Lemma enum_rows_cons r l :
  enum_rows (r :: l) = (match snd r with ClsEnum ms => [ms] | ClsMessage _ => [] end) ++ enum_rows l.
Proof. reflexivity. Qed.

Lemma resolve_ref_bounds mo cl l : forall a b p, resolve_ref mo cl l a b = Some p ->
  match p with
  | PyMsg c => (NB + a <= c < NB + a + length (msg_rows l))%nat
  | PyEnum e => (b <= e < b + length (enum_rows l))%nat
  | _ => False
  end.
Proof.
  pose proof (eq_refl : NB = 11%nat) as HNB.
  induction l as [|[[m c] body] r IH]; intros a b p H; cbn [resolve_ref] in H; [discriminate|].
  rewrite msg_rows_cons, enum_rows_cons, !app_length. cbn [snd].
  destruct (str_eqb mo m && str_eqb cl c).
  - injection H as <-. destruct body; cbn [length]; lia.
  - destruct body; apply IH in H; destruct p; cbn [length]; try contradiction; lia.
Qed.

Lemma fits0_fits nc ne t q : fits0 t q = true ->
  match q with PyMsg c => (NB <= c < nc)%nat | PyEnum e => (e < ne)%nat | _ => True end ->
  pyty_fits nc ne t q = true.
Proof.
  destruct t, q; cbn [fits0 pyty_fits]; intros H B; try discriminate; try reflexivity.
  - apply Nat.ltb_lt. exact B.
  - apply andb_true_intro. split; [apply Nat.leb_le | apply Nat.ltb_lt]; unfold NB in B; lia.
Qed.

Lemma fits0_not_map t q : fits0 t q = true -> ptype_eqb t TMap = false.
Proof. destruct t, q; cbn [fits0]; intros H; try discriminate; reflexivity. Qed.

Lemma elem_ok_inv R t e : elem_ok R t e = true -> exists q, pyty_of R e = Some q /\ fits0 t q = true.
Proof. unfold elem_ok. destruct (pyty_of R e) as [q|]; [eauto | discriminate]. Qed.

Lemma elem_fits R nc t e : elem_ok R t e = true -> (NB + length (msg_rows R) <= nc)%nat ->
  pyty_fits nc (length (enum_rows R)) t (pyty_or_bad R e) = true.
Proof.
  intros H Hnc. apply elem_ok_inv in H as (q & Eq & Hf). unfold pyty_or_bad. rewrite Eq.
  apply fits0_fits; [assumption|].
  destruct e; cbn [pyty_of] in Eq; try discriminate; try (injection Eq as <-; exact I).
  apply resolve_ref_bounds in Eq. destruct q; try exact I; lia.
Qed.

Lemma elem_ok_leaf R t e : elem_ok R t e = true ->
  match e with PyOptional _ | PyList _ | PyDict _ _ => False | _ => True end.
Proof. intros H. apply elem_ok_inv in H as (q & Eq & _). destruct e; cbn [pyty_of] in Eq; try discriminate; exact I. Qed.

(* ---- groups ---- *)
Lemma index_of_in g l : In g l -> exists i, index_of g l = Some i /\ (i < length l)%nat.
Proof.
  induction l as [|x r IH]; intros H; [contradiction|]. cbn [index_of length].
  destruct (str_eqb g x) eqn:E; [exists O; split; [reflexivity | lia]|].
  destruct H as [-> | H]; [rewrite str_eqb_refl in E; discriminate|].
  destruct (IH H) as (i & -> & Hi). exists (S i). split; [reflexivity | lia].
Qed.

Lemma in_dedup x l : In x l -> In x (dedup l).
Proof.
  induction l as [|a r IH]; intros H; [contradiction|]. cbn [dedup].
  destruct (str_eqb a x) eqn:E; [apply str_eqb_eq in E; now left|].
  destruct H as [-> | H]; [now left|]. right. apply filter_In. split; [auto | now rewrite E].
Qed.

Lemma group_in_names fs f g : In f fs -> pf_group f = Some g -> In g (group_names fs).
Proof.
  intros Hf Hg. unfold group_names. apply in_dedup. apply in_flat_map. exists f. split; [assumption|].
  rewrite Hg. now left.
Qed.

(* ---- lengths and numbers ---- *)
Lemma tr_fields_numbers R gs fs : forall k, map fnum (tr_fields R gs k fs) = map pf_number fs.
Proof. induction fs as [|f r IH]; intros k; [reflexivity|]. cbn [tr_fields map tr_field fnum]. now rewrite IH. Qed.

Lemma tr_classes_length R cs : forall k, length (tr_classes R k cs) = length cs.
Proof. induction cs as [|fs r IH]; intros k; [reflexivity|]. cbn [tr_classes length]. now rewrite IH. Qed.

(* every translated field comes from a field of the class, and a map field got the index of its own
   position in the list [E] of all map fields (shifted by [base]) *)
Lemma tr_fields_spec R gs base (E : list py_field) fs : forall k pre post,
  E = pre ++ map_fields fs ++ post -> k = (base + length pre)%nat ->
  Forall (fun f' => exists f k', In f fs /\ f' = tr_field R gs k' f
                      /\ (is_mapf f = true -> (base <= k')%nat /\ nth_error E (k' - base) = Some f))
         (tr_fields R gs k fs).
Proof.
  induction fs as [|f r IH]; intros k pre post HE Hk; [constructor|].
  cbn [tr_fields]. constructor.
  - exists f, k. split; [now left|]. split; [reflexivity|]. intros Hm. split; [lia|].
    subst k E. replace (base + length pre - base)%nat with (length pre) by lia.
    unfold map_fields. cbn [filter]. rewrite Hm. rewrite nth_error_app2 by lia.
    now rewrite Nat.sub_diag.
  - destruct (is_mapf f) eqn:Hm.
    + eapply Forall_impl; [|apply (IH (S k) (pre ++ [f]) post)].
      * intros f' (f0 & k' & H1 & H2 & H3). exists f0, k'. split; [now right | auto].
      * subst E. unfold map_fields. cbn [filter]. rewrite Hm. now rewrite <- app_assoc.
      * rewrite app_length. cbn [length]. lia.
    + eapply Forall_impl; [|apply (IH k pre post)].
      * intros f' (f0 & k' & H1 & H2 & H3). exists f0, k'. split; [now right | auto].
      * subst E. unfold map_fields. cbn [filter]. now rewrite Hm.
      * assumption.
Qed.

Lemma tr_classes_spec R base (E : list py_field) cs : forall k pre post,
  E = pre ++ flat_map map_fields cs ++ post -> k = (base + length pre)%nat ->
  Forall (fun cd => exists fs k0, In fs cs /\ cd = tr_class R k0 fs
            /\ Forall (fun f' => exists f k', In f fs /\ f' = tr_field R (group_names fs) k' f
                                 /\ (is_mapf f = true -> (base <= k')%nat /\ nth_error E (k' - base) = Some f))
                      (cfields cd))
         (tr_classes R k cs).
Proof.
  induction cs as [|fs r IH]; intros k pre post HE Hk; [constructor|].
  cbn [tr_classes]. constructor.
  - exists fs, k. split; [now left|]. split; [reflexivity|]. unfold tr_class. cbn [cfields].
    apply (tr_fields_spec R (group_names fs) base E fs k pre (flat_map map_fields r ++ post)); [|assumption].
    rewrite HE. cbn [flat_map]. now rewrite <- app_assoc.
  - eapply Forall_impl; [|apply (IH (k + length (map_fields fs))%nat (pre ++ map_fields fs) post)].
    + intros cd (fs0 & k0 & H1 & H2). exists fs0, k0. split; [now right | assumption].
    + rewrite HE. cbn [flat_map]. now rewrite <- !app_assoc.
    + rewrite app_length. lia.
Qed.

(* ---- the bundled classes, whatever follows them ---- *)
Lemma builtin_wf_class sc : forallb (wf_class sc) builtin_classes = true.
Proof. vm_compute. reflexivity. Qed.

Lemma builtin_entries_ok sc : forallb (fun cd => forallb (entry_hints_ok sc) (cfields cd)) builtin_classes = true.
Proof. vm_compute. reflexivity. Qed.

Lemma firstn_builtin (X : list cdesc) : firstn (length builtin_classes) (builtin_classes ++ X) = builtin_classes.
Proof. rewrite firstn_app, Nat.sub_diag, firstn_all. cbn [firstn]. apply app_nil_r. Qed.

Lemma builtin_prefix_ok :
  forallb (fun '(a, b) => Nat.eqb (length (cfields a)) (length (cfields b)) &&
                          forallb (fun '(f, g) => (fnum f =? fnum g) && ptype_eqb (fty f) (fty g))
                                  (combine (cfields a) (cfields b)))
          (combine builtin_classes builtin_classes) = true.
Proof. vm_compute. reflexivity. Qed.

Lemma builtin_exact_ok : list_eqb cdesc_eqb builtin_classes builtin_classes = true.
Proof. vm_compute. reflexivity. Qed.

Lemma pyty_eqb_refl p : pyty_eqb p p = true.
Proof. destruct p; cbn [pyty_eqb]; try reflexivity; apply Nat.eqb_refl. Qed.

Section TableLevel.
  Variable t : class_table.
  Hypothesis Hok : table_ok t = true.

  Let R := class_rows t.
  Let ms := msg_rows R.
  Let E := flat_map map_fields ms.
  Let base := (NB + length ms)%nat.
  Let sc := schema_of_table t.

  Lemma sc_classes : classes sc = builtin_classes ++ tr_classes R base ms ++ map (entry_class R) E.
  Proof. reflexivity. Qed.

  Lemma sc_nclasses : length (classes sc) = (base + length E)%nat.
  Proof. rewrite sc_classes, !app_length, tr_classes_length, map_length. unfold base, NB. lia. Qed.

  Lemma sc_nenums : length (enums sc) = length (enum_rows R).
  Proof. unfold sc, schema_of_table. cbn [enums]. apply map_length. Qed.

  Lemma ms_ok fs : In fs ms -> nodup_z (map pf_number fs) = true /\ forall f, In f fs -> pf_ok R f = true.
  Proof.
    intros H. unfold table_ok in Hok. fold R in Hok. fold ms in Hok. rewrite forallb_forall in Hok.
    specialize (Hok fs H). apply andb_prop in Hok as [H1 H2]. rewrite forallb_forall in H2. auto.
  Qed.

  Lemma E_in f : In f E -> exists fs, In fs ms /\ In f fs /\ is_mapf f = true.
  Proof.
    unfold E. intros H. apply in_flat_map in H as (fs & Hfs & H). unfold map_fields in H.
    apply filter_In in H as [H1 H2]. eauto.
  Qed.

  (* the class at index base + i is the Entry class of the i-th map field *)
  Lemma entry_at k f : (base <= k)%nat -> nth_error E (k - base) = Some f -> get_class sc k = entry_class R f.
  Proof.
    intros Hk Hn. unfold get_class. rewrite sc_classes, app_assoc.
    rewrite app_nth2; rewrite app_length, tr_classes_length; fold NB; fold base; [|lia].
    apply List.nth_error_nth. rewrite nth_error_map, Hn. reflexivity.
  Qed.

  Lemma fits_sc ty e : elem_ok R ty e = true ->
    pyty_fits (length (classes sc)) (length (enums sc)) ty (pyty_or_bad R e) = true.
  Proof.
    intros H. rewrite sc_nenums. apply elem_fits; [assumption|]. rewrite sc_nclasses. unfold base, ms. lia.
  Qed.

  (* what pf_ok says of a map field *)
  Lemma map_field_shape f : pf_ok R f = true -> is_mapf f = true ->
    exists k v kn vn kt vt,
      pf_hint f = PyDict k v /\ pf_map_types f = Some (kn, vn)
      /\ ptype_of_str kn = Some kt /\ ptype_of_str vn = Some vt
      /\ map_key_ok kt = true /\ elem_ok R kt k = true /\ elem_ok R vt v = true
      /\ ptype_of_str (pf_proto_type f) = Some TMap
      /\ pf_optional f = false /\ pf_wraps f = None /\ pf_group f = None.
  Proof.
    unfold pf_ok, is_mapf. intros H Hm. apply andb_prop in H as [_ H].
    destruct (ptype_of_str (pf_proto_type f)) as [ty|]; [|discriminate].
    destruct (pf_map_types f) as [[kn vn]|] eqn:Emt; [clear Hm | discriminate].
    destruct (pf_hint f) as [| | | | | | | mo cl | e | e | k v] eqn:Eh; cbn [is_none] in H;
      try (rewrite !andb_false_r in H; discriminate);
      try (rewrite ?andb_false_r in H; cbn [andb] in H; discriminate).
    apply andb_prop in H as [H H5]. apply andb_prop in H as [H H4]. apply andb_prop in H as [H H3].
    apply andb_prop in H as [H1 H2]. apply ptype_eqb_eq in H1. subst ty.
    destruct (ptype_of_str kn) as [kt|] eqn:Ek; [|discriminate]. destruct (ptype_of_str vn) as [vt|] eqn:Ev; [|discriminate].
    apply andb_prop in H5 as [H5 H7]. apply andb_prop in H5 as [H5 H6].
    exists k, v, kn, vn, kt, vt. repeat split; try assumption; try reflexivity.
    - now apply negb_true_iff in H2.
    - destruct (pf_wraps f); [discriminate | reflexivity].
    - destruct (pf_group f); [discriminate | reflexivity].
  Qed.

  Lemma entry_class_shape f k v kn vn kt vt :
    pf_hint f = PyDict k v -> pf_map_types f = Some (kn, vn) ->
    ptype_of_str kn = Some kt -> ptype_of_str vn = Some vt ->
    entry_class R f =
      mkC [mkF key_name 1 kt None None None false (HPlain (pyty_or_bad R k)) O;
           mkF value_name 2 vt None None None false (HPlain (pyty_or_bad R v)) O] O.
  Proof. intros Eh Em Ek Ev. unfold entry_class, ptype_or_bad. now rewrite Em, Eh, Ek, Ev. Qed.

  (* ---- one translated field ---- *)
  Lemma tr_field_wf gs k f :
    pf_ok R f = true ->
    (forall g, pf_group f = Some g -> In g gs) ->
    (is_mapf f = true -> get_class sc k = entry_class R f) ->
    wf_field sc (length gs) (tr_field R gs k f) = true /\ entry_hints_ok sc (tr_field R gs k f) = true.
  Proof.
    intros Hf Hg Hent.
    destruct (is_mapf f) eqn:Hm.
    - (* a map field *)
      destruct (map_field_shape f Hf Hm) as (kk & v & kn & vn & kt & vt & Eh & Emt & Ek & Ev & Hkey & Hk & Hv
                                             & Ety & Eo & Ew & Egr).
      specialize (Hent eq_refl). pose proof (entry_class_shape f kk v kn vn kt vt Eh Emt Ek Ev) as Hec.
      apply andb_prop in Hf as [Hnum _]. apply andb_prop in Hnum as [Hn1 Hn2].
      pose proof (elem_ok_inv _ _ _ Hk) as (qk & _ & Hfk). pose proof (elem_ok_inv _ _ _ Hv) as (qv & _ & Hfv).
      pose proof (fits0_not_map _ _ Hfk) as Hkm. pose proof (fits0_not_map _ _ Hfv) as Hvm.
      unfold wf_field, entry_hints_ok, entry_class_ok, tr_field, ptype_or_bad.
      cbn [fnum fgroup fhint fopt fwraps fmap fty fentry].
      rewrite Hm, Hent, Hec, Eh, Emt, Ek, Ev, Ety, Eo, Ew, Egr. cbn [hint_of cfields fnum fty fgroup fopt fwraps fhint is_some'].
      rewrite Hn1, Hn2, Hkey, Hvm, (fits_sc _ _ Hk), (fits_sc _ _ Hv).
      rewrite !(proj2 (ptype_eqb_eq _ _) eq_refl). cbn [hint_eqb]. rewrite !pyty_eqb_refl. split; reflexivity.
    - (* not a map field *)
      clear Hent. assert (Emt : pf_map_types f = None) by (unfold is_mapf in Hm; destruct (pf_map_types f); [discriminate | reflexivity]).
      unfold pf_ok in Hf. apply andb_prop in Hf as [Hnum Hf]. apply andb_prop in Hnum as [Hn1 Hn2].
      destruct (ptype_of_str (pf_proto_type f)) as [ty|] eqn:Ety; [|discriminate].
      assert (Hgr : match match pf_group f with Some g => index_of g gs | None => None end with
                    | Some g => Nat.ltb g (length gs) | None => true end = true).
      { destruct (pf_group f) as [g|]; [|reflexivity].
        destruct (index_of_in g gs (Hg g eq_refl)) as (i & -> & Hi). now apply Nat.ltb_lt. }
      unfold wf_field, entry_hints_ok, tr_field, ptype_or_bad.
      cbn [fnum fgroup fhint fopt fwraps fmap fty fentry]. rewrite Hn1, Hn2, Hgr, Emt, Ety. cbn [andb is_some'].
      rewrite Emt in Hf. cbn [is_none] in Hf.
      destruct (pf_hint f) as [| | | | | | | mo cl | e | e | kk v] eqn:Eh; cbn [hint_of];
        try (apply andb_prop in Hf as [Hf He]; apply andb_prop in Hf as [Hf _]; apply andb_prop in Hf as [Ho Hw];
             destruct (pf_wraps f); [discriminate|]; cbn [is_some' negb andb];
             rewrite Ho, (fits_sc _ _ He); cbn [andb];
             pose proof (elem_ok_inv _ _ _ He) as (q & _ & Hq); rewrite (fits0_not_map _ _ Hq); split; reflexivity).
      + (* Optional *)
        cbn [andb] in Hf. apply andb_prop in Hf as [Hgn Hf].
        assert (Egr : pf_group f = None) by (destruct (pf_group f); [discriminate | reflexivity]).
        rewrite Egr. cbn [is_some' negb andb].
        destruct (pf_wraps f) as [wn|].
        * apply andb_prop in Hf as [Hf Hw]. apply andb_prop in Hf as [Ho Hty]. apply ptype_eqb_eq in Hty. subst ty.
          destruct (ptype_of_str wn) as [w|]; [|discriminate]. apply andb_prop in Hw as [Hw1 Hw2].
          rewrite Ho, Hw1. destruct (Tables.wrapper_value_type w) as [vt|]; [|discriminate].
          rewrite (fits_sc _ _ Hw2). split; reflexivity.
        * apply andb_prop in Hf as [Ho He]. rewrite Ho, (fits_sc _ _ He).
          pose proof (elem_ok_inv _ _ _ He) as (q & _ & Hq). rewrite (fits0_not_map _ _ Hq). split; reflexivity.
      + (* List *)
        apply andb_prop in Hf as [Hf He]. apply andb_prop in Hf as [Hf _]. apply andb_prop in Hf as [Hf Hgn].
        apply andb_prop in Hf as [Ho Hw].
        assert (Egr : pf_group f = None) by (destruct (pf_group f); [discriminate | reflexivity]).
        rewrite Egr. destruct (pf_wraps f); [discriminate|]. cbn [is_some' negb andb].
        rewrite Ho, (fits_sc _ _ He). pose proof (elem_ok_inv _ _ _ He) as (q & _ & Hq).
        rewrite (fits0_not_map _ _ Hq). split; reflexivity.
      + (* Dict without map_types: excluded *)
        rewrite !andb_false_r in Hf. discriminate.
  Qed.

  Lemma user_classes_ok :
    forallb (wf_class sc) (tr_classes R base ms) = true
    /\ forallb (fun cd => forallb (entry_hints_ok sc) (cfields cd)) (tr_classes R base ms) = true.
  Proof.
    pose proof (tr_classes_spec R base E ms base [] []) as S.
    specialize (S ltac:(unfold E; cbn [app]; now rewrite app_nil_r) ltac:(cbn [length]; lia)).
    rewrite Forall_forall in S.
    assert (H : forall cd, In cd (tr_classes R base ms) ->
                           wf_class sc cd = true /\ forallb (entry_hints_ok sc) (cfields cd) = true).
    { intros cd Hcd. destruct (S cd Hcd) as (fs & k0 & Hfs & -> & F).
      destruct (ms_ok fs Hfs) as [Hnd Hpf]. rewrite Forall_forall in F.
      assert (Hall : forall f', In f' (cfields (tr_class R k0 fs)) ->
                wf_field sc (length (group_names fs)) f' = true /\ entry_hints_ok sc f' = true).
      { intros f' Hf'. destruct (F f' Hf') as (f & k' & Hf & -> & Hm).
        apply tr_field_wf; [auto | intros g Eg; eapply group_in_names; eauto |].
        intros Hmap. destruct (Hm Hmap) as [Hb Hn]. now apply entry_at. }
      split.
      - unfold wf_class. apply andb_true_intro. split.
        + apply forallb_forall. intros f' Hf'. unfold tr_class at 1. cbn [cngroups]. now apply Hall.
        + unfold tr_class. cbn [cfields]. now rewrite tr_fields_numbers.
      - apply forallb_forall. intros f' Hf'. now apply Hall. }
    split; apply forallb_forall; intros cd Hcd; now apply H.
  Qed.

  Lemma entry_classes_ok :
    forallb (wf_class sc) (map (entry_class R) E) = true
    /\ forallb (fun cd => forallb (entry_hints_ok sc) (cfields cd)) (map (entry_class R) E) = true.
  Proof.
    assert (H : forall f, In f E -> wf_class sc (entry_class R f) = true
                                     /\ forallb (entry_hints_ok sc) (cfields (entry_class R f)) = true).
    { intros f Hf. destruct (E_in f Hf) as (fs & Hfs & Hin & Hm).
      destruct (ms_ok fs Hfs) as [_ Hpf].
      destruct (map_field_shape f (Hpf f Hin) Hm) as (kk & v & kn & vn & kt & vt & Eh & Emt & Ek & Ev & Hkey & Hk & Hv & _).
      rewrite (entry_class_shape f kk v kn vn kt vt Eh Emt Ek Ev).
      pose proof (elem_ok_inv _ _ _ Hk) as (qk & _ & Hfk). pose proof (elem_ok_inv _ _ _ Hv) as (qv & _ & Hfv).
      unfold wf_class, wf_field, entry_hints_ok.
      cbn [cfields cngroups forallb map fnum fgroup fhint fopt fwraps fmap fty nodup_z existsb is_some' negb].
      rewrite (fits_sc _ _ Hk), (fits_sc _ _ Hv), (fits0_not_map _ _ Hfk), (fits0_not_map _ _ Hfv).
      split; reflexivity. }
    split; apply forallb_forall; intros cd Hcd; apply in_map_iff in Hcd as (f & <- & Hf); now apply H.
  Qed.

  Theorem table_schema_ok : c01_schema_ok sc = true.
  Proof.
    destruct user_classes_ok as [U1 U2]. destruct entry_classes_ok as [N1 N2].
    unfold c01_schema_ok. apply andb_true_intro. split; [apply andb_true_intro; split|].
    - unfold wf_schema. rewrite sc_classes at 2 3. rewrite firstn_builtin.
      rewrite builtin_prefix_ok, !forallb_app, builtin_wf_class, U1, N1.
      rewrite sc_nclasses. cbn [andb]. rewrite !andb_true_r. apply Nat.leb_le. unfold base, NB. lia.
    - unfold builtins_exact. rewrite sc_classes, firstn_builtin. apply builtin_exact_ok.
    - unfold entries_ok. rewrite sc_classes, !forallb_app, builtin_entries_ok, U2, N2. reflexivity.
  Qed.
End TableLevel.
