(* C05, descriptor side, part A (positions): the message / enum rows of [class_table_of D] are, POSITION BY POSITION, the
   messages / enums of [gen_msgs D] / [gen_enums D] (Model/C05Desc.v); hence the class index [schema_of_table] gives to a
   reference to message M is NB + the position [msg_index] computes on the descriptor, and the enum index it gives to a
   reference to enum E is [enum_index]. *)
From BP Require Import Base.Prelude Model.Types Spec.Descriptor Model.Object Model.WellFormed.
From BP Require Import Model.C03Bridge Model.C05Desc Proofs.PluginP Proofs.C03BridgeA Proofs.C03BridgeB Proofs.C03BridgeD.
From Coq Require Import Lia.

(* ---- generic list facts ---- *)
Lemma find_index_unique {A} (P : A -> bool) (l : list A) : forall i e,
  nth_error l i = Some e -> P e = true ->
  (forall j e', nth_error l j = Some e' -> P e' = true -> j = i) -> find_index P l = Some i.
Proof.
  induction l as [|x r IH]; intros i e Hn Hp Hu; [destruct i; discriminate|]. cbn [find_index].
  destruct (P x) eqn:Ex.
  - now rewrite <- (Hu O x eq_refl Ex).
  - destruct i as [|i']; [cbn [nth_error] in Hn; injection Hn as ->; congruence|].
    cbn [nth_error] in Hn. rewrite (IH i' e Hn Hp); [reflexivity|].
    intros j e' Hj He'. specialize (Hu (Datatypes.S j) e' Hj He'). lia.
Qed.

Lemma NoDup_map_inj {A B} (g : A -> B) (l : list A) a b :
  NoDup (map g l) -> In a l -> In b l -> g a = g b -> a = b.
Proof.
  induction l as [|x r IH]; intros Hnd Ha Hb E; [contradiction|].
  cbn [map] in Hnd. inversion Hnd as [|? ? Hnin Hr]; subst.
  destruct Ha as [-> | Ha], Hb as [-> | Hb]; try reflexivity.
  - exfalso. apply Hnin. rewrite E. now apply in_map.
  - exfalso. apply Hnin. rewrite <- E. now apply in_map.
  - now apply IH.
Qed.

Lemma Forall2_nth_r {A B} (P : A -> B -> Prop) l ys : Forall2 P l ys -> forall i y,
  nth_error ys i = Some y -> exists a, nth_error l i = Some a /\ P a y.
Proof.
  induction 1 as [|a0 y0 l ys H0 _ IH]; intros i y Hn; [destruct i; discriminate|].
  destruct i as [|i]; cbn [nth_error] in *; [injection Hn as <-; eauto | now apply IH].
Qed.

Lemma Forall2_nth_l {A B} (P : A -> B -> Prop) l ys : Forall2 P l ys -> forall i a,
  nth_error l i = Some a -> exists y, nth_error ys i = Some y /\ P a y.
Proof.
  induction 1 as [|a0 y0 l ys H0 _ IH]; intros i a Hn; [destruct i; discriminate|].
  destruct i as [|i]; cbn [nth_error] in *; [injection Hn as <-; eauto | now apply IH].
Qed.

Lemma Forall2_length' {A B} (P : A -> B -> Prop) l ys : Forall2 P l ys -> length l = length ys.
Proof. induction 1; cbn [length]; congruence. Qed.

Lemma path_eqb_eq a : forall b, path_eqb a b = true <-> a = b.
Proof.
  induction a as [|x a IH]; intros [|y b]; cbn [path_eqb]; split; intros H; try discriminate; try reflexivity.
  - apply andb_prop in H as [H1 H2]. apply str_eqb_eq in H1. apply IH in H2. congruence.
  - injection H as -> ->. rewrite str_eqb_refl. now apply IH.
Qed.

(* ---- message / enum rows WITH their keys ---- *)
Definition msg_krows (R : list row) : list (str * str * list py_field) :=
  flat_map (fun r => match snd r with ClsMessage fs => [(fst (fst r), snd (fst r), fs)] | ClsEnum _ => [] end) R.
Definition enum_krows (R : list row) : list (str * str * list (str * Z)) :=
  flat_map (fun r => match snd r with ClsEnum ms => [(fst (fst r), snd (fst r), ms)] | ClsMessage _ => [] end) R.

Lemma msg_krows_app a b : msg_krows (a ++ b) = msg_krows a ++ msg_krows b.
Proof. apply flat_map_app. Qed.
Lemma enum_krows_app a b : enum_krows (a ++ b) = enum_krows a ++ enum_krows b.
Proof. apply flat_map_app. Qed.

Lemma msg_krows_rows R : map snd (msg_krows R) = msg_rows R.
Proof.
  induction R as [|[[m c] bd] r IH]; [reflexivity|]. rewrite msg_rows_cons. change (msg_krows ((m, c, bd) :: r))
    with ((match bd with ClsMessage fs => [(m, c, fs)] | ClsEnum _ => [] end) ++ msg_krows r).
  rewrite map_app, IH. cbn [snd]. now destruct bd.
Qed.
Lemma enum_krows_rows R : map snd (enum_krows R) = enum_rows R.
Proof.
  induction R as [|[[m c] bd] r IH]; [reflexivity|]. rewrite enum_rows_cons. change (enum_krows ((m, c, bd) :: r))
    with ((match bd with ClsEnum ms => [(m, c, ms)] | ClsMessage _ => [] end) ++ enum_krows r).
  rewrite map_app, IH. cbn [snd]. now destruct bd.
Qed.

Lemma msg_krows_key_in l k : In k (map fst (msg_krows l)) -> In k (map row_key l).
Proof.
  induction l as [|[[m c] bd] r IH]; intros H; [contradiction|].
  change (msg_krows ((m, c, bd) :: r)) with ((match bd with ClsMessage fs => [(m, c, fs)] | ClsEnum _ => [] end) ++ msg_krows r) in H.
  rewrite map_app in H. apply in_app_or in H as [H | H].
  - destruct bd; [|contradiction]. destruct H as [<- | []]. now left.
  - right. now apply IH.
Qed.
Lemma enum_krows_key_in l k : In k (map fst (enum_krows l)) -> In k (map row_key l).
Proof.
  induction l as [|[[m c] bd] r IH]; intros H; [contradiction|].
  change (enum_krows ((m, c, bd) :: r)) with ((match bd with ClsEnum ms => [(m, c, ms)] | ClsMessage _ => [] end) ++ enum_krows r) in H.
  rewrite map_app in H. apply in_app_or in H as [H | H].
  - destruct bd; [contradiction|]. destruct H as [<- | []]. now left.
  - right. now apply IH.
Qed.

Lemma msg_krows_nodup l : NoDup (map row_key l) -> NoDup (map fst (msg_krows l)).
Proof.
  induction l as [|[[m c] bd] r IH]; intros H; [constructor|]. cbn [map] in H. inversion H as [|? ? Hnin Hr]; subst.
  change (msg_krows ((m, c, bd) :: r)) with ((match bd with ClsMessage fs => [(m, c, fs)] | ClsEnum _ => [] end) ++ msg_krows r).
  destruct bd; cbn [app map fst]; [|now apply IH]. constructor; [|now apply IH].
  intros Hin. apply Hnin. now apply msg_krows_key_in.
Qed.
Lemma enum_krows_nodup l : NoDup (map row_key l) -> NoDup (map fst (enum_krows l)).
Proof.
  induction l as [|[[m c] bd] r IH]; intros H; [constructor|]. cbn [map] in H. inversion H as [|? ? Hnin Hr]; subst.
  change (enum_krows ((m, c, bd) :: r)) with ((match bd with ClsEnum ms => [(m, c, ms)] | ClsMessage _ => [] end) ++ enum_krows r).
  destruct bd; cbn [app map fst]; [now apply IH|]. constructor; [|now apply IH].
  intros Hin. apply Hnin. now apply enum_krows_key_in.
Qed.

(* the resolver returns the position of the row among the message (enum) rows *)
Lemma resolve_ref_msg_key l : NoDup (map row_key l) -> forall mo cl fs a b, In (mo, cl, ClsMessage fs) l ->
  exists i, resolve_ref mo cl l a b = Some (PyMsg (NB + (a + i))) /\ nth_error (msg_krows l) i = Some (mo, cl, fs).
Proof.
  induction l as [|[[m c] bd] r IH]; intros Hnd mo cl fs a b Hin; [contradiction|].
  cbn [map] in Hnd. inversion Hnd as [|? ? Hnin Hr]; subst. cbn [resolve_ref].
  change (msg_krows ((m, c, bd) :: r)) with ((match bd with ClsMessage fs => [(m, c, fs)] | ClsEnum _ => [] end) ++ msg_krows r).
  destruct (str_eqb mo m && str_eqb cl c) eqn:E.
  - apply andb_prop in E as [E1 E2]. apply str_eqb_eq in E1, E2. subst m c.
    destruct Hin as [Heq | Hin].
    + injection Heq as ->. exists O. split; [now rewrite Nat.add_0_r | reflexivity].
    + exfalso. apply Hnin. replace (row_key (mo, cl, bd)) with (row_key (mo, cl, ClsMessage fs)) by reflexivity. now apply in_map.
  - destruct Hin as [Heq | Hin].
    + injection Heq as -> -> ->. rewrite !str_eqb_refl in E. discriminate.
    + destruct bd as [fs'|ms'].
      * destruct (IH Hr mo cl fs (Datatypes.S a) b Hin) as (i & Hi & Hn). exists (Datatypes.S i). split; [|exact Hn].
        rewrite Hi. do 2 f_equal. lia.
      * destruct (IH Hr mo cl fs a (Datatypes.S b) Hin) as (i & Hi & Hn). exists i. split; [exact Hi | exact Hn].
Qed.

Lemma resolve_ref_enum_key l : NoDup (map row_key l) -> forall mo cl ms a b, In (mo, cl, ClsEnum ms) l ->
  exists j, resolve_ref mo cl l a b = Some (PyEnum (b + j)) /\ nth_error (enum_krows l) j = Some (mo, cl, ms).
Proof.
  induction l as [|[[m c] bd] r IH]; intros Hnd mo cl ms a b Hin; [contradiction|].
  cbn [map] in Hnd. inversion Hnd as [|? ? Hnin Hr]; subst. cbn [resolve_ref].
  change (enum_krows ((m, c, bd) :: r)) with ((match bd with ClsEnum ms => [(m, c, ms)] | ClsMessage _ => [] end) ++ enum_krows r).
  destruct (str_eqb mo m && str_eqb cl c) eqn:E.
  - apply andb_prop in E as [E1 E2]. apply str_eqb_eq in E1, E2. subst m c.
    destruct Hin as [Heq | Hin].
    + injection Heq as ->. exists O. split; [now rewrite Nat.add_0_r | reflexivity].
    + exfalso. apply Hnin. replace (row_key (mo, cl, bd)) with (row_key (mo, cl, ClsEnum ms)) by reflexivity. now apply in_map.
  - destruct Hin as [Heq | Hin].
    + injection Heq as -> -> ->. rewrite !str_eqb_refl in E. discriminate.
    + destruct bd as [fs'|ms'].
      * destruct (IH Hr mo cl ms (Datatypes.S a) b Hin) as (j & Hj & Hn). exists j. split; [exact Hj | exact Hn].
      * destruct (IH Hr mo cl ms a (Datatypes.S b) Hin) as (j & Hj & Hn). exists (Datatypes.S j). split; [|exact Hn].
        rewrite Hj. do 2 f_equal. lia.
Qed.

Definition rows_of (pkg : str) (cs : list py_class) : list row := map (fun c => (pkg, fst c, snd c)) cs.
Lemma rows_of_app pkg a b : rows_of pkg (a ++ b) = rows_of pkg a ++ rows_of pkg b.
Proof. apply map_app. Qed.
Lemma class_rows_cons (md : py_module) (t' : class_table) :
  class_rows (md :: t') = rows_of (fst md) (snd md) ++ class_rows t'.
Proof. reflexivity. Qed.

(* ======================================================================================
   the rows of the table of a descriptor set, position by position
   ====================================================================================== *)
Section Positions.
  Variable field_name : str -> str.
  Variable class_name : str -> str.
  Variable enum_member_name : str -> str -> str.
  Variable D : descriptor.
  Variable t : class_table.
  Hypothesis Ht : class_table_of field_name class_name enum_member_name D = Some t.

  Let R := class_rows t.

  Definition msg_rel (e : str * (list str * msg_d)) (kr : str * str * list py_field) : Prop :=
    fst (fst kr) = fst e /\ snd (fst kr) = class_name (dotted (fst (snd e))) /\
    Forall2 (fun x pf => spec_field field_name class_name D (fst e) (fst (snd e)) (snd (snd e)) x = Some pf)
            (md_fields (snd (snd e))) (snd kr).

  Definition renamed (p : list str) (e : enum_d) : list (str * Z) :=
    map (fun nv => (enum_member_name (fst nv) (flat p), snd nv)) (ed_values e).

  Definition enum_rel (e : str * (list str * enum_d)) (kr : str * str * list (str * Z)) : Prop :=
    fst (fst kr) = fst e /\ snd (fst kr) = class_name (dotted (fst (snd e))) /\
    snd kr = renamed (fst (snd e)) (snd (snd e)).

  Lemma enum_part_msgs pkg l : msg_krows (rows_of pkg (map (spec_enum_class class_name enum_member_name) l)) = [].
  Proof. induction l as [|[p e] r IH]; [reflexivity|]. exact IH. Qed.

  Lemma enum_part_enums pkg l :
    Forall2 enum_rel (map (fun pe => (pkg, pe)) l)
            (enum_krows (rows_of pkg (map (spec_enum_class class_name enum_member_name) l))).
  Proof.
    induction l as [|[p e] r IH]; [constructor|].
    change (enum_krows (rows_of pkg (map (spec_enum_class class_name enum_member_name) ((p, e) :: r))))
      with ((pkg, class_name (dotted p), map (fun '(n, v) => (enum_member_name n (flat p), v)) (ed_values e))
            :: enum_krows (rows_of pkg (map (spec_enum_class class_name enum_member_name) r))).
    cbn [map]. constructor; [|exact IH]. unfold enum_rel, renamed. cbn [fst snd]. repeat split.
    apply map_ext. now intros [n v].
  Qed.

  Lemma msg_part pkg l msgs :
    Forall2 (fun pm c => spec_message_class field_name class_name D pkg pm = Some c) l msgs ->
    Forall2 msg_rel (map (fun pm => (pkg, pm)) l) (msg_krows (rows_of pkg msgs)) /\ enum_krows (rows_of pkg msgs) = [].
  Proof.
    induction 1 as [|pm c l msgs Hc _ [IH1 IH2]]; [split; [constructor | reflexivity]|].
    destruct (message_class_shape field_name class_name D pkg pm c Hc) as (fs & -> & F).
    split; [|exact IH2].
    change (msg_krows (rows_of pkg ((class_name (dotted (fst pm)), ClsMessage fs) :: msgs)))
      with ((pkg, class_name (dotted (fst pm)), fs) :: msg_krows (rows_of pkg msgs)).
    cbn [map]. constructor; [|exact IH1]. unfold msg_rel. cbn [fst snd]. repeat split. exact F.
  Qed.

  Lemma rows_struct pkgs t' :
    Forall2 (fun pkg md => spec_module field_name class_name enum_member_name D pkg = Some md) pkgs t' ->
    Forall2 msg_rel (flat_map (fun pkg => map (fun pm => (pkg, pm)) (pkg_msgs D pkg)) pkgs) (msg_krows (class_rows t'))
    /\ Forall2 enum_rel (flat_map (fun pkg => map (fun pe => (pkg, pe)) (pkg_enums D pkg)) pkgs) (enum_krows (class_rows t')).
  Proof.
    induction 1 as [|pkg md pkgs t' Hm _ [IH1 IH2]]; [split; constructor|].
    destruct (module_shape field_name class_name enum_member_name D pkg md Hm) as (msgs & -> & F).
    rewrite class_rows_cons. cbn [fst snd flat_map]. rewrite rows_of_app.
    rewrite !msg_krows_app, !enum_krows_app, enum_part_msgs.
    destruct (msg_part pkg _ _ F) as [M1 M2]. rewrite M2. cbn [app]. split.
    - apply Forall2_app; [exact M1 | exact IH1].
    - rewrite app_nil_r. apply Forall2_app; [apply enum_part_enums | exact IH2].
  Qed.

  Theorem msg_krows_struct : Forall2 msg_rel (gen_msgs D) (msg_krows R).
  Proof. exact (proj1 (rows_struct _ _ (table_modules field_name class_name enum_member_name D t Ht))). Qed.

  Theorem enum_krows_struct : Forall2 enum_rel (gen_enums D) (enum_krows R).
  Proof. exact (proj2 (rows_struct _ _ (table_modules field_name class_name enum_member_name D t Ht))). Qed.

  Lemma n_gen_msgs : length (gen_msgs D) = length (msg_rows R).
  Proof. rewrite <- msg_krows_rows, map_length. exact (Forall2_length' _ _ _ msg_krows_struct). Qed.

  (* the enum table of the generated schema: the value lists of gen_enums, renamed by the plugin *)
  Lemma gen_enum_rows : enum_rows R = map (fun e => renamed (fst (snd e)) (snd (snd e))) (gen_enums D).
  Proof.
    rewrite <- enum_krows_rows. pose proof enum_krows_struct as F. revert F.
    generalize (gen_enums D) (enum_krows R). induction 1 as [|e kr l ys (_ & _ & H) _ IH]; [reflexivity|].
    cbn [map]. now rewrite H, IH.
  Qed.

  (* ---- membership ---- *)
  Lemma gen_msgs_in e : In e (gen_msgs D) -> In (fst e) (output_packages D) /\ In (snd e) (pkg_msgs D (fst e)).
  Proof.
    unfold gen_msgs. intros H. apply in_flat_map in H as (pkg & Hp & H). apply in_map_iff in H as (pm & <- & Hpm).
    cbn [fst snd]. auto.
  Qed.
  Lemma gen_enums_in e : In e (gen_enums D) -> In (fst e) (output_packages D) /\ In (snd e) (pkg_enums D (fst e)).
  Proof.
    unfold gen_enums. intros H. apply in_flat_map in H as (pkg & Hp & H). apply in_map_iff in H as (pe & <- & Hpe).
    cbn [fst snd]. auto.
  Qed.

  Lemma pkg_msgs_origin pkg p m : In (p, m) (pkg_msgs D pkg) ->
    exists f, In f D /\ fl_package f = pkg /\ In (p, m) (file_msgs f) /\ md_map_entry m = false.
  Proof.
    unfold pkg_msgs. intros H. apply filter_In in H as [H Hme]. cbn [snd] in Hme. apply negb_true_iff in Hme.
    apply in_flat_map in H as (f & Hf & H). unfold files_of in Hf. apply filter_In in Hf as [Hf Ep].
    apply str_eqb_eq in Ep. eauto.
  Qed.

  Hypothesis Hcn : class_nodup class_name D = true.

  Lemma paths_inj pkg p q : In pkg (output_packages D) ->
    In p (class_paths D pkg) -> In q (class_paths D pkg) -> class_name (dotted p) = class_name (dotted q) -> p = q.
  Proof.
    intros Hout Hp Hq E. unfold class_nodup in Hcn. rewrite forallb_forall in Hcn. specialize (Hcn pkg Hout).
    apply nodupb_NoDup in Hcn. exact (NoDup_map_inj _ _ p q Hcn Hp Hq E).
  Qed.

  Lemma msg_path_in pkg pm : In pm (pkg_msgs D pkg) -> In (fst pm) (class_paths D pkg).
  Proof. intros H. unfold class_paths. apply in_or_app. right. now apply in_map. Qed.
  Lemma enum_path_in pkg pe : In pe (pkg_enums D pkg) -> In (fst pe) (class_paths D pkg).
  Proof. intros H. unfold class_paths. apply in_or_app. left. now apply in_map. Qed.

  (* a reference to message M of a generated package: class NB + (position of M in gen_msgs) *)
  Theorem msg_ref_index pkg p m :
    In (SymMsg pkg p m) (symbols D) -> pkg <> google_protobuf -> md_map_entry m = false ->
    exists i, pyty_of R (PyRef (module_of_package pkg) (class_name (dotted p))) = Some (PyMsg (NB + i))
      /\ msg_index D pkg p = Some i /\ (i < length (gen_msgs D))%nat.
  Proof.
    intros Hs Hne Hme. destruct (sym_msg_in D pkg p m Hs) as (f & Hf & <- & Hm).
    destruct (row_of_msg_fields field_name class_name enum_member_name D t Ht f p m Hf Hne Hm Hme) as (fs & Hrow & _).
    pose proof (rows_nodup field_name class_name enum_member_name D t Ht Hcn) as Hnd. fold R in Hnd.
    destruct (resolve_ref_msg_key R Hnd _ _ _ O O Hrow) as (i & Hi & Hn). cbn [Nat.add] in Hi.
    destruct (Forall2_nth_r _ _ _ msg_krows_struct i _ Hn) as (e & He & Hk1 & Hk2 & _). cbn [fst snd] in Hk1, Hk2.
    assert (Hout : In (fl_package f) (output_packages D)) by now apply output_package_in.
    assert (Hpin : In (p, m) (pkg_msgs D (fl_package f))).
    { unfold pkg_msgs. apply filter_In. split; [|cbn [snd]; now rewrite Hme].
      apply in_flat_map. exists f. split; [now apply files_of_intro | assumption]. }
    destruct (gen_msgs_in e (nth_error_In _ _ He)) as [_ Hein]. rewrite <- Hk1 in Hein.
    assert (Ep : fst (snd e) = p).
    { apply (paths_inj (fl_package f)); [assumption | now apply msg_path_in | exact (msg_path_in _ _ Hpin) | now symmetry]. }
    exists i. split.
    { cbn [pyty_of]. unfold module_of_package. apply str_eqb_neq in Hne. now rewrite Hne. }
    split; [|apply nth_error_Some; congruence].
    unfold msg_index. apply (find_index_unique _ _ i e He).
    - unfold at_path. rewrite <- Hk1, Ep, str_eqb_refl. now apply path_eqb_eq.
    - intros j e' Hj Hp'. unfold at_path in Hp'. apply andb_prop in Hp' as [P1 P2]. apply str_eqb_eq in P1.
      apply path_eqb_eq in P2.
      destruct (Forall2_nth_l _ _ _ msg_krows_struct j e' Hj) as (kr' & Hkr' & K1 & K2 & _).
      pose proof (msg_krows_nodup R Hnd) as Hkn. rewrite NoDup_nth_error in Hkn. apply Hkn.
      + rewrite map_length. apply nth_error_Some. congruence.
      + rewrite !nth_error_map, Hkr', Hn. cbn [option_map fst]. f_equal. destruct kr' as [[a b] c]. cbn [fst snd] in *.
        now rewrite K1, K2, P1, P2.
  Qed.

  Theorem enum_ref_index pkg p e :
    In (SymEnum pkg p e) (symbols D) -> pkg <> google_protobuf ->
    exists j, pyty_of R (PyRef (module_of_package pkg) (class_name (dotted p))) = Some (PyEnum j)
      /\ enum_index D pkg p = Some j.
  Proof.
    intros Hs Hne. destruct (sym_enum_in D pkg p e Hs) as (f & Hf & <- & He).
    destruct (row_of_enum field_name class_name enum_member_name D t Ht f p e Hf Hne He) as (ms & Hrow).
    pose proof (rows_nodup field_name class_name enum_member_name D t Ht Hcn) as Hnd. fold R in Hnd.
    destruct (resolve_ref_enum_key R Hnd _ _ _ O O Hrow) as (j & Hj & Hn). cbn [Nat.add] in Hj.
    destruct (Forall2_nth_r _ _ _ enum_krows_struct j _ Hn) as (x & Hx & Hk1 & Hk2 & _). cbn [fst snd] in Hk1, Hk2.
    assert (Hout : In (fl_package f) (output_packages D)) by now apply output_package_in.
    assert (Hpin : In (p, e) (pkg_enums D (fl_package f))).
    { unfold pkg_enums. apply in_flat_map. exists f. split; [now apply files_of_intro | assumption]. }
    destruct (gen_enums_in x (nth_error_In _ _ Hx)) as [_ Hxin]. rewrite <- Hk1 in Hxin.
    assert (Ep : fst (snd x) = p).
    { apply (paths_inj (fl_package f)); [assumption | now apply enum_path_in | exact (enum_path_in _ _ Hpin) | now symmetry]. }
    exists j. split.
    { cbn [pyty_of]. unfold module_of_package. apply str_eqb_neq in Hne. now rewrite Hne. }
    unfold enum_index. apply (find_index_unique _ _ j x Hx).
    - unfold at_path. rewrite <- Hk1, Ep, str_eqb_refl. now apply path_eqb_eq.
    - intros j' x' Hj' Hp'. unfold at_path in Hp'. apply andb_prop in Hp' as [P1 P2]. apply str_eqb_eq in P1.
      apply path_eqb_eq in P2.
      destruct (Forall2_nth_l _ _ _ enum_krows_struct j' x' Hj') as (kr' & Hkr' & K1 & K2 & _).
      pose proof (enum_krows_nodup R Hnd) as Hkn. rewrite NoDup_nth_error in Hkn. apply Hkn.
      + rewrite map_length. apply nth_error_Some. congruence.
      + rewrite !nth_error_map, Hkr', Hn. cbn [option_map fst]. f_equal. destruct kr' as [[a b] c]. cbn [fst snd] in *.
        now rewrite K1, K2, P1, P2.
  Qed.

  (* the runtime class of the i-th message of gen_msgs *)
  Theorem gen_class_at i e : nth_error (gen_msgs D) i = Some e ->
    exists k fs, get_class (schema_of_table t) (NB + i) = tr_class R k fs
      /\ Forall2 (fun x pf => spec_field field_name class_name D (fst e) (fst (snd e)) (snd (snd e)) x = Some pf)
                 (md_fields (snd (snd e))) fs.
  Proof.
    intros He. destruct (Forall2_nth_l _ _ _ msg_krows_struct i e He) as (kr & Hkr & _ & _ & F).
    assert (Hn : nth_error (msg_rows R) i = Some (snd kr)).
    { rewrite <- msg_krows_rows, nth_error_map, Hkr. reflexivity. }
    destruct (user_class_at t i (snd kr) Hn) as (k & Hk). exists k, (snd kr). split; [exact Hk | exact F].
  Qed.
End Positions.
