(* C08 evolution — one nested message written by the NEWER writer under any field number:
   the record it occupies, what the OLDER reader decodes from it (the induction hypothesis [Evo]),
   the record the OLDER writer emits for the decoded value, and why the NEWER reader cannot tell the two records apart. *)
From Coq Require Import ZArith List Bool Lia ZifyBool.
From BP Require Import Base.Prelude Model.Types Model.Varint Model.Scalar Model.Float Model.Utf8.
From BP Require Import Model.Object Model.Eq Model.TimeCore Model.Encode Model.Decode Model.WellFormed Model.C01Def.
From BP Require Model.C08Step.
From BP Require Import gen.Tables Proofs.BytesP Proofs.VarintP Proofs.LenP Proofs.C01Scalar Proofs.C01Frame Proofs.C01Step Proofs.C01Apply
     Proofs.C01Elem Proofs.C01Field Proofs.C01Builtin Proofs.C01Unfold Proofs.C01Value.
From BP Require Proofs.C08StepP.
From BP Require Import Proofs.C08EvoDef Proofs.C08EvoBridge.
Import ListNotations.

Lemma preprocess_msg e o : preprocess_with (msg_bytes e) TMessage None (PMsg o) = e o.
Proof. reflexivity. Qed.

(* _serialize_single of a message-typed value, without wrapper *)
Lemma ser_msg_shape msg num v se val :
  preprocess_with msg TMessage None v = Ok val ->
  serialize_with msg num TMessage v se None =
  (if negb (Zlength val =? 0) || se
   then do key <- encode_varint (Z.lor (Z.shiftl num 3) 2); do n <- encode_varint (Zlength val); Ok (key ++ n ++ val)
   else Ok []).
Proof.
  intros H. unfold serialize_with. rewrite H. cbn [bind].
  change (tmem TMessage WIRE_VARINT_TYPES) with false. change (tmem TMessage WIRE_FIXED_32_TYPES) with false.
  change (tmem TMessage WIRE_FIXED_64_TYPES) with false. change (tmem TMessage WIRE_LEN_DELIM_TYPES) with true.
  cbv iota. rewrite orb_false_r. reflexivity.
Qed.

(* the record of a written message payload *)
Lemma msg_record num val :
  1 <= num < 2 ^ 29 ->
  exists key n, encode_varint (Z.lor (Z.shiftl num 3) 2) = Ok key /\ encode_varint (Zlength val) = Ok n /\ key <> [] /\
    (small (key ++ n ++ val) -> reads (key ++ n ++ val) (mkP num 2 0 val (key ++ n ++ val))).
Proof.
  intros Hn. destruct (tag_fields num 2 Hn ltac:(lia)) as (Hr & _).
  destruct (varint_rt_nonneg _ Hr) as (key & E & Nk & _).
  pose proof (Zlength_nonneg val) as H0.
  destruct (encode_nonneg_canonical (Zlength val) H0) as (n & E' & _).
  exists key, n. split; [exact E|]. split; [exact E'|]. split; [exact Nk|].
  intros Hs. apply reads_len; auto. apply small_app_r in Hs. apply small_app_r in Hs. exact Hs.
Qed.

Lemma app_len3 (a b c d : list byte) : length c = length d -> length (a ++ b ++ c) = length (a ++ b ++ d).
Proof. intros H. rewrite !app_length. lia. Qed.

Lemma Zlength_eq_length {A B} (a : list A) (b : list B) : length a = length b -> Zlength a = Zlength b.
Proof. unfold Zlength. intros ->. reflexivity. Qed.

(* what the decoder makes of a length-delimited record on a singular / repeated message field *)
Lemma decode_msg F sc f c' num val bs :
  fty f = TMessage -> hint_elem (fhint f) = PyMsg c' -> fwraps f = None ->
  wire_type_fits f (pwt (mkP num 2 0 val bs)) = true /\
  decode_value F sc f (mkP num 2 0 val bs) = (do m <- parse_new F sc c' val; Ok (mark_sow (PMsg m))).
Proof.
  intros Ht Hh Hw.
  destruct (decode_len F sc f num val bs) as (Hfit & Hdec); [rewrite Ht; reflexivity | rewrite Ht; reflexivity |].
  split; [exact Hfit|]. rewrite Hdec. unfold post_len. rewrite Ht, Hh, Hw. reflexivity.
Qed.

Lemma mark_sow_flag m : osow m = true -> mark_sow (PMsg m) = PMsg m.
Proof. destruct m as [c r s u g]. cbn. intros ->. reflexivity. Qed.

Lemma marked_flag sc m : osow m = true -> marked sc (PMsg m) = PMsg m.
Proof. intros H. unfold marked. destruct (fieldless sc (PMsg m)); [apply mark_sow_flag, H | reflexivity]. Qed.

(* two records the newer reader treats alike *)
Lemma req_dv sn F cd j f p p' :
  pnum p = pnum p' -> pwt p = pwt p' ->
  field_by_number cd (pnum p) = Some (j, f) -> wire_type_fits f (pwt p) = true ->
  decode_value F sn f p = decode_value F sn f p' -> req sn F cd p p'.
Proof.
  intros Hn Hw Hfb Hfit Hd o. rewrite !C08StepP.step_eq. rewrite <- Hn, <- Hw, Hfb, Hfit. cbn [negb].
  rewrite dv_same, Hd. reflexivity.
Qed.

Section Msg.
  Variables (sn : schema) (masks : list (list bool)).
  Let so := C08Step.drop_fields masks sn.

  (* everything about one nested message o written under field number num with serialize_empty = se *)
  Lemma msg_elem o num se :
    1 <= num < 2 ^ 29 ->
    Evo sn masks o -> Good sn o ->
    exists y, enc_obj sn o = Ok y /\ (y = [] -> obj_default sn o = true) /\
      exists B, serialize_with (msg_bytes (enc_obj sn)) num TMessage (PMsg o) se None = Ok B /\
        (B = [] <-> (y = [] /\ se = false)) /\
        (B <> [] -> small B ->
           (length y < length B)%nat /\ reads B (mkP num 2 0 y B) /\
           exists mo y' B',
             osow mo = true /\ enc_obj so mo = Ok y' /\ length y' = length y /\
             (forall F, (length y < F)%nat -> parse_new F so (ocls o) y = Ok mo) /\
             (forall F, (length y < F)%nat -> parse_new F sn (ocls o) y = Ok (norm_obj sn o)) /\
             (forall F, (length y < F)%nat -> parse_new F sn (ocls o) y' = Ok (norm_obj sn o)) /\
             (forall se', (se' = true \/ y <> []) ->
                serialize_with (msg_bytes (enc_obj so)) num TMessage (PMsg mo) se' None = Ok B') /\
             length B' = length B /\ reads B' (mkP num 2 0 y' B')).
  Proof.
    intros Hn (y & Ey & Hevo) (y0 & Ey0 & Hdef & Hgood). rewrite Ey in Ey0. injection Ey0 as <-.
    exists y. split; [exact Ey|]. split; [exact Hdef|].
    destruct (msg_record num y Hn) as (key & n & Ek & En & Nk & Hreads).
    rewrite (ser_msg_shape _ num (PMsg o) se y) by (rewrite preprocess_msg; exact Ey).
    rewrite Zlength_zero_iff.
    destruct (negb (match y with [] => true | _ => false end) || se) eqn:Hc.
    - rewrite Ek, En. cbn [bind]. eexists. split; [reflexivity|]. split.
      { split; [intros Hb; destruct key; [congruence | discriminate Hb]|].
        intros (-> & ->). cbn in Hc. discriminate. }
      intros _ Hs. specialize (Hreads Hs).
      assert (Hly : (length y < length (key ++ n ++ y))%nat).
      { rewrite !app_length. destruct key; [congruence|]. cbn [length]. lia. }
      split; [exact Hly|]. split; [exact Hreads|].
      assert (Hsy : small y) by (apply small_app_r in Hs; apply small_app_r in Hs; exact Hs).
      destruct (Hevo Hsy) as (mo & y' & Hlo & Hsow & Ey' & Hly' & Hln).
      exists mo, y', (key ++ n ++ y'). split; [exact Hsow|]. split; [exact Ey'|]. split; [exact Hly'|].
      split; [intros F HF; unfold parse_new, so; rewrite (Hlo F HF); reflexivity|].
      split; [intros F HF; unfold parse_new; rewrite (Hgood Hsy F HF); reflexivity|].
      split; [intros F HF; unfold parse_new; rewrite (Hln F ltac:(lia)); reflexivity|].
      assert (Hz : Zlength y' = Zlength y) by (apply Zlength_eq_length; exact Hly').
      split.
      { intros se' Hse'. rewrite (ser_msg_shape _ num (PMsg mo) se' y') by (rewrite preprocess_msg; exact Ey').
        rewrite Zlength_zero_iff.
        assert (Hc' : negb (match y' with [] => true | _ => false end) || se' = true).
        { destruct Hse' as [->|Hy]; [apply orb_true_r|]. destruct y'; [|reflexivity].
          destruct y; [congruence | discriminate Hly']. }
        rewrite Hc', Ek, Hz, En. reflexivity. }
      split; [apply app_len3; exact Hly'|].
      destruct (msg_record num y' Hn) as (key' & n' & Ek' & En' & _ & Hreads').
      rewrite Ek in Ek'. injection Ek' as <-. rewrite Hz, En in En'. injection En' as <-.
      apply Hreads'. unfold small in *. rewrite !Zlength_app in *. rewrite Hz. exact Hs.
    - exists []. split; [reflexivity|]. split; [|congruence].
      split; [intros _|reflexivity].
      apply orb_false_iff in Hc as [Hc ->]. apply negb_false_iff in Hc. destruct y; [auto | discriminate].
  Qed.
End Msg.
