(* C10 gap closing, third group (table: top of Proofs/C10GapA.v, clause (2)): the end of the stream.  After the last message the
   stream is exhausted: one more load raises EOFError - it never returns a phantom (empty) message. *)
From Coq Require Import ZArith List Bool Lia.
From BP Require Import Base.Prelude Model.Types Model.Varint Model.Object Model.Eq Model.Encode Model.Len Model.Decode.
From BP Require Import Model.C10Stream Model.C10Rt Model.C10GapDefs.
From BP Require Import Spec.Varint Proofs.VarintP Proofs.C10FieldP Proofs.C10FrameP Proofs.C10StreamP Proofs.C10RtGenP Proofs.C10GapA.
Import ListNotations.

Theorem load_at_end sc c : load_delimited sc c [] = Err EEof.
Proof. apply (proj1 (load_total_spec sc c [])). reflexivity. Qed.

Lemma loads_app sc : forall cs1 cs2 s,
  loads sc (cs1 ++ cs2) s =
  match loads sc cs1 s with
  | (l1, Ok s') => let '(l2, r2) := loads sc cs2 s' in (l1 ++ l2, r2)
  | (l1, Err e) => (l1, Err e)
  end.
Proof.
  induction cs1 as [|c cs1 IH]; intros cs2 s.
  - cbn [app loads]. destruct (loads sc cs2 s) as [l2 r2]. reflexivity.
  - cbn [app loads]. destruct (load_delimited sc c s) as [[m s1]|e]; [|reflexivity].
    rewrite IH. destruct (loads sc cs1 s1) as [l1 [s'|e]]; [|reflexivity].
    destruct (loads sc cs2 s') as [l2 r2]. reflexivity.
Qed.

Theorem loads_past_end scW scR ms cs stream l c cs' :
  Forall (fun m => msg_small scW m = true) ms ->
  dump_stream scW ms = Ok stream -> length cs = length ms ->
  parse_each scW scR cs ms = (l, true) ->
  loads scR (cs ++ c :: cs') stream = (l, Err EEof).
Proof.
  intros Hs D Hl PE. rewrite loads_app.
  pose proof (loads_parse_each scW scR ms cs stream [] l Hs D Hl PE) as L. rewrite app_nil_r in L. rewrite L.
  cbn [loads]. rewrite load_at_end. rewrite app_nil_r. reflexivity.
Qed.
