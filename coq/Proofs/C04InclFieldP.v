(* C04 (include_default_values generic, wfx schemas): the round trip of one element and of one field value.
   Whatever to_dict(include_default_values=incl) emits for a field of a wfx class holding an in-range value (not None) is
   read back by _from_dict_init as the normal form gnorm_pv of that value.  Mirrors C04ElemP.elem_rt / C04FieldP.field_rt,
   plus the repeated wrapper kind. *)
From BP Require Import Base.Prelude Model.Types Model.Float Model.Utf8 Model.Object Model.Eq Model.TimeCore.
From BP Require Import Model.Encode Model.WellFormed Model.Json Model.C04RepWrap.
From BP Require Import Spec.Time.
From BP Require Model.Time Model.Enum Model.Casing.
From BP Require Import gen.Tables Proofs.BytesP Proofs.C04Def Proofs.C04ScalarP Proofs.C04CalP Proofs.C04CalSweepP Proofs.C04ElemP
  Proofs.C04FieldP Proofs.C04ObjP Proofs.C04InclDef Proofs.C04InclBaseP.
From Coq Require Import Lia ZifyBool.

(* ---------------------------------------------------------------------------------- *)
(* gnorm_pv on values that hold no message                                             *)
(* ---------------------------------------------------------------------------------- *)
Lemma gnorm_scalar incl sc t v : scalar_in_range t v = true -> gnorm_pv incl sc v = v.
Proof. destruct t, v; try discriminate; reflexivity. Qed.

Lemma gnorm_pv_msg incl sc o : gnorm_pv incl sc (PMsg o) = PMsg (gnorm_obj incl sc o).
Proof. unfold gnorm_obj. destruct o as [c raw s u g]. reflexivity. Qed.

Lemma gnorm_scalar_list incl sc t l : (forall y, In y l -> scalar_in_range t y = true) -> map (gnorm_pv incl sc) l = l.
Proof.
  intros H. rewrite <- (map_id l) at 2. apply map_ext_in. intros y Hy. apply (gnorm_scalar incl sc t). apply H, Hy.
Qed.

(* emittedG does not depend on the recursive printer *)
Lemma emittedG_some rec sc incl f sel v j : field_to_json rec sc incl f sel v = Some j -> emittedG sc incl f sel v = true.
Proof.
  intros H. unfold emittedG. pose proof (field_to_json_shape rec (fun _ => JNull) sc incl f sel v) as S.
  rewrite H in S. destruct (field_to_json (fun _ => JNull) sc incl f sel v); [reflexivity|contradiction].
Qed.
Lemma emittedG_none rec sc incl f sel v : field_to_json rec sc incl f sel v = None -> emittedG sc incl f sel v = false.
Proof.
  intros H. unfold emittedG. pose proof (field_to_json_shape rec (fun _ => JNull) sc incl f sel v) as S.
  rewrite H in S. destruct (field_to_json (fun _ => JNull) sc incl f sel v); [contradiction|reflexivity].
Qed.

(* ---------------------------------------------------------------------------------- *)
(* one element                                                                         *)
(* ---------------------------------------------------------------------------------- *)
Section Elem.
  Variable sc : schema.
  Variable cs : casing.
  Variable b : bool.
  Variable incl : bool.
  Variable n : nat.
  Hypothesis IHo : forall o', (pv_size (PMsg o') < n)%nat -> in_rangex sc o' = true -> pv_goodG incl sc (PMsg o') = true ->
    from_dict_cls sc (ocls o') (tr b (to_dict cs incl sc o')) = Ok (gnorm_obj incl sc o').

  Let nc := length (classes sc).
  Let ne := length (enums sc).

  Lemma elem_rtG t p v :
    (pv_size v < n)%nat ->
    pyty_fits nc ne t p = true ->
    elem_in_rangex sc t p v = true -> pv_goodG incl sc v = true -> nan_canonical v = true ->
    elem_from_json (recf sc) sc t p (tr b (elem_to_json (to_dict cs incl sc) sc t p v)) = Ok (gnorm_pv incl sc v).
  Proof.
    intros Hs Hp Hr Hg Hn.
    destruct (scalar_py p) eqn:Sp.
    - pose proof (fits_scalar _ _ _ _ Sp Hp) as Ht. rewrite (elem_scalarx _ _ _ _ Sp) in Hr.
      destruct (scalar_not_message t Ht) as [Nm _].
      assert (E : elem_to_json (to_dict cs incl sc) sc t p v = scalar_to_json sc t p v)
        by (destruct t, v; try discriminate Hr; reflexivity).
      rewrite E. unfold elem_from_json. rewrite Nm.
      rewrite (gnorm_scalar incl sc t v Hr).
      destruct p; try discriminate Sp; apply scalar_roundtrip; assumption.
    - pose proof (fits_message _ _ _ _ Sp Hp) as ->.
      destruct p; try discriminate Sp.
      + destruct v as [| | | | | | | | | | |o]; try discriminate Hr.
        destruct (in_range_objx sc c o Hr) as [-> Ho].
        cbn [elem_to_json elem_from_json]. change (ptype_eqb TMessage TMessage) with true. cbv iota.
        change (recf sc (ocls o) (tr b (to_dict cs incl sc o))) with (from_dict_cls sc (ocls o) (tr b (to_dict cs incl sc o))).
        rewrite (IHo o Hs Ho Hg). cbn [bind]. rewrite gnorm_pv_msg. reflexivity.
      + destruct v; try discriminate Hr. cbn [elem_in_rangex] in Hr.
        cbn [elem_to_json elem_from_json]. rewrite tr_str.
        rewrite (iso_roundtrip us cal_fact_holds Hr). reflexivity.
      + destruct v; try discriminate Hr. cbn [elem_in_rangex] in Hr.
        cbn [elem_to_json elem_from_json]. rewrite tr_str.
        rewrite (duration_roundtrip us Hr). reflexivity.
  Qed.

  (* a singular message-typed value (Timestamp, Duration, nested message) *)
  Lemma single_message_rtG p x :
    (pv_size x < n)%nat -> scalar_py p = false -> pyty_fits nc ne TMessage p = true ->
    elem_in_rangex sc TMessage p x = true -> pv_goodG incl sc x = true ->
    let j := elem_to_json (to_dict cs incl sc) sc TMessage p x in
    list_or_single (elem_from_json (recf sc) sc TMessage p) (tr b j) = Ok (gnorm_pv incl sc x) /\ tr b j <> JNull.
  Proof.
    intros Hs Sp Hp Hr Hg j.
    assert (Hn : nan_canonical x = true) by (destruct p, x; try discriminate; reflexivity).
    pose proof (elem_rtG TMessage p x Hs Hp Hr Hg Hn) as R. fold j in R.
    assert (K : (exists s, j = JStr s) \/ (exists d, j = JObj d)).
    { unfold j. destruct p; try discriminate Sp; destruct x; try discriminate Hr; cbn [elem_to_json];
        try (left; eexists; reflexivity). right. apply to_dict_is_obj. }
    destruct K as [[s E]|[d E]]; rewrite E in *.
    - rewrite tr_str in *. split; [exact R|discriminate].
    - rewrite tr_obj in *. split; [exact R|discriminate].
  Qed.

  (* a list of scalars of proto type t (repeated scalar field, repeated wrapper field) *)
  Lemma scalar_list_rtG t p l :
    tmem t scalar_ptypes = true -> pyty_fits nc ne t p = true -> scalar_py p = true ->
    (forall y, In y l -> scalar_in_range t y = true) -> (forall y, In y l -> not_nan y = true) ->
    list_or_single (scalar_from_json sc t p) (tr b (JList (map (scalar_to_json sc t p) l))) = Ok (PList l).
  Proof.
    intros Ht Hp Sp Hv Hn. rewrite tr_list. cbn [list_or_single]. rewrite map_map.
    rewrite (mapM_map _ _ (fun v => v)).
    - cbn [bind]. rewrite map_id. reflexivity.
    - intros y Hy. apply scalar_roundtrip; try assumption; [apply Hv, Hy|apply not_nan_canonical, Hn, Hy].
  Qed.

  Lemma field_rtG ng f sel x j :
    wfx_field sc ng f = true -> (fgroup f = None -> sel = None) ->
    (pv_size x < n)%nat -> x <> PPlaceholder -> x <> PNone ->
    value_okx sc f x = true -> pv_goodG incl sc x = true -> field_nan_ok x = true ->
    field_to_json (to_dict cs incl sc) sc incl f sel x = Some j ->
    value_from_json (recf sc) sc f (tr b j) = Ok (gnorm_pv incl sc x) /\ tr b j <> JNull.
  Proof.
    intros W Hsel Hs Hx Hxn Hv Hg Hn Hj.
    unfold value_okx in Hv. unfold field_to_json in Hj. unfold value_from_json. unfold hint_elem in *. unfold elem_ptype in Hv.
    destruct (wfx_kind sc ng f W) as [p Hh Ho Hw Hm Hp|p w Hh Hw Ho Hm Hgr Ht Hws Sp Hp|p Hh Hw Ho Hm Hgr Hp|p Hh Hw Ho Hm Hgr Hp
                                     |pk p kt vt Hh Hw Ho Hm Hgr Ht Hk Hp|p w Hh Hw Ho Hm Hgr Ht Hws Sp Hp];
      fold nc ne in Hp; rewrite ?Hh, ?Hw, ?Ho, ?Hm in *.
    - (* ---- plain ---- *)
      assert (Hr : elem_in_rangex sc (fty f) p x = true) by (destruct x; try congruence; exact Hv).
      destruct (scalar_py p) eqn:Sp.
      + pose proof (fits_scalar _ _ _ _ Sp Hp) as Ht. destruct (scalar_not_message _ Ht) as [Nm Np].
        rewrite Nm, Np in *. rewrite (elem_scalarx _ _ _ _ Sp) in Hr.
        destruct (negb (is_default sc f x) || (incl || match sel with Some true => true | _ => false end)); [|discriminate Hj].
        assert (E : j = scalar_to_json sc (fty f) p x)
          by (destruct x; try congruence; inversion Hj; reflexivity).
        subst j. pose proof (scalar_atom sc _ p x Ht Hp Hr) as A.
        rewrite (list_or_single_atom _ _ (atom_tr b _ A)).
        split.
        * rewrite (gnorm_scalar incl sc _ x Hr). apply scalar_roundtrip; try assumption.
          destruct x; try reflexivity. exact Hn.
        * pose proof (atom_tr b _ A) as A'. destruct (tr b (scalar_to_json sc (fty f) p x)); try discriminate A'; discriminate.
      + pose proof (fits_message _ _ _ _ Sp Hp) as Et. rewrite Et in *. change (ptype_eqb TMessage TMessage) with true in *. cbv iota in Hj.
        assert (E : j = elem_to_json (to_dict cs incl sc) sc TMessage p x).
        { destruct p; try discriminate Sp; destruct x; try discriminate Hr; cbn [elem_to_json];
            apply emit_some in Hj as [_ Hj]; symmetry; exact Hj. }
        subst j. apply single_message_rtG; assumption.
    - (* ---- wrapper ---- *)
      rewrite Ht in *. change (ptype_eqb TMessage TMessage) with true in *. cbv iota in Hj.
      assert (Hr : scalar_in_range w x = true) by (rewrite <- (elem_scalarx sc w p x Sp); destruct x; try congruence; exact Hv).
      assert (E : j = scalar_to_json sc w p x).
      { destruct x; try congruence; try (destruct w; discriminate Hr); inversion Hj; reflexivity. }
      subst j. pose proof (scalar_atom sc w p x Hws Hp Hr) as A. pose proof (atom_tr b _ A) as A'.
      rewrite (gnorm_scalar incl sc w x Hr).
      split.
      + assert (Hn' : nan_canonical x = true) by (destruct x; try reflexivity; exact Hn).
        destruct p; try discriminate Sp; rewrite (list_or_single_atom _ _ A'); apply scalar_roundtrip; assumption.
      + destruct (tr b (scalar_to_json sc w p x)); try discriminate A'; discriminate.
    - (* ---- proto3 optional ---- *)
      specialize (Hsel Hgr). subst sel.
      assert (Hr : elem_in_rangex sc (fty f) p x = true) by (destruct x; try congruence; exact Hv).
      destruct (scalar_py p) eqn:Sp.
      + pose proof (fits_scalar _ _ _ _ Sp Hp) as Ht. destruct (scalar_not_message _ Ht) as [Nm Np].
        rewrite Nm, Np in *. rewrite (elem_scalarx _ _ _ _ Sp) in Hr.
        destruct (negb (is_default sc f x) || (incl || false)); [|discriminate Hj].
        assert (E : j = scalar_to_json sc (fty f) p x)
          by (destruct x; try congruence; inversion Hj; reflexivity).
        subst j. pose proof (scalar_atom sc _ p x Ht Hp Hr) as A. pose proof (atom_tr b _ A) as A'.
        rewrite (list_or_single_atom _ _ A'). rewrite (gnorm_scalar incl sc _ x Hr).
        split.
        * apply scalar_roundtrip; try assumption. destruct x; try reflexivity. exact Hn.
        * destruct (tr b (scalar_to_json sc (fty f) p x)); try discriminate A'; discriminate.
      + pose proof (fits_message _ _ _ _ Sp Hp) as Et. rewrite Et in *. change (ptype_eqb TMessage TMessage) with true in *. cbv iota in Hj.
        assert (E : j = elem_to_json (to_dict cs incl sc) sc TMessage p x).
        { destruct p; try discriminate Sp; destruct x; try discriminate Hr; try congruence; cbn [elem_to_json];
            apply emit_some in Hj as [_ Hj]; symmetry; exact Hj. }
        subst j. apply single_message_rtG; assumption.
    - (* ---- repeated ---- *)
      destruct x as [| | | | | | | | |l| |]; try discriminate Hv; try congruence. clear Hx Hxn.
      rewrite forallb_forall in Hv.
      cbn [field_nan_ok] in Hn. rewrite forallb_forall in Hn.
      unfold pv_goodG in Hg. cbn [pv_all] in Hg. rewrite forallb_forall in Hg.
      cbn [gnorm_pv].
      destruct (scalar_py p) eqn:Sp.
      + pose proof (fits_scalar _ _ _ _ Sp Hp) as Ht. destruct (scalar_not_message _ Ht) as [Nm Np].
        rewrite Nm, Np in *.
        destruct (negb (is_default sc f (PList l)) || (incl || match sel with Some true => true | _ => false end)); [|discriminate Hj].
        inversion Hj; subst j; clear Hj.
        assert (Hv' : forall y, In y l -> scalar_in_range (fty f) y = true)
          by (intros y Hy; rewrite <- (elem_scalarx sc _ p y Sp); apply Hv, Hy).
        rewrite (gnorm_scalar_list incl sc _ l Hv').
        split; [apply scalar_list_rtG; assumption|rewrite tr_list; discriminate].
      + pose proof (fits_message _ _ _ _ Sp Hp) as Et. rewrite Et in *. change (ptype_eqb TMessage TMessage) with true in *. cbv iota in Hj.
        apply emit_some in Hj as [_ Hj]. subst j. rewrite tr_list. cbn [list_or_single]. rewrite map_map.
        split; [|discriminate].
        rewrite (mapM_map _ _ (gnorm_pv incl sc)); [reflexivity|].
        intros y Hy. apply elem_rtG; try assumption.
        * rewrite size_list in Hs. pose proof (in_sum_size y l Hy). lia.
        * apply Hv, Hy.
        * apply Hg, Hy.
        * apply not_nan_canonical, Hn, Hy.
    - (* ---- map ---- *)
      destruct x as [| | | | | | | | | |d|]; try discriminate Hv; try congruence. clear Hx Hxn.
      rewrite forallb_forall in Hv.
      cbn [field_nan_ok] in Hn. rewrite forallb_forall in Hn.
      unfold pv_goodG in Hg. cbn [pv_all] in Hg. rewrite forallb_forall in Hg.
      rewrite Ht in *. change (ptype_eqb TMap TMessage) with false in *. change (ptype_eqb TMap TMap) with true in *. cbv iota in Hj.
      apply emit_some in Hj as [_ Hj]. subst j. rewrite tr_obj. rewrite map_map. cbn [gnorm_pv].
      split; [|discriminate].
      rewrite (mapM_map _ _ (fun kx => (fst kx, gnorm_pv incl sc (snd kx)))); [reflexivity|].
      intros [k y] Hy. cbn [fst snd].
      specialize (Hv _ Hy). cbn [fst snd] in Hv. apply andb_prop in Hv as [Hk' Hy'].
      rewrite (key_roundtrip b kt k Hk Hk'). cbn [bind].
      rewrite (elem_rtG vt p y); try assumption.
      + reflexivity.
      + rewrite size_dict in Hs. pose proof (in_sum_size_d k y d Hy). lia.
      + apply (Hg _ Hy).
      + apply not_nan_canonical. apply (Hn _ Hy).
    - (* ---- repeated wrapper ---- *)
      destruct x as [| | | | | | | | |l| |]; try discriminate Hv; try congruence. clear Hx Hxn.
      rewrite forallb_forall in Hv.
      cbn [field_nan_ok] in Hn. rewrite forallb_forall in Hn.
      rewrite Ht in *. change (ptype_eqb TMessage TMessage) with true in *. cbv iota in Hj.
      inversion Hj; subst j; clear Hj.
      assert (Hv' : forall y, In y l -> scalar_in_range w y = true)
        by (intros y Hy; rewrite <- (elem_scalarx sc _ p y Sp); apply Hv, Hy).
      cbn [gnorm_pv]. rewrite (gnorm_scalar_list incl sc w l Hv').
      split; [destruct p; try discriminate Sp; apply scalar_list_rtG; assumption|rewrite tr_list; discriminate].
  Qed.
End Elem.
