(* C02, encoder side: from the slots of a message to the message.  [slot_legal]: what Message.dump writes for one
   slot is a legal record sequence of that field's number, each record fine ([rec_fine]); [walk2]: the records of all
   slots are in declaration order ([okrs]); hence (Proofs/C02LegalSpec.v) the encoding has a denotation and is
   supported, and that denotation is the abstraction of the decoded object (C02_decode_refines + C01_roundtrip). *)
From BP Require Import Base.Prelude Model.Types Model.Varint Model.Scalar Model.Float Model.Utf8.
From BP Require Import Model.Object Model.Eq Model.TimeCore Model.Encode Model.Decode Model.WellFormed Model.C01Def.
From BP Require Import Spec.Varint Spec.Wire.
From BP Require Import Proofs.BytesP Proofs.LenP Proofs.C02Abs Proofs.C02WireP Proofs.C02LoadP Proofs.C02ListP Proofs.C02StepP Proofs.C02SimP
     Proofs.C02ElemP Proofs.C02LoopP Proofs.C02MapP Proofs.C02FinalP.
From BP Require Import Proofs.C01Frame Proofs.C01Elem Proofs.C01Builtin Proofs.C01Unfold Proofs.C01Value Proofs.C01Main.
From BP Require Import Proofs.C02LegalSpec Proofs.C02LegalLeaf.
From BP Require Import gen.Tables.

(* [bs] is a legal serialisation of a message of class c that denotes [a] and is inside [supported], at every depth
   the byte string can need *)
Definition legal_at (sc : schema) (c : nat) (bs : list byte) (a : aval) : Prop :=
  exists rs, wire_ok bs rs /\
    forall n, (length bs < n)%nat -> sem n sc c rs = Some a /\ supported n sc c rs = true.

Definition Good2 (sc : schema) (o : obj) : Prop :=
  forall bs, enc_obj sc o = Ok bs -> lsmall bs -> legal_at sc (ocls o) bs (abs_obj sc (norm_obj sc o)).

Lemma nested_of_legal sc c b a n' :
  legal_at sc c b a -> (length b < n')%nat -> nested_sem n' sc c b = Some a /\ nested_ok_of n' sc c b = true.
Proof.
  intros (rs & W & H) L. destruct (H n' L) as (Sm & Sp).
  unfold nested_sem, nested_ok_of. rewrite (wire_ok_parse _ _ W). cbn [obind]. auto.
Qed.

Lemma wire_ok_fun bs rs rs' : wire_ok bs rs -> wire_ok bs rs' -> rs = rs'.
Proof. intros A B. apply wire_ok_parse in A, B. congruence. Qed.

Definition slot_legal (sc : schema) (cur : list (option nat)) (i : nat) (f : fdesc) (x : pv) : Prop :=
  forall n' here, enc_slot sc cur i f x = Ok here -> lsmall here -> (length here <= n')%nat ->
    exists rs, wire_ok here rs /\
      Forall (fun r => fst r = fnum f /\ rec_fine sc (nested_sem n' sc) (nested_ok_of n' sc) f (snd r) = true) rs /\
      (sing_msg f = true -> (length rs <= 1)%nat).

Lemma slot_legal_nothing sc cur i f x : enc_slot sc cur i f x = Ok [] -> slot_legal sc cur i f x.
Proof.
  intros E n' here E' _ _. rewrite E in E'. injection E' as <-.
  exists []. split; [constructor|]. split; [constructor|]. intros _. cbn. lia.
Qed.

Section Walk2.
  Variables (sc : schema) (n' : nat) (cur : list (option nat)) (fs : list fdesc).
  Hypothesis ND : nodup_z (map fnum fs) = true.

  Lemma walk2 : forall raw_rest fs_rest i bs,
    (forall k f, nth_error fs_rest k = Some f -> nth_error fs (i + k) = Some f) ->
    (forall k x f, nth_error raw_rest k = Some x -> nth_error fs_rest k = Some f -> slot_legal sc cur (i + k) f x) ->
    enc_slots sc cur i raw_rest fs_rest = Ok bs -> lsmall bs -> (length bs <= n')%nat ->
    exists rs, wire_ok bs rs /\ okrs sc (nested_sem n' sc) (nested_ok_of n' sc) fs i rs.
  Proof.
    induction raw_rest as [|x raw IH]; intros fs_rest i bs Hfs Hsl E Hs Hl.
    { cbn in E. injection E as <-. exists []. split; constructor. }
    destruct fs_rest as [|f fs_rest].
    { cbn in E. injection E as <-. exists []. split; constructor. }
    rewrite enc_slots_cons in E.
    destruct (enc_slot sc cur i f x) as [here|] eqn:Eh; [|discriminate]. cbn [bind] in E.
    destruct (enc_slots sc cur (S i) raw fs_rest) as [rest|] eqn:Er; [|discriminate]. cbn [bind] in E. injection E as <-.
    rewrite app_length in Hl.
    pose proof (Hsl 0%nat x f eq_refl eq_refl) as S0. rewrite Nat.add_0_r in S0.
    destruct (S0 n' here Eh (lsmall_app_l _ _ Hs) ltac:(lia)) as (rs1 & W1 & F1 & O1).
    destruct (IH fs_rest (S i) rest) as (rs2 & W2 & K2); auto.
    { intros k g Hk. replace (S i + k)%nat with (i + S k)%nat by lia. apply Hfs. exact Hk. }
    { intros k y g Hy Hg. replace (S i + k)%nat with (i + S k)%nat by lia. apply Hsl; assumption. }
    { eapply lsmall_app_r; eauto. } { lia. }
    exists (rs1 ++ rs2). split; [apply wire_ok_app; assumption|].
    apply (okrs_slot sc _ _ fs i f rs1 rs2); auto.
    specialize (Hfs 0%nat f eq_refl). now rewrite Nat.add_0_r in Hfs.
  Qed.
End Walk2.

Lemma legal_of_slots sc c raw cur bs :
  nodup_z (map fnum (cfields (get_class sc c))) = true ->
  (forall k x f, nth_error raw k = Some x -> nth_error (cfields (get_class sc c)) k = Some f -> slot_legal sc cur k f x) ->
  enc_slots sc cur 0 raw (cfields (get_class sc c)) = Ok bs -> lsmall bs ->
  exists rs, wire_ok bs rs /\
    forall n, (length bs < n)%nat -> (exists a, sem n sc c rs = Some a) /\ supported n sc c rs = true.
Proof.
  intros ND Hsl E Hs.
  assert (Hw : forall n', (length bs <= n')%nat ->
    exists rs, wire_ok bs rs /\ okrs sc (nested_sem n' sc) (nested_ok_of n' sc) (cfields (get_class sc c)) 0 rs).
  { intros n' L. apply (walk2 sc n' cur _ raw (cfields (get_class sc c)) 0%nat bs); auto. }
  destruct (Hw (length bs) ltac:(lia)) as (rs & W & _).
  exists rs. split; [exact W|]. intros n L. destruct n as [|n']; [lia|].
  destruct (Hw n' ltac:(lia)) as (rs' & W' & K). rewrite (wire_ok_fun _ _ _ W W').
  apply okrs_sem; assumption.
Qed.

(* ------------------------------------------------------------------ the denotation is the decoded object *)
Lemma builtins_exact_std sc : builtins_exact sc = true -> builtins_std sc = true.
Proof.
  intros Hbi. unfold builtins_std.
  rewrite (builtin_class sc timestamp_cls Hbi) by (apply Nat.ltb_lt; reflexivity).
  rewrite (builtin_class sc duration_cls Hbi) by (apply Nat.ltb_lt; reflexivity). reflexivity.
Qed.

Lemma schema_parts sc : c01_schema_ok sc = true -> wf_schema sc = true /\ builtins_exact sc = true.
Proof. unfold c01_schema_ok. intros H. apply andb_true_iff in H as [H _]. now apply andb_true_iff in H. Qed.

Lemma legal_value sc o bs rs n a :
  c01_schema_ok sc = true -> value_ok sc o -> enc_obj sc o = Ok bs -> lsmall bs ->
  wire_ok bs rs -> (length bs < n)%nat -> sem n sc (ocls o) rs = Some a -> supported n sc (ocls o) rs = true ->
  a = abs_obj sc (norm_obj sc o).
Proof.
  intros Hsc Hv E Hs W L Sm Sp. destruct (schema_parts sc Hsc) as (WF & Hbi).
  pose proof (builtins_exact_std sc Hbi) as BS.
  destruct (load_refines sc WF
              (fun n' pn nested_ok B c0 PN => map_step sc WF BS n' pn nested_ok B PN c0)
              n (ocls o) bs rs a L W Sm Sp) as (o' & Hl & Ha & _).
  destruct (all_good sc Hsc o Hv) as (bs' & E' & _ & Hload). rewrite E in E'. injection E' as <-.
  assert (Hsm : small bs) by (unfold small, lsmall in *; change (2 ^ 64) with (2 ^ 35 * 2 ^ 29); lia).
  specialize (Hload Hsm n L). rewrite load_eq, Hl in Hload. injection Hload as ->. symmetry. exact Ha.
Qed.

(* a message whose slots are legal *)
Lemma good2_of_slots sc c raw sow unk cur :
  c01_schema_ok sc = true -> value_ok sc (Obj c raw sow unk cur) ->
  (forall k x f, nth_error raw k = Some x -> nth_error (cfields (get_class sc c)) k = Some f -> slot_legal sc cur k f x) ->
  Good2 sc (Obj c raw sow unk cur).
Proof.
  intros Hsc Hv Hsl bs E Hs.
  assert (Hu : unk = []).
  { destruct Hv as (_ & Hd). rewrite deep_msg in Hd. apply andb_true_iff in Hd as [Hloc _]. unfold local_ok in Hloc.
    apply andb_true_iff in Hloc as [Hloc _]. apply andb_true_iff in Hloc as [_ Hnu].
    unfold no_unknown in Hnu. cbn [ounk] in Hnu. destruct unk; [reflexivity | discriminate]. }
  subst unk. destruct (schema_class_facts sc c Hsc) as (_ & ND & _).
  pose proof E as E0. rewrite enc_obj_unfold in E.
  destruct (enc_slots sc cur 0 raw (cfields (get_class sc c))) as [body|] eqn:Eb; [|discriminate].
  cbn [bind] in E. rewrite app_nil_r in E. injection E as <-.
  destruct (legal_of_slots sc c raw cur body ND Hsl Eb Hs) as (rs & W & H).
  exists rs. split; [exact W|]. intros n L. destruct (H n L) as ((a & Sm) & Sp). cbn [ocls]. split; [|exact Sp].
  rewrite Sm. f_equal. exact (legal_value sc _ body rs n a Hsc Hv E0 Hs W L Sm Sp).
Qed.
