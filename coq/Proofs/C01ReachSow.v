(* C01 over reachable objects, part 4: [sow_ok] (the flag of every singular sub-message that goes on the wire is up)
   as a pointwise invariant [SGood], kept by reads, assignments (with [flag_ok] / [set_flags_ok]), from_dict, the
   constructor, copy and the observers' write-back. *)
From Coq Require Import ZArith List Bool Lia Arith.
From BP Require Import Base.Prelude Model.Types Model.Object Model.Eq Model.Encode Model.Decode Model.WellFormed.
From BP Require Import Model.History Model.C07Ops Model.C01Def Model.C01Reach Model.C14Ops.
From BP Require Import Proofs.C01Unfold Proofs.C01Main Proofs.C07InvP Proofs.C07ObsP Proofs.C07HistP Proofs.C07ValP.
From BP Require Import Proofs.C14Ind Proofs.C14Mat.
From BP Require Import Proofs.C01ReachBase Proofs.C01ReachNew Proofs.C01ReachOps.
Import ListNotations.

Definition sel_true (cur : list (option nat)) (f : fdesc) (i : nat) : bool :=
  match group_selects cur f i with Some true => true | _ => false end.

Definition sow_slot (sc : schema) (cur : list (option nat)) (i : nat) (f : fdesc) (x : pv) : bool :=
  match x, fhint f with
  | PMsg o', (HPlain _ | HOptional _) =>
      osow o' || negb (negb (is_default sc f x) || fopt f || sel_true cur f i)
  | PPlaceholder, HPlain (PyMsg _) => negb (sel_true cur f i)
  | _, _ => true
  end.

Definition sow_slots (sc : schema) (cur : list (option nat)) : nat -> list pv -> list fdesc -> bool :=
  fix go (i : nat) (raw : list pv) (fs : list fdesc) {struct raw} : bool :=
    match raw, fs with
    | x :: raw', f :: fs' => sow_slot sc cur i f x && go (S i) raw' fs'
    | _, _ => true
    end.

Lemma sow_ok_unfold sc c raw sow unk cur :
  sow_ok sc (Obj c raw sow unk cur) = sow_slots sc cur 0 raw (cfields (get_class sc c)).
Proof. reflexivity. Qed.

Definition SGood (sc : schema) (o : obj) : Prop :=
  forall i f x, nth_error (cfs sc o) i = Some f -> nth_error (oraw o) i = Some x -> sow_slot sc (ocur o) i f x = true.

Lemma sow_slots_nth sc cur : forall raw fs j k x f,
  sow_slots sc cur j raw fs = true -> nth_error raw k = Some x -> nth_error fs k = Some f ->
  sow_slot sc cur (j + k) f x = true.
Proof.
  induction raw as [|x0 raw IH]; intros [|f0 fs] j [|k] x f H Hx Hf; cbn in Hx, Hf; try discriminate;
    cbn [sow_slots] in H; apply andb_true_iff in H as [H1 H2].
  - injection Hx as <-. injection Hf as <-. rewrite Nat.add_0_r. exact H1.
  - replace (j + S k)%nat with (S j + k)%nat by lia. eapply IH; eauto.
Qed.

Lemma sow_slots_pt sc cur : forall raw fs j,
  (forall k x f, nth_error raw k = Some x -> nth_error fs k = Some f -> sow_slot sc cur (j + k) f x = true) ->
  sow_slots sc cur j raw fs = true.
Proof.
  induction raw as [|x raw IH]; intros [|f fs] j H; try reflexivity.
  cbn [sow_slots]. apply andb_true_iff. split.
  - rewrite <- (Nat.add_0_r j). apply (H 0%nat x f eq_refl eq_refl).
  - apply IH. intros k y g Hy Hg. replace (S j + k)%nat with (j + S k)%nat by lia. apply (H (S k) y g Hy Hg).
Qed.

Lemma sgood_iff sc o : sow_ok sc o = true <-> SGood sc o.
Proof.
  destruct o as [c raw sow unk cur]. rewrite sow_ok_unfold. unfold SGood, cfs. cbn [oraw ocur ocls]. split.
  - intros H i f x Hf Hx. apply (sow_slots_nth sc cur raw _ 0%nat i x f H Hx Hf).
  - intros H. apply sow_slots_pt. intros k x f Hx Hf. apply (H k f x Hf Hx).
Qed.

(* sow_slot looks at _group_current only through the selection of its own field *)
Lemma sow_slot_cur sc cur cur' i f x :
  group_selects cur' f i = group_selects cur f i -> sow_slot sc cur' i f x = sow_slot sc cur i f x.
Proof. intros H. unfold sow_slot, sel_true. rewrite H. reflexivity. Qed.

Lemma sow_slot_flagged sc cur i f o : osow o = true -> sow_slot sc cur i f (PMsg o) = true.
Proof. intros H. unfold sow_slot. rewrite H. destruct (fhint f); reflexivity. Qed.

(* a value handed in under flag_ok *)
Lemma flag_ok_slot sc cur i f v :
  flag_ok sc f v = true -> match v with PPlaceholder => false | _ => true end = true ->
  sow_slot sc cur i f (stored sc v) = true.
Proof.
  intros H Hp. unfold flag_ok in H. unfold sow_slot.
  assert (Hnp : stored sc v <> PPlaceholder).
  { unfold stored. destruct v as [| | | | | | | | | | |[]]; try discriminate Hp; destruct (fieldless sc _); discriminate. }
  destruct (stored sc v) as [| | | | | | | | | | |o'] eqn:Es; try reflexivity; [contradiction Hnp; reflexivity|].
  destruct (fhint f) as [p|p|p|pk pv'] eqn:Hh; try reflexivity.
  - apply orb_true_iff in H as [H|H]; [rewrite H; reflexivity|].
    apply andb_true_iff in H as [H Hg]. apply andb_true_iff in H as [Hd Ho].
    apply negb_true_iff in Ho, Hg. unfold sel_true, group_selects.
    destruct (fgroup f); [discriminate Hg|]. rewrite Hd, Ho. apply orb_true_r.
  - apply orb_true_iff in H as [H|H]; [rewrite H; reflexivity|].
    apply andb_true_iff in H as [H Hg]. apply andb_true_iff in H as [Hd Ho].
    apply negb_true_iff in Ho, Hg. unfold sel_true, group_selects.
    destruct (fgroup f); [discriminate Hg|]. rewrite Hd, Ho. apply orb_true_r.
Qed.

(* ---------- one raw attribute replaced ---------- *)
Lemma sgood_set_slot sc c raw sow sow' unk unk' cur i f x :
  SGood sc (Obj c raw sow unk cur) ->
  nth_error (cfields (get_class sc c)) i = Some f -> sow_slot sc cur i f x = true ->
  SGood sc (Obj c (set_nth i x raw) sow' unk' cur).
Proof.
  unfold SGood, cfs. cbn [oraw ocur ocls]. intros H Hf Hx k f' y Hf' Hy.
  destruct (Nat.eq_dec k i) as [->|Hne].
  - assert (Hi : (i < length raw)%nat).
    { apply nth_error_lt in Hy. rewrite length_set_nth in Hy. exact Hy. }
    rewrite nth_error_set_nth_eq in Hy by exact Hi. injection Hy as <-. congruence.
  - rewrite nth_error_set_nth_neq in Hy by exact Hne. eapply H; eauto.
Qed.

(* ---------- the lazily materialised default ---------- *)
Lemma default_sow_slot sc cur i c f :
  wf_schema sc = true -> nth_error (cfields (get_class sc c)) i = Some f ->
  sow_slot sc cur i f PPlaceholder = true -> sow_slot sc cur i f (default_of sc f) = true.
Proof.
  intros Hwf Hf Hp. pose proof (wf_field_of sc c i f Hwf Hf) as Hw.
  unfold default_of. unfold sow_slot in *. destruct (fhint f) as [p|p|p|pk pv'] eqn:Hh; try reflexivity.
  destruct p; try reflexivity.
  destruct (wf_plain _ _ _ _ Hw Hh) as (Ho & _).
  assert (Hd : is_default sc f (PMsg (new sc c0)) = true).
  { pose proof (default_is_default sc (wf_schema_opt_ok sc Hwf) f) as Hd. unfold default_of in Hd. rewrite Hh in Hd. exact Hd. }
  rewrite Hd, Ho. cbn [negb orb]. rewrite Hp. apply orb_true_r.
Qed.

Lemma sgood_getattr sc c raw sow unk cur i :
  wf_schema sc = true -> VGood sc (Obj c raw sow unk cur) -> SGood sc (Obj c raw sow unk cur) ->
  SGood sc (fst (getattr sc (Obj c raw sow unk cur) i)).
Proof.
  intros Hwf HV H.
  destruct (getattr_cases4 sc c raw sow unk cur i)
    as [(e & ->) | (f & v & Hf & Hs & [(Ev & Hne & ->) | (Ev & Hp & ->)])]; cbn [fst]; try exact H.
  eapply sgood_set_slot; eauto. subst v. eapply default_sow_slot; eauto.
  destruct HV as (Hl & _). unfold cfs in Hl. cbn [oraw ocls] in Hl.
  assert (Hi : (i < length raw)%nat) by (rewrite Hl; eapply nth_error_lt; eauto).
  apply (H i f PPlaceholder Hf). cbn [oraw]. rewrite <- Hp. apply nth_nth_error. exact Hi.
Qed.

(* the value that was read sits in the raw attribute afterwards *)
Lemma getattr_value_at sc c raw sow unk cur i raw' v :
  length raw = length (cfields (get_class sc c)) ->
  getattr sc (Obj c raw sow unk cur) i = (Obj c raw' sow unk cur, Ok v) -> nth_error raw' i = Some v.
Proof.
  intros Hl E.
  destruct (getattr_cases4 sc c raw sow unk cur i)
    as [(e & E') | (f & w & Hf & Hs & [(Ev & Hne & E') | (Ev & Hp & E')])]; rewrite E' in E; try discriminate.
  - injection E as <- <-. rewrite Ev. apply nth_nth_error. rewrite Hl. eapply nth_error_lt; eauto.
  - injection E as <- <-. apply nth_error_set_nth_eq. rewrite Hl. eapply nth_error_lt; eauto.
Qed.

(* ---------- __setattr__ ---------- *)
Lemma setattr_sow sc o i v f : nth_error (cfs sc o) i = Some f -> osow (setattr sc o i v) = true.
Proof.
  destruct o as [c raw sow unk cur]. unfold cfs. cbn [ocls]. intros Hf. rewrite setattr_unfold. cbn zeta. rewrite Hf.
  destruct (fgroup f); reflexivity.
Qed.

Lemma sgood_setattr sc o i v :
  wf_schema sc = true -> VGood sc o -> SGood sc o ->
  (forall f, nth_error (cfs sc o) i = Some f ->
             flag_ok sc f v = true /\ match v with PPlaceholder => false | _ => true end = true) ->
  SGood sc (setattr sc o i v).
Proof.
  destruct o as [c raw sow unk cur]. unfold cfs. cbn [ocls]. intros Hwf HV H Hv. rewrite setattr_unfold. cbn zeta.
  destruct (nth_error (cfields (get_class sc c)) i) as [f|] eqn:Hf; [|exact H].
  destruct (Hv f eq_refl) as (Hfl & Hnp). fold (stored sc v).
  destruct (fgroup f) as [g|] eqn:Hg.
  2:{ eapply sgood_set_slot; eauto. apply flag_ok_slot; assumption. }
  pose proof (wf_field_group _ _ _ _ (wf_field_of sc c i f Hwf Hf) Hg) as Hgl.
  destruct HV as (Hl & Hc & _). unfold cfs in Hl, Hc. cbn [oraw ocur ocls] in Hl, Hc.
  assert (Hi : (i < length raw)%nat) by (rewrite Hl; eapply nth_error_lt; eauto).
  unfold SGood, cfs in *. cbn [oraw ocur ocls] in *. intros k f' y Hf' Hy.
  destruct (Nat.eq_dec k i) as [->|Hne].
  - rewrite nth_error_set_nth_eq in Hy by (rewrite reset_go_length; exact Hi). injection Hy as <-.
    rewrite Hf in Hf'. injection Hf' as <-. apply flag_ok_slot; assumption.
  - rewrite nth_error_set_nth_neq in Hy by exact Hne.
    assert (Hk : (k < length raw)%nat) by (rewrite Hl; eapply nth_error_lt; eauto).
    apply (nth_error_nth_d _ _ _ PPlaceholder) in Hy. rewrite <- Hy.
    destruct (fgroup f') as [g'|] eqn:Hg'.
    + destruct (Nat.eq_dec g' g) as [->|Hgne].
      * rewrite (reset_go_sibling g i _ 0 raw k f' Hf' Hg' ltac:(cbn; exact Hne) Hk).
        unfold sow_slot, sel_true, group_selects. rewrite Hg'. rewrite nth_set_nth_eq by lia.
        cbn [opt_nat_eqb]. destruct (Nat.eqb i k) eqn:E; [apply Nat.eqb_eq in E; congruence|].
        destruct (fhint f') as [[]| | |]; reflexivity.
      * rewrite (reset_go_other g i _ 0 raw k f' Hf') by congruence.
        rewrite (sow_slot_cur sc cur).
        -- apply (H k f'); [exact Hf'|]. apply nth_nth_error. exact Hk.
        -- unfold group_selects. rewrite Hg'. rewrite nth_set_nth_neq by exact Hgne. reflexivity.
    + rewrite (reset_go_other g i _ 0 raw k f' Hf') by congruence.
      rewrite (sow_slot_cur sc cur).
      * apply (H k f'); [exact Hf'|]. apply nth_nth_error. exact Hk.
      * unfold group_selects. rewrite Hg'. reflexivity.
Qed.

(* ---------- nested assignment ---------- *)
Lemma set_in_sow sc j path o i v o' : set_in sc o (j :: path) i v = Ok o' -> osow o' = osow o.
Proof.
  cbn [set_in]. destruct o as [c raw sow unk cur]. intros E.
  destruct (getattr sc (Obj c raw sow unk cur) j) as [[c1 raw1 sow1 unk1 cur1] r] eqn:Eg.
  pose proof (getattr_shape sc c raw sow unk cur j _ _ Eg) as (raw' & Eo). injection Eo as -> -> -> -> ->.
  destruct r as [w|e]; [|discriminate]. destruct w; try discriminate.
  destruct (set_in sc o path i v); cbn [bind] in E; [|discriminate]. injection E as <-. reflexivity.
Qed.

Lemma val_ok_np sc f v : val_ok sc f v = true -> match v with PPlaceholder => false | _ => true end = true.
Proof. unfold val_ok. intros H. apply andb_true_iff in H as [H _]. exact H. Qed.

Lemma sgood_set_in sc : wf_schema sc = true -> forall path o i v o',
  VGood sc o -> SGood sc o -> set_ok sc o path i v = true -> set_flags_ok sc o path i v = true ->
  set_in sc o path i v = Ok o' -> SGood sc o'.
Proof.
  intros Hwf. destruct path as [|j path]; intros o i v o' HV H Hok Hfl E; cbn [set_in set_ok set_flags_ok] in *.
  - injection E as <-. apply sgood_setattr; auto. intros f Hf. unfold field_of in *. unfold cfs in Hf. rewrite Hf in *.
    split; [exact Hfl|]. eapply val_ok_np; eauto.
  - destruct o as [c raw sow unk cur].
    pose proof (sgood_getattr sc c raw sow unk cur j Hwf HV H) as HS1.
    destruct (vgood_getattr sc c raw sow unk cur j Hwf HV) as (_ & Hv).
    destruct (getattr sc (Obj c raw sow unk cur) j) as [o1 r] eqn:Eg. cbn [fst snd] in Hv, HS1.
    destruct r as [w|e]; [|destruct o1; discriminate].
    destruct (Hv w eq_refl) as (f & raw' & Hf & Hw & Hs & -> & HG).
    destruct w as [| | | | | | | | | | |child]; try discriminate.
    destruct (set_in sc child path i v) as [child'|] eqn:Ec; cbn [bind] in E; [|discriminate].
    injection E as <-. apply andb_true_iff in Hfl as [Hfl1 Hfl2].
    eapply sgood_set_slot; eauto. apply sow_slot_flagged.
    destruct path as [|j' path].
    + cbn [set_in] in Ec. injection Ec as <-. cbn [set_flags_ok] in Hfl2. unfold field_of in Hfl2.
      destruct (nth_error (cfields (get_class sc (ocls child))) i) as [f'|] eqn:Hf'; [|discriminate].
      eapply setattr_sow. unfold cfs. exact Hf'.
    + rewrite (set_in_sow sc j' path child i v child' Ec). exact Hfl1.
Qed.
