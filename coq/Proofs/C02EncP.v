(* C02, encoder side, leaf layer: the record _serialize_single writes for an in-range scalar is a legal
   record of the specification (canonical tag and length of at most five bytes, canonical value varint)
   and denotes the value.  (float32 is left out: its rounding is modelled, not verified.) *)
From BP Require Import Base.Prelude Model.Types Model.Varint Model.Scalar Model.Float Model.Utf8.
From BP Require Import Model.Object Model.Eq Model.Encode Model.Decode Model.WellFormed.
From BP Require Import Spec.Varint Spec.Wire.
From BP Require Import Proofs.BytesP Proofs.VarintP Proofs.ScalarP Proofs.C02Abs Proofs.C02WireP Proofs.C02LeafP.
From BP Require Import gen.Tables.
From Coq Require Import ZifyBool ZifyN.
Ltac Zify.zify_post_hook ::= Z.to_euclidean_division_equations.

Lemma tag_value num wt : 0 <= num -> 0 <= wt < 8 -> Z.lor (Z.shiftl num 3) wt = num * 8 + wt.
Proof.
  intros Hn Hw. rewrite lor_disjoint_add; [rewrite Z.shiftl_mul_pow2 by lia; reflexivity|].
  apply Z.bits_inj'. intros n Hn'. rewrite Z.land_spec, Z.bits_0.
  destruct (Z.ltb_spec n 3).
  - rewrite Z.shiftl_spec_low by lia. reflexivity.
  - replace (Z.testbit wt n) with false; [apply andb_false_r|].
    symmetry. apply Z.bits_above_log2; [lia|].
    destruct (Z.eq_dec wt 0) as [->|]; [cbn; lia|].
    assert (Z.log2 wt < 3) by (apply Z.log2_lt_pow2; lia). lia.
Qed.

Lemma shiftl_3 num : Z.shiftl num 3 = num * 8 + 0.
Proof. rewrite Z.shiftl_mul_pow2 by lia. change (2 ^ 3) with 8. lia. Qed.

(* a canonical varint of a 32-bit quantity has at most five bytes *)
Lemma canonical_len5 n bs : canonical n bs -> 0 <= n < 2 ^ 32 -> (length bs <= 5)%nat.
Proof.
  intros Hc Hn. destruct (Z.eq_dec n 0) as [->|Hne].
  - destruct Hc as (Sh & Va & [L1|Ml]); [lia|].
    exfalso. pose proof (varint_value_lower bs (varint_shape_nonempty _ Sh) Ml (shape_last_lt _ Sh)) as Lo.
    rewrite Va in Lo. assert (0 < 128 ^ (Z.of_nat (length bs) - 1)); [|lia].
    apply Z.pow_pos_nonneg; [lia|]. pose proof (shape_length_pos bs Sh). lia.
  - destruct (canonical_length_bounds n bs Hc ltac:(lia)) as [Lo _].
    assert (Hl : (1 <= length bs)%nat) by (destruct Hc as (Sh & _); apply shape_length_pos, Sh).
    rewrite pow128 in Lo by lia.
    assert (7 * (Z.of_nat (length bs) - 1) < 32); [|lia].
    apply (Z.pow_lt_mono_r_iff 2); lia.
Qed.

Lemma encode_small n bs : 0 <= n < 2 ^ 32 -> encode_varint n = Ok bs -> VarintRep n bs /\ (length bs <= 5)%nat.
Proof.
  intros Hn E. destruct (encode_in_range n ltac:(lia)) as (bs' & E' & C & Le).
  rewrite E in E'. injection E' as <-. unfold wrap64 in C. rewrite Z.mod_small in C by lia.
  split; [|now apply (canonical_len5 n)]. destruct C as (Sh & Va & _). repeat split; assumption.
Qed.

Lemma encode_tag_rep num wt key :
  1 <= num < 2 ^ 29 -> 0 <= wt < 8 -> encode_varint (num * 8 + wt) = Ok key -> TagRep num wt key.
Proof.
  intros Hn Hw E. destruct (encode_small (num * 8 + wt) key ltac:(lia) E) as (R & L).
  split; [exact R|]. split; [exact L | exact Hn].
Qed.

Lemma signed_wrap bits z :
  (bits = 32 \/ bits = 64) -> - 2 ^ (bits - 1) <= z < 2 ^ (bits - 1) -> signed bits (z mod 2 ^ 64) = z.
Proof.
  intros [-> | ->] Hz; unfold signed; cbv zeta.
  - change (2 ^ (32 - 1)) with (2 ^ 31) in *. destruct ((z mod 2 ^ 64) mod 2 ^ 32 <? 2 ^ 31) eqn:E; lia.
  - change (2 ^ (64 - 1)) with (2 ^ 63) in *. destruct ((z mod 2 ^ 64) mod 2 ^ 64 <? 2 ^ 63) eqn:E; lia.
Qed.

(* the value a scalar encodes to and decodes from *)
Definition wire_aval (v : pv) : aval := abs_scalar v.

Lemma int_ranges t z : scalar_in_range t (PInt z) = true -> - 2 ^ 63 <= z < 2 ^ 64.
Proof. unfold scalar_in_range, int_in. destruct t; try discriminate; lia. Qed.

Theorem enc_scalar_record msg num t v se bs :
  1 <= num < 2 ^ 29 -> scalar_in_range t v = true -> t <> TFloat ->
  (forall s, v = PStr s \/ v = PBytes s -> Zlength s < 2 ^ 31) ->
  serialize_with msg num t v se None = Ok bs ->
  (bs = [] /\ se = false /\ (v = PStr [] \/ v = PBytes [])) \/
  exists p, rec_ok bs (num, p) /\ scalar_of t p = Some (abs_scalar v) /\
            (match p with Len _ => packable t = false | _ => True end).
Proof.
  intros Hn Hr NF Hlen H. unfold serialize_with in H.
  destruct (preprocess_with msg t None v) as [value|] eqn:Hp; cbn [bind] in H; [|discriminate].
  unfold preprocess_with in Hp.
  destruct (tmem t [TEnum; TBool; TInt32; TInt64; TUInt32; TUInt64]) eqn:T0.
  { (* plain varints *)
    assert (T1 : tmem t WIRE_VARINT_TYPES = true) by (destruct t; try discriminate T0; reflexivity).
    rewrite T1 in H. rewrite shiftl_3 in H.
    destruct (encode_varint (num * 8 + 0)) as [key|] eqn:Ek; cbn [bind] in H; [|discriminate]. injection H as <-.
    right. destruct (int_like v) as [z|] eqn:Il; [|discriminate].
    assert (Hz : - 2 ^ 63 <= z < 2 ^ 64).
    { destruct v; try discriminate Il; cbn in Il; injection Il as <-.
      - eapply int_ranges; eauto.
      - match goal with |- context [if ?bb then _ else _] => destruct bb end; lia. }
    destruct (encode_in_range z Hz) as (vb & Ev & (Sh & Va & _) & Le). rewrite Hp in Ev. injection Ev as <-.
    exists (Varint (wrap64 z)). split; [|split; [|exact I]].
    - apply ok_varint; [now apply encode_tag_rep; try lia | repeat split; assumption | unfold wrap64; lia].
    - unfold wrap64. cbn [scalar_of]. unfold scalar_in_range, int_in in Hr.
      destruct t; try discriminate T0; destruct v; try discriminate Hr; cbn in Il; injection Il as <-;
        unfold of_varint; cbn [abs_scalar].
      + rewrite (signed_wrap 32) by (try tauto; change (2 ^ (32 - 1)) with (2 ^ 31); lia). reflexivity.
      + match goal with |- context [if ?bb then _ else _] => destruct bb end; reflexivity.
      + rewrite (signed_wrap 32) by (try tauto; change (2 ^ (32 - 1)) with (2 ^ 31); lia). reflexivity.
      + rewrite (signed_wrap 64) by (try tauto; change (2 ^ (64 - 1)) with (2 ^ 63); lia). reflexivity.
      + do 2 f_equal. lia.
      + do 2 f_equal. lia. }
  destruct (tmem t [TSInt32; TSInt64]) eqn:T0'.
  { assert (T1 : tmem t WIRE_VARINT_TYPES = true) by (destruct t; try discriminate T0'; reflexivity).
    rewrite T1 in H. rewrite shiftl_3 in H.
    destruct (encode_varint (num * 8 + 0)) as [key|] eqn:Ek; cbn [bind] in H; [|discriminate]. injection H as <-.
    right. destruct (int_like v) as [z|] eqn:Il; [|discriminate].
    assert (Hv : v = PInt z) by (destruct t; try discriminate T0'; destruct v; try discriminate Hr; cbn in Il; congruence).
    subst v.
    assert (Hz : - 2 ^ 63 <= z < 2 ^ 63 /\ (t = TSInt32 -> - 2 ^ 31 <= z < 2 ^ 31)).
    { unfold scalar_in_range, int_in in Hr. destruct t; try discriminate T0'; split; try lia; intros; try discriminate; lia. }
    pose proof (zigzag_range 64 z ltac:(lia) ltac:(change (2 ^ (64 - 1)) with (2 ^ 63); lia)) as Zr.
    destruct (encode_in_range (zigzag z) ltac:(lia)) as (vb & Ev & (Sh & Va & _) & Le). rewrite Hp in Ev. injection Ev as <-.
    unfold wrap64 in Va. rewrite Z.mod_small in Va by lia.
    exists (Varint (zigzag z)). split; [|split; [|exact I]].
    - apply ok_varint; [now apply encode_tag_rep; try lia | repeat split; assumption | lia].
    - cbn [scalar_of abs_scalar]. destruct t; try discriminate T0'; unfold of_varint; do 2 f_equal.
      + pose proof (zigzag_range 32 z ltac:(lia) ltac:(change (2 ^ (32 - 1)) with (2 ^ 31); apply (proj2 Hz eq_refl))) as Zr32.
        rewrite Z.mod_small by lia. rewrite <- unzigzag_unzz by lia. apply unzigzag_zigzag.
      + rewrite Z.mod_small by lia. rewrite <- unzigzag_unzz by lia. apply unzigzag_zigzag. }
  destruct (tmem t FIXED_TYPES) eqn:TF.
  { (* fixed width: what unpack_value reads back is what was packed *)
    right. unfold pack_value in Hp.
    destruct t; try discriminate TF; try congruence; cbn [pack_fmt] in Hp.
    - (* double *)
      destruct v; try discriminate Hr. unfold scalar_in_range, int_in in Hr. injection Hp as <-.
      replace (tmem TDouble WIRE_VARINT_TYPES) with false in H by reflexivity.
      replace (tmem TDouble WIRE_FIXED_32_TYPES) with false in H by reflexivity.
      replace (tmem TDouble WIRE_FIXED_64_TYPES) with true in H by reflexivity.
      rewrite tag_value in H by lia.
      destruct (encode_varint (num * 8 + 1)) as [key|] eqn:Ek; cbn [bind] in H; [|discriminate]. injection H as <-.
      exists (Fixed64 (le_bytes 8 bits)). split; [|split; [|exact I]].
      + apply ok_fixed64; [apply encode_tag_rep; try lia; exact Ek | apply le_bytes_length].
      + cbn [scalar_of of_fixed64 abs_scalar]. rewrite le_value_le_bytes; [reflexivity|].
        change (256 ^ Z.of_nat 8) with (2 ^ 64). lia.
    - (* fixed32 *)
      destruct v; try discriminate Hr. unfold scalar_in_range, int_in in Hr. cbn [int_like] in Hp.
      destruct (pack_unpack_int FmtI 0 (2 ^ 32) 4 z eq_refl ltac:(lia)) as (pb & Pk & _ & Lb & Un).
      rewrite Pk in Hp. injection Hp as <-.
      replace (tmem TFixed32 WIRE_VARINT_TYPES) with false in H by reflexivity.
      replace (tmem TFixed32 WIRE_FIXED_32_TYPES) with true in H by reflexivity.
      rewrite tag_value in H by lia.
      destruct (encode_varint (num * 8 + 5)) as [key|] eqn:Ek; cbn [bind] in H; [|discriminate]. injection H as <-.
      exists (Fixed32 pb). split; [|split; [|exact I]].
      + apply ok_fixed32; [apply encode_tag_rep; try lia; exact Ek | exact Lb].
      + destruct (unpack_value_fixed32 TFixed32 pb eq_refl Lb) as (v' & Hv' & Ho).
        unfold unpack_value in Hv'. cbn [pack_fmt] in Hv'. rewrite Un in Hv'. cbn [bind] in Hv'. injection Hv' as <-. exact Ho.
    - (* sfixed32 *)
      destruct v; try discriminate Hr. unfold scalar_in_range, int_in in Hr. cbn [int_like] in Hp.
      destruct (pack_unpack_int Fmti (- 2 ^ 31) (2 ^ 31) 4 z eq_refl ltac:(lia)) as (pb & Pk & _ & Lb & Un).
      rewrite Pk in Hp. injection Hp as <-.
      replace (tmem TSFixed32 WIRE_VARINT_TYPES) with false in H by reflexivity.
      replace (tmem TSFixed32 WIRE_FIXED_32_TYPES) with true in H by reflexivity.
      rewrite tag_value in H by lia.
      destruct (encode_varint (num * 8 + 5)) as [key|] eqn:Ek; cbn [bind] in H; [|discriminate]. injection H as <-.
      exists (Fixed32 pb). split; [|split; [|exact I]].
      + apply ok_fixed32; [apply encode_tag_rep; try lia; exact Ek | exact Lb].
      + destruct (unpack_value_fixed32 TSFixed32 pb eq_refl Lb) as (v' & Hv' & Ho).
        unfold unpack_value in Hv'. cbn [pack_fmt] in Hv'. rewrite Un in Hv'. cbn [bind] in Hv'. injection Hv' as <-. exact Ho.
    - (* fixed64 *)
      destruct v; try discriminate Hr. unfold scalar_in_range, int_in in Hr. cbn [int_like] in Hp.
      destruct (pack_unpack_int FmtQ 0 (2 ^ 64) 8 z eq_refl ltac:(lia)) as (pb & Pk & _ & Lb & Un).
      rewrite Pk in Hp. injection Hp as <-.
      replace (tmem TFixed64 WIRE_VARINT_TYPES) with false in H by reflexivity.
      replace (tmem TFixed64 WIRE_FIXED_32_TYPES) with false in H by reflexivity.
      replace (tmem TFixed64 WIRE_FIXED_64_TYPES) with true in H by reflexivity.
      rewrite tag_value in H by lia.
      destruct (encode_varint (num * 8 + 1)) as [key|] eqn:Ek; cbn [bind] in H; [|discriminate]. injection H as <-.
      exists (Fixed64 pb). split; [|split; [|exact I]].
      + apply ok_fixed64; [apply encode_tag_rep; try lia; exact Ek | exact Lb].
      + destruct (unpack_value_fixed64 TFixed64 pb eq_refl Lb) as (v' & Hv' & Ho).
        unfold unpack_value in Hv'. cbn [pack_fmt] in Hv'. rewrite Un in Hv'. cbn [bind] in Hv'. injection Hv' as <-. exact Ho.
    - (* sfixed64 *)
      destruct v; try discriminate Hr. unfold scalar_in_range, int_in in Hr. cbn [int_like] in Hp.
      destruct (pack_unpack_int Fmtq (- 2 ^ 63) (2 ^ 63) 8 z eq_refl ltac:(lia)) as (pb & Pk & _ & Lb & Un).
      rewrite Pk in Hp. injection Hp as <-.
      replace (tmem TSFixed64 WIRE_VARINT_TYPES) with false in H by reflexivity.
      replace (tmem TSFixed64 WIRE_FIXED_32_TYPES) with false in H by reflexivity.
      replace (tmem TSFixed64 WIRE_FIXED_64_TYPES) with true in H by reflexivity.
      rewrite tag_value in H by lia.
      destruct (encode_varint (num * 8 + 1)) as [key|] eqn:Ek; cbn [bind] in H; [|discriminate]. injection H as <-.
      exists (Fixed64 pb). split; [|split; [|exact I]].
      + apply ok_fixed64; [apply encode_tag_rep; try lia; exact Ek | exact Lb].
      + destruct (unpack_value_fixed64 TSFixed64 pb eq_refl Lb) as (v' & Hv' & Ho).
        unfold unpack_value in Hv'. cbn [pack_fmt] in Hv'. rewrite Un in Hv'. cbn [bind] in Hv'. injection Hv' as <-. exact Ho. }
  (* string / bytes *)
  assert (Hsb : (t = TString /\ exists s, v = PStr s /\ value = s /\ utf8_valid s = true) \/
                (t = TBytes /\ exists s, v = PBytes s /\ value = s)).
  { unfold scalar_in_range in Hr. destruct t; try discriminate T0; try discriminate T0'; try discriminate TF; try discriminate Hr.
    - left. split; [reflexivity|]. destruct v; try discriminate Hr. cbn in Hp. injection Hp as <-. eauto.
    - right. split; [reflexivity|]. destruct v; try discriminate Hr. cbn in Hp. injection Hp as <-. eauto. }
  assert (TL : tmem t WIRE_VARINT_TYPES = false /\ tmem t WIRE_FIXED_32_TYPES = false /\ tmem t WIRE_FIXED_64_TYPES = false /\
               tmem t WIRE_LEN_DELIM_TYPES = true /\ packable t = false).
  { destruct Hsb as [(-> & _)|(-> & _)]; repeat split; reflexivity. }
  destruct TL as (-> & -> & -> & -> & NP) in H.
  assert (Hl : Zlength value < 2 ^ 31).
  { destruct Hsb as [(_ & s & -> & <- & _)|(_ & s & -> & <-)]; apply (Hlen value); tauto. }
  destruct (negb (Zlength value =? 0) || se || false) eqn:Hc.
  - right. rewrite tag_value in H by lia.
    destruct (encode_varint (num * 8 + 2)) as [key|] eqn:Ek; cbn [bind] in H; [|discriminate].
    destruct (encode_varint (Zlength value)) as [ln|] eqn:El; cbn [bind] in H; [|discriminate]. injection H as <-.
    assert (Hl0 : 0 <= Zlength value) by (unfold Zlength; lia).
    destruct (encode_small (Zlength value) ln ltac:(lia) El) as (Rl & Ll).
    exists (Len value). split; [|split; [|exact NP]].
    + apply ok_len; [apply encode_tag_rep; try lia; exact Ek | exact Rl | exact Ll].
    + destruct Hsb as [(-> & s & -> & <- & U)|(-> & s & -> & <-)]; cbn [scalar_of abs_scalar]; [now rewrite U | reflexivity].
  - left. injection H as <-. apply orb_false_iff in Hc as [Hc _]. apply orb_false_iff in Hc as [Hc Hse].
    apply negb_false_iff in Hc. split; [reflexivity|]. split; [exact Hse|].
    assert (value = []) by (destruct value; [reflexivity | unfold Zlength in Hc; cbn [length] in Hc; lia]).
    destruct Hsb as [(_ & s & -> & <- & _)|(_ & s & -> & <-)]; subst; tauto.
Qed.
