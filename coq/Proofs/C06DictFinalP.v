(* C06, from_dict, part 5: the pieces that tie the other C06Dict files to the property:
   - the keys to_dict emits address their own fields (C04's keys_ok), so "given in the dict" can be read literally;
   - "emitted" strengthened to "emitted as exactly one record", for every way of setting;
   - a fresh message: proto3_default is total on well-formed ungrouped fields; nothing is reported set;
     from_dict of the empty mapping is a fresh message with the flag raised. *)
From BP Require Import Base.Prelude Model.Types Model.Varint Model.Object Model.Eq Model.Encode Model.Decode.
From BP Require Import Model.WellFormed Model.Json Model.C06Obs Model.C06Dict.
From BP Require Import gen.Tables Spec.Varint Spec.C06Wire.
From BP Require Import Proofs.C04Def Proofs.C04ElemP Proofs.C04ObjP.
From BP Require Import Proofs.C06SpecP Proofs.C06LoopP Proofs.C06EncP Proofs.C06StoreP Proofs.C06DecP Proofs.C06PresP Proofs.C06WaysP Proofs.C06FinalP.
From BP Require Import Proofs.C06DictKwP Proofs.C06DictStateP Proofs.C06DictClsP Proofs.C06DictInstP Proofs.C06DictRecP.
From Coq Require Import Lia.

(* ---- keys ---- *)
Theorem key_addresses_field cs sc c i f :
  keys_ok cs sc = true -> nth_error (cfields (get_class sc c)) i = Some f ->
  key_index (cfields (get_class sc c)) (JStr (key_of_field cs f)) = Some i.
Proof.
  intros K Hf. destruct (keys_fields cs sc c K) as [L _].
  destruct (L i f Hf) as (nm & A & B). unfold key_index. rewrite A, B. reflexivity.
Qed.

(* a mapping with the single item  key_of_field f : v  gives field i the value v *)
Corollary single_item_lookup cs sc c i f v :
  keys_ok cs sc = true -> nth_error (cfields (get_class sc c)) i = Some f -> is_jnull v = false ->
  dict_lookup (cfields (get_class sc c)) [(JStr (key_of_field cs f), v)] i = Some v.
Proof.
  intros K Hf Hn. cbn [dict_lookup]. unfold item_field. cbn [fst snd]. rewrite Hn.
  rewrite (key_addresses_field cs sc c i f K Hf), Nat.eqb_refl. reflexivity.
Qed.

Theorem from_dict_needs_mapping sc c j m : from_dict_cls sc c j = Ok m -> exists kvs, j = JObj kvs.
Proof.
  unfold from_dict_cls. destruct (from_dict_init sc c j) as [kw|] eqn:E; cbn [bind]; [|discriminate].
  intros _. eapply from_dict_init_is_obj. exact E.
Qed.

Theorem from_dict_inst_needs_mapping sc o j m : from_dict_inst sc o j = Ok m -> exists kvs, j = JObj kvs.
Proof.
  unfold from_dict_inst. destruct (from_dict_init sc (ocls o) j) as [kw|] eqn:E; cbn [bind]; [|discriminate].
  intros _. eapply from_dict_init_is_obj. exact E.
Qed.

(* ---- exactly one record, whatever the way the state was reached ---- *)
Theorem emitted_once sc o i f :
  wf_schema sc = true -> nth_error (fields_of sc o) i = Some f -> explicit_field f ->
  (forall g, fgroup f = Some g -> which_one_of o g = Some i) ->
  is_value (raw_at o i) -> singular_value (raw_at o i) ->
  (base_wire_type (fty f) = 2 \/ (fwraps f = None /\ scalar_in_range (fty f) (raw_at o i) = true)) ->
  emitted_in sc o i f -> emitted_once_in sc o i f.
Proof.
  intros W Hf He Hsel Hv Hs Hk Em all Hall Hlen.
  pose proof (wf_field_of sc (ocls o) f W (nth_error_In _ _ Hf)) as Wf.
  destruct (Em all Hall) as (pre & h & post & -> & Hh & _).
  assert (Hl : Zlength h < 2 ^ 35).
  { unfold Zlength in *. rewrite !app_length in Hlen. lia. }
  assert (Kd : explicit_kind (ocur o) i f).
  { destruct He as [Ho|(g & G)]; [left; exact Ho|right].
    unfold group_selects. rewrite G. specialize (Hsel g G). unfold which_one_of in Hsel. rewrite Hsel.
    cbn. rewrite Nat.eqb_refl. reflexivity. }
  destruct (explicit_one_record sc (ocur o) i (raw_at o i) f h) as (r & R1 & R2 & R3); try assumption.
  - eapply wf_num_range. exact Wf.
  - eapply wf_singular_fmap; [exact Wf|]. eapply explicit_field_singular; eassumption.
  - exists pre, h, post, r. auto.
Qed.

(* ---- a fresh message ---- *)
Theorem proto3_default_total sc ng f :
  wf_field sc ng f = true -> fgroup f = None -> exists v, proto3_default sc f = Ok v.
Proof.
  intros W G. destruct (fopt f) eqn:Ho.
  - exists PNone. unfold proto3_default. rewrite G, Ho. reflexivity.
  - exists (default_of sc f). symmetry. eapply default_of_spec; eassumption.
Qed.

Theorem fresh_unset sc c :
  osow (new sc c) = false /\ ounk (new sc c) = [] /\
  (forall g, which_one_of (new sc c) g = None) /\
  (forall i, is_set sc (new sc c) i = false) /\
  (forall i, child_on_wire (new sc c) i = false).
Proof.
  split; [reflexivity|]. split; [reflexivity|]. split; [|split].
  - intros g. unfold which_one_of, new. cbn [ocur]. apply nth_repeat_none.
  - intros i. unfold is_set, field_at. change (ocls (new sc c)) with c.
    destruct (nth_error (cfields (get_class sc c)) i) as [f|] eqn:Hf; [|reflexivity].
    rewrite (new_raw_at sc c i f Hf). unfold sentinel_of. destruct (fopt f); reflexivity.
  - intros i. unfold child_on_wire.
    destruct (nth_error (cfields (get_class sc c)) i) as [f|] eqn:Hf.
    + rewrite (new_raw_at sc c i f Hf). unfold sentinel_of. destruct (fopt f); reflexivity.
    + unfold raw_at, new. cbn [oraw]. rewrite nth_overflow; [reflexivity|].
      rewrite map_length. apply nth_error_None. exact Hf.
Qed.

(* Cls() is the constructor without arguments *)
Lemma cur_loop_sentinels : forall fs j cur, cur_loop j fs (map sentinel_of fs) cur = cur.
Proof.
  induction fs as [|f fs IH]; intros j cur; [reflexivity|]. cbn [map]. rewrite cur_loop_cons.
  rewrite is_sentinel_sentinel. destruct (fgroup f); apply IH.
Qed.

Lemma construct_nil sc c : construct sc c [] = new sc c.
Proof.
  unfold construct. cbn [fold_left]. unfold post_init, new. cbn [oraw].
  change (map (fun f => if fopt f then PNone else PPlaceholder) (cfields (get_class sc c)))
    with (map sentinel_of (cfields (get_class sc c))).
  f_equal.
  - assert (A : forall fs,
      (fix go (fs : list fdesc) (raw : list pv) : bool :=
         match fs, raw with
         | f :: fs', v :: raw' => is_sentinel f v && go fs' raw'
         | _, _ => true
         end) fs (map sentinel_of fs) = true).
    { induction fs as [|f fs IH]; [reflexivity|]. cbn [map]. rewrite is_sentinel_sentinel, IH. reflexivity. }
    rewrite A. reflexivity.
  - exact (cur_loop_sentinels (cfields (get_class sc c)) O (repeat None (cngroups (get_class sc c)))).
Qed.

Theorem from_dict_empty sc c : from_dict_cls sc c (JObj []) = Ok (set_sow (new sc c)).
Proof. unfold from_dict_cls. cbn [from_dict_init bind kw_norm fold_left]. unfold finish_cls. rewrite construct_nil. reflexivity. Qed.

Theorem from_dict_inst_empty sc o : from_dict_inst sc o (JObj []) = Ok (set_sow o).
Proof. reflexivity. Qed.

Lemma set_sow_read sc o i : read sc (set_sow o) i = read sc o i.
Proof.
  destruct o as [c raw sow unk cur]. unfold read, getattr, set_sow.
  destruct (nth_error (cfields (get_class sc c)) i) as [f|]; [|reflexivity].
  destruct (group_selects cur f i) as [[|]|]; try reflexivity; destruct (nth i raw PPlaceholder); reflexivity.
Qed.

(* from_dict of the empty mapping: a fresh message, except that the flag is raised *)
Theorem fresh_from_dict sc c m :
  wf_schema sc = true -> from_dict_cls sc c (JObj []) = Ok m ->
  osow m = true /\ enc_obj sc m = Ok [] /\
  forall i f, nth_error (cfields (get_class sc c)) i = Some f -> read sc m i = proto3_default sc f.
Proof.
  intros W H. assert (E : m = set_sow (new sc c)) by (rewrite from_dict_empty in H; congruence). subst m. clear H.
  split; [reflexivity|]. destruct (fresh sc c W) as [A B].
  split; [rewrite set_sow_enc; exact A|]. intros i f Hf. rewrite set_sow_read. apply B. exact Hf.
Qed.

(* ---- "something was assigned inside it": m.sub.x = v on a direct child raises the child's flag (the deeper paths are
        K12).  The child is the one the read returned (lazily created and stored if the attribute was PLACEHOLDER). ---- *)
Theorem flag_assign_inside sc o j i v o' :
  length (oraw o) = length (fields_of sc o) ->
  assign_path sc o [j] i v = Ok o' ->
  exists ch, read sc o j = Ok (PMsg ch) /\ raw_at o' j = PMsg (setattr sc ch i v) /\
             (forall fi, nth_error (fields_of sc ch) i = Some fi -> child_on_wire o' j = true).
Proof.
  intros Hl H. cbn [assign_path] in H. unfold read.
  destruct (nth_error (fields_of sc o) j) as [f|] eqn:Hf.
  2:{ destruct o as [c raw sow unk cur]. unfold fields_of in Hf. cbn [ocls] in Hf. unfold getattr in H. rewrite Hf in H. discriminate. }
  assert (Hj : (j < length (oraw o))%nat) by (rewrite Hl; eapply nth_error_lt; exact Hf).
  destruct (getattr_cases sc o j f Hf) as [(_ & E)|[(_ & _ & E)|(_ & _ & E)]]; rewrite E in H |- *; cbn [snd].
  - discriminate.
  - destruct (raw_at o j) as [| | | | | | | | | | |ch] eqn:Er; try discriminate. cbn [bind] in H. injection H as <-.
    exists ch. split; [reflexivity|].
    assert (R : raw_at (set_raw o j (PMsg (setattr sc ch i v))) j = PMsg (setattr sc ch i v)).
    { destruct o as [c raw sow unk cur]. unfold raw_at. cbn [set_raw oraw] in *. apply nth_set_nth_eq. exact Hj. }
    split; [exact R|]. intros fi Hfi. unfold child_on_wire. rewrite R. eapply setattr_sow. exact Hfi.
  - destruct (default_of sc f) as [| | | | | | | | | | |ch] eqn:Ed; try discriminate. cbn [bind] in H. injection H as <-.
    exists ch. split; [reflexivity|].
    assert (R : raw_at (set_raw (set_raw o j (PMsg ch)) j (PMsg (setattr sc ch i v))) j = PMsg (setattr sc ch i v)).
    { destruct o as [c raw sow unk cur]. unfold raw_at. cbn [set_raw oraw] in *. apply nth_set_nth_eq.
      rewrite set_nth_length. exact Hj. }
    split; [exact R|]. intros fi Hfi. unfold child_on_wire. rewrite R. eapply setattr_sow. exact Hfi.
Qed.

(* ---- the two forms of from_dict are the operations of C07's alphabet (Model/C07Ops.v) applied to the keyword
        arguments Message._from_dict_init computes ---- *)
From BP Require Model.C07Ops.

Lemma setattrs_is_fold sc kw : forall o,
  C07Ops.setattrs sc o kw = fold_left (fun o' iv => setattr sc o' (fst iv) (snd iv)) kw o.
Proof.
  unfold C07Ops.setattrs. induction kw as [|[i v] kw IH]; intros o; [reflexivity|]. cbn [fold_left fst snd]. apply IH.
Qed.

Theorem from_dict_is_c07_op sc c o j m :
  (from_dict_cls sc c j = Ok m <-> exists kw, from_dict_init sc c j = Ok kw /\ m = C07Ops.from_dict_cls sc c kw) /\
  (from_dict_inst sc o j = Ok m <-> exists kw, from_dict_init sc (ocls o) j = Ok kw /\ m = C07Ops.from_dict_inst sc o kw).
Proof.
  split; split.
  - unfold from_dict_cls. destruct (from_dict_init sc c j) as [kw|]; cbn [bind]; [|discriminate].
    intros H. injection H as <-. exists kw. split; reflexivity.
  - intros (kw & E & ->). unfold from_dict_cls. rewrite E. reflexivity.
  - unfold from_dict_inst. destruct (from_dict_init sc (ocls o) j) as [kw|]; cbn [bind]; [|discriminate].
    intros H. injection H as <-. exists kw. split; [reflexivity|].
    unfold C07Ops.from_dict_inst. rewrite setattrs_is_fold. destruct o; reflexivity.
  - intros (kw & E & ->). unfold from_dict_inst. rewrite E. cbn [bind]. f_equal.
    unfold C07Ops.from_dict_inst. rewrite setattrs_is_fold. destruct o; reflexivity.
Qed.
