(* C20, message level: the built message is also what the constructor gives,  Cls(f=v) = (m = Cls(); m.f = v),
   for an enum-typed field in any of the five positions ([construct] / [setattr] of Model/Object.v): the two ways the
   oracle of the check and the theorems make "a message holding v there" are the same object state. *)
From BP Require Import Base.Prelude Model.Types Model.Float Model.Utf8 Model.Object Model.Eq Model.TimeCore.
From BP Require Import Model.Encode Model.WellFormed Model.Json Model.C20Msg.
From BP Require Model.Enum Proofs.EnumP.
From BP Require Import gen.Tables Proofs.C04Def Proofs.C04ObjP Proofs.C04CurP Proofs.C01Slot Proofs.C01Apply Proofs.C20MsgDef
     Proofs.C20MsgBuilt.
From Coq Require Import Lia ZifyBool.

Lemma fresh_sentinel f : is_sentinel f (fresh_of f) = true.
Proof. unfold fresh_of, is_sentinel. destruct (fopt f) eqn:E; reflexivity. Qed.

Lemma sent_all fs : sent_loop fs (map fresh_of fs) = true.
Proof. induction fs as [|f fs IH]; [reflexivity|]. cbn [map sent_loop]. rewrite fresh_sentinel, IH. reflexivity. Qed.

Lemma cur_all fs : forall j cur, cur_loop j fs (map fresh_of fs) cur = cur.
Proof.
  induction fs as [|f fs IH]; intros j cur; [reflexivity|]. cbn [map cur_loop]. rewrite fresh_sentinel.
  destruct (fgroup f); apply IH.
Qed.

Lemma sent_one fs : forall i f v,
  nth_error fs i = Some f -> is_sentinel f v = false -> sent_loop fs (set_nth i v (map fresh_of fs)) = false.
Proof.
  induction fs as [|f0 fs IH]; intros [|i] f v Hf Hs; try discriminate Hf; cbn [nth_error] in Hf; cbn [map set_nth sent_loop].
  - injection Hf as ->. rewrite Hs. reflexivity.
  - rewrite (IH i f v Hf Hs). apply andb_false_r.
Qed.

Lemma cur_one fs : forall i j cur f v,
  nth_error fs i = Some f -> is_sentinel f v = false ->
  cur_loop j fs (set_nth i v (map fresh_of fs)) cur =
  match fgroup f with Some g => set_nth g (Some (j + i)%nat) cur | None => cur end.
Proof.
  induction fs as [|f0 fs IH]; intros [|i] j cur f v Hf Hs; try discriminate Hf; cbn [nth_error] in Hf; cbn [map set_nth cur_loop].
  - injection Hf as ->. rewrite Hs, Nat.add_0_r. destruct (fgroup f); apply cur_all.
  - rewrite fresh_sentinel. replace (j + S i)%nat with (S j + i)%nat by lia.
    destruct (fgroup f0); exact (IH i (S j) cur f v Hf Hs).
Qed.

Lemma construct_is_built sc c i f pos e k v :
  forallb (wf_field sc (cngroups (get_class sc c))) (cfields (get_class sc c)) = true ->
  nth_error (cfields (get_class sc c)) i = Some f -> enum_position f = Some (pos, e) ->
  construct sc c [(i, place pos k v)] = built sc c i pos k v.
Proof.
  intros Hwf Hf Hp. rewrite (built_unfold sc c Hwf i f pos k v Hf).
  unfold construct. cbn [fold_left]. fold (marked sc (place pos k v)). rewrite place_marked.
  change (oraw (new sc c)) with (map fresh_of (cfields (get_class sc c))).
  rewrite post_init_unfold.
  assert (Hs : is_sentinel f (place pos k v) = false) by (destruct pos; reflexivity).
  rewrite (sent_one _ i f _ Hf Hs), (cur_one _ i O _ f _ Hf Hs). reflexivity.
Qed.

Lemma construct_is_built_wf sc c i f pos e k v :
  wf_schema sc = true ->
  nth_error (cfields (get_class sc c)) i = Some f -> enum_position f = Some (pos, e) ->
  construct sc c [(i, place pos k v)] = built sc c i pos k v.
Proof. intros W. exact (construct_is_built sc c i f pos e k v (wf_fields sc c W)). Qed.
