(* Proofs/ImportingP.v — C13, part 1: string-level lemmas.
   split/join inverses, the regex scanner of parse_source_type_name on well-formed
   type names, and how the spec's statement parser reads the three statement shapes
   the model renders. *)
From BP Require Import Base.Prelude Proofs.BytesP Spec.PyImport Model.Importing.
From Coq Require Import Lia.
Local Open Scope nat_scope.

(* ------------------------------------------------------------------ bytes *)
Lemma byte_eqb_eq (a b : byte) : Byte.eqb a b = true <-> a = b.
Proof.
  split.
  - apply Byte.byte_dec_bl.
  - intros ->. apply Byte.byte_dec_lb. reflexivity.
Qed.

Lemma byte_eqb_refl (a : byte) : Byte.eqb a a = true.
Proof. apply byte_eqb_eq. reflexivity. Qed.

Lemma byte_eqb_neq (a b : byte) : Byte.eqb a b = false <-> a <> b.
Proof.
  split.
  - intros H E. apply byte_eqb_eq in E. congruence.
  - intros H. destruct (Byte.eqb a b) eqn:E; [apply byte_eqb_eq in E; contradiction | reflexivity].
Qed.

Lemma bytes_eqb_refl (a : list byte) : bytes_eqb a a = true.
Proof. apply bytes_eqb_eq. reflexivity. Qed.

Lemma bytes_eqb_neq (a b : list byte) : bytes_eqb a b = false <-> a <> b.
Proof.
  split.
  - intros H E. apply bytes_eqb_eq in E. congruence.
  - intros H. destruct (bytes_eqb a b) eqn:E; [apply bytes_eqb_eq in E; contradiction | reflexivity].
Qed.

Lemma path_eqb_eq (a b : list (list byte)) : path_eqb a b = true <-> a = b.
Proof.
  revert b. induction a as [|x a IH]; intros [|y b]; cbn [path_eqb]; split; intros H; try reflexivity; try discriminate.
  - apply andb_true_iff in H. destruct H as [H1 H2]. apply bytes_eqb_eq in H1. apply IH in H2. congruence.
  - injection H as -> ->. rewrite bytes_eqb_refl. cbn [andb]. apply IH. reflexivity.
Qed.

Lemma path_eqb_refl a : path_eqb a a = true.
Proof. apply path_eqb_eq. reflexivity. Qed.

Lemma path_eqb_neq a b : path_eqb a b = false <-> a <> b.
Proof.
  split.
  - intros H E. apply path_eqb_eq in E. congruence.
  - intros H. destruct (path_eqb a b) eqn:E; [apply path_eqb_eq in E; contradiction | reflexivity].
Qed.

(* ------------------------------------------------------------------ split / join *)
Lemma py_split_is_split_on c s : py_split c s = split_on c s.
Proof. induction s as [|x r IH]; cbn [py_split split_on]; [reflexivity|]. rewrite IH. reflexivity. Qed.

Lemma split_on_nonnil c s : split_on c s <> [].
Proof.
  destruct s as [|x r]; cbn [split_on]; [discriminate|].
  destruct (Byte.eqb x c); [discriminate|]. destruct (split_on c r); discriminate.
Qed.

Lemma split_on_none c a : ~ In c a -> split_on c a = [a].
Proof.
  induction a as [|x a IH]; intros H; cbn [split_on]; [reflexivity|].
  destruct (Byte.eqb x c) eqn:E.
  - apply byte_eqb_eq in E. subst. exfalso. apply H. left. reflexivity.
  - rewrite IH; [reflexivity|]. intros I. apply H. right. exact I.
Qed.

Lemma split_on_app c a b : ~ In c a -> split_on c (a ++ c :: b) = a :: split_on c b.
Proof.
  induction a as [|x a IH]; intros H; cbn [split_on app].
  - rewrite byte_eqb_refl. reflexivity.
  - destruct (Byte.eqb x c) eqn:E.
    + apply byte_eqb_eq in E. subst. exfalso. apply H. left. reflexivity.
    + rewrite IH; [reflexivity|]. intros I. apply H. right. exact I.
Qed.

Lemma py_join_cons c a l : l <> [] -> py_join c (a :: l) = a ++ c :: py_join c l.
Proof. destruct l; [congruence|]. reflexivity. Qed.

Lemma py_join_snoc c l x : l <> [] -> py_join c (l ++ [x]) = py_join c l ++ c :: x.
Proof.
  induction l as [|a l IH]; intros H; [congruence|].
  destruct l as [|b l].
  - reflexivity.
  - change ((a :: b :: l) ++ [x]) with (a :: ((b :: l) ++ [x])).
    rewrite (py_join_cons c a ((b :: l) ++ [x])) by discriminate.
    rewrite IH by discriminate.
    rewrite (py_join_cons c a (b :: l)) by discriminate.
    rewrite <- app_assoc. reflexivity.
Qed.

Lemma split_on_join c l : l <> [] -> Forall (fun s => ~ In c s) l -> split_on c (py_join c l) = l.
Proof.
  induction l as [|a l IH]; intros Hn Hf; [congruence|].
  inversion Hf as [|? ? Ha Hl]; subst.
  destruct l as [|b l].
  - cbn [py_join]. apply split_on_none. exact Ha.
  - rewrite py_join_cons by discriminate. rewrite split_on_app by exact Ha.
    rewrite IH; [reflexivity | discriminate | exact Hl].
Qed.

Lemma In_py_join c x l : In x (py_join c l) -> x = c \/ exists s, In s l /\ In x s.
Proof.
  induction l as [|a l IH]; cbn [py_join]; [intros []|].
  destruct l as [|b l].
  - intros H. right. exists a. split; [left; reflexivity | exact H].
  - intros H. apply in_app_or in H. destruct H as [H|[H|H]].
    + right. exists a. split; [left; reflexivity | exact H].
    + left. congruence.
    + destruct (IH H) as [E|[s [Hs Hx]]]; [left; exact E|]. right. exists s. split; [right; exact Hs | exact Hx].
Qed.

Lemma py_join_nonnil c l : l <> [] -> Forall (fun s => s <> []) l -> py_join c l <> [].
Proof.
  destruct l as [|a l]; intros Hn Hf; [congruence|]. inversion Hf; subst.
  destruct l; cbn [py_join]; [assumption|]. destruct a; [congruence | discriminate].
Qed.

Lemma removelast_snoc {A} (l : list A) x : removelast (l ++ [x]) = l.
Proof. apply removelast_last. Qed.

Lemma last_snoc {A} (l : list A) x d : last (l ++ [x]) d = x.
Proof. apply last_last. Qed.

Lemma snoc_cases {A} (l : list A) : l = [] \/ exists ys x, l = ys ++ [x].
Proof.
  destruct l as [|a l]; [left; reflexivity|]. right.
  destruct (@exists_last _ (a :: l)) as [ys [x E]]; [discriminate|]. exists ys, x. exact E.
Qed.

(* ------------------------------------------------------------------ characters *)
Lemma upperb_is_upper c : upperb c = is_upper c.
Proof. reflexivity. Qed.

Lemma ident_char_not_dot c : is_ident_char c = true -> c <> c_dot.
Proof. intros H E. subst. vm_compute in H. discriminate. Qed.
Lemma ident_char_not_space c : is_ident_char c = true -> c <> c_space.
Proof. intros H E. subst. vm_compute in H. discriminate. Qed.
Lemma ident_char_not_nl c : is_ident_char c = true -> c <> b_nl.
Proof. intros H E. subst. vm_compute in H. discriminate. Qed.
Lemma ident_char_not_quote c : is_ident_char c = true -> c <> c_quote.
Proof. intros H E. subst. vm_compute in H. discriminate. Qed.

Definition ident_chars (s : list byte) : Prop := forallb is_ident_char s = true.

Lemma ident_chars_not_in s c : ident_chars s -> is_ident_char c = false -> ~ In c s.
Proof.
  unfold ident_chars. intros H Hc I. rewrite forallb_forall in H. specialize (H c I). congruence.
Qed.

Lemma ident_chars_no_dot s : ident_chars s -> ~ In c_dot s.
Proof. intros H. apply (ident_chars_not_in s c_dot H). reflexivity. Qed.
Lemma ident_chars_no_space s : ident_chars s -> ~ In c_space s.
Proof. intros H. apply (ident_chars_not_in s c_space H). reflexivity. Qed.

Lemma ident_chars_app a b : ident_chars a -> ident_chars b -> ident_chars (a ++ b).
Proof. unfold ident_chars. intros. rewrite forallb_app. apply andb_true_iff. auto. Qed.

Lemma ident_chars_repeat_us n : ident_chars (repeat c_us n).
Proof. induction n; cbn [repeat]; [reflexivity|]. unfold ident_chars in *. cbn [forallb]. rewrite IHn. reflexivity. Qed.

Lemma identb_chars s : identb s = true -> ident_chars s.
Proof.
  destruct s as [|c s]; cbn [identb]; [discriminate|]. intros H.
  apply andb_true_iff in H. destruct H as [H _]. apply andb_true_iff in H. destruct H as [_ H]. exact H.
Qed.

Lemma identb_nonnil s : identb s = true -> s <> [].
Proof. destruct s; [discriminate | discriminate]. Qed.

(* no Python keyword contains an underscore *)
Lemma keyword_no_us s : is_keyword s = true -> ~ In c_us s.
Proof.
  unfold is_keyword. intros H. apply existsb_exists in H. destruct H as [k [Hk E]].
  apply bytes_eqb_eq in E. subst k.
  assert (A : forallb (fun k => negb (existsb (Byte.eqb c_us) k)) py_keywords = true) by (vm_compute; reflexivity).
  rewrite forallb_forall in A. specialize (A s Hk). intros I.
  apply negb_true_iff in A. assert (existsb (Byte.eqb c_us) s = true).
  { apply existsb_exists. exists c_us. split; [exact I | apply byte_eqb_refl]. }
  congruence.
Qed.

Lemma identb_intro_us c r :
  is_ident_start c = true -> ident_chars (c :: r) -> In c_us (c :: r) -> identb (c :: r) = true.
Proof.
  intros Hs Hc Hu. cbn [identb]. rewrite Hs. unfold ident_chars in Hc. rewrite Hc. cbn [andb].
  destruct (is_keyword (c :: r)) eqn:K; [|reflexivity].
  exfalso. exact (keyword_no_us _ K Hu).
Qed.

(* ------------------------------------------------------------------ the spec's lexer on the rendered shapes *)
Lemma count_dots_repeat n s :
  (match s with [] => True | c :: _ => c <> c_dot end) -> count_dots (repeat c_dot n ++ s) = (n, s).
Proof.
  intros H. induction n as [|n IH]; cbn [repeat app].
  - destruct s as [|c r]; cbn [count_dots]; [reflexivity|].
    apply byte_eqb_neq in H. rewrite H. reflexivity.
  - cbn [count_dots]. rewrite byte_eqb_refl. rewrite IH. reflexivity.
Qed.

Lemma parse_dotted_join (p : path) :
  p <> [] -> Forall (fun s => identb s = true) p -> parse_dotted (py_join c_dot p) = Some p.
Proof.
  intros Hn Hf. unfold parse_dotted. rewrite split_on_join.
  - assert (forallb identb p = true) as ->; [|reflexivity].
    apply forallb_forall. intros x Hx. rewrite Forall_forall in Hf. auto.
  - exact Hn.
  - rewrite Forall_forall in *. intros x Hx. apply ident_chars_no_dot. apply identb_chars. auto.
Qed.

(* from-target: n dots followed by an optional dotted module path *)
Lemma parse_from_target_dots n (p : path) :
  n <> 0 \/ p <> [] -> Forall (fun s => identb s = true) p ->
  parse_from_target (repeat c_dot n ++ py_join c_dot p) = Some (n, p).
Proof.
  intros Hn Hf. unfold parse_from_target.
  destruct p as [|a p].
  - cbn [py_join]. rewrite count_dots_repeat by exact I.
    destruct n; [destruct Hn; congruence | reflexivity].
  - assert (Hne : py_join c_dot (a :: p) <> []).
    { apply py_join_nonnil; [discriminate|]. rewrite Forall_forall in *. intros x Hx. apply identb_nonnil. auto. }
    rewrite count_dots_repeat.
    + destruct (py_join c_dot (a :: p)) eqn:E; [congruence|]. rewrite <- E.
      rewrite parse_dotted_join; [reflexivity | discriminate | exact Hf].
    + destruct (py_join c_dot (a :: p)) as [|c r] eqn:E; [exact I|].
      inversion Hf as [|? ? Ha _]; subst.
      assert (In c (py_join c_dot (a :: p))) as Hin by (rewrite E; left; reflexivity).
      (* first character of the join is the first character of a *)
      destruct a as [|a0 ar]; [discriminate|].
      assert (c = a0) as ->.
      { destruct p; cbn [py_join] in E; cbn [app] in E; congruence. }
      apply ident_char_not_dot. apply identb_chars in Ha. unfold ident_chars in Ha. cbn [forallb] in Ha.
      apply andb_true_iff in Ha. tauto.
Qed.

Definition sp := c_space.

Lemma tokens_from_as F N A :
  ~ In sp F -> ~ In sp N -> ~ In sp A ->
  split_on sp (s_from_sp ++ F ++ s_import_sp ++ N ++ s_as_sp ++ A) = [kw_from; F; kw_import; N; kw_as; A].
Proof.
  intros HF HN HA.
  change (s_from_sp ++ F ++ s_import_sp ++ N ++ s_as_sp ++ A)
    with (kw_from ++ sp :: (F ++ sp :: (kw_import ++ sp :: (N ++ sp :: (kw_as ++ sp :: A))))).
  rewrite split_on_app by (vm_compute; intuition discriminate).
  rewrite split_on_app by exact HF.
  rewrite split_on_app by (vm_compute; intuition discriminate).
  rewrite split_on_app by exact HN.
  rewrite split_on_app by (vm_compute; intuition discriminate).
  rewrite split_on_none by exact HA. reflexivity.
Qed.

Lemma tokens_from_dot N :
  ~ In sp N -> split_on sp (s_from_dot_import ++ N) = [kw_from; [c_dot]; kw_import; N].
Proof.
  intros HN.
  change (s_from_dot_import ++ N) with (kw_from ++ sp :: ([c_dot] ++ sp :: (kw_import ++ sp :: N))).
  rewrite split_on_app by (vm_compute; intuition discriminate).
  rewrite split_on_app by (vm_compute; intuition discriminate).
  rewrite split_on_app by (vm_compute; intuition discriminate).
  rewrite split_on_none by exact HN. reflexivity.
Qed.

Lemma tokens_import_as M A :
  ~ In sp M -> ~ In sp A ->
  split_on sp (s_import_pre ++ M ++ s_as_sp ++ A) = [kw_import; M; kw_as; A].
Proof.
  intros HM HA.
  change (s_import_pre ++ M ++ s_as_sp ++ A) with (kw_import ++ sp :: (M ++ sp :: (kw_as ++ sp :: A))).
  rewrite split_on_app by (vm_compute; intuition discriminate).
  rewrite split_on_app by exact HM.
  rewrite split_on_app by (vm_compute; intuition discriminate).
  rewrite split_on_none by exact HA. reflexivity.
Qed.

(* parse_stmt on the three shapes *)
Lemma parse_stmt_from_as n (sub : path) N A :
  n <> 0 \/ sub <> [] -> Forall (fun s => identb s = true) sub -> identb N = true -> identb A = true ->
  parse_stmt (s_from_sp ++ (repeat c_dot n ++ py_join c_dot sub) ++ s_import_sp ++ N ++ s_as_sp ++ A)
  = Some (SFrom n sub N A).
Proof.
  intros Hn Hs HN HA. unfold parse_stmt.
  rewrite tokens_from_as.
  - rewrite parse_from_target_dots by assumption. rewrite HN, HA. reflexivity.
  - intros I. apply in_app_or in I. destruct I as [I|I].
    + apply repeat_spec in I. discriminate.
    + apply In_py_join in I. destruct I as [I|[s [Hi Hx]]]; [discriminate|].
      rewrite Forall_forall in Hs. apply (ident_chars_no_space s); [apply identb_chars; auto | exact Hx].
  - apply ident_chars_no_space, identb_chars, HN.
  - apply ident_chars_no_space, identb_chars, HA.
Qed.

Lemma parse_stmt_from_dot N :
  identb N = true -> parse_stmt (s_from_dot_import ++ N) = Some (SFrom 1 [] N N).
Proof.
  intros HN. unfold parse_stmt. rewrite tokens_from_dot by (apply ident_chars_no_space, identb_chars, HN).
  change (bytes_eqb kw_from kw_import) with false. cbn [andb].
  change (bytes_eqb kw_from kw_from) with true. change (bytes_eqb kw_import kw_import) with true. cbn [andb].
  change (parse_from_target [c_dot]) with (Some (1, @nil name)). rewrite HN. reflexivity.
Qed.

Lemma parse_stmt_import_as (m : path) A :
  m <> [] -> Forall (fun s => identb s = true) m -> identb A = true ->
  parse_stmt (s_import_pre ++ py_join c_dot m ++ s_as_sp ++ A) = Some (SImport m A).
Proof.
  intros Hn Hm HA. unfold parse_stmt. rewrite tokens_import_as.
  - change (bytes_eqb kw_import kw_import) with true. change (bytes_eqb kw_as kw_as) with true. cbn [andb].
    rewrite parse_dotted_join by assumption. rewrite HA. reflexivity.
  - intros I. apply In_py_join in I. destruct I as [I|[s [Hi Hx]]]; [discriminate|].
    rewrite Forall_forall in Hm. apply (ident_chars_no_space s); [apply identb_chars; auto | exact Hx].
  - apply ident_chars_no_space, identb_chars, HA.
Qed.

(* the annotation string *)
Lemma unquote_quoted s : unquote (quoted s) = Some s.
Proof.
  unfold unquote, quoted. change (Byte.eqb b_quote c_quote) with true. cbn match.
  rewrite rev_app_distr. cbn [rev app]. change (Byte.eqb b_quote c_quote) with true. cbn match.
  rewrite rev_involutive. reflexivity.
Qed.

Lemma parse_dotted_two a t :
  identb a = true -> identb t = true -> parse_dotted (a ++ b_dot :: t) = Some [a; t].
Proof.
  intros Ha Ht. unfold parse_dotted. change b_dot with c_dot.
  rewrite split_on_app by (apply ident_chars_no_dot, identb_chars, Ha).
  rewrite split_on_none by (apply ident_chars_no_dot, identb_chars, Ht).
  cbn [forallb]. rewrite Ha, Ht. reflexivity.
Qed.

Lemma parse_dotted_one a : identb a = true -> parse_dotted a = Some [a].
Proof.
  intros Ha. unfold parse_dotted. rewrite split_on_none by (apply ident_chars_no_dot, identb_chars, Ha).
  cbn [forallb]. rewrite Ha. reflexivity.
Qed.
