(* C14 aliasing, part E: deepcopy of a well-formed structure succeeds (with the fuel that reads it back). *)
From BP Require Import Base.Prelude Model.Types Model.Object Model.Eq Model.Encode Model.Decode Model.History Model.C14Heap.
From BP Require Import Proofs.C14HeapA Proofs.C14HeapC.
From Coq Require Import Lia.
Local Open Scope nat_scope.

Lemma thread_total (f : heap -> memo -> slot -> option (heap * slot * memo)) h0 l :
  (forall x, In x l -> forall e m, exists h1 y m1, f (h0 ++ e) m x = Some (h1, y, m1) /\ hext (h0 ++ e) h1) ->
  forall e m, exists h2 ys m2, thread f (h0 ++ e) m l = Some (h2, ys, m2) /\ hext (h0 ++ e) h2.
Proof.
  induction l as [|x r IH]; intros Hf e m; cbn [thread].
  - exists (h0 ++ e), [], m. split; [reflexivity | apply hext_refl].
  - destruct (Hf x (or_introl eq_refl) e m) as (h1 & y & m1 & E1 & (e1 & X1)). rewrite E1.
    subst h1. rewrite <- app_assoc.
    destruct (IH (fun x' Hx' => Hf x' (or_intror Hx')) (e ++ e1) m1) as (h2 & ys & m2 & E2 & (e2 & X2)).
    rewrite E2. exists h2, (y :: ys), m2. split; [reflexivity|].
    exists (e1 ++ e2). rewrite X2. rewrite <- !app_assoc. reflexivity.
Qed.

Lemma dc_total sc h0 : forall n a v, abs n h0 a = Some v ->
  forall e m, exists h' a' m', dc sc n (h0 ++ e) m a = Some (h', a', m') /\ hext (h0 ++ e) h'.
Proof.
  induction n as [|n IH]; intros a v Ha e m; cbn [abs] in Ha; [discriminate|].
  destruct (nth_error h0 a) as [c|] eqn:Hn; [|discriminate].
  destruct (omapM (abs_slot (abs n h0)) (cslots c)) as [vs|] eqn:Hm; [|discriminate].
  cbn [dc]. destruct (lookup m a) as [b|].
  { exists (h0 ++ e), b, m. split; [reflexivity | apply hext_refl]. }
  rewrite (nth_error_app_some _ e _ _ Hn).
  assert (Hslot : forall x, In x (cslots c) -> forall e m, exists h1 y m1,
            dc_slot sc (dc sc n) (h0 ++ e) m x = Some (h1, y, m1) /\ hext (h0 ++ e) h1).
  { intros x Hx e0 m0. destruct x as [w|b]; cbn [dc_slot].
    - exists (h0 ++ e0), (SVal (deepcopy_pv sc w)), m0. split; [reflexivity | apply hext_refl].
    - destruct (omapM_some_each _ _ _ Hm _ Hx) as (y & Hy). cbn [abs_slot] in Hy.
      destruct (IH b y Hy e0 m0) as (h1 & b' & m1 & E1 & X1). rewrite E1.
      exists h1, (SRef b'), m1. split; [reflexivity | exact X1]. }
  assert (Hfresh : forall x, In x (cslots c) -> forall e m, exists h1 y m1,
            dc_slot_fresh sc (dc sc n) (h0 ++ e) m x = Some (h1, y, m1) /\ hext (h0 ++ e) h1).
  { intros x Hx e0 m0. unfold dc_slot_fresh. destruct (Hslot x Hx e0 []) as (h1 & y & m1 & E1 & X1).
    rewrite E1. exists h1, y, m0. split; [reflexivity | exact X1]. }
  destruct (ckind c) as [cl sow unk cur| |ks].
  - destruct (thread_total _ h0 (cslots c) Hfresh e []) as (h1 & ss & m1 & E1 & X1). rewrite E1.
    eexists _, _, _. split; [reflexivity|]. apply hext_snoc. exact X1.
  - destruct (thread_total _ h0 (cslots c) Hslot e m) as (h1 & ss & m1 & E1 & X1). rewrite E1.
    eexists _, _, _. split; [reflexivity|]. apply hext_snoc. exact X1.
  - destruct (thread_total _ h0 (cslots c) Hslot e m) as (h1 & ss & m1 & E1 & X1). rewrite E1.
    eexists _, _, _. split; [reflexivity|]. apply hext_snoc. exact X1.
Qed.

Theorem deepcopy_total sc n h root v :
  abs n h root = Some v -> exists h' root', h_deepcopy sc n h root = Some (h', root').
Proof.
  intros Ha. destruct (dc_total sc h n root v Ha [] []) as (h' & a' & m' & E & _).
  rewrite app_nil_r in E. unfold h_deepcopy. rewrite E. exists h', a'. reflexivity.
Qed.
