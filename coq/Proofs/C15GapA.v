(* C15 — gap analysis of the property text against Properties/C15.v, and the first group of gap-closing proofs.

   PROPERTY TEXT, clause by clause  ->  theorems that existed  ->  gap  ->  closed by (GapA = this file, GapB / C / D = C15GapB.v / C15GapC.v / C15GapD.v)

   (1) "A datetime or timedelta stored in a Timestamp / Duration field is encoded as the exact (seconds, nanos) pair the
        reference implementation produces for the same instant or span"
         -> C15_ts_exact, C15_dur_exact (all of Z), C15_ts_wire_roundtrip / C15_dur_wire_roundtrip (the bytes meet
            ts_field_wire / dur_field_wire), C15_pair_wire_unique (the INNER two-field message has one canonical byte string).
         gap a: "the exact pair" as bytes of the FIELD: nothing said that the wire specification of the whole field
            (tag, length, payload) determines the bytes, i.e. that what any conforming writer emits for the instant IS what
            betterproto emits.  -> GapA ts_field_wire_unique / dur_field_wire_unique, bytes_ts_is_the_wire / bytes_dur_is_the_wire.
         gap b: the hypothesis in_ts_range (instant dt) of the wire theorem is NOT what the quantifier says: "datetimes in
            [0001-01-01, 9999-12-31T23:59:59.999999] with any fixed UTC offset" bounds the WALL clock; the instant of such a
            datetime leaves Timestamp's range by up to a day.  -> GapA bytes_ts_any (every datetime whose seconds fit int64:
            the encoding succeeds, is the reference's, and the decoder returns the instant EXACTLY when it is in range,
            OverflowError otherwise), bytes_ts_python (every datetime CPython can hold), ts_wall_range_refuted
            (0001-01-01T00:00+01:00 encodes and then raises on parse), bytes_ts_roundtrip_iff.
         gap c: in_dur_range of C15_dur_wire_roundtrip is stronger than needed; the theorem for every timedelta Python can
            hold existed in Proofs/TimeP.v only.  -> exported (C15_dur_wire_roundtrip_any_timedelta); dur_no_range_check: neither
            direction checks the +-10000-year bound of the .proto documentation (witness).
         gap d: the epoch / zero span ("epoch and second boundaries" of the quantifier): the bytes are EMPTY exactly for the
            default.  -> GapA bytes_ts_empty_iff, bytes_dur_empty_iff.
   (2) "Timestamp nanos in [0, 1e9)"  -> C15_ts_normal_form, C15_ts_pair_unique.  No gap (stated of ts_of_us, which
        C15_ts_exact identifies with from_datetime).  GapA from_datetime_normal restates it of the code's function directly.
   (3) "Duration seconds and nanos never of opposite sign"  -> C15_dur_normal_form, C15_dur_pair_unique.
         gap: "never of opposite sign" says nothing about WHICH sign: a pair (1, 0) for a negative span is "normal".
            -> GapA from_timedelta_sign: the pair carries exactly the sign of the span (three iffs).
   (4) "and decodes back to the identical value, at microsecond resolution over the whole protobuf-valid range"
         -> C15_ts_roundtrip_pair, C15_dur_roundtrip_pair(_any_timedelta), the wire round trips, C15_ts_decode,
            C15_ts_decode_overflow (only for 0 <= nanos < 1e9), C15_dur_decode (no overflow counterpart).
         gap a: "at microsecond resolution": no statement that two values one microsecond apart are ENCODED differently
            (converse of C15_ts_tz).  -> GapA ts_pair_iff, dur_pair_iff, bytes_ts_iff, bytes_dur_iff.
         gap b: the decoder's outcome as ONE equation for every (seconds, nanos), nanos outside [0, 1e9) and negative
            included, and for Duration the missing OverflowError half.  -> GapA to_datetime_exact, to_timedelta_exact
            (+ the Ok-iff corollaries): the result is never a wrong value.
   (5) "Aware datetimes in any time zone denote the same instant after a round trip"
         -> C15_ts_tz, C15_ts_tz_bytes, C15_ts_offset_cancels, C15_ts_wire_roundtrip (returns mkdt (instant dt) 0).
         gap: the converse ("the same" = only the instant matters AND the instant is kept apart): bytes_ts_iff above; the
            returned datetime is in UTC: ts_roundtrip_same_instant.
   (6) "and the JSON forms are the spec's RFC 3339 / decimal-seconds strings"
         -> C15_json_ts, C15_json_ts_calendar, C15_json_ts_roundtrip, C15_json_dur (d mod 1e6 <> 0),
            C15_json_dur_whole_seconds_refuted (ONE witness), C15_json_dur_read_by_reference, C15_json_dur_roundtrip.
         gap a: K15-1 is only witnessed, not characterised.  -> GapB delta_to_json_spec_iff (the text is the reference's EXACTLY
            when the span is not a whole number of seconds) and delta_to_json_whole (what is written instead, for every whole
            second: the reference's text with ".000" before the "s").
         gap b: no injectivity: two spans never share a text; two instants never share a text.
            -> GapB delta_to_json_inj (all of Z), ts_text_inj (instants in range), timestamp_to_json_tz.
         gap c: to_dict()[field] (an observation point of the property) has no theorem: the default is left out, anything
            else is the text.  -> GapB to_dict_dur_spec, to_dict_ts_spec.
         gap d: from_dict of what the REFERENCE writes ("3s", nine fractional digits) - only betterproto's own texts were
            read back.  -> GapC parse_duration_reads_reference (every normal pair; nanoseconds below a microsecond dropped
            toward zero, as ToTimedelta does).
   (7) compositions the text asks for: "stored in a Timestamp / Duration field" of a MESSAGE (C01's codec, Model/Encode.v /
        Decode.v, has its own copies TimeCore.ts_pair_of_us / dur_pair_of_us / us_of_ts / us_of_dur of the four conversions).
         gap: nothing ties C15's model functions to the ones the message codec of C01 / C02 / C08 / C17 runs.
            -> GapA codec_ts_pair, codec_dur_pair, codec_us_of_ts, codec_us_of_dur (equal for ALL inputs), codec_value_ok_ts /
               _dur (C01's value conditions for datetime / timedelta fields ARE in_ts_range / in_dur_range); GapD
               codec_payload_ts / _dur: the payload bytes the message codec writes are C15's bytes_sn.
   (8) quantifier "values beyond 2**53 us", "negative values with fractional parts": all theorems are over Z.  No gap.
   (9) NOT closed: naive datetimes (outside the model), Decimal literals with exponents in from_dict (EOther = outside the
        model), groups inside the payload; the CPython conventions (instant comparison, timedelta normal form) stay sampled. *)
From BP Require Import Base.Prelude Model.Varint Model.Scalar Model.Time Spec.Varint Spec.Time.
From BP Require Import Proofs.BytesP Proofs.VarintP Proofs.ScalarP Proofs.TimeP.
From BP Require Import Model.TimeCore Model.C15GapDefs.
From Coq Require Import ZifyBool ZifyN.
Ltac Zify.zify_post_hook ::= Z.to_euclidean_division_equations.

(* ====================================================================================== *)
(* 0. the decidable ranges                                                                  *)
(* ====================================================================================== *)
Lemma ts_rangeb_iff t : ts_rangeb t = true <-> in_ts_range t.
Proof. unfold ts_rangeb, in_ts_range. lia. Qed.

Lemma dur_rangeb_iff d : dur_rangeb d = true <-> in_dur_range d.
Proof. unfold dur_rangeb, in_dur_range. lia. Qed.

Lemma td_rangeb_iff d : td_rangeb d = true <-> Z.abs (td_days d) <= 999999999.
Proof. unfold td_rangeb. lia. Qed.

Lemma dur_range_td d : dur_rangeb d = true -> td_rangeb d = true.
Proof. rewrite dur_rangeb_iff, td_rangeb_iff. apply dur_range_days. Qed.

(* ====================================================================================== *)
(* 1. microsecond resolution: the pairs keep distinct values apart                          *)
(* ====================================================================================== *)
Theorem ts_pair_iff a b : from_datetime a = from_datetime b <-> instant a = instant b.
Proof.
  split; [|apply from_datetime_tz].
  rewrite !from_datetime_is_spec. unfold ts_of_us. intros H. injection H as H1 H2. lia.
Qed.

Theorem dur_pair_iff a b : from_timedelta a = from_timedelta b <-> a = b.
Proof.
  split; [|intros ->; reflexivity].
  rewrite !from_timedelta_is_spec. unfold dur_of_us. intros H. injection H as H1 H2. lia.
Qed.

Theorem from_datetime_normal dt :
  let '(s, n) := from_datetime dt in 0 <= n < 1000000000 /\ s * 1000000000 + n = 1000 * instant dt.
Proof. rewrite from_datetime_is_spec. unfold ts_of_us. lia. Qed.

(* the pair carries exactly the sign of the span *)
Theorem from_timedelta_sign d :
  let '(s, n) := from_timedelta d in
  (d < 0 <-> s < 0 \/ n < 0) /\ (0 < d <-> 0 < s \/ 0 < n) /\ (d = 0 <-> s = 0 /\ n = 0).
Proof. rewrite from_timedelta_is_spec. unfold dur_of_us. lia. Qed.

(* ====================================================================================== *)
(* 2. the decoder's outcome as one equation, for every pair                                 *)
(* ====================================================================================== *)
Theorem to_datetime_exact s n :
  to_datetime s n = if ts_rangeb (ts_to_us s n) then Ok (mkdt (ts_to_us s n) 0) else Err EOverflow.
Proof.
  destruct (ts_rangeb (ts_to_us s n)) eqn:R.
  - apply to_datetime_is_spec, ts_rangeb_iff, R.
  - assert (NR : ~ in_ts_range (ts_to_us s n)) by (rewrite <- ts_rangeb_iff; congruence).
    unfold to_datetime, timedelta_new, ts_to_us in *.
    destruct (Z.abs (td_days (s * 1000000 + n / 1000)) >? 999999999) eqn:E; [reflexivity|].
    cbn [bind]. unfold dt_add, DATETIME_ZERO; cbn [wall off].
    unfold in_ts_range, TS_MIN_US, TS_MAX_US in NR. unfold DT_MIN_US, DT_MAX_US.
    replace ((0 + (s * 1000000 + n / 1000) <? -62135596800000000) || (253402300799999999 <? 0 + (s * 1000000 + n / 1000)))
      with true by lia.
    reflexivity.
Qed.

Theorem to_datetime_ok_iff s n dt :
  to_datetime s n = Ok dt <-> in_ts_range (ts_to_us s n) /\ dt = mkdt (ts_to_us s n) 0.
Proof.
  rewrite to_datetime_exact, <- ts_rangeb_iff. destruct (ts_rangeb (ts_to_us s n)); split.
  - intros H. injection H as <-. auto.
  - intros (_ & ->). reflexivity.
  - discriminate.
  - intros (H & _). discriminate.
Qed.

Theorem to_timedelta_exact s n :
  to_timedelta s n = if td_rangeb (dur_to_us s n) then Ok (dur_to_us s n) else Err EOverflow.
Proof.
  destruct (td_rangeb (dur_to_us s n)) eqn:R.
  - apply to_timedelta_is_spec, td_rangeb_iff, R.
  - unfold td_rangeb in R. unfold to_timedelta, timedelta_new, dur_to_us in *. rewrite abs_div_quot.
    replace (Z.abs (td_days (s * 1000000 + Z.quot n 1000)) >? 999999999) with true by lia.
    reflexivity.
Qed.

Theorem to_timedelta_ok_iff s n d :
  to_timedelta s n = Ok d <-> Z.abs (td_days (dur_to_us s n)) <= 999999999 /\ d = dur_to_us s n.
Proof.
  rewrite to_timedelta_exact, <- td_rangeb_iff. destruct (td_rangeb (dur_to_us s n)); split.
  - intros H. injection H as <-. auto.
  - intros (_ & ->). reflexivity.
  - discriminate.
  - intros (H & _). discriminate.
Qed.

(* neither direction checks the +-10000-year bound of duration.proto: a span of 20000 years is written as a pair
   whose seconds exceed it, and that pair is read back *)
Theorem dur_no_range_check :
  exists d, ~ in_dur_range d /\ td_rangeb d = true /\
            from_timedelta d = (2 * DUR_MAX_S, 0) /\ to_timedelta (2 * DUR_MAX_S) 0 = Ok d.
Proof.
  exists (2 * DUR_MAX_S * 1000000). split; [unfold in_dur_range, DUR_MAX_S; lia|].
  split; [vm_compute; reflexivity|]. split; vm_compute; reflexivity.
Qed.

(* ====================================================================================== *)
(* 3. the message codec of C01 / C02 / C08 / C17 runs the same four conversions             *)
(* ====================================================================================== *)
Theorem codec_ts_pair dt : ts_pair_of_us (instant dt) = from_datetime dt.
Proof. rewrite from_datetime_is_spec. reflexivity. Qed.

Theorem codec_dur_pair d : dur_pair_of_us d = from_timedelta d.
Proof. rewrite from_timedelta_is_spec. reflexivity. Qed.

Theorem codec_us_of_ts s n : us_of_ts s n = (do dt <- to_datetime s n; Ok (instant dt)).
Proof.
  rewrite to_datetime_exact. unfold us_of_ts, ts_to_us, ts_rangeb, td_ok, td_min_us, td_max_us, dt_min_us, dt_max_us,
    TS_MIN_US, TS_MAX_US.
  set (u := s * 1000000 + n / 1000).
  destruct ((-62135596800 * 1000000 <=? u) && (u <=? 253402300799 * 1000000 + 999999)) eqn:R.
  - replace ((-999999999 * 86400000000 <=? u) && (u <=? 1000000000 * 86400000000 - 1) && (-62135596800000000 <=? u) &&
             (u <=? 253402300799999999)) with true by lia.
    cbn [bind]. unfold instant; cbn [wall off]. f_equal. lia.
  - replace ((-999999999 * 86400000000 <=? u) && (u <=? 1000000000 * 86400000000 - 1) && (-62135596800000000 <=? u) &&
             (u <=? 253402300799999999)) with false by lia.
    reflexivity.
Qed.

Theorem codec_us_of_dur s n : us_of_dur s n = to_timedelta s n.
Proof.
  rewrite to_timedelta_exact. unfold us_of_dur, dur_to_us, td_rangeb, td_ok, td_min_us, td_max_us, td_days, DAY_US.
  set (u := s * 1000000 + Z.quot n 1000).
  destruct (Z.abs (u / 86400000000) <=? 999999999) eqn:R.
  - replace ((-999999999 * 86400000000 <=? u) && (u <=? 1000000000 * 86400000000 - 1)) with true by lia. reflexivity.
  - replace ((-999999999 * 86400000000 <=? u) && (u <=? 1000000000 * 86400000000 - 1)) with false by lia. reflexivity.
Qed.

(* C01's value conditions for a datetime / timedelta field (Model/WellFormed.v value_ok) are C15's ranges *)
Theorem codec_value_ok_ts t : (dt_min_us <=? t) && (t <=? dt_max_us) = ts_rangeb t.
Proof. unfold ts_rangeb, dt_min_us, dt_max_us, TS_MIN_US, TS_MAX_US. lia. Qed.

Theorem codec_value_ok_dur d : (- 315576000000000000 <=? d) && (d <=? 315576000000000000) = dur_rangeb d.
Proof. unfold dur_rangeb, DUR_MAX_S. lia. Qed.

(* ====================================================================================== *)
(* 4. the wire form of the whole field is unique: ours IS the conforming writer's           *)
(* ====================================================================================== *)
Lemma msg_field_wire_unique fno inner a b : msg_field_wire fno inner a -> msg_field_wire fno inner b -> a = b.
Proof.
  intros (ka & la & -> & Ka & La) (kb & lb & -> & Kb & Lb).
  rewrite (canonical_unique _ _ _ Ka Kb), (canonical_unique _ _ _ La Lb). reflexivity.
Qed.

Lemma msg_field_wire_nonempty fno inner a : msg_field_wire fno inner a -> a <> [].
Proof.
  intros (ka & la & -> & (Sh & _) & _). apply varint_shape_nonempty in Sh. destruct ka; [congruence|discriminate].
Qed.

Theorem ts_field_wire_unique fno t a b : ts_field_wire fno t a -> ts_field_wire fno t b -> a = b.
Proof.
  intros [(Z1 & ->)|(Ht & ia & Wa & Sa)] [(Z2 & ->)|(Ht' & ib & Wb & Sb)]; try reflexivity; try contradiction.
  rewrite (sn_wire_unique _ _ _ _ Sa Sb) in Wa. exact (msg_field_wire_unique _ _ _ _ Wa Wb).
Qed.

Theorem dur_field_wire_unique fno d a b : dur_field_wire fno d a -> dur_field_wire fno d b -> a = b.
Proof.
  intros [(Z1 & ->)|(Ht & ia & Wa & Sa)] [(Z2 & ->)|(Ht' & ib & Wb & Sb)]; try reflexivity; try contradiction.
  rewrite (sn_wire_unique _ _ _ _ Sa Sb) in Wa. exact (msg_field_wire_unique _ _ _ _ Wa Wb).
Qed.

(* ====================================================================================== *)
(* 5. every datetime, not only those whose INSTANT is in range                              *)
(* ====================================================================================== *)
Lemma ser_msg_field_wire fno inner :
  0 < fno < 2 ^ 29 -> Zlength inner < 2 ^ 63 -> exists bs, ser_msg_field fno inner = Ok bs /\ msg_field_wire fno inner bs.
Proof.
  intros Hf Hl.
  destruct (outer_roundtrip (fun _ => Ok tt) fno inner tt tt Hf Hl eq_refl) as (bs & E & W & _).
  exists bs. auto.
Qed.

Theorem bytes_ts_any fno dt :
  0 < fno < 2 ^ 29 -> - 2 ^ 63 <= instant dt / 1000000 < 2 ^ 63 ->
  exists bs, bytes_ts fno dt = Ok bs /\ ts_field_wire fno (instant dt) bs /\
             parse_ts fno bs = if ts_rangeb (instant dt) then Ok (mkdt (instant dt) 0) else Err EOverflow.
Proof.
  intros Hf Hs. unfold bytes_ts.
  destruct (instant dt =? 0) eqn:Z0.
  - exists []. split; [reflexivity|]. split; [left; split; [lia|reflexivity]|].
    replace (instant dt) with 0 by lia. reflexivity.
  - rewrite from_datetime_is_spec. unfold ts_of_us.
    set (s := instant dt / 1000000) in *. set (n := instant dt mod 1000000 * 1000).
    assert (Hn : - 2 ^ 31 <= n < 2 ^ 31) by (subst n; lia).
    destruct (bytes_parse_sn s n Hs Hn) as (inner & Ei & Wi & Pi & Li & _).
    rewrite Ei. cbn [bind].
    destruct (ser_msg_field_wire fno inner Hf (Zlength_le_22 _ Li)) as (bs & Eb & Wb).
    exists bs. split; [exact Eb|]. split.
    + right. split; [lia|]. exists inner. split; [exact Wb|]. exact Wi.
    + rewrite (parse_ts_wire fno s n inner bs Hf Hs Hn Wi Wb), to_datetime_exact.
      replace (ts_to_us s n) with (instant dt) by (unfold ts_to_us; subst s n; lia). reflexivity.
Qed.

Lemma py_datetime_seconds dt : py_datetime dt = true -> - 2 ^ 63 <= instant dt / 1000000 < 2 ^ 63.
Proof. unfold py_datetime, instant, DT_MIN_US, DT_MAX_US, DAY_US. lia. Qed.

(* every aware datetime CPython can hold *)
Theorem bytes_ts_python fno dt :
  0 < fno < 2 ^ 29 -> py_datetime dt = true ->
  exists bs, bytes_ts fno dt = Ok bs /\ ts_field_wire fno (instant dt) bs /\
             parse_ts fno bs = if ts_rangeb (instant dt) then Ok (mkdt (instant dt) 0) else Err EOverflow.
Proof. intros Hf Hp. apply bytes_ts_any; [exact Hf|apply py_datetime_seconds, Hp]. Qed.

(* ... so the round trip through bytes returns the value EXACTLY when the instant (not the wall clock) is in range *)
Theorem bytes_ts_roundtrip_iff fno dt :
  0 < fno < 2 ^ 29 -> py_datetime dt = true ->
  ((do b <- bytes_ts fno dt; parse_ts fno b) = Ok (mkdt (instant dt) 0) <-> in_ts_range (instant dt)) /\
  (~ in_ts_range (instant dt) -> (do b <- bytes_ts fno dt; parse_ts fno b) = Err EOverflow).
Proof.
  intros Hf Hp. destruct (bytes_ts_python fno dt Hf Hp) as (bs & -> & _ & P). cbn [bind]. rewrite P, <- ts_rangeb_iff.
  destruct (ts_rangeb (instant dt)); split; try split; try congruence; try reflexivity; try discriminate.
Qed.

(* the wall clock 0001-01-01T00:00:00 at +01:00 - inside the range the quantifier names - is encoded and cannot be read *)
Theorem ts_wall_range_refuted :
  exists dt, py_datetime dt = true /\ in_ts_range (wall dt) /\ ~ in_ts_range (instant dt) /\
             from_datetime dt = ts_of_us (instant dt) /\
             (do b <- bytes_ts 1 dt; parse_ts 1 b) = Err EOverflow.
Proof.
  exists (mkdt DT_MIN_US 3600000000). split; [vm_compute; reflexivity|].
  split; [unfold in_ts_range, TS_MIN_US, TS_MAX_US, DT_MIN_US; cbn [wall]; lia|].
  split; [unfold in_ts_range, TS_MIN_US, TS_MAX_US, DT_MIN_US, instant; cbn [wall off]; lia|].
  split; vm_compute; reflexivity.
Qed.

(* what any conforming writer emits for the instant is what betterproto emits *)
Theorem bytes_ts_is_the_wire fno dt w :
  0 < fno < 2 ^ 29 -> - 2 ^ 63 <= instant dt / 1000000 < 2 ^ 63 ->
  (ts_field_wire fno (instant dt) w <-> bytes_ts fno dt = Ok w).
Proof.
  intros Hf Hs. destruct (bytes_ts_any fno dt Hf Hs) as (bs & E & W & _). split.
  - intros Ww. rewrite E. f_equal. exact (ts_field_wire_unique _ _ _ _ W Ww).
  - intros E'. rewrite E in E'. injection E' as <-. exact W.
Qed.

Theorem bytes_dur_is_the_wire fno d w :
  0 < fno < 2 ^ 29 -> td_rangeb d = true -> (dur_field_wire fno d w <-> bytes_dur fno d = Ok w).
Proof.
  intros Hf Hd. apply td_rangeb_iff in Hd. destruct (bytes_parse_dur fno d Hf Hd) as (bs & E & W & _). split.
  - intros Ww. rewrite E. f_equal. exact (dur_field_wire_unique _ _ _ _ W Ww).
  - intros E'. rewrite E in E'. injection E' as <-. exact W.
Qed.

(* the bytes are empty exactly for the default (the epoch, whatever the offset; the zero span) *)
Theorem bytes_ts_empty_iff fno dt :
  0 < fno < 2 ^ 29 -> - 2 ^ 63 <= instant dt / 1000000 < 2 ^ 63 -> (bytes_ts fno dt = Ok [] <-> instant dt = 0).
Proof.
  intros Hf Hs. split.
  - intros E. apply (bytes_ts_is_the_wire fno dt [] Hf Hs) in E.
    destruct E as [(H & _)|(_ & inner & W & _)]; [exact H|]. exfalso. exact (msg_field_wire_nonempty _ _ _ W eq_refl).
  - intros H. unfold bytes_ts. rewrite H. reflexivity.
Qed.

Theorem bytes_dur_empty_iff fno d :
  0 < fno < 2 ^ 29 -> td_rangeb d = true -> (bytes_dur fno d = Ok [] <-> d = 0).
Proof.
  intros Hf Hd. split.
  - intros E. apply (bytes_dur_is_the_wire fno d [] Hf Hd) in E.
    destruct E as [(H & _)|(_ & inner & W & _)]; [exact H|]. exfalso. exact (msg_field_wire_nonempty _ _ _ W eq_refl).
  - intros ->. reflexivity.
Qed.

(* two datetimes give the same bytes EXACTLY when they denote the same instant (any offsets) *)
Theorem bytes_ts_iff fno a b :
  0 < fno < 2 ^ 29 -> in_ts_range (instant a) -> in_ts_range (instant b) ->
  (bytes_ts fno a = bytes_ts fno b <-> instant a = instant b).
Proof.
  intros Hf Ra Rb. split; [|apply bytes_ts_tz].
  destruct (bytes_parse_ts fno a Hf Ra) as (ba & Ea & _ & Pa).
  destruct (bytes_parse_ts fno b Hf Rb) as (bb & Eb & _ & Pb).
  rewrite Ea, Eb. intros H. injection H as ->. rewrite Pa in Pb. injection Pb as H. exact H.
Qed.

Theorem bytes_dur_iff fno a b :
  0 < fno < 2 ^ 29 -> td_rangeb a = true -> td_rangeb b = true -> (bytes_dur fno a = bytes_dur fno b <-> a = b).
Proof.
  intros Hf Ra Rb. split; [|intros ->; reflexivity].
  destruct (bytes_parse_dur fno a Hf (proj1 (td_rangeb_iff a) Ra)) as (ba & Ea & _ & Pa).
  destruct (bytes_parse_dur fno b Hf (proj1 (td_rangeb_iff b) Rb)) as (bb & Eb & _ & Pb).
  rewrite Ea, Eb. intros H. injection H as ->. rewrite Pa in Pb. injection Pb as H. exact H.
Qed.

(* the datetime that comes back is the same instant, expressed in UTC *)
Theorem ts_roundtrip_same_instant fno dt :
  0 < fno < 2 ^ 29 -> in_ts_range (instant dt) ->
  exists bs dt', bytes_ts fno dt = Ok bs /\ parse_ts fno bs = Ok dt' /\ instant dt' = instant dt /\ off dt' = 0.
Proof.
  intros Hf R. destruct (bytes_parse_ts fno dt Hf R) as (bs & E & _ & P).
  exists bs, (mkdt (instant dt) 0). repeat split; try assumption. unfold instant; cbn [wall off]. lia.
Qed.
