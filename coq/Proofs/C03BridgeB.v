(* C03 bridge, part B (structure): what the rows of [class_table_of D] are, that their (module, name) keys are
   pairwise distinct under class_nodup, and that therefore a reference [PyRef package class_name(path)] to a
   message / enum of a generated package resolves (by name, the way Python does) to a class of the right kind. *)
From BP Require Import Base.Prelude Model.Types Spec.Descriptor Model.Object Model.WellFormed.
From BP Require Import Model.C03Bridge Proofs.PluginP.
From Coq Require Import Lia.

(* ---- generic list facts ---- *)
Lemma all_some_inv {A B} (h : A -> option B) l : forall ys,
  all_some (map h l) = Some ys -> Forall2 (fun a y => h a = Some y) l ys.
Proof.
  induction l as [|a r IH]; intros ys H; cbn [map all_some] in H.
  - injection H as <-. constructor.
  - destruct (h a) as [y|] eqn:Ea; [|discriminate].
    destruct (all_some (map h r)) as [ys'|] eqn:Er; [|discriminate]. injection H as <-.
    constructor; [assumption | now apply IH].
Qed.

Lemma Forall2_in_l {A B} (P : A -> B -> Prop) l ys a : Forall2 P l ys -> In a l -> exists y, In y ys /\ P a y.
Proof.
  induction 1 as [|a0 y0 l ys H0 _ IH]; intros Hin; [contradiction|].
  destruct Hin as [-> | Hin]; [exists y0; split; [now left | assumption]|].
  destruct (IH Hin) as (y & Hy & Py). exists y. split; [now right | assumption].
Qed.

Lemma Forall2_in_r {A B} (P : A -> B -> Prop) l ys y : Forall2 P l ys -> In y ys -> exists a, In a l /\ P a y.
Proof.
  induction 1 as [|a0 y0 l ys H0 _ IH]; intros Hin; [contradiction|].
  destruct Hin as [-> | Hin]; [exists a0; split; [now left | assumption]|].
  destruct (IH Hin) as (a & Ha & Pa). exists a. split; [now right | assumption].
Qed.

Lemma Forall2_map_l {A B C} (g : B -> C) (h : A -> C) l ys :
  Forall2 (fun a y => g y = h a) l ys -> map g ys = map h l.
Proof. induction 1 as [|a y l ys E _ IH]; [reflexivity|]. cbn [map]. now rewrite E, IH. Qed.

Lemma Forall2_strengthen {A B} (P Q : A -> B -> Prop) l ys :
  Forall2 P l ys -> (forall a y, In a l -> P a y -> Q a y) -> Forall2 Q l ys.
Proof.
  induction 1 as [|a y l ys H _ IH]; intros Himp; constructor.
  - apply Himp; [now left | assumption].
  - apply IH. intros a' y' Hin. apply Himp. now right.
Qed.

Lemma NoDup_app_intro {A} (l1 l2 : list A) :
  NoDup l1 -> NoDup l2 -> (forall x, In x l1 -> ~ In x l2) -> NoDup (l1 ++ l2).
Proof.
  induction l1 as [|a r IH]; intros H1 H2 Hd; [exact H2|].
  inversion H1 as [|? ? Ha Hr]; subst. cbn [app]. constructor.
  - intros Hin. apply in_app_or in Hin as [Hin | Hin]; [contradiction|]. apply (Hd a); [now left | assumption].
  - apply IH; [assumption | assumption |]. intros x Hx. apply Hd. now right.
Qed.

(* keys (module, class name) of a table whose module names are distinct and whose class names are distinct per module *)
Definition row_key (r : row) : str * str := (fst (fst r), snd (fst r)).

Lemma class_rows_keys (t : class_table) :
  map row_key (class_rows t) = flat_map (fun m => map (fun c => (fst m, fst c)) (snd m)) t.
Proof.
  unfold class_rows. rewrite map_flat_map. apply flat_map_ext_in. intros m _. rewrite map_map. reflexivity.
Qed.

Lemma NoDup_map_pair {A} (k : str) (g : A -> str) l : NoDup (map g l) -> NoDup (map (fun c => (k, g c)) l).
Proof.
  induction l as [|c cs IH]; intros H; [constructor|]. cbn [map] in *. inversion H as [|? ? Hn Hr]; subst.
  constructor; [|auto]. intros Hin. apply in_map_iff in Hin as (c' & E & Hc'). injection E as E. apply Hn.
  rewrite <- E. now apply in_map.
Qed.

Lemma keys_nodup (t : class_table) :
  NoDup (map fst t) -> (forall m, In m t -> NoDup (map fst (snd m))) -> NoDup (map row_key (class_rows t)).
Proof.
  rewrite class_rows_keys. induction t as [|m r IH]; intros Hm Hc; [constructor|].
  cbn [map] in Hm. inversion Hm as [|? ? Hnin Hr]; subst. cbn [flat_map]. apply NoDup_app_intro.
  - apply NoDup_map_pair. apply Hc. now left.
  - apply IH; [assumption|]. intros m' Hm'. apply Hc. now right.
  - intros [mo cl] H1 H2. apply in_map_iff in H1 as (c & E & _).
    apply in_flat_map in H2 as (m' & Hm' & H2). apply in_map_iff in H2 as (c' & E' & _).
    injection E as E1 _. injection E' as E1' _. apply Hnin. apply in_map_iff. exists m'. split; [|assumption].
    exact (eq_trans E1' (eq_sym E1)).
Qed.

(* ---- the resolver finds a row that is there, and says the right kind ---- *)
Lemma resolve_found l : NoDup (map row_key l) -> forall mo cl body a b, In (mo, cl, body) l ->
  exists p, resolve_ref mo cl l a b = Some p
            /\ match body with ClsMessage _ => exists c, p = PyMsg c | ClsEnum _ => exists e, p = PyEnum e end.
Proof.
  induction l as [|[[m c] bd] r IH]; intros Hnd mo cl body a b Hin; [contradiction|].
  cbn [map] in Hnd. inversion Hnd as [|? ? Hnin Hr]; subst. cbn [resolve_ref].
  destruct (str_eqb mo m && str_eqb cl c) eqn:E.
  - apply andb_prop in E as [E1 E2]. apply str_eqb_eq in E1, E2. subst m c.
    destruct Hin as [Heq | Hin].
    + injection Heq as ->. eexists. split; [reflexivity|]. destruct body; eauto.
    + exfalso. apply Hnin. replace (row_key (mo, cl, bd)) with (row_key (mo, cl, body)) by reflexivity. now apply in_map.
  - destruct Hin as [Heq | Hin].
    + injection Heq as -> -> ->. rewrite !str_eqb_refl in E. discriminate.
    + destruct bd; now apply IH.
Qed.

(* ---- packages ---- *)
Lemma smem_in x l : smem x l = true <-> In x l.
Proof.
  unfold smem. rewrite existsb_exists. split.
  - intros (y & Hy & E). apply str_eqb_eq in E. now subst.
  - intros H. exists x. split; [assumption | apply str_eqb_refl].
Qed.

Lemma packages_aux_spec D : forall seen,
  NoDup (packages_aux seen D) /\ (forall p, In p (packages_aux seen D) -> ~ In p seen).
Proof.
  induction D as [|f r IH]; intros seen; cbn [packages_aux]; [split; [constructor | contradiction]|].
  destruct (smem (fl_package f) seen) eqn:E; [apply IH|].
  destruct (IH (fl_package f :: seen)) as [Hnd Hns]. split.
  - constructor; [|assumption]. intros Hin. apply (Hns _ Hin). now left.
  - intros p [<- | Hin].
    + intros Hin. apply smem_in in Hin. congruence.
    + intros Hs. apply (Hns _ Hin). now right.
Qed.

Lemma packages_nodup D : NoDup (packages D).
Proof. apply packages_aux_spec. Qed.

Lemma packages_aux_in D : forall seen f, In f D -> In (fl_package f) seen \/ In (fl_package f) (packages_aux seen D).
Proof.
  induction D as [|g r IH]; intros seen f Hin; [contradiction|]. cbn [packages_aux].
  destruct Hin as [-> | Hin].
  - destruct (smem (fl_package f) seen) eqn:E; [left; now apply smem_in | right; now left].
  - destruct (smem (fl_package g) seen) eqn:E; [now apply IH|].
    destruct (IH (fl_package g :: seen) f Hin) as [[<- | H] | H]; [right; now left | now left | right; now right].
Qed.

Lemma package_in D f : In f D -> In (fl_package f) (packages D).
Proof. intros H. destruct (packages_aux_in D [] f H) as [[] | H']. exact H'. Qed.

Lemma output_packages_nodup D : NoDup (output_packages D).
Proof. unfold output_packages. apply NoDup_filter. apply packages_nodup. Qed.

Lemma output_package_in D f : In f D -> fl_package f <> google_protobuf -> In (fl_package f) (output_packages D).
Proof.
  intros H Hne. unfold output_packages. apply filter_In. split; [now apply package_in|].
  apply negb_true_iff. now apply str_eqb_neq.
Qed.

Lemma output_package_not_gp D p : In p (output_packages D) -> p <> google_protobuf.
Proof. unfold output_packages. intros H. apply filter_In in H as [_ H]. apply negb_true_iff in H. now apply str_eqb_neq. Qed.

Lemma files_of_intro D f : In f D -> In f (files_of D (fl_package f)).
Proof. intros H. unfold files_of. apply filter_In. split; [assumption | apply str_eqb_refl]. Qed.

(* ---- symbols ---- *)
Lemma sym_msg_in D pkg p m : In (SymMsg pkg p m) (symbols D) ->
  exists f, In f D /\ fl_package f = pkg /\ In (p, m) (file_msgs f).
Proof.
  unfold symbols. intros H. apply in_flat_map in H as (f & Hf & H). exists f. split; [assumption|].
  unfold file_symbols in H. apply in_app_or in H as [H | H]; apply in_map_iff in H as ([p' x] & E & H); [|discriminate].
  injection E as <- <- <-. auto.
Qed.

Lemma sym_enum_in D pkg p e : In (SymEnum pkg p e) (symbols D) ->
  exists f, In f D /\ fl_package f = pkg /\ In (p, e) (file_enums f).
Proof.
  unfold symbols. intros H. apply in_flat_map in H as (f & Hf & H). exists f. split; [assumption|].
  unfold file_symbols in H. apply in_app_or in H as [H | H]; apply in_map_iff in H as ([p' x] & E & H); [discriminate|].
  injection E as <- <- <-. auto.
Qed.

(* ======================================================================================
   the table of a descriptor set
   ====================================================================================== *)
Section Structure.
  Variable field_name : str -> str.
  Variable class_name : str -> str.
  Variable enum_member_name : str -> str -> str.
  Variable D : descriptor.
  Variable t : class_table.
  Hypothesis Ht : class_table_of field_name class_name enum_member_name D = Some t.
  Hypothesis Hcn : class_nodup class_name D = true.

  Let R := class_rows t.
  Definition nonentry (D0 : descriptor) (pkg : str) : list (list str * msg_d) :=
    filter (fun pm => negb (md_map_entry (snd pm))) (flat_map file_msgs (files_of D0 pkg)).

  Lemma table_modules :
    Forall2 (fun pkg md => spec_module field_name class_name enum_member_name D pkg = Some md) (output_packages D) t.
  Proof. unfold class_table_of in Ht. now apply all_some_inv. Qed.

  Lemma module_shape pkg md : spec_module field_name class_name enum_member_name D pkg = Some md ->
    exists msgs, md = (pkg, map (spec_enum_class class_name enum_member_name) (flat_map file_enums (files_of D pkg)) ++ msgs)
      /\ Forall2 (fun pm c => spec_message_class field_name class_name D pkg pm = Some c) (nonentry D pkg) msgs.
  Proof.
    unfold spec_module. fold (nonentry D pkg).
    destruct (all_some (map (spec_message_class field_name class_name D pkg) (nonentry D pkg))) as [msgs|] eqn:E; [|discriminate].
    intros H. injection H as <-. exists msgs. split; [reflexivity | now apply all_some_inv].
  Qed.

  Lemma message_class_shape pkg pm c : spec_message_class field_name class_name D pkg pm = Some c ->
    exists fs, c = (class_name (dotted (fst pm)), ClsMessage fs)
      /\ Forall2 (fun x pf => spec_field field_name class_name D pkg (fst pm) (snd pm) x = Some pf) (md_fields (snd pm)) fs.
  Proof.
    unfold spec_message_class.
    destruct (all_some (map (spec_field field_name class_name D pkg (fst pm) (snd pm)) (md_fields (snd pm)))) as [fs|] eqn:E;
      [|discriminate].
    intros H. injection H as <-. exists fs. split; [reflexivity | now apply all_some_inv].
  Qed.

  Lemma module_names pkg md : In pkg (output_packages D) ->
    spec_module field_name class_name enum_member_name D pkg = Some md ->
    fst md = pkg /\ NoDup (map fst (snd md)).
  Proof.
    intros Hout H. destruct (module_shape pkg md H) as (msgs & -> & F). cbn [fst snd]. split; [reflexivity|].
    unfold class_nodup in Hcn. rewrite forallb_forall in Hcn. specialize (Hcn pkg Hout). apply nodupb_NoDup in Hcn.
    unfold class_paths in Hcn. fold (nonentry D pkg) in Hcn. rewrite map_app in Hcn. rewrite map_app.
    assert (E1 : map fst (map (spec_enum_class class_name enum_member_name) (flat_map file_enums (files_of D pkg)))
                 = map (fun p => class_name (dotted p)) (map fst (flat_map file_enums (files_of D pkg)))).
    { rewrite !map_map. apply map_ext. now intros [p e]. }
    assert (E2 : map fst msgs = map (fun p => class_name (dotted p)) (map fst (nonentry D pkg))).
    { rewrite map_map. apply (Forall2_map_l fst (fun pm => class_name (dotted (fst pm)))).
      eapply Forall2_impl; [|exact F]. cbn beta. intros pm c Hc.
      destruct (message_class_shape pkg pm c Hc) as (fs & -> & _). reflexivity. }
    unfold py_class in *. rewrite E1, E2. exact Hcn.
  Qed.

  Lemma rows_nodup : NoDup (map row_key R).
  Proof.
    unfold R. apply keys_nodup.
    - assert (E : map fst t = output_packages D).
      { rewrite <- (map_id (output_packages D)).
        apply (Forall2_map_l fst (fun p : str => p)).
        apply (Forall2_strengthen _ _ _ _ table_modules).
        intros pkg md Hin H. now apply (module_names pkg md). }
      rewrite E. apply output_packages_nodup.
    - intros md Hmd. destruct (Forall2_in_r _ _ _ md table_modules Hmd) as (pkg & Hpkg & Hs).
      now apply (module_names pkg md).
  Qed.

  (* every message / enum of a generated package has its row *)
  Lemma module_of_pkg pkg : In pkg (output_packages D) ->
    exists md, In md t /\ spec_module field_name class_name enum_member_name D pkg = Some md.
  Proof. intros H. exact (Forall2_in_l _ _ _ pkg table_modules H). Qed.

  Lemma in_class_rows md c : In md t -> In c (snd md) -> In (fst md, fst c, snd c) R.
  Proof.
    intros Hmd Hc. unfold R, class_rows. apply in_flat_map. exists md. split; [assumption|].
    apply in_map_iff. exists c. auto.
  Qed.

  Lemma row_of_msg f p m : In f D -> fl_package f <> google_protobuf -> In (p, m) (file_msgs f) ->
    md_map_entry m = false ->
    exists fs, In (fl_package f, class_name (dotted p), ClsMessage fs) R.
  Proof.
    intros Hf Hne Hm Hme.
    destruct (module_of_pkg _ (output_package_in D f Hf Hne)) as (md & Hmd & Hs).
    destruct (module_shape _ _ Hs) as (msgs & -> & F).
    assert (Hin : In (p, m) (nonentry D (fl_package f))).
    { unfold nonentry. apply filter_In. split; [|cbn [snd]; now rewrite Hme].
      apply in_flat_map. exists f. split; [now apply files_of_intro | assumption]. }
    destruct (Forall2_in_l _ _ _ _ F Hin) as (c & Hc & Hsc).
    destruct (message_class_shape _ _ _ Hsc) as (fs & -> & _). exists fs.
    apply (in_class_rows _ (class_name (dotted p), ClsMessage fs) Hmd). cbn [snd]. apply in_or_app. now right.
  Qed.

  Lemma row_of_enum f p e : In f D -> fl_package f <> google_protobuf -> In (p, e) (file_enums f) ->
    exists ms, In (fl_package f, class_name (dotted p), ClsEnum ms) R.
  Proof.
    intros Hf Hne He.
    destruct (module_of_pkg _ (output_package_in D f Hf Hne)) as (md & Hmd & Hs).
    destruct (module_shape _ _ Hs) as (msgs & -> & F).
    eexists. apply (in_class_rows _ (spec_enum_class class_name enum_member_name (p, e)) Hmd). cbn [snd].
    apply in_or_app. left. apply in_map. apply in_flat_map. exists f. split; [now apply files_of_intro | assumption].
  Qed.

  (* every message row comes from a message of a generated package, field by field *)
  Lemma msg_row_origin fs : In fs (msg_rows R) ->
    exists f p m, In f D /\ fl_package f <> google_protobuf /\ In (p, m) (file_msgs f) /\ md_map_entry m = false
      /\ Forall2 (fun x pf => spec_field field_name class_name D (fl_package f) p m x = Some pf) (md_fields m) fs.
  Proof.
    unfold msg_rows. intros H. apply in_flat_map in H as ([[mo cl] body] & Hr & H). cbn [snd] in H.
    destruct body as [fs'|]; [|contradiction]. destruct H as [<- | []].
    unfold R, class_rows in Hr. apply in_flat_map in Hr as (md & Hmd & Hr). apply in_map_iff in Hr as (c & E & Hc).
    injection E as <- <- Eb.
    destruct (Forall2_in_r _ _ _ md table_modules Hmd) as (pkg & Hpkg & Hs).
    destruct (module_shape _ _ Hs) as (msgs & -> & F). cbn [snd fst] in *.
    apply in_app_or in Hc as [Hc | Hc].
    - apply in_map_iff in Hc as ([p e] & <- & _). discriminate.
    - destruct (Forall2_in_r _ _ _ c F Hc) as ([p m] & Hpm & Hsc).
      destruct (message_class_shape _ _ _ Hsc) as (fs & -> & Ffs). cbn [fst snd] in *. injection Eb as <-.
      unfold nonentry in Hpm. apply filter_In in Hpm as [Hpm Hme]. cbn [snd] in Hme. apply negb_true_iff in Hme.
      apply in_flat_map in Hpm as (f & Hf & Hpm). unfold files_of in Hf. apply filter_In in Hf as [Hf Ep].
      apply str_eqb_eq in Ep. subst pkg.
      exists f, p, m. repeat split; try assumption. now apply (output_package_not_gp D).
  Qed.

  (* ---- references ---- *)
  Lemma ref_msg_resolves pkg p m : In (SymMsg pkg p m) (symbols D) -> pkg <> google_protobuf -> md_map_entry m = false ->
    exists c, pyty_of R (PyRef (module_of_package pkg) (class_name (dotted p))) = Some (PyMsg c).
  Proof.
    intros Hs Hne Hme. destruct (sym_msg_in D pkg p m Hs) as (f & Hf & <- & Hm).
    destruct (row_of_msg f p m Hf Hne Hm Hme) as (fs & Hrow).
    destruct (resolve_found R rows_nodup _ _ _ O O Hrow) as (q & Hq & c & ->).
    exists c. cbn [pyty_of]. unfold module_of_package. apply str_eqb_neq in Hne. now rewrite Hne.
  Qed.

  Lemma ref_enum_resolves pkg p e : In (SymEnum pkg p e) (symbols D) -> pkg <> google_protobuf ->
    exists i, pyty_of R (PyRef (module_of_package pkg) (class_name (dotted p))) = Some (PyEnum i).
  Proof.
    intros Hs Hne. destruct (sym_enum_in D pkg p e Hs) as (f & Hf & <- & He).
    destruct (row_of_enum f p e Hf Hne He) as (ms & Hrow).
    destruct (resolve_found R rows_nodup _ _ _ O O Hrow) as (q & Hq & i & ->).
    exists i. cbn [pyty_of]. unfold module_of_package. apply str_eqb_neq in Hne. now rewrite Hne.
  Qed.
End Structure.
