(* C02, encoder side, leaf layer for the message-level theorem: what _serialize_single writes for one scalar of
   every kind (float32 and the 32-bit varints included) is one legal record that fits the field, is valid by
   itself and stays inside [narrow_ok]; a length-delimited value is framed as one legal Len record; a packed
   payload unpacks. *)
From BP Require Import Base.Prelude Model.Types Model.Varint Model.Scalar Model.Float Model.Utf8.
From BP Require Import Model.Object Model.Eq Model.Encode Model.Decode Model.WellFormed.
From BP Require Import Spec.Varint Spec.Wire.
From BP Require Import Proofs.BytesP Proofs.VarintP Proofs.ScalarP Proofs.C02Abs Proofs.C02WireP Proofs.C02LeafP Proofs.C02EncP.
From BP Require Import Proofs.LenP Proofs.C01Scalar Proofs.C02LegalSpec.
From BP Require Import gen.Tables.
From Coq Require Import ZifyBool ZifyN.
Ltac Zify.zify_post_hook ::= Z.to_euclidean_division_equations.

(* the encoding is shorter than 2^35 bytes: the record grammar of the specification allows length prefixes of at most
   five bytes ([tag_max]), i.e. payloads below 2^35 bytes (real implementations stop at 2 GiB; no Python object gets
   near either) *)
Definition lsmall (bs : list byte) : Prop := Zlength bs < 2 ^ 35.

(* a canonical varint below 2^35 has at most five bytes *)
Lemma canonical_len5' n bs : canonical n bs -> 0 <= n < 2 ^ 35 -> (length bs <= 5)%nat.
Proof.
  intros Hc Hn. destruct (Z.eq_dec n 0) as [->|Hne].
  - destruct Hc as (Sh & Va & [L1|Ml]); [lia|].
    exfalso. pose proof (varint_value_lower bs (varint_shape_nonempty _ Sh) Ml (shape_last_lt _ Sh)) as Lo.
    rewrite Va in Lo. assert (0 < 128 ^ (Z.of_nat (length bs) - 1)); [|lia].
    apply Z.pow_pos_nonneg; [lia|]. pose proof (shape_length_pos bs Sh). lia.
  - destruct (canonical_length_bounds n bs Hc ltac:(lia)) as [Lo _].
    assert (Hl : (1 <= length bs)%nat) by (destruct Hc as (Sh & _); apply shape_length_pos, Sh).
    rewrite pow128 in Lo by lia.
    assert (7 * (Z.of_nat (length bs) - 1) < 35); [|lia].
    apply (Z.pow_lt_mono_r_iff 2); lia.
Qed.

Lemma encode_small35 n bs : 0 <= n < 2 ^ 35 -> encode_varint n = Ok bs -> VarintRep n bs /\ (length bs <= 5)%nat.
Proof.
  intros Hn E. destruct (encode_in_range n ltac:(lia)) as (bs' & E' & C & Le).
  rewrite E in E'. injection E' as <-. unfold wrap64 in C. rewrite Z.mod_small in C by lia.
  split; [|now apply (canonical_len5' n)]. destruct C as (Sh & Va & _). repeat split; assumption.
Qed.

Lemma lsmall_app_l a b : lsmall (a ++ b) -> lsmall a.
Proof. unfold lsmall. rewrite Zlength_app. pose proof (Zlength_nonneg b). lia. Qed.
Lemma lsmall_app_r a b : lsmall (a ++ b) -> lsmall b.
Proof. unfold lsmall. rewrite Zlength_app. pose proof (Zlength_nonneg a). lia. Qed.
Lemma lsmall_nil : lsmall [].
Proof. unfold lsmall. cbn. lia. Qed.

Lemma rec_ok_ne a r : rec_ok a r -> a <> [].
Proof.
  intros R. inversion R; subst;
    match goal with T : TagRep _ _ ?t |- ?t ++ _ <> [] => apply app_nonempty; exact (TagRep_nonempty _ _ _ T) end.
Qed.

(* ------------------------------------------------------------------ type tables *)
Lemma len_types t : tmem t WIRE_LEN_DELIM_TYPES = true ->
  tmem t WIRE_VARINT_TYPES = false /\ tmem t WIRE_FIXED_32_TYPES = false /\ tmem t WIRE_FIXED_64_TYPES = false.
Proof. destruct t; intros H; try (vm_compute in H; discriminate); repeat split; reflexivity. Qed.

(* ------------------------------------------------------------------ one length-delimited record *)
Lemma ser_len_rec msg num t v se w val bs :
  tmem t WIRE_LEN_DELIM_TYPES = true -> 1 <= num < 2 ^ 29 ->
  preprocess_with msg t w v = Ok val ->
  serialize_with msg num t v se w = Ok bs ->
  (bs = [] /\ val = [] /\ se = false /\ w = None) \/
  (bs <> [] /\ (lsmall bs -> rec_ok bs (num, Len val) /\ (length val < length bs)%nat)).
Proof.
  intros Ht Hn Hp H. unfold serialize_with in H. rewrite Hp in H. cbn [bind] in H.
  destruct (len_types t Ht) as (T0 & T1 & T2). rewrite T0, T1, T2, Ht in H.
  destruct (negb (Zlength val =? 0) || se || match w with Some _ => true | None => false end) eqn:Hc.
  - right. rewrite tag_value in H by lia.
    destruct (encode_varint (num * 8 + 2)) as [key|] eqn:Ek; cbn [bind] in H; [|discriminate].
    destruct (encode_varint (Zlength val)) as [ln|] eqn:El; cbn [bind] in H; [|discriminate]. injection H as <-.
    pose proof (encode_tag_rep num 2 key Hn ltac:(lia) Ek) as Tk.
    pose proof (TagRep_nonempty _ _ _ Tk) as Nk.
    split; [destruct key; [congruence | discriminate]|].
    intros Hs. unfold lsmall in Hs. rewrite !Zlength_app in Hs.
    pose proof (Zlength_nonneg val). pose proof (Zlength_nonneg key). pose proof (Zlength_nonneg ln).
    destruct (encode_small35 (Zlength val) ln ltac:(lia) El) as (Rl & Ll).
    split; [apply ok_len; assumption|].
    rewrite !app_length. destruct key; [congruence|]. cbn [length]. lia.
  - left. injection H as <-. apply orb_false_iff in Hc as [Hc Hw]. apply orb_false_iff in Hc as [Hc Hse].
    apply negb_false_iff in Hc.
    assert (val = []) by (destruct val; [reflexivity | unfold Zlength in Hc; cbn [length] in Hc; lia]).
    destruct w; [discriminate|]. auto.
Qed.

(* ------------------------------------------------------------------ varints *)
Lemma int_like_range t v z :
  tmem t WIRE_VARINT_TYPES = true -> scalar_in_range t v = true -> int_like v = Some z ->
  - 2 ^ 63 <= z < 2 ^ 64 /\
  (t = TUInt32 -> 0 <= z < 2 ^ 32) /\
  (t = TSInt32 -> - 2 ^ 31 <= z < 2 ^ 31) /\
  (t = TSInt64 -> - 2 ^ 63 <= z < 2 ^ 63).
Proof.
  intros Ht Hr Il. unfold scalar_in_range, int_in in Hr.
  destruct t; try (vm_compute in Ht; discriminate); destruct v; try discriminate Hr; cbn in Il; injection Il as <-;
    repeat split; intros; try discriminate; try lia; destruct b; lia.
Qed.

Lemma preprocess_varint_rep msg t v a :
  tmem t WIRE_VARINT_TYPES = true -> scalar_in_range t v = true ->
  preprocess_with msg t None v = Ok a ->
  exists n, VarintRep n a /\ 0 <= n < 2 ^ 64 /\ (narrow32 t = true -> n < 2 ^ 32).
Proof.
  intros Ht Hr Hp. unfold preprocess_with in Hp.
  assert (Hil : exists z, int_like v = Some z).
  { unfold scalar_in_range in Hr. destruct t; try (vm_compute in Ht; discriminate); destruct v; try discriminate Hr; cbn; eauto. }
  destruct Hil as (z & Il). rewrite Il in Hp.
  destruct (int_like_range t v z Ht Hr Il) as (Hz & Hu32 & Hs32 & Hs64).
  destruct (tmem t [TEnum; TBool; TInt32; TInt64; TUInt32; TUInt64]) eqn:T0.
  - destruct (encode_in_range z Hz) as (vb & Ev & (Sh & Va & _) & Le). rewrite Hp in Ev. injection Ev as <-.
    exists (wrap64 z). split; [repeat split; assumption|]. unfold wrap64. split; [lia|].
    intros Hn. destruct t; try discriminate Hn; try discriminate T0. specialize (Hu32 eq_refl). lia.
  - assert (T1 : tmem t [TSInt32; TSInt64] = true) by (destruct t; try discriminate T0; try (vm_compute in Ht; discriminate); reflexivity).
    rewrite T1 in Hp.
    assert (Hz' : - 2 ^ 63 <= z < 2 ^ 63) by (destruct t; try discriminate T1; [specialize (Hs32 eq_refl); lia | apply Hs64; reflexivity]).
    pose proof (zigzag_range 64 z ltac:(lia) ltac:(change (2 ^ (64 - 1)) with (2 ^ 63); lia)) as Zr.
    destruct (encode_in_range (zigzag z) ltac:(lia)) as (vb & Ev & (Sh & Va & _) & Le). rewrite Hp in Ev. injection Ev as <-.
    unfold wrap64 in Va. rewrite Z.mod_small in Va by lia.
    exists (zigzag z). split; [repeat split; assumption|]. split; [lia|].
    intros Hn. destruct t; try discriminate Hn; try discriminate T1.
    pose proof (zigzag_range 32 z ltac:(lia) ltac:(change (2 ^ (32 - 1)) with (2 ^ 31); apply Hs32; reflexivity)). lia.
Qed.

(* ------------------------------------------------------------------ the field-independent part of elem_fine *)
Definition wire_match_t (t : ptype) (p : payload) : bool :=
  match p, wire_of t with
  | Varint _, WVarint | Fixed64 _, WFixed64 | Fixed32 _, WFixed32 | Len _, WLen => true
  | _, _ => false
  end.
Definition narrow_t (t : ptype) (p : payload) : bool :=
  if narrow32 t then
    match p with
    | Varint n => n <? 2 ^ 32
    | Len b => varints_below (length b) (2 ^ 32) b
    | _ => true
    end
  else true.

Definition leaf_fine (t : ptype) (p : payload) : Prop :=
  wire_match_t t p = true /\ is_some (scalar_of t p) = true /\ narrow_t t p = true.

Lemma leaf_elem_fine nested nested_ok f p :
  msg_class f = None -> leaf_fine (fty f) p -> elem_fine nested nested_ok f p = true.
Proof.
  intros Hm (H1 & H2 & H3). unfold elem_fine, elem_of. rewrite Hm.
  change (wire_match f p) with (wire_match_t (fty f) p). change (narrow_ok f p) with (narrow_t (fty f) p).
  now rewrite H1, H2, H3.
Qed.

Lemma scalar_of_wire t p a : scalar_of t p = Some a -> wire_match_t t p = true.
Proof. destruct p, t; cbn; intros H; try discriminate H; reflexivity. Qed.

(* every scalar kind: one record, or nothing for an empty string / bytes without serialize_empty *)
Theorem scalar_leaf msg num t v se bs :
  1 <= num < 2 ^ 29 -> tmem t scalar_ptypes = true -> scalar_in_range t v = true ->
  serialize_with msg num t v se None = Ok bs ->
  (bs = [] /\ se = false) \/
  (bs <> [] /\ (lsmall bs -> exists p, rec_ok bs (num, p) /\ leaf_fine t p)).
Proof.
  intros Hn Hsc Hr H.
  destruct (tmem t WIRE_VARINT_TYPES) eqn:Tv.
  { (* varints, the 32-bit ones included *)
    right. unfold serialize_with in H.
    destruct (preprocess_with msg t None v) as [value|] eqn:Hp; cbn [bind] in H; [|discriminate].
    rewrite Tv, shiftl_3 in H.
    destruct (encode_varint (num * 8 + 0)) as [key|] eqn:Ek; cbn [bind] in H; [|discriminate]. injection H as <-.
    pose proof (encode_tag_rep num 0 key Hn ltac:(lia) Ek) as Tk.
    split; [pose proof (TagRep_nonempty _ _ _ Tk); destruct key; [congruence | discriminate]|]. intros _.
    destruct (preprocess_varint_rep msg t v value Tv Hr Hp) as (n & Rn & Hn64 & Hnar).
    exists (Varint n). split; [apply ok_varint; [exact Tk | exact Rn | lia]|].
    split; [destruct t; try (vm_compute in Tv; discriminate); reflexivity|].
    split; [destruct t; try (vm_compute in Tv; discriminate); reflexivity|].
    unfold narrow_t. destruct (narrow32 t) eqn:N; [|reflexivity]. specialize (Hnar eq_refl). lia. }
  destruct (ptype_eqb t TFloat) eqn:Tf.
  { (* float32: four bytes, whatever the rounding gives *)
    apply ptype_eqb_eq in Tf. subst t. right. unfold serialize_with, preprocess_with in H.
    cbn [tmem existsb ptype_eqb ptype_tag Z.eqb orb FIXED_TYPES] in H.
    unfold pack_value in H. cbn [pack_fmt] in H.
    destruct v; try discriminate Hr. destruct (d2f bits) as [w|]; [|discriminate H]. cbn [bind] in H.
    replace (tmem TFloat WIRE_VARINT_TYPES) with false in H by reflexivity.
    replace (tmem TFloat WIRE_FIXED_32_TYPES) with true in H by reflexivity.
    rewrite tag_value in H by lia.
    destruct (encode_varint (num * 8 + 5)) as [key|] eqn:Ek; cbn [bind] in H; [|discriminate]. injection H as <-.
    pose proof (encode_tag_rep num 5 key Hn ltac:(lia) Ek) as Tk.
    split; [pose proof (TagRep_nonempty _ _ _ Tk); destruct key; [congruence | discriminate]|]. intros _.
    exists (Fixed32 (le_bytes 4 w)). split; [apply ok_fixed32; [exact Tk | apply le_bytes_length]|].
    repeat split; reflexivity. }
  destruct (tmem t FIXED_TYPES) eqn:Tx.
  { (* the other fixed-width kinds: Proofs/C02EncP.v *)
    assert (NF : t <> TFloat) by (intros ->; discriminate Tf).
    destruct (enc_scalar_record msg num t v se bs Hn Hr NF) as [(_ & _ & [-> | ->]) | (p & Rp & Sp & _)]; [|exact H| | |].
    - intros s [-> | ->]; destruct t; try discriminate Hr; discriminate Tx.
    - destruct t; try discriminate Hr; discriminate Tx.
    - destruct t; try discriminate Hr; discriminate Tx.
    - right. split; [eapply rec_ok_ne; exact Rp|]. intros _. exists p. split; [exact Rp|].
      split; [eapply scalar_of_wire; eauto|]. split; [now rewrite Sp|].
      unfold narrow_t. destruct t; try discriminate Tx; reflexivity. }
  (* string / bytes *)
  assert (Tl : tmem t WIRE_LEN_DELIM_TYPES = true /\ (t = TString \/ t = TBytes)).
  { destruct t; try (vm_compute in Hsc; discriminate); try discriminate Tv; try discriminate Tx; try discriminate Tf; split; auto. }
  destruct Tl as (Tl & Hsb).
  assert (Hp : exists s, preprocess_with msg t None v = Ok s /\ is_some (scalar_of t (Len s)) = true).
  { unfold scalar_in_range in Hr. destruct Hsb as [-> | ->]; destruct v; try discriminate Hr; eexists; (split; [reflexivity|]); cbn.
    - now rewrite Hr.
    - reflexivity. }
  destruct Hp as (s & Hp & Hs).
  destruct (ser_len_rec msg num t v se None s bs Tl Hn Hp H) as [(-> & _ & -> & _) | (Hne & Hrec)]; [left; auto|].
  right. split; [exact Hne|]. intros Hsm. destruct (Hrec Hsm) as (Rp & _).
  exists (Len s). split; [exact Rp|]. split; [destruct Hsb as [-> | ->]; reflexivity|]. split; [exact Hs|].
  destruct Hsb as [-> | ->]; reflexivity.
Qed.
