(* C03 gap closing: exactness witnesses for protoc_wf and for the conjuncts of names_ok that had no descriptor-level
   witness; non-vacuity of the two compositions of Proofs/C03GapB.v.  Everything by vm_compute. *)
From BP Require Import Base.Prelude Model.Types Model.Object Model.Decode Model.WellFormed Model.C01Def.
From BP Require Import Spec.Descriptor gen.C03Tables Model.Plugin Proofs.PluginP Proofs.PluginWitP Model.C03Bridge Proofs.C03BridgeWit.
From BP Require Import Proofs.C03ChainWit.
From BP Require Model.History Model.C07Ops Model.C01Reach Model.C01Parse.
From Coq Require Import String.

Definition conjuncts fn cn mn (D : descriptor) : list bool :=
  [pkg_names_ok D; flat_dotted_ok cn D; class_nodup cn D; fields_nodup fn D; members_nodup mn D; map_keys_ok D; wraps_ok D].
Definition differs fn cn mn (D : descriptor) : bool :=
  negb (cv_eqb (match reflect (compile fn cn mn D) with Ok t => cv_table t | Err k => CE k end)
               (cv_opt_table (class_table_of fn cn mn D))).

(* protoc_wf: message M { map<string, int32> kv = 1; } with the entry's fields listed as (value = 2, key = 1) *)
Definition D_swapped : descriptor :=
  [(mkFile (b "D_swapped.proto") (b "wp")
    [(mkMsg (b "M")
      [(mkField (b "kv") 1 3 11 (b ".wp.M.KvEntry") None false)]
      [(mkMsg (b "KvEntry")
        [(mkField (b "value") 2 1 5 (b "") None false); (mkField (b "key") 1 1 9 (b "") None false)]
        [] [] [] true)]
      [] [] false)]
    [])].

(* members_nodup: enum Color { COLOR_RED = 0; RED = 1; } with a member naming that strips the prefix "COLOR_"
   (what pythonize_enum_member_name does with the enum's own name) *)
Definition w_member_strip (n enum_name : str) : str :=
  match prefix_of (b "COLOR_") n with Some r => r | None => n end.
Definition D_members : descriptor :=
  [(mkFile (b "D_members.proto") (b "wp") [] [mkEnum (b "Color") [(b "COLOR_RED", 0); (b "RED", 1)]])].

(* flat_dotted_ok: class naming = identity; the class is defined under the flattened name "_A" and referred to as "A" *)
Definition w_class_id (s : str) : str := s.
Definition D_flat : descriptor :=
  [(mkFile (b "D_flat.proto") (b "wp") [(mkMsg (b "A") [(mkField (b "x") 1 1 5 (b "") None false)] [] [] [] false)] [])].

(* wraps_ok: a field of type google.protobuf.EnumValue (type.proto): the regex says wraps = "enum" *)
Definition D_wraps : descriptor :=
  [(mkFile (b "google/protobuf/type.proto") (b "google.protobuf")
     [(mkMsg (b "EnumValue") [(mkField (b "name") 1 1 9 (b "") None false)] [] [] [] false)] []);
   (mkFile (b "D_wraps.proto") (b "wp")
     [(mkMsg (b "A") [(mkField (b "ev") 1 1 11 (b ".google.protobuf.EnumValue") None false)] [] [] [] false)] [])].

Lemma protoc_wf_needed_refuted :
  protoc_wf D_swapped = false /\ names_ok w_field_name w_class_name w_member_name D_swapped = true
  /\ differs w_field_name w_class_name w_member_name D_swapped = true.
Proof. vm_compute. repeat split; reflexivity. Qed.

(* for every conjunct of names_ok: protoc_wf holds, exactly that conjunct fails, and the plugin's table is not the schema's *)
Lemma names_ok_conjuncts_exact :
  (protoc_wf D_k2 = true /\ conjuncts w_field_name w_class_name w_member_name D_k2 = [false; true; true; true; true; true; true]
   /\ differs w_field_name w_class_name w_member_name D_k2 = true)
  /\ (protoc_wf D_flat = true /\ conjuncts w_field_name w_class_id w_member_name D_flat = [true; false; true; true; true; true; true]
      /\ differs w_field_name w_class_id w_member_name D_flat = true)
  /\ (protoc_wf D_k1 = true /\ conjuncts w_field_name w_class_name w_member_name D_k1 = [true; true; false; true; true; true; true]
      /\ differs w_field_name w_class_name w_member_name D_k1 = true)
  /\ (protoc_wf D_k8 = true /\ conjuncts w_field_name w_class_name w_member_name D_k8 = [true; true; true; false; true; true; true]
      /\ differs w_field_name w_class_name w_member_name D_k8 = true)
  /\ (protoc_wf D_members = true /\ conjuncts w_field_name w_class_name w_member_strip D_members = [true; true; true; true; false; true; true]
      /\ differs w_field_name w_class_name w_member_strip D_members = true)
  /\ (protoc_wf D_k13 = true /\ conjuncts w_field_name w_class_name w_member_name D_k13 = [true; true; true; true; true; false; true]
      /\ differs w_field_name w_class_name w_member_name D_k13 = true)
  /\ (protoc_wf D_wraps = true /\ conjuncts w_field_name w_class_name w_member_name D_wraps = [true; true; true; true; true; true; false]
      /\ differs w_field_name w_class_name w_member_name D_wraps = true).
Proof. vm_compute. repeat split; reflexivity. Qed.

(* non-vacuity of generated_roundtrip_reachable: the history ok_ops on the generated class Outer meets hist_ok *)
Lemma gap_reach_hist :
  C01Reach.hist_ok C01Parse.op_reach_ok_p S_ok (new S_ok 11) ok_ops = true
  /\ match C07Ops.run7 S_ok (new S_ok 11) ok_ops with Ok o => which_one_of o 0 = Some 2%nat | Err _ => False end.
Proof. vm_compute. split; reflexivity. Qed.

(* non-vacuity of generated_accept_iff: both sides occur on the generated class Outer *)
Lemma gap_accept :
  match parse S_ok 11 ok_bytes with Ok _ => True | Err _ => False end
  /\ match parse S_ok 11 [x0a; x05] with Ok _ => False | Err _ => True end.
Proof. vm_compute. split; exact I. Qed.
