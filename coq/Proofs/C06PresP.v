(* C06, decoder side, part 4: after parse(), which explicit-presence fields are reported set, in
   terms of the record list the input is made of (Spec/C06Wire.v). *)
From BP Require Import Base.Prelude Model.Types Model.Varint Model.Object Model.Eq Model.Decode Model.WellFormed Model.C06Obs.
From BP Require Import gen.Tables Spec.Varint Spec.C06Wire.
From BP Require Import Proofs.C06SpecP Proofs.C06LoopP Proofs.C06EncP Proofs.C06StoreP Proofs.C06DecP.

Definition pres_inv (sc : schema) (o : obj) (seen : list wrec) : Prop :=
  let cd := get_class sc (ocls o) in
  (forall j f, nth_error (cfields cd) j = Some f -> fgroup f = None -> singular_hint (fhint f) = true ->
     (has_record f seen = true ->
        is_value (raw_at o j) /\ (plain_msg f -> exists ch, raw_at o j = PMsg ch /\ osow ch = true)) /\
     (has_record f seen = false -> raw_at o j = sentinel_of f)) /\
  (forall g, nth g (ocur o) None = last_member cd g seen) /\
  (forall g i, nth g (ocur o) None = Some i -> is_value (raw_at o i)).

Lemma has_record_snoc f seen r :
  has_record f (seen ++ [r]) = has_record f seen || ((rnum r =? fnum f) && fits f (rwt r)).
Proof. unfold has_record. rewrite existsb_app. cbn [existsb]. rewrite orb_false_r. reflexivity. Qed.

Lemma last_member_snoc cd g seen r :
  last_member cd g (seen ++ [r]) =
  match owner cd r with
  | Some i => if in_group cd g i then Some i else last_member cd g seen
  | None => last_member cd g seen
  end.
Proof. unfold last_member. rewrite fold_left_app. reflexivity. Qed.

Lemma last_member_in_group cd g : forall seen i, last_member cd g seen = Some i -> in_group cd g i = true.
Proof.
  intros seen. induction seen as [|r seen IH] using rev_ind; intros i H; [discriminate|].
  rewrite last_member_snoc in H. destruct (owner cd r) as [k|]; [|apply IH; exact H].
  destruct (in_group cd g k) eqn:E; [injection H as <-; exact E|apply IH; exact H].
Qed.

Lemma in_group_spec cd g i f :
  nth_error (cfields cd) i = Some f -> in_group cd g i = opt_nat_eqb (fgroup f) (Some g).
Proof.
  intros H. unfold in_group. rewrite H. destruct (fgroup f) as [g'|]; [|reflexivity].
  cbn. apply Nat.eqb_sym.
Qed.

Lemma pres_inv_init sc c : pres_inv sc (mark_received (new sc c)) [].
Proof.
  unfold pres_inv, new, mark_received, raw_at. cbn [ocls oraw ocur]. split; [|split].
  - intros j f Hj _ _. split; [discriminate|]. intros _.
    erewrite nth_error_nth by (rewrite nth_error_map, Hj; reflexivity). reflexivity.
  - intros g. rewrite nth_repeat_none. reflexivity.
  - intros g i H. rewrite nth_repeat_none in H. discriminate.
Qed.

Lemma unchanged_raw_at o o' j : unchanged o o' -> raw_at o' j = raw_at o j.
Proof. intros (_ & E & _). unfold raw_at. rewrite E. reflexivity. Qed.

Lemma pres_unchanged sc o o' seen r :
  unchanged o o' -> pres_inv sc o seen ->
  (forall j f, nth_error (cfields (get_class sc (ocls o))) j = Some f ->
               has_record f (seen ++ [r]) = has_record f seen) ->
  owner (get_class sc (ocls o)) r = None ->
  pres_inv sc o' (seen ++ [r]).
Proof.
  intros U (I1 & I2 & I3) Hsame Ow. pose proof U as (Ec & Er & Eu).
  unfold pres_inv. rewrite Ec. split; [|split].
  - intros j f Hj Gf Sf. rewrite (Hsame j f Hj), (unchanged_raw_at _ _ _ U). apply (I1 j f Hj Gf Sf).
  - intros g. rewrite last_member_snoc, Ow, Eu. apply I2.
  - intros g i0 Hi0. rewrite (unchanged_raw_at _ _ _ U). rewrite Eu in Hi0. eapply I3. exact Hi0.
Qed.

Lemma pres_step fuel' sc o seen r a o' :
  wf_schema sc = true -> std_builtins_b sc = true -> good sc o -> pres_inv sc o seen ->
  apply_record fuel' sc (get_class sc (ocls o)) o (parsed_of r a) = Ok o' ->
  pres_inv sc o' (seen ++ [r]) /\ good sc o' /\ ocls o' = ocls o.
Proof.
  intros W S Hg Hinv H. pose proof Hinv as (I1 & I2 & I3).
  pose proof (nested_good_all sc fuel' W S) as Hn.
  pose proof (apply_record_good _ _ _ _ _ W S Hn Hg H) as [Hg' Hc'].
  split; [|auto].
  pose proof (apply_record_effect _ _ _ _ _ W S Hn Hg H) as E.
  pose proof (owner_spec sc (ocls o) r W) as Ow.
  cbn [parsed_of pnum pwt] in E.
  destruct (field_by_number (get_class sc (ocls o)) (rnum r)) as [[i fi]|] eqn:B.
  2:{ (* no field has this number *)
    apply (pres_unchanged sc o o' seen r E Hinv); [|exact Ow].
    intros j f Hj. rewrite has_record_snoc.
    replace (rnum r =? fnum f) with false
      by (symmetry; apply Z.eqb_neq; intros Eq; eapply (field_by_number_none _ (rnum r)); eauto).
    cbn [andb]. apply orb_false_r. }
  pose proof (field_by_number_some _ _ _ _ B) as [Bi Bn].
  rewrite <- fits_is_wire_type_fits in Ow.
  assert (Hnum : forall j f, nth_error (cfields (get_class sc (ocls o))) j = Some f -> j <> i -> (rnum r =? fnum f) = false).
  { intros j f Hj Ne. apply Z.eqb_neq. intros Eq. apply Ne.
    eapply (wf_unique_numbers sc (ocls o)); try eassumption. congruence. }
  destruct (wire_type_fits fi (rwt r)) eqn:Hfit.
  2:{ (* the wire type does not fit: kept as unknown *)
    apply (pres_unchanged sc o o' seen r E Hinv); [|exact Ow].
    intros j f Hj. rewrite has_record_snoc.
    destruct (Nat.eq_dec j i) as [->|Ne].
    - rewrite Bi in Hj. injection Hj as <-.
      rewrite <- fits_is_wire_type_fits, Hfit, andb_false_r. apply orb_false_r.
    - rewrite (Hnum j f Hj Ne). cbn [andb]. apply orb_false_r. }
  (* the record is stored into field i *)
  destruct E as (vs & E & (Pn & Pp & Pl) & Pm).
  assert (Hval : is_value vs) by (split; assumption).
  assert (Hother : forall j f, nth_error (cfields (get_class sc (ocls o))) j = Some f -> fgroup f = None -> j <> i ->
                   raw_at o' j = raw_at o j /\ has_record f (seen ++ [r]) = has_record f seen).
  { intros j f Hj Gf Ne. split.
    - destruct (ef_other _ _ _ _ _ _ E j Ne) as [->|(_ & f' & g & Hf' & G1 & _)]; [reflexivity|].
      unfold fields_of in Hf'. rewrite Hj in Hf'. injection Hf' as <-. congruence.
    - rewrite has_record_snoc, (Hnum j f Hj Ne). cbn [andb]. apply orb_false_r. }
  unfold pres_inv. rewrite Hc'. split; [|split].
  - intros j f Hj Gf Sf. destruct (Nat.eq_dec j i) as [->|Ne].
    + rewrite Bi in Hj. injection Hj as <-. rewrite (ef_here _ _ _ _ _ _ E). split.
      * intros _. split; [exact Hval|]. intros ((_ & _ & Hw & Ht) & Hm). apply Pm; assumption.
      * intros Hh. exfalso.
        rewrite has_record_snoc, <- fits_is_wire_type_fits, Hfit, Bn, Z.eqb_refl, orb_true_r in Hh. discriminate.
    + destruct (Hother j f Hj Gf Ne) as [-> ->]. apply (I1 j f Hj Gf Sf).
  - intros g. rewrite (ef_cur _ _ _ _ _ _ E g), last_member_snoc, Ow, (in_group_spec _ g i fi Bi).
    destruct (opt_nat_eqb (fgroup fi) (Some g)); [reflexivity|apply I2].
  - intros g i0 Hi0. rewrite (ef_cur _ _ _ _ _ _ E g) in Hi0.
    destruct (opt_nat_eqb (fgroup fi) (Some g)) eqn:Eg.
    + injection Hi0 as <-. rewrite (ef_here _ _ _ _ _ _ E). apply Hval.
    + destruct (Nat.eq_dec i0 i) as [->|Ne]; [rewrite (ef_here _ _ _ _ _ _ E); apply Hval|].
      destruct (ef_other _ _ _ _ _ _ E i0 Ne) as [->|(_ & f' & g' & Hf' & G1 & G2)].
      * eapply I3. exact Hi0.
      * exfalso. rewrite I2 in Hi0. apply last_member_in_group in Hi0.
        unfold fields_of in Hf'.
        rewrite (in_group_spec _ g i0 f' Hf'), G1 in Hi0. apply opt_nat_eqb_eq in Hi0.
        rewrite G2, Hi0, opt_nat_eqb_refl in Eg. discriminate.
Qed.

Lemma loop_pres fuel' sc :
  wf_schema sc = true -> std_builtins_b sc = true ->
  forall rs bs, is_records rs bs ->
  forall n o seen m rest, (length bs < n)%nat -> good sc o -> pres_inv sc o seen ->
  my_loop fuel' sc (get_class sc (ocls o)) n o bs = Ok (m, rest) ->
  pres_inv sc m (seen ++ rs) /\ good sc m /\ ocls m = ocls o.
Proof.
  intros W S rs bs Hrs. induction Hrs as [|r rs a b Hr Hrs IH]; intros n o seen m rest Hn Hg Hinv H.
  - destruct n; [lia|]. cbn [my_loop] in H. injection H as <- _. rewrite app_nil_r. auto.
  - destruct n; [lia|].
    destruct (load_record fuel' r a b Hr) as (tag & tb & payload & Ea & Hne & Hv & Hf).
    assert (La : (1 <= length a)%nat).
    { rewrite Ea, app_length. destruct tb; [congruence|cbn; lia]. }
    remember (a ++ b) as s eqn:Es. destruct s as [|x s].
    { exfalso. apply (f_equal (@length byte)) in Es. rewrite app_length in Es. cbn in Es. lia. }
    cbn [my_loop] in H. rewrite Hv in H. cbn [bind] in H. rewrite Hf in H. cbn [bind] in H.
    destruct (apply_record fuel' sc (get_class sc (ocls o)) o (parsed_of r a)) as [o1|] eqn:A;
      cbn [bind] in H; [|discriminate].
    destruct (pres_step _ _ _ _ _ _ _ W S Hg Hinv A) as (I1 & G1 & C1).
    rewrite <- C1 in H.
    assert (Lb : (length b < n)%nat).
    { apply (f_equal (@length byte)) in Es. rewrite app_length in Es. cbn [length] in *. lia. }
    destruct (IH n o1 (seen ++ [r]) m rest Lb G1 I1 H) as (I2 & G2 & C2).
    rewrite <- app_assoc in I2. cbn [app] in I2. split; [exact I2|]. split; [exact G2|congruence].
Qed.

Theorem parse_presence sc c bs rs m :
  wf_schema sc = true -> std_builtins_b sc = true ->
  is_records rs bs -> parse sc c bs = Ok m ->
  pres_inv sc m rs /\ good sc m /\ ocls m = c.
Proof.
  intros W S Hrs H. unfold parse, parse_into in H.
  destruct (load (Datatypes.S (length bs)) sc (new sc c) bs None) as [[m' rest]|] eqn:L; cbn [bind] in H; [|discriminate].
  injection H as <-. rewrite load_none in L.
  pose proof (good_mark_received sc _ (good_new sc c (wf_opt_hinted sc W))) as G0.
  change (ocls (new sc c)) with (ocls (mark_received (new sc c))) in L.
  destruct (loop_pres (length bs) sc W S rs bs Hrs _ _ [] _ _ (Nat.lt_succ_diag_r _) G0 (pres_inv_init sc c) L)
    as (I & G & C).
  cbn [app] in I. auto.
Qed.

(* ---- the three reports ---- *)
Lemma optional_like_hint sc ng f :
  wf_field sc ng f = true -> optional_like f -> exists t, fhint f = HOptional t.
Proof.
  intros W (G & [Ho|(w & t & _ & Ht)]); [|eauto].
  unfold wf_field in W. destruct (fhint f) as [p|p|p|k v]; [|eauto| |];
    rewrite Ho in W; cbn [negb] in W; rewrite ?andb_false_r, ?andb_false_l in W;
    repeat (apply andb_prop in W as [W ?]); try discriminate.
  all: destruct (fgroup f); rewrite ?andb_false_r in *; try discriminate.
Qed.

Lemma value_read sc o j f x :
  nth_error (fields_of sc o) j = Some f -> fgroup f = None -> raw_at o j = x -> x <> PPlaceholder ->
  read sc o j = Ok x.
Proof.
  destruct o as [c raw sow unk cur]. unfold fields_of, raw_at, read, getattr. cbn [ocls oraw].
  intros Hf G Hx Hp. rewrite Hf. unfold group_selects. rewrite G, Hx.
  destruct x; try reflexivity. congruence.
Qed.

Lemma placeholder_read sc o j f :
  nth_error (fields_of sc o) j = Some f -> fgroup f = None -> raw_at o j = PPlaceholder ->
  read sc o j = Ok (default_of sc f).
Proof.
  destruct o as [c raw sow unk cur]. unfold fields_of, raw_at, read, getattr. cbn [ocls oraw].
  intros Hf G Hx. rewrite Hf. unfold group_selects. rewrite G, Hx. reflexivity.
Qed.

(* proto3 optional and wrapper fields: `m.f is not None` exactly when a record of f occurs *)
Theorem decode_optional sc c bs rs m j f :
  wf_schema sc = true -> std_builtins_b sc = true ->
  is_records rs bs -> parse sc c bs = Ok m ->
  nth_error (cfields (get_class sc c)) j = Some f -> optional_like f ->
  value_not_none sc m j = has_record f rs /\
  (fopt f = true -> is_set sc m j = has_record f rs).
Proof.
  intros W S Hrs Hp Hf Hol.
  destruct (parse_presence sc c bs rs m W S Hrs Hp) as ((I1 & _ & _) & G & C).
  pose proof (wf_field_of sc c f W (nth_error_In _ _ Hf)) as Wf.
  destruct (optional_like_hint _ _ _ Wf Hol) as (t & Ht).
  pose proof Hol as (Gf & _).
  assert (Hfm : nth_error (fields_of sc m) j = Some f) by (unfold fields_of; rewrite C; exact Hf).
  rewrite C in I1. specialize (I1 j f Hf Gf). rewrite Ht in I1. specialize (I1 eq_refl).
  destruct I1 as [It If].
  destruct (has_record f rs) eqn:Hr.
  - destruct (It eq_refl) as [[Vn Vp] _]. split.
    + unfold value_not_none. rewrite (value_read sc m j f _ Hfm Gf eq_refl Vp).
      destruct (raw_at m j); try reflexivity. congruence.
    + intros Ho. unfold is_set, field_at. unfold fields_of in Hfm. rewrite Hfm, Ho.
      destruct (raw_at m j); try reflexivity; congruence.
  - specialize (If eq_refl). unfold sentinel_of in If. split.
    + unfold value_not_none. destruct (fopt f).
      * rewrite (value_read sc m j f PNone Hfm Gf If) by discriminate. reflexivity.
      * rewrite (placeholder_read sc m j f Hfm Gf If). unfold default_of. rewrite Ht. reflexivity.
    + intros Ho. unfold is_set, field_at. unfold fields_of in Hfm. rewrite Hfm, Ho. rewrite Ho in If.
      rewrite If. reflexivity.
Qed.

(* oneof groups: which_one_of is the member whose record comes last *)
Theorem decode_oneof sc c bs rs m g :
  wf_schema sc = true -> std_builtins_b sc = true ->
  is_records rs bs -> parse sc c bs = Ok m ->
  which_one_of m g = last_member (get_class sc c) g rs.
Proof.
  intros W S Hrs Hp.
  destruct (parse_presence sc c bs rs m W S Hrs Hp) as ((_ & I2 & _) & _ & C).
  unfold which_one_of. rewrite I2, C. reflexivity.
Qed.

(* plain sub-message fields: serialized_on_wire(m.f) exactly when a record of f occurs *)
Theorem decode_submessage sc c bs rs m j f :
  wf_schema sc = true -> std_builtins_b sc = true ->
  is_records rs bs -> parse sc c bs = Ok m ->
  nth_error (cfields (get_class sc c)) j = Some f -> plain_msg f ->
  child_on_wire m j = has_record f rs.
Proof.
  intros W S Hrs Hp Hf Hpm.
  destruct (parse_presence sc c bs rs m W S Hrs Hp) as ((I1 & _ & _) & _ & C).
  pose proof Hpm as ((Gf & Ho & _ & _) & (c' & Hc')).
  rewrite C in I1. specialize (I1 j f Hf Gf). rewrite Hc' in I1. specialize (I1 eq_refl).
  destruct I1 as [It If]. unfold child_on_wire.
  destruct (has_record f rs).
  - destruct (It eq_refl) as [_ Hm]. destruct (Hm Hpm) as (ch & -> & Hs). exact Hs.
  - rewrite (If eq_refl). unfold sentinel_of. rewrite Ho. reflexivity.
Qed.
