(* C06, decoder side, part 4: after parse(), which explicit-presence fields are reported set, in
   terms of the record list the input is made of (Spec/C06Wire.v). *)
From BP Require Import Base.Prelude Model.Types Model.Varint Model.Object Model.Eq Model.Decode Model.WellFormed Model.C06Obs.
From BP Require Import gen.Tables Spec.Varint Spec.C06Wire.
From BP Require Import Proofs.C06SpecP Proofs.C06LoopP Proofs.C06EncP Proofs.C06StoreP Proofs.C06DecP.

Definition plain_msg (f : fdesc) : Prop := plain_msg_field f /\ msg_hinted f.

Definition pres_inv (sc : schema) (o : obj) (seen : list wrec) : Prop :=
  let cd := get_class sc (ocls o) in
  (forall j f, nth_error (cfields cd) j = Some f -> fgroup f = None -> singular_hint (fhint f) = true ->
     (has_record f seen = true ->
        is_value (raw_at o j) /\ (plain_msg f -> exists ch, raw_at o j = PMsg ch /\ osow ch = true)) /\
     (has_record f seen = false -> raw_at o j = sentinel_of f)) /\
  (forall g, nth g (ocur o) None = last_member cd g seen) /\
  (forall g i, nth g (ocur o) None = Some i -> is_value (raw_at o i)).

Lemma has_record_snoc f seen r :
  has_record f (seen ++ [r]) = has_record f seen || ((rnum r =? fnum f) && fits f (rwt r)).
Proof. unfold has_record. rewrite existsb_app. cbn [existsb]. rewrite orb_false_r. reflexivity. Qed.

Lemma last_member_snoc cd g seen r :
  last_member cd g (seen ++ [r]) =
  match owner cd r with
  | Some i => if in_group cd g i then Some i else last_member cd g seen
  | None => last_member cd g seen
  end.
Proof. unfold last_member. rewrite fold_left_app. reflexivity. Qed.

Lemma last_member_in_group cd g : forall seen i, last_member cd g seen = Some i -> in_group cd g i = true.
Proof.
  intros seen. induction seen as [|r seen IH] using rev_ind; intros i H; [discriminate|].
  rewrite last_member_snoc in H. destruct (owner cd r) as [k|]; [|apply IH; exact H].
  destruct (in_group cd g k) eqn:E; [injection H as <-; exact E|apply IH; exact H].
Qed.

Lemma in_group_spec cd g i f :
  nth_error (cfields cd) i = Some f -> in_group cd g i = opt_nat_eqb (fgroup f) (Some g).
Proof.
  intros H. unfold in_group. rewrite H. destruct (fgroup f) as [g'|]; [|reflexivity].
  cbn. apply Nat.eqb_sym.
Qed.

Lemma pres_inv_init sc c : pres_inv sc (mark_received (new sc c)) [].
Proof.
  unfold pres_inv, new, mark_received, raw_at. cbn [ocls oraw ocur]. repeat split.
  - discriminate.
  - discriminate.
  - intros _. erewrite nth_error_nth by (rewrite nth_error_map, H; reflexivity). reflexivity.
  - intros g. rewrite nth_repeat_none. reflexivity.
  - rewrite nth_repeat_none in H. discriminate.
  - rewrite nth_repeat_none in H. discriminate.
Qed.

Lemma unchanged_raw_at o o' j : unchanged o o' -> raw_at o' j = raw_at o j.
Proof. intros (_ & E & _). unfold raw_at. rewrite E. reflexivity. Qed.

Lemma pres_step fuel' sc o seen r a o' :
  wf_schema sc = true -> std_builtins_b sc = true -> good sc o -> pres_inv sc o seen ->
  apply_record fuel' sc (get_class sc (ocls o)) o (parsed_of r a) = Ok o' ->
  pres_inv sc o' (seen ++ [r]) /\ good sc o' /\ ocls o' = ocls o.
Proof.
  intros W S Hg (I1 & I2 & I3) H.
  pose proof (nested_good_all sc fuel' W S) as Hn.
  pose proof (apply_record_good _ _ _ _ _ W S Hn Hg H) as [Hg' Hc'].
  split; [|auto].
  pose proof (apply_record_effect _ _ _ _ _ W S Hn Hg H) as E.
  pose proof (owner_spec sc (ocls o) r W) as Ow.
  unfold pres_inv. rewrite Hc'. set (cd := get_class sc (ocls o)) in *.
  cbn [parsed_of pnum pwt] in E.
  destruct (field_by_number cd (rnum r)) as [[i fi]|] eqn:B.
  2:{ (* no field has this number *)
    repeat split.
    - intros Hh. rewrite has_record_snoc in Hh.
      replace (rnum r =? fnum f) with false in Hh
        by (symmetry; apply Z.eqb_neq; intros Eq; eapply (field_by_number_none cd (rnum r)); eauto).
      rewrite orb_false_r in Hh. rewrite (unchanged_raw_at _ _ _ E). apply (I1 j f); assumption.
    - intros Pm. rewrite has_record_snoc in H3.
      replace (rnum r =? fnum f) with false in H3
        by (symmetry; apply Z.eqb_neq; intros Eq; eapply (field_by_number_none cd (rnum r)); eauto).
      rewrite orb_false_r in H3. rewrite (unchanged_raw_at _ _ _ E). apply (I1 j f); assumption.
    - intros Hh. rewrite has_record_snoc in Hh.
      replace (rnum r =? fnum f) with false in Hh
        by (symmetry; apply Z.eqb_neq; intros Eq; eapply (field_by_number_none cd (rnum r)); eauto).
      rewrite orb_false_r in Hh. rewrite (unchanged_raw_at _ _ _ E). apply (I1 j f); assumption.
    - intros g. rewrite last_member_snoc, Ow. destruct E as (_ & _ & ->). apply I2.
    - intros g i0 Hi0. rewrite (unchanged_raw_at _ _ _ E). destruct E as (_ & _ & Ec). rewrite Ec in Hi0.
      eapply I3. exact Hi0. }
  pose proof (field_by_number_some _ _ _ _ B) as [Bi Bn].
  rewrite <- fits_is_wire_type_fits in Ow.
  assert (Hnum : forall j f, nth_error (cfields cd) j = Some f -> j <> i -> (rnum r =? fnum f) = false).
  { intros j f Hj Ne. apply Z.eqb_neq. intros Eq. apply Ne.
    eapply (wf_unique_numbers sc (ocls o)); try eassumption. congruence. }
  destruct (wire_type_fits fi (rwt r)) eqn:Hfit.
  2:{ (* the wire type does not fit: kept as unknown *)
    assert (Hsame : forall j f, nth_error (cfields cd) j = Some f ->
                    has_record f (seen ++ [r]) = has_record f seen).
    { intros j f Hj. rewrite has_record_snoc.
      destruct (Nat.eq_dec j i) as [->|Ne].
      - rewrite Bi in Hj. injection Hj as <-. rewrite <- fits_is_wire_type_fits, Hfit, andb_false_r, orb_false_r. reflexivity.
      - rewrite (Hnum j f Hj Ne). cbn [andb]. rewrite orb_false_r. reflexivity. }
    repeat split.
    - intros Hh. rewrite (Hsame j f H0) in Hh. rewrite (unchanged_raw_at _ _ _ E). apply (I1 j f); assumption.
    - intros Pm. rewrite (Hsame j f H0) in H3. rewrite (unchanged_raw_at _ _ _ E). apply (I1 j f); assumption.
    - intros Hh. rewrite (Hsame j f H0) in Hh. rewrite (unchanged_raw_at _ _ _ E). apply (I1 j f); assumption.
    - intros g. rewrite last_member_snoc, Ow. destruct E as (_ & _ & ->). apply I2.
    - intros g i0 Hi0. rewrite (unchanged_raw_at _ _ _ E). destruct E as (_ & _ & Ec). rewrite Ec in Hi0.
      eapply I3. exact Hi0. }
  (* the record is stored into field i *)
  destruct E as (vs & E & (Pn & Pp & Pl) & Pm).
  assert (Hval : is_value vs) by (split; assumption).
  repeat split.
  - intros Hh. destruct (Nat.eq_dec j i) as [->|Ne].
    + rewrite (ef_here _ _ _ _ _ _ E). exact Hval.
    + rewrite has_record_snoc, (Hnum j f H0 Ne) in Hh. cbn [andb] in Hh. rewrite orb_false_r in Hh.
      destruct (ef_other _ _ _ _ _ _ E j Ne) as [->|(_ & f' & g & Hf' & G1 & _)].
      * apply (I1 j f); assumption.
      * unfold fields_of in Hf'. fold cd in Hf'. rewrite H0 in Hf'. injection Hf' as <-. congruence.
  - intros Pmf. destruct (Nat.eq_dec j i) as [->|Ne].
    + rewrite (ef_here _ _ _ _ _ _ E). rewrite Bi in H0. injection H0 as <-.
      destruct Pmf as ((_ & _ & Hw & Ht) & Hm). apply Pm; assumption.
    + rewrite has_record_snoc, (Hnum j f H0 Ne) in H3. cbn [andb] in H3. rewrite orb_false_r in H3.
      destruct (ef_other _ _ _ _ _ _ E j Ne) as [->|(_ & f' & g & Hf' & G1 & _)].
      * apply (I1 j f); assumption.
      * unfold fields_of in Hf'. fold cd in Hf'. rewrite H0 in Hf'. injection Hf' as <-. congruence.
  - intros Hh. destruct (Nat.eq_dec j i) as [->|Ne].
    + exfalso. rewrite Bi in H0. injection H0 as <-.
      rewrite has_record_snoc, <- fits_is_wire_type_fits, Hfit, Bn, Z.eqb_refl, orb_true_r in Hh. discriminate.
    + rewrite has_record_snoc, (Hnum j f H0 Ne) in Hh. cbn [andb] in Hh. rewrite orb_false_r in Hh.
      destruct (ef_other _ _ _ _ _ _ E j Ne) as [->|(_ & f' & g & Hf' & G1 & _)].
      * apply (I1 j f); assumption.
      * unfold fields_of in Hf'. fold cd in Hf'. rewrite H0 in Hf'. injection Hf' as <-. congruence.
  - intros g. rewrite (ef_cur _ _ _ _ _ _ E g), last_member_snoc, Ow, (in_group_spec cd g i fi Bi).
    destruct (opt_nat_eqb (fgroup fi) (Some g)); [reflexivity|apply I2].
  - intros g i0 Hi0. rewrite (ef_cur _ _ _ _ _ _ E g) in Hi0.
    destruct (opt_nat_eqb (fgroup fi) (Some g)) eqn:Eg.
    + injection Hi0 as <-. rewrite (ef_here _ _ _ _ _ _ E). apply Hval.
    + destruct (Nat.eq_dec i0 i) as [->|Ne]; [rewrite (ef_here _ _ _ _ _ _ E); apply Hval|].
      destruct (ef_other _ _ _ _ _ _ E i0 Ne) as [->|(_ & f' & g' & Hf' & G1 & G2)].
      * eapply I3. exact Hi0.
      * exfalso. rewrite I2 in Hi0. apply last_member_in_group in Hi0.
        unfold fields_of in Hf'. fold cd in Hf'.
        rewrite (in_group_spec cd g i0 f' Hf'), G1 in Hi0. apply opt_nat_eqb_eq in Hi0.
        rewrite G2, Hi0, opt_nat_eqb_refl in Eg. discriminate.
  - intros g i0 Hi0. rewrite (ef_cur _ _ _ _ _ _ E g) in Hi0.
    destruct (opt_nat_eqb (fgroup fi) (Some g)) eqn:Eg.
    + injection Hi0 as <-. rewrite (ef_here _ _ _ _ _ _ E). apply Hval.
    + destruct (Nat.eq_dec i0 i) as [->|Ne]; [rewrite (ef_here _ _ _ _ _ _ E); apply Hval|].
      destruct (ef_other _ _ _ _ _ _ E i0 Ne) as [->|(_ & f' & g' & Hf' & G1 & G2)].
      * eapply I3. exact Hi0.
      * exfalso. rewrite I2 in Hi0. apply last_member_in_group in Hi0.
        unfold fields_of in Hf'. fold cd in Hf'.
        rewrite (in_group_spec cd g i0 f' Hf'), G1 in Hi0. apply opt_nat_eqb_eq in Hi0.
        rewrite G2, Hi0, opt_nat_eqb_refl in Eg. discriminate.
Qed.
