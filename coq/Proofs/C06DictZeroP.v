(* C06, from_dict: the JSON zero of a scalar type (Model/C06Dict.v json_zero) converts to the default of an
   implicit-presence field of that type, so giving it in the mapping contributes no bytes (both forms). *)
From BP Require Import Base.Prelude Model.Types Model.Varint Model.Object Model.Eq Model.Encode Model.Decode.
From BP Require Import Model.WellFormed Model.Float Model.Json Model.C06Obs Model.C06Dict.
From BP Require Import gen.Tables Spec.Varint Spec.C06Wire.
From BP Require Import Proofs.C04ElemP.
From BP Require Import Proofs.C06SpecP Proofs.C06LoopP Proofs.C06EncP Proofs.C06StoreP Proofs.C06DecP Proofs.C06PresP Proofs.C06WaysP Proofs.C06FinalP.
From BP Require Import Proofs.C06DictKwP Proofs.C06DictStateP Proofs.C06DictClsP Proofs.C06DictInstP.
From Coq Require Import Lia.

Lemma json_zero_default rec sc nc ne f p :
  fhint f = HPlain p -> fwraps f = None -> fmap f = None ->
  pyty_fits nc ne (fty f) p = true -> tmem (fty f) scalar_ptypes = true -> fty f <> TEnum ->
  exists x, value_from_json rec sc f (json_zero (fty f)) = Ok x /\ is_default sc f x = true /\
            is_jnull (json_zero (fty f)) = false /\ singular_json (json_zero (fty f)) = true.
Proof.
  intros Hh Hw Hm Hp Hs Hne. unfold value_from_json, hint_elem. rewrite Hh, Hw, Hm.
  destruct (fty f) eqn:Ht; try discriminate Hs; try congruence;
    destruct p; try discriminate Hp; cbn [json_zero ptype_eqb list_or_single];
    match goal with
    | |- exists x, ?V = Ok x /\ _ => let r := eval vm_compute in V in change V with r
    end; eexists; (split; [reflexivity|]); (split; [cbn [is_default]; rewrite Hh; reflexivity|]); split; reflexivity.
Qed.

Lemma implicit_scalar_facts sc ng f :
  wf_field sc ng f = true -> implicit_field f ->
  exists p, fhint f = HPlain p /\ fwraps f = None /\ fmap f = None /\
            pyty_fits (length (classes sc)) (length (enums sc)) (fty f) p = true.
Proof.
  intros W (G & Ho & t & Hh & Ht). exists t. split; [exact Hh|].
  unfold wf_field in W. rewrite Hh in W. apply andb_prop in W as [_ W].
  apply andb_prop in W as [W Hp]. apply andb_prop in W as [W _]. apply andb_prop in W as [W Hm]. apply andb_prop in W as [_ Hw].
  split; [destruct (fwraps f); [discriminate|reflexivity]|]. split; [destruct (fmap f); [discriminate|reflexivity]|]. exact Hp.
Qed.

Theorem implicit_zero_from_dict_cls sc c kvs m i f :
  wf_schema sc = true -> from_dict_cls sc c (JObj kvs) = Ok m ->
  nth_error (cfields (get_class sc c)) i = Some f -> implicit_field f ->
  tmem (fty f) scalar_ptypes = true -> fty f <> TEnum ->
  dict_lookup (cfields (get_class sc c)) kvs i = Some (json_zero (fty f)) ->
  here sc (ocur m) i (raw_at m i) f = Ok [] /\ enc_obj sc m = enc_obj sc (set_raw m i PPlaceholder).
Proof.
  intros W Hm Hf Hi Hs Hne Hv.
  pose proof (wf_field_of sc c f W (nth_error_In _ _ Hf)) as Wf.
  destruct (implicit_scalar_facts sc _ f Wf Hi) as (p & Hh & Hw & Hmp & Hp).
  destruct (json_zero_default (recf sc) sc _ _ f p Hh Hw Hmp Hp Hs Hne) as (x & V & Hd & _ & _).
  destruct (implicit_skip_from_dict_cls sc c kvs m i f _ x Hm Hf Hi Hv V Hd) as (_ & A & B). auto.
Qed.

Theorem implicit_zero_from_dict_inst sc o kvs m i f :
  wf_schema sc = true -> shape_ok sc o = true -> from_dict_inst sc o (JObj kvs) = Ok m ->
  nth_error (fields_of sc o) i = Some f -> implicit_field f ->
  tmem (fty f) scalar_ptypes = true -> fty f <> TEnum ->
  dict_lookup (fields_of sc o) kvs i = Some (json_zero (fty f)) ->
  here sc (ocur m) i (raw_at m i) f = Ok [] /\ enc_obj sc m = enc_obj sc (set_raw m i PPlaceholder).
Proof.
  intros W Sh Hm Hf Hi Hs Hne Hv.
  pose proof (wf_field_of sc (ocls o) f W (nth_error_In _ _ Hf)) as Wf.
  destruct (implicit_scalar_facts sc _ f Wf Hi) as (p & Hh & Hw & Hmp & Hp).
  destruct (json_zero_default (recf sc) sc _ _ f p Hh Hw Hmp Hp Hs Hne) as (x & V & Hd & _ & _).
  destruct (implicit_skip_from_dict_inst sc o kvs m i f _ x W Sh Hm Hf Hi Hv V Hd) as (_ & A & B). auto.
Qed.

(* ---- explicit presence: the JSON zero converts to the zero of the type, which is written as exactly one record ---- *)
From BP Require Import Spec.C06Zero Proofs.C06ZeroP Proofs.C06DictRecP.

Lemma json_zero_value rec sc nc ne f :
  fwraps f = None -> fmap f = None ->
  pyty_fits nc ne (fty f) (hint_elem f) = true -> tmem (fty f) scalar_ptypes = true -> fty f <> TEnum ->
  exists x wt after rb, value_from_json rec sc f (json_zero (fty f)) = Ok x /\ zero_record (fty f) x = Some (wt, after, rb) /\
                        singular_json (json_zero (fty f)) = true.
Proof.
  intros Hw Hm Hp Hs Hne. unfold value_from_json. rewrite Hw, Hm.
  destruct (fty f) eqn:Ht; try discriminate Hs; try congruence;
    destruct (hint_elem f); try discriminate Hp; cbn [json_zero ptype_eqb list_or_single];
    match goal with
    | |- exists x wt after rb, ?V = Ok x /\ _ => let r := eval vm_compute in V in change V with r
    end; do 4 eexists; (split; [reflexivity|]); split; reflexivity.
Qed.

(* a wrapper field: the JSON zero of the wrapped type (64-bit ones as "0") converts to the zero of the wrapped type *)
Lemma json_zero_wrapped rec sc nc ne f w :
  fty f = TMessage -> fwraps f = Some w -> wrapper_value_type w <> None ->
  pyty_fits nc ne w (hint_elem f) = true ->
  exists x wt after rb, value_from_json rec sc f (json_zero w) = Ok x /\ zero_record w x = Some (wt, after, rb) /\
                        singular_json (json_zero w) = true.
Proof.
  intros Ht Hw Hwt Hp. unfold value_from_json. rewrite Ht, Hw.
  replace (ptype_eqb TMessage TMessage) with true by reflexivity.
  destruct w; cbn in Hwt; try congruence;
    destruct (hint_elem f); try discriminate Hp; cbn [json_zero list_or_single];
    match goal with
    | |- exists x wt after rb, ?V = Ok x /\ _ => let r := eval vm_compute in V in change V with r
    end; do 4 eexists; (split; [reflexivity|]); split; reflexivity.
Qed.

Lemma zero_record_scalar t x r : zero_record t x = Some r -> forall o, x <> PMsg o.
Proof. intros H o ->. destruct t; discriminate H. Qed.

(* state level: an explicit-presence scalar field holding the zero of its type is one record, tag + zero payload *)
Lemma zero_state_record sc o i f wt after rb :
  wf_schema sc = true -> nth_error (fields_of sc o) i = Some f -> explicit_field f -> fwraps f = None ->
  zero_record (fty f) (raw_at o i) = Some (wt, after, rb) ->
  (forall g, fgroup f = Some g -> which_one_of o g = Some i) ->
  emitted_in sc o i f ->
  forall all, enc_obj sc o = Ok all ->
    exists pre h post, all = pre ++ h ++ post /\ here sc (ocur o) i (raw_at o i) f = Ok h /\
                       is_record (mkR (fnum f) wt 0 rb) h /\ wt = base_wire_type (fty f).
Proof.
  intros W Hf He Hw Hz Hsel Em all Hall.
  pose proof (wf_field_of sc (ocls o) f W (nth_error_In _ _ Hf)) as Wf.
  destruct (Em all Hall) as (pre & h & post & -> & Hh & _).
  exists pre, h, post. split; [reflexivity|]. split; [exact Hh|].
  eapply explicit_zero_record; try eassumption.
  - eapply wf_num_range. exact Wf.
  - destruct He as [(G & [Ho|(w & t & Hw' & _)])|(g & G)].
    + left. auto.
    + congruence.
    + right. unfold group_selects. rewrite G. specialize (Hsel g G). unfold which_one_of in Hsel. rewrite Hsel.
      cbn. rewrite Nat.eqb_refl. reflexivity.
Qed.

Lemma zero_state_wrapper sc o i f w wt after rb :
  wf_schema sc = true -> nth_error (fields_of sc o) i = Some f -> optional_like f -> fwraps f = Some w ->
  zero_record w (raw_at o i) = Some (wt, after, rb) ->
  emitted_in sc o i f ->
  forall all, enc_obj sc o = Ok all ->
    exists pre h post, all = pre ++ h ++ post /\ here sc (ocur o) i (raw_at o i) f = Ok h /\
                       is_record (mkR (fnum f) 2 0 []) h /\ exists key, h = key ++ [x00].
Proof.
  intros W Hf Ho Hw Hz Em all Hall.
  pose proof (wf_field_of sc (ocls o) f W (nth_error_In _ _ Hf)) as Wf.
  destruct (Em all Hall) as (pre & h & post & -> & Hh & _).
  exists pre, h, post. split; [reflexivity|]. split; [exact Hh|].
  destruct (optional_like_hint _ _ _ Wf Ho) as (t & Ht). pose proof Ho as (G & _).
  assert (Wt : fty f = TMessage /\ wrapper_value_type w <> None).
  { unfold wf_field in Wf. rewrite Ht, Hw in Wf. apply andb_prop in Wf as [_ Wf].
    apply andb_prop in Wf as [_ Wf]. apply andb_prop in Wf as [Wf Hv]. apply andb_prop in Wf as [Wf _].
    apply andb_prop in Wf as [_ Hm]. apply ptype_eqb_eq in Hm. split; [exact Hm|].
    destruct (wrapper_value_type w); [discriminate|discriminate Hv]. }
  destruct Wt as [Hty Hwt].
  eapply wrapper_zero_record; try eassumption. eapply wf_num_range. exact Wf.
Qed.

(* ---- what wf_schema gives for the fields in question ---- *)
Lemma explicit_scalar_facts sc ng f :
  wf_field sc ng f = true -> explicit_field f -> fwraps f = None ->
  fmap f = None /\ pyty_fits (length (classes sc)) (length (enums sc)) (fty f) (hint_elem f) = true.
Proof.
  intros W He Hw. split; [eapply wf_singular_fmap; [exact W|eapply explicit_field_singular; eassumption]|].
  unfold wf_field in W. apply andb_prop in W as [_ W]. unfold hint_elem.
  destruct (fhint f) as [p|p|p|k v] eqn:Hh.
  - apply andb_prop in W as [_ Hp]. exact Hp.
  - rewrite Hw in W. apply andb_prop in W as [_ W]. apply andb_prop in W as [_ Hp]. exact Hp.
  - exfalso. pose proof (explicit_field_singular sc ng f) as S. unfold wf_field in S.
    destruct He as [Ho|(g & G)].
    + destruct Ho as (_ & [Ho|(w & t & _ & Ht)]); [|congruence].
      rewrite Ho in W. cbn [negb andb] in W. discriminate W.
    + rewrite G in W. cbn in W. rewrite ?andb_false_r, ?andb_false_l in W. repeat (apply andb_prop in W as [W ?]); discriminate.
  - exfalso. destruct He as [Ho|(g & G)].
    + destruct Ho as (_ & [Ho|(w & t & _ & Ht)]); [|congruence].
      rewrite Ho in W. cbn [negb andb] in W. discriminate W.
    + rewrite G in W. cbn in W. rewrite ?andb_false_r, ?andb_false_l in W. repeat (apply andb_prop in W as [W ?]); discriminate.
Qed.

Lemma wrapper_facts sc ng f w :
  wf_field sc ng f = true -> optional_like f -> fwraps f = Some w ->
  fty f = TMessage /\ wrapper_value_type w <> None /\
  pyty_fits (length (classes sc)) (length (enums sc)) w (hint_elem f) = true.
Proof.
  intros W Ho Hw. destruct (optional_like_hint _ _ _ W Ho) as (t & Ht).
  unfold wf_field in W. rewrite Ht, Hw in W. apply andb_prop in W as [_ W].
  apply andb_prop in W as [_ W]. apply andb_prop in W as [W Hv]. apply andb_prop in W as [W _].
  apply andb_prop in W as [_ Hm]. apply ptype_eqb_eq in Hm. split; [exact Hm|].
  unfold hint_elem. rewrite Ht.
  destruct w; cbn [wrapper_value_type] in Hv |- *; try discriminate Hv; (split; [discriminate|exact Hv]).
Qed.

(* ---- from_dict, class form ---- *)
Theorem explicit_zero_from_dict_cls sc c kvs m i f :
  wf_schema sc = true -> from_dict_cls sc c (JObj kvs) = Ok m ->
  nth_error (cfields (get_class sc c)) i = Some f -> explicit_field f -> fwraps f = None ->
  tmem (fty f) scalar_ptypes = true -> fty f <> TEnum ->
  dict_lookup (cfields (get_class sc c)) kvs i = Some (json_zero (fty f)) ->
  (forall g, fgroup f = Some g ->
     forall k f', (i < k)%nat -> nth_error (cfields (get_class sc c)) k = Some f' -> fgroup f' = Some g ->
                  dict_lookup (cfields (get_class sc c)) kvs k = None) ->
  forall all, enc_obj sc m = Ok all ->
    exists pre h post wt after rb, all = pre ++ h ++ post /\ here sc (ocur m) i (raw_at m i) f = Ok h /\
      zero_record (fty f) (raw_at m i) = Some (wt, after, rb) /\
      is_record (mkR (fnum f) wt 0 rb) h /\ wt = base_wire_type (fty f).
Proof.
  intros W Hm Hf He Hw Hs Hne Hv Hlater all Hall.
  pose proof (wf_field_of sc c f W (nth_error_In _ _ Hf)) as Wf.
  destruct (explicit_scalar_facts sc _ f Wf He Hw) as [Hmp Hp].
  destruct (json_zero_value (recf sc) sc _ _ f Hw Hmp Hp Hs Hne) as (x & wt & after & rb & V & Hz & Sj).
  destruct (emit_from_dict_cls sc c kvs m i f _ W Hm Hf He Hv Sj Hlater) as (Em & _ & _ & Hsel & _ & _).
  pose proof (cls_state_of _ _ _ _ Hm) as St.
  pose proof (cs_raw _ _ _ _ St i f Hf) as R. rewrite Hv in R. destruct R as (x' & V' & Rx & _).
  rewrite V in V'. injection V' as <-.
  rewrite marked_scalar in Rx by (eapply zero_record_scalar; exact Hz).
  assert (Hfm : nth_error (fields_of sc m) i = Some f) by (unfold fields_of; rewrite (cs_cls _ _ _ _ St); exact Hf).
  rewrite <- Rx in Hz.
  destruct (zero_state_record sc m i f wt after rb W Hfm He Hw Hz Hsel Em all Hall) as (pre & h & post & A & B & C & D).
  exists pre, h, post, wt, after, rb. auto.
Qed.

Theorem wrapper_zero_from_dict_cls sc c kvs m i f w :
  wf_schema sc = true -> from_dict_cls sc c (JObj kvs) = Ok m ->
  nth_error (cfields (get_class sc c)) i = Some f -> optional_like f -> fwraps f = Some w ->
  dict_lookup (cfields (get_class sc c)) kvs i = Some (json_zero w) ->
  forall all, enc_obj sc m = Ok all ->
    exists pre h post, all = pre ++ h ++ post /\ here sc (ocur m) i (raw_at m i) f = Ok h /\
      is_record (mkR (fnum f) 2 0 []) h /\ exists key, h = key ++ [x00].
Proof.
  intros W Hm Hf Ho Hw Hv all Hall.
  pose proof (wf_field_of sc c f W (nth_error_In _ _ Hf)) as Wf.
  destruct (wrapper_facts sc _ f w Wf Ho Hw) as (Hty & Hwt & Hp).
  destruct (json_zero_wrapped (recf sc) sc _ _ f w Hty Hw Hwt Hp) as (x & wt & after & rb & V & Hz & Sj).
  assert (He : explicit_field f) by (left; exact Ho).
  assert (Hlater : forall g, fgroup f = Some g ->
     forall k f', (i < k)%nat -> nth_error (cfields (get_class sc c)) k = Some f' -> fgroup f' = Some g ->
                  dict_lookup (cfields (get_class sc c)) kvs k = None).
  { intros g G. destruct Ho as [Go _]. congruence. }
  destruct (emit_from_dict_cls sc c kvs m i f _ W Hm Hf He Hv Sj Hlater) as (Em & _ & _ & _ & _ & _).
  pose proof (cls_state_of _ _ _ _ Hm) as St.
  pose proof (cs_raw _ _ _ _ St i f Hf) as R. rewrite Hv in R. destruct R as (x' & V' & Rx & _).
  rewrite V in V'. injection V' as <-.
  rewrite marked_scalar in Rx by (eapply zero_record_scalar; exact Hz).
  assert (Hfm : nth_error (fields_of sc m) i = Some f) by (unfold fields_of; rewrite (cs_cls _ _ _ _ St); exact Hf).
  rewrite <- Rx in Hz.
  exact (zero_state_wrapper sc m i f w wt after rb W Hfm Ho Hw Hz Em all Hall).
Qed.

(* ---- from_dict, instance form ---- *)
Lemma inst_raw_of_given sc o kvs m i f v :
  wf_schema sc = true -> shape_ok sc o = true -> from_dict_inst sc o (JObj kvs) = Ok m ->
  nth_error (fields_of sc o) i = Some f ->
  dict_lookup (fields_of sc o) kvs i = Some v ->
  (forall g, fgroup f = Some g ->
     exists pre post, given_order (fields_of sc o) kvs = pre ++ i :: post /\
                      forall k, In k post -> in_group (get_class sc (ocls o)) g k = false) ->
  exists x, value_from_json (recf sc) sc f v = Ok x /\ raw_at m i = marked sc x.
Proof.
  intros W Sh Hm Hf Hv Hord. pose proof (inst_state_of _ _ _ _ W Sh Hm) as St.
  destruct (fgroup f) as [g|] eqn:G.
  - destruct (Hord g eq_refl) as (pre & post & Ho & Hp).
    destruct (is_win _ _ _ _ St g i f pre post Hf G Ho Hp) as (_ & v' & x & Hv' & V & Rx).
    rewrite Hv in Hv'. injection Hv' as <-. exists x. auto.
  - pose proof (is_plain _ _ _ _ St i f Hf G) as P. rewrite Hv in P. destruct P as (x & V & Rx & _). exists x. auto.
Qed.

Theorem explicit_zero_from_dict_inst sc o kvs m i f :
  wf_schema sc = true -> shape_ok sc o = true -> from_dict_inst sc o (JObj kvs) = Ok m ->
  nth_error (fields_of sc o) i = Some f -> explicit_field f -> fwraps f = None ->
  tmem (fty f) scalar_ptypes = true -> fty f <> TEnum ->
  dict_lookup (fields_of sc o) kvs i = Some (json_zero (fty f)) ->
  (forall g, fgroup f = Some g ->
     exists pre post, given_order (fields_of sc o) kvs = pre ++ i :: post /\
                      forall k, In k post -> in_group (get_class sc (ocls o)) g k = false) ->
  forall all, enc_obj sc m = Ok all ->
    exists pre h post wt after rb, all = pre ++ h ++ post /\ here sc (ocur m) i (raw_at m i) f = Ok h /\
      zero_record (fty f) (raw_at m i) = Some (wt, after, rb) /\
      is_record (mkR (fnum f) wt 0 rb) h /\ wt = base_wire_type (fty f).
Proof.
  intros W Sh Hm Hf He Hw Hs Hne Hv Hord all Hall.
  pose proof (wf_field_of sc (ocls o) f W (nth_error_In _ _ Hf)) as Wf.
  destruct (explicit_scalar_facts sc _ f Wf He Hw) as [Hmp Hp].
  destruct (json_zero_value (recf sc) sc _ _ f Hw Hmp Hp Hs Hne) as (x & wt & after & rb & V & Hz & Sj).
  destruct (emit_from_dict_inst sc o kvs m i f _ W Sh Hm Hf He Hv Sj Hord) as (Em & _ & _ & Hsel & _ & _).
  destruct (inst_raw_of_given sc o kvs m i f _ W Sh Hm Hf Hv Hord) as (x' & V' & Rx).
  rewrite V in V'. injection V' as <-.
  rewrite marked_scalar in Rx by (eapply zero_record_scalar; exact Hz).
  pose proof (inst_state_of _ _ _ _ W Sh Hm) as St.
  assert (Hfm : nth_error (fields_of sc m) i = Some f) by (unfold fields_of; rewrite (is_cls _ _ _ _ St); exact Hf).
  rewrite <- Rx in Hz.
  destruct (zero_state_record sc m i f wt after rb W Hfm He Hw Hz Hsel Em all Hall) as (pre & h & post & A & B & C & D).
  exists pre, h, post, wt, after, rb. auto.
Qed.

Theorem wrapper_zero_from_dict_inst sc o kvs m i f w :
  wf_schema sc = true -> shape_ok sc o = true -> from_dict_inst sc o (JObj kvs) = Ok m ->
  nth_error (fields_of sc o) i = Some f -> optional_like f -> fwraps f = Some w ->
  dict_lookup (fields_of sc o) kvs i = Some (json_zero w) ->
  forall all, enc_obj sc m = Ok all ->
    exists pre h post, all = pre ++ h ++ post /\ here sc (ocur m) i (raw_at m i) f = Ok h /\
      is_record (mkR (fnum f) 2 0 []) h /\ exists key, h = key ++ [x00].
Proof.
  intros W Sh Hm Hf Ho Hw Hv all Hall.
  pose proof (wf_field_of sc (ocls o) f W (nth_error_In _ _ Hf)) as Wf.
  destruct (wrapper_facts sc _ f w Wf Ho Hw) as (Hty & Hwt & Hp).
  destruct (json_zero_wrapped (recf sc) sc _ _ f w Hty Hw Hwt Hp) as (x & wt & after & rb & V & Hz & Sj).
  assert (He : explicit_field f) by (left; exact Ho).
  assert (Hord : forall g, fgroup f = Some g ->
     exists pre post, given_order (fields_of sc o) kvs = pre ++ i :: post /\
                      forall k, In k post -> in_group (get_class sc (ocls o)) g k = false).
  { intros g G. destruct Ho as [Go _]. congruence. }
  destruct (emit_from_dict_inst sc o kvs m i f _ W Sh Hm Hf He Hv Sj Hord) as (Em & _ & _ & _ & _ & _).
  destruct (inst_raw_of_given sc o kvs m i f _ W Sh Hm Hf Hv Hord) as (x' & V' & Rx).
  rewrite V in V'. injection V' as <-.
  rewrite marked_scalar in Rx by (eapply zero_record_scalar; exact Hz).
  pose proof (inst_state_of _ _ _ _ W Sh Hm) as St.
  assert (Hfm : nth_error (fields_of sc m) i = Some f) by (unfold fields_of; rewrite (is_cls _ _ _ _ St); exact Hf).
  rewrite <- Rx in Hz.
  exact (zero_state_wrapper sc m i f w wt after rb W Hfm Ho Hw Hz Em all Hall).
Qed.
