(* C20, message level: specification-side functions and the facts shared by the binary and the JSON part.

   enum_json sc e z        the JSON form the property asks for: the first declared name of z, the number otherwise
   enum_field_json sc e x  the same for a whole field value (number / list of numbers / dict of numbers)

   Bridges between the enum branch of the shared codec models and Model/Enum.v (so that the element-level
   theorems of C20 and the message-level theorems speak about the same functions):
     post_bridge   Decode.postprocess_varint TEnum   = number of Enum.enum_post
     pre_bridge    Encode.preprocess_with .. TEnum   = Enum.enum_pre of the member
     dump_bridge   Json.dump_enum                    = enum_json   (through Enum.to_json_el)
     parse_bridge  Json.enum_from_json               = number of Enum.from_json_el
     member_canon  field_member (PInt v)             = EnumP.canon: (first declared name, v) *)
From BP Require Import Base.Prelude Model.Types Model.Varint Model.Scalar Model.Object Model.WellFormed
     Model.Encode Model.Decode Model.Json Model.C20Msg.
From BP Require Model.Enum Proofs.EnumP.
From BP Require Import gen.Tables.
From Coq Require Import Lia ZifyBool.

Definition enum_json (sc : schema) (e : nat) (z : Z) : json :=
  match EnumP.first_name (Enum.members_of (enum_body sc e)) z with Some n => JStr n | None => JInt z end.

Definition enum_elem_json (sc : schema) (e : nat) (y : pv) : json :=
  match y with PInt z => enum_json sc e z | _ => JNull end.

Definition enum_field_json (sc : schema) (e : nat) (x : pv) : json :=
  match x with
  | PInt z => enum_json sc e z
  | PList l => JList (map (enum_elem_json sc e) l)
  | PDict d => JObj (map (fun ky => (raw_json (fst ky), enum_elem_json sc e (snd ky))) d)
  | _ => JNull
  end.

(* ---------------------------------------------------------------- the class of the e-th enum *)
Lemma enum_cls_body sc e : enum_cls sc e = Enum.class_of (enum_body sc e).
Proof. reflexivity. Qed.

Lemma try_value_canon sc e v :
  Enum.try_value (enum_cls sc e) v = EnumP.canon (Enum.members_of (enum_body sc e)) v.
Proof. unfold enum_cls, Enum.class_of. apply EnumP.try_value_canon. Qed.

Lemma member_canon sc e v :
  field_member sc e (PInt v) = Some (EnumP.canon (Enum.members_of (enum_body sc e)) v).
Proof. cbn [field_member]. rewrite try_value_canon. reflexivity. Qed.

(* ---------------------------------------------------------------- bridges *)
Lemma post_bridge sc e raw :
  postprocess_varint TEnum raw = PInt (snd (Enum.enum_post (enum_cls sc e) raw)) /\
  field_member sc e (postprocess_varint TEnum raw) = Some (Enum.enum_post (enum_cls sc e) raw).
Proof.
  unfold Enum.enum_post. split.
  - rewrite try_value_canon. reflexivity.
  - reflexivity.
Qed.

Lemma pre_bridge sc e msg w v :
  preprocess_with msg TEnum w (PInt v) = Enum.enum_pre (Enum.try_value (enum_cls sc e) v).
Proof. unfold Enum.enum_pre. rewrite try_value_canon. reflexivity. Qed.

Lemma dump_bridge sc e z : dump_enum sc e z = enum_json sc e z.
Proof.
  unfold dump_enum, enum_json, Enum.to_json_el. rewrite try_value_canon. unfold EnumP.canon. cbn [fst].
  destruct (EnumP.first_name _ z); reflexivity.
Qed.

Lemma parse_bridge sc e z :
  enum_from_json sc e (JInt z) = Ok (PInt z) /\
  (forall n, enum_from_json sc e (JStr n) =
             match Enum.from_json_el (enum_cls sc e) (Enum.JName n) with Ok m => Ok (PInt (snd m)) | Err k => Err k end).
Proof.
  split.
  - cbn [enum_from_json]. rewrite try_value_canon. reflexivity.
  - intros n. cbn [enum_from_json Enum.from_json_el]. destruct (Enum.from_string (enum_cls sc e) n); reflexivity.
Qed.

(* name if named, number otherwise *)
Lemma enum_json_named sc e v n :
  In (n, v) (Enum.members_of (enum_body sc e)) ->
  exists n0, enum_json sc e v = JStr n0 /\ EnumP.first_name (Enum.members_of (enum_body sc e)) v = Some n0.
Proof.
  intros Hin. destruct (EnumP.first_name_defined _ n v Hin) as (n0 & E). exists n0. unfold enum_json. rewrite E. auto.
Qed.

Lemma enum_json_unnamed sc e v :
  ~ In v (map snd (Enum.members_of (enum_body sc e))) -> enum_json sc e v = JInt v.
Proof. intros H. apply EnumP.first_name_None in H. unfold enum_json. rewrite H. reflexivity. Qed.

(* ---------------------------------------------------------------- what enum_position says *)
Lemma andb_split a b : a && b = true -> a = true /\ b = true.
Proof. apply andb_true_iff. Qed.

Lemma some_b_false {A} (o : option A) : negb (some_b o) = true -> o = None.
Proof. destruct o; [discriminate|reflexivity]. Qed.

Lemma negb_t b : negb b = true -> b = false.
Proof. destruct b; [discriminate|reflexivity]. Qed.

Lemma enum_position_inv f pos e :
  enum_position f = Some (pos, e) ->
  fwraps f = None /\
  match pos with
  | PosSingular => fhint f = HPlain (PyEnum e) /\ fty f = TEnum /\ fopt f = false /\ fgroup f = None /\ fmap f = None
  | PosOneof => fhint f = HPlain (PyEnum e) /\ fty f = TEnum /\ fopt f = false /\ (exists g, fgroup f = Some g) /\ fmap f = None
  | PosOptional => fhint f = HOptional (PyEnum e) /\ fty f = TEnum /\ fopt f = true /\ fgroup f = None /\ fmap f = None
  | PosRepeated => fhint f = HList (PyEnum e) /\ fty f = TEnum /\ fopt f = false /\ fgroup f = None /\ fmap f = None
  | PosMapValue => exists pk kt, fhint f = HDict pk (PyEnum e) /\ fty f = TMap /\ fopt f = false /\ fgroup f = None /\
                                 fmap f = Some (kt, TEnum)
  end.
Proof.
  unfold enum_position. intros H.
  destruct (fhint f) as [p|p|p|pk p] eqn:Hh; destruct p as [| | | | |e0|c0| |]; try discriminate H;
    destruct (fmap f) as [[kt vt]|] eqn:Hm; try discriminate H.
  - destruct (ptype_eqb (fty f) TEnum && negb (fopt f) && negb (some_b (fwraps f))) eqn:G; [|discriminate H].
    apply andb_split in G as [G Gw]. apply andb_split in G as [Gt Go].
    apply ptype_eqb_eq in Gt. apply negb_t in Go. apply some_b_false in Gw.
    split; [exact Gw|]. destruct (fgroup f) as [g|] eqn:Hg; injection H as <- <-; repeat split; eauto.
  - destruct (ptype_eqb (fty f) TEnum && fopt f && negb (some_b (fwraps f)) && negb (some_b (fgroup f))) eqn:G; [|discriminate H].
    apply andb_split in G as [G Gg]. apply andb_split in G as [G Gw]. apply andb_split in G as [Gt Go].
    apply ptype_eqb_eq in Gt. apply some_b_false in Gw, Gg.
    injection H as <- <-. repeat split; auto.
  - destruct (ptype_eqb (fty f) TEnum && negb (fopt f) && negb (some_b (fwraps f)) && negb (some_b (fgroup f))) eqn:G; [|discriminate H].
    apply andb_split in G as [G Gg]. apply andb_split in G as [G Gw]. apply andb_split in G as [Gt Go].
    apply ptype_eqb_eq in Gt. apply negb_t in Go. apply some_b_false in Gw, Gg.
    injection H as <- <-. repeat split; auto.
  - destruct (ptype_eqb (fty f) TMap && ptype_eqb vt TEnum && negb (fopt f) && negb (some_b (fwraps f)) && negb (some_b (fgroup f))) eqn:G;
      [|discriminate H].
    apply andb_split in G as [G Gg]. apply andb_split in G as [G Gw]. apply andb_split in G as [G Go].
    apply andb_split in G as [Gt Gv]. apply ptype_eqb_eq in Gt, Gv. subst vt. apply negb_t in Go. apply some_b_false in Gw, Gg.
    injection H as <- <-. split; [exact Gw|]. exists pk, kt. repeat split; auto.
Qed.

(* completeness: in a well-formed class every field annotated with an Enum subclass is classified *)
Lemma enum_position_complete sc ng f e :
  wf_field sc ng f = true -> hint_enum f = Some e -> exists pos, enum_position f = Some (pos, e).
Proof.
  unfold wf_field, hint_enum, enum_position. intros W H.
  apply andb_split in W as [W Wh]. clear W.
  destruct (fhint f) as [p|p|p|pk p] eqn:Hh; destruct p as [| | | | |e0|c0| |]; try discriminate H; injection H as ->.
  - apply andb_split in Wh as [Wh Wp]. apply andb_split in Wh as [Wh Wt]. apply andb_split in Wh as [Wh Wm].
    apply andb_split in Wh as [Wo Ww].
    assert (Hm : fmap f = None) by (destruct (fmap f); [discriminate Wm|reflexivity]). rewrite Hm.
    assert (Hw : fwraps f = None) by (destruct (fwraps f); [discriminate Ww|reflexivity]). rewrite Hw.
    assert (Ht : fty f = TEnum) by (destruct (fty f); try discriminate Wp; reflexivity). rewrite Ht, Wo. cbn.
    eexists. reflexivity.
  - apply andb_split in Wh as [Wh Wrest]. apply andb_split in Wh as [Wm Wg].
    assert (Hm : fmap f = None) by (destruct (fmap f); [discriminate Wm|reflexivity]). rewrite Hm.
    assert (Hg : fgroup f = None) by (destruct (fgroup f); [discriminate Wg|reflexivity]). rewrite Hg.
    destruct (fwraps f) as [w|] eqn:Hw.
    + exfalso. apply andb_split in Wrest as [Wrest Wv]. apply andb_split in Wrest as [_ Wc].
      destruct w; try discriminate Wc; cbn in Wv; discriminate Wv.
    + apply andb_split in Wrest as [Wrest Wp]. apply andb_split in Wrest as [Wo _].
      assert (Ht : fty f = TEnum) by (destruct (fty f); try discriminate Wp; reflexivity). rewrite Ht, Wo. cbn.
      eexists. reflexivity.
  - apply andb_split in Wh as [Wh Wp]. apply andb_split in Wh as [Wh Wt]. apply andb_split in Wh as [Wh Wg].
    apply andb_split in Wh as [Wh Wm]. apply andb_split in Wh as [Wo Ww].
    assert (Hm : fmap f = None) by (destruct (fmap f); [discriminate Wm|reflexivity]). rewrite Hm.
    assert (Hg : fgroup f = None) by (destruct (fgroup f); [discriminate Wg|reflexivity]). rewrite Hg.
    assert (Hw : fwraps f = None) by (destruct (fwraps f); [discriminate Ww|reflexivity]). rewrite Hw.
    assert (Ht : fty f = TEnum) by (destruct (fty f); try discriminate Wp; reflexivity). rewrite Ht, Wo. cbn.
    eexists. reflexivity.
  - apply andb_split in Wh as [Wh _]. apply andb_split in Wh as [Wh Wmap]. apply andb_split in Wh as [Wh Wt].
    apply andb_split in Wh as [Wh Wg]. apply andb_split in Wh as [Wo Ww].
    assert (Hg : fgroup f = None) by (destruct (fgroup f); [discriminate Wg|reflexivity]). rewrite Hg.
    assert (Hw : fwraps f = None) by (destruct (fwraps f); [discriminate Ww|reflexivity]). rewrite Hw.
    destruct (fmap f) as [[kt vt]|]; [|discriminate Wmap].
    apply andb_split in Wmap as [Wmap Wv]. clear Wmap.
    assert (Hv : vt = TEnum) by (destruct vt; try discriminate Wv; reflexivity). subst vt.
    rewrite Wt, Wo. cbn. eexists. reflexivity.
Qed.

(* ---------------------------------------------------------------- in-range values of an enum field *)
Lemma scalar_enum_int v : scalar_in_range TEnum v = true -> exists z, v = PInt z /\ - 2 ^ 31 <= z < 2 ^ 31.
Proof.
  destruct v; try discriminate. cbn [scalar_in_range]. unfold int_in. intros H. exists z. split; [reflexivity|lia].
Qed.

Lemma elem_enum_int sc e v : elem_in_range sc TEnum (PyEnum e) v = true -> exists z, v = PInt z /\ - 2 ^ 31 <= z < 2 ^ 31.
Proof. intros H. apply scalar_enum_int. destruct v; exact H. Qed.

Lemma elem_enum_scalar sc e v : elem_in_range sc TEnum (PyEnum e) v = scalar_in_range TEnum v.
Proof. destruct v; reflexivity. Qed.

Lemma all_list_enum sc e l :
  (fix all (l : list pv) : bool :=
     match l with [] => true | y :: l' => elem_in_range sc TEnum (PyEnum e) y && all l' end) l = true ->
  Forall (fun y => exists z, y = PInt z /\ - 2 ^ 31 <= z < 2 ^ 31) l.
Proof.
  induction l as [|y l IH]; intros H; [constructor|]. apply andb_split in H as [H1 H2].
  constructor; [exact (elem_enum_int sc e y H1)|exact (IH H2)].
Qed.

Lemma all_dict_enum sc e kt d :
  (fix all (d : list (pv * pv)) : bool :=
     match d with
     | [] => true
     | (k, y) :: d' => scalar_in_range kt k && elem_in_range sc TEnum (PyEnum e) y && all d'
     end) d = true ->
  Forall (fun ky => exists z, snd ky = PInt z /\ - 2 ^ 31 <= z < 2 ^ 31) d.
Proof.
  induction d as [|[k y] d IH]; intros H; [constructor|]. apply andb_split in H as [H1 H2]. apply andb_split in H1 as [_ H1].
  constructor; [exact (elem_enum_int sc e y H1)|exact (IH H2)].
Qed.

Lemma existsb_is_int v l :
  existsb (is_int v) l = true -> In (PInt v) l.
Proof.
  intros H. apply existsb_exists in H as (y & Hy & E). destruct y; try discriminate E.
  cbn [is_int] in E. apply Z.eqb_eq in E. subst. exact Hy.
Qed.

Lemma existsb_is_int_d v (d : list (pv * pv)) :
  existsb (fun ky => is_int v (snd ky)) d = true -> exists k, In (k, PInt v) d.
Proof.
  intros H. apply existsb_exists in H as ([k y] & Hy & E). cbn [snd] in E. destruct y; try discriminate E.
  cbn [is_int] in E. apply Z.eqb_eq in E. subst. exists k. exact Hy.
Qed.

(* ---------------------------------------------------------------- reading an attribute *)
From BP Require Import Proofs.C01Unfold.

(* the value an attribute read returns for raw slot x of field f *)
Definition rdv (sc : schema) (f : fdesc) (x : pv) : pv := match x with PPlaceholder => default_of sc f | v => v end.

Lemma read_rdv sc c raw sow unk cur i f :
  nth_error (cfields (get_class sc c)) i = Some f ->
  read sc (Obj c raw sow unk cur) i =
  match group_selects cur f i with
  | Some false => Err EAttribute
  | _ => Ok (rdv sc f (nth i raw PPlaceholder))
  end.
Proof.
  intros Hf. unfold read, getattr. rewrite Hf.
  destruct (group_selects cur f i) as [[|]|]; try reflexivity; destruct (nth i raw PPlaceholder); reflexivity.
Qed.

Definition i32 (y : pv) : Prop := exists z, y = PInt z /\ EnumP.int32 z.

(* what an in-range raw slot of an enum field looks like *)
Definition enum_shape (pos : epos) (x0 : pv) : Prop :=
  x0 = PPlaceholder \/
  match pos with
  | PosSingular | PosOneof => i32 x0
  | PosOptional => x0 = PNone \/ i32 x0
  | PosRepeated => exists l, x0 = PList l /\ Forall i32 l
  | PosMapValue => exists d, x0 = PDict d /\ Forall (fun ky => i32 (snd ky)) d
  end.

Lemma slot_enum_shape sc f pos e x0 :
  enum_position f = Some (pos, e) -> slot_in_range sc f x0 = true -> enum_shape pos x0.
Proof.
  intros Hp Hr. destruct (enum_position_inv f pos e Hp) as (Hw & Hpos).
  destruct x0 as [| |z|b|bits|s|b|us|us|l|d|o]; [left; reflexivity|..]; right; unfold slot_in_range in Hr.
  all: destruct pos.
  all: try (destruct Hpos as (Hh & Ht & Ho & Hg & Hm); rewrite Hh, ?Ht, ?Hw in Hr).
  all: try (destruct Hpos as (pk & kt & Hh & Ht & Ho & Hg & Hm); rewrite Hh, ?Hm in Hr).
  all: try discriminate Hr.
  all: try (left; reflexivity).
  all: try (destruct (elem_enum_int sc e _ Hr) as (z0 & E & R); try discriminate E).
  all: try (exists z; split; [reflexivity|injection E as ->; exact R]).
  all: try (right; exists z; split; [reflexivity|injection E as ->; exact R]).
  - exists l. split; [reflexivity|]. exact (all_list_enum sc e l Hr).
  - exists d. split; [reflexivity|]. exact (all_dict_enum sc e kt d Hr).
Qed.

Lemma enum_default sc f pos e :
  enum_position f = Some (pos, e) ->
  default_of sc f = match pos with
                    | PosSingular | PosOneof => PInt 0
                    | PosOptional => PNone
                    | PosRepeated => PList []
                    | PosMapValue => PDict []
                    end.
Proof.
  intros Hp. destruct (enum_position_inv f pos e Hp) as (Hw & Hpos). unfold default_of.
  destruct pos; try (destruct Hpos as (Hh & _); rewrite Hh; reflexivity).
  destruct Hpos as (pk & kt & Hh & _). rewrite Hh. reflexivity.
Qed.

Lemma holds_shape_int32 sc f pos e x0 v :
  enum_position f = Some (pos, e) -> enum_shape pos x0 -> holds_enum pos (rdv sc f x0) v = true -> EnumP.int32 v.
Proof.
  intros Hp Hs Hh. pose proof (enum_default sc f pos e Hp) as Hd.
  destruct Hs as [->|Hs].
  - cbn [rdv] in Hh. rewrite Hd in Hh. destruct pos; cbn [holds_enum existsb] in Hh; try discriminate Hh;
      apply Z.eqb_eq in Hh; subst v; unfold EnumP.int32; lia.
  - destruct pos.
    + destruct Hs as (z & -> & R). cbn [rdv holds_enum] in Hh. apply Z.eqb_eq in Hh. subst. exact R.
    + destruct Hs as (l & -> & R). cbn [rdv holds_enum] in Hh. apply existsb_is_int in Hh.
      rewrite Forall_forall in R. destruct (R _ Hh) as (z & E & Hz). injection E as <-. exact Hz.
    + destruct Hs as (d & -> & R). cbn [rdv holds_enum] in Hh. apply existsb_is_int_d in Hh as (k & Hk).
      rewrite Forall_forall in R. destruct (R _ Hk) as (z & E & Hz). cbn [snd] in E. injection E as <-. exact Hz.
    + destruct Hs as (z & -> & R). cbn [rdv holds_enum] in Hh. apply Z.eqb_eq in Hh. subst. exact R.
    + destruct Hs as [->|(z & -> & R)]; [discriminate Hh|]. cbn [rdv holds_enum] in Hh. apply Z.eqb_eq in Hh. subst. exact R.
Qed.

(* ---------------------------------------------------------------- the member an enum attribute is *)
Lemma field_member_spec sc e v :
  field_member sc e (PInt v) = Some (EnumP.canon (Enum.members_of (enum_body sc e)) v) /\
  (forall n, In (n, v) (Enum.members_of (enum_body sc e)) ->
     exists n0, field_member sc e (PInt v) = Some (Some n0, v) /\
                EnumP.first_name (Enum.members_of (enum_body sc e)) v = Some n0 /\
                Enum.in_table (enum_cls sc e) (Some n0, v) = true /\ enum_json sc e v = JStr n0) /\
  (~ In v (map snd (Enum.members_of (enum_body sc e))) ->
     field_member sc e (PInt v) = Some (None, v) /\ enum_json sc e v = JInt v).
Proof.
  split; [apply member_canon|]. split.
  - intros n Hin. destruct (EnumP.by_number (enum_body sc e) n v Hin) as (n0 & l1 & l2 & E & Hn & _ & Ht & Hi).
    exists n0. cbn [field_member]. rewrite enum_cls_body, Ht.
    assert (Ef : EnumP.first_name (Enum.members_of (enum_body sc e)) v = Some n0).
    { apply EnumP.first_name_Some. exists l1, l2. auto. }
    split; [reflexivity|]. split; [exact Ef|]. split; [exact Hi|]. unfold enum_json. rewrite Ef. reflexivity.
  - intros Hn. destruct (EnumP.open_value (enum_body sc e) v Hn) as (_ & Ht & _).
    cbn [field_member]. rewrite enum_cls_body, Ht. split; [reflexivity|]. apply enum_json_unnamed. exact Hn.
Qed.

(* ---------------------------------------------------------------- the bridges, collected *)
Lemma codec_bridge sc e :
  (forall raw, postprocess_varint TEnum raw = PInt (snd (Enum.enum_post (enum_cls sc e) raw)) /\
               field_member sc e (postprocess_varint TEnum raw) = Some (Enum.enum_post (enum_cls sc e) raw)) /\
  (forall msg w v, preprocess_with msg TEnum w (PInt v) = Enum.enum_pre (Enum.try_value (enum_cls sc e) v)) /\
  (forall z, dump_enum sc e z = enum_json sc e z) /\
  (forall z, enum_from_json sc e (JInt z) = Ok (PInt z)) /\
  (forall n, enum_from_json sc e (JStr n) =
             match Enum.from_json_el (enum_cls sc e) (Enum.JName n) with Ok m => Ok (PInt (snd m)) | Err k => Err k end) /\
  enum_cls sc e = Enum.class_of (enum_body sc e).
Proof.
  split; [exact (post_bridge sc e)|]. split; [exact (pre_bridge sc e)|]. split; [exact (dump_bridge sc e)|].
  split; [intros z; exact (proj1 (parse_bridge sc e z))|]. split; [intros n; exact (proj2 (parse_bridge sc e 0) n)|reflexivity].
Qed.

Lemma built_json_form sc e k v :
  enum_field_json sc e (place PosSingular k v) = enum_json sc e v /\
  enum_field_json sc e (place PosOneof k v) = enum_json sc e v /\
  enum_field_json sc e (place PosOptional k v) = enum_json sc e v /\
  enum_field_json sc e (place PosRepeated k v) = JList [enum_json sc e v] /\
  enum_field_json sc e (place PosMapValue k v) = JObj [(raw_json k, enum_json sc e v)] /\
  (enum_omitted PosSingular (place PosSingular k v) = (v =? 0)) /\
  enum_omitted PosOneof (place PosOneof k v) = false /\ enum_omitted PosOptional (place PosOptional k v) = false /\
  enum_omitted PosRepeated (place PosRepeated k v) = false /\ enum_omitted PosMapValue (place PosMapValue k v) = false.
Proof. repeat split. Qed.
