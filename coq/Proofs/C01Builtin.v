(* C01 layer 4a — the message types betterproto brings itself: Timestamp (datetime fields), Duration
   (timedelta fields) and the nine wrapper messages.  Each is a flat message of plain scalar fields,
   so its round trip is the singular-field lemma applied once or twice. *)
From Coq Require Import ZArith List Bool Lia ZifyBool.
From BP Require Import Base.Prelude Model.Types Model.Varint Model.Scalar Model.Float Model.Utf8.
From BP Require Import Model.Object Model.Eq Model.TimeCore Model.Encode Model.Decode Model.WellFormed Model.C01Def.
From BP Require Import gen.Tables Proofs.BytesP Proofs.LenP Proofs.C01Scalar Proofs.C01Frame Proofs.C01Step Proofs.C01Apply
     Proofs.C01Elem Proofs.C01Field.
Ltac Zify.zify_post_hook ::= Z.to_euclidean_division_equations.

(* ---------- builtins_exact, reflected ---------- *)
Lemma list_eqb_eq {A} (e : A -> A -> bool) :
  (forall x y, e x y = true -> x = y) -> forall a b, list_eqb e a b = true -> a = b.
Proof.
  intros He. induction a as [|x a IH]; intros [|y b] H; cbn in H; try discriminate; [reflexivity|].
  apply andb_true_iff in H as [H1 H2]. f_equal; auto.
Qed.

Lemma opt_eqb_eq {A} (e : A -> A -> bool) :
  (forall x y, e x y = true -> x = y) -> forall a b, opt_eqb e a b = true -> a = b.
Proof. intros He [x|] [y|] H; cbn in H; try discriminate; [f_equal; auto | reflexivity]. Qed.

Lemma pyty_eqb_eq a b : pyty_eqb a b = true -> a = b.
Proof. destruct a, b; cbn; intros H; try discriminate; try reflexivity; apply Nat.eqb_eq in H; congruence. Qed.

Lemma hint_eqb_eq a b : hint_eqb a b = true -> a = b.
Proof.
  destruct a, b; cbn; intros H; try discriminate; try (apply pyty_eqb_eq in H; congruence).
  apply andb_true_iff in H as [H1 H2]. apply pyty_eqb_eq in H1, H2. congruence.
Qed.

Lemma fdesc_eqb_eq a b : fdesc_eqb a b = true -> a = b.
Proof.
  destruct a, b. unfold fdesc_eqb. cbn.
  intros H. repeat rewrite andb_true_iff in H.
  destruct H as ((((((((E1 & E2) & E3) & E4) & E5) & E6) & E7) & E8) & E9).
  apply bytes_eqb_eq in E1. apply Z.eqb_eq in E2. apply ptype_eqb_eq in E3.
  apply opt_eqb_eq in E4; [|intros [x1 x2] [y1 y2] Hx; cbn in Hx; apply andb_true_iff in Hx as [Hx1 Hx2];
                             apply ptype_eqb_eq in Hx1, Hx2; congruence].
  apply opt_eqb_eq in E5; [|intros x y Hx; apply Nat.eqb_eq; exact Hx].
  apply opt_eqb_eq in E6; [|intros x y Hx; apply ptype_eqb_eq; exact Hx].
  apply Bool.eqb_prop in E7. apply hint_eqb_eq in E8. apply Nat.eqb_eq in E9. congruence.
Qed.

Lemma cdesc_eqb_eq a b : cdesc_eqb a b = true -> a = b.
Proof.
  destruct a, b. unfold cdesc_eqb. cbn. intros H. apply andb_true_iff in H as [H1 H2].
  apply (list_eqb_eq _ fdesc_eqb_eq) in H1. apply Nat.eqb_eq in H2. congruence.
Qed.

Lemma nth_firstn {A} n i (l : list A) d : (i < n)%nat -> nth i (firstn n l) d = nth i l d.
Proof.
  revert i l; induction n as [|n IH]; intros i l H; [lia|].
  destruct l as [|x l]; [destruct i; reflexivity|]. destruct i as [|i]; [reflexivity|]. cbn. apply IH. lia.
Qed.

Lemma builtin_class sc c :
  builtins_exact sc = true -> (c < length builtin_classes)%nat ->
  get_class sc c = nth c builtin_classes empty_class.
Proof.
  unfold builtins_exact. intros H Hc. apply (list_eqb_eq _ cdesc_eqb_eq) in H.
  unfold get_class. rewrite <- H. symmetry. apply nth_firstn. exact Hc.
Qed.

(* ---------- (seconds, nanos) arithmetic ---------- *)
Lemma ts_pair_rt us :
  dt_min_us <= us <= dt_max_us ->
  let '(s, n) := ts_pair_of_us us in
  - 2 ^ 63 <= s < 2 ^ 63 /\ - 2 ^ 31 <= n < 2 ^ 31 /\ us_of_ts s n = Ok us /\ (s = 0 -> n = 0 -> us = 0).
Proof.
  unfold ts_pair_of_us, dt_min_us, dt_max_us. intros H.
  change (2 ^ 63) with 9223372036854775808. change (2 ^ 31) with 2147483648.
  split; [lia|]. split; [lia|]. split; [|lia].
  unfold us_of_ts.
  replace (us / 1000000 * 1000000 + us mod 1000000 * 1000 / 1000) with us by lia.
  unfold td_ok, td_min_us, td_max_us, dt_min_us, dt_max_us.
  replace ((-999999999 * 86400000000 <=? us) && (us <=? 1000000000 * 86400000000 - 1) &&
           (-62135596800000000 <=? us) && (us <=? 253402300799999999)) with true by lia.
  reflexivity.
Qed.

Lemma dur_pair_rt us :
  - 315576000000000000 <= us <= 315576000000000000 ->
  let '(s, n) := dur_pair_of_us us in
  - 2 ^ 63 <= s < 2 ^ 63 /\ - 2 ^ 31 <= n < 2 ^ 31 /\ us_of_dur s n = Ok us /\ (s = 0 -> n = 0 -> us = 0).
Proof.
  unfold dur_pair_of_us. intros H.
  change (2 ^ 63) with 9223372036854775808. change (2 ^ 31) with 2147483648.
  assert (Hr : Z.quot (Z.rem us 1000000 * 1000) 1000 = Z.rem us 1000000) by (apply Z.quot_mul; lia).
  split; [lia|]. split; [lia|]. split; [|lia].
  unfold us_of_dur. rewrite Hr.
  replace (Z.quot us 1000000 * 1000000 + Z.rem us 1000000) with us by lia.
  unfold td_ok, td_min_us, td_max_us. replace ((-999999999 * 86400000000 <=? us) && (us <=? 1000000000 * 86400000000 - 1)) with true by lia.
  reflexivity.
Qed.

(* ---------- Timestamp / Duration: two plain integer fields ---------- *)
Section Layout.
  Variables (fuel' : nat) (sc : schema) (c : nat).

  (* one field of layout_bytes: skipped when zero, else one varint record that sets slot i *)
  Lemma layout_field raw unk cur i nm num t z :
    nth_error (cfields (get_class sc c)) i = Some (plain_field nm num t) ->
    nodup_z (map fnum (cfields (get_class sc c))) = true ->
    1 <= num < 2 ^ 29 -> tmem t WIRE_VARINT_TYPES = true -> scalar_in_range t (PInt z) = true ->
    nth i raw PPlaceholder = PPlaceholder ->
    exists a, (if z =? 0 then Ok [] else serialize_with no_msg num t (PInt z) false None) = Ok a /\
              (a = [] -> z = 0) /\
              (small a -> (length a <= fuel')%nat ->
               feeds fuel' sc (get_class sc c) (Obj c raw true unk cur) a
                     (Obj c (if z =? 0 then raw else set_nth i (PInt z) raw) true unk cur)).
  Proof.
    intros Hf Hnd Hnum Ht Hr Hx.
    destruct (z =? 0) eqn:Hz.
    { exists []. split; [reflexivity|]. split; [lia|]. intros _ _. apply feeds_nil. }
    assert (Hty : plain_pyty t = PyInt \/ plain_pyty t = PyBool)
      by (destruct t; try (vm_compute in Ht; discriminate); cbn; auto).
    destruct (feeds_singular no_msg fuel' sc c raw unk cur i (plain_field nm num t) (PInt z) (PInt z) False
                Hf Hnd Hnum) with (se := false) as (a & Ea & Hemp & _ & Hfeed); auto.
    - destruct t; try reflexivity; vm_compute in Ht; discriminate.
    - intros l. unfold default_of. cbn. destruct Hty as [-> | ->]; discriminate.
    - intros g Hg. discriminate Hg.
    - cbn. apply elem_varint; assumption.
    - cbn in Ea. exists a. split; [exact Ea|].
      assert (Hne : a <> []) by (intros Ha; destruct (Hemp Ha) as [_ []]).
      split; [congruence|]. intros Hs Hl. specialize (Hfeed Hs Hl).
      destruct a as [|a0 a']; [congruence|]. exact Hfeed.
  Qed.
End Layout.

Lemma new_unfold sc c :
  new sc c = Obj c (map (fun f => if fopt f then PNone else PPlaceholder) (cfields (get_class sc c))) false []
                 (repeat None (cngroups (get_class sc c))).
Proof. reflexivity. Qed.

Lemma small_nil : small [].
Proof. unfold small. cbn. lia. Qed.

Section Layout2.
  Variables (sc : schema) (c : nat) (n1 n2 : list byte).
  Hypothesis Hc : get_class sc c = class_of_layout [(n1, 1, TInt64); (n2, 2, TInt32)].

  Lemma layout2_parse s n :
    - 2 ^ 63 <= s < 2 ^ 63 -> - 2 ^ 31 <= n < 2 ^ 31 ->
    exists bs, layout_bytes [(n1, 1, TInt64); (n2, 2, TInt32)] [s; n] = Ok bs /\
      (bs = [] -> s = 0 /\ n = 0) /\
      (small bs -> forall fuel, (length bs < fuel)%nat ->
         exists m, parse_new fuel sc c bs = Ok m /\
                   snd (getattr sc m 0) = Ok (PInt s) /\ snd (getattr sc m 1) = Ok (PInt n)).
  Proof.
    intros Hs Hn.
    assert (Hfs : cfields (get_class sc c) = [plain_field n1 1 TInt64; plain_field n2 2 TInt32]) by (rewrite Hc; reflexivity).
    assert (Hnd : nodup_z (map fnum (cfields (get_class sc c))) = true) by (rewrite Hfs; reflexivity).
    assert (Hr1 : scalar_in_range TInt64 (PInt s) = true) by (cbn; unfold int_in; lia).
    assert (Hr2 : scalar_in_range TInt32 (PInt n) = true) by (cbn; unfold int_in; lia).
    unfold layout_bytes. cbn [combine concat_map]. fold (@concat_map (list byte * Z * ptype * Z)).
    cbn [concat_map].
    (* shape: do a <- F1; do b <- (do a2 <- F2; do b2 <- Ok []; Ok (a2 ++ b2)); Ok (a ++ b) *)
    assert (H1 : forall fuel' raw, nth 0 raw PPlaceholder = PPlaceholder ->
      exists a, (if s =? 0 then Ok [] else serialize_with no_msg 1 TInt64 (PInt s) false None) = Ok a /\ (a = [] -> s = 0) /\
        (small a -> (length a <= fuel')%nat ->
         feeds fuel' sc (get_class sc c) (Obj c raw true [] []) a
               (Obj c (if s =? 0 then raw else set_nth 0 (PInt s) raw) true [] []))).
    { intros fuel' raw Hx. apply (layout_field fuel' sc c raw [] [] 0%nat n1 1 TInt64 s); auto;
        [rewrite Hfs; reflexivity | change (2 ^ 29) with 536870912; lia]. }
    assert (H2 : forall fuel' raw, nth 1 raw PPlaceholder = PPlaceholder ->
      exists a, (if n =? 0 then Ok [] else serialize_with no_msg 2 TInt32 (PInt n) false None) = Ok a /\ (a = [] -> n = 0) /\
        (small a -> (length a <= fuel')%nat ->
         feeds fuel' sc (get_class sc c) (Obj c raw true [] []) a
               (Obj c (if n =? 0 then raw else set_nth 1 (PInt n) raw) true [] []))).
    { intros fuel' raw Hx. apply (layout_field fuel' sc c raw [] [] 1%nat n2 2 TInt32 n); auto;
        [rewrite Hfs; reflexivity | change (2 ^ 29) with 536870912; lia]. }
    destruct (H1 0%nat [PPlaceholder; PPlaceholder] eq_refl) as (a & Ea & Na & _).
    destruct (H2 0%nat [PPlaceholder; PPlaceholder] eq_refl) as (b & Eb & Nb & _).
    rewrite Ea, Eb. cbn [bind]. rewrite app_nil_r.
    exists (a ++ b). split; [reflexivity|].
    split; [intros Hab; apply app_eq_nil in Hab as [-> ->]; auto|].
    intros Hsm fuel Hfuel. destruct fuel as [|fuel']; [lia|].
    rewrite app_length in Hfuel.
    set (raw1 := if s =? 0 then [PPlaceholder; PPlaceholder] else set_nth 0 (PInt s) [PPlaceholder; PPlaceholder]).
    set (raw2 := if n =? 0 then raw1 else set_nth 1 (PInt n) raw1).
    exists (Obj c raw2 true [] []).
    split.
    - unfold parse_new. rewrite new_unfold, Hfs. rewrite Hc. cbn [map fopt plain_field cngroups class_of_layout repeat].
      rewrite (feeds_load fuel' sc c [PPlaceholder; PPlaceholder] false [] [] (a ++ b) (Obj c raw2 true [] [])); [reflexivity|].
      eapply feeds_app.
      + destruct (H1 fuel' [PPlaceholder; PPlaceholder] eq_refl) as (a' & Ea' & _ & Fa). rewrite Ea in Ea'. injection Ea' as <-.
        apply Fa; [eapply small_app_l; eauto | lia].
      + fold raw1.
        assert (Hx1 : nth 1 raw1 PPlaceholder = PPlaceholder) by (unfold raw1; destruct (s =? 0); reflexivity).
        destruct (H2 fuel' raw1 Hx1) as (b' & Eb' & _ & Fb). rewrite Eb in Eb'. injection Eb' as <-.
        apply Fb; [eapply small_app_r; eauto | lia].
    - unfold getattr. rewrite Hfs. cbn [nth_error group_selects plain_field fgroup].
      unfold raw2, raw1.
      destruct (Z.eqb_spec s 0) as [->|Hs0]; destruct (Z.eqb_spec n 0) as [->|Hn0]; cbn; auto.
  Qed.
End Layout2.

(* ---------- datetime / timedelta / wrapped values as elements ---------- *)
Section TimeElems.
  Variables (enc_msg : obj -> result (list byte)) (fuel' : nat) (sc : schema).
  Hypothesis Hbi : builtins_exact sc = true.

  Lemma elem_datetime us :
    dt_min_us <= us <= dt_max_us ->
    elem_enc (msg_bytes enc_msg) fuel' sc TMessage PyDatetime None (PDatetime us) (PDatetime us) (us = 0).
  Proof.
    intros Hr.
    assert (Hc : get_class sc timestamp_cls = class_of_layout timestamp_fields)
      by (rewrite builtin_class; [reflexivity | exact Hbi | apply Nat.ltb_lt; reflexivity]).
    unfold timestamp_fields in Hc.
    pose proof (ts_pair_rt us Hr) as Hp. destruct (ts_pair_of_us us) as [s n] eqn:Ep.
    destruct Hp as (Hs & Hn & Hus & Hz).
    destruct (layout2_parse sc timestamp_cls _ _ Hc s n Hs Hn) as (val & Ev & Hemp & Hparse).
    apply (elem_len (msg_bytes enc_msg) fuel' sc TMessage PyDatetime None (PDatetime us) (PDatetime us) val); try reflexivity.
    - unfold preprocess_with. cbn [tmem existsb ptype_eqb ptype_tag Z.eqb orb FIXED_TYPES].
      unfold msg_bytes. rewrite Ep. exact Ev.
    - intros Hv _. destruct (Hemp Hv) as [-> ->]. auto.
    - intros Hsm Hl f. unfold post_len. cbn [ptype_eqb ptype_tag Z.eqb].
      destruct (Hparse Hsm fuel' Hl) as (m & Pm & G0 & G1). rewrite Pm. cbn [bind]. rewrite G0, G1, Hus. reflexivity.
  Qed.

  Lemma elem_timedelta us :
    - 315576000000000000 <= us <= 315576000000000000 ->
    elem_enc (msg_bytes enc_msg) fuel' sc TMessage PyTimedelta None (PTimedelta us) (PTimedelta us) (us = 0).
  Proof.
    intros Hr.
    assert (Hc : get_class sc duration_cls = class_of_layout duration_fields)
      by (rewrite builtin_class; [reflexivity | exact Hbi | apply Nat.ltb_lt; reflexivity]).
    unfold duration_fields in Hc.
    pose proof (dur_pair_rt us Hr) as Hp. destruct (dur_pair_of_us us) as [s n] eqn:Ep.
    destruct Hp as (Hs & Hn & Hus & Hz).
    destruct (layout2_parse sc duration_cls _ _ Hc s n Hs Hn) as (val & Ev & Hemp & Hparse).
    apply (elem_len (msg_bytes enc_msg) fuel' sc TMessage PyTimedelta None (PTimedelta us) (PTimedelta us) val); try reflexivity.
    - unfold preprocess_with. cbn [tmem existsb ptype_eqb ptype_tag Z.eqb orb FIXED_TYPES].
      unfold msg_bytes. rewrite Ep. exact Ev.
    - intros Hv _. destruct (Hemp Hv) as [-> ->]. auto.
    - intros Hsm Hl f. unfold post_len. cbn [ptype_eqb ptype_tag Z.eqb].
      destruct (Hparse Hsm fuel' Hl) as (m & Pm & G0 & G1). rewrite Pm. cbn [bind]. rewrite G0, G1, Hus. reflexivity.
  Qed.
End TimeElems.

(* ---------- wrapper messages ---------- *)
Section Wrappers.
  Variables (enc_msg : obj -> result (list byte)) (fuel' : nat) (sc : schema).
  Hypothesis Hbi : builtins_exact sc = true.

  Lemma wrapper_class_at w vt wc :
    wrapper_value_type w = Some vt -> wrapper_cls w = Some wc ->
    get_class sc wc = mkC [wrapper_field vt] 0 /\ vt = w /\ tmem vt scalar_ptypes = true.
  Proof.
    intros Hvt Hwc.
    destruct w; try discriminate Hvt; injection Hvt as <-; vm_compute in Hwc; injection Hwc as <-;
      (split; [rewrite builtin_class; [reflexivity | exact Hbi | apply Nat.ltb_lt; reflexivity] | split; reflexivity]).
  Qed.

  Lemma parse_empty fuel c : parse_new (S fuel) sc c [] = Ok (raise_sow (new sc c)).
  Proof.
    unfold parse_new. rewrite new_unfold. rewrite (feeds_load fuel sc c _ false [] _ [] _ (feeds_nil _ _ _ _)). reflexivity.
  Qed.

  Lemma scalar_value_shape t v : scalar_in_range t v = true -> norm_scalar t v <> PPlaceholder /\ marked sc (norm_scalar t v) = norm_scalar t v.
  Proof. destruct t, v; cbn; intros H; try discriminate H; split; try discriminate; reflexivity. Qed.

  Lemma wrapper_parse w vt wc v :
    wrapper_value_type w = Some vt -> wrapper_cls w = Some wc -> scalar_in_range w v = true ->
    exists val, wrapper_bytes w v = Ok val /\
      (small val -> forall fuel, (length val < fuel)%nat ->
         exists m, parse_new fuel sc wc val = Ok m /\ snd (getattr sc m 0) = Ok (norm_wrapped sc w v)).
  Proof.
    intros Hvt Hwc Hr. destruct (wrapper_class_at w vt wc Hvt Hwc) as (Hc & Hw & Hsc). subst w.
    unfold wrapper_bytes, norm_wrapped. rewrite Hvt. fold (wrapper_field vt).
    assert (Hfs : cfields (get_class sc wc) = [wrapper_field vt]) by (rewrite Hc; reflexivity).
    destruct (is_default (mkS [] []) (wrapper_field vt) v) eqn:Hd.
    - exists []. split; [reflexivity|]. intros _ fuel Hf. destruct fuel as [|fuel]; [cbn in Hf; lia|].
      rewrite parse_empty. eexists. split; [reflexivity|].
      rewrite new_unfold, Hfs. cbn [map raise_sow]. unfold getattr. rewrite Hfs. cbn. reflexivity.
    - destruct (scalar_value_shape vt v Hr) as (Hnp & Hmk).
      destruct (feeds_singular no_msg 0%nat sc wc [PPlaceholder] [] [] 0%nat (wrapper_field vt) v (norm_scalar vt v) (scalar_empty v))
        with (se := false) as (val & Ev & Hemp & _ & _); auto.
      { rewrite Hfs. reflexivity. } { rewrite Hfs. reflexivity. } { cbn. change (2 ^ 29) with 536870912. lia. }
      { destruct vt; try reflexivity; vm_compute in Hsc; discriminate. }
      { intros l. destruct vt; try (vm_compute in Hsc; discriminate); cbn; discriminate. }
      { intros g Hg. discriminate Hg. }
      { cbn. apply elem_scalar; assumption. }
      cbn in Ev. exists val. split; [exact Ev|].
      assert (Hne : val <> []).
      { intros Hv. destruct (Hemp Hv) as (_ & [-> | ->]);
          destruct vt; try discriminate Hr; vm_compute in Hd; discriminate. }
      intros Hsm fuel Hf. destruct fuel as [|fuel]; [lia|].
      destruct (feeds_singular no_msg fuel sc wc [PPlaceholder] [] [] 0%nat (wrapper_field vt) v (norm_scalar vt v) (scalar_empty v))
        with (se := false) as (val' & Ev' & _ & _ & Hfeed); auto.
      { rewrite Hfs. reflexivity. } { rewrite Hfs. reflexivity. } { cbn. change (2 ^ 29) with 536870912. lia. }
      { destruct vt; try reflexivity; vm_compute in Hsc; discriminate. }
      { intros l. destruct vt; try (vm_compute in Hsc; discriminate); cbn; discriminate. }
      { intros g Hg. discriminate Hg. }
      { cbn. apply elem_scalar; assumption. }
      cbn in Ev'. rewrite Ev in Ev'. injection Ev' as <-.
      specialize (Hfeed Hsm ltac:(lia)). destruct val as [|b0 val']; [congruence|]. cbn [is_nil] in Hfeed.
      eexists. split.
      + unfold parse_new. rewrite new_unfold, Hfs. cbn [map wrapper_field plain_field fopt]. rewrite Hc. cbn [cngroups repeat].
        rewrite (feeds_load fuel sc wc [PPlaceholder] false [] [] _ _ Hfeed). reflexivity.
      + unfold getattr. rewrite Hfs. cbn [nth_error set_nth nth]. unfold cur_after, group_selects. cbn [wrapper_field plain_field fgroup].
        destruct (norm_scalar vt v); try reflexivity. congruence.
  Qed.

  Lemma elem_wrapped w vt v ety :
    wrapper_value_type w = Some vt -> is_some (wrapper_cls w) = true -> scalar_in_range w v = true ->
    ety <> PyDatetime -> ety <> PyTimedelta ->
    elem_enc (msg_bytes enc_msg) fuel' sc TMessage ety (Some w) v (norm_wrapped sc w v) False.
  Proof.
    intros Hvt Hwc Hr He1 He2. destruct (wrapper_cls w) as [wc|] eqn:Ewc; [|discriminate].
    destruct (wrapper_parse w vt wc v Hvt Ewc Hr) as (val & Ev & Hparse).
    apply (elem_len (msg_bytes enc_msg) fuel' sc TMessage ety (Some w) v (norm_wrapped sc w v) val); try reflexivity.
    - unfold preprocess_with. cbn [tmem existsb ptype_eqb ptype_tag Z.eqb orb FIXED_TYPES].
      destruct (wrapper_class_at w vt wc Hvt Ewc) as (_ & Hw & _). subst w.
      destruct v; try (destruct vt; discriminate Hr); unfold msg_bytes; exact Ev.
    - intros _ Habs. discriminate Habs.
    - intros Hsm Hl f. unfold post_len. cbn [ptype_eqb ptype_tag Z.eqb]. rewrite Ewc.
      destruct (Hparse Hsm fuel' Hl) as (m & Pm & G0).
      destruct ety; try congruence; rewrite Pm; cbn [bind]; exact G0.
  Qed.
End Wrappers.
