(* C14 / unknown fields at any depth: normu_obj slot by slot (clone of the norm_obj part of Proofs/C01Unfold.v). *)
From Coq Require Import ZArith List Bool Lia ZifyBool.
From BP Require Import Base.Prelude Model.Types Model.Object Model.Eq Model.Encode Model.Decode Model.WellFormed Model.C01Def Model.C14UDef.

Definition normu_slots (sc : schema) (cur : list (option nat)) : nat -> list pv -> list fdesc -> list pv :=
  fix go (i : nat) (raw : list pv) (fs : list fdesc) {struct raw} : list pv :=
    match raw, fs with
    | x :: raw', f :: fs' => norm_slot sc (normu_obj sc) f (group_selects cur f i) x :: go (S i) raw' fs'
    | _, _ => []
    end.

Lemma normu_obj_unfold sc c raw sow unk cur :
  normu_obj sc (Obj c raw sow unk cur) = Obj c (normu_slots sc cur 0 raw (cfields (get_class sc c))) true unk cur.
Proof. reflexivity. Qed.

Lemma normu_slots_cons sc cur i x raw f fs :
  normu_slots sc cur i (x :: raw) (f :: fs) =
  norm_slot sc (normu_obj sc) f (group_selects cur f i) x :: normu_slots sc cur (S i) raw fs.
Proof. reflexivity. Qed.
