(* C01 layer 1 — scalars: for each of the 15 scalar kinds and enum, what the encoder writes for an
   in-range value is read back as that value (float32: as struct.unpack(struct.pack(x))).
   Built on the C16 lemmas (VarintP, ScalarP, BytesP). *)
From Coq Require Import ZArith List Bool Lia ZifyBool.
From BP Require Import Base.Prelude Model.Types Model.Varint Model.Scalar Model.Float Model.Utf8.
From BP Require Import Model.Object Model.Eq Model.TimeCore Model.Encode Model.Decode Model.WellFormed Model.C01Def.
From BP Require Import gen.Tables Spec.Varint Proofs.BytesP Proofs.VarintP Proofs.ScalarP.
Ltac Zify.zify_post_hook ::= Z.to_euclidean_division_equations.

(* ---------- varints ---------- *)
Lemma enc_go_nonempty f v : enc_go f v <> [].
Proof. destruct f; cbn [enc_go]; [discriminate|]. destruct (_ =? 0); discriminate. Qed.

Lemma encode_varint_nonempty v bs : encode_varint v = Ok bs -> bs <> [].
Proof.
  unfold encode_varint. destruct (v <? - 2 ^ 63); [discriminate|].
  set (v' := if v <? 0 then v + 2 ^ 64 else v). intros H Hbs. subst bs.
  apply (enc_go_nonempty (enc_fuel v') v'). congruence.
Qed.

(* the one lemma the codec proofs use about varints *)
Lemma varint_rt v :
  - 2 ^ 63 <= v < 2 ^ 64 ->
  exists bs, encode_varint v = Ok bs /\ bs <> [] /\
             forall rest, load_varint (bs ++ rest) = Ok (v mod 2 ^ 64, bs, rest).
Proof.
  intros Hv. destruct (encode_load_inverse v [] Hv) as (bs & E & _).
  exists bs. split; [exact E|]. split; [eapply encode_varint_nonempty; exact E|].
  intros rest. destruct (encode_load_inverse v rest Hv) as (bs' & E' & L).
  rewrite E in E'. injection E' as <-. exact L.
Qed.

Lemma varint_rt_nonneg v :
  0 <= v < 2 ^ 64 ->
  exists bs, encode_varint v = Ok bs /\ bs <> [] /\
             forall rest, load_varint (bs ++ rest) = Ok (v, bs, rest).
Proof.
  intros Hv. destruct (varint_rt v ltac:(lia)) as (bs & E & N & L).
  exists bs. repeat split; auto. intros rest. rewrite L, Z.mod_small by lia. reflexivity.
Qed.

(* ---------- the eight varint kinds ---------- *)
Lemma int_in_true lo hi z : int_in lo hi z = true -> lo <= z < hi.
Proof. unfold int_in. lia. Qed.

Lemma scalar_varint_rt msg t v :
  tmem t WIRE_VARINT_TYPES = true -> scalar_in_range t v = true ->
  exists bs n, preprocess_with msg t None v = Ok bs /\ bs <> [] /\
               (forall rest, load_varint (bs ++ rest) = Ok (n, bs, rest)) /\ postprocess_varint t n = v.
Proof.
  intros Ht Hr.
  destruct t; try (vm_compute in Ht; discriminate); destruct v; try discriminate Hr;
    cbn [scalar_in_range] in Hr; try apply int_in_true in Hr.
  - (* enum *)
    destruct (varint_rt z ltac:(lia)) as (bs & E & N & L). exists bs, (z mod 2 ^ 64).
    split; [unfold preprocess_with; cbn; exact E|]. split; [exact N|]. split; [exact L|].
    unfold postprocess_varint. cbn. f_equal. apply (sign_recover_correct 32); lia.
  - (* bool *)
    destruct (varint_rt (if b then 1 else 0) ltac:(destruct b; lia)) as (bs & E & N & L).
    exists bs, ((if b then 1 else 0) mod 2 ^ 64).
    split; [unfold preprocess_with; cbn; exact E|]. split; [exact N|]. split; [exact L|].
    unfold postprocess_varint. cbn. destruct b; reflexivity.
  - (* int32 *)
    destruct (varint_rt z ltac:(lia)) as (bs & E & N & L). exists bs, (z mod 2 ^ 64).
    split; [unfold preprocess_with; cbn; exact E|]. split; [exact N|]. split; [exact L|].
    unfold postprocess_varint. cbn. f_equal. apply (sign_recover_correct 32); lia.
  - (* int64 *)
    destruct (varint_rt z ltac:(lia)) as (bs & E & N & L). exists bs, (z mod 2 ^ 64).
    split; [unfold preprocess_with; cbn; exact E|]. split; [exact N|]. split; [exact L|].
    unfold postprocess_varint. cbn. f_equal. apply (sign_recover_correct 64); lia.
  - (* uint32 *)
    destruct (varint_rt z ltac:(lia)) as (bs & E & N & L). exists bs, (z mod 2 ^ 64).
    split; [unfold preprocess_with; cbn; exact E|]. split; [exact N|]. split; [exact L|].
    unfold postprocess_varint. cbn. f_equal. apply Z.mod_small. lia.
  - (* uint64 *)
    destruct (varint_rt z ltac:(lia)) as (bs & E & N & L). exists bs, (z mod 2 ^ 64).
    split; [unfold preprocess_with; cbn; exact E|]. split; [exact N|]. split; [exact L|].
    unfold postprocess_varint. cbn. f_equal. apply Z.mod_small. lia.
  - (* sint32 *)
    pose proof (zigzag_range 32 z ltac:(lia) ltac:(lia)) as Hz.
    destruct (varint_rt (zigzag z) ltac:(lia)) as (bs & E & N & L). exists bs, (zigzag z mod 2 ^ 64).
    split; [unfold preprocess_with; cbn; exact E|]. split; [exact N|]. split; [exact L|].
    unfold postprocess_varint. cbn. f_equal. rewrite Z.mod_small by lia. apply unzigzag_zigzag.
  - (* sint64 *)
    pose proof (zigzag_range 64 z ltac:(lia) ltac:(lia)) as Hz.
    destruct (varint_rt (zigzag z) ltac:(lia)) as (bs & E & N & L). exists bs, (zigzag z mod 2 ^ 64).
    split; [unfold preprocess_with; cbn; exact E|]. split; [exact N|]. split; [exact L|].
    unfold postprocess_varint. cbn. f_equal. rewrite Z.mod_small by lia. apply unzigzag_zigzag.
Qed.

(* ---------- float32 ---------- *)
From BP Require Import Proofs.C01Float.

Lemma f32_facts b :
  scalar_in_range TFloat (PFloat b) = true ->
  exists w, d2f b = Some w /\ 0 <= w < 2 ^ 32 /\ norm_f32 b = f2d w /\ d2f (f2d w) = Some w /\
            (f2d w = b \/ (f64_is_nan b = true /\ f64_is_nan (f2d w) = true)).
Proof.
  cbn [scalar_in_range]. intros H. apply andb_true_iff in H as [Hr H]. apply int_in_true in Hr.
  apply orb_true_iff in H as [H|H].
  - unfold f32_representable in H. destruct (d2f b) as [w|] eqn:E; [|discriminate].
    exists w. split; [reflexivity|]. split; [eapply d2f_range; eauto|].
    assert (f2d w = b) by lia. unfold norm_f32. rewrite E. repeat split; auto. congruence.
  - destruct (d2f_nan b Hr H) as (w & E & N & S). exists w. split; [exact E|]. split; [eapply d2f_range; eauto|].
    unfold norm_f32. rewrite E. repeat split; auto.
Qed.

(* ---------- the six fixed-width kinds ---------- *)
Definition fixed_size (t : ptype) : nat := if tmem t WIRE_FIXED_32_TYPES then 4%nat else 8%nat.

Lemma le_value_le_bytes_4 w : 0 <= w < 2 ^ 32 -> le_value (le_bytes 4 w) = w.
Proof. intros H. apply le_value_le_bytes. exact H. Qed.
Lemma le_value_le_bytes_8 w : 0 <= w < 2 ^ 64 -> le_value (le_bytes 8 w) = w.
Proof. intros H. apply le_value_le_bytes. exact H. Qed.

Lemma scalar_fixed_rt t v :
  tmem t FIXED_TYPES = true -> scalar_in_range t v = true ->
  exists bs, pack_value t v = Ok bs /\ length bs = fixed_size t /\ unpack_value t bs = Ok (norm_scalar t v).
Proof.
  intros Ht Hr.
  destruct t; try (vm_compute in Ht; discriminate); destruct v; try discriminate Hr.
  - (* float *)
    destruct (f32_facts bits Hr) as (w & E & Hw & Hn & _).
    exists (le_bytes 4 w). unfold pack_value, unpack_value. cbn [pack_fmt]. rewrite E.
    split; [reflexivity|]. split; [apply le_bytes_length|].
    rewrite le_bytes_length. cbn [Nat.eqb]. rewrite le_value_le_bytes_4 by exact Hw.
    cbn [norm_scalar]. rewrite Hn. reflexivity.
  - (* double *)
    cbn [scalar_in_range] in Hr. apply int_in_true in Hr.
    exists (le_bytes 8 bits). unfold pack_value, unpack_value. cbn [pack_fmt].
    split; [reflexivity|]. split; [apply le_bytes_length|].
    rewrite le_bytes_length. cbn [Nat.eqb]. rewrite le_value_le_bytes_8 by exact Hr. reflexivity.
  - cbn [scalar_in_range] in Hr. apply int_in_true in Hr.
    destruct (pack_unpack_int FmtI 0 (2 ^ 32) 4%nat z eq_refl ltac:(lia)) as (bs & P & _ & L & U).
    exists bs. unfold pack_value, unpack_value. cbn [pack_fmt int_like]. rewrite P, U. auto.
  - cbn [scalar_in_range] in Hr. apply int_in_true in Hr.
    destruct (pack_unpack_int Fmti (- 2 ^ 31) (2 ^ 31) 4%nat z eq_refl ltac:(lia)) as (bs & P & _ & L & U).
    exists bs. unfold pack_value, unpack_value. cbn [pack_fmt int_like]. rewrite P, U. auto.
  - cbn [scalar_in_range] in Hr. apply int_in_true in Hr.
    destruct (pack_unpack_int FmtQ 0 (2 ^ 64) 8%nat z eq_refl ltac:(lia)) as (bs & P & _ & L & U).
    exists bs. unfold pack_value, unpack_value. cbn [pack_fmt int_like]. rewrite P, U. auto.
  - cbn [scalar_in_range] in Hr. apply int_in_true in Hr.
    destruct (pack_unpack_int Fmtq (- 2 ^ 63) (2 ^ 63) 8%nat z eq_refl ltac:(lia)) as (bs & P & _ & L & U).
    exists bs. unfold pack_value, unpack_value. cbn [pack_fmt int_like]. rewrite P, U. auto.
Qed.
