(* C08 evolution — bridges between the two ways Message.load is taken apart (Model/C01Def.v: loop / feeds,
   used by the round-trip proofs; Model/C08Step.v: records / fold_steps, used by the unknown-field proofs; both are
   the body of Decode.load by conversion), and the algebra of [ceq]. *)
From Coq Require Import ZArith List Bool Lia.
From BP Require Import Base.Prelude Model.Types Model.Varint Model.Scalar Model.Float Model.Utf8.
From BP Require Import Model.Object Model.Eq Model.TimeCore Model.Encode Model.Decode Model.WellFormed Model.C01Def.
From BP Require Model.C08Step.
From BP Require Import gen.Tables Proofs.C01Frame Proofs.C01Step Proofs.C01Elem.
From BP Require Proofs.C08FrameP Proofs.C08StepP Proofs.C08UnknownP.
From BP Require Import Proofs.C08EvoDef.
Import ListNotations.

Lemma step_same : C08Step.step = C01Def.step.
Proof. reflexivity. Qed.
Lemma dv_same : C08Step.decode_value = C01Def.decode_value.
Proof. reflexivity. Qed.
Lemma pn_same : C08Step.parse_new = C01Def.parse_new.
Proof. reflexivity. Qed.
Lemma loop_same : C08Step.loopV = C01Def.loop.
Proof. reflexivity. Qed.

Lemma frame1_same s : C08Step.frame1 s = C01Frame.frame1 (length s) s.
Proof. reflexivity. Qed.

(* one record of the round-trip proofs is one record of the unknown-field proofs *)
Lemma reads_records1 B p : reads B p -> C08Step.records B [p].
Proof.
  intros (Hne & _ & Hr). eapply C08Step.records_cons; [exact Hne | | constructor].
  rewrite frame1_same. specialize (Hr (length B) []). rewrite app_nil_r in Hr. exact Hr.
Qed.

Lemma reads_praw B p : reads B p -> praw p = B.
Proof. intros (_ & H & _). exact H. Qed.

(* a chunk that feeds the loop is a sequence of complete records, and the loop folds [step] over them *)
Lemma feeds_records F sc cd o B o' :
  feeds F sc cd o B o' ->
  exists ps, C08Step.records B ps /\ C08Step.fold_steps F sc cd o ps = Ok o'.
Proof.
  intros (m & Hm & H). specialize (H [] 1%nat). rewrite app_nil_r in H.
  cbn [loop] in H. rewrite <- loop_same in H. rewrite C08StepP.loopV_run in H.
  destruct (C08StepP.run F sc cd (m + 1) o B) as [o''|] eqn:Hr; cbn [bind] in H; [|discriminate].
  injection H as ->. apply C08UnknownP.run_ok in Hr. exact Hr.
Qed.

(* ---- ceq ---- *)
Lemma req_refl sn F cd p : req sn F cd p p.
Proof. intros o. reflexivity. Qed.

Lemma Forall2_refl {A} (R : A -> A -> Prop) l : (forall x, R x x) -> Forall2 R l l.
Proof. intros H. induction l; constructor; auto. Qed.

Lemma ceq_nil sn F cd : ceq sn F cd [] [].
Proof. exists [], []. split; [constructor|]. split; constructor. Qed.

Lemma ceq_refl sn F cd B ps : C08Step.records B ps -> ceq sn F cd B B.
Proof. intros H. exists ps, ps. split; [exact H|]. split; [exact H|]. apply Forall2_refl. intros p. apply req_refl. Qed.

Lemma ceq_app sn F cd A A' B B' : ceq sn F cd A A' -> ceq sn F cd B B' -> ceq sn F cd (A ++ B) (A' ++ B').
Proof.
  intros (pa & pa' & Ra & Ra' & Fa) (pb & pb' & Rb & Rb' & Fb).
  exists (pa ++ pb), (pa' ++ pb'). split; [apply C08FrameP.records_app; assumption|].
  split; [apply C08FrameP.records_app; assumption|]. apply Forall2_app; assumption.
Qed.

Lemma ceq_one sn F cd B B' p p' : reads B p -> reads B' p' -> req sn F cd p p' -> ceq sn F cd B B'.
Proof.
  intros R R' Hq. exists [p], [p']. split; [apply reads_records1, R|]. split; [apply reads_records1, R'|].
  constructor; [exact Hq | constructor].
Qed.

Lemma ceq_fold sn F cd : forall ps ps', Forall2 (req sn F cd) ps ps' ->
  forall o, C08Step.fold_steps F sn cd o ps = C08Step.fold_steps F sn cd o ps'.
Proof.
  induction 1 as [|p p' ps ps' Hp _ IH]; intros o; [reflexivity|].
  cbn [C08Step.fold_steps]. rewrite (Hp o). destruct (C08Step.step F sn cd o p') as [o1|]; cbn [bind]; [apply IH | reflexivity].
Qed.

(* the newer reader cannot tell two equivalent byte strings of the same length apart *)
Lemma ceq_parse sn c K k2 m :
  ceq sn (length K) (get_class sn c) K k2 -> length k2 = length K ->
  parse sn c K = Ok m -> parse sn c k2 = Ok m.
Proof.
  intros (ps & ps' & R & R' & Hf) Hl H.
  apply C08UnknownP.parse_fold in H as (ps0 & R0 & Hfold).
  rewrite (C08FrameP.records_det _ _ R0 _ R) in Hfold. clear ps0 R0.
  apply C08UnknownP.parse_fold. exists ps'. split; [exact R'|].
  rewrite Hl, <- (ceq_fold sn _ _ _ _ Hf). exact Hfold.
Qed.
