(* C04: to_dict(m) is json.dumps-serialisable: only str / int / float / bool / None / list / dict with
   str-able keys; bytes, datetime, timedelta or Message objects never appear.  For every well-formed schema
   and every in-range object that keeps the oneof discipline; no json_supported, no keys_ok needed. *)
From BP Require Import Base.Prelude Model.Types Model.Float Model.Utf8 Model.Object Model.Eq Model.TimeCore.
From BP Require Import Model.Encode Model.WellFormed Model.Json.
From BP Require Import gen.Tables Proofs.BytesP Proofs.C04Def Proofs.C04ScalarP Proofs.C04ElemP Proofs.C04FieldP Proofs.C04ObjP.
From Coq Require Import Lia ZifyBool.

Lemma atom_dumpsable j : atom j = true -> dumpsable j = true.
Proof. destruct j; try discriminate; reflexivity. Qed.

Definition entry_ok (kx : json * json) : bool :=
  let '(k, x) := kx in match k with JStr _ | JInt _ | JBool _ | JNull => dumpsable x | _ => false end.

Lemma dumpsable_obj d : dumpsable (JObj d) = forallb entry_ok d.
Proof. reflexivity. Qed.

Lemma jset_ok k v d : dumpsable v = true -> forallb entry_ok d = true -> forallb entry_ok (jset k v d) = true.
Proof.
  intros Hv. induction d as [|[k' v'] d IH]; intros H; [cbn; rewrite Hv; reflexivity|].
  cbn [forallb] in H. apply andb_prop in H as [H1 H2].
  destruct k'; cbn [jset forallb]; try (rewrite H1, (IH H2); reflexivity).
  destruct (bytes_eqb k s); cbn [forallb entry_ok]; [rewrite Hv, H2; reflexivity|].
  cbn [entry_ok] in H1. rewrite H1, (IH H2). reflexivity.
Qed.

Lemma dict_norm_ok items :
  forallb (fun kj => dumpsable (snd kj)) items = true -> forallb entry_ok (dict_norm items) = true.
Proof.
  unfold dict_norm. assert (G : forall acc, forallb entry_ok acc = true ->
    forallb (fun kj : list byte * json => dumpsable (snd kj)) items = true ->
    forallb entry_ok (fold_left (fun d kv => jset (fst kv) (snd kv) d) items acc) = true).
  { induction items as [|[k v] items IH]; intros acc Ha H; [exact Ha|].
    cbn [forallb snd] in H. apply andb_prop in H as [H1 H2]. cbn [fold_left fst snd].
    apply IH; [apply jset_ok; assumption|exact H2]. }
  apply G. reflexivity.
Qed.

Definition oneof_deep (sc : schema) (v : pv) : bool := pv_all (local_oneof_ok sc) v.

Section Dumps.
  Variable sc : schema.
  Variable cs : casing.
  Hypothesis WF : wf_schema sc = true.

  Section Step.
    Variable n : nat.
    Hypothesis IHo : forall o', (pv_size (PMsg o') < n)%nat -> in_range sc o' = true -> oneof_deep sc (PMsg o') = true ->
      dumpsable (to_dict cs false sc o') = true.

    Let nc := length (classes sc).
    Let ne := length (enums sc).

    Lemma elem_dumps t p y :
      (pv_size y < n)%nat -> pyty_fits nc ne t p = true -> elem_in_range sc t p y = true -> oneof_deep sc y = true ->
      dumpsable (elem_to_json (to_dict cs false sc) sc t p y) = true.
    Proof.
      intros Hs Hp Hr Ho. destruct (scalar_py p) eqn:Sp.
      - pose proof (fits_scalar _ _ _ _ Sp Hp) as Ht. rewrite (elem_scalar _ _ _ _ Sp) in Hr.
        assert (E : elem_to_json (to_dict cs false sc) sc t p y = scalar_to_json sc t p y)
          by (destruct t, y; try discriminate Hr; reflexivity).
        rewrite E. apply atom_dumpsable. apply scalar_atom; assumption.
      - pose proof (fits_message _ _ _ _ Sp Hp) as ->.
        destruct p; try discriminate Sp; destruct y as [| | | | | | | | | | |o]; try discriminate Hr; try reflexivity.
        destruct (in_range_obj sc c o Hr) as [_ Hio]. cbn [elem_to_json]. exact (IHo o Hs Hio Ho).
    Qed.

    Lemma key_dumps kt k x : map_key_ok kt = true -> scalar_in_range kt k = true -> dumpsable x = true ->
      entry_ok (raw_json k, x) = true.
    Proof. intros Hk Hr Hx. destruct kt; try discriminate Hk; destruct k; try discriminate Hr; exact Hx. Qed.

    Lemma field_dumps ng f sel x j :
      wf_field sc ng f = true -> (pv_size x < n)%nat -> x <> PPlaceholder ->
      value_ok sc f x = true -> oneof_deep sc x = true ->
      field_to_json (to_dict cs false sc) sc false f sel x = Some j -> dumpsable j = true.
    Proof.
      intros W Hs Hx Hv Ho Hj.
      destruct f as [name num t mp grp wr op hint ent].
      unfold wf_field in W. cbn [fnum fgroup fhint fopt fwraps fmap fty] in W. fold nc ne in W.
      apply andb_prop in W as [_ Wh].
      unfold value_ok in Hv. cbn [fhint fty fwraps fmap] in Hv.
      unfold field_to_json in Hj. cbn [fty fwraps fhint fmap fopt hint_elem] in Hj.
      destruct hint as [p|p|p|pk p]; cbn [hint_elem fhint] in Hj.
      - apply andb_true5 in Wh as [Wop [Wwr [Wmp [Wt Wp]]]].
        apply negb_true in Wop. apply is_some'_false in Wwr. apply is_some'_false in Wmp. subst op wr mp.
        assert (Hr : elem_in_range sc t p x = true) by (destruct x; try discriminate Hv; try congruence; exact Hv).
        pose proof (elem_dumps t p x Hs Wp Hr Ho) as D.
        destruct (scalar_py p) eqn:Sp.
        + pose proof (fits_scalar _ _ _ _ Sp Wp) as Ht. destruct (scalar_not_message t Ht) as [Nm Np].
          rewrite Nm, Np in Hj. rewrite (elem_scalar _ _ _ _ Sp) in Hr.
          destruct (negb (is_default sc _ x) || (false || match sel with Some true => true | _ => false end)); [|discriminate Hj].
          assert (E : j = scalar_to_json sc t p x) by (destruct x; try discriminate Hr; destruct t; try discriminate Hr; inversion Hj; reflexivity).
          subst j. apply atom_dumpsable. apply scalar_atom; assumption.
        + pose proof (fits_message _ _ _ _ Sp Wp) as ->. change (ptype_eqb TMessage TMessage) with true in Hj. cbv iota in Hj.
          assert (E : j = elem_to_json (to_dict cs false sc) sc TMessage p x).
          { destruct p; try discriminate Sp; destruct x; try discriminate Hr; cbn [elem_to_json];
              apply emit_some in Hj as [_ Hj]; symmetry; exact Hj. }
          subst j. exact D.
      - destruct wr as [w|].
        + apply andb_prop in Wh as [_ Wrest]. apply andb_prop in Wrest as [Wrest Wfit]. apply andb_prop in Wrest as [Wrest Wcls].
          apply andb_prop in Wrest as [_ Wt]. apply ptype_eqb_eq in Wt. subst t.
          destruct (wrapper_value_type w) as [vt|] eqn:Ev; [|discriminate Wfit].
          pose proof (wrapper_same w vt Ev) as Evt. subst vt.
          pose proof (wrapper_scalar w Wcls) as Ht. pose proof (fits_scalar_py _ _ _ _ Ht Wfit) as Sp.
          change (ptype_eqb TMessage TMessage) with true in Hj. cbv iota in Hj.
          destruct x; try congruence; try (cbn [emit] in Hj; discriminate Hj);
            rewrite (elem_scalar _ _ _ _ Sp) in Hv; try (destruct w; discriminate Hv).
          all: inversion Hj; subst j; apply atom_dumpsable; apply scalar_atom; assumption.
        + apply andb_prop in Wh as [_ Wrest]. apply andb_prop in Wrest as [Wrest Wp]. apply andb_prop in Wrest as [Wop Wt]. subst op.
          destruct (scalar_py p) eqn:Sp.
          * pose proof (fits_scalar _ _ _ _ Sp Wp) as Ht. destruct (scalar_not_message t Ht) as [Nm Np].
            rewrite Nm, Np in Hj.
            destruct (negb (is_default sc _ x) || (false || match sel with Some true => true | _ => false end)); [|discriminate Hj].
            destruct x; try congruence; try (inversion Hj; subst j; reflexivity);
              rewrite (elem_scalar _ _ _ _ Sp) in Hv; try (destruct t; discriminate Hv).
            all: inversion Hj; subst j; apply atom_dumpsable; apply scalar_atom; assumption.
          * pose proof (fits_message _ _ _ _ Sp Wp) as ->. change (ptype_eqb TMessage TMessage) with true in Hj. cbv iota in Hj.
            destruct x; try congruence; try (cbn in Hj; discriminate Hj); try (destruct p; discriminate Hv).
            all: match goal with |- _ =>
                   match type of Hs with (pv_size ?v < n)%nat =>
                     pose proof (elem_dumps TMessage p v Hs Wp Hv Ho) as D;
                     assert (E : j = elem_to_json (to_dict cs false sc) sc TMessage p v)
                       by (destruct p; try discriminate Sp; try discriminate Hv; cbn [elem_to_json];
                           apply emit_some in Hj as [_ Hj]; symmetry; exact Hj);
                     subst j; exact D
                   end
                 end.
      - apply andb_prop in Wh as [Wh Wp]. apply andb_prop in Wh as [Wh Wt]. apply andb_prop in Wh as [Wh Wgrp].
        apply andb_prop in Wh as [Wh Wmp]. apply andb_prop in Wh as [Wop Wwr].
        apply negb_true in Wop. apply is_some'_false in Wwr. apply is_some'_false in Wmp. subst op wr mp.
        destruct x as [| | | | | | | | |l| |]; try discriminate Hv; try congruence.
        cbv beta iota in Hv. rewrite all_list_forallb in Hv. rewrite forallb_forall in Hv.
        unfold oneof_deep in Ho. cbn [pv_all] in Ho. rewrite forallb_forall in Ho.
        assert (Sz : forall y, In y l -> (pv_size y < n)%nat)
          by (intros y Hy; rewrite size_list in Hs; pose proof (in_sum_size y l Hy); lia).
        destruct (scalar_py p) eqn:Sp.
        + pose proof (fits_scalar _ _ _ _ Sp Wp) as Ht. destruct (scalar_not_message t Ht) as [Nm Np].
          rewrite Nm, Np in Hj.
          destruct (negb (is_default sc _ (PList l)) || (false || match sel with Some true => true | _ => false end)); [|discriminate Hj].
          inversion Hj; subst j. cbn [dumpsable]. rewrite forallb_forall. intros j' Hj'. apply in_map_iff in Hj' as [y [<- Hy]].
          apply atom_dumpsable. apply scalar_atom; try assumption. rewrite <- (elem_scalar sc t p y Sp). apply Hv, Hy.
        + pose proof (fits_message _ _ _ _ Sp Wp) as ->. change (ptype_eqb TMessage TMessage) with true in Hj. cbv iota in Hj.
          apply emit_some in Hj as [_ Hj]. subst j. cbn [dumpsable]. rewrite forallb_forall. intros j' Hj'.
          apply in_map_iff in Hj' as [y [<- Hy]]. apply elem_dumps; [apply Sz, Hy|exact Wp|apply Hv, Hy|apply Ho, Hy].
      - apply andb_prop in Wh as [Wh _]. apply andb_prop in Wh as [Wh Wmap]. apply andb_prop in Wh as [Wh Wt].
        apply ptype_eqb_eq in Wt. subst t.
        destruct mp as [[kt vt]|]; [|discriminate Wmap].
        apply andb_prop in Wmap as [Wmap Wv]. apply andb_prop in Wmap as [Wmap _]. apply andb_prop in Wmap as [Wkey _].
        destruct x as [| | | | | | | | | |d|]; try discriminate Hv; try congruence.
        cbv beta iota in Hv. rewrite all_dict_forallb in Hv. rewrite forallb_forall in Hv.
        unfold oneof_deep in Ho. cbn [pv_all] in Ho. rewrite forallb_forall in Ho.
        change (ptype_eqb TMap TMessage) with false in Hj. change (ptype_eqb TMap TMap) with true in Hj. cbv iota in Hj.
        apply emit_some in Hj as [_ Hj]. subst j. rewrite dumpsable_obj. rewrite forallb_forall. intros e He.
        apply in_map_iff in He as [[k y] [<- Hy]].
        specialize (Hv _ Hy). cbn [fst snd] in Hv. apply andb_prop in Hv as [Hk Hy'].
        apply (key_dumps kt); [exact Wkey|exact Hk|].
        apply elem_dumps; [|exact Wv|exact Hy'|exact (Ho _ Hy)].
        rewrite size_dict in Hs. pose proof (in_sum_size_d k y d Hy). lia.
    Qed.

    Lemma items_dumps cur ng raw : forall fs i,
      forallb (wf_field sc ng) fs = true -> fields_ok sc raw fs = true -> forallb (oneof_deep sc) raw = true ->
      oneof_loop cur i raw fs = true -> (forall x, In x raw -> (pv_size x < n)%nat) ->
      forallb (fun kj => dumpsable (snd kj)) (td_items cs sc cur i raw fs) = true.
    Proof.
      induction raw as [|x raw IH]; intros fs i W F G O S; [reflexivity|]. destruct fs as [|f fs]; [reflexivity|].
      cbn [forallb] in W, G. apply andb_prop in W as [W1 W2]. apply andb_prop in G as [G1 G2].
      cbn [fields_ok] in F. apply andb_prop in F as [F1 F2]. cbn [oneof_loop] in O. apply andb_prop in O as [O1 O2].
      cbn [td_items]. rewrite forallb_app. rewrite (IH fs (Datatypes.S i) W2 F2 G2 O2 (fun y Hy => S y (or_intror Hy))), andb_true_r.
      assert (Sx : (pv_size x < n)%nat) by (apply S; left; reflexivity).
      destruct (group_selects cur f i) as [[|]|] eqn:Gs; cbv zeta.
      - assert (Hx : x <> PPlaceholder) by (intros ->; discriminate O1).
        rewrite (not_ph x _ _ Hx).
        destruct (field_to_json (to_dict cs false sc) sc false f (Some true) x) as [j|] eqn:E; [|reflexivity].
        cbn [forallb snd]. rewrite (field_dumps ng f (Some true) x j W1 Sx Hx F1 G1 E). reflexivity.
      - reflexivity.
      - destruct (pv_eq_dec_ph x) as [->|Hx].
        + rewrite (default_not_emitted _ sc ng f None W1) by discriminate. reflexivity.
        + rewrite (not_ph x _ _ Hx).
          destruct (field_to_json (to_dict cs false sc) sc false f None x) as [j|] eqn:E; [|reflexivity].
          cbn [forallb snd]. rewrite (field_dumps ng f None x j W1 Sx Hx F1 G1 E). reflexivity.
    Qed.
  End Step.

  Lemma dumps_n : forall n o, (pv_size (PMsg o) < n)%nat -> in_range sc o = true -> oneof_deep sc (PMsg o) = true ->
    dumpsable (to_dict cs false sc o) = true.
  Proof.
    induction n as [|n IHn]; intros o Hs Hr Ho; [lia|].
    destruct o as [c raw s u g].
    destruct (in_range_unfold _ _ _ _ _ _ Hr) as [_ [_ F]].
    unfold oneof_deep in Ho. rewrite pv_all_msg in Ho. apply andb_prop in Ho as [Hone Hsub].
    rewrite local_oneof_unfold in Hone.
    rewrite to_dict_unfold, dumpsable_obj. apply dict_norm_ok.
    apply (items_dumps n IHn g (cngroups (get_class sc c))); try assumption.
    - exact (wf_fields sc c WF).
    - intros x Hx. rewrite size_msg in Hs. pose proof (in_sum_size x raw Hx). lia.
  Qed.

  Theorem dumps_total o : in_range sc o = true -> oneof_ok sc o = true -> dumpsable (to_dict cs false sc o) = true.
  Proof. intros Hr Ho. exact (dumps_n (S (pv_size (PMsg o))) o (Nat.lt_succ_diag_r _) Hr Ho). Qed.
End Dumps.
