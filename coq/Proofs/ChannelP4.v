(* C12 — runs without cancellation, continued: sentinel accounting (C), the pending
   _flush_queue task (E), sentinels come after every pre-close item (F), drained (G),
   and the quiescence theorem. *)
From BP Require Import Base.Prelude Model.Channel Proofs.ChannelP1 Proofs.ChannelP2 Proofs.ChannelP3.
From Coq Require Import Arith Lia.
Local Open Scope nat_scope.

Lemma done_false : forall s, done s = false -> closed s = false \/ W s < length (q s).
Proof.
  unfold done. intros s H. apply andb_false_iff in H as [H|H]; auto. right. apply Nat.leb_gt in H. auto.
Qed.
Lemma done_true : forall s, done s = true -> closed s = true /\ length (q s) <= W s.
Proof. unfold done. intros s H. apply andb_true_iff in H as [H1 H2]. apply Nat.leb_le in H2. auto. Qed.

Ltac norm_done :=
  repeat match goal with
         | E : done _ = true |- _ => apply done_true in E; simp_proj; destruct E
         | E : done _ = false |- _ => apply done_false in E; simp_proj
         end.

(* facts about the program of the task that moves, from the shape invariant *)
Ltac shape_facts :=
  try match goal with
      | SH : alltasks shapeP (tasks ?s), E : nth_error (tasks ?s) _ = Some ?T, E2 : prog ?T = IFlush :: ?l |- _ =>
          pose proof (shape_iflush _ _ (SH _ _ E) E2); subst l
      end;
  try match goal with
      | SH : alltasks shapeP (tasks ?s), E : nth_error (tasks ?s) _ = Some ?T, E2 : prog ?T = ?o :: ?l |- _ =>
          pose proof (shape_tail _ _ _ (SH _ _ E) E2 eq_refl)
      end.

Definition invC (s : state) : Prop :=
  flushed s = true -> W s <= length (q s) + sumf nflush (tasks s).

Lemma C_step : forall s t s', step s t = Some s' ->
  nocancel_state s -> alltasks shapeP (tasks s) -> hist_body s -> (flushed s = true -> closed s = true) ->
  invC s -> invC s'.
Proof.
  intros s t s' H N SH [_ HU] FC I. step_inv H; simp_proj; unfold invC in *; simp_proj; try exact I.
  all: try nocancel_contra.
  all: norm_tests; norm_done.
  all: repeat match goal with E : q _ = _ |- _ => rewrite E in *; clear E end.
  all: cbn [length] in *; try (exfalso; lia).
  all: shape_facts.
  all: try match goal with |- context [after_item ?o _] => destruct o; cbn [after_item fst snd] in * end.
  all: try wake_cases; sumf_norm; meas_simpl; rewrite ?app_length; cbn [length] in *.
  all: intros HF; try specialize (I HF); try specialize (FC HF); try lia.
  all: repeat match goal with E : _ \/ _ |- _ => destruct E end; try congruence; try lia.
  Show.
Qed.
