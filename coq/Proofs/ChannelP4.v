(* C12 — runs without cancellation, continued: sentinel accounting (C), the pending
   _flush_queue task (E), sentinels come after every pre-close item (F), drained (G),
   and the quiescence theorem. *)
From BP Require Import Base.Prelude Model.Channel Proofs.ChannelP1 Proofs.ChannelP2 Proofs.ChannelP3.
From Coq Require Import Arith Lia.
Local Open Scope nat_scope.

Lemma done_false : forall s, done s = false -> closed s = false \/ W s < length (q s).
Proof.
  unfold done. intros s H. apply andb_false_iff in H as [H|H]; auto. right. apply Nat.leb_gt in H. auto.
Qed.
Lemma done_true : forall s, done s = true -> closed s = true /\ length (q s) <= W s.
Proof. unfold done. intros s H. apply andb_true_iff in H as [H1 H2]. apply Nat.leb_le in H2. auto. Qed.

Ltac norm_done :=
  repeat match goal with
         | E : done _ = true |- _ => apply done_true in E; simp_proj; destruct E
         | E : done _ = false |- _ => apply done_false in E; simp_proj
         end.

(* facts about the program of the task that moves, from the shape invariant *)
Ltac shape_facts :=
  try match goal with
      | SH : alltasks shapeP (tasks ?s), E : nth_error (tasks ?s) _ = Some ?T, E2 : prog ?T = IFlush :: ?l |- _ =>
          pose proof (shape_iflush _ _ (SH _ _ E) E2); subst l
      end;
  try match goal with
      | SH : alltasks shapeP (tasks ?s), E : nth_error (tasks ?s) _ = Some ?T, E2 : prog ?T = ?o :: ?l |- _ =>
          pose proof (shape_tail _ _ _ (SH _ _ E) E2 eq_refl)
      end.

Definition invC (s : state) : Prop :=
  flushed s = true -> W s <= length (q s) + sumf nflush (tasks s).

Lemma C_step : forall s t s', step s t = Some s' ->
  nocancel_state s -> alltasks shapeP (tasks s) -> hist_body s -> (flushed s = true -> closed s = true) ->
  invC s -> invC s'.
Proof.
  intros s t s' H N SH [_ HU] FC I. step_inv H; simp_proj; unfold invC in *; simp_proj; try exact I.
  all: try nocancel_contra.
  all: norm_tests; norm_done.
  all: repeat match goal with E : q _ = _ |- _ => rewrite E in *; clear E end.
  all: cbn [length] in *; try (exfalso; lia).
  all: shape_facts.
  all: try match goal with |- context [after_item ?o _] => destruct o; cbn [after_item fst snd] in * end.
  all: try wake_cases; sumf_norm; meas_simpl; rewrite ?app_length; cbn [length] in *.
  all: intros HF; try specialize (I HF); try specialize (FC HF); try lia.
  all: repeat match goal with E : _ \/ _ |- _ => destruct E end; try congruence; try lia.
Qed.

Definition invE (s : state) : Prop :=
  closed s = true -> flushed s = true \/ sumf pending_flush (tasks s) >= 1.

Lemma E_step : forall s t s', step s t = Some s' -> nocancel_state s -> invE s -> invE s'.
Proof.
  intros s t s' H N I. step_inv H; simp_proj; unfold invE in *; simp_proj; try exact I.
  all: try nocancel_contra.
  all: try (intros _; left; reflexivity).
  all: try match goal with |- context [after_item ?o _] => destruct o; cbn [after_item fst snd] in * end.
  all: try wake_cases; sumf_norm; meas_simpl.
  all: intros HC; try (destruct (I HC) as [HF|HP]; [left; exact HF|right; lia]).
  all: try (right; lia).
  all: left; assumption.
Qed.

(* ---- F: every sentinel is behind all the items sent before close() ---- *)
Definition invF (s : state) : Prop :=
  has_flush (q s) = true -> npre s <= length (recv s) + nf (q s).

Lemma nf_app_noflush : forall a b, has_flush a = false -> nf (a ++ b) = length a + nf b.
Proof.
  induction a as [|x a IH]; intros b H; cbn in *; auto. destruct x; cbn in *; [|discriminate].
  rewrite IH; auto.
Qed.
Lemma nf_app_flush : forall a b, has_flush a = true -> nf (a ++ b) = nf a.
Proof.
  induction a as [|x a IH]; intros b H; cbn in *; [discriminate|]. destruct x; cbn in *; auto.
Qed.
Lemma reals_noflush : forall a, has_flush a = false -> reals a = a.
Proof.
  induction a as [|x a IH]; intros H; cbn in *; auto. destruct x; cbn in *; [|discriminate]. f_equal. apply IH; auto.
Qed.

Lemma F_step : forall s t s', step s t = Some s' ->
  hist_body s -> (closed s = true -> npre s <= length (sent s)) ->
  (flushed s = true -> closed s = true) -> (flushed s = false -> sumf nflush (tasks s) = 0) ->
  (has_flush (q s) = true -> flushed s = true) ->
  invF s -> invF s'.
Proof.
  intros s t s' H [HS HU] NP FC NFl HFl I. step_inv H; simp_proj; unfold invF in *; simp_proj; try exact I.
  all: try (rewrite has_flush_app; destruct (has_flush (q s)) eqn:EH;
            [ rewrite nf_app_flush by auto; intros _; apply I; reflexivity
            | rewrite nf_app_noflush by auto; cbn [has_flush existsb is_real negb orb nf]; try (intros HF; discriminate HF) ]).
  all: repeat match goal with E : q _ = _ |- _ => rewrite E in *; clear E end.
  all: cbn [has_flush existsb is_real negb orb nf length] in *; rewrite ?app_length; cbn [length].
  all: try (exfalso; lia).
  all: try (intros HF; specialize (I HF); lia).
  all: try (intros HF; specialize (I eq_refl); lia).
  all: try (intros HF; specialize (FC (HFl HF)); congruence).
  (* the first sentinel goes in: everything sent before close() is already in recv ++ q *)
  all: intros _.
  all: assert (HFd : flushed s = true) by
       (destruct (flushed s) eqn:EF; auto; exfalso; specialize (NFl eq_refl);
        match goal with E : nth_error (tasks _) _ = Some _ |- _ => pose proof (sumf_nth nflush _ _ _ E) as KK end;
        meas_simpl; lia).
  all: specialize (NP (FC HFd)); rewrite HS, app_length in NP; unfold received in NP; rewrite map_length in NP;
       rewrite (reals_noflush _ EH) in NP; lia.
Qed.

