(* C16, float clause, part 5: struct.pack("<f") (Model/Float.v d2f) on a finite double IS the IEEE 754
   conversion binary64 -> binary32 in round-to-nearest-even:  the value written is
   round radix2 (FLT_exp (-149) 24) ZnearestE x  (Flocq's rounding into the binary32 format with unbounded
   exponent range upward), with the sign of x also when the result is zero, and d2f raises (None) exactly
   when that rounded value reaches 2^128 - which is what C's (float)x followed by CPython's
   "isinf(y) && !isinf(x) -> OverflowError" test does (floatobject.c PyFloat_Pack4). *)
From Coq Require Import ZArith Reals List Bool Lia Lra ZifyBool.
From Flocq Require Import Core IEEE754.Binary IEEE754.Bits.
From BP Require Import Base.Prelude Model.Float Proofs.C01Float.
From BP Require Import Proofs.C16FlocqBits Proofs.C16FlocqWiden Proofs.C16FlocqRound Proofs.C16FlocqNarrowZ.
Open Scope Z_scope.

Notation fexp32 := (FLT_exp (-149) 24).

(* ---- rounding the magnitude ---- *)
Lemma round_magnitude b :
  0 <= b < 2 ^ 64 -> f64_exp b <> 2047 ->
  round radix2 fexp32 ZnearestE (F2R (Float radix2 (f64_sig b) (f64_ex b)))
  = F2R (Float radix2 (narrow_q b) (narrow_c b)).
Proof.
  intros Hb Hfin. unfold narrow_q, narrow_c, f64_sig, f64_ex.
  pose proof (exp_range b) as He. pose proof (man_range b) as Hm.
  set (e := f64_exp b) in *. set (m := f64_man b) in *. clearbody e m.
  destruct (e =? 0) eqn:E0.
  - destruct (Z.eq_dec m 0) as [-> | Hm0].
    + rewrite !F2R_0. apply round_0. apply valid_rnd_N.
    + (* binary64 subnormal: rounds to 0 *)
      assert (Hc : cexp radix2 fexp32 (F2R (Float radix2 m (-1074))) = -1074 + 925).
      { unfold cexp. rewrite mag_F2R_Zdigits by lia.
        assert (Hd : Zdigits radix2 m <= 52) by (apply Zdigits_le_Zpower; rewrite Z.abs_eq by lia; exact (proj2 Hm)).
        unfold FLT_exp. lia. }
      rewrite (round_NE_shift fexp32 m (-1074) 925) by (try exact Hc; lia).
      rewrite rne_shift_small; [reflexivity | lia | lia |].
      apply Z.lt_le_trans with (2 ^ 52); [lia|]. apply Z.pow_le_mono_r; lia.
  - assert (HM : 2 ^ (53 - 1) <= 2 ^ 52 + m < 2 ^ 53) by (change (53 - 1) with 52; pw2; lia).
    assert (Hmag : (mag radix2 (F2R (Float radix2 (2 ^ 52 + m) (e - 1075))) : Z) = 53 + (e - 1075))
      by (apply mag_F2R_digits; [exact HM | pw2; lia]).
    destruct (e - 1023 <? -126) eqn:E3.
    + assert (Hc : cexp radix2 fexp32 (F2R (Float radix2 (2 ^ 52 + m) (e - 1075))) = e - 1075 + (926 - e)).
      { unfold cexp. rewrite Hmag. unfold FLT_exp. lia. }
      rewrite (round_NE_shift fexp32 _ _ (926 - e)) by (try exact Hc; pw2; lia).
      f_equal. f_equal. lia.
    + assert (Hc : cexp radix2 fexp32 (F2R (Float radix2 (2 ^ 52 + m) (e - 1075))) = e - 1075 + 29).
      { unfold cexp. rewrite Hmag. unfold FLT_exp. lia. }
      rewrite (round_NE_shift fexp32 _ _ 29) by (try exact Hc; pw2; lia).
      f_equal. f_equal. lia.
Qed.

Lemma F2R_sgn s m e : (s = 0 \/ s = 1) ->
  F2R (Float radix2 (sgn s m) e) = if s =? 0 then F2R (Float radix2 m e) else (- F2R (Float radix2 m e))%R.
Proof. intros [-> | ->]; unfold sgn; cbn [Z.eqb]; [reflexivity | apply F2R_Zopp]. Qed.

(* ---- what a pattern returned by d2f denotes ---- *)
Lemma denotes32_R w q c : denotes32 w q c ->
  F2R (Float radix2 (f32_sig w) (f32_ex w)) = F2R (Float radix2 q c) /\
  (F2R (Float radix2 q c) < bpow radix2 128)%R.
Proof.
  intros (Hc & Hq & Hsig & Hex).
  assert (E : F2R (Float radix2 (f32_sig w) (f32_ex w)) = F2R (Float radix2 q c)).
  { rewrite (F2R_shift (f32_sig w) (f32_ex w) c Hc). rewrite Hq. reflexivity. }
  split; [exact E|]. rewrite <- E.
  apply Rle_lt_trans with (1 := RRle_abs _).
  apply F2R_lt_bpow. cbn [Fnum Fexp]. rewrite Z.abs_eq by lia.
  apply Z.lt_le_trans with (2 ^ 24); [lia|].
  change (radix_val radix2) with 2. apply Z.pow_le_mono_r; lia.
Qed.

Lemma overflow_R q c q' c' :
  2 ^ 23 <= q' -> 105 <= c' -> c <= c' -> q = q' * 2 ^ (c' - c) ->
  (bpow radix2 128 <= F2R (Float radix2 q c))%R.
Proof.
  intros Hq' Hc' Hc Hq. rewrite Hq. rewrite <- (F2R_shift q' c' c Hc).
  apply Rle_trans with (F2R (Float radix2 (2 ^ 23) c')).
  - replace (F2R (Float radix2 (2 ^ 23) c')) with (bpow radix2 (23 + c')).
    + apply bpow_le. lia.
    + unfold F2R. cbn [Fnum Fexp]. rewrite bpow_plus. f_equal.
  - apply F2R_le. exact Hq'.
Qed.

(* ---- the main theorem, on fields ---- *)
Lemma d2f_rounds b :
  0 <= b < 2 ^ 64 -> f64_exp b <> 2047 ->
  let r := round radix2 fexp32 ZnearestE (f64_R b) in
  ((Rabs r < bpow radix2 128)%R ->
     exists w, d2f b = Some w /\ 0 <= w < 2 ^ 32 /\ f32_exp w <> 255 /\ f32_sign w = f64_sign b /\ f32_R w = r) /\
  ((bpow radix2 128 <= Rabs r)%R -> d2f b = None).
Proof.
  intros Hb Hfin r.
  pose proof (sign_cases b Hb) as Hs.
  pose proof (round_magnitude b Hb Hfin) as Hround.
  destruct (d2f_shape b Hb Hfin) as [Hq0 Hshape].
  set (a := F2R (Float radix2 (f64_sig b) (f64_ex b))) in *.
  set (ra := F2R (Float radix2 (narrow_q b) (narrow_c b))) in *.
  assert (Hra0 : (0 <= ra)%R) by (apply F2R_ge_0; exact Hq0).
  assert (Hr : r = if f64_sign b =? 0 then ra else (- ra)%R).
  { unfold r, f64_R. rewrite F2R_sgn by exact Hs. fold a.
    destruct (f64_sign b =? 0); [exact Hround|]. rewrite round_NE_opp. f_equal. exact Hround. }
  assert (Habs : Rabs r = ra).
  { rewrite Hr. destruct (f64_sign b =? 0); [|rewrite Rabs_Ropp]; apply Rabs_pos_eq; exact Hra0. }
  rewrite Habs.
  destruct Hshape as [(w & Hd & Hw & Hfw & Hsw & Hden) | (Hd & q' & c' & H1 & H2 & H3 & H4)].
  - destruct (denotes32_R w _ _ Hden) as [E Hlt]. fold ra in E, Hlt.
    split.
    + intros _. exists w. repeat split; try assumption; try lia.
      unfold f32_R. rewrite Hsw. rewrite F2R_sgn by exact Hs. rewrite E, Hr. reflexivity.
    + intros Hge. exfalso. lra.
  - pose proof (overflow_R _ _ q' c' H1 H2 H3 H4) as Hge. fold ra in Hge.
    split.
    + intros Hlt. exfalso. lra.
    + intros _. exact Hd.
Qed.

(* (2) in Flocq's vocabulary *)
Theorem d2f_correctly_rounded b :
  0 <= b < 2 ^ 64 -> Z.land (Z.shiftr b 52) 2047 <> 2047 ->
  let x := B2R 53 1024 (b64_of_bits b) in
  let r := round radix2 (FLT_exp (-149) 24) ZnearestE x in
  ((Rabs r < bpow radix2 128)%R ->
     exists w, d2f b = Some w /\ 0 <= w < 2 ^ 32 /\
               is_finite 24 128 (b32_of_bits w) = true /\
               B2R 24 128 (b32_of_bits w) = r /\
               Bsign 24 128 (b32_of_bits w) = Bsign 53 1024 (b64_of_bits b) /\
               Z.shiftr w 31 = Z.shiftr b 63) /\
  ((bpow radix2 128 <= Rabs r)%R -> d2f b = None).
Proof.
  intros Hb Hfin x r. fold (f64_exp b) in Hfin.
  destruct (b64_finite_all b Hb Hfin) as (B1 & B2 & B3).
  destruct (d2f_rounds b Hb Hfin) as [HS HN].
  unfold r, x. rewrite B1. split; [|exact HN].
  intros Hlt. destruct (HS Hlt) as (w & Hd & Hw & Hfw & Hsw & HR).
  destruct (b32_finite_all w Hw Hfw) as (A1 & A2 & A3).
  exists w. rewrite A1, A2, A3, B3, Hsw. repeat split; try assumption; lia.
Qed.
