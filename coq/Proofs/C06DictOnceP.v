(* C06: "emitted as exactly one record" (Model/C06Dict.v emitted_once_in) after each of the four ways of setting:
   constructor, attribute assignment, parse, from_dict (class and instance form).  Each is the corresponding
   emitted_in theorem composed with Proofs/C06DictFinalP.v emitted_once. *)
From BP Require Import Base.Prelude Model.Types Model.Varint Model.Object Model.Eq Model.Encode Model.Decode.
From BP Require Import Model.WellFormed Model.Json Model.C06Obs Model.C06Dict.
From BP Require Import gen.Tables Spec.Varint Spec.C06Wire.
From BP Require Import Proofs.C06SpecP Proofs.C06LoopP Proofs.C06EncP Proofs.C06StoreP Proofs.C06DecP Proofs.C06PresP Proofs.C06WaysP Proofs.C06FinalP.
From BP Require Import Proofs.C06DictKwP Proofs.C06DictStateP Proofs.C06DictClsP Proofs.C06DictInstP Proofs.C06DictRecP Proofs.C06DictFinalP.
From Coq Require Import Lia.

Lemma scalar_in_range_not_msg t x : scalar_in_range t x = true -> forall o, x <> PMsg o.
Proof. intros H o ->. destruct t; discriminate H. Qed.

Lemma one_record_kind_marked sc f x : one_record_kind f x -> one_record_kind f (marked sc x).
Proof.
  intros [H|[Hw Hr]]; [left; exact H|right]. split; [exact Hw|].
  rewrite marked_scalar by (eapply scalar_in_range_not_msg; exact Hr). exact Hr.
Qed.

(* ---- way 1: the constructor ---- *)
Theorem once_after_construct sc c kw i f o :
  wf_schema sc = true ->
  nth_error (cfields (get_class sc c)) i = Some f -> explicit_field f ->
  o = construct sc c kw ->
  is_value (raw_at o i) -> singular_value (raw_at o i) ->
  (forall g, fgroup f = Some g ->
     forall k f', (i < k)%nat -> nth_error (cfields (get_class sc c)) k = Some f' -> fgroup f' = Some g ->
                  is_sentinel f' (raw_at o k) = true) ->
  one_record_kind f (raw_at o i) ->
  emitted_once_in sc o i f.
Proof.
  intros W Hf He Eo Hv Hs Hlater Hk.
  destruct (emit_after_construct sc c kw i f o W Hf He Eo Hv Hs Hlater) as [Em Hsel].
  apply emitted_once; try assumption.
  unfold fields_of. rewrite Eo. exact Hf.
Qed.

(* ---- way 2: attribute assignment ---- *)
Theorem once_after_setattr sc o i f v :
  wf_schema sc = true ->
  nth_error (fields_of sc o) i = Some f ->
  length (oraw o) = length (fields_of sc o) -> length (ocur o) = cngroups (get_class sc (ocls o)) ->
  explicit_field f -> is_value v -> singular_value v -> one_record_kind f v ->
  emitted_once_in sc (setattr sc o i v) i f.
Proof.
  intros W Hf Hl Hc He Hv Hs Hk.
  destruct (emit_after_setattr sc o i f v W Hf Hl Hc He Hv Hs) as [Em Hsel].
  pose proof (wf_field_of sc (ocls o) f W (nth_error_In _ _ Hf)) as Wf.
  assert (Hgl : forall g, fgroup f = Some g -> (g < length (ocur o))%nat).
  { intros g G. rewrite Hc. eapply wf_group_lt; eassumption. }
  pose proof (setattr_effect sc o i f v Hf Hl Hgl) as E.
  apply emitted_once; try assumption.
  - rewrite (effect_fields _ _ _ _ _ _ E). exact Hf.
  - rewrite (ef_here _ _ _ _ _ _ E). apply marked_value. exact Hv.
  - rewrite (ef_here _ _ _ _ _ _ E). apply marked_singular. exact Hs.
  - rewrite (ef_here _ _ _ _ _ _ E). apply one_record_kind_marked. exact Hk.
Qed.

(* ---- way 3: parse ---- *)
Theorem once_after_parse_optional sc c bs rs m j f :
  wf_schema sc = true -> std_builtins_b sc = true ->
  is_records rs bs -> parse sc c bs = Ok m ->
  nth_error (cfields (get_class sc c)) j = Some f -> optional_like f ->
  has_record f rs = true -> one_record_kind f (raw_at m j) ->
  emitted_once_in sc m j f.
Proof.
  intros W Sb Hrs Hp Hf Hol Hr Hk.
  pose proof (emit_after_parse_optional sc c bs rs m j f W Sb Hrs Hp Hf Hol Hr) as Em.
  destruct (parse_presence sc c bs rs m W Sb Hrs Hp) as ((I1 & _ & _) & G & C).
  pose proof (wf_field_of sc c f W (nth_error_In _ _ Hf)) as Wf.
  assert (Hs : singular_hint (fhint f) = true) by (eapply explicit_field_singular; [exact Wf|left; exact Hol]).
  assert (Hfm : nth_error (fields_of sc m) j = Some f) by (unfold fields_of; rewrite C; exact Hf).
  rewrite C in I1. destruct (I1 j f Hf (proj1 Hol) Hs) as [It _]. destruct (It Hr) as [Hv _].
  apply emitted_once; try assumption.
  - left. exact Hol.
  - intros g G'. destruct Hol as [Go _]. congruence.
  - eapply good_singular; eassumption.
Qed.

Theorem once_after_parse_oneof sc c bs rs m g i f :
  wf_schema sc = true -> std_builtins_b sc = true ->
  is_records rs bs -> parse sc c bs = Ok m ->
  nth_error (cfields (get_class sc c)) i = Some f ->
  last_member (get_class sc c) g rs = Some i -> one_record_kind f (raw_at m i) ->
  emitted_once_in sc m i f.
Proof.
  intros W Sb Hrs Hp Hf Hlast Hk.
  destruct (emit_after_parse_oneof sc c bs rs m g i f W Sb Hrs Hp Hf Hlast) as [Hsel Em].
  destruct (parse_presence sc c bs rs m W Sb Hrs Hp) as ((_ & I2 & I3) & G & C).
  pose proof (wf_field_of sc c f W (nth_error_In _ _ Hf)) as Wf.
  pose proof (last_member_in_group _ _ _ _ Hlast) as Hin.
  rewrite (in_group_spec _ g i f Hf) in Hin. apply opt_nat_eqb_eq in Hin.
  assert (Hfm : nth_error (fields_of sc m) i = Some f) by (unfold fields_of; rewrite C; exact Hf).
  assert (Hs : singular_hint (fhint f) = true) by (eapply explicit_field_singular; [exact Wf|right; eauto]).
  apply emitted_once; try assumption.
  - right. eauto.
  - intros g' G'. rewrite Hin in G'. injection G' as <-. exact Hsel.
  - eapply I3. exact Hsel.
  - eapply good_singular; eassumption.
Qed.

(* ---- way 4: from_dict ---- *)
Theorem once_from_dict_cls sc c kvs m i f v :
  wf_schema sc = true -> from_dict_cls sc c (JObj kvs) = Ok m ->
  nth_error (cfields (get_class sc c)) i = Some f -> explicit_field f ->
  dict_lookup (cfields (get_class sc c)) kvs i = Some v -> singular_json v = true ->
  (forall g, fgroup f = Some g ->
     forall k f', (i < k)%nat -> nth_error (cfields (get_class sc c)) k = Some f' -> fgroup f' = Some g ->
                  dict_lookup (cfields (get_class sc c)) kvs k = None) ->
  one_record_kind f (raw_at m i) ->
  emitted_once_in sc m i f.
Proof.
  intros W Hm Hf He Hv Sv Hlater Hk.
  destruct (emit_from_dict_cls sc c kvs m i f v W Hm Hf He Hv Sv Hlater) as (Em & _ & _ & Hsel & Mv & Ms).
  pose proof (cls_state_of _ _ _ _ Hm) as St.
  apply emitted_once; try assumption.
  unfold fields_of. rewrite (cs_cls _ _ _ _ St). exact Hf.
Qed.

Theorem once_from_dict_inst sc o kvs m i f v :
  wf_schema sc = true -> shape_ok sc o = true -> from_dict_inst sc o (JObj kvs) = Ok m ->
  nth_error (fields_of sc o) i = Some f -> explicit_field f ->
  dict_lookup (fields_of sc o) kvs i = Some v -> singular_json v = true ->
  (forall g, fgroup f = Some g ->
     exists pre post, given_order (fields_of sc o) kvs = pre ++ i :: post /\
                      forall k, In k post -> in_group (get_class sc (ocls o)) g k = false) ->
  one_record_kind f (raw_at m i) ->
  emitted_once_in sc m i f.
Proof.
  intros W Sh Hm Hf He Hv Sv Hord Hk.
  destruct (emit_from_dict_inst sc o kvs m i f v W Sh Hm Hf He Hv Sv Hord) as (Em & _ & _ & Hsel & Mv & Ms).
  pose proof (inst_state_of _ _ _ _ W Sh Hm) as St.
  apply emitted_once; try assumption.
  unfold fields_of. rewrite (is_cls _ _ _ _ St). exact Hf.
Qed.
