(* C19, part X7: the regex matcher of Spec/C19Regex.v commutes with any character map that respects the character
   sets of the pattern.  For EVERY regex of the subset: matching, searching and re.sub over the mapped subject run in
   lockstep with the original (same positions, captures mapped).  Used in X8 to pass from code points to bytes. *)
From BP Require Import Base.Prelude Spec.C19Regex.

Section Hom.
Context {A B : Type} (codeA : A -> N) (codeB : B -> N) (phi : A -> B).

Definition map_caps (caps : list (nat * list A)) : list (nat * list B) :=
  map (fun p => (fst p, map phi (snd p))) caps.
Definition map_st (s : mst A) : mst B := mk_mst (m_pos s) (map phi (m_rem s)) (map_caps (m_caps s)).

(* every character set of the pattern gives the same verdict on x and on phi x *)
Fixpoint cs_ok (r : re) : Prop :=
  match r with
  | REps | RBol => True
  | RSet c => forall x, in_cset codeA c x = in_cset codeB c (phi x)
  | RSeq a b | RAlt a b => cs_ok a /\ cs_ok b
  | RStar a | RPlus a | ROpt a | RGroup _ a | RNegLook a => cs_ok a
  end.

Definition krel (kA : K A) (kB : K B) : Prop := forall s, kB (map_st s) = option_map map_st (kA s).

Lemma star_hom (maA : mst A -> K A -> option (mst A)) (maB : mst B -> K B -> option (mst B))
  (H : forall s kA kB, krel kA kB -> maB (map_st s) kB = option_map map_st (maA s kA)) :
  forall fuel s kA kB, krel kA kB -> star maB fuel (map_st s) kB = option_map map_st (star maA fuel s kA).
Proof.
  induction fuel as [|fuel IH]; intros s kA kB R; cbn [star]; [apply R|].
  rewrite (H s (fun s' => if (length (m_rem s') <? length (m_rem s))%nat then star maA fuel s' kA else kA s')
             (fun s' => if (length (m_rem s') <? length (m_rem (map_st s)))%nat then star maB fuel s' kB else kB s')).
  - destruct (maA s _); cbn [option_map]; [reflexivity|apply R].
  - intros s'. cbn [map_st m_rem]. rewrite !map_length.
    destruct (length (m_rem s') <? length (m_rem s))%nat; [apply IH; exact R|apply R].
Qed.

Lemma m_hom r : cs_ok r -> forall s kA kB, krel kA kB ->
  m codeB r (map_st s) kB = option_map map_st (m codeA r s kA).
Proof.
  induction r as [|c| |a IHa b IHb|a IHa b IHb|a IHa|a IHa|a IHa|n a IHa|a IHa]; cbn [cs_ok]; intros C s kA kB R.
  - apply R.
  - cbn [m]. destruct s as [pos rem caps]. cbn [map_st m_rem m_pos m_caps]. destruct rem as [|x t]; [reflexivity|].
    cbn [map]. rewrite <- C. destruct (in_cset codeA c x); [|reflexivity].
    exact (R (mk_mst (S pos) t caps)).
  - cbn [m map_st m_pos]. destruct (m_pos s =? 0)%nat; [apply R|reflexivity].
  - cbn [m]. destruct C as [Ca Cb]. apply (IHa Ca). intros s'. apply (IHb Cb). exact R.
  - cbn [m]. destruct C as [Ca Cb]. rewrite (IHa Ca s kA kB R), (IHb Cb s kA kB R).
    destruct (m codeA a s kA); reflexivity.
  - cbn [m]. change (m_rem (map_st s)) with (map phi (m_rem s)). rewrite map_length.
    apply (star_hom (m codeA a) (m codeB a)); [intros; apply (IHa C); assumption|exact R].
  - cbn [m]. apply (IHa C). intros s'. change (m_rem (map_st s')) with (map phi (m_rem s')). rewrite map_length.
    apply (star_hom (m codeA a) (m codeB a)); [intros; apply (IHa C); assumption|exact R].
  - cbn [m]. rewrite (IHa C s kA kB R). destruct (m codeA a s kA); cbn [option_map]; [reflexivity|apply R].
  - cbn [m]. apply (IHa C). intros s'. cbn [map_st m_rem m_pos m_caps]. rewrite !map_length, firstn_map.
    exact (R (mk_mst (m_pos s') (m_rem s')
                     ((n, firstn (length (m_rem s) - length (m_rem s')) (m_rem s)) :: m_caps s'))).
  - cbn [m]. rewrite (IHa C s (fun s' => Some s') (fun s' => Some s')) by (intros s'; reflexivity).
    destruct (m codeA a s (fun s' => Some s')); cbn [option_map]; [reflexivity|apply R].
Qed.

Lemma match_here_hom r (C : cs_ok r) pos rem ma :
  match_here codeB r pos (map phi rem) ma = option_map map_st (match_here codeA r pos rem ma).
Proof.
  unfold match_here. apply (m_hom r C (mk_mst pos rem [])). intros s'. cbn [map_st m_rem]. rewrite !map_length.
  destruct (ma && (length (m_rem s') =? length rem)%nat); reflexivity.
Qed.

Definition map_found (x : list A * mst A) : list B * mst B := (map phi (fst x), map_st (snd x)).

Lemma search_hom r (C : cs_ok r) rem : forall pos ma,
  search codeB r pos (map phi rem) ma = option_map map_found (search codeA r pos rem ma).
Proof.
  induction rem as [|c t IH]; intros pos ma.
  - pose proof (match_here_hom r C pos [] ma) as E. cbn [map] in E. cbn [search map]. rewrite E.
    destruct (match_here codeA r pos [] ma); reflexivity.
  - pose proof (match_here_hom r C pos (c :: t) ma) as E. cbn [map] in E. cbn [search map]. rewrite E.
    destruct (match_here codeA r pos (c :: t) ma); [reflexivity|]. cbn [option_map]. rewrite IH.
    destruct (search codeA r (S pos) t false) as [[sk s']|]; reflexivity.
Qed.

Lemma sub_go_hom r (C : cs_ok r) replA replB (HR : forall caps, replB (map_caps caps) = map phi (replA caps)) :
  forall fuel pos rem ma,
  sub_go codeB r replB fuel pos (map phi rem) ma = map phi (sub_go codeA r replA fuel pos rem ma).
Proof.
  induction fuel as [|f IH]; intros pos rem ma; [reflexivity|]. cbn [sub_go]. rewrite (search_hom r C).
  destruct (search codeA r pos rem ma) as [[sk s']|]; cbn [option_map map_found fst snd]; [|reflexivity].
  cbn [map_st m_caps m_pos m_rem]. rewrite HR, !map_app, !map_length, IH. reflexivity.
Qed.

Lemma re_sub_hom r (C : cs_ok r) replA replB (HR : forall caps, replB (map_caps caps) = map phi (replA caps)) s :
  re_sub codeB r replB (map phi s) = map phi (re_sub codeA r replA s).
Proof. unfold re_sub. rewrite map_length. apply sub_go_hom; assumption. Qed.

Lemma group_map n caps : group n (map_caps caps) = option_map (map phi) (group n caps).
Proof.
  unfold group, map_caps. induction caps as [|p r IH]; [reflexivity|]. cbn [map find fst].
  destruct (fst p =? n)%nat; [reflexivity|exact IH].
Qed.

Lemma group_str_map n caps : group_str n (map_caps caps) = map phi (group_str n caps).
Proof. unfold group_str. rewrite group_map. destruct (group n caps); reflexivity. Qed.

End Hom.
