(* C03 chain, part A: the schema-level side conditions of the runtime theorems, for the schema of a class table.
     * has_builtins / entries_agree (C17), builtins_std (C02), std_builtins_b (C06): consequences of the bridge's
       c01_schema_ok resp. of the shape `builtin_classes ++ ...` of schema_of_table;
     * keys_ok (C04 / C05) = table_keys_ok, a test on the Python field names of the message classes alone;
     * masks_ok (C08 / C10) follows from gen_masks_ok: the bundled and the Entry classes lose no field. *)
From BP Require Import Base.Prelude Model.Types Spec.Descriptor Model.Object Model.WellFormed Model.C01Def Model.Json.
From BP Require Import Model.C03Bridge Model.C03Chain Proofs.C03BridgeA Proofs.C03BridgeD.
From BP Require Import Proofs.C04Def Proofs.C08EvoDef.
From BP Require Model.C17Typed Proofs.C02Abs Proofs.C02LegalWalk Spec.C06Wire Model.Casing.
From Coq Require Import Lia.

(* ---- keys_ok looks at the field names only ---- *)
Lemma find_field_names l1 : forall l2 i n, map fname l1 = map fname l2 ->
  option_map fst (find_field i l1 n) = option_map fst (find_field i l2 n).
Proof.
  induction l1 as [|f r IH]; intros [|g s] i n H; try discriminate; [reflexivity|].
  cbn [map] in H. injection H as Hf Hr. cbn [find_field]. rewrite Hf.
  destruct (Casing.str_eqb n (fname g)); [reflexivity | now apply IH].
Qed.

Lemma key_of_field_name cs f g : fname f = fname g -> key_of_field cs f = key_of_field cs g.
Proof. unfold key_of_field. now intros ->. Qed.

Lemma class_keys_ok_names cs cd1 cd2 :
  map fname (cfields cd1) = map fname (cfields cd2) -> class_keys_ok cs cd1 = class_keys_ok cs cd2.
Proof.
  intros H. unfold class_keys_ok. rewrite H. f_equal.
  - generalize (map fname (cfields cd2)) as names. intros names.
    assert (G : forall fs1 fs2 i, map fname fs1 = map fname fs2 ->
      (fix go (i : nat) (fs : list fdesc) {struct fs} : bool :=
         match fs with
         | [] => true
         | f :: r =>
             match Casing.field_for_key names (key_of_field cs f) with
             | Some n => match find_field 0 (cfields cd1) n with Some (j, _) => Nat.eqb j i | None => false end
             | None => false
             end && go (S i) r
         end) i fs1 =
      (fix go (i : nat) (fs : list fdesc) {struct fs} : bool :=
         match fs with
         | [] => true
         | f :: r =>
             match Casing.field_for_key names (key_of_field cs f) with
             | Some n => match find_field 0 (cfields cd2) n with Some (j, _) => Nat.eqb j i | None => false end
             | None => false
             end && go (S i) r
         end) i fs2).
    { induction fs1 as [|f r IH]; intros [|g s] i E; try discriminate; [reflexivity|].
      cbn [map] in E. injection E as Ef Er. rewrite (key_of_field_name cs f g Ef), (IH s (S i) Er).
      destruct (Casing.field_for_key names (key_of_field cs g)) as [n|]; [|reflexivity].
      pose proof (find_field_names (cfields cd1) (cfields cd2) 0 n H) as F.
      destruct (find_field 0 (cfields cd1) n) as [[j1 x1]|], (find_field 0 (cfields cd2) n) as [[j2 x2]|];
        cbn [option_map fst] in F; try discriminate; [|reflexivity].
      injection F as ->. reflexivity. }
    apply G, H.
  - f_equal. revert H. generalize (cfields cd1) (cfields cd2).
    induction l as [|f r IH]; intros [|g s] E; try discriminate; [reflexivity|].
    cbn [map] in E |- *. injection E as Ef Er. now rewrite (key_of_field_name cs f g Ef), (IH s Er).
Qed.

Lemma names_class_names names : map fname (cfields (names_class names)) = names.
Proof. unfold names_class. cbn [cfields]. rewrite map_map. cbn [fname]. apply map_id. Qed.

Lemma class_keys_ok_spec cs cd : class_keys_ok cs cd = names_keys_ok cs (map fname (cfields cd)).
Proof. unfold names_keys_ok. apply class_keys_ok_names. now rewrite names_class_names. Qed.

Lemma builtin_keys_ok cs : forallb (class_keys_ok cs) builtin_classes = true.
Proof. destruct cs; vm_compute; reflexivity. Qed.

Lemma entry_class_keys_ok cs R f : class_keys_ok cs (entry_class R f) = true.
Proof.
  rewrite class_keys_ok_spec. unfold entry_class.
  destruct (pf_map_types f) as [[kn vn]|]; [|destruct cs; vm_compute; reflexivity].
  destruct (match pf_hint f with PyDict k v => (k, v) | h => (PyOptional h, PyOptional h) end) as [k v].
  cbn [cfields map fname]. destruct cs; vm_compute; reflexivity.
Qed.

Lemma tr_classes_keys_ok cs R cls : forall k,
  forallb (class_keys_ok cs) (tr_classes R k cls) = forallb (fun fs => names_keys_ok cs (map pf_name fs)) cls.
Proof.
  induction cls as [|fs r IH]; intros k; [reflexivity|]. cbn [tr_classes forallb]. rewrite IH. f_equal.
  rewrite class_keys_ok_spec. unfold tr_class. cbn [cfields]. now rewrite tr_fields_names.
Qed.

(* keys_ok of the generated schema IS the test on the Python field names of the table's message classes *)
Theorem keys_ok_table cs (t : class_table) : keys_ok cs (schema_of_table t) = table_keys_ok cs t.
Proof.
  unfold keys_ok, table_keys_ok, schema_of_table. cbn [classes].
  rewrite !forallb_app, builtin_keys_ok, tr_classes_keys_ok. cbn [andb].
  replace (forallb (class_keys_ok cs) (map (entry_class (class_rows t)) (flat_map map_fields (msg_rows (class_rows t))))) with true.
  - apply andb_true_r.
  - symmetry. apply forallb_forall. intros cd Hcd. apply in_map_iff in Hcd as (f & <- & _). apply entry_class_keys_ok.
Qed.

(* ---- the shape `builtin_classes ++ ...` ---- *)
Lemma gen_has_builtins (t : class_table) : C17Typed.has_builtins (schema_of_table t).
Proof. eexists. reflexivity. Qed.

Lemma gen_std_builtins_b (t : class_table) : C06Wire.std_builtins_b (schema_of_table t) = true.
Proof. unfold schema_of_table. vm_compute. reflexivity. Qed.

(* ---- consequences of c01_schema_ok, for every schema ---- *)
Lemma c01_parts sc : c01_schema_ok sc = true -> wf_schema sc = true /\ builtins_exact sc = true /\ entries_ok sc = true.
Proof.
  unfold c01_schema_ok. intros H. apply andb_prop in H as [H H3]. apply andb_prop in H as [H1 H2]. auto.
Qed.

Lemma c01_builtins_std sc : c01_schema_ok sc = true -> C02Abs.builtins_std sc = true.
Proof. intros H. apply C02LegalWalk.builtins_exact_std. now destruct (c01_parts sc H) as (_ & ? & _). Qed.

Lemma pyty_eqb_same a b : C17Typed.pyty_eqb a b = C01Def.pyty_eqb a b.
Proof. destruct a, b; reflexivity. Qed.

Lemma pyty_eqb_sym a b : C01Def.pyty_eqb a b = C01Def.pyty_eqb b a.
Proof. destruct a, b; try reflexivity; cbn [C01Def.pyty_eqb]; apply Nat.eqb_sym. Qed.

Lemma entry_hints_ok_agree sc f : entry_hints_ok sc f = true -> C17Typed.entry_hints_agree sc f = true.
Proof.
  unfold entry_hints_ok, C17Typed.entry_hints_agree. destruct (fhint f) as [p|p|p|k v]; try reflexivity.
  destruct (cfields (get_class sc (fentry f))) as [|fk [|fv [|x r]]]; try discriminate.
  intros H. apply andb_prop in H as [H1 H2]. unfold hint_eqb in H1, H2.
  destruct (fhint fk) as [k'|?|?|? ?]; try discriminate. destruct (fhint fv) as [v'|?|?|? ?]; try discriminate.
  now rewrite (pyty_eqb_same k' k), (pyty_eqb_same v' v), H1, H2.
Qed.

Lemma entries_ok_agree sc : entries_ok sc = true -> C17Typed.entries_agree sc = true.
Proof.
  unfold entries_ok, C17Typed.entries_agree. intros H. rewrite forallb_forall in H. apply forallb_forall. intros cd Hcd.
  specialize (H cd Hcd). rewrite forallb_forall in H. apply forallb_forall. intros f Hf. apply entry_hints_ok_agree. auto.
Qed.

Lemma c01_entries_agree sc : c01_schema_ok sc = true -> C17Typed.entries_agree sc = true.
Proof. intros H. apply entries_ok_agree. now destruct (c01_parts sc H) as (_ & _ & ?). Qed.

(* ---- masks ---- *)
Lemma builtin_no_dict masks :
  forallb (fun cd => forallb (fun f => match fhint f with HDict _ _ => keeps masks (fentry f) | _ => true end) (cfields cd))
          builtin_classes = true.
Proof. vm_compute. reflexivity. Qed.

Lemma entry_class_no_dict masks R f :
  forallb (fun f => match fhint f with HDict _ _ => keeps masks (fentry f) | _ => true end) (cfields (entry_class R f)) = true.
Proof.
  unfold entry_class. destruct (pf_map_types f) as [[kn vn]|]; [|reflexivity].
  destruct (match pf_hint f with PyDict k v => (k, v) | h => (PyOptional h, PyOptional h) end) as [k v]. reflexivity.
Qed.

Lemma hint_of_dict R h k v : hint_of R h = HDict k v -> exists a b, h = PyDict a b.
Proof. destruct h; cbn [hint_of]; try discriminate. eauto. Qed.

(* a Dict-annotated field of a table_ok table is a map field *)
Lemma dict_is_mapf R f a b : pf_ok R f = true -> pf_hint f = PyDict a b -> is_mapf f = true.
Proof.
  unfold pf_ok, is_mapf. intros H E. apply andb_prop in H as [_ H]. rewrite E in H.
  destruct (ptype_of_str (pf_proto_type f)); [|discriminate].
  destruct (pf_map_types f); [reflexivity|]. now rewrite andb_false_r in H.
Qed.

Theorem gen_masks (t : class_table) masks :
  table_ok t = true -> gen_masks_ok t masks = true -> masks_ok (schema_of_table t) masks = true.
Proof.
  intros Hok H. unfold gen_masks_ok in H. apply andb_prop in H as [Hb He].
  unfold masks_ok. apply andb_true_intro. split; [exact Hb|].
  rewrite sc_classes, !forallb_app, builtin_no_dict. cbn [andb]. apply andb_true_intro. split.
  - set (R := class_rows t). set (ms := msg_rows R). set (E := flat_map map_fields ms). set (base := (NB + length ms)%nat).
    pose proof (tr_classes_spec R base E ms base [] []) as S.
    specialize (S ltac:(unfold E; cbn [app]; now rewrite app_nil_r) ltac:(cbn [length]; lia)).
    rewrite Forall_forall in S. apply forallb_forall. intros cd Hcd.
    destruct (S cd Hcd) as (fs & k0 & Hfs & -> & F). rewrite Forall_forall in F.
    destruct (ms_ok t Hok fs Hfs) as [_ Hpf].
    apply forallb_forall. intros f' Hf'. destruct (F f' Hf') as (f & k' & Hf & -> & Hm).
    unfold tr_field at 1. cbn [fhint].
    destruct (hint_of R (pf_hint f)) as [p|p|p|k v] eqn:Eh; try reflexivity.
    destruct (hint_of_dict _ _ _ _ Eh) as (a & b & Ea).
    pose proof (dict_is_mapf R f a b (Hpf f Hf) Ea) as Hmap. destruct (Hm Hmap) as [Hle Hn].
    unfold tr_field. cbn [fentry]. rewrite Hmap.
    rewrite forallb_forall in He. apply He. apply in_seq. fold ms. fold base. unfold n_msgs, n_entries. fold R. fold ms. fold E.
    assert (k' - base < length E)%nat by (apply nth_error_Some; now rewrite Hn). lia.
  - apply forallb_forall. intros cd Hcd. apply in_map_iff in Hcd as (f & <- & _). apply entry_class_no_dict.
Qed.

Lemma keeps_nil_at masks c : nth_error masks c = Some [] \/ nth_error masks c = None -> keeps masks c = true.
Proof.
  unfold keeps, mask_of. intros [H | H].
  - now rewrite (nth_error_nth masks c [] H).
  - rewrite nth_overflow; [reflexivity | now apply nth_error_None].
Qed.

(* one mask per generated message class: every such family is admissible *)
Theorem user_masks_ok (t : class_table) um :
  (length um <= n_msgs t)%nat -> gen_masks_ok t (user_masks um) = true.
Proof.
  intros Hl. unfold gen_masks_ok, user_masks. apply andb_true_intro. split; apply forallb_forall; intros c Hc; apply in_seq in Hc.
  - apply keeps_nil_at. left. rewrite nth_error_app1 by (rewrite repeat_length; lia).
    apply nth_error_repeat. lia.
  - apply keeps_nil_at. right. apply nth_error_None. rewrite app_length, repeat_length. lia.
Qed.

(* the mask of message class i (schema index NB + i) is the i-th of the family *)
Lemma user_masks_at um i : mask_of (user_masks um) (NB + i) = nth i um [].
Proof.
  unfold mask_of, user_masks. rewrite app_nth2; rewrite repeat_length; [|lia]. f_equal. lia.
Qed.

(* ---- the converse: gen_masks_ok is EXACTLY masks_ok of the generated schema ---- *)
Lemma tr_fields_map_at R gs fs : forall k0 j f,
  nth_error (map_fields fs) j = Some f -> In (tr_field R gs (k0 + j) f) (tr_fields R gs k0 fs).
Proof.
  induction fs as [|f0 r IH]; intros k0 j f H; [destruct j; discriminate|].
  unfold map_fields in H. cbn [filter] in H. cbn [tr_fields]. destruct (is_mapf f0) eqn:Hm.
  - destruct j as [|j'].
    + cbn [nth_error] in H. injection H as <-. left. f_equal. lia.
    + cbn [nth_error] in H. right. replace (k0 + S j')%nat with (S k0 + j')%nat by lia. now apply IH.
  - right. now apply IH.
Qed.

Lemma tr_classes_map_at R cls : forall k0 j f,
  nth_error (flat_map map_fields cls) j = Some f ->
  exists cd, In cd (tr_classes R k0 cls) /\ exists gs, In (tr_field R gs (k0 + j) f) (cfields cd).
Proof.
  induction cls as [|fs r IH]; intros k0 j f H; [destruct j; discriminate|].
  cbn [flat_map] in H. cbn [tr_classes].
  destruct (Nat.ltb j (length (map_fields fs))) eqn:Hlt.
  - apply Nat.ltb_lt in Hlt. rewrite nth_error_app1 in H by assumption.
    exists (tr_class R k0 fs). split; [now left|]. exists (group_names fs). unfold tr_class. cbn [cfields].
    now apply tr_fields_map_at.
  - apply Nat.ltb_ge in Hlt. rewrite nth_error_app2 in H by assumption.
    destruct (IH (k0 + length (map_fields fs))%nat _ f H) as (cd & Hcd & gs & Hin).
    exists cd. split; [now right|]. exists gs.
    replace (k0 + j)%nat with (k0 + length (map_fields fs) + (j - length (map_fields fs)))%nat by lia. exact Hin.
Qed.

Theorem gen_masks_exact (t : class_table) masks :
  table_ok t = true -> masks_ok (schema_of_table t) masks = gen_masks_ok t masks.
Proof.
  intros Hok. destruct (gen_masks_ok t masks) eqn:Eg; [now apply gen_masks|].
  destruct (masks_ok (schema_of_table t) masks) eqn:Em; [|reflexivity]. exfalso.
  unfold masks_ok in Em. apply andb_prop in Em as [Hb Hd].
  assert (G : gen_masks_ok t masks = true); [|rewrite G in Eg; discriminate].
  unfold gen_masks_ok. apply andb_true_intro. split; [exact Hb|].
  apply forallb_forall. intros c Hc. apply in_seq in Hc. unfold n_msgs, n_entries in Hc.
  set (R := class_rows t) in *. set (ms := msg_rows R) in *. set (E := flat_map map_fields ms) in *.
  set (base := (NB + length ms)%nat) in *.
  destruct (nth_error E (c - base)) as [f|] eqn:En; [|apply nth_error_None in En; lia].
  assert (HinE : In f E) by (eapply nth_error_In; eassumption).
  destruct (E_in t f HinE) as (fs & Hfs & Hf & Hm).
  destruct (ms_ok t Hok fs Hfs) as [_ Hpf].
  destruct (map_field_shape t f (Hpf f Hf) Hm) as (k & v & kn & vn & kt & vt & Eh & _).
  destruct (tr_classes_map_at R ms base (c - base) f En) as (cd & Hcd & gs & Hin).
  rewrite forallb_forall in Hd.
  assert (Hcls : In cd (classes (schema_of_table t))).
  { rewrite sc_classes. apply in_or_app. right. apply in_or_app. left. exact Hcd. }
  specialize (Hd cd Hcls). rewrite forallb_forall in Hd. specialize (Hd _ Hin).
  unfold tr_field in Hd. cbn [fhint fentry] in Hd. rewrite Eh, Hm in Hd. cbn [hint_of] in Hd.
  replace (base + (c - base))%nat with c in Hd by lia. exact Hd.
Qed.
