(* C04, include_default_values=True and repeated wrapper fields: (A) + (B) + the instance form + dumps_total put together.
   The general statements are generic in the flag incl and hold over the extended predicates wfx_schema / goodx; the
   statements over the shared wf_schema / good (no repeated wrapper field) are corollaries. *)
From BP Require Import Base.Prelude Model.Types Model.Object Model.Eq Model.Encode Model.WellFormed Model.Json Model.C04RepWrap.
From BP Require Import Proofs.C04Def Proofs.C04ScalarP Proofs.C04ElemP Proofs.C04ObjP Proofs.C04InclDef Proofs.C04InclBaseP
  Proofs.C04InclObjP Proofs.C04InclInstP Proofs.C04InclRtP4 Proofs.C04InclDumpsP.

Lemma goodx_parts sc m : goodx sc m = true -> in_rangex sc m = true /\ oneof_ok sc m = true.
Proof.
  unfold goodx. intros G. apply andb_prop in G as [G _]. apply andb_prop in G as [G _]. apply andb_prop in G as [A B]. auto.
Qed.

(* all plain sub-messages present => Cls().to_dict(include_default_values=True) is never called for a message type *)
Lemma present_reach sc v : pv_all (local_present sc) v = true -> pv_all (local_reach sc) v = true.
Proof.
  induction v as [v IH] using pv_size_ind. destruct v as [| | | | | | | | |l|d|[c raw s u g]]; try reflexivity.
  - cbn [pv_all]. rewrite !forallb_forall. intros H x Hx. apply IH; [|apply H, Hx].
    rewrite size_list. pose proof (in_sum_size x l Hx). Lia.lia.
  - cbn [pv_all]. rewrite !forallb_forall. intros H [k x] Hx. cbn [snd]. apply IH; [|apply (H _ Hx)].
    rewrite size_dict. pose proof (in_sum_size_d k x d Hx). Lia.lia.
  - rewrite !pv_all_msg. intros H. apply andb_prop in H as [H1 H2]. apply andb_true_intro. split.
    + rewrite local_present_unfold in H1. rewrite local_reach_unfold. revert H1. generalize O. generalize (cfields (get_class sc c)).
      clear. induction raw as [|x raw IHr]; intros fs i H; [reflexivity|]. destruct fs as [|f fs]; [reflexivity|].
      cbn [present_loop reach_loop] in *. apply andb_prop in H as [H1 H2]. rewrite (IHr fs (S i) H2), andb_true_r.
      unfold present_cond in H1. unfold reach_cond.
      destruct x; try reflexivity. destruct (fhint f) as [p|p|p|pk p]; try reflexivity. destruct p; try reflexivity.
      destruct (group_selects g f i); [reflexivity|discriminate H1].
    + rewrite forallb_forall in H2. rewrite forallb_forall. intros x Hx. apply IH; [|apply H2, Hx].
      rewrite size_msg. pose proof (in_sum_size x raw Hx). Lia.lia.
Qed.

Lemma all_present_reach sc m : all_present sc m = true -> defaults_reach sc m = true.
Proof. exact (present_reach sc (PMsg m)). Qed.

Lemma incl_ok_reach incl sc m : incl_ok incl sc m = true -> incl = true -> defaults_reach sc m = true.
Proof. intros H ->. apply all_present_reach. exact H. Qed.

Lemma incl_ok_reach_ok incl sc m : incl_ok incl sc m = true -> reach_ok incl sc m = true.
Proof. unfold incl_ok, reach_ok. destruct incl; cbn [negb orb]; [apply all_present_reach|reflexivity]. Qed.

Lemma reach_ok_reach incl sc m : reach_ok incl sc m = true -> incl = true -> defaults_reach sc m = true.
Proof. intros H ->. exact H. Qed.

(* ---- the general statements ---- *)
(* the == half: needs only that the dict exists (reach_ok) *)
Lemma eq_formsG sc cs incl (text : bool) m :
  wfx_schema sc = true -> keys_ok cs sc = true -> goodx sc m = true -> reach_ok incl sc m = true ->
  exists m', from_dict_cls sc (ocls m) (tr text (to_dict cs incl sc m)) = Ok m' /\
             from_dict_inst sc (new sc (ocls m)) (tr text (to_dict cs incl sc m)) = Ok m' /\
             obj_eq sc m' m = true.
Proof.
  intros W K G I. exists (gnorm_obj incl sc m). split; [|split].
  - exact (from_to_dict_gnorm sc cs text W K incl m G I).
  - exact (inst_from_to_dict_gnorm sc cs text incl W K m G I).
  - exact (gnorm_eq sc incl W m G I).
Qed.

(* both halves: incl_ok = all plain sub-messages present when include_default_values is set *)
Lemma both_formsG sc cs incl (text : bool) m :
  wfx_schema sc = true -> keys_ok cs sc = true -> goodx sc m = true -> incl_ok incl sc m = true ->
  exists m', from_dict_cls sc (ocls m) (tr text (to_dict cs incl sc m)) = Ok m' /\
             from_dict_inst sc (new sc (ocls m)) (tr text (to_dict cs incl sc m)) = Ok m' /\
             obj_eq sc m' m = true /\ enc_obj sc m' = enc_obj sc m.
Proof.
  intros W K G I. pose proof (incl_ok_reach_ok incl sc m I) as R. exists (gnorm_obj incl sc m). split; [|split].
  - exact (from_to_dict_gnorm sc cs text W K incl m G R).
  - exact (inst_from_to_dict_gnorm sc cs text incl W K m G R).
  - exact (gnorm_faithful sc incl W m G R I).
Qed.

Lemma dict_rtG sc cs incl m :
  wfx_schema sc = true -> keys_ok cs sc = true -> goodx sc m = true -> incl_ok incl sc m = true ->
  exists m', from_dict_cls sc (ocls m) (to_dict cs incl sc m) = Ok m' /\
             from_dict_inst sc (new sc (ocls m)) (to_dict cs incl sc m) = Ok m' /\
             obj_eq sc m' m = true /\ enc_obj sc m' = enc_obj sc m.
Proof. exact (both_formsG sc cs incl false m). Qed.

Lemma text_rtG sc cs incl m :
  wfx_schema sc = true -> keys_ok cs sc = true -> goodx sc m = true -> incl_ok incl sc m = true ->
  exists m', json_rt_cls cs incl sc m = Ok m' /\
             json_rt_inst cs incl sc m (new sc (ocls m)) = Ok m' /\
             obj_eq sc m' m = true /\ enc_obj sc m' = enc_obj sc m.
Proof.
  intros W K G I. destruct (goodx_parts sc m G) as [R O].
  destruct (both_formsG sc cs incl true m W K G I) as [m' [A [B C]]]. exists m'.
  unfold json_rt_cls, json_rt_inst, dumps_loads.
  rewrite (dumps_totalG sc cs incl W m R O (incl_ok_reach incl sc m I)). cbn [bind].
  split; [exact A|]. split; [exact B|exact C].
Qed.

Lemma eq_text_rtG sc cs incl m :
  wfx_schema sc = true -> keys_ok cs sc = true -> goodx sc m = true -> reach_ok incl sc m = true ->
  exists m', json_rt_cls cs incl sc m = Ok m' /\
             json_rt_inst cs incl sc m (new sc (ocls m)) = Ok m' /\
             obj_eq sc m' m = true.
Proof.
  intros W K G I. destruct (goodx_parts sc m G) as [R O].
  destruct (eq_formsG sc cs incl true m W K G I) as [m' [A [B C]]]. exists m'.
  unfold json_rt_cls, json_rt_inst, dumps_loads.
  rewrite (dumps_totalG sc cs incl W m R O (reach_ok_reach incl sc m I)). cbn [bind].
  split; [exact A|]. split; [exact B|exact C].
Qed.

Lemma dumps_total_mainG sc cs incl m :
  wfx_schema sc = true -> in_rangex sc m = true -> oneof_ok sc m = true -> (incl = true -> defaults_reach sc m = true) ->
  dumpsable (to_dict cs incl sc m) = true.
Proof. intros W R O D. exact (dumps_totalG sc cs incl W m R O D). Qed.

Lemma norm_formG sc cs incl (text : bool) m :
  wfx_schema sc = true -> keys_ok cs sc = true -> goodx sc m = true -> reach_ok incl sc m = true ->
  from_dict_cls sc (ocls m) (tr text (to_dict cs incl sc m)) = Ok (gnorm_obj incl sc m).
Proof. intros W K G I. exact (from_to_dict_gnorm sc cs text W K incl m G I). Qed.

(* ---- include_default_values=True over the shared wf_schema / good ---- *)
Lemma incl_dict_rt sc cs m :
  wf_schema sc = true -> keys_ok cs sc = true -> good sc m = true -> all_present sc m = true ->
  exists m', from_dict_cls sc (ocls m) (to_dict cs true sc m) = Ok m' /\
             from_dict_inst sc (new sc (ocls m)) (to_dict cs true sc m) = Ok m' /\
             obj_eq sc m' m = true /\ enc_obj sc m' = enc_obj sc m.
Proof. intros W K G P. exact (dict_rtG sc cs true m (wf_wfx_schema sc W) K (good_goodx sc m W G) P). Qed.

Lemma incl_text_rt sc cs m :
  wf_schema sc = true -> keys_ok cs sc = true -> good sc m = true -> all_present sc m = true ->
  exists m', json_rt_cls cs true sc m = Ok m' /\
             json_rt_inst cs true sc m (new sc (ocls m)) = Ok m' /\
             obj_eq sc m' m = true /\ enc_obj sc m' = enc_obj sc m.
Proof. intros W K G P. exact (text_rtG sc cs true m (wf_wfx_schema sc W) K (good_goodx sc m W G) P). Qed.

(* the == half holds whenever the dict exists *)
Lemma incl_eq_rt sc cs (text : bool) m :
  wf_schema sc = true -> keys_ok cs sc = true -> good sc m = true -> defaults_reach sc m = true ->
  exists m', from_dict_cls sc (ocls m) (tr text (to_dict cs true sc m)) = Ok m' /\
             from_dict_inst sc (new sc (ocls m)) (tr text (to_dict cs true sc m)) = Ok m' /\
             obj_eq sc m' m = true.
Proof. intros W K G P. exact (eq_formsG sc cs true text m (wf_wfx_schema sc W) K (good_goodx sc m W G) P). Qed.

Lemma incl_eq_text_rt sc cs m :
  wf_schema sc = true -> keys_ok cs sc = true -> good sc m = true -> defaults_reach sc m = true ->
  exists m', json_rt_cls cs true sc m = Ok m' /\
             json_rt_inst cs true sc m (new sc (ocls m)) = Ok m' /\
             obj_eq sc m' m = true.
Proof. intros W K G P. exact (eq_text_rtG sc cs true m (wf_wfx_schema sc W) K (good_goodx sc m W G) P). Qed.

Lemma incl_dumps_total sc cs m :
  wf_schema sc = true -> in_range sc m = true -> oneof_ok sc m = true -> defaults_reach sc m = true ->
  dumpsable (to_dict cs true sc m) = true.
Proof.
  intros W R O D. apply (dumps_total_mainG sc cs true m (wf_wfx_schema sc W)); [|exact O|intros _; exact D].
  rewrite (in_rangex_in_range sc m W). exact R.
Qed.

(* ---- repeated wrapper fields, include_default_values=False ---- *)
Lemma repwrap_dict_rt sc cs m :
  wfx_schema sc = true -> keys_ok cs sc = true -> goodx sc m = true ->
  exists m', from_dict_cls sc (ocls m) (to_dict cs false sc m) = Ok m' /\
             from_dict_inst sc (new sc (ocls m)) (to_dict cs false sc m) = Ok m' /\
             obj_eq sc m' m = true /\ enc_obj sc m' = enc_obj sc m.
Proof. intros W K G. exact (dict_rtG sc cs false m W K G eq_refl). Qed.

Lemma repwrap_text_rt sc cs m :
  wfx_schema sc = true -> keys_ok cs sc = true -> goodx sc m = true ->
  exists m', json_rt_cls cs false sc m = Ok m' /\
             json_rt_inst cs false sc m (new sc (ocls m)) = Ok m' /\
             obj_eq sc m' m = true /\ enc_obj sc m' = enc_obj sc m.
Proof. intros W K G. exact (text_rtG sc cs false m W K G eq_refl). Qed.

Lemma repwrap_dumps_total sc cs m :
  wfx_schema sc = true -> in_rangex sc m = true -> oneof_ok sc m = true -> dumpsable (to_dict cs false sc m) = true.
Proof. intros W R O. apply (dumps_total_mainG sc cs false m W R O). discriminate. Qed.
