(* C04, include_default_values=True and repeated wrapper fields: the concrete witnesses.
   exi_sc  a wf_schema without any recursive class (so that to_dict(include_default_values=True) terminates):
     class 11: x:int32=1  sub:<12>=2  o:optional int32=3  os:optional <12>=4  rs:repeated <12>=5  m:map<string,<12>>=6
               oneof g0 { u:int64=7  v:<12>=8 }  w:Int64Value=9  d:double=10  t:Timestamp=11
     class 12: y:int32=1  s:string=2  t:Timestamp=3  e:enum0=4  b:bytes=5
     class 13: the entry class of m
   exr_sc  exi_sc plus two repeated wrapper fields in class 11:  rw:repeated BytesValue=12  rd:repeated DoubleValue=13
           (wfx_schema, not wf_schema). *)
From BP Require Import Base.Prelude Model.Types Model.Float Model.Object Model.Eq Model.Encode Model.WellFormed Model.Json Model.C04RepWrap.
From BP Require Import Proofs.C04Def Proofs.C04InclDef Proofs.C04WitP.

Definition c12 : cdesc :=
  mkC [mkF [x79] 1 TInt32 None None None false (HPlain PyInt) 0;
       mkF [x73] 2 TString None None None false (HPlain PyStr) 0;
       mkF [x74] 3 TMessage None None None false (HPlain PyDatetime) 0;
       mkF [x65] 4 TEnum None None None false (HPlain (PyEnum 0)) 0;
       mkF [x62] 5 TBytes None None None false (HPlain PyBytes) 0] 0.
Definition c13 : cdesc :=
  mkC [mkF [x6b; x65; x79] 1 TString None None None false (HPlain PyStr) 0;
       mkF [x76; x61; x6c; x75; x65] 2 TMessage None None None false (HPlain (PyMsg 12)) 0] 0.
Definition f11 : list fdesc :=
  [mkF [x78] 1 TInt32 None None None false (HPlain PyInt) 0;
   mkF [x73; x75; x62] 2 TMessage None None None false (HPlain (PyMsg 12)) 0;
   mkF [x6f] 3 TInt32 None None None true (HOptional PyInt) 0;
   mkF [x6f; x73] 4 TMessage None None None true (HOptional (PyMsg 12)) 0;
   mkF [x72; x73] 5 TMessage None None None false (HList (PyMsg 12)) 0;
   mkF [x6d] 6 TMap (Some (TString, TMessage)) None None false (HDict PyStr (PyMsg 12)) 13;
   mkF [x75] 7 TInt64 None (Some 0%nat) None false (HPlain PyInt) 0;
   mkF [x76] 8 TMessage None (Some 0%nat) None false (HPlain (PyMsg 12)) 0;
   mkF [x77] 9 TMessage None None (Some TInt64) false (HOptional PyInt) 0;
   mkF [x64] 10 TDouble None None None false (HPlain PyFloat) 0;
   mkF [x74] 11 TMessage None None None false (HPlain PyDatetime) 0].
Definition ex_enums : list edesc := [mkE [([x5a], 0); ([x4f], 1)]].
Definition exi_sc : schema := mkS (builtin_classes ++ [mkC f11 1; c12; c13]) ex_enums.
Definition rw_bytes : fdesc := mkF [x72; x77] 12 TMessage None None (Some TBytes) false (HList PyBytes) 0.
Definition rw_double : fdesc := mkF [x72; x64] 13 TMessage None None (Some TDouble) false (HList PyFloat) 0.
Definition exr_sc : schema := mkS (builtin_classes ++ [mkC (f11 ++ [rw_bytes; rw_double]) 1; c12; c13]) ex_enums.

Definition sub0 (sow : bool) : obj := Obj 12 [PPlaceholder; PPlaceholder; PPlaceholder; PPlaceholder; PPlaceholder] sow [] [].
Definition sub1 : obj := Obj 12 [PInt 7; PStr []; PDatetime 1; PInt 1; PPlaceholder] true [] [].

(* every plain sub-message present (one of them empty); optional unset / set-but-empty; a repeated and a map field holding
   an empty message; a selected oneof member that is an empty message; wrapper unset; explicit 0.0; unset scalars *)
Definition exi_m : obj :=
  Obj 11 [PPlaceholder; PMsg (sub0 true); PNone; PMsg (sub0 false); PList [PMsg sub1; PMsg (sub0 false)];
          PDict [(PStr [x61], PMsg (sub0 false))]; PPlaceholder; PMsg (sub0 false); PNone; PFloat 0; PPlaceholder] true [] [Some 7%nat].
(* the same with a non-empty repeated BytesValue (one element empty) and an unset repeated DoubleValue *)
Definition exr_m : obj :=
  Obj 11 [PPlaceholder; PMsg (sub0 true); PNone; PMsg (sub0 false); PList [PMsg sub1; PMsg (sub0 false)];
          PDict [(PStr [x61], PMsg (sub0 false))]; PPlaceholder; PMsg (sub0 false); PNone; PFloat 0; PPlaceholder;
          PList [PBytes [x61]; PBytes []]; PPlaceholder] true [] [Some 7%nat].
(* Outer(x=3): the plain sub-message `sub` is unset *)
Definition wit_unset_sub : obj :=
  Obj 11 [PInt 3; PPlaceholder; PNone; PNone; PPlaceholder; PPlaceholder; PPlaceholder; PPlaceholder; PNone; PPlaceholder; PPlaceholder] true [] [None].

Lemma exi_schema_ok : schema_ok exi_sc = true. Proof. vm_compute. reflexivity. Qed.
Lemma exi_good : good exi_sc exi_m = true /\ all_present exi_sc exi_m = true. Proof. vm_compute. split; reflexivity. Qed.
Lemma exr_schema_ok : wf_schema exr_sc = false /\ wfx_schema exr_sc = true /\ keys_ok CAMEL exr_sc = true /\ keys_ok SNAKE exr_sc = true.
Proof. vm_compute. repeat split; reflexivity. Qed.
Lemma exr_good : goodx exr_sc exr_m = true /\ all_present exr_sc exr_m = true /\ in_range exr_sc exr_m = false.
Proof. vm_compute. repeat split; reflexivity. Qed.

Definition rt_class_incl (cs : casing) (text : bool) (sc : schema) (m : obj) : result obj :=
  from_dict_cls sc (ocls m) (if text then text_rt (to_dict cs true sc m) else to_dict cs true sc m).

(* an unset plain sub-message: from_dict(to_dict(m, include_default_values=True)) == m but it encodes the sub-message as present *)
Lemma incl_unset_submessage_refuted :
  schema_ok exi_sc = true /\ good exi_sc wit_unset_sub = true /\ defaults_reach exi_sc wit_unset_sub = true /\
  all_present exi_sc wit_unset_sub = false /\
  enc_obj exi_sc wit_unset_sub = Ok [x08; x03] /\
  match rt_class_incl CAMEL false exi_sc wit_unset_sub with
  | Ok m' => obj_eq exi_sc m' wit_unset_sub = true /\ enc_obj exi_sc m' = Ok [x08; x03; x12; x00]
  | Err _ => False
  end.
Proof. vm_compute. repeat split; reflexivity. Qed.

(* a recursive class (ex_sc of C04WitP: rec:<class 11>): Cls().to_dict(include_default_values=True) never returns
   (RecursionError); in the model the fuel runs out, the dict holds a PLACEHOLDER and nothing reads it back *)
Lemma incl_recursive_refuted :
  schema_ok ex_sc = true /\ good ex_sc (with_x 3 true []) = true /\
  defaults_reach ex_sc (with_x 3 true []) = false /\
  dumpsable (to_dict CAMEL true ex_sc (with_x 3 true [])) = false /\
  match rt_class_incl CAMEL false ex_sc (with_x 3 true []) with Ok _ => False | Err _ => True end.
Proof. vm_compute. repeat split; reflexivity. Qed.
