(* C16 source-translation tie: the Gallina obtained MECHANICALLY from the current Python source of the varint
   primitives (coq/gen/C16Src.v, written by harness/gen_c16_src.py) is extensionally equal to the hand-written model
   (Model/Varint.v).  Fuel: every translated loop is a fuelled recursion; the equalities hold for EVERY fuel above an
   explicit bound computed from the input, hence the out-of-fuel arm (Err EFuel) is unreachable there.
   This file is built only by the "source tie" stage of harness/props/c16.py: a harmless rewrite of the Python functions
   may change gen/C16Src.v so that these scripts no longer apply, which is reported as "tie did not hold", never as a
   violation. *)
From BP Require Import Base.Prelude Model.Varint Spec.Varint Model.C16SrcLib gen.C16Src Proofs.BytesP Proofs.VarintP.
From Coq Require Import ZifyBool ZifyN.
Ltac Zify.zify_post_hook ::= Z.to_euclidean_division_equations.

(* the generator translated the five functions (when it rejects them it leaves no definition and this flag false) *)
Lemma src_varint_present : src_varint_translated = true.
Proof. reflexivity. Qed.

(* ---------- the primitives on the arguments that occur ---------- *)
Lemma to_bytes1 x : 0 <= x < 256 -> py_to_bytes_le x 1 = Ok [byte_of_Z x].
Proof.
  intros H. unfold py_to_bytes_le. change (256 ^ Z.of_nat 1) with 256.
  replace ((0 <=? x) && (x <? 256)) with true by lia.
  cbn [le_bytes]. rewrite Z.mod_small by lia. reflexivity.
Qed.

Lemma ceil_div_7 a : py_ceil_div a 7 = (a + 6) / 7.
Proof. unfold py_ceil_div. lia. Qed.

Lemma if_same {A} (b : bool) (x : A) : (if b then x else x) = x.
Proof. destruct b; reflexivity. Qed.

(* ---------- size_varint ---------- *)
Lemma src_size_is_model v : src_size_varint v = size_varint v.
Proof.
  unfold src_size_varint, size_varint. change (Z.shiftl 1 63) with (2 ^ 63).
  destruct (v <? - 2 ^ 63); [reflexivity|].
  destruct (v <? 0); [reflexivity|].
  destruct (v =? 0); [reflexivity|].
  rewrite ceil_div_7. reflexivity.
Qed.

(* ---------- dump_varint / encode_varint ---------- *)
(* the translated loop, started as the Python code starts it (value >> 7, bits = value & 0x7F), falls out of the
   loop having written all bytes of enc_go but the last, which is left in `bits` *)
Lemma dump_loop f : forall fuel v out,
  0 <= v < 128 ^ Z.of_nat (S f) -> (f < fuel)%nat ->
  exists v' pre lastb,
    src_dump_varint_loop1 fuel (Z.shiftr v 7, out, Z.land v 127) = Ok (Fall (v', out ++ pre, lastb)) /\
    0 <= lastb < 128 /\ enc_go f v = pre ++ [byte_of_Z lastb].
Proof.
  induction f as [|f IH]; intros fuel v out Hv Hf.
  - destruct fuel as [|fuel]; [lia|].
    change (Z.of_nat 1) with 1 in Hv. rewrite Z.pow_1_r in Hv.
    cbn [src_dump_varint_loop1]. rewrite shiftr_7, land_127.
    replace (v / 128) with 0 by lia. cbn [py_truthy_int Z.eqb negb].
    exists 0, [], (v mod 128). rewrite app_nil_r. cbn [enc_go app]. rewrite land_127.
    repeat split; lia.
  - destruct fuel as [|fuel]; [lia|].
    rewrite Nat2Z.inj_succ, Z.pow_succ_r in Hv by lia.
    cbn [src_dump_varint_loop1 enc_go]. unfold py_truthy_int.
    destruct (Z.shiftr v 7 =? 0) eqn:Hq; cbn [negb].
    + exists (Z.shiftr v 7), [], (Z.land v 127). rewrite app_nil_r, land_127. cbn [app].
      repeat split; lia.
    + rewrite shiftr_7 in Hq.
      assert (E1 : Z.lor 128 (Z.land v 127) = 128 + v mod 128) by (rewrite land_127; apply lor_128_low; lia).
      rewrite E1. rewrite to_bytes1 by lia. cbn [bind]. unfold py_write.
      destruct (IH fuel (Z.shiftr v 7) (out ++ [byte_of_Z (128 + v mod 128)])) as (v' & pre & lastb & E & Hl & Hp).
      * rewrite shiftr_7. lia.
      * lia.
      * exists v', (byte_of_Z (128 + v mod 128) :: pre), lastb.
        rewrite <- app_assoc in E. cbn [app] in E. rewrite E, Hp. repeat split; lia.
Qed.

(* fuel that is enough for the value v given to dump_varint / encode_varint *)
Definition src_fuel_encode (v : Z) : nat := S (S (enc_fuel (if v <? 0 then v + 2 ^ 64 else v))).

Lemma src_dump_is_model v out fuel :
  (src_fuel_encode v <= fuel)%nat ->
  src_dump_varint fuel v out = do bs <- encode_varint v; Ok (tt, out ++ bs).
Proof.
  unfold src_fuel_encode, src_dump_varint, encode_varint. intros Hf.
  change (Z.shiftl 1 63) with (2 ^ 63). change (Z.shiftl 1 64) with (2 ^ 64).
  destruct (v <? - 2 ^ 63) eqn:Hlow; [reflexivity|].
  set (w := if v <? 0 then v + 2 ^ 64 else v) in *.
  assert (Hw : 0 <= w) by (subst w; destruct (v <? 0) eqn:E; lia).
  replace (bind (if v <? 0 then let v_value := v + 2 ^ 64 in Ok v_value else Ok v) _)
    with (bind (Ok w) (fun v_value : Z =>
            let v_bits := Z.land v_value 127 in
            let v_value0 := Z.shiftr v_value 7 in
            bind (src_dump_varint_loop1 fuel (v_value0, out, v_bits)) (fun fl =>
              match fl with
              | Fall (_, v_stream, v_bits0) =>
                  bind (py_to_bytes_le v_bits0 1) (fun t3 => let v_stream0 := py_write v_stream t3 in Ok (tt, v_stream0))
              | Return t2 => Ok t2
              end)))
    by (subst w; destruct (v <? 0); reflexivity).
  cbn [bind]. cbv zeta.
  destruct (dump_loop (enc_fuel w) fuel w out) as (v' & pre & lastb & E & Hl & Hp).
  - split; [exact Hw | apply enc_fuel_enough, Hw].
  - lia.
  - rewrite E. cbn [bind]. rewrite to_bytes1 by lia. cbn [bind]. unfold py_write.
    rewrite Hp, app_assoc. reflexivity.
Qed.

Theorem src_encode_is_model v fuel :
  (src_fuel_encode v <= fuel)%nat -> src_encode_varint fuel v = encode_varint v.
Proof.
  intros Hf. unfold src_encode_varint. cbv zeta. rewrite (src_dump_is_model v [] fuel Hf).
  destruct (encode_varint v) as [bs|k]; reflexivity.
Qed.

(* a bound that does not mention the model: 2 + bit length of max(v, 2^64) *)
Definition src_fuel_int (v : Z) : nat := S (S (S (Z.to_nat (Z.log2 (Z.max v (2 ^ 64)))))).

Lemma src_fuel_int_enough v : - 2 ^ 63 <= v -> (src_fuel_encode v <= src_fuel_int v)%nat.
Proof.
  intros Hv. unfold src_fuel_encode, src_fuel_int, enc_fuel.
  assert (H : Z.log2 (if v <? 0 then v + 2 ^ 64 else v) <= Z.log2 (Z.max v (2 ^ 64))).
  { apply Z.log2_le_mono. destruct (v <? 0) eqn:E; lia. }
  pose proof (Z.log2_nonneg (if v <? 0 then v + 2 ^ 64 else v)). lia.
Qed.

Lemma encode_no_fuel_error v : encode_varint v <> Err EFuel.
Proof. unfold encode_varint. destruct (v <? - 2 ^ 63); discriminate. Qed.

(* ---------- load_varint ---------- *)
Definition lift_load (r : result (Z * list byte * list byte)) : result (Z * list byte * list byte) := err_class r.

Lemma load_loop n : forall fuel shift acc raw s,
  shift = 7 * (10 - Z.of_nat n) -> (n <= 10)%nat -> (n < fuel)%nat ->
  src_load_varint_loop1 fuel (s, acc, raw, shift) = err_class (load_go n shift acc raw s).
Proof.
  induction n as [|n IH]; intros fuel shift acc raw s Hs Hn Hf; (destruct fuel as [|fuel]; [lia|]).
  - cbn [src_load_varint_loop1 load_go err_class]. replace (shift >=? 64) with true by lia. reflexivity.
  - cbn [src_load_varint_loop1 load_go]. replace (shift >=? 64) with false by lia.
    destruct s as [|b s'].
    + cbn [py_read firstn skipn py_truthy_bytes negb err_class]. rewrite if_same. reflexivity.
    + cbn [py_read firstn skipn py_truthy_bytes negb].
      unfold py_from_bytes_le, py_lshift. cbn [le_value].
      replace (Z_of_byte b + 256 * 0) with (Z_of_byte b) by lia.
      replace (shift <? 0) with false by lia. cbn [bind]. unfold py_truthy_int.
      destruct (Z.land (Z_of_byte b) 128 =? 0); cbn [negb].
      * reflexivity.
      * apply IH; lia.
Qed.

Theorem src_load_is_model s fuel :
  (10 < fuel)%nat -> src_load_varint fuel s = err_class (load_varint s).
Proof.
  intros Hf. unfold src_load_varint, load_varint. cbv zeta. apply load_loop; lia.
Qed.

Lemma load_no_fuel_error s : load_varint s <> Err EFuel.
Proof.
  destruct (load_go_total 10 0 0 [] s) as [[x E]|[E|E]]; unfold load_varint; rewrite E; discriminate.
Qed.

(* ---------- decode_varint ---------- *)
Theorem src_decode_is_model buf pos fuel :
  (10 < fuel)%nat -> src_decode_varint fuel buf pos = err_class (decode_varint buf pos).
Proof.
  intros Hf. unfold src_decode_varint, decode_varint, py_seek_fresh. cbv zeta.
  destruct (pos <? 0); [reflexivity|]. cbn [bind].
  rewrite (src_load_is_model _ fuel Hf).
  destruct (load_varint (skipn (Z.to_nat pos) buf)) as [[[v raw] rest]|k]; [reflexivity|].
  destruct k; reflexivity.
Qed.

(* err_class only renames ETooLong: it is the identity on every Ok and on every other error *)
Lemma err_class_ok {A} (r : result A) (a : A) : err_class r = Ok a <-> r = Ok a.
Proof. destruct r as [x|k]; [|destruct k]; cbn; split; intros H; try discriminate; exact H. Qed.

Lemma err_class_eof {A} (r : result A) : err_class r = Err EEof <-> r = Err EEof.
Proof. destruct r as [x|k]; [|destruct k]; cbn; split; intros H; try discriminate; exact H. Qed.

Lemma err_class_value {A} (r : result A) : err_class r = Err EValue <-> (r = Err EValue \/ r = Err ETooLong).
Proof.
  destruct r as [x|k]; [|destruct k]; cbn; split; intros H; try discriminate; try tauto;
    try (destruct H as [H|H]; discriminate); reflexivity.
Qed.

(* ---------- the out-of-fuel arm is unreachable above the bounds ---------- *)
Lemma src_encode_fuel_ok v fuel : (src_fuel_encode v <= fuel)%nat -> src_encode_varint fuel v <> Err EFuel.
Proof. intros Hf. rewrite src_encode_is_model by exact Hf. apply encode_no_fuel_error. Qed.

Lemma src_load_fuel_ok s fuel : (10 < fuel)%nat -> src_load_varint fuel s <> Err EFuel.
Proof.
  intros Hf. rewrite src_load_is_model by exact Hf. intros H.
  pose proof (load_no_fuel_error s) as N. destruct (load_varint s) as [x|k]; [discriminate|].
  destruct k; cbn in H; try discriminate. congruence.
Qed.

Lemma src_decode_fuel_ok buf pos fuel : (10 < fuel)%nat -> src_decode_varint fuel buf pos <> Err EFuel.
Proof.
  intros Hf. rewrite src_decode_is_model by exact Hf. unfold decode_varint.
  destruct (pos <? 0); [discriminate|].
  pose proof (load_no_fuel_error (skipn (Z.to_nat pos) buf)) as N.
  destruct (load_varint (skipn (Z.to_nat pos) buf)) as [[[v raw] rest]|k]; [discriminate|].
  destruct k; cbn; try discriminate. congruence.
Qed.

Lemma src_fuel_encode_in_range v : - 2 ^ 63 <= v < 2 ^ 64 -> (src_fuel_encode v <= 66)%nat.
Proof.
  intros Hv. unfold src_fuel_encode, enc_fuel.
  set (w := if v <? 0 then v + 2 ^ 64 else v).
  assert (Hw : 0 <= w < 2 ^ 64) by (subst w; destruct (v <? 0) eqn:E; lia).
  assert (Z.log2 w < 64).
  { destruct (Z.eq_dec w 0) as [->|Hne]; [cbn; lia|]. apply Z.log2_lt_pow2; lia. }
  pose proof (Z.log2_nonneg w). lia.
Qed.

(* ---------- the C16 headline statements, about the translated source ---------- *)
Lemma src_canonical v fuel : - 2 ^ 63 <= v < 2 ^ 64 -> (66 <= fuel)%nat ->
  exists bs, src_encode_varint fuel v = Ok bs /\ canonical (v mod 2 ^ 64) bs /\ (length bs <= 10)%nat.
Proof.
  intros Hv Hf. pose proof (src_fuel_encode_in_range v Hv).
  rewrite src_encode_is_model by lia. apply encode_in_range, Hv.
Qed.

Lemma src_inverse_load v rest fuel fuel' : - 2 ^ 63 <= v < 2 ^ 64 -> (66 <= fuel)%nat -> (10 < fuel')%nat ->
  exists bs, src_encode_varint fuel v = Ok bs /\ src_load_varint fuel' (bs ++ rest) = Ok (v mod 2 ^ 64, bs, rest).
Proof.
  intros Hv Hf Hf'. pose proof (src_fuel_encode_in_range v Hv).
  rewrite src_encode_is_model by lia.
  destruct (encode_load_inverse v rest Hv) as (bs & E & L). exists bs. split; [exact E|].
  rewrite src_load_is_model by exact Hf'. rewrite L. reflexivity.
Qed.

Lemma src_inverse_decode v pre rest fuel fuel' : - 2 ^ 63 <= v < 2 ^ 64 -> (66 <= fuel)%nat -> (10 < fuel')%nat ->
  exists bs, src_encode_varint fuel v = Ok bs /\
    src_decode_varint fuel' (pre ++ bs ++ rest) (Zlength pre) = Ok (v mod 2 ^ 64, Zlength pre + Zlength bs).
Proof.
  intros Hv Hf Hf'. pose proof (src_fuel_encode_in_range v Hv).
  rewrite src_encode_is_model by lia.
  destruct (encode_decode_inverse v pre rest Hv) as (bs & E & L). exists bs. split; [exact E|].
  rewrite src_decode_is_model by exact Hf'. rewrite L. reflexivity.
Qed.

Lemma src_size_total v fuel : (src_fuel_encode v <= fuel)%nat ->
  match src_encode_varint fuel v, src_size_varint v with
  | Ok bs, Ok n => n = Zlength bs
  | Err a, Err b => a = b
  | _, _ => False
  end.
Proof.
  intros Hf. rewrite src_encode_is_model by exact Hf. rewrite src_size_is_model. apply encode_size_agree_total.
Qed.

Lemma src_reject_low v fuel : v < - 2 ^ 63 -> src_encode_varint fuel v = Err EValue /\ src_size_varint v = Err EValue.
Proof.
  intros Hv. rewrite src_size_is_model. split; [|apply reject_low, Hv].
  unfold src_encode_varint, src_dump_varint. cbv zeta. change (Z.shiftl 1 63) with (2 ^ 63).
  replace (v <? - 2 ^ 63) with true by lia. reflexivity.
Qed.

Lemma src_too_long s fuel : (10 < fuel)%nat -> (10 <= length s)%nat ->
  Forall (fun b => 128 <= Z_of_byte b) (firstn 10 s) -> src_load_varint fuel s = Err EValue.
Proof.
  intros Hf Hl Hall. rewrite src_load_is_model by exact Hf. unfold load_varint.
  rewrite (load_go_toolong 10 0 0 [] s Hl Hall). reflexivity.
Qed.

Lemma src_eof s fuel : (10 < fuel)%nat -> (length s < 10)%nat ->
  Forall (fun b => 128 <= Z_of_byte b) s -> src_load_varint fuel s = Err EEof.
Proof.
  intros Hf Hl Hall. rewrite src_load_is_model by exact Hf. unfold load_varint.
  rewrite (load_go_eof 10 0 0 [] s Hl Hall). reflexivity.
Qed.

Lemma src_load_total s fuel : (10 < fuel)%nat ->
  (exists x, src_load_varint fuel s = Ok x) \/ src_load_varint fuel s = Err EEof \/ src_load_varint fuel s = Err EValue.
Proof.
  intros Hf. rewrite src_load_is_model by exact Hf. unfold load_varint.
  destruct (load_go_total 10 0 0 [] s) as [[x E]|[E|E]]; rewrite E; cbn; eauto.
Qed.

Lemma src_load_sound s v raw rest fuel : (10 < fuel)%nat ->
  src_load_varint fuel s = Ok (v, raw, rest) -> s = raw ++ rest /\ VarintRep v raw.
Proof.
  intros Hf H. rewrite src_load_is_model in H by exact Hf. apply (proj1 (err_class_ok _ _)) in H.
  apply load_varint_sound, H.
Qed.
