(* C05, message level, EMIT direction, part 2: one field.  For a field of a well-formed class matched by the
   reference-side schema, holding an in-range value: if to_dict emits it, the text is accepted by the specified
   reference parser as the abstract field value; if to_dict leaves it out, the abstract field value is the
   default the parser assumes for an absent member. *)
From BP Require Import Base.Prelude Model.Types Model.Float Model.Object Model.Eq Model.WellFormed Model.TimeCore Spec.Time.
From BP Require Model.Json Model.Enum Model.Casing Spec.JsonMap Model.Time.
From BP Require Import gen.Tables.
From BP Require Import Proofs.BytesP Proofs.C04Def Proofs.C04ScalarP Proofs.C04ElemP Proofs.C04FieldP Proofs.C04ObjP.
From BP Require Proofs.C04CurP.
From BP Require Import Proofs.C05Casing Proofs.C05Leaf Proofs.C05Model Proofs.C05MsgDef Proofs.C05MsgSpec Proofs.C05MsgLeaf
                       Proofs.C05MsgElem.
From Coq Require Import Lia ZifyBool.

Lemma scalar_not_explicit p : scalar_py p = true -> explicit_py p = false.
Proof. destruct p; try discriminate; reflexivity. Qed.
Lemma message_explicit p : scalar_py p = false -> explicit_py p = true.
Proof. destruct p; try discriminate; reflexivity. Qed.

Lemma f64_zero_cases b : 0 <= b < 2 ^ 64 -> f64_is_zero b = true -> b = 0 \/ b = 2 ^ 63.
Proof.
  intros R Z. unfold f64_is_zero in Z. change (2 ^ 63 - 1) with (Z.ones 63) in Z. rewrite Z.land_ones in Z by lia.
  apply Z.eqb_eq in Z. change (2 ^ 64) with 18446744073709551616 in R. change (2 ^ 63) with 9223372036854775808 in *.
  pose proof (Z.div_mod b 9223372036854775808 ltac:(lia)) as D.
  assert (Q : 0 <= b / 9223372036854775808 < 2) by (split; [apply Z.div_pos; lia|apply Z.div_lt_upper_bound; lia]).
  lia.
Qed.

(* the default of an implicit-presence scalar, abstractly *)
Lemma abs_default_kind off nc ne t p :
  scalar_py p = true -> pyty_fits nc ne t p = true ->
  S.FOne (abs_default p) =
  match kind_of_elem off t p with
  | S.JScalar k => S.FOne (S.default_scalar k)
  | S.JEnum _ => S.FOne (S.AEnum 0)
  | _ => S.FAbsent
  end.
Proof. intros Sp Hp. destruct p; try discriminate Sp; destruct t; try discriminate Hp; reflexivity. Qed.

(* an implicit-presence scalar that == its default denotes the default (K13 aside) *)
Lemma default_abs sc nc ne f t p x :
  fhint f = HPlain p -> scalar_py p = true -> pyty_fits nc ne t p = true -> scalar_in_range t x = true ->
  is_default sc f x = true -> (forall b, x = PFloat b -> b <> 2 ^ 63) ->
  abs_elem sc p x = abs_default p.
Proof.
  intros Hh Sp Hp Hr D Z.
  destruct x; try (destruct t; discriminate Hr); cbn [is_default] in D; rewrite Hh in D.
  - destruct p; try discriminate Sp; try discriminate D; destruct t; try discriminate Hp; try discriminate Hr;
      apply Z.eqb_eq in D; subst; reflexivity.
  - destruct p; try discriminate Sp; try discriminate D; destruct t; try discriminate Hp; try discriminate Hr;
      (destruct b; [discriminate D|reflexivity]).
  - destruct p; try discriminate D; try (destruct t; discriminate Hp).
    assert (R : 0 <= bits < 2 ^ 64).
    { destruct t; try discriminate Hr; cbn [scalar_in_range] in Hr; unfold int_in in Hr; lia. }
    destruct (f64_zero_cases bits R D) as [->| ->]; [reflexivity|]. exfalso. exact (Z _ eq_refl eq_refl).
  - destruct p; try discriminate D; try (destruct t; discriminate Hp). destruct utf8; [reflexivity|discriminate D].
  - destruct p; try discriminate D; try (destruct t; discriminate Hp). destruct b; [reflexivity|discriminate D].
Qed.

Lemma pv_none_dec x : x = PNone \/ x <> PNone.
Proof. destruct x; [right; discriminate|left; reflexivity|right; discriminate..]. Qed.

Lemma wrapper_kind off nc ne w p :
  is_some' (wrapper_cls w) = true -> pyty_fits nc ne w p = true -> kind_of_elem off w p = S.JScalar (sk w).
Proof. destruct w; cbn; intros H; try discriminate H; destruct p; intros F; try discriminate F; reflexivity. Qed.

Lemma scalar_range_not_none t : scalar_in_range t PNone = false.
Proof. destruct t; reflexivity. Qed.

Lemma elem_is_scalar rec sc t p y :
  scalar_py p = true -> elem_in_range sc t p y = true ->
  J.elem_to_json rec sc t p y = J.scalar_to_json sc t p y.
Proof.
  intros Sp Hr. rewrite (elem_scalar _ _ _ _ Sp) in Hr. destruct t, y; try discriminate Hr; reflexivity.
Qed.

Section Field.
  Variable sc : schema.
  Variable js : S.jschema.
  Variable off : nat.
  Hypothesis JM : js_matches off sc js = true.
  Let nj := length (S.jclasses js).
  Let nc := length (classes sc).
  Let ne := length (enums sc).
  Variable n : nat.
  Hypothesis IHo : forall o', (pv_size (PMsg o') < n)%nat -> in_range sc o' = true -> pv_good5 sc (PMsg o') = true ->
    emit_ok sc js off o'.

  Lemma field_emit ng f jf sel x :
    wf_field sc ng f = true -> fmatch off nj f jf ->
    sel = (if is_some' (fgroup f) then Some true else None) ->
    (pv_size x < n)%nat -> x <> PPlaceholder ->
    value_ok sc f x = true -> pv_good5 sc x = true -> field_nan_canon x = true -> neg_zero_field f x = true ->
    match J.field_to_json (J.to_dict J.CAMEL false sc) sc false f sel x with
    | Some j => exists j', ct j = Some j' /\ acc_fieldval js jf j' = Some (abs_field (abs_elem sc) f sel x)
    | None => abs_field (abs_elem sc) f sel x = S.default_field jf
    end.
  Proof.
    intros W [Fk Fkind Fcard Fone Fmsg] Hsel Hs Hx Hv Hg Hn Hz.
    destruct f as [name num t mp grp wr op hint ent].
    unfold wf_field in W. cbn [fnum fgroup fhint fopt fwraps fmap fty] in W, Hsel.
    fold nc ne in W. apply andb_prop in W as [W Wh]. clear W.
    unfold value_ok in Hv. cbn [fhint fty fwraps fmap] in Hv.
    unfold kind_of, elem_ptype in Fkind. unfold card_of in Fcard. cbn [fwraps fmap fty fhint fgroup J.hint_elem] in Fkind, Fcard, Fmsg.
    unfold neg_zero_field in Hz. cbn [fhint fgroup] in Hz.
    unfold acc_fieldval, S.default_field. rewrite Fcard, Fkind. clear Fcard Fkind Fk Fone.
    unfold J.field_to_json. cbn [fty fwraps fhint fmap fopt J.hint_elem abs_field].
    destruct hint as [p|p|p|pk p]; cbn [J.hint_elem fhint] in *.
    - (* ---- plain ---- *)
      apply andb_true5 in Wh as [Wop [Wwr [Wmp [Wt Wp]]]].
      apply negb_true in Wop. apply is_some'_false in Wwr. apply is_some'_false in Wmp. subst op wr mp.
      assert (Hr : elem_in_range sc t p x = true) by (destruct x; try discriminate Hv; try congruence; exact Hv).
      destruct (scalar_py p) eqn:Sp.
      + pose proof (fits_scalar _ _ _ _ Sp Wp) as Ht. destruct (scalar_not_message t Ht) as [Nm Np].
        rewrite Nm, Np. rewrite (elem_scalar _ _ _ _ Sp) in Hr. rewrite (scalar_not_explicit p Sp), orb_false_r.
        cbn [abs_field fhint].
        assert (Ex : (match x with PNone => Some J.JNull | _ => Some (J.scalar_to_json sc t p x) end)
                     = Some (J.scalar_to_json sc t p x)) by (destruct x; try reflexivity; destruct t; discriminate Hr).
        assert (Ea : forall s', s' <> Some false ->
                       match s' with
                       | Some false => S.FAbsent
                       | Some true => match x with PPlaceholder => S.FAbsent | _ => S.FOne (abs_elem sc p x) end
                       | None => match x with
                                 | PPlaceholder => if explicit_py p then S.FAbsent else S.FOne (abs_default p)
                                 | PMsg o => if osow o then S.FOne (abs_elem sc p x) else S.FAbsent
                                 | PDatetime us => if us =? 0 then S.FAbsent else S.FOne (abs_elem sc p x)
                                 | PTimedelta us => if us =? 0 then S.FAbsent else S.FOne (abs_elem sc p x)
                                 | _ => S.FOne (abs_elem sc p x)
                                 end
                       end = S.FOne (abs_elem sc p x)).
        { intros [[|]|] Hs'; try congruence; destruct x; try reflexivity; try congruence; destruct t; discriminate Hr. }
        pose proof (Ea (Some true) ltac:(discriminate)) as Ea1. pose proof (Ea None ltac:(discriminate)) as Ea2.
        cbv iota in Ea1, Ea2. clear Ea.
        assert (Hnc : nan_canonical x = true) by (destruct x; try reflexivity; exact Hn).
        assert (Emit : exists j', ct (J.scalar_to_json sc t p x) = Some j' /\
                         option_map S.FOne (S.acc_val js (kind_of_elem off t p) j') = Some (S.FOne (abs_elem sc p x))).
        { destruct (scalar_emit sc js off JM t p x Ht Wp Hr Hnc) as (j' & C & A). exists j'. rewrite A. auto. }
        destruct grp as [g|]; cbn [is_some'] in *; subst sel.
        * rewrite orb_true_r. cbv iota. rewrite Ex, Ea1. exact Emit.
        * cbn [orb]. rewrite orb_false_r. cbv iota. rewrite Ea2.
          destruct (is_default sc _ x) eqn:D; cbn [negb]; cbv iota.
          -- rewrite <- (abs_default_kind off nc ne t p Sp Wp). f_equal.
             apply (default_abs sc nc ne (mkF name num t None None None false (HPlain p) ent) t p x eq_refl Sp Wp Hr D).
             intros b -> E. subst b. discriminate Hz.
          -- rewrite Ex. exact Emit.
      + pose proof (fits_message _ _ _ _ Sp Wp) as ->. change (ptype_eqb TMessage TMessage) with true. cbv iota.
        rewrite (message_explicit p Sp), orb_true_r. cbn [abs_field fhint].
        assert (Hnc : nan_canonical x = true) by (destruct p, x; try discriminate; reflexivity).
        assert (Emit : exists j', ct (J.elem_to_json (J.to_dict J.CAMEL false sc) sc TMessage p x) = Some j' /\
                         option_map S.FOne (S.acc_val js (kind_of_elem off TMessage p) j') = Some (S.FOne (abs_elem sc p x))).
        { destruct (elem_emit sc js off JM n IHo TMessage p x Hs Wp Fmsg Hr Hg Hnc) as (j' & C & A).
          exists j'. rewrite A. auto. }
        destruct p; try discriminate Sp; destruct x; try discriminate Hr; cbn [J.elem_to_json] in Emit;
          unfold J.emit; rewrite ?orb_false_r; destruct grp as [g|]; cbn [is_some'] in Hsel; subst sel; cbn [orb]; cbv iota;
          rewrite ?orb_true_r; try exact Emit.
        * destruct (osow o); [exact Emit|reflexivity].
        * destruct (us =? 0); [reflexivity|exact Emit].
        * destruct (us =? 0); [reflexivity|exact Emit].
    - (* ---- optional: a wrapper or proto3 optional ---- *)
      cbn [abs_field fhint].
      assert (Eo : x <> PNone ->
                   match x with PNone | PPlaceholder => S.FAbsent | _ => S.FOne (abs_elem sc p x) end
                   = S.FOne (abs_elem sc p x)) by (intros Hnn; destruct x; congruence).
      destruct wr as [w|].
      + apply andb_prop in Wh as [Wh Wrest]. apply andb_prop in Wh as [Wmp Wgrp].
        apply is_some'_false in Wmp. apply is_some'_false in Wgrp. subst mp grp. cbn [is_some'] in Hsel. subst sel.
        apply andb_prop in Wrest as [Wrest Wfit]. apply andb_prop in Wrest as [Wrest Wcls]. apply andb_prop in Wrest as [Wop Wt].
        apply negb_true in Wop. subst op. apply ptype_eqb_eq in Wt. subst t.
        destruct (wrapper_value_type w) as [vt|] eqn:Ev; [|discriminate Wfit].
        pose proof (wrapper_same w vt Ev) as Evt. subst vt.
        pose proof (wrapper_scalar w Wcls) as Ht. pose proof (fits_scalar_py _ _ _ _ Ht Wfit) as Sp.
        change (ptype_eqb TMessage TMessage) with true. cbv iota.
        destruct (pv_none_dec x) as [->|Hnn]; [reflexivity|].
        assert (Hr : scalar_in_range w x = true).
        { rewrite <- (elem_scalar sc w p x Sp). destruct x; try congruence; exact Hv. }
        match goal with |- match ?e with Some _ => _ | None => _ end =>
          assert (E : e = Some (J.scalar_to_json sc w p x))
            by (destruct x; try congruence; try reflexivity; destruct w; discriminate Hr) end.
        rewrite E, (Eo Hnn).
        assert (Hnc : nan_canonical x = true) by (destruct x; try reflexivity; exact Hn).
        destruct (scalar_emit sc js off JM w p x Ht Wfit Hr Hnc) as (j' & C & A). exists j'. split; [exact C|].
        rewrite (wrapper_kind off nc ne w p Wcls Wfit), acc_val_scalar in A. rewrite acc_val_wrapper, A. reflexivity.
      + apply andb_prop in Wh as [Wh Wrest]. apply andb_prop in Wh as [Wmp Wgrp].
        apply is_some'_false in Wmp. apply is_some'_false in Wgrp. subst mp grp. cbn [is_some'] in Hsel. subst sel.
        apply andb_prop in Wrest as [Wrest Wp]. apply andb_prop in Wrest as [Wop Wt]. subst op.
        destruct (pv_none_dec x) as [->|Hnn].
        { destruct (ptype_eqb t TMessage); [reflexivity|]. rewrite (negb_true _ Wt). cbn [is_default fhint negb orb]. reflexivity. }
        assert (Hr : elem_in_range sc t p x = true) by (destruct x; try congruence; exact Hv).
        rewrite (Eo Hnn).
        destruct (scalar_py p) eqn:Sp.
        * pose proof (fits_scalar _ _ _ _ Sp Wp) as Ht. destruct (scalar_not_message t Ht) as [Nm Np].
          rewrite Nm, Np. rewrite (elem_scalar _ _ _ _ Sp) in Hr.
          assert (D : is_default sc (mkF name num t None None None true (HOptional p) ent) x = false)
            by (destruct x; try congruence; reflexivity).
          rewrite D. cbn [negb orb].
          assert (Ex : (match x with PNone => Some J.JNull | _ => Some (J.scalar_to_json sc t p x) end)
                       = Some (J.scalar_to_json sc t p x)) by (destruct x; try reflexivity; congruence).
          rewrite Ex.
          assert (Hnc : nan_canonical x = true) by (destruct x; try reflexivity; exact Hn).
          destruct (scalar_emit sc js off JM t p x Ht Wp Hr Hnc) as (j' & C & A). exists j'. rewrite A. auto.
        * pose proof (fits_message _ _ _ _ Sp Wp) as ->. change (ptype_eqb TMessage TMessage) with true. cbv iota.
          assert (Hnc : nan_canonical x = true) by (destruct p, x; try discriminate; reflexivity).
          assert (Emit : exists j', ct (J.elem_to_json (J.to_dict J.CAMEL false sc) sc TMessage p x) = Some j' /\
                           option_map S.FOne (S.acc_val js (kind_of_elem off TMessage p) j') = Some (S.FOne (abs_elem sc p x))).
          { destruct (elem_emit sc js off JM n IHo TMessage p x Hs Wp Fmsg Hr Hg Hnc) as (j' & C & A).
            exists j'. rewrite A. auto. }
          destruct p; try discriminate Sp; destruct x; try discriminate Hr; cbn [J.elem_to_json] in Emit;
            unfold J.emit; rewrite ?orb_true_r; exact Emit.
    - (* ---- repeated ---- *)
      cbn [abs_field fhint].
      apply andb_prop in Wh as [Wh Wp]. apply andb_prop in Wh as [Wh Wt]. apply andb_prop in Wh as [Wh Wgrp].
      apply andb_prop in Wh as [Wh Wmp]. apply andb_prop in Wh as [Wop Wwr].
      apply negb_true in Wop. apply is_some'_false in Wwr. apply is_some'_false in Wmp. apply is_some'_false in Wgrp.
      subst op wr mp grp. cbn [is_some'] in Hsel. subst sel.
      destruct x as [| | | | | | | | |l| |]; try discriminate Hv; try congruence. clear Hx.
      cbv beta iota in Hv. rewrite all_list_forallb in Hv.
      cbn [field_nan_canon] in Hn.
      unfold pv_good5 in Hg. cbn [pv_all] in Hg. fold (pv_good5 sc) in Hg.
      assert (Hsz : forall y, In y l -> (pv_size y < n)%nat).
      { intros y Hy. rewrite size_list in Hs. pose proof (in_sum_size y l Hy). lia. }
      destruct (list_emit sc js off JM n IHo t p l Hsz Wp Fmsg Hv Hg Hn) as (ys & A & B).
      destruct (scalar_py p) eqn:Sp.
      + pose proof (fits_scalar _ _ _ _ Sp Wp) as Ht. destruct (scalar_not_message t Ht) as [Nm Np].
        rewrite Nm, Np. cbn [orb].
        destruct l as [|y l']; [cbn [is_default fhint negb orb]; reflexivity|].
        cbn [is_default fhint negb orb]. cbv iota.
        exists (S.JArr ys). split; [|rewrite B; reflexivity].
        rewrite ct_list.
        rewrite (map_ext_in _ (J.elem_to_json (J.to_dict J.CAMEL false sc) sc t p)).
        * rewrite A. reflexivity.
        * intros z Hz'. symmetry. apply elem_is_scalar; [exact Sp|]. rewrite forallb_forall in Hv. apply Hv, Hz'.
      + pose proof (fits_message _ _ _ _ Sp Wp) as ->. change (ptype_eqb TMessage TMessage) with true. cbv iota.
        unfold J.emit. destruct l as [|y l']; [reflexivity|]. cbn [is_nil negb orb]. cbv iota.
        exists (S.JArr ys). split; [|rewrite B; reflexivity].
        rewrite ct_list, A. reflexivity.
    - (* ---- map ---- *)
      cbn [abs_field fhint].
      apply andb_prop in Wh as [Wh Wentry]. apply andb_prop in Wh as [Wh Wmap]. apply andb_prop in Wh as [Wh Wt].
      apply andb_prop in Wh as [Wh Wgrp]. apply andb_prop in Wh as [Wop Wwr].
      apply negb_true in Wop. apply is_some'_false in Wwr. apply is_some'_false in Wgrp. subst op wr grp.
      cbn [is_some'] in Hsel. subst sel.
      apply ptype_eqb_eq in Wt. subst t.
      destruct mp as [[kt vt]|]; [|discriminate Wmap].
      apply andb_prop in Wmap as [Wmap Wv]. apply andb_prop in Wmap as [Wmap Wk]. apply andb_prop in Wmap as [Wkey Wvt].
      destruct x as [| | | | | | | | | |d|]; try discriminate Hv; try congruence. clear Hx.
      cbv beta iota in Hv. rewrite all_dict_forallb in Hv.
      cbn [field_nan_canon] in Hn.
      unfold pv_good5 in Hg. cbn [pv_all] in Hg. fold (pv_good5 sc) in Hg.
      assert (Hsz : forall k y, In (k, y) d -> (pv_size y < n)%nat).
      { intros k y Hy. rewrite size_dict in Hs. pose proof (in_sum_size_d k y d Hy). lia. }
      destruct (dict_emit sc js off JM n IHo kt vt pk p d Hsz Wkey Wk Wv Fmsg Hv Hg Hn) as (es & A & B).
      change (ptype_eqb TMap TMessage) with false. change (ptype_eqb TMap TMap) with true. cbv iota.
      unfold J.emit. destruct d as [|kx d']; [reflexivity|]. cbn [is_nil negb orb]. cbv iota.
      exists (S.JObj es). split; [|rewrite B; reflexivity].
      rewrite ct_obj_entries, A. reflexivity.
  Qed.

  (* a PLACEHOLDER attribute outside any oneof denotes the default the parser assumes *)
  Lemma placeholder_default ng f jf :
    wf_field sc ng f = true -> fmatch off nj f jf -> fgroup f = None ->
    abs_field (abs_elem sc) f None PPlaceholder = S.default_field jf.
  Proof.
    intros W [Fk Fkind Fcard Fone Fmsg] G.
    destruct f as [name num t mp grp wr op hint ent]. cbn [fgroup] in G. subst grp.
    unfold wf_field in W. cbn [fnum fgroup fhint fopt fwraps fmap fty] in W.
    fold nc ne in W. apply andb_prop in W as [W Wh]. clear W.
    unfold kind_of, elem_ptype in Fkind. unfold card_of in Fcard.
    cbn [fwraps fmap fty fhint fgroup J.hint_elem] in Fkind, Fcard.
    unfold S.default_field. rewrite Fcard, Fkind.
    destruct hint as [p|p|p|pk p]; cbn [abs_field fhint J.hint_elem is_some' orb]; try reflexivity.
    apply andb_true5 in Wh as [Wop [Wwr [Wmp [Wt Wp]]]].
    apply negb_true in Wop. apply is_some'_false in Wwr. apply is_some'_false in Wmp. subst op wr mp.
    destruct (scalar_py p) eqn:Sp.
    - rewrite (scalar_not_explicit p Sp). apply (abs_default_kind off nc ne t p Sp Wp).
    - rewrite (message_explicit p Sp). reflexivity.
  Qed.

  (* a oneof member its group does not select is absent *)
  Lemma unselected_default ng f jf g x :
    wf_field sc ng f = true -> fmatch off nj f jf -> fgroup f = Some g ->
    abs_field (abs_elem sc) f (Some false) x = S.default_field jf.
  Proof.
    intros W [Fk Fkind Fcard Fone Fmsg] G.
    destruct (C04CurP.group_field_plain sc ng f g W G) as (_ & _ & p & Hp).
    unfold S.default_field. rewrite Fcard. unfold card_of, abs_field. rewrite Hp, G. reflexivity.
  Qed.
End Field.
