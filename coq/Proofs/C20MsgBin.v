(* C20, message level, binary codec: an enum-typed field in any of the five positions reads, after
   Cls().parse(bytes(m)), exactly as it read before.  C01's theorem gives parse (enc m) = norm_obj m for every
   message of every well-formed schema; here: norm_obj leaves the value an enum field READS AS untouched
   (a raw slot holding the proto3 default may come back as PLACEHOLDER, which reads as that default). *)
From Coq Require Import ZArith List Bool Lia ZifyBool.
From BP Require Import Base.Prelude Model.Types Model.Varint Model.Scalar Model.Float Model.Utf8.
From BP Require Import Model.Object Model.Eq Model.TimeCore Model.Encode Model.Decode Model.WellFormed Model.C01Def Model.C20Msg.
From BP Require Import gen.Tables Proofs.C01Unfold Proofs.C01Msg Proofs.C01Main Proofs.C01Final Proofs.C20MsgDef.
From BP Require Model.Enum Proofs.EnumP.

Lemma map_norm_elem_i32 sc l : Forall i32 l -> map (norm_elem (norm_obj sc) TEnum) l = l.
Proof.
  induction 1 as [|y l (z & -> & _) _ IH]; [reflexivity|]. cbn [map]. rewrite IH. reflexivity.
Qed.

Lemma map_norm_value_i32 sc (d : list (pv * pv)) :
  Forall (fun ky => i32 (snd ky)) d ->
  map (fun kv => (fst kv, norm_map_value sc (norm_obj sc) TEnum (snd kv))) d = d.
Proof.
  induction 1 as [|[k y] d (z & E & _) _ IH]; [reflexivity|]. cbn [snd] in E. subst y. cbn [map fst snd]. rewrite IH. reflexivity.
Qed.

(* one slot *)
Lemma enum_slot_rd sc cur i f pos e x0 :
  enum_position f = Some (pos, e) -> enum_shape pos x0 -> group_selects cur f i <> Some false ->
  rdv sc f (norm_slot sc (norm_obj sc) f (group_selects cur f i) x0) = rdv sc f x0.
Proof.
  intros Hp Hs Hsel. pose proof (enum_default sc f pos e Hp) as Hd.
  destruct (enum_position_inv f pos e Hp) as (Hw & Hpos).
  assert (Hgs : forall g, fgroup f = Some g -> group_selects cur f i = Some true).
  { intros g Hg. unfold group_selects in *. rewrite Hg in *. destruct (opt_nat_eqb (nth g cur None) (Some i)); [reflexivity|congruence]. }
  assert (Hgn : fgroup f = None -> group_selects cur f i = None).
  { intros Hg. unfold group_selects. rewrite Hg. reflexivity. }
  destruct pos.
  - (* singular *)
    destruct Hpos as (Hh & Ht & Ho & Hg & Hm). rewrite (Hgn Hg).
    destruct Hs as [->|(z & -> & _)].
    + unfold norm_slot. rewrite Ho. reflexivity.
    + unfold norm_slot. rewrite Ho, Hg, Hw, Ht. cbn [is_some orb negb andb].
      unfold is_default. rewrite Hh. rewrite andb_true_r.
      destruct (Z.eqb_spec z 0) as [->|Hz]; [|reflexivity].
      cbn [rdv]. exact Hd.
  - (* repeated *)
    destruct Hpos as (Hh & Ht & Ho & Hg & Hm). rewrite (Hgn Hg).
    destruct Hs as [->|(l & -> & Hl)].
    + unfold norm_slot. rewrite Ho. reflexivity.
    + unfold norm_slot. rewrite Ho, Ht. destruct l as [|y l]; [cbn [rdv]; exact Hd|].
      rewrite (map_norm_elem_i32 sc (y :: l) Hl). reflexivity.
  - (* map value *)
    destruct Hpos as (pk & kt & Hh & Ht & Ho & Hg & Hm). rewrite (Hgn Hg).
    destruct Hs as [->|(d & -> & Hl)].
    + unfold norm_slot. rewrite Ho. reflexivity.
    + unfold norm_slot. rewrite Ho, Hm. destruct d as [|ky d]; [cbn [rdv]; exact Hd|].
      rewrite (map_norm_value_i32 sc (ky :: d) Hl). reflexivity.
  - (* oneof member *)
    destruct Hpos as (Hh & Ht & Ho & (g & Hg) & Hm). rewrite (Hgs g Hg).
    destruct Hs as [->|(z & -> & _)].
    + unfold norm_slot. rewrite Hd. cbn [rdv]. symmetry. exact Hd.
    + unfold norm_slot. rewrite Hg, Hw, Ht. cbn [is_some orb negb andb]. rewrite andb_false_r. reflexivity.
  - (* proto3 optional *)
    destruct Hpos as (Hh & Ht & Ho & Hg & Hm). rewrite (Hgn Hg).
    destruct Hs as [->|[->|(z & -> & _)]].
    + unfold norm_slot. rewrite Ho. cbn [rdv]. symmetry. exact Hd.
    + unfold norm_slot. rewrite Ho. reflexivity.
    + unfold norm_slot. rewrite Ho, Hw, Ht. cbn [is_some orb negb andb]. rewrite orb_true_r. cbn [orb negb].
      rewrite andb_false_r. reflexivity.
Qed.

Lemma nth_error_some_lt {A B} (l : list A) (fs : list B) i f :
  length l = length fs -> nth_error fs i = Some f -> exists x, nth_error l i = Some x.
Proof.
  intros Hl Hf. destruct (nth_error l i) as [x|] eqn:E; [eauto|].
  apply nth_error_None in E. assert (i < length fs)%nat by (apply nth_error_Some; congruence). lia.
Qed.

(* the raw slot of an in-range message *)
Lemma enum_slot_of_range sc c raw sow unk cur i f pos e :
  in_range sc (Obj c raw sow unk cur) = true ->
  nth_error (cfields (get_class sc c)) i = Some f -> enum_position f = Some (pos, e) ->
  exists x0, nth_error raw i = Some x0 /\ nth i raw PPlaceholder = x0 /\ enum_shape pos x0.
Proof.
  intros Hr Hf Hp. rewrite in_range_unfold in Hr.
  apply andb_true_iff in Hr as [Hr Hsl]. apply andb_true_iff in Hr as [Hr _]. apply andb_true_iff in Hr as [_ Hlen].
  apply Nat.eqb_eq in Hlen.
  destruct (nth_error_some_lt raw _ i f Hlen Hf) as (x0 & Hx). exists x0. split; [exact Hx|].
  split; [exact (nth_error_nth raw i PPlaceholder Hx)|].
  exact (slot_enum_shape sc f pos e x0 Hp (slots_in_range_nth sc raw _ i x0 f Hsl Hx Hf)).
Qed.

(* the whole object: the decoded form reads the enum field as the original does *)
Lemma enum_read_norm sc m i f pos e :
  in_range sc m = true ->
  nth_error (cfields (get_class sc (ocls m))) i = Some f -> enum_position f = Some (pos, e) ->
  read sc (norm_obj sc m) i = read sc m i.
Proof.
  destruct m as [c raw sow unk cur]. cbn [ocls]. intros Hr Hf Hp.
  destruct (enum_slot_of_range sc c raw sow unk cur i f pos e Hr Hf Hp) as (x0 & Hx & Hn & Hs).
  rewrite norm_obj_unfold, !(read_rdv sc c _ _ _ cur i f Hf).
  destruct (group_selects cur f i) as [[|]|] eqn:Hsel; [|reflexivity|]; f_equal.
  - rewrite (norm_slots_nth sc cur raw _ O i x0 f Hx Hf). cbn [Nat.add]. rewrite Hn, Hsel.
    rewrite <- Hsel. apply (enum_slot_rd sc cur i f pos e x0 Hp Hs). rewrite Hsel. discriminate.
  - rewrite (norm_slots_nth sc cur raw _ O i x0 f Hx Hf). cbn [Nat.add]. rewrite Hn, Hsel.
    rewrite <- Hsel. apply (enum_slot_rd sc cur i f pos e x0 Hp Hs). rewrite Hsel. discriminate.
Qed.

(* every number an in-range message holds in an enum field is an int32 *)
Lemma enum_read_int32 sc m i f pos e x v :
  in_range sc m = true ->
  nth_error (cfields (get_class sc (ocls m))) i = Some f -> enum_position f = Some (pos, e) ->
  read sc m i = Ok x -> holds_enum pos x v = true -> EnumP.int32 v.
Proof.
  destruct m as [c raw sow unk cur]. cbn [ocls]. intros Hr Hf Hp Hx Hh.
  destruct (enum_slot_of_range sc c raw sow unk cur i f pos e Hr Hf Hp) as (x0 & _ & Hn & Hs).
  rewrite (read_rdv sc c _ _ _ cur i f Hf), Hn in Hx.
  assert (E : x = rdv sc f x0) by (destruct (group_selects cur f i) as [[|]|]; congruence). subst x.
  exact (holds_shape_int32 sc f pos e x0 v Hp Hs Hh).
Qed.

Lemma value_ok_in_range sc m : c01_value_ok sc m = true -> in_range sc m = true.
Proof. unfold c01_value_ok. intros H. apply andb_true_iff in H as [H _]. exact H. Qed.

(* ---------------------------------------------------------------- the theorem *)
Theorem roundtrip_message_binary sc m i f pos e x v :
  c01_schema_ok sc = true -> c01_value_ok sc m = true ->
  nth_error (cfields (get_class sc (ocls m))) i = Some f -> enum_position f = Some (pos, e) ->
  read sc m i = Ok x -> holds_enum pos x v = true ->
  EnumP.int32 v /\
  field_member sc e (PInt v) = Some (EnumP.canon (Enum.members_of (enum_body sc e)) v) /\
  exists bs, enc_obj sc m = Ok bs /\
    (Zlength bs < 2 ^ 64 ->
     exists m', parse sc (ocls m) bs = Ok m' /\
       read sc m' i = Ok x /\
       (forall g, which_one_of m' g = which_one_of m g) /\
       enc_obj sc m' = Ok bs).
Proof.
  intros Hsc Hv Hf Hp Hx Hh. pose proof (value_ok_in_range sc m Hv) as Hr.
  split; [exact (enum_read_int32 sc m i f pos e x v Hr Hf Hp Hx Hh)|].
  split; [apply member_canon|].
  destruct (c01_roundtrip sc m Hsc Hv) as (bs & Eb & Hrt). exists bs. split; [exact Eb|].
  intros Hsz. destruct (Hrt Hsz) as (m' & Hparse & Hm' & _ & Hw & _ & Henc).
  exists m'. split; [exact Hparse|]. split; [|split; [exact Hw|exact Henc]].
  subst m'. rewrite (enum_read_norm sc m i f pos e Hr Hf Hp). exact Hx.
Qed.
