(* CLONE of Proofs/C01Slot2.v with norm_obj replaced by normu_obj (Model/C14UDef.v: every message keeps its unknown
   bytes) and Good by GoodU; see Proofs/C14UMain.v for what changes. *)
(* C01 layer 4e — the remaining slot shapes: nothing written (unselected oneof member, None, a
   PLACEHOLDER that is not the selected member), the selected oneof member still holding PLACEHOLDER
   (its default is written), packed and unpacked repeated fields. *)
From Coq Require Import ZArith List Bool Lia ZifyBool.
From BP Require Import Base.Prelude Model.Types Model.Varint Model.Scalar Model.Float Model.Utf8.
From BP Require Import Model.Object Model.Eq Model.TimeCore Model.Encode Model.Decode Model.WellFormed Model.C01Def Model.C14UDef.
From BP Require Import Proofs.C14UUnfold.
From BP Require Import gen.Tables Proofs.BytesP Proofs.LenP Proofs.C01Scalar Proofs.C01Frame Proofs.C01Step Proofs.C01Apply
     Proofs.C01Elem Proofs.C01Field Proofs.C01Builtin Proofs.C01Unfold Proofs.C14UValue Proofs.C14USlot.

Lemma all_fix_forall (P : pv -> bool) l :
  (fix all (l : list pv) : bool := match l with [] => true | y :: l' => P y && all l' end) l = true ->
  Forall (fun y => P y = true) l.
Proof.
  induction l as [|y l IH]; intros H; [constructor|]. apply andb_true_iff in H as [H1 H2]. constructor; auto.
Qed.

Lemma norm_elem_not_list sc t p y vs : elem_in_range sc t p y = true -> norm_elem (normu_obj sc) t y <> PList vs.
Proof.
  destruct y; try discriminate; cbn [norm_elem]; intros H; try (destruct t; discriminate).
  destruct p; try discriminate H; destruct t; discriminate H.
Qed.

Lemma preprocess_packed_nonempty msg t x a :
  tmem t PACKED_TYPES = true -> scalar_in_range t x = true -> preprocess_with msg t None x = Ok a -> a <> [].
Proof.
  intros Ht Hr Ha. destruct (tmem t FIXED_TYPES) eqn:Hf.
  - destruct (scalar_fixed_rt t x Hf Hr) as (a' & Pa & La & _).
    rewrite preprocess_fixed in Ha by exact Hf. rewrite Pa in Ha. injection Ha as <-.
    unfold fixed_size in La. destruct a'; [destruct (tmem t WIRE_FIXED_32_TYPES); discriminate|discriminate].
  - assert (Hv : tmem t WIRE_VARINT_TYPES = true)
      by (destruct t; try reflexivity; vm_compute in Hf; vm_compute in Ht; discriminate).
    destruct (scalar_varint_rt msg t x Hv Hr) as (a' & n & Pa & Na & _). rewrite Pa in Ha. injection Ha as <-. exact Na.
Qed.

Lemma packed_scalar nc ne t p :
  tmem t PACKED_TYPES = true -> pyty_fits nc ne t p = true ->
  match p with PyMsg _ | PyDatetime | PyTimedelta => False | _ => True end.
Proof. destruct t, p; cbn; intros H1 H2; try discriminate; exact I. Qed.

Section Slot2.
  Variables (sc : schema) (fuel' : nat) (c : nat).
  Hypothesis Hbi : builtins_exact sc = true.
  Let cd := get_class sc c.
  Let fs := cfields cd.
  Let nc := length (classes sc).
  Let ne := length (enums sc).

  Variables (cur : list (option nat)) (i : nat) (f : fdesc).
  Hypothesis Hf : nth_error fs i = Some f.
  Hypothesis Hnd : nodup_z (map fnum fs) = true.
  Hypothesis Hwf : wf_field sc (cngroups cd) f = true.
  Let sel := group_selects cur f i.

  Variables (rawP : list pv) (unk : list byte) (curP : list (option nat)).
  Hypothesis Hfresh : nth i rawP PPlaceholder = fresh_of f.
  Hypothesis Hlen : (i < length rawP)%nat.
  Hypothesis Hsib : forall g, fgroup f = Some g -> sibs_clear fs rawP g i.

  (* the shape of every slot lemma *)
  Definition slot_goal (x : pv) : Prop :=
    exists here, enc_slot sc cur i f x = Ok here /\ (here = [] -> slot_default sc f x) /\
      (small here -> (length here <= fuel')%nat ->
       feeds fuel' sc cd (Obj c rawP true unk curP) here
             (Obj c (set_nth i (norm_slot sc (normu_obj sc) f sel x) rawP) true unk (cur_sel sel f i curP))).

  Lemma slot_skipped x :
    enc_slot sc cur i f x = Ok [] -> slot_default sc f x ->
    norm_slot sc (normu_obj sc) f sel x = fresh_of f -> cur_sel sel f i curP = curP ->
    slot_goal x.
  Proof.
    intros He Hd Hn Hc. exists []. split; [exact He|]. split; [auto|]. intros _ _.
    rewrite Hn, Hc, <- Hfresh, set_nth_same by exact Hlen. apply feeds_nil.
  Qed.

  (* ---- nothing is written ---- *)
  Lemma slot_unselected x : sel = Some false -> x = PPlaceholder -> slot_goal x.
  Proof.
    intros Hs ->. apply slot_skipped.
    - unfold enc_slot. fold sel. rewrite Hs. reflexivity.
    - left. reflexivity.
    - unfold norm_slot. fold sel. rewrite Hs. reflexivity.
    - unfold cur_sel. rewrite Hs. reflexivity.
  Qed.

  Lemma slot_none : sel <> Some false -> (exists p, fhint f = HOptional p) -> slot_goal PNone.
  Proof.
    intros Hs (p & Hh). destruct (wf_optional _ _ _ _ Hwf Hh) as (_ & Hg & _).
    assert (Hsel : sel = None) by (unfold sel, group_selects; rewrite Hg; reflexivity).
    apply slot_skipped.
    - unfold enc_slot. fold sel. rewrite Hsel. reflexivity.
    - right. left. reflexivity.
    - unfold norm_slot. rewrite Hsel. reflexivity.
    - unfold cur_sel. rewrite Hsel. reflexivity.
  Qed.

  (* ---- PLACEHOLDER ---- *)
  Lemma sel_none_group : sel = None -> fgroup f = None.
  Proof. unfold sel, group_selects. destruct (fgroup f); [discriminate|reflexivity]. Qed.

  Lemma group_none_sel : fgroup f = None -> sel = None.
  Proof. unfold sel, group_selects. intros ->. reflexivity. Qed.

  Lemma default_msg_bytes t c' se :
    t = TMessage ->
    serialize_with (msg_bytes (fun _ => Ok [])) (fnum f) t (PMsg (new sc c')) se None
    = if se then serialize_with (msg_bytes (fun _ => Ok [])) (fnum f) TMessage (PMsg (new sc c')) true None else Ok [].
  Proof. intros ->. destruct se; reflexivity. Qed.

  Lemma enc_placeholder_unselected : sel = None -> enc_slot sc cur i f PPlaceholder = Ok [].
  Proof.
    intros Hs. pose proof (sel_none_group Hs) as Hg. unfold enc_slot. fold sel. rewrite Hs.
    destruct (fhint f) as [p|p|p|pk pv'] eqn:Hh; unfold default_of; rewrite Hh; try reflexivity.
    - destruct (wf_plain _ _ _ _ Hwf Hh) as (Hfo & Hfw & _ & _ & Hfit).
      destruct p; unfold emit_field; cbn [is_default]; rewrite ?Hh, ?Hg, ?Hfo; try reflexivity.
      (* a fresh sub-message: not written whatever is_default says *)
      rewrite new_unfold. cbn [osow is_some orb negb].
      assert (Ht : fty f = TMessage) by (destruct (fty f); try discriminate Hfit; reflexivity).
      match goal with |- (if ?b then _ else _) = _ => destruct b end; [reflexivity|].
      rewrite Hfw, Ht. reflexivity.
    - destruct (wf_list _ _ _ _ Hwf Hh) as (Hfo & _). unfold emit_field. cbn [is_default]. rewrite Hh, Hg, Hfo. reflexivity.
    - destruct (wf_dict _ _ _ _ _ Hwf Hh) as (Hfo & _). unfold emit_field. cbn [is_default]. rewrite Hh, Hg, Hfo. reflexivity.
  Qed.

  Lemma slot_placeholder_unselected : sel = None -> slot_goal PPlaceholder.
  Proof.
    intros Hs. apply slot_skipped.
    - apply enc_placeholder_unselected. exact Hs.
    - left. reflexivity.
    - unfold norm_slot. rewrite Hs. reflexivity.
    - unfold cur_sel. rewrite Hs. reflexivity.
  Qed.

  (* the selected member of a oneof that still holds PLACEHOLDER: its default value is written *)
  Lemma default_elem p :
    fhint f = HPlain p -> pyty_fits nc ne (fty f) p = true ->
    elem_enc (msg_bytes (fun _ => Ok [])) fuel' sc (fty f) p None (default_of sc f)
             (match default_of sc f with PMsg o => PMsg (raise_sow o) | d => d end) True.
  Proof.
    intros Hh Hfit. unfold default_of. rewrite Hh. pose proof (pyty_fits_scalar _ _ _ _ Hfit) as Ht.
    destruct p.
    1-6: (eapply elem_enc_mono; [intros _; exact I|];
          match goal with |- elem_enc _ _ _ ?t ?p None ?d ?d _ =>
            replace d with (norm_scalar t d) at 2 by (destruct t; try discriminate Hfit; reflexivity);
            apply elem_scalar; [exact Ht | destruct t; try discriminate Hfit; reflexivity]
          end).
    - rewrite Ht.
      apply (elem_len (msg_bytes (fun _ => Ok [])) fuel' sc TMessage (PyMsg c0) None (PMsg (new sc c0))
                      (PMsg (raise_sow (new sc c0))) []); try reflexivity; auto.
      intros _ Hl f0. unfold post_len. cbn [ptype_eqb ptype_tag Z.eqb].
      destruct fuel' as [|fuel'']; [cbn in Hl; lia|]. rewrite parse_empty. cbn [bind]. rewrite new_unfold. reflexivity.
    - rewrite Ht. eapply elem_enc_mono; [intros _; exact I|].
      apply (elem_datetime (fun _ => Ok []) fuel' sc Hbi 0). unfold dt_min_us, dt_max_us. lia.
    - rewrite Ht. eapply elem_enc_mono; [intros _; exact I|].
      apply (elem_timedelta (fun _ => Ok []) fuel' sc Hbi 0). lia.
  Qed.

  Lemma slot_placeholder_selected : sel = Some true -> slot_goal PPlaceholder.
  Proof.
    intros Hs.
    pose proof (group_selects_shape cur f i) as Hsh. fold sel in Hsh. rewrite Hs in Hsh. destruct Hsh as (g & Hg & _).
    assert (Hh : exists p, fhint f = HPlain p).
    { destruct (fhint f) as [p|p|p|pk pv'] eqn:Hh; [eauto| | |].
      - destruct (wf_optional _ _ _ _ Hwf Hh) as (_ & Hg' & _). congruence.
      - destruct (wf_list _ _ _ _ Hwf Hh) as (_ & _ & _ & Hg' & _). congruence.
      - destruct (wf_dict _ _ _ _ _ Hwf Hh) as (_ & _ & Hg' & _). congruence. }
    destruct Hh as (p & Hh). destruct (wf_plain _ _ _ _ Hwf Hh) as (Hfo & Hfw & _ & Hmap & Hfit).
    set (v' := match default_of sc f with PMsg o => PMsg (raise_sow o) | d0 => d0 end).
    set (d := default_of sc f).
    assert (Hfr : nth i rawP PPlaceholder = PPlaceholder \/ nth i rawP PPlaceholder = PNone).
    { rewrite Hfresh. unfold fresh_of. rewrite Hfo. auto. }
    assert (Hnl : forall l, default_of sc f <> PList l) by (intros l; unfold default_of; rewrite Hh; destruct p; discriminate).
    assert (Hel : elem_enc (msg_bytes (fun _ => Ok [])) fuel' sc (fty f) (hint_elem (fhint f)) (fwraps f) d v' True)
      by (unfold v', d; rewrite Hh, Hfw; cbn [hint_elem]; apply default_elem; assumption).
    assert (Hmk : marked sc v' = v').
    { unfold v', default_of. rewrite Hh. destruct p; try reflexivity.
      rewrite new_unfold. cbn [raise_sow]. unfold marked.
      match goal with |- (if ?b then _ else _) = _ => destruct b end; reflexivity. }
    destruct (feeds_singular (msg_bytes (fun _ => Ok [])) fuel' sc c rawP unk curP i f d v' True Hf Hnd
                (wf_field_num _ _ _ Hwf) Hmap Hnl Hfr Hsib Hel Hmk true) as (here & Eh & _ & Hse & Hfeed).
    exists here. split.
    - unfold enc_slot. fold sel. rewrite Hs.
      unfold d, default_of in Eh. unfold default_of. rewrite Hh in Eh |- *.
      destruct p; unfold emit_field; rewrite Hg; cbn [is_some orb negb]; rewrite andb_false_r, ?orb_true_r; exact Eh.
    - pose proof (Hse eq_refl) as Hne. split; [congruence|]. intros Hsm Hl. specialize (Hfeed Hsm Hl).
      destruct here as [|h0 here']; [congruence|]. cbn [is_nil] in Hfeed.
      assert (Hn : norm_slot sc (normu_obj sc) f sel PPlaceholder = v').
      { unfold norm_slot. rewrite Hs. reflexivity. }
      rewrite Hn. unfold cur_sel. rewrite Hs. exact Hfeed.
  Qed.

  (* ---- repeated fields ---- *)
  Section Repeated.
    Variable p : pyty.
    Hypothesis Hh : fhint f = HList p.

    Lemma list_facts :
      fopt f = false /\ fwraps f = None /\ fgroup f = None /\ ptype_eqb (fty f) TMap = false /\
      pyty_fits nc ne (fty f) p = true /\ sel = None /\ default_of sc f = PList [] /\ fresh_of f = PPlaceholder.
    Proof.
      destruct (wf_list _ _ _ _ Hwf Hh) as (Hfo & Hfw & _ & Hg & Hmap & Hfit).
      repeat split; auto.
      - apply group_none_sel. exact Hg.
      - unfold default_of. rewrite Hh. reflexivity.
      - unfold fresh_of. rewrite Hfo. reflexivity.
    Qed.

    Definition item_bytes (item : pv) : result (list byte) :=
      do r <- serialize_with (msg_bytes (enc_obj sc)) (fnum f) (fty f) item true (fwraps f);
      Ok (match r with [] => [x0a; x00] | _ => r end).

    Lemma unpacked_items items : forall acc rawQ,
      ((nth i rawQ PPlaceholder = PPlaceholder /\ acc = []) \/ nth i rawQ PPlaceholder = PList acc) ->
      (i < length rawQ)%nat ->
      Forall (fun y => elem_in_range sc (fty f) p y = true) items -> Forall (elemP (GoodU sc)) items ->
      exists bs, concat_map item_bytes items = Ok bs /\ (items <> [] -> bs <> []) /\
        (small bs -> (length bs <= fuel')%nat ->
         feeds fuel' sc cd (Obj c rawQ true unk curP) bs
               (Obj c (match items with
                       | [] => rawQ
                       | _ => set_nth i (PList (acc ++ map (norm_elem (normu_obj sc) (fty f)) items)) rawQ
                       end) true unk curP)).
    Proof.
      destruct list_facts as (Hfo & Hfw & Hg & Hmap & Hfit & Hsel & Hdef & _).
      induction items as [|y items IH]; intros acc rawQ Hslot HlenQ Hin HGs.
      { exists []. split; [reflexivity|]. split; [congruence|]. intros _ _. apply feeds_nil. }
      inversion Hin as [|? ? Hy Hin']; subst. inversion HGs as [|? ? Gy HGs']; subst.
      pose proof (elem_any sc Hbi fuel' nc ne (fty f) p y Hfit Hy Gy) as He.
      destruct (He (fnum f) true (wf_field_num _ _ _ Hwf)) as (b1 & E1 & _ & Hne1 & Hd1).
      specialize (Hne1 eq_refl).
      set (v' := norm_elem (normu_obj sc) (fty f) y).
      set (rawQ' := set_nth i (PList (acc ++ [v'])) rawQ).
      destruct (IH (acc ++ [v']) rawQ') as (b2 & E2 & Hne2 & F2); auto.
      { right. unfold rawQ'. apply nth_set_nth_same. exact HlenQ. }
      { unfold rawQ'. rewrite set_nth_length. exact HlenQ. }
      rewrite concat_map_cons. unfold item_bytes at 1. rewrite Hfw, E1. cbn [bind].
      assert (Hb1 : (match b1 with [] => [x0a; x00] | _ => b1 end) = b1) by (destruct b1; [congruence|reflexivity]).
      rewrite Hb1. fold item_bytes. rewrite E2. cbn [bind].
      exists (b1 ++ b2). split; [reflexivity|]. split; [intros _; apply app_nonempty_l; exact Hne1|].
      intros Hsm Hl. rewrite app_length in Hl.
      destruct (Hd1 Hne1 (small_app_l _ _ Hsm) ltac:(lia)) as (pr & Rd & Hpn & Hdec).
      destruct (Hdec f eq_refl) as (Hfit' & Hval); [rewrite Hh; reflexivity | exact Hfw |].
      eapply feeds_app.
      - eapply feeds_one; [exact Rd|].
        assert (Hn' : field_by_number (get_class sc c) (pnum pr) = Some (i, f))
          by (rewrite Hpn; apply field_by_number_unique; assumption).
        exact (step_list fuel' sc c rawQ unk curP i f pr v' acc Hf Hn' Hfit' Hval Hmap Hg Hdef Hslot).
      - assert (Hv : (match v' with PList vs => acc ++ vs | _ => acc ++ [v'] end) = acc ++ [v']).
        { pose proof (norm_elem_not_list sc (fty f) p y) as Hnl. fold v' in Hnl.
          destruct v'; try reflexivity. exfalso. eapply Hnl; eauto. }
        rewrite Hv. fold rawQ'.
        specialize (F2 (small_app_r _ _ Hsm) ltac:(lia)).
        eapply feeds_eq; [exact F2|].
        destruct items as [|y2 items]; [reflexivity|].
        unfold rawQ'. rewrite set_nth_twice. cbn [map]. rewrite <- app_assoc. reflexivity.
    Qed.

    Lemma slot_list l :
      slot_in_range sc f (PList l) = true -> Forall (elemP (GoodU sc)) l -> slot_goal (PList l).
    Proof.
      intros Hr HG. destruct list_facts as (Hfo & Hfw & Hg & Hmap & Hfit & Hsel & Hdef & Hfr).
      assert (Hin : Forall (fun y => elem_in_range sc (fty f) p y = true) l).
      { unfold slot_in_range in Hr. rewrite Hh in Hr. apply all_fix_forall in Hr. exact Hr. }
      assert (Hemit : enc_slot sc cur i f (PList l) = emit_field (enc_obj sc) sc f None (PList l))
        by (unfold enc_slot; fold sel; rewrite Hsel; reflexivity).
      destruct l as [|y l'].
      { apply slot_skipped.
        - rewrite Hemit. unfold emit_field. cbn [is_default]. rewrite Hh, Hg, Hfo. reflexivity.
        - right. right. cbn [is_default]. rewrite Hh. reflexivity.
        - unfold norm_slot. rewrite Hsel. reflexivity.
        - unfold cur_sel. rewrite Hsel. reflexivity. }
      set (l := y :: l') in *.
      assert (Hnorm : norm_slot sc (normu_obj sc) f sel (PList l) = PList (map (norm_elem (normu_obj sc) (fty f)) l))
        by (unfold norm_slot; rewrite Hsel; reflexivity).
      assert (Hcur : cur_sel sel f i curP = curP) by (unfold cur_sel; rewrite Hsel; reflexivity).
      assert (Hemit2 : emit_field (enc_obj sc) sc f None (PList l) =
                       if tmem (fty f) PACKED_TYPES
                       then (do buf <- concat_map (preprocess_with (msg_bytes (enc_obj sc)) (fty f) None) l;
                             serialize_with (msg_bytes (enc_obj sc)) (fnum f) TBytes (PBytes buf) false None)
                       else concat_map item_bytes l).
      { unfold emit_field. cbn [is_default]. rewrite Hh. cbn [andb]. reflexivity. }
      unfold slot_goal. rewrite Hnorm, Hcur, Hemit, Hemit2.
      destruct (tmem (fty f) PACKED_TYPES) eqn:Hpk.
      - (* packed *)
        pose proof (packed_scalar _ _ _ _ Hpk Hfit) as Hps.
        assert (Hsr : Forall (fun x => scalar_in_range (fty f) x = true) l).
        { eapply Forall_impl; [|exact Hin]. intros x Hx. rewrite <- (scalar_elem_in_range sc (fty f) p x Hps). exact Hx. }
        destruct (packed_rt (msg_bytes (enc_obj sc)) (fty f) l Hpk Hsr) as (buf & Eb & Ub).
        assert (Hbuf : buf <> []).
        { unfold l in Eb. rewrite concat_map_cons in Eb.
          destruct (preprocess_with (msg_bytes (enc_obj sc)) (fty f) None y) as [a|] eqn:Ea; [|discriminate].
          cbn [bind] in Eb. destruct (concat_map _ l') as [b|]; [|discriminate]. cbn [bind] in Eb. injection Eb as <-.
          apply app_nonempty_l. eapply preprocess_packed_nonempty; eauto. inversion Hsr; assumption. }
        rewrite Eb. cbn [bind].
        destruct (ser_len2 (msg_bytes (enc_obj sc)) (fnum f) TBytes (PBytes buf) false None buf eq_refl
                           (wf_field_num _ _ _ Hwf) eq_refl) as (bs & Es & _ & _ & Hne & Hrd).
        exists bs. split; [exact Es|]. specialize (Hne (or_introl Hbuf)). split; [congruence|].
        intros Hsm Hl. destruct (Hrd Hne Hsm) as (Rd & Hlb).
        eapply feeds_one; [exact Rd|].
        assert (Hn' : field_by_number (get_class sc c) (pnum (mkP (fnum f) 2 0 buf bs)) = Some (i, f))
          by (apply field_by_number_unique; assumption).
        assert (Hfit' : wire_type_fits f (pwt (mkP (fnum f) 2 0 buf bs)) = true).
        { unfold wire_type_fits. cbn [pwt]. change (2 =? WIRE_VARINT) with false. change (2 =? WIRE_FIXED_32) with false.
          change (2 =? WIRE_FIXED_64) with false. change (2 =? WIRE_LEN_DELIM) with true. cbv iota.
          rewrite Hpk, Hh. apply orb_true_r. }
        assert (Hval : decode_value fuel' sc f (mkP (fnum f) 2 0 buf bs) = Ok (PList (map (norm_scalar (fty f)) l))).
        { unfold decode_value. cbn [pwt pbytes]. change (2 =? WIRE_LEN_DELIM) with true. rewrite Hpk. cbn [andb].
          rewrite Ub by lia. reflexivity. }
        eapply eq_trans; [exact (step_list fuel' sc c rawP unk curP i f _ _ [] Hf Hn' Hfit' Hval Hmap Hg Hdef
                                           (or_introl (conj (eq_trans Hfresh Hfr) eq_refl)))|].
        cbn [app]. do 4 f_equal. apply map_ext_in. intros x Hx.
        rewrite Forall_forall in Hsr. symmetry. apply scalar_not_msg. apply Hsr. exact Hx.
      - (* one record per element *)
        destruct (unpacked_items l [] rawP) as (bs & Eb & Hne & Hfeed); auto.
        { left. split; [rewrite Hfresh; exact Hfr | reflexivity]. }
        exists bs. split; [exact Eb|]. split; [intros Hb; exfalso; apply Hne; [discriminate | exact Hb]|].
        exact Hfeed.
    Qed.
  End Repeated.
End Slot2.
