(* C17: framing.  The loop of Message.load over a stream that starts with complete records:
   a record cut in the middle, a bad tag (field number 0, wire types 4/6/7 at top level) make
   parse fail whatever came before; a complete record that does not belong to a declared field
   (unknown number, wire type that does not fit, any group) is appended verbatim to
   _unknown_fields and changes nothing else. *)
From BP Require Import Base.Prelude Model.Types Model.Varint Model.Decode Spec.Varint.
From BP Require Import Model.Object Model.C17Wire Model.C17Step.
From BP Require Import Proofs.BytesP Proofs.VarintP Proofs.C17FieldP Proofs.C17StepP.
From BP Require Import gen.Tables.
From Coq Require Import ZifyBool.
Ltac Zify.zify_post_hook ::= Z.to_euclidean_division_equations.

Section Frame.
  Variable sc : schema.
  Variable pn : nat -> list byte -> result obj.
  Variable fuel' : nat.
  Variable cd : cdesc.
  Notation loop := (loop_r sc pn (load_field fuel') None cd).

  (* one complete record at the head of the stream *)
  Lemma loop_step nw tag pl rest n o read :
    VarintRep nw tag -> wpayload nw pl ->
    (length (tag ++ pl ++ rest) <= n)%nat -> (length (tag ++ pl ++ rest) <= fuel')%nat ->
    exists p, praw p = tag ++ pl /\ pnum p = tag_num nw /\ pwt p = tag_wt nw /\
      loop (S n) o (tag ++ pl ++ rest) read =
      (do o' <- apply_field sc pn cd o p; loop n o' rest read).
  Proof.
    intros Rt Wp Hn Hf. pose proof (VarintRep_nonempty _ _ Rt) as Ht.
    rewrite !app_length in Hn, Hf.
    destruct (load_field_complete nw pl fuel' rest tag Wp) as (p & Hp & Hok).
    { rewrite app_length. lia. }
    destruct Hok as (pl' & Epl & _ & Hraw & Hnum & Hwt & _).
    apply app_inv_tail in Epl. subst pl'.
    exists p. split; [exact Hraw|]. split; [exact Hnum|]. split; [exact Hwt|].
    cbn [loop_r]. destruct (tag ++ pl ++ rest) as [|b s] eqn:Es.
    { destruct tag; [cbn in Ht; lia | discriminate]. }
    rewrite <- Es. rewrite (load_varint_rep _ _ _ Rt). cbn [bind]. rewrite Hp. cbn [bind account finished].
    reflexivity.
  Qed.

  Definition loop_fails (x : list byte) : Prop :=
    forall n o read, (length x < n)%nat -> (length x <= fuel')%nat -> exists e, loop n o x read = Err e.

  Lemma fails_after_records pre x : wrecs pre -> loop_fails x -> loop_fails (pre ++ x).
  Proof.
    intros W Hx. revert W.
    apply (wrecs_mind (fun _ _ => True) (fun pre => loop_fails (pre ++ x))); try (intros; exact I).
    - exact Hx.
    - intros nw tag pl rs Rt Wp _ Wr IH n o read Hn Hf.
      destruct n as [|n]; [lia|]. rewrite <- !app_assoc in *.
      destruct (loop_step nw tag pl (rs ++ x) n o read Rt Wp ltac:(lia) Hf) as (p & _ & _ & _ & ->).
      destruct (apply_field sc pn cd o p) as [o'|e]; cbn [bind]; [|eauto].
      pose proof (VarintRep_nonempty _ _ Rt). rewrite !app_length in Hn, Hf.
      apply IH; rewrite ?app_length; lia.
  Qed.

  (* a record cut before its end *)
  Lemma cut_record_fails nw r x y : wrec nw r -> r = x ++ y -> x <> [] -> y <> [] -> loop_fails x.
  Proof.
    intros (tag & pl & Rt & Wp & ->) E Hx Hy n o read Hn Hf.
    destruct n as [|n]; [lia|]. cbn [loop_r]. destruct x as [|b x']; [congruence|]. set (x := b :: x') in *.
    apply app_eq_app in E. destruct E as [l [[Et Ey]|[Ex Epl]]].
    - destruct l as [|c l].
      + (* the tag is complete, the payload is missing *)
        rewrite app_nil_r in Et. cbn [app] in Ey. subst y. rewrite <- Et.
        replace (load_varint tag) with (load_varint (tag ++ [])) by (rewrite app_nil_r; reflexivity).
        rewrite (load_varint_rep _ _ _ Rt). cbn [bind].
        destruct (load_field_cut nw pl [] pl fuel' tag Wp eq_refl Hy) as [e ->]. cbn [bind]. eauto.
      + (* inside the tag *)
        rewrite (load_varint_cut _ _ _ _ Rt Et); [cbn [bind]; eauto | discriminate].
    - (* the tag is complete, the payload is not *)
      rewrite Ex. rewrite (load_varint_rep _ _ _ Rt). cbn [bind].
      destruct (load_field_cut nw pl l y fuel' tag Wp Epl Hy) as [e ->]. cbn [bind]. eauto.
  Qed.

  (* a tag that starts no record *)
  Lemma bad_tag_fails nw tag rest :
    VarintRep nw tag -> (tag_num nw = 0 \/ tag_wt nw = 4 \/ tag_wt nw = 6 \/ tag_wt nw = 7) ->
    loop_fails (tag ++ rest).
  Proof.
    intros Rt Hbad n o read Hn Hf. destruct n as [|n]; [lia|]. cbn [loop_r].
    pose proof (VarintRep_nonempty _ _ Rt) as Ht.
    destruct (tag ++ rest) as [|b s] eqn:Es; [destruct tag; [cbn in Ht; lia | discriminate]|].
    rewrite <- Es. rewrite (load_varint_rep _ _ _ Rt). cbn [bind].
    rewrite (load_field_bad_tag _ _ _ _ Hbad). cbn [bind]. eauto.
  Qed.

  (* a complete record that is not a declared field's: kept verbatim *)
  Lemma foreign_record nw r n o read :
    wrec nw r -> (length r <= n)%nat -> (length r <= fuel')%nat ->
    (match field_by_number cd (tag_num nw) with
     | None => true
     | Some (i, f) => negb (wire_type_fits f (tag_wt nw))
     end = true) ->
    forall rest, (length (r ++ rest) <= n)%nat -> (length (r ++ rest) <= fuel')%nat ->
    loop (S n) o (r ++ rest) read = loop n (add_unknown o r) rest read.
  Proof.
    intros (tag & pl & Rt & Wp & ->) _ _ Hf rest Hn Hfu. rewrite <- !app_assoc in *.
    destruct (loop_step nw tag pl rest n o read Rt Wp Hn Hfu) as (p & Hraw & Hnum & Hwt & ->).
    unfold apply_field. rewrite Hnum, Hwt, Hraw.
    destruct (field_by_number cd (tag_num nw)) as [[i f]|]; [rewrite Hf|]; reflexivity.
  Qed.
End Frame.

Lemma group_never_fits f : wire_type_fits f 3 = false.
Proof. reflexivity. Qed.

Lemma loop_nil sc pn lf cd n o read : loop_r sc pn lf None cd (S n) o [] read = Ok (o, []).
Proof. reflexivity. Qed.

(* ---------- the statements about parse / parse_into ---------- *)
Lemma parse_into_loop sc o bs :
  parse_into sc o bs =
  (do (o', _) <- loop_r sc (pn_of (length bs) sc) (load_field (length bs)) None (get_class sc (ocls o))
                        (S (length bs)) (mark_on_wire o) bs 0; Ok o').
Proof.
  rewrite parse_into_eq. cbn [load_r read_size bind].
  destruct o as [c raw sow unk cur]. reflexivity.
Qed.

Theorem parse_into_fails sc o x :
  (forall pn fuel' cd, loop_fails sc pn fuel' cd x) -> exists e, parse_into sc o x = Err e.
Proof.
  intros H. rewrite parse_into_loop.
  destruct (H (pn_of (length x) sc) (length x) (get_class sc (ocls o)) (S (length x)) (mark_on_wire o) 0
              ltac:(lia) ltac:(lia)) as [e ->].
  cbn [bind]. eauto.
Qed.

Theorem parse_prefix_rejected sc o pre nw r x y :
  wrecs pre -> wrec nw r -> r = x ++ y -> x <> [] -> y <> [] ->
  exists e, parse_into sc o (pre ++ x) = Err e.
Proof.
  intros Wp Wr E Hx Hy. apply parse_into_fails. intros pn fuel' cd.
  apply fails_after_records; [exact Wp|]. eapply cut_record_fails; eassumption.
Qed.

Theorem parse_bad_tag_rejected sc o pre nw tag rest :
  wrecs pre -> VarintRep nw tag ->
  (tag_num nw = 0 \/ tag_wt nw = 4 \/ tag_wt nw = 6 \/ tag_wt nw = 7) ->
  exists e, parse_into sc o (pre ++ tag ++ rest) = Err e.
Proof.
  intros Wp Rt Hbad. apply parse_into_fails. intros pn fuel' cd.
  apply fails_after_records; [exact Wp|]. apply bad_tag_fails with (nw := nw); assumption.
Qed.

Theorem parse_foreign_record sc o nw r :
  wrec nw r ->
  (match field_by_number (get_class sc (ocls o)) (tag_num nw) with
   | None => true
   | Some (i, f) => negb (wire_type_fits f (tag_wt nw))
   end = true) ->
  parse_into sc o r = Ok (add_unknown (mark_on_wire o) r).
Proof.
  intros Wr Hf. rewrite parse_into_loop.
  pose proof (foreign_record sc (pn_of (length r) sc) (length r) (get_class sc (ocls o)) nw r (length r)
                (mark_on_wire o) 0 Wr ltac:(lia) ltac:(lia) Hf []) as H.
  rewrite app_nil_r in H. rewrite H by lia.
  destruct Wr as (tag & pl & Rt & _ & ->). pose proof (VarintRep_nonempty _ _ Rt).
  destruct (length (tag ++ pl)) as [|n] eqn:El; [rewrite app_length in El; lia|].
  rewrite loop_nil. reflexivity.
Qed.
