(* C02, gap closure (5): "any message" - the hypotheses of C02_encode_legal hold for every object the public API builds
   (C01_reachable_value_ok_parse), and the length walk agrees (C09_len). *)
From Coq Require Import ZArith List Bool Lia.
From BP Require Import Base.Prelude Model.Types Model.Varint Model.Object Model.Decode Model.Encode Model.Len Model.WellFormed.
From BP Require Import Spec.Varint Spec.Wire.
From BP Require Import Proofs.C02Abs Proofs.C02WireP Proofs.C02LegalMain.
From BP Require Import Model.C01Def Model.History Model.C07Ops Model.C01Reach Model.C01Parse Proofs.C01Reach2B Proofs.LenP Proofs.LenP2.
Import ListNotations.

Theorem encode_legal_reachable sc c ops m :
  c01_schema_ok sc = true -> hist_ok op_value_ok_p sc (new sc c) ops = true ->
  run7 sc (new sc c) ops = Ok m ->
  exists bs, enc_obj sc m = Ok bs /\ len_obj sc m = Ok (Zlength bs) /\
    (Zlength bs < 2 ^ 35 ->
     exists rs, wire_ok bs rs /\
       forall n, (length bs < n)%nat ->
         sem n sc (ocls m) rs = Some (abs_obj sc (norm_obj sc m)) /\ supported n sc (ocls m) rs = true).
Proof.
  intros Hsc Hh Hr.
  pose proof (c01_reachable_value_ok_parse sc c ops m Hsc Hh Hr) as Hv.
  destruct (c02_encode_legal sc m Hsc Hv) as (bs & Eb & _).
  exists bs. split; [exact Eb|]. split; [exact (len_of_bytes sc m bs Eb)|].
  intros Hs. exact (c02_encode_legal_rel sc m bs Hsc Hv Eb Hs).
Qed.
