(* C14 / pickle, part 3 - messages that carry unknown fields (excluded by c01_value_ok): the unpickled message
   holds the same unknown bytes, encodes to the same bytes, is == the original and reports the same presence.
   Unknown bytes of the top-level message: any concatenation of complete records the class keeps verbatim
   (unk_records_ok: what Message.parse leaves in _unknown_fields, C08_raw_preserved); the rest of the message is
   C01's domain.  Uses C08: bytes(m) = bytes(m without unknown) ++ unknown (reemit), and inserting records the
   class does not know changes nothing but _unknown_fields (known_undisturbed / _conv). *)
From Coq Require Import ZArith List Bool Lia ZifyBool.
From BP Require Import Base.Prelude Model.Types Model.Object Model.Eq Model.Encode Model.Decode Model.WellFormed.
From BP Require Import Model.History Model.C14Ops Model.C01Def Model.C08Step Model.C14Pickle.
From BP Require Import Proofs.BytesP Proofs.LenP Proofs.C01Unfold Proofs.C01Main Proofs.C01Final Proofs.C01Obs.
From BP Require Import Proofs.C08FrameP Proofs.C08StepP Proofs.C08UnknownP.
From BP Require Import Proofs.C14PickleEq Proofs.C14Pickle.

(* ---- nothing but the encoder looks at _unknown_fields ---- *)
Lemma read_set_unk sc o u i : read sc (set_unk o u) i = read sc o i.
Proof. unfold read. rewrite getattr_set_unk. reflexivity. Qed.

Lemma obj_eq_set_unk_l sc a u b : obj_eq sc (set_unk a u) b = obj_eq sc a b.
Proof. destruct a, b. reflexivity. Qed.
Lemma obj_eq_set_unk_r sc a u b : obj_eq sc a (set_unk b u) = obj_eq sc a b.
Proof. destruct a, b. reflexivity. Qed.
Lemma obj_eq_clear_unk_l sc a b : obj_eq sc (clear_unk a) b = obj_eq sc a b.
Proof. destruct a, b. reflexivity. Qed.
Lemma obj_eq_clear_unk_r sc a b : obj_eq sc a (clear_unk b) = obj_eq sc a b.
Proof. destruct a, b. reflexivity. Qed.

Lemma read_clear_unk sc o i : read sc (clear_unk o) i = read sc o i.
Proof. rewrite <- set_unk_nil. apply read_set_unk. Qed.

Lemma obs_top_unk sc a b u :
  obs_top sc (clear_unk a) b = true -> obs_top sc a (set_unk b u) = true.
Proof.
  unfold obs_top. intros H. apply andb_true_iff in H as [Hc H]. apply andb_true_iff. split.
  - destruct a, b. exact Hc.
  - replace (oraw (clear_unk a)) with (oraw a) in H by (destruct a; reflexivity).
    revert H. generalize 0%nat. induction (oraw a) as [|x ra IH]; intros j H; [reflexivity|].
    apply andb_true_iff in H as [H Hr]. rewrite !read_clear_unk in H. rewrite !read_set_unk, H. cbn [andb].
    apply IH. exact Hr.
Qed.

Lemma sow_ok_clear_unk sc o : sow_ok sc (clear_unk o) = sow_ok sc o.
Proof. destruct o. reflexivity. Qed.

Lemma nan_free_clear_unk o : deep nan_free (PMsg (clear_unk o)) = deep nan_free (PMsg o).
Proof. destruct o. reflexivity. Qed.

Lemma presence_below_set_unk sc o u : presence_below sc (set_unk o u) [] = presence_below sc o [].
Proof.
  unfold presence_below, presence_at, nav, presence_here.
  replace (osow (set_unk o u)) with (osow o) by (destruct o; reflexivity).
  replace (ocur (set_unk o u)) with (ocur o) by (destruct o; reflexivity).
  replace (ocls (set_unk o u)) with (ocls o) by (destruct o; reflexivity).
  f_equal. f_equal. apply map_ext. intros i. rewrite read_set_unk. reflexivity.
Qed.

Lemma child_flag_set_unk sc o u i : child_flag sc (set_unk o u) i = child_flag sc o i.
Proof. unfold child_flag. rewrite read_set_unk. reflexivity. Qed.

(* ---- records of the class's unknown kind only ---- *)
Lemma all_unknown_raw cd ps :
  forallb (is_unknown cd) ps = true -> known_raw cd ps = [] /\ unknown_raw cd ps = raw_of ps.
Proof.
  unfold known_raw, unknown_raw. induction ps as [|p ps IH]; intros H; [split; reflexivity|].
  cbn [forallb] in H. apply andb_true_iff in H as [Hp H]. destruct (IH H) as (I1 & I2).
  cbn [filter]. rewrite Hp. cbn [negb]. split; [exact I1|].
  unfold raw_of in *. cbn [map concat]. rewrite I2. reflexivity.
Qed.

Lemma known_raw_app cd a b : known_raw cd (a ++ b) = known_raw cd a ++ known_raw cd b.
Proof. unfold known_raw, raw_of. rewrite filter_app, map_app, concat_app. reflexivity. Qed.
Lemma unknown_raw_app cd a b : unknown_raw cd (a ++ b) = unknown_raw cd a ++ unknown_raw cd b.
Proof. unfold unknown_raw, raw_of. rewrite filter_app, map_app, concat_app. reflexivity. Qed.

Lemma Zlength_app_l {A} (a b : list A) : Zlength a <= Zlength (a ++ b).
Proof. rewrite Zlength_app. pose proof (Zlength_nonneg b). lia. Qed.

(* parsing `body ++ unknown records` = parsing body, then holding the records verbatim *)
Lemma parse_with_unknown sc c body u n :
  parse sc c body = Ok n -> ounk n = [] ->
  match frames (S (length u)) u with Some ps => forallb (is_unknown (get_class sc c)) ps | None => false end = true ->
  parse sc c (body ++ u) = Ok (set_unk n u).
Proof.
  intros Hp Hn Hu. set (cd := get_class sc c) in *.
  destruct (frames (S (length u)) u) as [psu|] eqn:Ef; [|discriminate].
  pose proof (frames_sound _ _ _ Ef) as Hru.
  destruct (all_unknown_raw cd psu Hu) as (Ku & Uu).
  destruct (known_undisturbed sc c body n Hp) as (psb & Hrb & Hk & Hset).
  assert (Hcl : clear_unk n = n) by (destruct n as [c0 r0 s0 u0 g0]; cbn in Hn; subst u0; reflexivity).
  rewrite Hcl in Hk, Hset.
  assert (Hub : unknown_raw (get_class sc c) psb = []).
  { rewrite Hset in Hn. destruct n; exact Hn. }
  pose proof (records_app _ _ _ _ Hrb Hru) as Hr.
  pose proof (known_undisturbed_conv sc c (body ++ u) (psb ++ psu) n Hr) as Hc.
  fold cd in Hc, Hub, Hk. rewrite known_raw_app, Ku, app_nil_r in Hc. specialize (Hc Hk).
  rewrite unknown_raw_app, Hub, Uu, <- (records_raw _ _ Hru) in Hc. exact Hc.
Qed.

Theorem pickle_faithful_unknown sc o :
  c01_schema_ok sc = true -> c01_value_ok sc (clear_unk o) = true -> unk_records_ok sc o = true ->
  enc_small sc o = true ->
  exists o', pickle_rt sc o = Ok o' /\ o' = set_unk (norm_obj sc (clear_unk o)) (ounk o) /\
             pickle_faithful_to sc o o'.
Proof.
  intros Hs Hv Hu Hsm.
  destruct (c01_roundtrip sc (clear_unk o) Hs Hv) as (body & Eb & Hrt).
  assert (Hcls : ocls (clear_unk o) = ocls o) by (destruct o; reflexivity).
  assert (Eo : enc_obj sc o = Ok (body ++ ounk o)) by (apply reemit; eauto).
  unfold enc_small in Hsm. rewrite Eo in Hsm. apply Z.ltb_lt in Hsm.
  assert (Hsb : Zlength body < 2 ^ 64) by (pose proof (Zlength_app_l body (ounk o)); lia).
  destruct (Hrt Hsb) as (n & Hp & -> & He & Hw & Hobs & Hst).
  set (n := norm_obj sc (clear_unk o)) in *.
  assert (Hnu : ounk n = []) by (unfold n; destruct o; reflexivity).
  rewrite Hcls in Hp.
  pose proof (parse_with_unknown sc (ocls o) body (ounk o) n Hp Hnu Hu) as Hpu.
  exists (set_unk n (ounk o)). split; [unfold pickle_rt; rewrite Eo; cbn [bind]; exact Hpu|]. split; [reflexivity|].
  unfold pickle_faithful_to. split; [|split; [|split; [|split; [|split; [|split; [|split]]]]]].
  - intros Hn. rewrite <- nan_free_clear_unk in Hn.
    rewrite obj_eq_set_unk_l, obj_eq_set_unk_r. split.
    + rewrite <- (obj_eq_clear_unk_r sc n o). apply c01_decoded_equal_r; assumption.
    + rewrite <- (obj_eq_clear_unk_l sc o n). apply He. exact Hn.
  - rewrite Eo. apply reemit. exists body. split.
    + replace (clear_unk (set_unk n (ounk o))) with n; [exact Hst|].
      unfold n. destruct o; reflexivity.
    + destruct n; reflexivity.
  - unfold n. destruct o; reflexivity.
  - destruct n; reflexivity.
  - unfold n. destruct o; reflexivity.
  - unfold n. destruct o; reflexivity.
  - intros g. unfold n. destruct o; reflexivity.
  - intros Hsow. rewrite <- sow_ok_clear_unk in Hsow. pose proof (Hobs Hsow) as Ho.
    pose proof (obs_top_unk sc o n (ounk o) Ho) as Ho'. split; [exact Ho'|].
    apply obs_top_presence; try assumption.
    + unfold n. destruct o; reflexivity.
    + unfold n. destruct o; reflexivity.
    + apply c01_value_ok_spec in Hv. pose proof (in_range_length sc _ (proj1 Hv)) as Hl.
      destruct o; exact Hl.
Qed.

(* the headline of task (2) on its own: same bytes, same unknown bytes *)
Corollary pickle_unknown_bytes sc o :
  c01_schema_ok sc = true -> c01_value_ok sc (clear_unk o) = true -> unk_records_ok sc o = true ->
  enc_small sc o = true ->
  exists o', pickle_rt sc o = Ok o' /\ enc_obj sc o' = enc_obj sc o /\ ounk o' = ounk o.
Proof.
  intros Hs Hv Hu Hsm. destruct (pickle_faithful_unknown sc o Hs Hv Hu Hsm) as (o' & Hp & _ & _ & He & _ & Hk & _).
  exists o'. auto.
Qed.

(* after any observers (they do not touch _unknown_fields) *)
Theorem pickle_unknown_of_mat sc o o2 :
  c01_schema_ok sc = true -> c01_value_ok sc (clear_unk o) = true -> unk_records_ok sc o = true ->
  enc_small sc o = true -> mat_obj sc o o2 = true ->
  exists o', pickle_rt sc o2 = Ok o' /\ pickle_rt sc o = Ok o' /\ pickle_faithful_obs sc o o2 o'.
Proof.
  intros Hs Hv Hu Hsm Hm. pose proof (c01_schema_wf sc Hs) as Hwf.
  destruct (pickle_faithful_unknown sc o Hs Hv Hu Hsm) as (o' & Hp & _ & He & Henc & Hc & Huk & Hso & Hg & Hw & Hpres).
  destruct (C14Thm.mat_indistinguishable sc Hwf o o2 Hm) as (Me & Meq & _ & _ & Mu & Mc).
  destruct (mat_obj_cur sc o o2 Hm) as (Mg & _).
  exists o'. split; [rewrite (C14Thm.pickle_of_mat sc Hwf o o2 Hm); exact Hp|]. split; [exact Hp|].
  unfold pickle_faithful_obs. split; [|split; [|split; [|split; [|split; [|split; [|split]]]]]].
  - intros Hn. destruct (He Hn) as (E1 & E2). destruct (Meq o') as (M1 & M2). rewrite M1, M2. split; assumption.
  - rewrite Me. exact Henc.
  - rewrite Mc. exact Hc.
  - rewrite Mu. exact Huk.
  - exact Hso.
  - rewrite Mg. exact Hg.
  - intros g. unfold which_one_of. rewrite Mg, Hg. reflexivity.
  - intros Hsow. destruct (Hpres Hsow) as (_ & P1 & P2). split.
    + rewrite (presence_below_mat sc o o2 Hm). exact P1.
    + intros i. rewrite (child_flag_mat sc o o2 i Hm). apply P2.
Qed.
