(* C02, encoder side: the payload of a packed repeated field (the concatenation of what _preprocess_single writes
   for each element) unpacks under the specification, and stays inside [narrow_ok]. *)
From BP Require Import Base.Prelude Model.Types Model.Varint Model.Scalar Model.Float Model.Utf8.
From BP Require Import Model.Object Model.Eq Model.Encode Model.Decode Model.WellFormed.
From BP Require Import Spec.Varint Spec.Wire.
From BP Require Import Proofs.BytesP Proofs.VarintP Proofs.ScalarP Proofs.C02Abs Proofs.C02WireP Proofs.C02LeafP Proofs.C02EncP.
From BP Require Import Proofs.LenP Proofs.C01Scalar Proofs.C01Frame Proofs.C01Step Proofs.C01Elem Proofs.C02LegalSpec Proofs.C02LegalLeaf.
From BP Require Import gen.Tables.
From Coq Require Import ZifyBool ZifyN.
Ltac Zify.zify_post_hook ::= Z.to_euclidean_division_equations.

Lemma concat_map_inv {A} (f : A -> result (list byte)) l : forall buf,
  concat_map f l = Ok buf -> exists pieces, Forall2 (fun x a => f x = Ok a) l pieces /\ buf = concat pieces.
Proof.
  induction l as [|x l IH]; intros buf H.
  - injection H as <-. exists []. split; [constructor | reflexivity].
  - rewrite concat_map_cons in H. destruct (f x) as [a|] eqn:Ea; [|discriminate]. cbn [bind] in H.
    destruct (concat_map f l) as [b|] eqn:Eb; [|discriminate]. cbn [bind] in H. injection H as <-.
    destruct (IH b eq_refl) as (ps & F & ->). exists (a :: ps). split; [constructor; assumption | reflexivity].
Qed.

Lemma packed_packable t : tmem t PACKED_TYPES = packable t.
Proof. destruct t; reflexivity. Qed.

(* one element of a packed payload *)
Definition item_ok (t : ptype) (a : list byte) : Prop :=
  match wire_of t with
  | WVarint => exists n, VarintRep n a /\ 0 <= n < 2 ^ 64 /\ (narrow32 t = true -> n < 2 ^ 32)
  | WFixed32 => length a = 4%nat
  | WFixed64 => length a = 8%nat
  | WLen => False
  end.

Lemma preprocess_item msg t v a :
  tmem t PACKED_TYPES = true -> scalar_in_range t v = true -> preprocess_with msg t None v = Ok a -> item_ok t a.
Proof.
  intros Ht Hr Hp. unfold item_ok. destruct (tmem t FIXED_TYPES) eqn:Hf.
  - rewrite (preprocess_fixed msg t v Hf) in Hp.
    destruct (scalar_fixed_rt t v Hf Hr) as (a' & Pa & La & _). rewrite Pa in Hp. injection Hp as <-.
    unfold fixed_size in La. destruct t; try (vm_compute in Hf; discriminate); exact La.
  - assert (Hv : tmem t WIRE_VARINT_TYPES = true) by (destruct t; try reflexivity; vm_compute in Hf; vm_compute in Ht; discriminate).
    replace (wire_of t) with WVarint by (destruct t; try reflexivity; vm_compute in Hv; discriminate).
    apply (preprocess_varint_rep msg t v a Hv Hr Hp).
Qed.

Lemma unpack_varints_concat t pieces : wire_of t = WVarint -> Forall (item_ok t) pieces ->
  forall fuel, (length (concat pieces) <= fuel)%nat ->
    (exists es, unpack_varints fuel t (concat pieces) = Some es) /\
    (narrow32 t = true -> varints_below fuel (2 ^ 32) (concat pieces) = true).
Proof.
  intros W. induction 1 as [|a pieces Ha _ IH]; intros fuel Lf.
  - split; [exists []; destruct fuel; reflexivity | intros _; destruct fuel; reflexivity].
  - unfold item_ok in Ha. rewrite W in Ha. destruct Ha as (n & Rn & Hn & Hnar).
    cbn [concat] in *. rewrite app_length in Lf.
    pose proof (length_pos_of_nonempty _ (VarintRep_nonempty _ _ Rn)) as La.
    destruct fuel as [|fuel]; [lia|]. destruct (IH fuel ltac:(lia)) as ((es & E) & Hb).
    assert (Hrd : read_varint 10 (a ++ concat pieces) = Some (n, concat pieces))
      by (apply VarintRep_read; [exact Rn | destruct Rn as (_ & _ & L); exact L]).
    destruct (a ++ concat pieces) as [|b0 s0] eqn:Eab; [destruct a; [cbn in La; lia | discriminate]|].
    split.
    + cbn [unpack_varints]. unfold obind. rewrite Hrd. replace (n <? 2 ^ 64) with true by lia.
      assert (Ho : exists x, of_varint t n = Some x) by (destruct t; try discriminate W; eexists; reflexivity).
      destruct Ho as (x & ->). rewrite E. eexists. reflexivity.
    + intros N. cbn [varints_below]. rewrite Hrd. rewrite (Hb N). specialize (Hnar N). apply andb_true_iff. split; [lia | reflexivity].
Qed.

Lemma unpack_fixed_concat w (one : list byte -> option aval) pieces :
  (0 < w)%nat -> Forall (fun a => length a = w /\ exists x, one a = Some x) pieces ->
  forall fuel, (length (concat pieces) <= fuel)%nat -> exists es, unpack_fixed fuel w one (concat pieces) = Some es.
Proof.
  intros Hw. induction 1 as [|a pieces (La & x & Hx) _ IH]; intros fuel Lf.
  - exists []. destruct fuel; reflexivity.
  - cbn [concat] in *. rewrite app_length in Lf. destruct fuel as [|fuel]; [lia|].
    destruct (IH fuel ltac:(lia)) as (es & E).
    destruct (a ++ concat pieces) as [|b0 s0] eqn:Eab; [destruct a; [cbn in La; lia | discriminate]|].
    cbn [unpack_fixed]. unfold obind. rewrite <- Eab, (take_app w a (concat pieces) La), Hx, E. eexists. reflexivity.
Qed.

(* the payload of a packed field *)
Theorem packed_payload msg t items buf :
  tmem t PACKED_TYPES = true -> Forall (fun x => scalar_in_range t x = true) items ->
  concat_map (preprocess_with msg t None) items = Ok buf ->
  (exists es, unpack t buf = Some es) /\ narrow_t t (Len buf) = true.
Proof.
  intros Ht Hr Hc. destruct (concat_map_inv _ _ _ Hc) as (pieces & F & ->).
  assert (Hit : Forall (item_ok t) pieces).
  { clear Hc. induction F as [|x a items pieces Hx _ IH]; [constructor|].
    inversion Hr; subst. constructor; [eapply preprocess_item; eauto | apply IH; assumption]. }
  unfold unpack, narrow_t. destruct (wire_of t) eqn:W.
  - destruct (unpack_varints_concat t pieces W Hit (length (concat pieces)) ltac:(lia)) as (E & Hb).
    split; [exact E|]. destruct (narrow32 t); [apply Hb; reflexivity | reflexivity].
  - split; [|destruct t; try discriminate W; reflexivity].
    apply unpack_fixed_concat; [lia | | lia]. eapply Forall_impl; [|exact Hit].
    intros a Ha. unfold item_ok in Ha. rewrite W in Ha. split; [exact Ha|]. destruct t; try discriminate W; eexists; reflexivity.
  - destruct t; discriminate.
  - split; [|destruct t; try discriminate W; reflexivity].
    apply unpack_fixed_concat; [lia | | lia]. eapply Forall_impl; [|exact Hit].
    intros a Ha. unfold item_ok in Ha. rewrite W in Ha. split; [exact Ha|]. destruct t; try discriminate W; eexists; reflexivity.
Qed.
