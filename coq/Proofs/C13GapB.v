(* C13 — gap closing, second group (clause table: header of Proofs/C13GapA.v):
   (1a) rel_of_spec: the five values of the dispatch ARE the positions the property names;
   (6a) generated_tree_coexist: C13_coexist in the world of the plugin's own output files;
   (6c) wellknown_alias_no_clash: over plain segments no import line of an ordinary reference binds the well-known alias
        (the converse of wellknown_desc_clash_refuted). *)
From Coq Require Import List Bool Lia.
From BP Require Import Base.Prelude Proofs.BytesP Spec.PyImport Spec.PyImportLocals Model.Importing Model.C13Hints.
From BP Require Import Proofs.ImportingP Proofs.ImportingP2 Proofs.ImportingP3 Proofs.ImportingP4 Proofs.ImportingP5 Proofs.ImportingP6.
From BP Require Import Proofs.ImportingP7 Proofs.ImportingP10 Proofs.C13GapA.
Import ListNotations.
Local Open Scope nat_scope.

(* ------------------------------------------------------------------ (1a) the positions *)
Theorem rel_of_spec (cur tgt : path) :
  match rel_of cur tgt with
  | RSame => tgt = cur
  | RDesc => exists rest, rest <> [] /\ tgt = cur ++ rest
  | RAnc => tgt <> [] /\ exists rest, rest <> [] /\ cur = tgt ++ rest
  | RRoot => tgt = [] /\ cur <> []
  | RCousin => tgt <> cur /\ (forall rest, tgt <> cur ++ rest) /\ (forall rest, cur <> tgt ++ rest)
  end.
Proof.
  unfold rel_of.
  destruct (path_eqb tgt cur) eqn:E1; [apply path_eqb_eq in E1; exact E1|].
  apply path_eqb_neq in E1.
  destruct (path_eqb (firstn (length cur) tgt) cur) eqn:E2.
  { apply path_eqb_eq in E2. apply firstn_eq_prefix in E2. exists (skipn (length cur) tgt). split; [|exact E2].
    intros H. rewrite H, app_nil_r in E2. contradiction. }
  destruct (path_eqb (firstn (length tgt) cur) tgt) eqn:E3.
  { apply path_eqb_eq in E3. apply firstn_eq_prefix in E3.
    assert (Hr : skipn (length tgt) cur <> []).
    { intros H. rewrite H, app_nil_r in E3. apply E1. symmetry. exact E3. }
    destruct tgt as [|t0 tr].
    - split; [reflexivity|]. intros ->. apply E1. reflexivity.
    - split; [discriminate|]. exists (skipn (length (t0 :: tr)) cur). split; assumption. }
  split; [exact E1|]. split.
  - intros rest ->. rewrite firstn_length_app, path_eqb_refl in E2. discriminate.
  - intros rest ->. rewrite firstn_length_app, path_eqb_refl in E3. discriminate.
Qed.

(* siblings (same parent, different last segment) are cousins one step up *)
Theorem sibling_is_cousin (parent : path) (x y : list byte) :
  x <> y -> rel_of (parent ++ [x]) (parent ++ [y]) = RCousin.
Proof.
  intros Hxy. pose proof (rel_of_spec (parent ++ [x]) (parent ++ [y])) as S.
  destruct (rel_of (parent ++ [x]) (parent ++ [y])); [| | | |reflexivity]; exfalso.
  - apply app_inv_head in S. congruence.
  - destruct S as [rest [Hr E]]. rewrite <- app_assoc in E. apply app_inv_head in E. destruct rest; [congruence|]. cbn in E.
    injection E as _ E. destruct rest; discriminate.
  - destruct S as [_ [rest [Hr E]]]. rewrite <- app_assoc in E. apply app_inv_head in E. destruct rest; [congruence|]. cbn in E.
    injection E as _ E. destruct rest; discriminate.
  - destruct S as [E _]. destruct parent; discriminate.
Qed.

(* ------------------------------------------------------------------ (6a) all references of one module, in the generated tree *)
Section TreeCoexist.
  Variable cls_name snake optional : list byte -> list byte.
  Hypothesis snake_chars : forall s, ident_chars (snake s).
  Hypothesis snake_plain : forall l, l <> [] -> forallb plain_segb l = true -> snake (py_join b_dot l) = py_join b_us l.

  Theorem generated_tree_coexist root pkgs defs libs (cur : path) (pyd : bool) (refs : list reference) (order : list (list byte)) :
    root <> [] -> plain_pkgb cur = true -> defs_okb defs = true ->
    (forall r, In r refs ->
       plain_pkgb (r_tgt r) = true /\ type_okb (r_T r) = true /\ path_eqb (r_tgt r) google_protobuf = false /\
       identb (cls_name (r_T r)) = true /\ In (py_join b_dot (r_tgt r)) pkgs /\
       exists classes, In (root ++ r_tgt r, classes) defs /\ In (cls_name (r_T r)) classes) ->
    (forall s, In s order <-> exists r, In r refs /\ snd (ref_of cls_name snake optional cur pyd r) = Some s) ->
    exists e, exec_all (world_of root pkgs defs libs) (root ++ cur) order = Some e /\
      forall r, In r refs ->
        resolve_annotation (world_of root pkgs defs libs) (root ++ cur) e (fst (ref_of cls_name snake optional cur pyd r))
        = Some (VCls (root ++ r_tgt r) (cls_name (r_T r))).
  Proof.
    intros Hr Pc Hok Hrefs Horder.
    apply (coexist cls_name snake optional snake_chars snake_plain); try assumption.
    intros r Hin. destruct (Hrefs r Hin) as (A & B & C & D & E & classes & F & G).
    assert (K : cls_startb (cls_name (r_T r)) = true) by exact (defs_ok_all defs Hok _ _ F G).
    unfold ref_ok. split; [exact A|]. split; [exact B|]. split; [exact C|]. split; [split; assumption|].
    apply (world_of_has root pkgs defs libs (r_tgt r) classes); try assumption.
    - apply plain_pkg_ok. exact A.
    - apply defs_ok_all. exact Hok.
  Qed.

  (* ---------------------------------------------------------------- (6c) the well-known alias is never taken *)
  Lemma lib_alias_has_us pyd : In b_us (py_join b_us (lib_path pyd)).
  Proof.
    assert (H : existsb (Byte.eqb b_us) (py_join b_us (lib_path pyd)) = true) by (destruct pyd; vm_compute; reflexivity).
    apply existsb_exists in H. destruct H as [x [Hx E]]. apply byte_eqb_eq in E. subst x. exact Hx.
  Qed.

  Lemma lib_alias_head pyd : exists r, py_join b_us (lib_path pyd) = x62 :: r.
  Proof. destruct pyd; eexists; vm_compute; reflexivity. Qed.

  Lemma lib_path_no_us pyd : Forall (fun s => ~ In b_us s) (lib_path pyd).
  Proof.
    apply Forall_forall. intros s Hs. apply existsb_eqb_In.
    destruct pyd; cbn in Hs; repeat (destruct Hs as [<-|Hs]; [vm_compute; reflexivity|]); destruct Hs.
  Qed.

  Theorem wellknown_alias_no_clash (cur tgt : path) T (u pyd pyd' : bool) s :
    plain_pkgb cur = true -> plain_pkgb tgt = true -> type_okb T = true -> cls_ok (cls_name T) ->
    path_eqb tgt google_protobuf = false ->
    snd (get_type_reference cls_name snake optional (py_join b_dot cur) (b_dot :: py_join b_dot (tgt ++ [T])) u pyd) = Some s ->
    alias_of s <> Some (py_join b_us (lib_path pyd')).
  Proof.
    intros Pc Pt HT K Hg Hs.
    destruct (gtr_shape_snd cls_name snake optional snake_plain cur tgt T u pyd s Pc Pt HT Hg Hs) as [sh [-> V]].
    pose proof (plain_pkg_facts _ Pt) as F.
    rewrite (proj1 (alias_of_render cls_name snake optional snake_plain cur tgt (cls_name T) sh F K V)).
    destruct (lib_alias_head pyd') as [hr Hh].
    assert (US : forall r, b_us :: r = py_join b_us (lib_path pyd') -> False).
    { intros r Q. rewrite Hh in Q. unfold b_us in Q. discriminate. }
    pose proof (lib_alias_has_us pyd') as HU.
    remember (py_join b_us (lib_path pyd')) as AL eqn:HA.
    intros E. injection E as E.
    assert (NE : forall (ys : list (list byte)) x, ys ++ [x] <> []) by (intros ys x; destruct ys; discriminate).
    destruct sh as [x|ys x|d x|d C'|d ys x]; cbn [sh_alias valid] in *.
    - rewrite V in F. apply Forall_app in F. destruct F as [_ F]. rewrite Forall_forall in F.
      destruct (F x (or_introl eq_refl)) as [_ N _ _ _]. apply N. rewrite E. exact HU.
    - destruct V as [-> _]. apply Forall_app in F. destruct F as [_ F].
      rewrite HA in E. apply join_us_inj in E; [| apply NE | destruct pyd'; discriminate | apply forall_no_us; exact F | apply lib_path_no_us].
      rewrite E in F. assert (B : In s_betterproto (lib_path pyd')) by (destruct pyd'; left; reflexivity).
      rewrite Forall_forall in F. destruct (F _ B) as [_ _ _ _ N]. apply N. reflexivity.
    - exact (US _ E).
    - destruct V as [_ [-> [Hc _]]]. destruct cur; [congruence|]. cbn [length repeat app] in E. exact (US _ E).
    - destruct V as [sh' [ra [_ [_ [-> [Hra _]]]]]]. destruct ra; [congruence|]. cbn [length repeat app] in E. exact (US _ E).
  Qed.
End TreeCoexist.

(* the hypotheses about [snake] that the well-known alias statement talks about hold for the casing model *)
Example lib_alias_casing_model : forall pyd, FLD (py_join b_dot (lib_path pyd)) = py_join b_us (lib_path pyd).
Proof. intros [|]; vm_compute; reflexivity. Qed.

(* non-vacuity: the positions of the six shapes the property lists, and a plain reference whose alias is not the well-known one *)
Example rel_of_example :
  rel_of [sa; sb] [sa; sb] = RSame /\ rel_of [sa] [sa; sb] = RDesc /\ rel_of [sa; sb] [sa] = RAnc /\
  rel_of [sa; sb] [] = RRoot /\ rel_of [] [sa] = RDesc /\ rel_of [sa; sb] [sa; sc] = RCousin /\ rel_of [sa; sb] [sc; sd] = RCousin /\
  sb <> sc.
Proof. repeat split; try (vm_compute; reflexivity). vm_compute. discriminate. Qed.

Example wellknown_alias_no_clash_example :
  plain_pkgb [sa; sb] = true /\ plain_pkgb [sc; sd] = true /\ type_okb t_T = true /\ cls_ok (CLS t_T) /\
  path_eqb [sc; sd] google_protobuf = false /\
  alias_of (imp_of (gtr [sa; sb] [sc; sd] t_T)) = Some [x5f; x5f; x63; x5f; x64; x5f; x5f] /\
  (forall s, In s co_order -> In s co_order).
Proof. repeat split; try (vm_compute; reflexivity). auto. Qed.
