(* Proofs about Model/Varint.v against Spec/Varint.v. *)
From BP Require Import Base.Prelude Model.Varint Spec.Varint Proofs.BytesP.
From Coq Require Import ZifyBool ZifyN.
Ltac Zify.zify_post_hook ::= Z.to_euclidean_division_equations.

(* ---------- shape/value facts of the specification ---------- *)
Lemma varint_shape_nonempty bs : varint_shape bs -> bs <> [].
Proof. destruct bs; cbn; [tauto | congruence]. Qed.

Lemma shape_length_pos bs : varint_shape bs -> (1 <= length bs)%nat.
Proof. destruct bs; cbn [varint_shape length]; [tauto | lia]. Qed.

Lemma varint_value_nonneg bs : 0 <= varint_value bs.
Proof.
  induction bs as [|b r IH]; cbn [varint_value]; [lia|].
  pose proof (Z_of_byte_range b). lia.
Qed.

Lemma varint_value_upper bs : varint_value bs < 128 ^ Z.of_nat (length bs).
Proof.
  induction bs as [|b r IH]; cbn [varint_value length]; [cbn; lia|].
  pose proof (Z_of_byte_range b). pose proof (varint_value_nonneg r).
  rewrite Nat2Z.inj_succ, Z.pow_succ_r by lia. lia.
Qed.

Lemma varint_value_lower bs :
  bs <> [] -> last bs x00 <> x00 -> Z_of_byte (last bs x00) < 128 ->
  128 ^ (Z.of_nat (length bs) - 1) <= varint_value bs.
Proof.
  induction bs as [|b r IH]; [congruence|]. intros _ Hlast Hlt.
  destruct r as [|b' r'].
  - cbn in *. assert (Z_of_byte b <> 0).
    { intros E. apply Hlast. apply Z_of_byte_inj. rewrite E. reflexivity. }
    pose proof (Z_of_byte_range b). lia.
  - change (last (b :: b' :: r') x00) with (last (b' :: r') x00) in *.
    specialize (IH ltac:(congruence) Hlast Hlt).
    cbn [varint_value length] in *. pose proof (Z_of_byte_range b).
    rewrite !Nat2Z.inj_succ in *.
    replace (Z.succ (Z.succ (Z.of_nat (length r'))) - 1) with (Z.succ (Z.succ (Z.of_nat (length r')) - 1)) by lia.
    rewrite Z.pow_succ_r by lia. lia.
Qed.

Lemma shape_last_lt bs : varint_shape bs -> Z_of_byte (last bs x00) < 128.
Proof.
  induction bs as [|b r IH]; cbn [varint_shape]; [tauto|].
  destruct r as [|b' r']; [cbn; tauto|]. intros [_ H].
  change (last (b :: b' :: r') x00) with (last (b' :: r') x00). apply IH, H.
Qed.

(* the canonical representation is unique *)
Lemma shape_value_inj a b :
  varint_shape a -> varint_shape b -> length a = length b ->
  varint_value a = varint_value b -> a = b.
Proof.
  revert b; induction a as [|x a IH]; intros [|y b]; cbn [varint_shape length]; try tauto; try discriminate.
  intros Ha Hb [= Hl] Hv. cbn [varint_value] in Hv.
  pose proof (Z_of_byte_range x). pose proof (Z_of_byte_range y).
  destruct a as [|x' a'], b as [|y' b']; try discriminate.
  - cbn in Hv. f_equal. apply Z_of_byte_inj. lia.
  - destruct Ha as [Hx Ha], Hb as [Hy Hb].
    assert (Hr : varint_value (x' :: a') = varint_value (y' :: b')) by lia.
    rewrite (IH (y' :: b') Ha Hb Hl Hr). f_equal. apply Z_of_byte_inj. lia.
Qed.

Theorem canonical_unique n a b : canonical n a -> canonical n b -> a = b.
Proof.
  intros (Sa & Va & Ma) (Sb & Vb & Mb).
  assert (Hlen : length a = length b).
  { pose proof (varint_value_upper a) as Ua. pose proof (varint_value_upper b) as Ub.
    pose proof (shape_last_lt a Sa) as La. pose proof (shape_last_lt b Sb) as Lb.
    pose proof (varint_shape_nonempty a Sa) as Na. pose proof (varint_shape_nonempty b Sb) as Nb.
    assert (Hmono : forall p q, 0 <= p -> 0 <= q -> 128 ^ p <= n < 128 ^ q -> p < q).
    { intros p q Hp Hq [H1 H2]. apply (Z.pow_lt_mono_r_iff 128); lia. }
    assert (Hpos : forall l : list byte, l <> [] -> (1 <= length l)%nat) by (intros [|? ?]; cbn; [congruence|lia]).
    pose proof (Hpos a Na). pose proof (Hpos b Nb).
    destruct Ma as [Ma|Ma], Mb as [Mb|Mb]; [congruence| | |].
    - pose proof (varint_value_lower b Nb Mb Lb) as Lo. rewrite Ma in Ua.
      assert (Z.of_nat (length b) - 1 < 1) by (apply Hmono; [lia|lia|change (Z.of_nat 1) with 1 in Ua; lia]). lia.
    - pose proof (varint_value_lower a Na Ma La) as Lo. rewrite Mb in Ub.
      assert (Z.of_nat (length a) - 1 < 1) by (apply Hmono; [lia|lia|change (Z.of_nat 1) with 1 in Ub; lia]). lia.
    - pose proof (varint_value_lower a Na Ma La) as Loa. pose proof (varint_value_lower b Nb Mb Lb) as Lob.
      assert (Z.of_nat (length a) - 1 < Z.of_nat (length b)) by (apply Hmono; lia).
      assert (Z.of_nat (length b) - 1 < Z.of_nat (length a)) by (apply Hmono; lia). lia. }
  apply shape_value_inj; congruence.
Qed.

(* ---------- the encoder ---------- *)
Lemma enc_go_spec f v :
  0 <= v < 128 ^ Z.of_nat (S f) ->
  let bs := enc_go f v in
  varint_shape bs /\ varint_value bs = v /\ (0 < v -> last bs x00 <> x00) /\
  (v < 128 -> length bs = 1%nat) /\ (length bs <= S f)%nat.
Proof.
  revert v; induction f as [|f IH]; intros v Hv; cbn zeta.
  - change (Z.of_nat 1) with 1 in Hv. rewrite Z.pow_1_r in Hv.
    cbn [enc_go]. rewrite land_127, Z.mod_small by lia.
    cbn [varint_shape varint_value last length]. rewrite Z_of_byte_of_Z by lia.
    repeat split; try lia.
    intros Hpos E. apply (f_equal Z_of_byte) in E. rewrite Z_of_byte_of_Z in E by lia. cbn in E. lia.
  - cbn [enc_go]. rewrite land_127, shiftr_7.
    rewrite Nat2Z.inj_succ, Z.pow_succ_r in Hv by lia.
    destruct (v / 128 =? 0) eqn:Hq.
    + assert (v < 128) by lia. rewrite Z.mod_small by lia.
      cbn [varint_shape varint_value last length]. rewrite Z_of_byte_of_Z by lia.
      repeat split; try lia.
      intros Hpos E. apply (f_equal Z_of_byte) in E. rewrite Z_of_byte_of_Z in E by lia. cbn in E. lia.
    + assert (Hq' : 0 < v / 128 < 128 ^ Z.of_nat (S f)) by lia.
      destruct (IH (v / 128) ltac:(lia)) as (Sh & Va & Mi & _ & Le).
      rewrite lor_128_low by lia.
      destruct (enc_go f (v / 128)) as [|b' r'] eqn:E; [cbn in Sh; tauto|].
      cbn [varint_shape]. cbn [varint_value]. cbn [varint_value] in Va.
      rewrite Z_of_byte_of_Z by lia.
      change (last (byte_of_Z (128 + v mod 128) :: b' :: r') x00) with (last (b' :: r') x00).
      repeat split; try lia; try assumption.
      * intros _. apply Mi. lia.
      * cbn [length] in *. lia.
Qed.

Lemma enc_fuel_enough v : 0 <= v -> v < 128 ^ Z.of_nat (S (enc_fuel v)).
Proof.
  intros Hv. unfold enc_fuel.
  destruct (Z.eq_dec v 0) as [->|Hne]; [cbn; lia|].
  pose proof (Z.log2_spec v ltac:(lia)) as [_ Hs].
  pose proof (Z.log2_nonneg v) as Hl.
  rewrite !Nat2Z.inj_succ, Z2Nat.id by lia.
  apply Z.lt_le_trans with (2 ^ Z.succ (Z.log2 v)); [assumption|].
  apply Z.le_trans with (128 ^ Z.succ (Z.log2 v)).
  - apply Z.pow_le_mono_l. lia.
  - apply Z.pow_le_mono_r; lia.
Qed.

Lemma encode_nonneg_canonical v :
  0 <= v -> exists bs, encode_varint v = Ok bs /\ canonical v bs /\ bs = enc_go (enc_fuel v) v.
Proof.
  intros Hv. unfold encode_varint.
  replace (v <? - 2 ^ 63) with false by lia. replace (v <? 0) with false by lia.
  eexists; split; [reflexivity|]. split; [|reflexivity].
  destruct (enc_go_spec (enc_fuel v) v (conj Hv (enc_fuel_enough v Hv))) as (Sh & Va & Mi & On & _).
  split; [exact Sh|]. split; [exact Va|].
  destruct (Z.eq_dec v 0) as [->|Hne]; [left; apply On; lia | right; apply Mi; lia].
Qed.

(* length of the canonical form, in terms of 128-adic magnitude *)
Lemma canonical_length_bounds n bs :
  canonical n bs -> 0 < n ->
  128 ^ (Z.of_nat (length bs) - 1) <= n < 128 ^ Z.of_nat (length bs).
Proof.
  intros (Sh & Va & Mi) Hn. subst n.
  split; [|apply varint_value_upper].
  destruct Mi as [L1|Ml].
  - rewrite L1. change (Z.of_nat 1 - 1) with 0. cbn. lia.
  - apply varint_value_lower; [apply varint_shape_nonempty, Sh | exact Ml | apply shape_last_lt, Sh].
Qed.

Lemma pow128 k : 0 <= k -> 128 ^ k = 2 ^ (7 * k).
Proof. intros Hk. rewrite Z.pow_mul_r by lia. reflexivity. Qed.

Lemma canonical_length_lt_2p64 n bs : canonical n bs -> 0 <= n < 2 ^ 64 -> (length bs <= 10)%nat.
Proof.
  intros Hc Hn. destruct (Z.eq_dec n 0) as [->|Hne].
  - destruct Hc as (Sh & Va & [L1|Ml]); [lia|].
    exfalso. pose proof (varint_value_lower bs (varint_shape_nonempty _ Sh) Ml (shape_last_lt _ Sh)) as Lo.
    rewrite Va in Lo. assert (0 < 128 ^ (Z.of_nat (length bs) - 1)); [|lia].
    apply Z.pow_pos_nonneg; [lia|]. pose proof (shape_length_pos bs Sh). lia.
  - destruct (canonical_length_bounds n bs Hc ltac:(lia)) as [Lo _].
    assert (Hl : (1 <= length bs)%nat).
    { destruct Hc as (Sh & _). apply shape_length_pos, Sh. }
    rewrite pow128 in Lo by lia.
    assert (7 * (Z.of_nat (length bs) - 1) < 64); [|lia].
    apply (Z.pow_lt_mono_r_iff 2); lia.
Qed.

Lemma size_matches_canonical n bs :
  canonical n bs -> 0 <= n -> size_varint n = Ok (Zlength bs).
Proof.
  intros Hc Hn. unfold size_varint, Zlength.
  replace (n <? - 2 ^ 63) with false by lia. replace (n <? 0) with false by lia.
  destruct (n =? 0) eqn:E0.
  - assert (n = 0) by lia. subst n. f_equal.
    destruct Hc as (Sh & Va & [L1|Ml]); [lia|].
    exfalso. pose proof (varint_value_lower bs (varint_shape_nonempty _ Sh) Ml (shape_last_lt _ Sh)) as Lo.
    rewrite Va in Lo. assert (0 < 128 ^ (Z.of_nat (length bs) - 1)); [|lia].
    apply Z.pow_pos_nonneg; [lia|]. pose proof (shape_length_pos bs Sh). lia.
  - f_equal. unfold bit_length. rewrite E0. rewrite Z.abs_eq by lia.
    destruct (canonical_length_bounds n bs Hc ltac:(lia)) as [Lo Hi].
    assert (Hl : (1 <= length bs)%nat).
    { destruct Hc as (Sh & _). apply shape_length_pos, Sh. }
    rewrite pow128 in Lo, Hi by lia.
    pose proof (Z.log2_spec n ltac:(lia)) as [L1 L2]. pose proof (Z.log2_nonneg n).
    assert (7 * (Z.of_nat (length bs) - 1) < Z.succ (Z.log2 n)) by (apply (Z.pow_lt_mono_r_iff 2); lia).
    assert (Z.log2 n < 7 * Z.of_nat (length bs)) by (apply (Z.pow_lt_mono_r_iff 2); lia).
    lia.
Qed.

(* ---------- the decoder ---------- *)
Lemma load_go_rep bs : forall n shift acc raw rest,
  varint_shape bs -> (length bs <= n)%nat -> 0 <= shift -> 0 <= acc < 2 ^ shift ->
  load_go n shift acc raw (bs ++ rest) = Ok (acc + varint_value bs * 2 ^ shift, raw ++ bs, rest).
Proof.
  induction bs as [|b r IH]; intros n shift acc raw rest Sh Ln Hs Ha; [cbn in Sh; tauto|].
  destruct n as [|n']; [cbn in Ln; lia|].
  cbn [app load_go]. pose proof (Z_of_byte_range b) as Hb.
  rewrite land_127, land_128 by exact Hb.
  rewrite lor_shiftl_add by lia.
  cbn [varint_shape] in Sh. destruct r as [|b' r'].
  - replace (Z_of_byte b <? 128) with true by lia. cbn [Z.eqb varint_value app]. do 3 f_equal. lia.
  - destruct Sh as [Hge Sh']. replace (Z_of_byte b <? 128) with false by lia. cbn [Z.eqb].
    rewrite IH; try assumption; try (cbn [length] in *; lia).
    + rewrite <- app_assoc. cbn [app]. do 3 f_equal.
      cbn [varint_value]. rewrite Z.pow_add_r by lia. change (2 ^ 7) with 128. lia.
    + rewrite Z.pow_add_r by lia. change (2 ^ 7) with 128.
      pose proof (Z.pow_pos_nonneg 2 shift ltac:(lia) Hs).
      assert (0 <= Z_of_byte b mod 128 <= 127) by lia. nia.
Qed.

Theorem load_varint_rep n bs rest :
  VarintRep n bs -> load_varint (bs ++ rest) = Ok (n, bs, rest).
Proof.
  intros (Sh & Va & Le). unfold load_varint.
  rewrite load_go_rep; try assumption; try lia. cbn [app]. do 3 f_equal. lia.
Qed.

(* soundness on arbitrary input: whatever load_varint accepts is a shaped
   prefix of the input, of at most 10 bytes, and the value is what it denotes *)
Lemma load_go_sound n : forall shift acc raw s v raw' rest,
  0 <= shift -> 0 <= acc < 2 ^ shift ->
  load_go n shift acc raw s = Ok (v, raw', rest) ->
  exists bs, s = bs ++ rest /\ raw' = raw ++ bs /\ varint_shape bs /\ (length bs <= n)%nat /\
             v = acc + varint_value bs * 2 ^ shift.
Proof.
  induction n as [|n IH]; intros shift acc raw s v raw' rest Hs Ha H; [discriminate|].
  cbn [load_go] in H. destruct s as [|b s']; [discriminate|].
  pose proof (Z_of_byte_range b) as Hb.
  rewrite land_127, land_128 in H by exact Hb. rewrite lor_shiftl_add in H by lia.
  destruct (Z_of_byte b <? 128) eqn:Hlt; cbn [Z.eqb] in H.
  - injection H as <- <- <-. exists [b]. cbn [app varint_shape varint_value length].
    repeat split; try lia.
  - apply IH in H; try lia.
    + destruct H as (bs & -> & -> & Sh & Le & ->).
      exists (b :: bs). cbn [app]. rewrite <- app_assoc. cbn [app].
      repeat split; try (cbn [length]; lia).
      * cbn [varint_shape]. destruct bs; [cbn in Sh; tauto|]. split; [lia|exact Sh].
      * cbn [varint_value]. rewrite Z.pow_add_r by lia. change (2 ^ 7) with 128. lia.
    + rewrite Z.pow_add_r by lia. change (2 ^ 7) with 128.
      pose proof (Z.pow_pos_nonneg 2 shift ltac:(lia) Hs).
      assert (0 <= Z_of_byte b mod 128 <= 127) by lia. nia.
Qed.

Theorem load_varint_sound s v raw rest :
  load_varint s = Ok (v, raw, rest) -> s = raw ++ rest /\ VarintRep v raw.
Proof.
  unfold load_varint. intros H. apply load_go_sound in H; try (cbn; lia).
  destruct H as (bs & -> & -> & Sh & Le & ->). cbn [app]. split; [reflexivity|].
  split; [exact Sh|]. split; [lia|exact Le].
Qed.

(* the three outcomes *)
Lemma load_go_total n : forall shift acc raw s,
  (exists x, load_go n shift acc raw s = Ok x) \/ load_go n shift acc raw s = Err EEof
  \/ load_go n shift acc raw s = Err ETooLong.
Proof.
  induction n as [|n IH]; intros; cbn [load_go]; [tauto|].
  destruct s as [|b s']; [tauto|]. destruct (_ =? 0); [left; eauto | apply IH].
Qed.

Lemma load_go_toolong n : forall shift acc raw s,
  (n <= length s)%nat -> Forall (fun b => 128 <= Z_of_byte b) (firstn n s) ->
  load_go n shift acc raw s = Err ETooLong.
Proof.
  induction n as [|n IH]; intros shift acc raw s Hl Hf; cbn [load_go]; [reflexivity|].
  destruct s as [|b s']; [cbn in Hl; lia|]. cbn [firstn] in Hf. inversion Hf as [|? ? Hb Hf']; subst.
  rewrite land_128 by apply Z_of_byte_range. replace (Z_of_byte b <? 128) with false by lia.
  cbn [Z.eqb]. apply IH; [cbn in Hl; lia | exact Hf'].
Qed.

Lemma load_go_eof n : forall shift acc raw s,
  (length s < n)%nat -> Forall (fun b => 128 <= Z_of_byte b) s ->
  load_go n shift acc raw s = Err EEof.
Proof.
  induction n as [|n IH]; intros shift acc raw s Hl Hf; [lia|]. cbn [load_go].
  destruct s as [|b s']; [reflexivity|]. inversion Hf as [|? ? Hb Hf']; subst.
  rewrite land_128 by apply Z_of_byte_range. replace (Z_of_byte b <? 128) with false by lia.
  cbn [Z.eqb]. apply IH; [cbn in Hl; lia | exact Hf'].
Qed.

(* ---------- the property-level statements ---------- *)
Definition wrap64 (v : Z) : Z := v mod 2 ^ 64.

Lemma encode_in_range v :
  - 2 ^ 63 <= v < 2 ^ 64 ->
  exists bs, encode_varint v = Ok bs /\ canonical (wrap64 v) bs /\ (length bs <= 10)%nat.
Proof.
  intros Hv. unfold wrap64.
  destruct (Z.ltb_spec v 0) as [Hneg|Hpos].
  - destruct (encode_nonneg_canonical (v + 2 ^ 64) ltac:(lia)) as (bs & E & C & _).
    exists bs. unfold encode_varint in *.
    replace (v <? - 2 ^ 63) with false by lia. replace (v <? 0) with true by lia.
    replace (v + 2 ^ 64 <? - 2 ^ 63) with false in E by lia.
    replace (v + 2 ^ 64 <? 0) with false in E by lia.
    replace (v mod 2 ^ 64) with (v + 2 ^ 64) by lia.
    split; [exact E|]. split; [exact C|]. apply (canonical_length_lt_2p64 _ _ C). lia.
  - destruct (encode_nonneg_canonical v ltac:(lia)) as (bs & E & C & _).
    exists bs. rewrite Z.mod_small by lia.
    split; [exact E|]. split; [exact C|]. apply (canonical_length_lt_2p64 _ _ C). lia.
Qed.

Lemma negative_is_ten_bytes v bs :
  - 2 ^ 63 <= v < 0 -> encode_varint v = Ok bs -> length bs = 10%nat.
Proof.
  intros Hv E. destruct (encode_in_range v ltac:(lia)) as (bs' & E' & C & Le).
  rewrite E in E'. injection E' as <-.
  unfold wrap64 in C. replace (v mod 2 ^ 64) with (v + 2 ^ 64) in C by lia.
  destruct (canonical_length_bounds _ _ C ltac:(lia)) as [_ Hi].
  assert (Hl : (1 <= length bs)%nat).
  { destruct C as (Sh & _). apply shape_length_pos, Sh. }
  rewrite pow128 in Hi by lia.
  assert (63 < 7 * Z.of_nat (length bs)); [|lia].
  apply (Z.pow_lt_mono_r_iff 2); lia.
Qed.

Lemma encode_load_inverse v rest :
  - 2 ^ 63 <= v < 2 ^ 64 ->
  exists bs, encode_varint v = Ok bs /\ load_varint (bs ++ rest) = Ok (wrap64 v, bs, rest).
Proof.
  intros Hv. destruct (encode_in_range v Hv) as (bs & E & (Sh & Va & _) & Le).
  exists bs. split; [exact E|]. apply load_varint_rep. repeat split; assumption.
Qed.

Lemma skipn_app_exact {A} (pre l : list A) : skipn (length pre) (pre ++ l) = l.
Proof. induction pre; cbn; auto. Qed.

Lemma encode_decode_inverse v pre rest :
  - 2 ^ 63 <= v < 2 ^ 64 ->
  exists bs, encode_varint v = Ok bs /\
             decode_varint (pre ++ bs ++ rest) (Zlength pre) = Ok (wrap64 v, Zlength pre + Zlength bs).
Proof.
  intros Hv. destruct (encode_load_inverse v rest Hv) as (bs & E & L).
  exists bs. split; [exact E|]. unfold decode_varint, Zlength.
  replace (Z.of_nat (length pre) <? 0) with false by lia.
  rewrite Nat2Z.id, skipn_app_exact, L. reflexivity.
Qed.

Lemma encode_size_agree v :
  - 2 ^ 63 <= v < 2 ^ 64 ->
  exists bs, encode_varint v = Ok bs /\ size_varint v = Ok (Zlength bs).
Proof.
  intros Hv. destruct (encode_in_range v Hv) as (bs & E & C & Le).
  exists bs. split; [exact E|].
  destruct (Z.ltb_spec v 0) as [Hneg|Hpos].
  - unfold size_varint, Zlength. replace (v <? - 2 ^ 63) with false by lia.
    replace (v <? 0) with true by lia.
    rewrite (negative_is_ten_bytes v bs ltac:(lia) E). reflexivity.
  - unfold wrap64 in C. rewrite Z.mod_small in C by lia.
    apply size_matches_canonical; [exact C | lia].
Qed.

Lemma reject_low v : v < - 2 ^ 63 -> encode_varint v = Err EValue /\ size_varint v = Err EValue.
Proof.
  intros Hv. unfold encode_varint, size_varint. replace (v <? - 2 ^ 63) with true by lia. tauto.
Qed.

(* beyond 2^64 the encoder still emits a (longer) well-shaped varint and the
   two walks still agree; stated because C09 has no range hypothesis *)
Lemma encode_size_agree_nonneg v :
  0 <= v -> exists bs, encode_varint v = Ok bs /\ size_varint v = Ok (Zlength bs).
Proof.
  intros Hv. destruct (encode_nonneg_canonical v Hv) as (bs & E & C & _).
  exists bs. split; [exact E|]. apply size_matches_canonical; assumption.
Qed.

Theorem encode_size_agree_total v :
  match encode_varint v, size_varint v with
  | Ok bs, Ok n => n = Zlength bs
  | Err a, Err b => a = b
  | _, _ => False
  end.
Proof.
  destruct (Z.ltb_spec v (- 2 ^ 63)) as [Hlow|Hge].
  - destruct (reject_low v Hlow) as [-> ->]. reflexivity.
  - destruct (Z.ltb_spec v 0) as [Hneg|Hpos].
    + destruct (encode_size_agree v ltac:(lia)) as (bs & -> & ->). reflexivity.
    + destruct (encode_size_agree_nonneg v Hpos) as (bs & -> & ->). reflexivity.
Qed.
