(* C01 over reachable objects, part 1: [c01_value_ok] as a pointwise invariant [VGood] (one clause per raw
   attribute), so that the effect of an operation that changes one attribute can be followed. *)
From Coq Require Import ZArith List Bool Lia Arith.
From BP Require Import Base.Prelude Model.Types Model.Object Model.Eq Model.Encode Model.Decode Model.WellFormed.
From BP Require Import Model.History Model.C07Ops Model.C01Def Model.C01Reach.
From BP Require Import Proofs.C01Unfold Proofs.C01Main Proofs.C07InvP.
Import ListNotations.

Lemma field_in_range_eq : field_in_range = slot_in_range.
Proof. reflexivity. Qed.

Lemma clean_ok_eq : clean_ok = local_ok.
Proof. reflexivity. Qed.

Definition VGood (sc : schema) (o : obj) : Prop :=
  length (oraw o) = length (cfs sc o) /\
  length (ocur o) = cngroups (get_class sc (ocls o)) /\
  ounk o = [] /\
  (forall g i, nth_error (ocur o) g = Some (Some i) ->
               exists f, nth_error (cfs sc o) i = Some f /\ fgroup f = Some g) /\
  (forall i f x, nth_error (cfs sc o) i = Some f -> nth_error (oraw o) i = Some x ->
                 group_selects (ocur o) f i = Some false -> x = PPlaceholder) /\
  (forall i f x, nth_error (cfs sc o) i = Some f -> nth_error (oraw o) i = Some x -> slot_ok sc f x = true).

(* ---------- pointwise forms of the list walks ---------- *)
Lemma slots_in_range_pt sc : forall raw fs,
  (forall k x f, nth_error raw k = Some x -> nth_error fs k = Some f -> slot_in_range sc f x = true) ->
  slots_in_range sc raw fs = true.
Proof.
  induction raw as [|x raw IH]; intros [|f fs] H; try reflexivity.
  cbn [slots_in_range]. apply andb_true_iff. split.
  - apply (H 0%nat x f eq_refl eq_refl).
  - apply IH. intros k y g Hy Hg. apply (H (S k) y g Hy Hg).
Qed.

Lemma deep_list_pt P : forall raw,
  (forall k x, nth_error raw k = Some x -> deep P x = true) -> deep_list P raw = true.
Proof.
  induction raw as [|x raw IH]; intros H; [reflexivity|].
  rewrite deep_list_cons. apply andb_true_iff. split.
  - apply (H 0%nat x eq_refl).
  - apply IH. intros k y Hy. apply (H (S k) y Hy).
Qed.

Lemma clean_slots_pt sc cur : forall raw fs j,
  (forall k x f, nth_error raw k = Some x -> nth_error fs k = Some f ->
                 group_selects cur f (j + k) = Some false -> x = PPlaceholder) ->
  clean_slots sc cur j raw fs = true.
Proof.
  induction raw as [|x raw IH]; intros [|f fs] j H; try reflexivity.
  cbn [clean_slots]. apply andb_true_iff. split.
  - destruct (group_selects cur f j) as [[|]|] eqn:E; try reflexivity.
    rewrite (H 0%nat x f eq_refl eq_refl); [reflexivity|]. rewrite Nat.add_0_r. exact E.
  - apply IH. intros k y g Hy Hg Hs. apply (H (S k) y g Hy Hg).
    replace (j + S k)%nat with (S j + k)%nat by lia. exact Hs.
Qed.

Definition cur_go (fs : list fdesc) : nat -> list (option nat) -> bool :=
  fix go (g : nat) (cur : list (option nat)) : bool :=
    match cur with
    | [] => true
    | None :: r => go (S g) r
    | Some i :: r =>
        match nth_error fs i with
        | Some f => opt_nat_eqb (fgroup f) (Some g)
        | None => false
        end && go (S g) r
    end.

Lemma cur_ok_unfold sc o : cur_ok sc o = cur_go (cfs sc o) 0 (ocur o).
Proof. reflexivity. Qed.

Lemma cur_go_nth fs : forall cur g k i,
  cur_go fs g cur = true -> nth_error cur k = Some (Some i) ->
  exists f, nth_error fs i = Some f /\ fgroup f = Some (g + k)%nat.
Proof.
  induction cur as [|s cur IH]; intros g [|k] i H Hk; cbn in Hk; try discriminate.
  - injection Hk as ->. cbn [cur_go] in H. apply andb_true_iff in H as [H _].
    destruct (nth_error fs i) as [f|]; [|discriminate]. exists f. split; [reflexivity|].
    apply opt_nat_eqb_eq in H. rewrite Nat.add_0_r. exact H.
  - assert (H' : cur_go fs (S g) cur = true).
    { cbn [cur_go] in H. destruct s; [apply andb_true_iff in H as [_ H]|]; exact H. }
    destruct (IH (S g) k i H' Hk) as (f & Hf & Hg). exists f. split; [exact Hf|].
    rewrite Hg. f_equal. lia.
Qed.

Lemma cur_go_pt fs : forall cur g,
  (forall k i, nth_error cur k = Some (Some i) -> exists f, nth_error fs i = Some f /\ fgroup f = Some (g + k)%nat) ->
  cur_go fs g cur = true.
Proof.
  induction cur as [|s cur IH]; intros g H; [reflexivity|].
  assert (H' : cur_go fs (S g) cur = true).
  { apply IH. intros k i Hk. destruct (H (S k) i Hk) as (f & Hf & Hg). exists f. split; [exact Hf|].
    rewrite Hg. f_equal. lia. }
  cbn [cur_go]. destruct s as [i|]; [|exact H'].
  apply andb_true_iff. split; [|exact H'].
  destruct (H 0%nat i eq_refl) as (f & Hf & Hg). rewrite Hf. apply opt_nat_eqb_eq. rewrite Hg. f_equal. lia.
Qed.

Lemma forallb_nth {A} (P : A -> bool) l : forallb P l = true <-> (forall k x, nth_error l k = Some x -> P x = true).
Proof.
  rewrite forallb_forall. split.
  - intros H k x Hk. apply H. eapply nth_error_In. exact Hk.
  - intros H x Hx. apply In_nth_error in Hx as (k & Hk). eapply H. exact Hk.
Qed.

(* ---------- the equivalence ---------- *)
Lemma vgood_of_value_ok sc o : c01_value_ok sc o = true -> VGood sc o.
Proof.
  destruct o as [c raw sow unk cur]. unfold c01_value_ok. intros H. apply andb_true_iff in H as [Hr Hd].
  rewrite in_range_unfold in Hr. rewrite deep_msg in Hd.
  apply andb_true_iff in Hr as [Hr Hsl]. apply andb_true_iff in Hr as [Hr Hcl]. apply andb_true_iff in Hr as [_ Hlen].
  apply Nat.eqb_eq in Hlen, Hcl. apply andb_true_iff in Hd as [Hl Hdl].
  apply andb_true_iff in Hl as [Hl Hku]. apply andb_true_iff in Hl as [Hl Hnu]. apply andb_true_iff in Hl as [Hoc Hco].
  unfold VGood, cfs. cbn [oraw ocur ocls ounk]. repeat split.
  - exact Hlen.
  - exact Hcl.
  - unfold no_unknown in Hnu. cbn [ounk] in Hnu. destruct unk; [reflexivity|discriminate].
  - intros g i Hg. rewrite cur_ok_unfold in Hco. unfold cfs in Hco. cbn [ocls ocur] in Hco.
    destruct (cur_go_nth _ _ _ _ _ Hco Hg) as (f & Hf & Hfg). exists f. split; [exact Hf|exact Hfg].
  - intros i f x Hf Hx Hs. rewrite oneof_clean_unfold in Hoc.
    eapply (clean_slots_nth sc cur raw _ 0%nat i x f Hoc Hx Hf). exact Hs.
  - intros i f x Hf Hx. unfold slot_ok. rewrite field_in_range_eq.
    rewrite (slots_in_range_nth sc raw _ i x f Hsl Hx Hf).
    pose proof (deep_list_nth _ raw i x Hdl Hx) as Hd1. change (deep (clean_ok sc) x = true) in Hd1. rewrite Hd1.
    unfold keys_unique in Hku. cbn [oraw] in Hku. rewrite forallb_nth in Hku. specialize (Hku i x Hx).
    unfold dict_keys_ok. destruct x; try reflexivity. exact Hku.
Qed.

Lemma value_ok_of_vgood sc o : VGood sc o -> c01_value_ok sc o = true.
Proof.
  destruct o as [c raw sow unk cur]. unfold VGood, cfs. cbn [oraw ocur ocls ounk].
  intros (Hlen & Hcl & Hu & Hco & Hoc & Hsl). subst unk.
  unfold c01_value_ok. apply andb_true_iff. split.
  - rewrite in_range_unfold. rewrite Nat.eqb_refl. rewrite Hlen, Hcl, !Nat.eqb_refl. cbn [andb].
    apply slots_in_range_pt. intros k x f Hx Hf. specialize (Hsl k f x Hf Hx). unfold slot_ok in Hsl.
    apply andb_true_iff in Hsl as [Hsl _]. apply andb_true_iff in Hsl as [Hsl _]. exact Hsl.
  - rewrite deep_msg. apply andb_true_iff. split.
    + unfold clean_ok. repeat (apply andb_true_iff; split).
      * rewrite oneof_clean_unfold. apply clean_slots_pt. intros k x f Hx Hf Hs. eapply Hoc; eauto.
      * rewrite cur_ok_unfold. unfold cfs. cbn [ocls ocur]. apply cur_go_pt. intros k i Hk. apply Hco. exact Hk.
      * reflexivity.
      * unfold keys_unique. cbn [oraw]. apply forallb_nth. intros k x Hx.
        destruct (nth_error (cfields (get_class sc c)) k) as [f|] eqn:Hf.
        -- specialize (Hsl k f x Hf Hx). unfold slot_ok in Hsl. apply andb_true_iff in Hsl as [_ Hsl].
           unfold dict_keys_ok in Hsl. destruct x; try reflexivity. exact Hsl.
        -- exfalso. apply nth_error_None in Hf. apply nth_error_lt in Hx. lia.
    + apply deep_list_pt. intros k x Hx.
      destruct (nth_error (cfields (get_class sc c)) k) as [f|] eqn:Hf.
      * specialize (Hsl k f x Hf Hx). unfold slot_ok in Hsl. apply andb_true_iff in Hsl as [Hsl _].
        apply andb_true_iff in Hsl as [_ Hsl]. exact Hsl.
      * exfalso. apply nth_error_None in Hf. apply nth_error_lt in Hx. lia.
Qed.

Lemma vgood_iff sc o : c01_value_ok sc o = true <-> VGood sc o.
Proof. split; [apply vgood_of_value_ok | apply value_ok_of_vgood]. Qed.

(* ---------- a message in a slot ---------- *)
Lemma slot_in_range_msg sc f o :
  slot_in_range sc f (PMsg o) = true ->
  in_range sc o = true /\
  (fhint f = HPlain (PyMsg (ocls o)) \/ fhint f = HOptional (PyMsg (ocls o))).
Proof.
  unfold slot_in_range. intros H.
  destruct (fhint f) as [p|p|p|pk pv'] eqn:Hh; try discriminate H.
  - destruct p; try (destruct (fty f); destruct o; discriminate H); try (destruct o; discriminate H).
    rewrite elem_in_range_msg in H. apply andb_true_iff in H as [Hc H]. apply Nat.eqb_eq in Hc. subst c.
    split; [exact H|]. left. reflexivity.
  - destruct p; try (destruct (match fwraps f with Some w => w | None => fty f end); destruct o; discriminate H);
      try (destruct o; discriminate H).
    rewrite elem_in_range_msg in H. apply andb_true_iff in H as [Hc H]. apply Nat.eqb_eq in Hc. subst c.
    split; [exact H|]. right. reflexivity.
Qed.

Lemma slot_in_range_msg_intro sc f o :
  (fhint f = HPlain (PyMsg (ocls o)) \/ fhint f = HOptional (PyMsg (ocls o))) ->
  in_range sc o = true -> slot_in_range sc f (PMsg o) = true.
Proof.
  intros [Hh|Hh] Hr; unfold slot_in_range; rewrite Hh; rewrite elem_in_range_msg, Nat.eqb_refl, Hr; reflexivity.
Qed.

(* the nested message of a good slot is good; a good message of the same class may take its place *)
Lemma slot_ok_msg sc f o : slot_ok sc f (PMsg o) = true -> VGood sc o.
Proof.
  unfold slot_ok. intros H. apply andb_true_iff in H as [H _]. apply andb_true_iff in H as [Hr Hd].
  rewrite field_in_range_eq in Hr. apply slot_in_range_msg in Hr as [Hr _].
  apply vgood_of_value_ok. unfold c01_value_ok. rewrite Hr. exact Hd.
Qed.

Lemma slot_ok_msg_swap sc f a b :
  slot_ok sc f (PMsg a) = true -> ocls b = ocls a -> VGood sc b -> slot_ok sc f (PMsg b) = true.
Proof.
  unfold slot_ok. intros H Hc Hb. apply andb_true_iff in H as [H _]. apply andb_true_iff in H as [Hr _].
  rewrite field_in_range_eq in *. apply slot_in_range_msg in Hr as [_ Hh]. rewrite <- Hc in Hh.
  apply value_ok_of_vgood in Hb. unfold c01_value_ok in Hb. apply andb_true_iff in Hb as [Hb1 Hb2].
  change (deep (clean_ok sc) (PMsg b) = true) in Hb2.
  rewrite (slot_in_range_msg_intro sc f b Hh Hb1), Hb2. reflexivity.
Qed.

(* flags are not looked at *)
Lemma slot_ok_mark_sow sc f v : slot_ok sc f (mark_sow v) = slot_ok sc f v.
Proof. destruct v as [| | | | | | | | | | |[c r s u g]]; reflexivity. Qed.

Lemma slot_ok_stored sc f v : slot_ok sc f (stored sc v) = slot_ok sc f v.
Proof. unfold stored. destruct (fieldless sc v); [apply slot_ok_mark_sow|reflexivity]. Qed.

Lemma vgood_flags sc c raw sow sow' unk cur : VGood sc (Obj c raw sow unk cur) -> VGood sc (Obj c raw sow' unk cur).
Proof. intros H. exact H. Qed.
