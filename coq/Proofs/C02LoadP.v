(* C02: Message.load (Model/Decode.load, size = None) restated as a loop over a separately
   defined one-record step [apply_record] (postprocess + the setattr / append / map-merge
   dispatch).  [load_eq] shows the restatement is the model's function; everything else in the
   C02 proofs talks about [apply_record] and [loop']. *)
From BP Require Import Base.Prelude Model.Types Model.Varint Model.Scalar Model.Float Model.Utf8.
From BP Require Import Model.Object Model.Eq Model.TimeCore Model.Decode.
From BP Require Import gen.Tables.

Section Step.
  Variable sc : schema.
  Variable pn : nat -> list byte -> result obj.      (* cls().parse(payload) *)

  (* the WIRE_LEN_DELIM branch of _postprocess_single for a non-packed field *)
  Definition post_len (f : fdesc) (bs : list byte) : result pv :=
    if ptype_eqb (fty f) TString then
      if utf8_valid bs then Ok (PStr bs) else Err EUnicode
    else if ptype_eqb (fty f) TMessage then
      match hint_elem (fhint f), fwraps f with
      | PyDatetime, _ =>
          do m <- pn timestamp_cls bs;
          match snd (getattr sc m 0), snd (getattr sc m 1) with
          | Ok (PInt sec), Ok (PInt nan) => do us <- us_of_ts sec nan; Ok (PDatetime us)
          | _, _ => Err EType
          end
      | PyTimedelta, _ =>
          do m <- pn duration_cls bs;
          match snd (getattr sc m 0), snd (getattr sc m 1) with
          | Ok (PInt sec), Ok (PInt nan) => do us <- us_of_dur sec nan; Ok (PTimedelta us)
          | _, _ => Err EType
          end
      | _, Some w =>
          match wrapper_cls w with
          | None => Err EKey
          | Some wc => do m <- pn wc bs; snd (getattr sc m 0)
          end
      | PyMsg c', None => do m <- pn c' bs; Ok (mark_sow (PMsg m))
      | _, None => Err EType
      end
    else Ok (PBytes bs).

  (* the value a fitting record contributes *)
  Definition field_value (f : fdesc) (p : parsed) : result pv :=
    if (pwt p =? WIRE_LEN_DELIM) && tmem (fty f) PACKED_TYPES then
      do l <- unpack_packed (Datatypes.S (length (pbytes p))) (fty f) (pbytes p); Ok (PList l)
    else if pwt p =? WIRE_VARINT then Ok (postprocess_varint (fty f) (pint p))
    else if (pwt p =? WIRE_FIXED_32) || (pwt p =? WIRE_FIXED_64) then unpack_value (fty f) (pbytes p)
    else if ptype_eqb (fty f) TMap then
      do e <- pn (fentry f) (pbytes p); Ok (PMsg e)
    else post_len f (pbytes p).

  (* current = getattr(self, name) (default on AttributeError, stored); then merge / append / setattr *)
  Definition store (o : obj) (i : nat) (f : fdesc) (value : pv) : result obj :=
    let '(o, current) :=
      match getattr sc o i with
      | (o', Ok cur_v) => (o', cur_v)
      | (_, Err _) => let d := default_of sc f in (setattr sc o i d, d)
      end in
    let 'Obj c raw sow unk cur := o in
    if ptype_eqb (fty f) TMap then
      match value, current with
      | PMsg e, PDict d =>
          match getattr sc e 0, getattr sc e 1 with
          | (_, Ok k), (_, Ok v) => Ok (Obj c (set_nth i (PDict (dict_set d sc k v)) raw) sow unk cur)
          | _, _ => Err EAttribute
          end
      | _, _ => Err EType
      end
    else
      match current with
      | PList l =>
          let l' := match value with PList vs => l ++ vs | _ => l ++ [value] end in
          Ok (Obj c (set_nth i (PList l') raw) sow unk cur)
      | _ => Ok (setattr sc o i value)
      end.

  Definition keep_unknown (o : obj) (p : parsed) : obj :=
    let 'Obj c raw sow unk cur := o in Obj c raw sow (unk ++ praw p) cur.

  Definition apply_record (cd : cdesc) (o : obj) (p : parsed) : result obj :=
    match field_by_number cd (pnum p) with
    | None => Ok (keep_unknown o p)
    | Some (i, f) =>
        if negb (wire_type_fits f (pwt p)) then Ok (keep_unknown o p)
        else do value <- field_value f p; store o i f value
    end.

  Fixpoint loop' (lf : list byte -> Z -> list byte -> result (parsed * list byte)) (cd : cdesc)
           (n : nat) (o : obj) (s : list byte) {struct n} : result (obj * list byte) :=
    match n with
    | O => Err EFuel
    | S n' =>
        match s with
        | [] => Ok (o, s)
        | _ =>
            do (num_wire, r, s1) <- load_varint s;
            do (p, s2) <- lf s1 num_wire r;
            do o' <- apply_record cd o p;
            loop' lf cd n' o' s2
        end
    end.
End Step.

Fixpoint load' (fuel : nat) (sc : schema) (o : obj) (s : list byte) {struct fuel} : result (obj * list byte) :=
  match fuel with
  | O => Err EFuel
  | S fuel' =>
      let 'Obj c raw _ unk cur := o in
      loop' sc (fun c' bs => do (o', _) <- load' fuel' sc (new sc c') bs; Ok o')
            (load_field fuel') (get_class sc c) (Datatypes.S (length s)) (Obj c raw true unk cur) s
  end.


(* Message.load, size = None, one unfolding: the text of the inner loop of Model/Decode.load with
   [size := None] (checked by reflexivity, i.e. by conversion with the model's definition).  The loop is
   applied to variables so that no tactic unfolds it behind our back. *)
Lemma load_unfold fuel sc c raw sow unk cur s :
  forall n o0 s0 read0, n = Datatypes.S (length s) -> o0 = Obj c raw true unk cur -> s0 = s -> read0 = 0 ->
  load (Datatypes.S fuel) sc (Obj c raw sow unk cur) s None =
  (let fuel' := fuel in
   let size : option Z := None in
      let cd := get_class sc c in
      (* cls().parse(payload) for a nested message class / Entry class / bundled class *)
      let parse_new (c' : nat) (bs : list byte) : result obj :=
        do (o', _) <- load fuel' sc (new sc c') bs None; Ok o' in
      (* the WIRE_LEN_DELIM branch of _postprocess_single for a non-packed field *)
      let post_len (f : fdesc) (t : ptype) (ety : pyty) (wraps : option ptype) (bs : list byte) : result pv :=
        if ptype_eqb t TString then
          if utf8_valid bs then Ok (PStr bs) else Err EUnicode
        else if ptype_eqb t TMessage then
          match ety, wraps with
          | PyDatetime, _ =>
              do m <- parse_new timestamp_cls bs;
              match snd (getattr sc m 0), snd (getattr sc m 1) with
              | Ok (PInt sec), Ok (PInt nan) => do us <- us_of_ts sec nan; Ok (PDatetime us)
              | _, _ => Err EType
              end
          | PyTimedelta, _ =>
              do m <- parse_new duration_cls bs;
              match snd (getattr sc m 0), snd (getattr sc m 1) with
              | Ok (PInt sec), Ok (PInt nan) => do us <- us_of_dur sec nan; Ok (PTimedelta us)
              | _, _ => Err EType
              end
          | _, Some w =>
              match wrapper_cls w with
              | None => Err EKey
              | Some wc => do m <- parse_new wc bs; snd (getattr sc m 0)
              end
          | PyMsg c', None => do m <- parse_new c' bs; Ok (mark_sow (PMsg m))
          | _, None => Err EType
          end
        else Ok (PBytes bs) in
      (fix loop (n : nat) (o : obj) (s : list byte) (read : Z) {struct n} : result (obj * list byte) :=
         match n with
         | O => Err EFuel
         | S n' =>
             match s with
             | [] =>                                            (* load_fields: EOF before a tag *)
                 match size with
                 | Some sz => if read <? sz then Err EValue else Ok (o, s)
                 | None => Ok (o, s)
                 end
             | _ =>
                 do (num_wire, r, s1) <- load_varint s;
                 do (p, s2) <- load_field fuel' s1 num_wire r;
                 do read <- match size with
                            | Some sz => let read' := read + Zlength (praw p) in
                                         if sz <? read' then Err EValue else Ok read'
                            | None => Ok read
                            end;
                 let finished := match size with Some sz => read =? sz | None => false end in
                 let continue (o : obj) := if finished then Ok (o, s2) else loop n' o s2 read in
                 let 'Obj c raw sow unk cur := o in
                 match field_by_number cd (pnum p) with
                 | None => continue (Obj c raw sow (unk ++ praw p) cur)
                 | Some (i, f) =>
                     if negb (wire_type_fits f (pwt p)) then continue (Obj c raw sow (unk ++ praw p) cur)
                     else
                       do value <-
                         (if (pwt p =? WIRE_LEN_DELIM) && tmem (fty f) PACKED_TYPES then
                            do l <- unpack_packed (Datatypes.S (length (pbytes p))) (fty f) (pbytes p); Ok (PList l)
                          else if pwt p =? WIRE_VARINT then Ok (postprocess_varint (fty f) (pint p))
                          else if (pwt p =? WIRE_FIXED_32) || (pwt p =? WIRE_FIXED_64) then unpack_value (fty f) (pbytes p)
                          else if ptype_eqb (fty f) TMap then
                            do e <- parse_new (fentry f) (pbytes p); Ok (PMsg e)
                          else post_len f (fty f) (hint_elem (fhint f)) (fwraps f) (pbytes p));
                       (* try: current = getattr(self, name) except AttributeError: current = default; setattr(self, name, current) *)
                       let '(o, current) :=
                         match getattr sc o i with
                         | (o', Ok cur_v) => (o', cur_v)
                         | (_, Err _) => let d := default_of sc f in (setattr sc o i d, d)
                         end in
                       let 'Obj c raw sow unk cur := o in
                       if ptype_eqb (fty f) TMap then
                         match value, current with
                         | PMsg e, PDict d =>
                             match getattr sc e 0, getattr sc e 1 with
                             | (_, Ok k), (_, Ok v) => continue (Obj c (set_nth i (PDict (dict_set d sc k v)) raw) sow unk cur)
                             | _, _ => Err EAttribute
                             end
                         | _, _ => Err EType
                         end
                       else
                         match current with
                         | PList l =>
                             let l' := match value with PList vs => l ++ vs | _ => l ++ [value] end in
                             continue (Obj c (set_nth i (PList l') raw) sow unk cur)
                         | _ => continue (setattr sc o i value)
                         end
                 end
             end
         end)) n o0 s0 read0.
Proof. intros n o0 s0 read0 -> -> -> ->. reflexivity. Qed.

Lemma load'_unfold fuel sc c raw sow unk cur s :
  load' (Datatypes.S fuel) sc (Obj c raw sow unk cur) s =
  loop' sc (fun c' bs => do (o', _) <- load' fuel sc (new sc c') bs; Ok o')
        (load_field fuel) (get_class sc c) (Datatypes.S (length s)) (Obj c raw true unk cur) s.
Proof. reflexivity. Qed.

Lemma load_eq fuel : forall sc o s, load fuel sc o s None = load' fuel sc o s.
Proof.
  induction fuel as [|fuel IH]; intros sc o s; [reflexivity|].
  destruct o as [c raw sow unk cur].
  pose proof (load_unfold fuel sc c raw sow unk cur s) as E.
  match type of E with
  | forall n o0 s0 read0, _ -> _ -> _ -> _ -> _ = ?F n o0 s0 read0 =>
      assert (H : forall n o0 s0 read0,
                 F n o0 s0 read0 =
                 loop' sc (fun c' bs => do (o', _) <- load' fuel sc (new sc c') bs; Ok o')
                       (load_field fuel) (get_class sc c) n o0 s0)
  end.
  { clear E. induction n as [|n IHn]; intros o s0 read; [reflexivity|].
    cbn [loop']. cbv zeta. destruct s0 as [|b0 s0]; [reflexivity|].
    destruct (load_varint (b0 :: s0)) as [[[num_wire r] s1]|]; cbn [bind]; [|reflexivity].
    destruct (load_field fuel s1 num_wire r) as [[p s2]|]; cbn [bind]; [|reflexivity].
    unfold apply_record. destruct o as [c' raw' sow' unk' cur'].
    destruct (field_by_number (get_class sc c) (pnum p)) as [[i f]|]; cbn [bind keep_unknown]; [|apply IHn].
    destruct (negb (wire_type_fits f (pwt p))); cbn [bind keep_unknown]; [apply IHn|].
    unfold field_value, post_len.
    match goal with |- (do value <- ?X; _) = (do o' <- (do value' <- ?Y; _); _) => replace X with Y; [destruct Y as [value|]; cbn [bind]; [|reflexivity]|] end.
    2:{ destruct (hint_elem (fhint f)); destruct (fwraps f) as [w|]; try destruct (wrapper_cls w); rewrite ?IH; reflexivity. }
    unfold store.
    destruct (getattr sc (Obj c' raw' sow' unk' cur') i) as [o1 [cur_v|e]].
    - destruct o1 as [c1 raw1 sow1 unk1 cur1].
      destruct (ptype_eqb (fty f) TMap).
      + destruct value; try reflexivity. destruct cur_v; try reflexivity.
        destruct (getattr sc o 0) as [? [?|?]]; try reflexivity.
        destruct (getattr sc o 1) as [? [?|?]]; try reflexivity. cbn [bind]. apply IHn.
      + destruct cur_v; cbn [bind]; apply IHn.
    - destruct (setattr sc (Obj c' raw' sow' unk' cur') i (default_of sc f)) as [c1 raw1 sow1 unk1 cur1].
      destruct (ptype_eqb (fty f) TMap).
      + destruct value; try reflexivity. destruct (default_of sc f); try reflexivity.
        destruct (getattr sc o 0) as [? [?|?]]; try reflexivity.
        destruct (getattr sc o 1) as [? [?|?]]; try reflexivity. cbn [bind]. apply IHn.
      + destruct (default_of sc f); cbn [bind]; apply IHn. }
  etransitivity; [apply (E _ _ _ _ eq_refl eq_refl eq_refl eq_refl)|].
  etransitivity; [apply H | reflexivity].
Qed.
