(* C14, part 3: Python's == ([pv_eq], Message.__eq__ included) does not distinguish a PLACEHOLDER from the
   default a read stores in its place, in either operand position, at any depth. *)
From BP Require Import Base.Prelude Model.Types Model.Float Model.Object Model.Eq Model.Encode Model.History Model.C14Ops.
From BP Require Import Model.WellFormed Proofs.BytesP Proofs.C14Ind Proofs.C14Mat.
From Coq Require Import Lia.

(* ---- named pieces of pv_eq ---- *)
Definition fcmp (sc : schema) (f : fdesc) (u v : pv) : bool :=
  match u, v with
  | PPlaceholder, PPlaceholder => true
  | PPlaceholder, _ => is_default sc f v
  | _, PPlaceholder => is_default sc f u
  | _, _ => pv_eq sc u v || (pv_is_nan u && pv_is_nan v)
  end.

Definition eq_go (sc : schema) :=
  fix go (ra rb : list pv) (fs : list fdesc) {struct ra} : bool :=
    match ra, rb, fs with
    | u :: ra', v :: rb', f :: fs' => fcmp sc f u v && go ra' rb' fs'
    | _, _, _ => true
    end.

Definition list_eq_go (sc : schema) :=
  fix go (x y : list pv) : bool :=
    match x, y with
    | [], [] => true
    | u :: x', v :: y' => pv_eq sc u v && go x' y'
    | _, _ => false
    end.

Definition dict_find (sc : schema) (k u : pv) :=
  fix find (y : list (pv * pv)) : bool :=
    match y with
    | [] => false
    | (k', v) :: y' => if pv_eq sc k k' then pv_eq sc u v else find y'
    end.

Definition dict_eq_go (sc : schema) (y : list (pv * pv)) :=
  fix go (x : list (pv * pv)) : bool :=
    match x with
    | [] => true
    | (k, u) :: x' => dict_find sc k u y && go x'
    end.

Lemma pv_eq_msg sc c ra s u g c' rb s' u' g' :
  pv_eq sc (PMsg (Obj c ra s u g)) (PMsg (Obj c' rb s' u' g')) =
  Nat.eqb c c' && eq_go sc ra rb (cfields (get_class sc c)).
Proof. reflexivity. Qed.

Lemma pv_eq_list sc x y : pv_eq sc (PList x) (PList y) = list_eq_go sc x y.
Proof. reflexivity. Qed.

Lemma pv_eq_dict sc x y : pv_eq sc (PDict x) (PDict y) = Nat.eqb (length x) (length y) && dict_eq_go sc y x.
Proof. reflexivity. Qed.

Definition eqv (sc : schema) (x x' : pv) : Prop :=
  forall y, pv_eq sc x' y = pv_eq sc x y /\ pv_eq sc y x' = pv_eq sc y x.

Lemma eqv_refl sc x : eqv sc x x.
Proof. intros y. split; reflexivity. Qed.

Lemma list_eq_go_l sc l l' : Forall2 (eqv sc) l l' -> forall m, list_eq_go sc l' m = list_eq_go sc l m.
Proof.
  induction 1 as [|x x' l l' Hx Hl IH]; intros m; [reflexivity|]. destruct m as [|y m]; [reflexivity|].
  cbn [list_eq_go]. rewrite (proj1 (Hx y)), IH. reflexivity.
Qed.

Lemma list_eq_go_r sc l l' : Forall2 (eqv sc) l l' -> forall m, list_eq_go sc m l' = list_eq_go sc m l.
Proof.
  induction 1 as [|x x' l l' Hx Hl IH]; intros m; [reflexivity|]. destruct m as [|y m]; [reflexivity|].
  cbn [list_eq_go]. rewrite (proj2 (Hx y)), IH. reflexivity.
Qed.

Definition entry_eqv (sc : schema) (e e' : pv * pv) : Prop := fst e = fst e' /\ eqv sc (snd e) (snd e').

Lemma dict_find_l sc k u u' y : eqv sc u u' -> dict_find sc k u' y = dict_find sc k u y.
Proof.
  intros Hu. induction y as [|[k' v] y IH]; [reflexivity|]. cbn [dict_find].
  rewrite (proj1 (Hu v)), IH. reflexivity.
Qed.

Lemma dict_find_r sc k u d d' : Forall2 (entry_eqv sc) d d' -> dict_find sc k u d' = dict_find sc k u d.
Proof.
  induction 1 as [|[k1 v1] [k2 v2] d d' [Hk Hv] Hd IH]; [reflexivity|]. cbn [fst snd] in *. subst k2.
  cbn [dict_find]. rewrite (proj2 (Hv u)), IH. reflexivity.
Qed.

Lemma dict_eq_go_l sc d d' : Forall2 (entry_eqv sc) d d' -> forall y, dict_eq_go sc y d' = dict_eq_go sc y d.
Proof.
  induction 1 as [|[k1 v1] [k2 v2] d d' [Hk Hv] Hd IH]; intros y; [reflexivity|]. cbn [fst snd] in *. subst k2.
  cbn [dict_eq_go]. rewrite (dict_find_l sc k1 v1 v2 y Hv), IH. reflexivity.
Qed.

Lemma dict_eq_go_r sc d d' : Forall2 (entry_eqv sc) d d' -> forall x, dict_eq_go sc d' x = dict_eq_go sc d x.
Proof.
  intros Hd. induction x as [|[k u] x IH]; [reflexivity|]. cbn [dict_eq_go].
  rewrite (dict_find_r sc k u d d' Hd), IH. reflexivity.
Qed.

Lemma Forall2_length' {A B} (R : A -> B -> Prop) l l' : Forall2 R l l' -> length l' = length l.
Proof. induction 1; cbn [length]; congruence. Qed.

Lemma eqv_list sc l l' : Forall2 (eqv sc) l l' -> eqv sc (PList l) (PList l').
Proof.
  intros H y. destruct y; try (split; reflexivity).
  rewrite !pv_eq_list. split; [apply list_eq_go_l | apply list_eq_go_r]; exact H.
Qed.

Lemma eqv_dict sc d d' : Forall2 (entry_eqv sc) d d' -> eqv sc (PDict d) (PDict d').
Proof.
  intros H y. destruct y; try (split; reflexivity).
  rewrite !pv_eq_dict, (Forall2_length' _ _ _ H). split.
  - rewrite (dict_eq_go_l sc d d' H). reflexivity.
  - rewrite (dict_eq_go_r sc d d' H). reflexivity.
Qed.

(* ---- the loops over the fields ---- *)
Lemma eq_go_frel_l sc fs raw raw' :
  frel (fun f x x' => forall y, fcmp sc f x' y = fcmp sc f x y) fs raw raw' ->
  forall rb, eq_go sc raw' rb fs = eq_go sc raw rb fs.
Proof.
  induction 1 as [fs|f fs x x' r r' Hx Hr IH|x r r' Hr IH]; intros rb; try reflexivity.
  destruct rb as [|y rb]; [reflexivity|]. cbn [eq_go]. rewrite Hx, IH. reflexivity.
Qed.

Lemma eq_go_frel_r sc fs raw raw' :
  frel (fun f x x' => forall y, fcmp sc f y x' = fcmp sc f y x) fs raw raw' ->
  forall ra, eq_go sc ra raw' fs = eq_go sc ra raw fs.
Proof.
  induction 1 as [fs|f fs x x' r r' Hx Hr IH|x r r' Hr IH]; intros ra; try reflexivity.
  - destruct ra as [|y ra]; [reflexivity|]. cbn [eq_go]. rewrite Hx, IH. reflexivity.
  - destruct ra as [|y ra]; reflexivity.
Qed.

Lemma fcmp_placeholder_l sc f y : fcmp sc f PPlaceholder y = isdef' sc f y.
Proof. destruct y; reflexivity. Qed.
Lemma fcmp_placeholder_r sc f y : fcmp sc f y PPlaceholder = isdef' sc f y.
Proof. destruct y; reflexivity. Qed.

Section Wf.
  Variable sc : schema.
  Hypothesis Hopt : schema_opt_ok sc = true.

  Lemma fcmp_slot c f y :
    In f (cfields (get_class sc c)) -> fcmp sc f (slot f) y = isdef' sc f y /\ fcmp sc f y (slot f) = isdef' sc f y.
  Proof.
    intros Hin. pose proof (opt_ok_field sc c f Hopt Hin) as Ho. unfold opt_hint_ok in Ho. unfold slot.
    destruct (fopt f); [|split; [apply fcmp_placeholder_l | apply fcmp_placeholder_r]].
    destruct (fhint f) as [| | |] eqn:Hh; try discriminate.
    destruct y as [| | | | | | | | | | |[c2 r2 s2 u2 g2]]; cbn [fcmp isdef' pv_eq pv_is_nan orb andb]; unfold is_default;
      rewrite Hh, ?andb_false_r; split; reflexivity.
  Qed.

  Lemma eq_go_slots c rb :
    eq_go sc (map slot (cfields (get_class sc c))) rb (cfields (get_class sc c)) = isdef_go sc rb (cfields (get_class sc c))
    /\ eq_go sc rb (map slot (cfields (get_class sc c))) (cfields (get_class sc c)) = isdef_go sc rb (cfields (get_class sc c)).
  Proof.
    assert (H : forall fs, (forall f, In f fs -> In f (cfields (get_class sc c))) -> forall rb,
                 eq_go sc (map slot fs) rb fs = isdef_go sc rb fs /\ eq_go sc rb (map slot fs) fs = isdef_go sc rb fs).
    { induction fs as [|f fs IH]; intros Hin rb0.
      - destruct rb0; split; reflexivity.
      - destruct rb0 as [|y rb0]; [split; reflexivity|]. cbn [map eq_go isdef_go].
        destruct (fcmp_slot c f y (Hin f (or_introl eq_refl))) as [H1 H2].
        destruct (IH (fun g Hg => Hin g (or_intror Hg)) rb0) as [H3 H4].
        rewrite H1, H2, H3, H4. split; reflexivity. }
    apply H. auto.
  Qed.

  (* a default that is not a message compares like the PLACEHOLDER it replaces *)
  Lemma fcmp_default_nonmsg f :
    (forall c, fhint f <> HPlain (PyMsg c)) ->
    forall y, fcmp sc f (default_of sc f) y = fcmp sc f PPlaceholder y /\
              fcmp sc f y (default_of sc f) = fcmp sc f y PPlaceholder.
  Proof.
    intros Hnm y. rewrite fcmp_placeholder_l, fcmp_placeholder_r.
    unfold default_of. destruct (fhint f) as [t| | |] eqn:Hh.
    - destruct t; try (exfalso; eapply Hnm; reflexivity);
        destruct y as [| |z|b|bits|utf8|b|us|us|l|d|[c2 r2 s2 u2 g2]]; cbn [fcmp isdef' pv_eq pv_is_nan orb andb]; unfold is_default; rewrite Hh, ?andb_false_r, ?orb_false_r;
        try (split; reflexivity);
        change (f64_is_nan 0) with false; cbn [andb orb]; rewrite ?andb_false_r, ?orb_false_r, ?f64_eq_zero_l, ?f64_eq_zero_r;
        try (split; reflexivity).
      all: try (rewrite (Z.eqb_sym 0); split; reflexivity).
      all: try (destruct b; split; reflexivity).
      all: try (destruct utf8; split; reflexivity).
      all: try (destruct b as [|b0 b]; split; reflexivity).
    - destruct y as [| |z|b|bits|utf8|b|us|us|l|d|[c2 r2 s2 u2 g2]]; cbn [fcmp isdef' pv_eq pv_is_nan orb andb]; unfold is_default; rewrite Hh, ?andb_false_r, ?orb_false_r; split; reflexivity.
    - destruct y as [| |z|b|bits|utf8|b|us|us|l|d|[c2 r2 s2 u2 g2]]; cbn [fcmp isdef' pv_eq pv_is_nan orb andb]; unfold is_default; rewrite Hh, ?andb_false_r, ?orb_false_r; try (split; reflexivity).
      destruct l; split; reflexivity.
    - destruct y as [| |z|b|bits|utf8|b|us|us|l|d|[c2 r2 s2 u2 g2]]; cbn [fcmp isdef' pv_eq pv_is_nan orb andb]; unfold is_default; rewrite Hh, ?andb_false_r, ?orb_false_r; try (split; reflexivity).
      destruct d as [|[k0 v0] d]; split; reflexivity.
  Qed.

  Definition GB (f : fdesc) (v v' : pv) : Prop :=
    (v <> PPlaceholder -> eqv sc v v') /\
    (forall y, fcmp sc f v' y = fcmp sc f v y /\ fcmp sc f y v' = fcmp sc f y v).

  (* from the == invariance of two non-placeholder values to the field comparison *)
  Lemma fcmp_np_l f v y :
    v <> PPlaceholder ->
    fcmp sc f v y = match y with PPlaceholder => is_default sc f v | _ => pv_eq sc v y || (pv_is_nan v && pv_is_nan y) end.
  Proof. intros Hv. destruct v; try (contradiction Hv; reflexivity); destruct y; reflexivity. Qed.

  Lemma fcmp_np_r f v y :
    v <> PPlaceholder ->
    fcmp sc f y v = match y with PPlaceholder => is_default sc f v | _ => pv_eq sc y v || (pv_is_nan y && pv_is_nan v) end.
  Proof. intros Hv. destruct v; try (contradiction Hv; reflexivity); destruct y; reflexivity. Qed.

  Lemma fcmp_of_eqv f v v' :
    v <> PPlaceholder -> v' <> PPlaceholder -> pv_is_nan v' = pv_is_nan v ->
    (forall g, is_default sc g v' = is_default sc g v) -> eqv sc v v' ->
    forall y, fcmp sc f v' y = fcmp sc f v y /\ fcmp sc f y v' = fcmp sc f y v.
  Proof.
    intros Hv Hv' Hn Hd He y. destruct (He y) as [E1 E2].
    rewrite (fcmp_np_l f v' y Hv'), (fcmp_np_l f v y Hv), (fcmp_np_r f v' y Hv'), (fcmp_np_r f v y Hv).
    rewrite Hd, E1, E2, Hn. split; reflexivity.
  Qed.

  Lemma mat_elem_eqv f l' :
    Forall (fun x' => forall f x, mat sc f x x' = true -> GB f x x') l' ->
    forall l, mat_list sc f l l' = true -> Forall2 (eqv sc) l l'.
  Proof.
    induction 1 as [|x' l' Hx Hl IH]; intros l Hm; destruct l as [|x l]; cbn [mat_list] in Hm; try discriminate; constructor.
    - apply andb_true_iff in Hm as [H1 _]. unfold mat_elem in H1.
      destruct x; try (apply pv_same_sound in H1; subst; apply eqv_refl).
      destruct x'; try (match goal with Hp : pv_same (PMsg ?o) _ = true |- _ => destruct o; cbn [pv_same] in Hp; discriminate Hp end).
      apply (Hx f _ H1). discriminate.
    - apply andb_true_iff in Hm as [_ H2]. apply IH. exact H2.
  Qed.

  Lemma mat_dict_eqv f d' :
    Forall (fun kv => (forall f x, mat sc f x (fst kv) = true -> GB f x (fst kv)) /\
                      (forall f x, mat sc f x (snd kv) = true -> GB f x (snd kv))) d' ->
    forall d, mat_dict sc f d d' = true -> Forall2 (entry_eqv sc) d d'.
  Proof.
    induction 1 as [|[k' x'] d' [_ Hx] Hl IH]; intros d Hm; destruct d as [|[k x] d]; cbn [mat_dict] in Hm; try discriminate; constructor.
    - apply andb_true_iff in Hm as [H1 _]. apply andb_true_iff in H1 as [H0 H1]. apply pv_same_sound in H0.
      split; [exact H0|]. cbn [fst snd] in *. unfold mat_elem in H1.
      destruct x; try (apply pv_same_sound in H1; subst; apply eqv_refl).
      destruct x'; try (match goal with Hp : pv_same (PMsg ?o) _ = true |- _ => destruct o; cbn [pv_same] in Hp; discriminate Hp end).
      apply (Hx f _ H1). discriminate.
    - apply andb_true_iff in Hm as [_ H2]. apply IH. exact H2.
  Qed.

  Lemma is_default_nonmsg_hint f c y :
    fhint f = HPlain (PyMsg c) -> (forall o, y <> PMsg o) -> is_default sc f y = false.
  Proof. intros Hh Hy. destruct y; try (exfalso; eapply Hy; reflexivity); unfold is_default; rewrite Hh; reflexivity. Qed.

  Lemma mat_pv_eq : forall v' f v, mat sc f v v' = true -> GB f v v'.
  Proof.
    induction v' using pv_induction; intros f v Hm; pose proof Hm as Hi; apply mat_inv in Hi;
      destruct Hi as [[Hv Hv']|[(c0 & raw0 & raw0' & sow0 & unk0 & cur0 & Hs & Hv' & Hg)|[(l0 & l0' & Hs & Hv' & Hg)|[(d0 & d0' & Hs & Hv' & Hg)|[Hs Hsc]]]]];
      try discriminate Hv'; try (exfalso; exact Hsc).
    1: { subst. split; [intros Hn; contradiction Hn; reflexivity | intros y; split; reflexivity]. }
    (* scalars *)
    1-8: (split; [intros Hn; rewrite (src_id sc f v Hn) in Hs; subst; apply eqv_refl|];
          destruct v; cbn [src] in Hs; try (intros y; split; reflexivity); try (rewrite <- Hs; intros y; split; reflexivity);
          rewrite <- Hs; apply fcmp_default_nonmsg; intros c Hc;
          unfold default_of in Hs; rewrite Hc in Hs; discriminate Hs).
    - (* list *)
      inversion Hv'; subst l0'. pose proof (mat_elem_eqv f l H l0 Hg) as Hf. pose proof (eqv_list sc l0 l Hf) as He.
      split.
      + intros Hn. rewrite (src_id sc f v Hn) in Hs. subst v. exact He.
      + destruct v; cbn [src] in Hs; try discriminate Hs.
        * destruct (default_list_inv sc f _ Hs) as [Hl0 [t Hh]]. subst l0. apply mat_list_nil in Hg.
          assert (l = []) by (apply Hg; reflexivity). subst l. rewrite <- Hs.
          apply fcmp_default_nonmsg. intros c Hc. rewrite Hc in Hh. discriminate Hh.
        * inversion Hs; subst. apply fcmp_of_eqv; try discriminate; try reflexivity; [|exact He].
          intros g. apply (mat_is_default_any sc Hopt f (PList l0) (PList l) g Hm). discriminate.
    - (* dict *)
      inversion Hv'; subst d0'. pose proof (mat_dict_eqv f d H d0 Hg) as Hf. pose proof (eqv_dict sc d0 d Hf) as He.
      split.
      + intros Hn. rewrite (src_id sc f v Hn) in Hs. subst v. exact He.
      + destruct v; cbn [src] in Hs; try discriminate Hs.
        * destruct (default_dict_inv sc f _ Hs) as [Hl0 [kt [vt Hh]]]. subst d0. apply mat_dict_nil in Hg.
          assert (d = []) by (apply Hg; reflexivity). subst d. rewrite <- Hs.
          apply fcmp_default_nonmsg. intros c Hc. rewrite Hc in Hh. discriminate Hh.
        * inversion Hs; subst. apply fcmp_of_eqv; try discriminate; try reflexivity; [|exact He].
          intros g. apply (mat_is_default_any sc Hopt f (PDict d0) (PDict d) g Hm). discriminate.
    - (* message *)
      inversion Hv'; subst c0 raw0' sow0 unk0 cur0. clear Hv'.
      pose proof (mat_go_frel sc GB raw H raw0 _ Hg) as Hf.
      assert (El : forall rb, eq_go sc raw rb (cfields (get_class sc c)) = eq_go sc raw0 rb (cfields (get_class sc c))).
      { apply eq_go_frel_l. eapply frel_impl; [|exact Hf]. intros g x x' [_ [_ Hx]] y. apply Hx. }
      assert (Er : forall ra, eq_go sc ra raw (cfields (get_class sc c)) = eq_go sc ra raw0 (cfields (get_class sc c))).
      { apply eq_go_frel_r. eapply frel_impl; [|exact Hf]. intros g x x' [_ [_ Hx]] y. apply Hx. }
      assert (He : forall s1 u1 g1 s2 u2 g2, eqv sc (PMsg (Obj c raw0 s1 u1 g1)) (PMsg (Obj c raw s2 u2 g2))).
      { intros s1 u1 g1 s2 u2 g2 y. destruct y as [| | | | | | | | | | |[c2 rb s3 u3 g3]]; try (split; reflexivity).
        rewrite !pv_eq_msg. rewrite El. split; [reflexivity|].
        destruct (Nat.eqb c2 c) eqn:Ec; [|reflexivity]. apply Nat.eqb_eq in Ec. subst c2. rewrite Er. reflexivity. }
      split.
      + intros Hn. rewrite (src_id sc f v Hn) in Hs. subst v. apply He.
      + destruct v; cbn [src] in Hs; try discriminate Hs.
        * (* the default instance, with defaults written into it *)
          destruct (default_msg_inv sc f _ Hs) as [c1 [Hh Ho]].
          assert (Hc : c1 = c) by (unfold new in Ho; inversion Ho; reflexivity). subst c1.
          assert (Hr : raw0 = map slot (cfields (get_class sc c))) by (unfold new in Ho; inversion Ho; reflexivity).
          subst raw0. clear Ho.
          intros y. rewrite fcmp_placeholder_l, fcmp_placeholder_r.
          pose proof (mat_isdef' sc Hopt f _ _ Hm) as Hd. cbn [isdef'] in Hd.
          destruct y as [| | | | | | | | | | |[c2 rb s3 u3 g3]];
            try (cbn [fcmp isdef' pv_eq pv_is_nan orb andb];
                 rewrite ?andb_false_r, (is_default_nonmsg_hint f c _ Hh) by (intros o; discriminate); split; reflexivity).
          -- cbn [fcmp isdef']. rewrite Hd. split; reflexivity.
          -- cbn [fcmp isdef' pv_is_nan andb]. rewrite !orb_false_r, !pv_eq_msg, is_default_msg, Hh. rewrite El.
             rewrite (proj1 (eq_go_slots c rb)). split.
             ++ destruct (Nat.eqb c c2) eqn:Ec; [|reflexivity]. apply Nat.eqb_eq in Ec. subst c2. reflexivity.
             ++ rewrite (Nat.eqb_sym c2 c). destruct (Nat.eqb c c2) eqn:Ec; [|reflexivity]. apply Nat.eqb_eq in Ec. subst c2.
                rewrite Er. rewrite (proj2 (eq_go_slots c rb)). reflexivity.
        * inversion Hs; subst. apply fcmp_of_eqv; try discriminate; try reflexivity; [|apply He].
          intros g. apply (mat_is_default_any sc Hopt f _ _ g Hm). discriminate.
  Qed.

  (* Message.__eq__ with the materialised object on either side *)
  Theorem mat_obj_eq o o' :
    mat_obj sc o o' = true -> forall x, obj_eq sc o' x = obj_eq sc o x /\ obj_eq sc x o' = obj_eq sc x o.
  Proof.
    intros H x. unfold mat_obj in H. destruct (mat_pv_eq _ _ _ H) as [He _].
    unfold obj_eq. apply He. discriminate.
  Qed.
End Wf.
