(* C19, part X5: one match of the casing.py patterns, computed by the backtracking matcher of Spec/C19Regex.v,
   is  symbols* word  with the word given by the function [wtok] (longest runs, one letter given back before a
   lower-case letter); and the scanner of Model/Casing.v emits exactly that word and continues behind it. *)
From BP Require Import Base.Prelude Model.Casing Spec.C19Regex Proofs.BytesP Proofs.CasingP Proofs.CasingP2 Proofs.CasingX1 Proofs.CasingX4.

Definition head_lower (l : list byte) : bool := match l with c :: _ => is_lower_b c | [] => false end.

(* WORD = [A-Z]*[a-z]*[0-9]* , all greedy *)
Definition word_plain (l : list byte) : list byte * list byte :=
  let up := tw is_upper_b l in let l2 := dw is_upper_b l in
  let lo := tw is_lower_b l2 in let l3 := dw is_lower_b l2 in
  let di := tw is_digit_b l3 in let l4 := dw is_digit_b l3 in
  (up ++ lo ++ di, l4).

(* WORD_UPPER|WORD : (word, rest) *)
Definition wtok (l : list byte) : list byte * list byte :=
  match l with
  | u0 :: t0 =>
      if is_upper_b u0 then
        let ups := tw is_upper_b t0 in let post := dw is_upper_b t0 in
        if head_lower post then
          match rev ups with
          | [] => word_plain l                          (* one capital, then lower case: WORD *)
          | u :: rups' => (u0 :: rev rups', u :: post)   (* the run gives its last letter back *)
          end
        else (u0 :: ups ++ tw is_digit_b post, dw is_digit_b post)
      else word_plain l
  | [] => ([], [])
  end.

Lemma upper_not_lower c : is_upper_b c = true -> is_lower_b c = false.
Proof. unfold is_upper_b, is_lower_b. destruct (classify c); try discriminate; reflexivity. Qed.
Lemma upper_not_digit c : is_upper_b c = true -> is_digit_b c = false.
Proof. unfold is_upper_b, is_digit_b. destruct (classify c); try discriminate; reflexivity. Qed.
Lemma lower_not_upper c : is_lower_b c = true -> is_upper_b c = false.
Proof. unfold is_upper_b, is_lower_b. destruct (classify c); try discriminate; reflexivity. Qed.

(* ---------------------------------------------------------------- the matcher on WORD and WORD_UPPER|WORD *)
Lemma m_word pos rem caps k x :
  k (mk_mst (pos + length (fst (word_plain rem))) (snd (word_plain rem)) caps) = Some x ->
  m byte_code re_word (mk_mst pos rem caps) k = Some x.
Proof.
  unfold word_plain. cbn [fst snd]. intros H. unfold re_word.
  rewrite m_seq, (m_star_p cs_AZ is_upper_b in_cs_AZ). apply star_p_greedy. cbv beta.
  rewrite m_seq, (m_star_p cs_az is_lower_b in_cs_az). apply star_p_greedy. cbv beta.
  rewrite (m_star_p cs_09 is_digit_b in_cs_09). apply star_p_greedy.
  rewrite <- H. f_equal. f_equal. rewrite !app_length. lia.
Qed.

Lemma m_alt_word pos rem caps k x :
  k (mk_mst (pos + length (fst (wtok rem))) (snd (wtok rem)) caps) = Some x ->
  m byte_code (RAlt re_word_upper re_word) (mk_mst pos rem caps) k = Some x.
Proof.
  intros H. rewrite m_alt. unfold re_word_upper at 1. rewrite m_seq, (m_plus_p cs_AZ is_upper_b in_cs_AZ).
  destruct rem as [|u0 t0]; [apply m_word; exact H|].
  cbn [wtok] in H. destruct (is_upper_b u0) eqn:U0; [|apply m_word; exact H].
  pose proof (tw_dw is_upper_b t0) as Et. pose proof (tw_all is_upper_b t0) as Hups.
  pose proof (dw_nohead is_upper_b t0) as Hpost.
  remember (tw is_upper_b t0) as ups eqn:Eups in *. remember (dw is_upper_b t0) as post eqn:Epost in *.
  destruct (head_lower post) eqn:HL.
  - destruct post as [|c p']; [discriminate HL|]. cbn [head_lower] in HL.
    destruct (rev ups) as [|u rups'] eqn:ER.
    + (* one capital followed by a lower-case letter: WORD_UPPER fails *)
      assert (ups = []) as -> by (apply (f_equal (@rev byte)) in ER; rewrite rev_involutive in ER; exact ER).
      cbn [app] in Et. subst t0. rewrite star_p_nohead by exact Hpost. cbv beta.
      rewrite m_seq, (m_neglook_p cs_az is_lower_b in_cs_az). cbn [m_rem]. rewrite HL.
      apply m_word. exact H.
    + assert (ups = rev rups' ++ [u]) as Eu
        by (apply (f_equal (@rev byte)) in ER; rewrite rev_involutive in ER; exact ER).
      rewrite Eu, forallb_app in Hups. apply andb_true_iff in Hups. destruct Hups as [Hpre Hu].
      cbn [forallb] in Hu. rewrite andb_true_r in Hu.
      rewrite <- Et, Eu, <- app_assoc. cbn [app].
      rewrite (star_p_back is_upper_b (rev rups') u (c :: p') (S pos) caps _ x Hpre Hu Hpost); [reflexivity| |].
      * cbv beta. rewrite m_seq, (m_neglook_p cs_az is_lower_b in_cs_az). cbn [m_rem]. rewrite HL. reflexivity.
      * cbv beta. rewrite m_seq, (m_neglook_p cs_az is_lower_b in_cs_az). cbn [m_rem].
        rewrite (upper_not_lower u Hu). rewrite (m_star_p cs_09 is_digit_b in_cs_09).
        rewrite star_p_nohead by (cbn [nohead]; apply upper_not_digit, Hu).
        rewrite <- H. f_equal. f_equal. cbn [fst length]. lia.
  - (* the run is not followed by a lower-case letter: the run and the digits *)
    rewrite Eups, Epost in H. rewrite (star_p_greedy is_upper_b t0 (S pos) caps _ x); [reflexivity|]. cbv beta. rewrite <- Epost.
    rewrite m_seq, (m_neglook_p cs_az is_lower_b in_cs_az). cbn [m_rem].
    assert (match post with b :: _ => if is_lower_b b then None else
              m byte_code (RStar (RSet cs_09)) (mk_mst (S pos + length (tw is_upper_b t0)) post caps) k | [] =>
              m byte_code (RStar (RSet cs_09)) (mk_mst (S pos + length (tw is_upper_b t0)) post caps) k end
            = m byte_code (RStar (RSet cs_09)) (mk_mst (S pos + length (tw is_upper_b t0)) post caps) k) as ->.
    { destruct post as [|c p']; [reflexivity|]. cbn [head_lower] in HL. rewrite HL. reflexivity. }
    rewrite (m_star_p cs_09 is_digit_b in_cs_09). apply star_p_greedy.
    rewrite <- H. f_equal. cbn [fst snd]. rewrite <- Epost. f_equal. cbn [length]. rewrite !app_length. lia.
Qed.

(* ---------------------------------------------------------------- one whole match:  SYMBOLS (WORD_UPPER|WORD) *)
Definition tok_syms (l : list byte) : list byte := tw is_sym_b l.
Definition tok_word (l : list byte) : list byte := fst (wtok (dw is_sym_b l)).
Definition tok_rest (l : list byte) : list byte := snd (wtok (dw is_sym_b l)).

Lemma word_plain_app l : fst (word_plain l) ++ snd (word_plain l) = l.
Proof.
  unfold word_plain. cbn [fst snd]. rewrite <- !app_assoc, !tw_dw. reflexivity.
Qed.

Lemma wtok_app l : fst (wtok l) ++ snd (wtok l) = l.
Proof.
  destruct l as [|u0 t0]; [reflexivity|]. cbn [wtok]. destruct (is_upper_b u0); [|apply word_plain_app].
  destruct (head_lower _).
  - destruct (rev (tw is_upper_b t0)) as [|u r] eqn:ER; [apply word_plain_app|].
    apply (f_equal (@rev byte)) in ER. rewrite rev_involutive in ER. cbn [rev] in ER.
    cbn [fst snd app]. f_equal. etransitivity; [|apply (tw_dw is_upper_b t0)]. rewrite ER, <- app_assoc. reflexivity.
  - cbn [fst snd app]. f_equal. rewrite <- app_assoc, tw_dw, tw_dw. reflexivity.
Qed.

Lemma tok_app l : tok_syms l ++ tok_word l ++ tok_rest l = l.
Proof. unfold tok_syms, tok_word, tok_rest. rewrite wtok_app, tw_dw. reflexivity. Qed.

Lemma firstn_cap_eq {A} (l a b : list A) : l = a ++ b -> firstn (length l - length b) l = a.
Proof. intros ->. apply firstn_cap. Qed.

Lemma m_body g2 g3 pos rem caps :
  m byte_code (re_body g2 g3) (mk_mst pos rem caps) (fun s' => Some s')
  = Some (mk_mst (pos + length (tok_syms rem) + length (tok_word rem)) (tok_rest rem)
                 ((g3, tok_word rem) :: (g2, tok_syms rem) :: caps)).
Proof.
  unfold re_body. rewrite m_seq, m_group. unfold re_symbols. rewrite (m_star_p cs_sym is_sym_b in_cs_sym).
  apply star_p_greedy. cbv beta. cbn [m_pos m_rem m_caps]. rewrite m_group.
  apply m_alt_word. cbn [m_pos m_rem m_caps]. fold (tok_syms rem). fold (tok_word rem). fold (tok_rest rem).
  f_equal. f_equal. f_equal; [|f_equal].
  - f_equal. unfold tok_word, tok_rest. apply firstn_cap_eq. symmetry. apply wtok_app.
  - f_equal. unfold tok_syms. apply firstn_cap_eq. symmetry. apply tw_dw.
Qed.

(* ---------------------------------------------------------------- the scanner emits the same word *)
Lemma class_upper c : is_upper_b c = true -> classify c = Upper.
Proof. unfold is_upper_b. destruct (classify c); try discriminate; reflexivity. Qed.
Lemma class_lower c : is_lower_b c = true -> classify c = Lower.
Proof. unfold is_lower_b. destruct (classify c); try discriminate; reflexivity. Qed.
Lemma class_digit c : is_digit_b c = true -> classify c = Digit.
Proof. unfold is_digit_b. destruct (classify c); try discriminate; reflexivity. Qed.
Lemma class_sym c : is_sym_b c = true -> classify c = Sym.
Proof. unfold is_sym_b. destruct (classify c); try discriminate; reflexivity. Qed.

Lemma scan_S0_syms sy l : forallb is_sym_b sy = true -> scan S0 (sy ++ l) = scan S0 l.
Proof.
  induction sy as [|c r IH]; intros H; [reflexivity|]. cbn [forallb] in H. apply andb_true_iff in H.
  cbn [app scan step]. rewrite (class_sym c (proj1 H)). cbn [app]. apply IH, H.
Qed.

(* a word in the buffer ends before a character that cannot continue it *)
Lemma scan_SD_end w l : nohead is_digit_b l -> scan (SD w) l = w :: scan S0 l.
Proof.
  destruct l as [|c r]; [reflexivity|]. cbn [nohead scan step]. unfold is_digit_b.
  destruct (classify c); intros H; try discriminate H; reflexivity.
Qed.
Lemma scan_SL_end w l : nohead is_digit_b l -> nohead is_lower_b l -> scan (SL w) l = w :: scan S0 l.
Proof.
  destruct l as [|c r]; [reflexivity|]. cbn [nohead scan step]. unfold is_digit_b, is_lower_b.
  destruct (classify c); intros H H'; try discriminate H; try discriminate H'; reflexivity.
Qed.

Lemma scan_SD_word w di l : digs di -> nohead is_digit_b l -> scan (SD w) (di ++ l) = (w ++ di) :: scan S0 l.
Proof. intros Hd Hl. rewrite scan_app, run_SD_digs by exact Hd. cbn [fst snd app]. apply scan_SD_end, Hl. Qed.

Lemma scan_SL_word w lo di l : lows lo -> digs di -> nohead is_digit_b l -> (di = [] -> nohead is_lower_b l) ->
  scan (SL w) (lo ++ di ++ l) = (w ++ lo ++ di) :: scan S0 l.
Proof.
  intros Hlo Hd Hl Hl'. rewrite scan_app, run_SL_lows by exact Hlo. cbn [fst snd app].
  destruct di as [|c d'].
  - cbn [app]. rewrite app_nil_r. apply scan_SL_end; auto.
  - unfold digs in Hd. cbn [forallb] in Hd. apply andb_true_iff in Hd. destruct Hd as [Hc Hd'].
    cbn [app scan step]. rewrite (class_digit c Hc). cbn [app]. rewrite scan_SD_word by assumption.
    rewrite <- !app_assoc. reflexivity.
Qed.

Lemma run_SU_uppers_snoc ups : forall pre u x, forallb is_upper_b (ups ++ [x]) = true ->
  run (SU pre u) (ups ++ [x]) = ([], SU (pre ++ u :: ups) x).
Proof.
  induction ups as [|c t IH]; intros pre u x H.
  - cbn [forallb app] in H. rewrite andb_true_r in H. cbn [app run step]. rewrite (class_upper x H). reflexivity.
  - cbn [app forallb] in H. apply andb_true_iff in H. destruct H as [Hc Ht].
    cbn [app]. rewrite run_cons, step_SU_upper by (apply class_upper, Hc). cbn [fst snd].
    rewrite (IH (pre ++ [u]) c x Ht). cbn [fst snd app]. rewrite <- app_assoc. reflexivity.
Qed.

(* the plain word, from the start state, for a text that begins with a lower-case letter or a digit, or with one
   capital followed by a lower-case letter *)
Lemma scan_word_plain l :
  match l with
  | c :: t => is_lower_b c = true \/ is_digit_b c = true \/ (is_upper_b c = true /\ head_lower t = true)
  | [] => False
  end ->
  scan S0 l = fst (word_plain l) :: scan S0 (snd (word_plain l)) /\ fst (word_plain l) <> [].
Proof.
  destruct l as [|c t]; [intros []|]. intros H. unfold word_plain. cbn [fst snd].
  destruct H as [L|[D|[U HL]]].
  - (* lower *)
    cbn [tw dw]. rewrite (lower_not_upper c L). cbn [app tw dw]. rewrite L.
    split; [|discriminate]. cbn [scan step]. rewrite (class_lower c L). cbn [app].
    rewrite <- (tw_dw is_lower_b t) at 1. rewrite <- (tw_dw is_digit_b (dw is_lower_b t)) at 1.
    apply (scan_SL_word [c]); [apply tw_all|apply tw_all|apply dw_nohead|].
    intros E. pose proof (dw_nohead is_lower_b t) as N. destruct (dw is_lower_b t) as [|x r]; [exact I|].
    cbn [tw dw] in *. destruct (is_digit_b x); [discriminate E|exact N].
  - (* digit *)
    assert (is_upper_b c = false) as NU by (unfold is_upper_b, is_digit_b in *; destruct (classify c); try discriminate; reflexivity).
    cbn [tw dw]. rewrite NU. cbn [app tw dw]. rewrite (digit_not_lower c D). cbn [app tw dw]. rewrite D.
    split; [|discriminate]. cbn [scan step]. rewrite (class_digit c D). cbn [app].
    rewrite <- (tw_dw is_digit_b t) at 1. apply (scan_SD_word [c]); [apply tw_all|apply dw_nohead].
  - (* one capital, then lower case *)
    destruct t as [|c2 t2]; [discriminate HL|]. cbn [head_lower] in HL.
    cbn [tw dw]. rewrite U, (lower_not_upper c2 HL). cbn [app tw dw]. rewrite HL.
    split; [|discriminate]. cbn [scan step]. rewrite (class_upper c U). cbn [app scan step].
    rewrite (class_lower c2 HL). cbn [app].
    rewrite <- (tw_dw is_lower_b t2) at 1. rewrite <- (tw_dw is_digit_b (dw is_lower_b t2)) at 1.
    apply (scan_SL_word [c; c2]); [apply tw_all|apply tw_all|apply dw_nohead|].
    intros E. pose proof (dw_nohead is_lower_b t2) as N. destruct (dw is_lower_b t2) as [|x r]; [exact I|].
    cbn [tw dw] in *. destruct (is_digit_b x); [discriminate E|exact N].
Qed.
