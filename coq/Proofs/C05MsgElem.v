(* C05, message level, EMIT direction, part 1: the value-side conditions split per object; one element
   (scalar, enum, Timestamp, Duration, nested message given the induction hypothesis); lists and map entries. *)
From BP Require Import Base.Prelude Model.Types Model.Float Model.Object Model.Eq Model.WellFormed Model.TimeCore Spec.Time.
From BP Require Model.Json Model.Enum Model.Casing Spec.JsonMap Model.Time.
From BP Require Import gen.Tables.
From BP Require Import Proofs.BytesP Proofs.C04Def Proofs.C04ScalarP Proofs.C04ElemP Proofs.C04FieldP Proofs.C04ObjP.
From BP Require Import Proofs.C05Casing Proofs.C05Leaf Proofs.C05Model Proofs.C05MsgDef Proofs.C05MsgSpec Proofs.C05MsgLeaf.
From Coq Require Import Lia ZifyBool.

(* ---- the local conditions as one ---- *)
Definition local_ok5 (sc : schema) (o : obj) : bool :=
  local_oneof_sel sc o && local_nan_canon o && local_no_neg_zero sc o.
Definition pv_good5 (sc : schema) (v : pv) : bool := pv_all (local_ok5 sc) v.

Lemma emit_good_split sc o : emit_good sc o = in_range sc o && pv_good5 sc (PMsg o).
Proof.
  unfold emit_good, oneof_sel, nan_canon, no_neg_zero, obj_all, pv_good5, local_ok5.
  rewrite !pv_all_and.
  repeat match goal with |- context [pv_all ?P (PMsg o)] => destruct (pv_all P (PMsg o)) end;
    destruct (in_range sc o); reflexivity.
Qed.

(* ---- the loops of abs_obj and local_no_neg_zero, named ---- *)
Section AbsLoop.
Variable sc : schema.
Variable cur : list (option nat).
Fixpoint abs_fields (i : nat) (raw : list pv) (fs : list fdesc) {struct raw} : list S.afield :=
  match raw, fs with
  | x :: raw', f :: fs' => abs_field (abs_elem sc) f (group_selects cur f i) x :: abs_fields (Datatypes.S i) raw' fs'
  | _, _ => []
  end.
End AbsLoop.
Lemma abs_obj_unfold sc c raw s u g :
  abs_obj sc (Obj c raw s u g) = S.AMsg (abs_fields sc g O raw (cfields (get_class sc c))).
Proof. reflexivity. Qed.
Lemma abs_elem_msg sc p o : abs_elem sc p (PMsg o) = abs_obj sc o.
Proof. destruct o as [c raw s u g]. reflexivity. Qed.

Section SelLoop.
Variable cur : list (option nat).
Fixpoint sel_loop (i : nat) (raw : list pv) (fs : list fdesc) {struct raw} : bool :=
  match raw, fs with
  | x :: raw', f :: fs' => sel_field (group_selects cur f i) x && sel_loop (Datatypes.S i) raw' fs'
  | _, _ => true
  end.
End SelLoop.
Lemma local_oneof_sel_unfold sc c raw s u g :
  local_oneof_sel sc (Obj c raw s u g) = sel_loop g O raw (cfields (get_class sc c)).
Proof. reflexivity. Qed.
(* C04's two-way discipline implies it *)
Lemma oneof_loop_sel cur : forall raw fs i, oneof_loop cur i raw fs = true -> sel_loop cur i raw fs = true.
Proof.
  induction raw as [|x raw IH]; intros fs i H; [reflexivity|]. destruct fs as [|f fs]; [reflexivity|].
  cbn [oneof_loop] in H. apply andb_prop in H as [H1 H2]. cbn [sel_loop]. rewrite (IH fs _ H2), andb_true_r.
  unfold sel_field. destruct (group_selects cur f i) as [[|]|]; try reflexivity. destruct x; try reflexivity. discriminate H1.
Qed.
Lemma local_oneof_ok_sel sc o : local_oneof_ok sc o = true -> local_oneof_sel sc o = true.
Proof. destruct o as [c raw s u g]. rewrite local_oneof_unfold, local_oneof_sel_unfold. apply oneof_loop_sel. Qed.

Fixpoint negzero_loop (raw : list pv) (fs : list fdesc) {struct raw} : bool :=
  match raw, fs with
  | x :: raw', f :: fs' => neg_zero_field f x && negzero_loop raw' fs'
  | _, _ => true
  end.
Lemma local_no_neg_zero_unfold sc c raw s u g :
  local_no_neg_zero sc (Obj c raw s u g) = negzero_loop raw (cfields (get_class sc c)).
Proof. reflexivity. Qed.

Definition field_nan_canon (x : pv) : bool :=
  match x with
  | PList l => forallb nan_canonical l
  | PDict d => forallb (fun kx => nan_canonical (snd kx)) d
  | _ => nan_canonical x
  end.

(* nothing the reference parser accepts is null *)
Lemma acc_val_not_null js k j a : S.acc_val js k j = Some a -> j <> S.JNull.
Proof. intros H E. subst j. destruct k as [k|e|c| | |k]; try destruct k; discriminate H. Qed.

(* ---- lists and map entries ---- *)
Lemma acc_list_Forall2 {A} js k (g : A -> S.aval) l ys :
  Forall2 (fun v y => S.acc_val js k y = Some (g v)) l ys -> acc_list js k ys = Some (map g l).
Proof.
  induction 1 as [|v y l ys H _ IH]; [reflexivity|]. cbn [acc_list map]. rewrite H.
  change ((fix each (l : list S.json) : option (list S.aval) :=
             match l with
             | [] => Some []
             | x :: t => match S.acc_val js k x, each t with Some a, Some t' => Some (a :: t') | _, _ => None end
             end) ys) with (acc_list js k ys).
  rewrite IH. reflexivity.
Qed.

Lemma acc_entries_Forall2 {A} js kk k (gk g : A -> S.aval) l (es : list (list byte * S.json)) :
  Forall2 (fun v e => S.acc_key kk (fst e) = Some (gk v) /\ S.acc_val js k (snd e) = Some (g v)) l es ->
  acc_entries js kk k es = Some (map (fun v => (gk v, g v)) l).
Proof.
  induction 1 as [|v [ks y] l es [H1 H2] _ IH]; [reflexivity|]. cbn [fst snd] in H1, H2.
  cbn [acc_entries map]. rewrite H1, H2.
  change ((fix each (es : list (list byte * S.json)) : option (list (S.aval * S.aval)) :=
             match es with
             | [] => Some []
             | (ks, x) :: t => match S.acc_key kk ks, S.acc_val js k x, each t with
                               | Some ka, Some a, Some t' => Some ((ka, a) :: t')
                               | _, _, _ => None
                               end
             end) es) with (acc_entries js kk k es).
  rewrite IH. reflexivity.
Qed.

(* ====================================================================================== *)
(* one element                                                                             *)
(* ====================================================================================== *)
Section Elem.
  Variable sc : schema.
  Variable js : S.jschema.
  Variable off : nat.
  Hypothesis JM : js_matches off sc js = true.
  Let nj := length (S.jclasses js).
  Let nc := length (classes sc).
  Let ne := length (enums sc).

  (* what the message-level theorem says of one object *)
  Definition emit_ok (o : obj) : Prop :=
    (off <= ocls o)%nat -> (ocls o - off < length (S.jclasses js))%nat ->
    exists j, ct (J.to_dict J.CAMEL false sc o) = Some j /\
              S.acc_val js (S.JMsg (ocls o - off)) j = Some (abs_obj sc o).

  Variable n : nat.
  Hypothesis IHo : forall o', (pv_size (PMsg o') < n)%nat -> in_range sc o' = true -> pv_good5 sc (PMsg o') = true ->
    emit_ok o'.

  Lemma elem_emit t p v :
    (pv_size v < n)%nat -> pyty_fits nc ne t p = true ->
    (forall c, p = PyMsg c -> (off <= c)%nat /\ (c - off < nj)%nat) ->
    elem_in_range sc t p v = true -> pv_good5 sc v = true -> nan_canonical v = true ->
    exists j, ct (J.elem_to_json (J.to_dict J.CAMEL false sc) sc t p v) = Some j /\
              S.acc_val js (kind_of_elem off t p) j = Some (abs_elem sc p v).
  Proof.
    intros Hs Hp Hm Hr Hg Hn.
    destruct (scalar_py p) eqn:Sp.
    - pose proof (fits_scalar _ _ _ _ Sp Hp) as Ht. rewrite (elem_scalar _ _ _ _ Sp) in Hr.
      assert (E : J.elem_to_json (J.to_dict J.CAMEL false sc) sc t p v = J.scalar_to_json sc t p v)
        by (destruct t, v; try discriminate Hr; reflexivity).
      rewrite E. apply (scalar_emit sc js off JM); assumption.
    - pose proof (fits_message _ _ _ _ Sp Hp) as ->.
      destruct p; try discriminate Sp.
      + destruct v as [| | | | | | | | | | |o]; try discriminate Hr.
        destruct (in_range_obj sc c o Hr) as [-> Ho].
        destruct (Hm _ eq_refl) as [M1 M2].
        cbn [J.elem_to_json kind_of_elem]. rewrite abs_elem_msg.
        exact (IHo o Hs Ho Hg M1 M2).
      + destruct v; try discriminate Hr. cbn [elem_in_range] in Hr.
        cbn [J.elem_to_json kind_of_elem abs_elem]. exists (S.JStr (J.ts_text us)). split; [reflexivity|].
        apply time_emit, Hr.
      + destruct v; try discriminate Hr. cbn [elem_in_range] in Hr.
        cbn [J.elem_to_json kind_of_elem abs_elem]. exists (S.JStr (Model.Time.delta_to_json us)). split; [reflexivity|].
        apply dur_emit, Hr.
  Qed.

  (* a list of elements *)
  Lemma list_emit t p l :
    (forall y, In y l -> (pv_size y < n)%nat) -> pyty_fits nc ne t p = true ->
    (forall c, p = PyMsg c -> (off <= c)%nat /\ (c - off < nj)%nat) ->
    forallb (elem_in_range sc t p) l = true -> forallb (pv_good5 sc) l = true -> forallb nan_canonical l = true ->
    exists ys, S.all_some (map ct (map (J.elem_to_json (J.to_dict J.CAMEL false sc) sc t p) l)) = Some ys /\
               acc_list js (kind_of_elem off t p) ys = Some (map (abs_elem sc p) l).
  Proof.
    intros Hs Hp Hm Hr Hg Hn. rewrite forallb_forall in Hr, Hg, Hn. rewrite map_map.
    destruct (all_some_ex (fun y => ct (J.elem_to_json (J.to_dict J.CAMEL false sc) sc t p y))
                (fun y j => S.acc_val js (kind_of_elem off t p) j = Some (abs_elem sc p y)) l) as (ys & A & F).
    { intros y Hy. apply elem_emit; auto. }
    exists ys. split; [exact A|]. apply acc_list_Forall2, F.
  Qed.

  (* the entries of a map *)
  Lemma dict_emit kt vt pk p d :
    (forall k y, In (k, y) d -> (pv_size y < n)%nat) ->
    map_key_ok kt = true -> pyty_fits nc ne kt pk = true -> pyty_fits nc ne vt p = true ->
    (forall c, p = PyMsg c -> (off <= c)%nat /\ (c - off < nj)%nat) ->
    forallb (fun ky => scalar_in_range kt (fst ky) && elem_in_range sc vt p (snd ky)) d = true ->
    forallb (fun kx => pv_good5 sc (snd kx)) d = true -> forallb (fun kx => nan_canonical (snd kx)) d = true ->
    exists es, S.all_some (map ct_entry (map (fun kx : pv * pv => let '(k, x) := kx in
                              (J.raw_json k, J.elem_to_json (J.to_dict J.CAMEL false sc) sc vt p x)) d)) = Some es /\
               acc_entries js (sk kt) (kind_of_elem off vt p) es =
               Some (map (fun kx => (abs_elem sc pk (fst kx), abs_elem sc p (snd kx))) d).
  Proof.
    intros Hs Hk Hpk Hp Hm Hr Hg Hn. rewrite forallb_forall in Hr, Hg, Hn. rewrite map_map.
    destruct (all_some_ex
                (fun kx : pv * pv => ct_entry (let '(k, x) := kx in
                                     (J.raw_json k, J.elem_to_json (J.to_dict J.CAMEL false sc) sc vt p x)))
                (fun kx e => S.acc_key (sk kt) (fst e) = Some (abs_elem sc pk (fst kx)) /\
                             S.acc_val js (kind_of_elem off vt p) (snd e) = Some (abs_elem sc p (snd kx))) d)
      as (es & A & F).
    { intros [k y] Hy. specialize (Hr _ Hy). cbn [fst snd] in Hr. apply andb_prop in Hr as [Rk Ry].
      destruct (elem_emit vt p y (Hs _ _ Hy) Hp Hm Ry (Hg _ Hy) (Hn _ Hy)) as (j & C & Acc).
      exists (J.key_text (J.raw_json k), j). unfold ct_entry. cbn [fst snd]. rewrite C. split; [reflexivity|].
      split; [apply (key_emit sc js off JM); assumption|exact Acc]. }
    exists es. split; [exact A|]. exact (acc_entries_Forall2 js (sk kt) _ _ _ d es F).
  Qed.
End Elem.
