(* C05, message level, EMIT direction, part 3: the field loop against the member loop of the reference parser,
   the object, and the theorem:
     what betterproto's to_dict(CAMEL) emits for a message - through json.dumps / json.loads - is accepted by the
     specified reference parser json_accepts as the abstract message the object denotes. *)
From BP Require Import Base.Prelude Model.Types Model.Float Model.Object Model.Eq Model.WellFormed Model.TimeCore Spec.Time.
From BP Require Model.Json Model.Enum Model.Casing Spec.JsonMap Model.Time.
From BP Require Import gen.Tables.
From BP Require Import Proofs.BytesP Proofs.C04Def Proofs.C04ScalarP Proofs.C04ElemP Proofs.C04FieldP Proofs.C04ObjP.
From BP Require Proofs.C04CurP.
From BP Require Import Proofs.C05Casing Proofs.C05Leaf Proofs.C05Model Proofs.C05MsgDef Proofs.C05MsgSpec Proofs.C05MsgLeaf
                       Proofs.C05MsgElem Proofs.C05MsgField.
From Coq Require Import Lia.

Lemma keys_of_match off nj fs jfs :
  Forall2 (fmatch off nj) fs jfs -> map (J.key_of_field J.CAMEL) fs = map S.jf_json jfs.
Proof. induction 1 as [|f jf fs jfs [K _ _ _ _] _ IH]; [reflexivity|]. cbn [map]. rewrite K, IH. reflexivity. Qed.

Lemma acc_fieldval_not_null js jf j a : acc_fieldval js jf j = Some a -> j <> S.JNull.
Proof.
  intros H E. subst j. unfold acc_fieldval in H.
  destruct (S.jf_card jf); try discriminate H;
    destruct (S.acc_val js (S.jf_kind jf) S.JNull) eqn:A; try discriminate H;
    exact (acc_val_not_null _ _ _ _ A eq_refl).
Qed.

Section Obj.
  Variable sc : schema.
  Variable js : S.jschema.
  Variable off : nat.
  Hypothesis JM : js_matches off sc js = true.
  Hypothesis WF : wf_schema sc = true.
  Let nj := length (S.jclasses js).

  Section Step.
    Variable n : nat.
    Hypothesis IHo : forall o', (pv_size (PMsg o') < n)%nat -> in_range sc o' = true -> pv_good5 sc (PMsg o') = true ->
      emit_ok sc js off o'.

    (* one iteration of to_dict's loop *)
    Definition here (cur : list (option nat)) (i : nat) (f : fdesc) (x : pv) : option J.json :=
      match group_selects cur f i with
      | Some false => None
      | sel =>
          match x with
          | PPlaceholder => J.field_to_json (fun o' => J.JObj []) sc false f sel (default_of sc f)
          | _ => J.field_to_json (J.to_dict J.CAMEL false sc) sc false f sel x
          end
      end.

    Lemma head_emit cur ng i f jf x :
      wf_field sc ng f = true -> fmatch off nj f jf ->
      (pv_size x < n)%nat -> value_ok sc f x = true -> pv_good5 sc x = true -> field_nan_canon x = true ->
      neg_zero_field f x = true ->
      sel_field (group_selects cur f i) x = true ->
      let af := abs_field (abs_elem sc) f (group_selects cur f i) x in
      (here cur i f x = None /\ af = S.default_field jf) \/
      (exists j j', here cur i f x = Some j /\ ct j = Some j' /\ acc_fieldval js jf j' = Some af /\
                    (forall g, fgroup f = Some g -> nth g cur None = Some i)).
    Proof.
      intros W M Hs Hv Hg Hn Hz O af. subst af. unfold here.
      unfold group_selects in *. destruct (fgroup f) as [g|] eqn:G.
      - destruct (opt_nat_eqb (nth g cur None) (Some i)) eqn:Sel.
        + (* the selected member *)
          assert (Hx : x <> PPlaceholder) by (intros ->; discriminate O).
          rewrite (not_ph x _ _ Hx).
          pose proof (field_emit sc js off JM n IHo ng f jf (Some true) x W M
                        ltac:(rewrite G; reflexivity) Hs Hx Hv Hg Hn Hz) as FE.
          destruct (J.field_to_json (J.to_dict J.CAMEL false sc) sc false f (Some true) x) as [j|].
          * right. destruct FE as (j' & C & A). exists j, j'. repeat split; try assumption.
            intros g' E. inversion E; subst g'. apply C04CurP.opt_nat_eqb_true, Sel.
          * left. split; [reflexivity|exact FE].
        + left. split; [reflexivity|]. exact (unselected_default sc js off ng f jf g x W M G).
      - destruct (pv_eq_dec_ph x) as [->|Hx].
        + left. split.
          * apply (default_not_emitted _ sc ng f None W). discriminate.
          * exact (placeholder_default sc js off ng f jf W M G).
        + rewrite (not_ph x _ _ Hx).
          pose proof (field_emit sc js off JM n IHo ng f jf None x W M
                        ltac:(rewrite G; reflexivity) Hs Hx Hv Hg Hn Hz) as FE.
          destruct (J.field_to_json (J.to_dict J.CAMEL false sc) sc false f None x) as [j|].
          * right. destruct FE as (j' & C & A). exists j, j'. repeat split; try assumption. intros g' E. discriminate E.
          * left. split; [reflexivity|exact FE].
    Qed.

    Lemma td_items_cons cur i x raw f fs :
      td_items J.CAMEL sc cur i (x :: raw) (f :: fs) =
      (match here cur i f x with Some j => [(J.key_of_field J.CAMEL f, j)] | None => [] end)
      ++ td_items J.CAMEL sc cur (Datatypes.S i) raw fs.
    Proof. reflexivity. Qed.

    Lemma items_emit cur ng all_jfs : NoDup (map S.jf_json all_jfs) ->
      forall raw fs jfs pre_j pre_a seen groups,
      all_jfs = pre_j ++ jfs -> length pre_a = length pre_j ->
      Forall2 (fmatch off nj) fs jfs -> forallb (wf_field sc ng) fs = true ->
      fields_ok sc raw fs = true -> forallb (pv_good5 sc) raw = true -> forallb field_nan_canon raw = true ->
      negzero_loop raw fs = true -> sel_loop cur (length pre_j) raw fs = true ->
      length raw = length fs ->
      (forall x, In x raw -> (pv_size x < n)%nat) ->
      (forall s, In s seen -> (s < length pre_j)%nat) ->
      (forall g, In g groups -> exists i', (i' < length pre_j)%nat /\ nth g cur None = Some i') ->
      exists kvs, S.all_some (map ct_item (td_items J.CAMEL sc cur (length pre_j) raw fs)) = Some kvs /\
        acc_go js all_jfs kvs (pre_a ++ map S.default_field jfs) seen groups =
        Some (pre_a ++ abs_fields sc cur (length pre_j) raw fs).
    Proof.
      intros ND. induction raw as [|x raw IH]; intros fs jfs pre_j pre_a seen groups E La F2 W Fo G N Z O L Sz Hseen Hgr.
      - destruct fs; [|discriminate L]. inversion F2; subst jfs. exists []. split; [reflexivity|].
        cbn [acc_go map abs_fields]. reflexivity.
      - destruct fs as [|f fs]; [discriminate L|]. inversion F2 as [|? jf ? jfs' Fm F2']; subst.
        cbn [forallb] in W, G, N. apply andb_prop in W as [W1 W2]. apply andb_prop in G as [G1 G2]. apply andb_prop in N as [N1 N2].
        cbn [fields_ok] in Fo. apply andb_prop in Fo as [Fo1 Fo2].
        cbn [negzero_loop] in Z. apply andb_prop in Z as [Z1 Z2].
        cbn [sel_loop] in O. apply andb_prop in O as [O1 O2].
        cbn [length] in L. injection L as L.
        remember (length pre_j) as i eqn:Ei.
        set (af := abs_field (abs_elem sc) f (group_selects cur f i) x).
        assert (Si : length (pre_j ++ [jf]) = Datatypes.S i) by (rewrite app_length, <- Ei; cbn [length]; apply Nat.add_1_r).
        assert (Next : forall seen' groups',
                  (forall s, In s seen' -> (s < Datatypes.S i)%nat) ->
                  (forall g, In g groups' -> exists i', (i' < Datatypes.S i)%nat /\ nth g cur None = Some i') ->
                  exists kvs, S.all_some (map ct_item (td_items J.CAMEL sc cur (Datatypes.S i) raw fs)) = Some kvs /\
                    acc_go js (pre_j ++ jf :: jfs') kvs (pre_a ++ af :: map S.default_field jfs') seen' groups' =
                    Some (pre_a ++ af :: abs_fields sc cur (Datatypes.S i) raw fs)).
        { intros seen' groups' Hs' Hg'.
          specialize (IH fs jfs' (pre_j ++ [jf]) (pre_a ++ [af]) seen' groups').
          rewrite Si in IH. rewrite <- !app_assoc in IH. cbn [app] in IH.
          apply IH; try assumption; try reflexivity.
          - rewrite !app_length. cbn [length]. lia.
          - intros y Hy. apply Sz. right. exact Hy. }
        rewrite td_items_cons, map_app, all_some_app. cbn [abs_fields]. fold af.
        assert (Hsx : (pv_size x < n)%nat) by (apply Sz; left; reflexivity).
        destruct (head_emit cur ng i f jf x W1 Fm Hsx Fo1 G1 N1 Z1) as [[Hn Ha]|(j & j' & Hj & C & A & Hgrp)].
        { exact O1. }
        + (* left out *)
          rewrite Hn. cbn [map S.all_some].
          destruct (Next seen groups) as (kvs & K1 & K2).
          { intros s Hs'. specialize (Hseen s Hs'). lia. }
          { intros g Hg'. destruct (Hgr g Hg') as (i' & I1 & I2). exists i'. split; [lia|exact I2]. }
          exists kvs. rewrite K1. split; [reflexivity|]. cbn [map]. fold af in Ha. rewrite <- Ha. exact K2.
        + (* emitted *)
          rewrite Hj. cbn [map S.all_some]. unfold ct_item at 1. cbn [fst snd]. rewrite C.
          destruct Fm as [Fk Fkind Fcard Fone Fmsg].
          destruct (Next (i :: seen) (match S.jf_oneof jf with Some g => g :: groups | None => groups end))
            as (kvs & K1 & K2).
          { intros s [<-|Hs']; [lia|]. specialize (Hseen s Hs'). lia. }
          { rewrite Fone. destruct (fgroup f) as [g0|] eqn:G0.
            - intros g [<-|Hg'].
              + exists i. split; [lia|]. apply Hgrp. reflexivity.
              + destruct (Hgr g Hg') as (i' & I1 & I2). exists i'. split; [lia|exact I2].
            - intros g Hg'. destruct (Hgr g Hg') as (i' & I1 & I2). exists i'. split; [lia|exact I2]. }
          exists ((J.key_of_field J.CAMEL f, j') :: kvs). rewrite K1. split; [reflexivity|].
          rewrite (acc_go_step js (pre_j ++ jf :: jfs') (J.key_of_field J.CAMEL f) j' kvs _ seen groups i jf af).
          * cbn [map]. rewrite <- La. rewrite set_nth_af_app. rewrite <- La in K2. exact K2.
          * rewrite Fk, Ei. apply find_field_at. exact ND.
          * apply mem_nat_false. intros s Hs' ->. specialize (Hseen _ Hs'). lia.
          * exact (acc_fieldval_not_null _ _ _ _ A).
          * rewrite Fone. destruct (fgroup f) as [g0|] eqn:G0; [|reflexivity].
            apply mem_nat_false. intros g Hg' ->. destruct (Hgr _ Hg') as (i' & I1 & I2).
            rewrite (Hgrp g0 eq_refl) in I2. inversion I2. lia.
          * exact A.
    Qed.
  End Step.

  Lemma obj_emit_n : forall n o, (pv_size (PMsg o) < n)%nat -> in_range sc o = true -> pv_good5 sc (PMsg o) = true ->
    emit_ok sc js off o.
  Proof.
    induction n as [|n IHn]; intros o Hs Hr Hg; [lia|].
    destruct o as [c raw s u g]. unfold emit_ok. cbn [ocls]. intros Hoff Hc.
    destruct (in_range_unfold _ _ _ _ _ _ Hr) as [Hl [_ F]].
    unfold pv_good5 in Hg. rewrite pv_all_msg in Hg. fold (pv_good5 sc) in Hg. apply andb_prop in Hg as [Hloc Hsub].
    unfold local_ok5 in Hloc. apply andb_prop in Hloc as [Hloc Hzero]. apply andb_prop in Hloc as [Hone Hnan].
    rewrite local_oneof_sel_unfold in Hone. rewrite local_no_neg_zero_unfold in Hzero.
    unfold local_nan_canon in Hnan. cbn [oraw] in Hnan.
    destruct (js_matches_class off sc js (c - off) JM Hc) as [F2 ND].
    replace (c - off + off)%nat with c in F2 by lia.
    rewrite to_dict_unfold.
    rewrite dict_norm_nodup.
    2:{ apply td_items_nodup. rewrite (keys_of_match _ _ _ _ F2). exact ND. }
    rewrite ct_obj, abs_obj_unfold.
    destruct (items_emit n IHn g (cngroups (get_class sc c)) (S.jclass js (c - off)) ND raw
                (cfields (get_class sc c)) (S.jclass js (c - off)) [] [] [] [] eq_refl eq_refl F2 (wf_fields sc c WF) F Hsub)
      as (kvs & K1 & K2).
    - exact Hnan.
    - exact Hzero.
    - exact Hone.
    - exact Hl.
    - intros x Hx. rewrite size_msg in Hs. pose proof (in_sum_size x raw Hx). lia.
    - intros s' [].
    - intros g' [].
    - cbn [length] in K1. rewrite K1. cbn [option_map]. eexists. split; [reflexivity|].
      rewrite acc_val_msg. cbn [app length] in K2. rewrite K2. reflexivity.
  Qed.

  Theorem emit_accepted c o :
    emit_good sc o = true -> ocls o = (c + off)%nat -> (c < length (S.jclasses js))%nat ->
    model_emit_accepts sc js c o = Some (abs_obj sc o).
  Proof.
    intros G Ec Hc. rewrite emit_good_split in G. apply andb_prop in G as [Hr Hg].
    destruct (obj_emit_n (Datatypes.S (pv_size (PMsg o))) o (Nat.lt_succ_diag_r _) Hr Hg) as (j & C & A).
    - lia.
    - rewrite Ec. replace (c + off - off)%nat with c by lia. exact Hc.
    - unfold model_emit_accepts. unfold ct in C. rewrite C. unfold S.json_accepts.
      rewrite Ec in A. replace (c + off - off)%nat with c in A by lia. exact A.
  Qed.
End Obj.
