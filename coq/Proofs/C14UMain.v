(* CLONE of Proofs/C01Main.v with norm_obj replaced by normu_obj (Model/C14UDef.v: every message keeps its unknown
   bytes) and Good by GoodU; see Proofs/C14UMain.v for what changes. *)
(* C01 layer 4h — the round trip of a whole (nested) message: for a well-formed schema and an in-range,
   oneof-clean value without unknown bytes, bytes(m) exists and Cls().parse(bytes(m)) is [normu_obj m]. *)
From Coq Require Import ZArith List Bool Lia ZifyBool.
From BP Require Import Base.Prelude Model.Types Model.Varint Model.Scalar Model.Float Model.Utf8.
From BP Require Import Model.Object Model.Eq Model.TimeCore Model.Encode Model.Decode Model.WellFormed Model.C01Def Model.C14UDef.
From BP Require Import Proofs.C14UUnfold.
From BP Require Import Model.C08Step Model.C14Pickle Proofs.C08StepP Proofs.C14PickleUnk Proofs.C17Main2P.
From BP Require Import gen.Tables Proofs.BytesP Proofs.LenP Proofs.C01Scalar Proofs.C01Frame Proofs.C01Step Proofs.C01Apply
     Proofs.C01Elem Proofs.C01Field Proofs.C01Builtin Proofs.C01Unfold Proofs.C14UValue Proofs.C14USlot Proofs.C14USlot2
     Proofs.C14UDict Proofs.C14UMsg.

Definition local_ok (sc : schema) (o : obj) : bool :=
  oneof_clean sc o && cur_ok sc o && unk_records_ok sc o && keys_unique sc o.

Definition value_ok (sc : schema) (o : obj) : Prop :=
  in_range sc o = true /\ deep (local_ok sc) (PMsg o) = true.

Lemma c14u_value_ok_spec sc o : c14u_value_ok sc o = true <-> value_ok sc o.
Proof. unfold c14u_value_ok, value_ok. rewrite andb_true_iff. reflexivity. Qed.

(* ---------- per-index extraction ---------- *)
Lemma slots_in_range_nth sc : forall raw fs k x f,
  slots_in_range sc raw fs = true -> nth_error raw k = Some x -> nth_error fs k = Some f -> slot_in_range sc f x = true.
Proof.
  induction raw as [|x0 raw IH]; intros [|f0 fs] [|k] x f H Hx Hf; cbn in Hx, Hf; try discriminate;
    cbn [slots_in_range] in H; apply andb_true_iff in H as [H1 H2].
  - congruence.
  - eapply IH; eauto.
Qed.

Lemma clean_slots_nth sc cur : forall raw fs j k x f,
  clean_slots sc cur j raw fs = true -> nth_error raw k = Some x -> nth_error fs k = Some f ->
  group_selects cur f (j + k) = Some false -> x = PPlaceholder.
Proof.
  induction raw as [|x0 raw IH]; intros [|f0 fs] j [|k] x f H Hx Hf Hs; cbn in Hx, Hf; try discriminate;
    cbn [clean_slots] in H; apply andb_true_iff in H as [H1 H2].
  - injection Hx as <-. injection Hf as <-. rewrite Nat.add_0_r in Hs. rewrite Hs in H1. destruct x0; try discriminate; reflexivity.
  - apply (IH fs (S j) k x f H2 Hx Hf). replace (S j + k)%nat with (j + S k)%nat by lia. exact Hs.
Qed.

Lemma deep_list_nth P : forall raw k x, deep_list P raw = true -> nth_error raw k = Some x -> deep P x = true.
Proof.
  induction raw as [|x0 raw IH]; intros [|k] x H Hx; cbn in Hx; try discriminate;
    rewrite deep_list_cons in H; apply andb_true_iff in H as [H1 H2]; [congruence | eapply IH; eauto].
Qed.

Lemma Forall_nth_error {A} (P : A -> Prop) l k x : Forall P l -> nth_error l k = Some x -> P x.
Proof. intros H Hk. rewrite Forall_forall in H. apply H. eapply nth_error_In. exact Hk. Qed.

Lemma elem_in_range_obj sc t p o : elem_in_range sc t p (PMsg o) = true -> in_range sc o = true.
Proof.
  destruct p; try (destruct t; destruct o; discriminate); try (destruct o; discriminate).
  rewrite elem_in_range_msg. intros H. apply andb_true_iff in H as [_ H]. exact H.
Qed.

(* the induction hypothesis for the nested messages of one slot *)
Lemma sub_good sc f x :
  slot_in_range sc f x = true -> deep (local_ok sc) x = true ->
  subP (fun o => value_ok sc o -> GoodU sc o) x -> subP (GoodU sc) x.
Proof.
  intros Hr Hd HP. destruct x as [| |z|b|bits|s|b|us|us|l|d|o]; try exact I.
  - (* repeated *)
    cbn [subP] in *. unfold slot_in_range in Hr.
    destruct (fhint f) as [p|p|p|pk pv'] eqn:Hh; rewrite ?elem_in_range_list in Hr; try discriminate Hr.
    apply all_fix_forall in Hr. rewrite deep_plist in Hd.
    induction l as [|y l IH]; [constructor|].
    inversion Hr as [|? ? Hy Hr']; subst. inversion HP as [|? ? Py HP']; subst.
    rewrite deep_list_cons in Hd. apply andb_true_iff in Hd as [Hd1 Hd2].
    constructor; [|apply IH; assumption].
    destruct y; try exact I. cbn [elemP] in *. apply Py. split; [eapply elem_in_range_obj; eauto | exact Hd1].
  - (* map *)
    cbn [subP] in *. unfold slot_in_range in Hr.
    destruct (fhint f) as [p|p|p|pk pv'] eqn:Hh; rewrite ?elem_in_range_dict in Hr; try discriminate Hr.
    destruct (fmap f) as [[kt vt]|]; [|discriminate Hr].
    apply (dict_fix_forall (fun k y => scalar_in_range kt k && elem_in_range sc vt pv' y)) in Hr.
    rewrite deep_pdict in Hd.
    induction d as [|[k y] d IH]; [constructor|].
    inversion Hr as [|? ? Hy Hr']; subst. inversion HP as [|? ? Py HP']; subst.
    cbn [deep_dict] in Hd. apply andb_true_iff in Hd as [Hd1 Hd2]. cbn [fst snd] in *.
    apply andb_true_iff in Hy as [_ Hy].
    constructor; [|apply IH; assumption]. cbn [snd].
    destruct y; try exact I. cbn [elemP] in *. apply Py. split; [eapply elem_in_range_obj; eauto | exact Hd1].
  - (* singular sub-message *)
    cbn [subP] in *. apply HP. split; [|exact Hd].
    unfold slot_in_range in Hr. destruct (fhint f) as [p|p|p|pk pv'] eqn:Hh; try discriminate Hr;
      eapply elem_in_range_obj; eauto.
Qed.

Lemma get_class_out sc c : (length (classes sc) <= c)%nat -> get_class sc c = empty_class.
Proof. intros H. unfold get_class. apply nth_overflow. exact H. Qed.

Lemma schema_class_facts sc c :
  c01_schema_ok sc = true ->
  forallb (wf_field sc (cngroups (get_class sc c))) (cfields (get_class sc c)) = true /\
  nodup_z (map fnum (cfields (get_class sc c))) = true /\
  forallb (entry_hints_ok sc) (cfields (get_class sc c)) = true.
Proof.
  unfold c01_schema_ok. intros H. apply andb_true_iff in H as [H He]. apply andb_true_iff in H as [Hw _].
  destruct (Nat.lt_ge_cases c (length (classes sc))) as [Hc|Hc].
  - destruct (wf_schema_class sc c Hw Hc) as (H1 & H2). split; [exact H1|]. split; [exact H2|].
    unfold entries_ok in He. rewrite forallb_forall in He. apply He. apply nth_In. exact Hc.
  - rewrite (get_class_out sc c Hc). repeat split; reflexivity.
Qed.

Lemma default_slots sc : forall raw fs,
  slots_in_range sc raw fs = true ->
  (forall k x f, nth_error raw k = Some x -> nth_error fs k = Some f -> slot_default sc f x) ->
  (fix go (raw : list pv) (fs : list fdesc) {struct raw} : bool :=
     match raw, fs with
     | x :: raw', f' :: fs' => (match x with PPlaceholder => true | _ => is_default sc f' x end) && go raw' fs'
     | _, _ => true
     end) raw fs = true.
Proof.
  induction raw as [|x raw IH]; intros [|f fs] Hr H; try reflexivity.
  cbn [slots_in_range] in Hr. apply andb_true_iff in Hr as [Hr1 Hr2].
  apply andb_true_iff. split.
  - destruct (H 0%nat x f eq_refl eq_refl) as [-> | [-> | Hd]]; [reflexivity| |destruct x; try exact Hd; reflexivity].
    unfold slot_in_range in Hr1. cbn [is_default]. destruct (fhint f); try discriminate Hr1. reflexivity.
  - apply IH; [exact Hr2|]. intros k y g Hy Hg. apply (H (S k) y g Hy Hg).
Qed.

Section Main.
  Variable sc : schema.
  Hypothesis Hsc : c01_schema_ok sc = true.

  Lemma schema_builtins : builtins_exact sc = true.
  Proof. unfold c01_schema_ok in Hsc. apply andb_true_iff in Hsc as [H _]. apply andb_true_iff in H as [_ H]. exact H. Qed.

  Lemma good_step c raw sow unk cur :
    value_ok sc (Obj c raw sow unk cur) ->
    Forall (subP (fun o => value_ok sc o -> GoodU sc o)) raw ->
    GoodU sc (Obj c raw sow unk cur).
  Proof.
    intros (Hr & Hd) HP. pose proof schema_builtins as Hbi.
    rewrite in_range_unfold in Hr. rewrite deep_msg in Hd.
    apply andb_true_iff in Hr as [Hr Hsl]. apply andb_true_iff in Hr as [Hr Hcl]. apply andb_true_iff in Hr as [_ Hlen].
    apply Nat.eqb_eq in Hlen, Hcl.
    apply andb_true_iff in Hd as [Hloc Hdl]. unfold local_ok in Hloc.
    apply andb_true_iff in Hloc as [Hloc Hku]. apply andb_true_iff in Hloc as [Hloc Hnu]. apply andb_true_iff in Hloc as [Hoc Hco].
    rewrite oneof_clean_unfold in Hoc.
    destruct (schema_class_facts sc c Hsc) as (Hwf & Hnd & Hent).
    pose proof (cur_ok_spec sc c raw sow unk cur Hco) as Hcur.
    set (fs := cfields (get_class sc c)) in *.
    assert (Hslots : forall k x f, nth_error raw k = Some x -> nth_error fs k = Some f ->
      slot_in_range sc f x = true /\ (group_selects cur f k = Some false -> x = PPlaceholder) /\
      (forall d, x = PDict d -> keys_nodup sc d = true) /\ subP (GoodU sc) x).
    { intros k x f Hx Hf.
      pose proof (slots_in_range_nth sc raw fs k x f Hsl Hx Hf) as Hrx.
      split; [exact Hrx|]. split; [apply (clean_slots_nth sc cur raw fs 0 k x f Hoc Hx Hf)|]. split.
      - intros d ->. unfold keys_unique in Hku. cbn [oraw] in Hku.
        apply (forallb_nth_error _ _ _ _ Hku Hx).
      - apply (sub_good sc f x Hrx); [eapply deep_list_nth; eauto | eapply Forall_nth_error; eauto]. }
    assert (Hw : forall fuel',
      exists bs, enc_slots sc cur 0 raw fs = Ok bs /\
        (bs = [] -> forall k x f, nth_error raw k = Some x -> nth_error fs k = Some f -> slot_default sc f x) /\
        (small bs -> (length bs <= fuel')%nat ->
         feeds fuel' sc (get_class sc c)
               (Obj c (mid_state (normu_slots sc cur 0 raw fs) (map fresh_of fs) 0) true [] (cur_upto cur 0)) bs
               (Obj c (mid_state (normu_slots sc cur 0 raw fs) (map fresh_of fs) (length fs)) true []
                    (cur_upto cur (length fs))))).
    { intros fuel'. apply (walk sc fuel' c Hbi raw cur Hlen Hnd Hwf Hent Hcur Hslots raw fs 0%nat); auto. }
    destruct (Hw 0%nat) as (bs & Eb & Hdef & _).
    exists (bs ++ unk). split; [rewrite enc_obj_unfold; fold fs; rewrite Eb; reflexivity|].
    split.
    - intros Hb. apply app_eq_nil in Hb as [Hb _]. unfold obj_default. cbn [ocls is_default msg_field fhint]. rewrite Nat.eqb_refl. cbn [andb].
      apply (default_slots sc raw fs Hsl (Hdef Hb)).
    - intros Hsm fuel Hfuel.
      (* the known part, parsed on its own *)
      assert (Hbody : parse sc c bs = Ok (Obj c (normu_slots sc cur 0 raw fs) true [] cur)).
      { destruct (Hw (length bs)) as (bs' & Eb' & _ & Hfeed). rewrite Eb in Eb'. injection Eb' as <-.
        specialize (Hfeed (small_app_l _ _ Hsm) ltac:(lia)).
        rewrite mid_state_0 in Hfeed.
        rewrite cur_upto_0, Hcl in Hfeed.
        rewrite cur_upto_all in Hfeed.
        2:{ intros g j Hg. destruct (Hcur g j Hg) as (f & Hf & _). apply nth_error_Some. congruence. }
        assert (Hfull : mid_state (normu_slots sc cur 0 raw fs) (map fresh_of fs) (length fs) = normu_slots sc cur 0 raw fs).
        { rewrite <- (map_length fresh_of fs). apply mid_state_full.
          rewrite normu_slots_length by exact Hlen. rewrite map_length. reflexivity. }
        rewrite Hfull in Hfeed.
        pose proof (feeds_load (length bs) sc c _ false [] _ bs _ Hfeed) as HL.
        unfold parse, parse_into. rewrite new_unfold. fold fs.
        change (map (fun f : fdesc => if fopt f then PNone else PPlaceholder) fs) with (map fresh_of fs). rewrite HL. reflexivity. }
      (* ... then the unknown records, held verbatim (C08) *)
      pose proof (parse_with_unknown sc c bs unk _ Hbody eq_refl Hnu) as Hall. cbn [set_unk] in Hall.
      cbn [ocls]. rewrite normu_obj_unfold. fold fs.
      rewrite (load_fuel_irrelevant sc fuel (S (length (bs ++ unk))) (new sc c) (bs ++ unk) None Hfuel ltac:(lia)).
      unfold parse, parse_into in Hall. rewrite load_run in Hall |- *.
      destruct (C08StepP.run _ _ _ _ _ _) as [o'|e]; cbn [bind] in Hall |- *; [|discriminate Hall].
      injection Hall as ->. reflexivity.
  Qed.

  Theorem all_good : forall o, value_ok sc o -> GoodU sc o.
  Proof.
    apply (obj_nested_ind (fun o => value_ok sc o -> GoodU sc o)).
    intros c raw s u g HP Hv. apply good_step; assumption.
  Qed.

  (* bytes(m) exists and Cls().parse(bytes(m)) is the normalised object *)
  Theorem parse_enc_norm m :
    c14u_value_ok sc m = true ->
    exists bs, enc_obj sc m = Ok bs /\ (Zlength bs < 2 ^ 64 -> parse sc (ocls m) bs = Ok (normu_obj sc m)).
  Proof.
    intros Hv. apply c14u_value_ok_spec in Hv. destruct (all_good m Hv) as (bs & Eb & _ & Hl).
    exists bs. split; [exact Eb|]. intros Hs. unfold parse, parse_into. rewrite (Hl Hs (S (length bs))) by lia. reflexivity.
  Qed.
End Main.

(* ---------- statements as Properties/C01.v quotes them ---------- *)
Lemma c14u_decode_is_norm sc m :
  c01_schema_ok sc = true -> c14u_value_ok sc m = true ->
  exists bs, enc_obj sc m = Ok bs /\ (Zlength bs < 2 ^ 64 -> parse sc (ocls m) bs = Ok (normu_obj sc m)).
Proof. intros Hs Hv. exact (parse_enc_norm sc Hs m Hv). Qed.

