(* C14 / commutation, part 4 - m.parse(bs) on an existing message respects [mat]: Message.load run on a state with
   more lazily created defaults written back fails with the same error or produces a state with more defaults
   written back, nothing else.  (Message.load is C08's fold of [step] over the records: Proofs/C08StepP.v load_run.) *)
From BP Require Import Base.Prelude Model.Types Model.Float Model.Object Model.Eq Model.Encode Model.Decode Model.History Model.C14Ops.
From BP Require Import Model.WellFormed Proofs.BytesP Proofs.C14Ind Proofs.C14Mat Proofs.C14Obs Proofs.C14Pres Proofs.C14Sim1.
From BP Require Import Model.Varint Model.C08Step Proofs.C08StepP Proofs.C08CommuteP.
From Coq Require Import Lia.

(* ---- for a value that is not PLACEHOLDER, [mat] does not look at the field ---- *)
Lemma mat_elem_irrel sc f g x x' : mat_elem sc f x x' = mat_elem sc g x x'.
Proof. unfold mat_elem. destruct x; try reflexivity. destruct x'; try reflexivity; apply mat_msg_irrel. Qed.

Lemma mat_list_irrel sc f g : forall l' l, mat_list sc f l l' = mat_list sc g l l'.
Proof.
  induction l' as [|x' l' IH]; intros [|x l]; cbn [mat_list]; try reflexivity.
  rewrite (mat_elem_irrel sc f g), IH. reflexivity.
Qed.

Lemma mat_dict_irrel sc f g : forall d' d, mat_dict sc f d d' = mat_dict sc g d d'.
Proof.
  induction d' as [|[k' x'] d' IH]; intros [|[k x] d]; cbn [mat_dict]; try reflexivity.
  rewrite (mat_elem_irrel sc f g), IH. reflexivity.
Qed.

Lemma mat_np_irrel sc f g v v' : v <> PPlaceholder -> mat sc f v v' = mat sc g v v'.
Proof.
  intros Hn. rewrite !mat_np by exact Hn.
  destruct v as [| | | | | | | | |l|d|[c raw s u cu]]; try reflexivity;
    destruct v' as [| | | | | | | | |l'|d'|[c' raw' s' u' cu']]; cbn [mat_core]; try reflexivity.
  - apply mat_list_irrel.
  - apply mat_dict_irrel.
Qed.

Lemma mat_go_set3 sc y y' : forall raw' raw fs i,
  mat_go sc raw raw' fs = true -> (forall g, mat sc g y y' = true) ->
  ((exists fi, nth_error fs i = Some fi) \/ y = y') ->
  mat_go sc (set_nth i y raw) (set_nth i y' raw') fs = true.
Proof.
  induction raw' as [|x' r' IH]; intros [|x r] fs i H Hm Hd; cbn [mat_go] in H; try discriminate H.
  - destruct i; reflexivity.
  - destruct fs as [|f0 fs]; apply andb_true_iff in H as [H1 H2]; destruct i as [|i]; cbn [set_nth mat_go].
    + destruct Hd as [(fi & Hfi)| ->]; [discriminate Hfi|]. rewrite pv_same_refl, H2. reflexivity.
    + rewrite H1. cbn [andb]. apply IH; auto. destruct Hd as [(fi & Hfi)|Hd]; [destruct i; discriminate Hfi | right; exact Hd].
    + rewrite Hm, H2. reflexivity.
    + rewrite H1. cbn [andb]. apply IH; auto.
Qed.

(* ---- dict / list updates ---- *)
Lemma dict_set_mono sc f k v : forall d' d,
  mat_dict sc f d d' = true -> mat_dict sc f (dict_set d sc k v) (dict_set d' sc k v) = true.
Proof.
  unfold dict_set. induction d' as [|[k1' x'] d' IH]; intros [|[k1 x] d] H; cbn [mat_dict] in H; try discriminate H.
  - cbn [mat_dict]. rewrite pv_same_refl, (mat_elem_refl sc f v (fun g => mat_refl sc v g)). reflexivity.
  - apply andb_true_iff in H as [H1 H3]. apply andb_true_iff in H1 as [H1 H2].
    pose proof (pv_same_sound _ _ H1) as E. subst k1'.
    destruct (pv_eq sc k1 k); cbn [mat_dict].
    + rewrite H1, (mat_elem_refl sc f v (fun g => mat_refl sc v g)), H3. reflexivity.
    + rewrite H1, H2. cbn [andb]. apply IH. exact H3.
Qed.

Lemma mat_list_app_same sc f vs : forall l' l, mat_list sc f l l' = true -> mat_list sc f (l ++ vs) (l' ++ vs) = true.
Proof.
  induction l' as [|x' l' IH]; intros [|x l] H; cbn [mat_list] in H; try discriminate H.
  - cbn [app]. induction vs as [|y vs IHv]; [reflexivity|]. cbn [mat_list].
    rewrite (mat_elem_refl sc f y (fun g => mat_refl sc y g)), IHv. reflexivity.
  - apply andb_true_iff in H as [H1 H2]. cbn [app mat_list]. rewrite H1, (IH l H2). reflexivity.
Qed.

(* ---- the loop body ---- *)
Lemma store_rest_sim sc o o' i f v cv cv' :
  mat_obj sc o o' = true -> cv <> PPlaceholder -> (forall g, mat sc g cv cv' = true) ->
  ((exists fi, nth_error (cfields (get_class sc (ocls o))) i = Some fi) \/ cv = cv') ->
  res_obj_rel sc (store_rest sc o i f v cv) (store_rest sc o' i f v cv').
Proof.
  intros H Hn Hm Hd. destruct (mat_obj_inv sc o o' H) as (c & raw & raw' & sow & unk & cur & -> & -> & Hg).
  cbn [ocls] in Hd. pose proof (Hm dummy_field) as Hi. apply mat_inv in Hi. rewrite (src_id sc _ cv Hn) in Hi.
  unfold store_rest.
  destruct Hi as [[Hv _]|[(c0 & raw0 & raw0' & sow0 & unk0 & cur0 & Hs & Hv' & Hg0)|[(l0 & l0' & Hs & Hv' & Hg0)|[(d0 & d0' & Hs & Hv' & Hg0)|[Hs Hsc]]]]].
  - contradiction.
  - (* current is a message *)
    subst cv cv'. destruct (ptype_eqb (fty f) TMap).
    + destruct v; reflexivity.
    + cbn [res_obj_rel]. apply setattr_sim. exact H.
  - (* current is a list *)
    subst cv cv'. destruct (ptype_eqb (fty f) TMap).
    + destruct v; reflexivity.
    + cbn [res_obj_rel]. rewrite mat_obj_mk. apply mat_go_set3; [exact Hg| |].
      * intros g. rewrite mat_np by discriminate. cbn [mat_core]. rewrite (mat_list_irrel sc g dummy_field).
        destruct v; apply mat_list_app_same; exact Hg0.
      * destruct Hd as [Hd|Hd]; [left; exact Hd | right]. inversion Hd; subst. reflexivity.
  - (* current is a dict *)
    subst cv cv'. destruct (ptype_eqb (fty f) TMap).
    + destruct v as [| | | | | | | | | | |e]; try reflexivity.
      destruct (getattr sc e 0) as [? [k|?]]; [|reflexivity]. destruct (getattr sc e 1) as [? [w|?]]; [|reflexivity].
      cbn [res_obj_rel]. rewrite mat_obj_mk. apply mat_go_set3; [exact Hg| |].
      * intros g. rewrite mat_np by discriminate. cbn [mat_core]. rewrite (mat_dict_irrel sc g dummy_field).
        apply dict_set_mono. exact Hg0.
      * destruct Hd as [Hd|Hd]; [left; exact Hd | right]. inversion Hd; subst. reflexivity.
    + cbn [res_obj_rel]. apply setattr_sim. exact H.
  - (* scalar / None *)
    subst cv'. destruct (ptype_eqb (fty f) TMap).
    + destruct v; try reflexivity. destruct cv; try reflexivity; contradiction Hsc.
    + destruct cv; try contradiction Hsc; cbn [res_obj_rel]; apply setattr_sim; exact H.
Qed.

Lemma store_sim sc o o' i f v :
  mat_obj sc o o' = true -> res_obj_rel sc (store sc o i f v) (store sc o' i f v).
Proof.
  intros H. rewrite !store_split.
  destruct (getattr_sim sc o o' i H) as (Hst & Hres).
  destruct (getattr sc o i) as [o1 r] eqn:G1, (getattr sc o' i) as [o1' r'] eqn:G2. cbn [fst snd] in *.
  destruct r as [cv|e], r' as [cv'|e']; cbn [res_rel] in Hres; try contradiction.
  - destruct Hres as (Hn & f0 & Hm). apply store_rest_sim; try assumption.
    + intros g. rewrite (mat_np_irrel sc g f0 cv cv' Hn). exact Hm.
    + left. destruct o as [c raw sow unk cur]. pose proof (getattr_shape' sc (Obj c raw sow unk cur) i) as (Hc & _).
      rewrite G1 in Hc. cbn [fst] in Hc. rewrite Hc. cbn [ocls].
      apply (getattr_ok_field sc c raw sow unk cur i cv). rewrite G1. reflexivity.
  - apply store_rest_sim.
    + apply setattr_sim. exact H.
    + apply default_not_placeholder.
    + intros g. apply mat_refl.
    + right. reflexivity.
Qed.

Lemma add_unk_sim sc o o' bs : mat_obj sc o o' = true -> mat_obj sc (add_unk o bs) (add_unk o' bs) = true.
Proof.
  intros H. destruct (mat_obj_inv sc o o' H) as (c & raw & raw' & sow & unk & cur & -> & -> & Hg).
  cbn [add_unk]. rewrite mat_obj_mk. exact Hg.
Qed.

Lemma step_sim fuel' sc cd o o' p :
  mat_obj sc o o' = true -> res_obj_rel sc (C08Step.step fuel' sc cd o p) (C08Step.step fuel' sc cd o' p).
Proof.
  intros H. rewrite !step_eq. destruct (field_by_number cd (pnum p)) as [[i f]|]; [|apply add_unk_sim; exact H].
  destruct (negb (wire_type_fits f (pwt p))); [apply add_unk_sim; exact H|].
  destruct (decode_value fuel' sc f p) as [v|e]; cbn [bind]; [apply store_sim; exact H | reflexivity].
Qed.

Lemma run_sim fuel' sc cd : forall n o o' s,
  mat_obj sc o o' = true -> res_obj_rel sc (C08StepP.run fuel' sc cd n o s) (C08StepP.run fuel' sc cd n o' s).
Proof.
  induction n as [|n IH]; intros o o' s H; [reflexivity|]. cbn [C08StepP.run]. destruct s as [|b s]; [exact H|].
  destruct (load_varint (b :: s)) as [[[nw r] s1]|]; cbn [bind]; [|reflexivity].
  destruct (load_field fuel' s1 nw r) as [[p s2]|]; cbn [bind]; [|reflexivity].
  pose proof (step_sim fuel' sc cd o o' p H) as Hs.
  destruct (C08Step.step fuel' sc cd o p) as [o1|e], (C08Step.step fuel' sc cd o' p) as [o1'|e']; cbn [res_obj_rel bind] in *;
    try contradiction; [apply IH; exact Hs | exact Hs].
Qed.

Theorem parse_into_sim sc o o' bs :
  mat_obj sc o o' = true -> res_obj_rel sc (parse_into sc o bs) (parse_into sc o' bs).
Proof.
  intros H. unfold parse_into. rewrite !load_run.
  destruct (mat_obj_inv sc o o' H) as (c & raw & raw' & sow & unk & cur & -> & -> & Hg).
  cbn [ocls C08Step.touch].
  assert (Ht : mat_obj sc (Obj c raw true unk cur) (Obj c raw' true unk cur) = true) by (rewrite mat_obj_mk; exact Hg).
  pose proof (run_sim (length bs) sc (get_class sc c) (S (length bs)) _ _ bs Ht) as Hr.
  destruct (C08StepP.run (length bs) sc (get_class sc c) (S (length bs)) (Obj c raw true unk cur) bs) as [a|e],
           (C08StepP.run (length bs) sc (get_class sc c) (S (length bs)) (Obj c raw' true unk cur) bs) as [b|e'];
    cbn [res_obj_rel bind] in *; try contradiction; exact Hr.
Qed.
