(* C12 — cancellation of user tasks: the tasks spawned by close() are never cancelled, so the
   sentinel accounting survives and no receiver stays blocked at quiescence, pinned or repaired. *)
From BP Require Import Base.Prelude Model.Channel.
From BP Require Import Proofs.ChannelP1 Proofs.ChannelP2 Proofs.ChannelP3 Proofs.ChannelP4 Proofs.ChannelP5 Proofs.ChannelP6.
From Coq Require Import Arith Lia.
Local Open Scope nat_scope.

Definition cancel_lt (n : nat) (o : op) : bool := match o with ICancel u => Nat.ltb u n | _ => true end.
Definition ucancel_lt (n : nat) (o : uop) : bool := match o with UCancel u => Nat.ltb u n | _ => true end.
(* every cancel() in the configuration targets one of the configuration's own tasks *)
Definition cfg_cancel_ok (c : config) : bool :=
  forallb (fun pb => forallb (ucancel_lt (length (c_progs c))) (fst pb)) (c_progs c).

(* index-sensitive invariant: tasks below n are user programs; tasks from n on (spawned by close()) are never cancelled *)
Definition Pn (n i : nat) (T : task) : Prop :=
  forallb (cancel_lt n) (prog T) = true /\
  (i < n -> forallb user_op (prog T) = true) /\
  (n <= i -> mc T = false /\ st T <> CancGet /\ st T <> CancPut /\ forallb op_nocancel (prog T) = true).

Definition idxall (P : nat -> task -> Prop) (ts : list task) : Prop := forall i T, nth_error ts i = Some T -> P i T.

Lemma idxall_upd : forall (P : nat -> task -> Prop) ts t x, idxall P ts -> P t x -> idxall P (upd ts t x).
Proof.
  intros P ts t x A Hx i T HT. rewrite nth_upd in HT. destruct (Nat.eqb_spec t i) as [->|NE].
  - destruct (nth_error ts i); [|discriminate]. injection HT as <-. exact Hx.
  - eapply A; eauto.
Qed.

Lemma idxall_app1 : forall (P : nat -> task -> Prop) ts x, idxall P ts -> P (length ts) x -> idxall P (ts ++ [x]).
Proof.
  intros P ts x A Hx i T HT. destruct (Nat.lt_ge_cases i (length ts)) as [L|G].
  - rewrite nth_error_app1 in HT by auto. eapply A; eauto.
  - rewrite nth_error_app2 in HT by auto. destruct (i - length ts) as [|[|k]] eqn:E; cbn in HT; try discriminate.
    injection HT as <-. replace i with (length ts) by lia. exact Hx.
Qed.

Lemma idxall_wakeup : forall (P : nat -> task -> Prop) b w l ts, is_fin b = false ->
  (forall i U, P i U -> P i (set_st U w)) -> idxall P ts -> idxall P (snd (wakeup b w l ts)).
Proof.
  intros P b w l ts NF Hw A. destruct (wakeup_effect b w l ts NF) as [[-> _]|(u & U & HU & _ & _ & ->)]; auto.
  apply idxall_upd; auto.
Qed.

Lemma Pn_set_st : forall n i U w, w <> CancGet -> w <> CancPut -> Pn n i U -> Pn n i (set_st U w).
Proof. intros n i U w N1 N2 (H1 & H2 & H3). repeat split; auto; cbn [prog mc st set_st]; try apply H3; auto. Qed.

Lemma user_nocancel_lt : forall n k, forallb (cancel_lt n) (repeat IPut k) = true /\ forallb (cancel_lt n) (repeat IPutFlush k) = true.
Proof. induction k; cbn; auto. Qed.

(* the prog of the moving task changes from [o :: l] to one of a few shapes, all of which keep the three forallb facts *)
Inductive prog_next : list op -> list op -> Prop :=
| pn_same : forall p, prog_next p p
| pn_tail : forall o l, prog_next (o :: l) l
| pn_nil : forall p, prog_next p []
| pn_put : forall l, prog_next (ISend :: l) (IPut :: l)
| pn_sendfrom : forall k cl l, prog_next (ISendFrom k cl :: l) (repeat IPut k ++ (if cl then [IClose] else []) ++ l)
| pn_flush : forall k l, prog_next (IFlush :: l) (repeat IPutFlush k ++ l).

Lemma forallb_next : forall (f : op -> bool) p p', prog_next p p' ->
  f IPut = true -> f IClose = true -> (f IFlush = true -> f IPutFlush = true) ->
  forallb f p = true -> forallb f p' = true.
Proof.
  intros f p p' N F1 F2 F3 H.
  assert (RP : forall k, forallb f (repeat IPut k) = true) by (induction k; cbn; auto; rewrite F1; auto).
  destruct N as [p|o l|p|l|k cl l|k l]; cbn [forallb] in *.
  - exact H.
  - apply andb_true_iff in H. tauto.
  - reflexivity.
  - apply andb_true_iff in H as [_ H]. rewrite F1. exact H.
  - apply andb_true_iff in H as [_ H]. rewrite !forallb_app, RP, H. destruct cl; cbn [forallb]; rewrite ?F2; reflexivity.
  - apply andb_true_iff in H as [H0 H]. rewrite forallb_app, H, andb_true_r. specialize (F3 H0).
    clear - F3. induction k; cbn; auto. rewrite F3. auto.
Qed.

Lemma Pn_next : forall n i T x, Pn n i T -> prog_next (prog T) (prog x) -> mc x = false ->
  st x <> CancGet -> st x <> CancPut -> Pn n i x.
Proof.
  intros n i T x (H1 & H2 & H3) N M S1 S2. repeat split; auto.
  - eapply forallb_next; eauto; cbn; try discriminate; auto.
  - intros L. eapply forallb_next; eauto; cbn; try discriminate; auto.
  - destruct (H3 H) as (_ & _ & _ & H4). eapply forallb_next; eauto; cbn; try discriminate; auto.
Qed.

Definition inv_idx (n : nat) (s : state) : Prop := n <= length (tasks s) /\ idxall (Pn n) (tasks s).

Lemma Pn_flush_task : forall n i, n <= i -> Pn n i flush_task.
Proof. intros n i L. repeat split; cbn; auto; try discriminate. intros. lia. Qed.

Lemma idx_step : forall n s t s', step s t = Some s' -> inv_idx n s -> inv_idx n s'.
Proof.
  intros n s t s' H [L A]. unfold inv_idx. step_inv H; simp_proj.
  all: match goal with E : nth_error (tasks _) _ = Some ?T |- _ => pose proof (A _ _ E) as HP end.
  all: split; [rewrite ?app_length, ?upd_length; cbn [length];
               repeat match goal with |- context [wakeup ?b ?w ?l ?ts] =>
                 destruct (wakeup_effect b w l ts eq_refl) as [[-> _]|(u0 & U0 & _ & _ & _ & ->)] end;
               rewrite ?upd_length; lia|].
  all: try (apply idxall_app1; [|apply Pn_flush_task; rewrite upd_length; exact L]).
  all: repeat (apply idxall_upd);
       try (apply idxall_wakeup; [reflexivity|intros ? ? ?; apply Pn_set_st; auto; discriminate|]); try exact A.
  all: try match goal with |- context [after_item ?o _] => destruct o; cbn [after_item fst snd] in * end.
  all: try (eapply Pn_next; [exact HP| | cbn [mc finished set_prog]; solve [reflexivity|assumption]
                           | cbn [st finished set_prog]; congruence | cbn [st finished set_prog]; congruence];
            cbn [prog finished set_prog];
            try match goal with E2 : prog _ = _ |- _ => rewrite E2 end; constructor).
  all: match goal with E : nth_error (upd (tasks _) _ ?x) ?u = Some ?U, E2 : prog _ = ICancel ?u :: _ |- _ =>
         assert (HX : Pn n t x)
           by (eapply Pn_next; [exact HP| |cbn [mc set_prog]; assumption|cbn [st set_prog]; congruence|cbn [st set_prog]; congruence];
               cbn [prog set_prog]; rewrite E2; constructor);
         pose proof (idxall_upd (Pn n) _ _ x A HX _ _ E) as (U1 & U2 & U3);
         assert (LT : u < n) by (destruct HP as (HP1 & _); rewrite E2 in HP1; cbn in HP1;
                                 apply andb_true_iff in HP1 as [HP1 _]; apply Nat.ltb_lt in HP1; exact HP1)
       end.
  all: repeat split; cbn [prog mc st set_mc set_st]; auto; intros; exfalso; lia.
Qed.

Lemma user_nflush : forall p, forallb user_op p = true -> length (filter is_flush p) = 0.
Proof.
  induction p as [|o p IH]; cbn; auto. intros H. apply andb_true_iff in H as [Ho Hp].
  unfold user_op in Ho. apply andb_true_iff in Ho as [Ho _]. apply negb_true_iff in Ho. rewrite Ho. auto.
Qed.

Lemma user_not_pending : forall T, forallb user_op (prog T) = true -> pending_flush T = 0.
Proof.
  intros T H. unfold pending_flush. destruct (st T); auto. destruct (prog T) as [|o p]; auto.
  destruct o; auto. cbn in H. discriminate.
Qed.

(* the moving task carries a cancellation: it is a user task (below n); a task spawned by close() cannot be in that state *)
Ltac idx_split n :=
  try match goal with
  | A : idxall (Pn n) (tasks ?s), E : nth_error (tasks ?s) ?t = Some ?T |- _ =>
      first [ match goal with E1 : mc T = true |- _ => idtac end
            | match goal with E1 : st T = CancGet |- _ => idtac end
            | match goal with E1 : st T = CancPut |- _ => idtac end ];
      let HP := fresh "HP" in pose proof (A _ _ E) as HP; destruct HP as (HP1 & HP2 & HP3);
      destruct (Nat.lt_ge_cases t n) as [Lt|Ge];
      [ specialize (HP2 Lt); pose proof (user_nflush _ HP2) as HUF; pose proof (user_not_pending _ HP2) as HUP
      | destruct (HP3 Ge) as (? & ? & ? & ?); congruence ]
  end.

Lemma C_step_idx : forall n s t s', step s t = Some s' ->
  inv_idx n s -> alltasks shapeP (tasks s) -> (flushed s = true -> closed s = true) ->
  invC s -> invC s'.
Proof.
  intros n s t s' H [_ A] SH FC I. step_inv H; simp_proj; unfold invC in *; simp_proj; try exact I.
  all: idx_split n.
  all: norm_tests; norm_done.
  all: repeat match goal with E : q _ = _ |- _ => rewrite E in *; clear E end.
  all: cbn [length] in *.
  all: shape_facts.
  all: try match goal with |- context [after_item ?o _] => destruct o; cbn [after_item fst snd] in * end.
  all: try wake_cases; sumf_norm; meas_simpl; rewrite ?app_length; cbn [length] in *.
  all: intros HF; try specialize (I HF); try specialize (FC HF); try lia.
  all: repeat match goal with E : _ \/ _ |- _ => destruct E end; try congruence; try lia.
Qed.

Lemma E_step_idx : forall n s t s', step s t = Some s' -> inv_idx n s -> invE s -> invE s'.
Proof.
  intros n s t s' H [_ A] I. step_inv H; simp_proj; unfold invE in *; simp_proj; try exact I.
  all: idx_split n.
  all: try (intros _; left; reflexivity).
  all: try match goal with |- context [after_item ?o _] => destruct o; cbn [after_item fst snd] in * end.
  all: try wake_cases; sumf_norm; meas_simpl.
  all: intros HC; try (destruct (I HC) as [HF|HP]; [left; exact HF|right; lia]).
  all: try (right; lia).
  all: try (left; assumption).
Qed.

(* ---------------------------------------------------------------- over Reach *)
Lemma compile_cancel_lt : forall n p, forallb (ucancel_lt n) p = true -> forallb (cancel_lt n) (map compile p) = true.
Proof.
  induction p as [|o p IH]; cbn; auto. intros H. apply andb_true_iff in H as [Ho Hp]. rewrite IH by auto.
  destruct o; cbn in *; auto. rewrite Ho. auto.
Qed.

Lemma init_idx : forall c, cfg_cancel_ok c = true -> inv_idx (length (c_progs c)) (init c).
Proof.
  intros c H. split; [cbn; rewrite map_length; lia|].
  intros i T HT. cbn in HT. rewrite nth_error_map in HT.
  destruct (nth_error (c_progs c) i) as [pb|] eqn:E; [|discriminate]. injection HT as <-.
  unfold cfg_cancel_ok in H. rewrite forallb_forall in H. specialize (H pb (nth_error_In _ _ E)).
  assert (Li : i < length (c_progs c)) by (apply nth_error_Some; congruence).
  split; [|split]; cbn [prog mc st].
  - apply compile_cancel_lt; auto.
  - intros _. apply init_user.
  - intros; lia.
Qed.

Theorem reach_idx : forall c s, Reach c s -> cfg_cancel_ok c = true ->
  inv_idx (length (c_progs c)) s /\ invC s /\ invE s.
Proof.
  intros c s R OK. induction R as [|s t s' R IH Hs].
  - split; [apply init_idx; auto|]. split; intros HF; discriminate HF.
  - destruct IH as (II & IC & IE). destruct (reach_gen _ _ R) as [I1 _ _ IS _ _ _].
    split; [eapply idx_step; eauto|]. split.
    + eapply C_step_idx; eauto. apply I1.
    + eapply E_step_idx; eauto.
Qed.

(* no receiver stays blocked after close, whatever user tasks were cancelled or timed out (pinned or repaired code) *)
Theorem no_blocked_general : forall c s, Reach c s -> cfg_cancel_ok c = true -> closed s = true -> quiescent s = true ->
  sumf (is_st BlkGet) (tasks s) = 0.
Proof.
  intros c s R OK CL Q.
  destruct (reach_gen _ _ R) as [I1 IB ID IS IT _ _]. destruct (reach_idx _ _ R OK) as (_ & JC & JE).
  assert (Zw : sumf (is_st WokeGet) (tasks s) = 0)
    by (apply quiescent_zero; auto; intros T HT; unfold runnable, is_st in *; destruct (st T); cbn; auto; discriminate).
  assert (Zk : sumf (is_st CancGet) (tasks s) = 0)
    by (apply quiescent_zero; auto; intros T HT; unfold runnable, is_st in *; destruct (st T); cbn; auto; discriminate).
  assert (Zp : sumf (is_st WokePut) (tasks s) = 0)
    by (apply quiescent_zero; auto; intros T HT; unfold runnable, is_st in *; destruct (st T); cbn; auto; discriminate).
  assert (Zf : sumf pending_flush (tasks s) = 0)
    by (apply quiescent_zero; auto; intros T HT; unfold runnable, pending_flush in *; destruct (st T); cbn; auto; discriminate).
  assert (FL : flushed s = true) by (destruct (JE CL) as [F|F]; [exact F|lia]).
  destruct (Nat.eq_0_gt_0_cases (sumf (is_st BlkGet) (tasks s))) as [Z|P]; [exact Z|exfalso].
  specialize (IB P). rewrite Zw in IB.
  pose proof (i_W _ I1) as HW. rewrite in_get_split, Zk, Zw in HW.
  specialize (JC FL).
  assert (RP : sumf nflush (tasks s) > 0) by lia.
  destruct (sumf_pos _ _ RP) as (T & HIn & HT). apply In_nth_error in HIn as [u HU].
  pose proof (IS _ _ HU) as SHP. pose proof (IT _ _ HU) as STO. pose proof (quiescent_nth _ _ _ Q HU) as RN.
  unfold nflush in HT.
  assert (HB : st T = BlkPut).
  { destruct SHP as [E|[E|E]].
    - rewrite E in HT. cbn in HT. lia.
    - exfalso. rewrite (user_nflush _ E) in HT. lia.
    - unfold stat_ok, runnable in *. destruct (prog T) as [|o p] eqn:EP; [cbn in HT; lia|].
      cbn in E. apply andb_true_iff in E as [Eo _]. destruct o; try discriminate.
      destruct (st T); try discriminate; try contradiction; auto. }
  assert (PB : sumf (is_st BlkPut) (tasks s) > 0).
  { pose proof (sumf_nth (is_st BlkPut) _ _ _ HU) as K. unfold is_st in K at 1. rewrite HB in K. cbn in K. lia. }
  destruct (ID PB) as [M1 M2]. rewrite Zp in M2. lia.
Qed.

Corollary no_blocked_general_tasks : forall c s, Reach c s -> cfg_cancel_ok c = true -> closed s = true -> quiescent s = true ->
  forall T, In T (tasks s) -> (exists o, st T = Fin o) \/ st T = BlkPut.
Proof.
  intros c s R OK CL Q T HT. pose proof (no_blocked_general c s R OK CL Q) as Z.
  apply In_nth_error in HT as [u HU]. pose proof (sumf_zero _ _ Z _ _ HU) as Zu.
  pose proof (quiescent_nth _ _ _ Q HU) as RN. unfold runnable, is_st in *.
  destruct (st T); cbn in *; try discriminate; eauto.
Qed.
