(* C03 gap closing, part B (see the table at the head of Proofs/C03GapA.v): compositions with C01's reachability theorem and
   C17's acceptance criterion at the generated schema, and the exactness witnesses for protoc_wf and the conjuncts of names_ok. *)
From BP Require Import Base.Prelude Model.Types Model.Object Model.Eq Model.Encode Model.Decode Model.WellFormed Model.C01Def.
From BP Require Import Spec.Descriptor Model.Plugin Proofs.PluginP Model.C03Bridge Model.C03Chain Proofs.C03ChainB.
From BP Require Model.History Model.C07Ops Model.C01Reach Model.C01Parse Proofs.C01Reach2B.
From BP Require Model.C17Typed Model.C17Nested Proofs.C17NestedAcceptP.

Section GeneratedB.
  Variable field_name : str -> str.
  Variable class_name : str -> str.
  Variable enum_member_name : str -> str -> str.
  Variable D : descriptor.
  Hypothesis Hwf : protoc_wf D = true.
  Hypothesis Hn : names_ok field_name class_name enum_member_name D = true.
  Hypothesis Hbr : bridge_ok D = true.

  Ltac hub :=
    destruct (generated_side_conditions field_name class_name enum_member_name D Hwf Hn Hbr)
      as (t & Ht & Hc & Hok & Hs & Hw & Hstd & Hhb & Hea & Hsb & Hkeys & Hmasks & Hum);
    exists t; split; [exact Hc|]; cbv zeta.

  (* C01 round trip with the value hypotheses discharged: every object a history of public-API operations (constructor, attribute
     and nested assignment, observers, copies, pickle, from_dict, parse) reaches from a fresh instance of a GENERATED class *)
  Theorem generated_roundtrip_reachable :
    exists t, reflect (compile field_name class_name enum_member_name D) = Ok t /\
      let sc := schema_of_table t in
      forall c ops m,
        C01Reach.hist_ok C01Parse.op_reach_ok_p sc (new sc c) ops = true -> C07Ops.run7 sc (new sc c) ops = Ok m ->
        exists bs, enc_obj sc m = Ok bs /\
          (Zlength bs < 2 ^ 64 ->
           exists m', parse sc (ocls m) bs = Ok m' /\ m' = norm_obj sc m /\
             (deep nan_free (PMsg m) = true -> obj_eq sc m m' = true) /\
             (forall g, which_one_of m' g = which_one_of m g) /\
             obs_top sc m m' = true /\
             enc_obj sc m' = Ok bs).
  Proof. hub. intros c ops m. now apply C01Reach2B.c01_roundtrip_reachable_parse. Qed.

  (* C17's acceptance criterion: a generated class parses a byte string iff it is [valid] for that class *)
  Theorem generated_accept_iff :
    exists t, reflect (compile field_name class_name enum_member_name D) = Ok t /\
      let sc := schema_of_table t in
      forall c bs, (exists m, parse sc c bs = Ok m) <-> C17Nested.valid sc c bs.
  Proof. hub. intros c bs. now apply C17NestedAcceptP.accept_iff. Qed.
End GeneratedB.
