(* C10 round-trip layer, part 3: reader older than writer.  A stream written with the newer schema [sn] is read, frame
   by frame, by the classes of the older schema [drop_fields masks sn] (any subset of the fields of any user class deleted,
   masks_ok): no load raises, each consumes exactly its frame; what the older writer re-emits for the messages it read is a
   stream of the same length, which the newer classes read back as [norm_obj sn m] — nothing is lost by passing a stream
   through an older reader/writer.  Composition of the frame lemmas (C10FrameP / C10RtGenP) with C08_evolution. *)
From BP Require Import Base.Prelude Model.Types Model.Varint Model.Object Model.Eq Model.Encode Model.Len Model.Decode.
From BP Require Import Model.WellFormed Model.C01Def Model.C08Step Model.C10Stream Model.C10Rt.
From BP Require Import Spec.Varint Proofs.LenP Proofs.C10FieldP Proofs.C10FrameP Proofs.C10StreamP Proofs.C10RtGenP Proofs.C10RtP.
From BP Require Proofs.C07LoadP Proofs.C08EvoDef Proofs.C08EvoMain.

Lemma Zlength_of_length {A B} (a : list A) (b : list B) : length a = length b -> Zlength a = Zlength b.
Proof. unfold Zlength. intros ->. reflexivity. Qed.

(* ---- one message seen by the older reader ---- *)
Lemma older_one sn masks m :
  c01_schema_ok sn = true -> C08EvoDef.masks_ok sn masks = true ->
  c01_value_ok sn m = true -> msg_small sn m = true ->
  exists mo, older_view sn masks m mo.
Proof.
  intros Hs Hmk Hv Hsm.
  destruct (C08EvoMain.c08_evolution sn masks m Hs Hmk Hv) as (b1 & E1 & H).
  destruct (dump_small_frame sn m Hsm) as (pre & p & E & _ & R & D). rewrite E1 in E. injection E as <-.
  pose proof Hsm as Hsm'. apply msg_small_spec in Hsm' as (b1' & E1' & L). rewrite E1 in E1'. injection E1' as <-.
  destruct (H L) as (mo & b2 & m2 & Po & Eo & Hl & Pn & -> & _).
  exists mo. unfold older_view. exists b1, (pre ++ b1), b2.
  split; [exact E1|]. split; [exact D|]. split; [exact Po|].
  split; [exact (proj2 (C07LoadP.InvS_parse _ _ _ _ Po))|].
  split; [intros r; rewrite <- app_assoc; apply frame_load_ok; assumption|].
  split; [exact Eo|]. split; [exact Hl | exact Pn].
Qed.

Lemma older_all sn masks : forall ms,
  c01_schema_ok sn = true -> C08EvoDef.masks_ok sn masks = true ->
  Forall (fun m => c01_value_ok sn m = true) ms -> Forall (fun m => msg_small sn m = true) ms ->
  exists mos, Forall2 (older_view sn masks) ms mos.
Proof.
  induction ms as [|m ms IH]; intros Hs Hmk Hv Hsm; [exists []; constructor|].
  inversion Hv as [|? ? Hm Hms]; subst. inversion Hsm as [|? ? Sm Sms]; subst.
  destruct (older_one sn masks m Hs Hmk Hm Sm) as (mo & Ho). destruct (IH Hs Hmk Hms Sms) as (mos & Hos).
  exists (mo :: mos). constructor; assumption.
Qed.

(* ---- consequences of the per-message view for the whole list ---- *)
Section View.
  Variables (sn : schema) (masks : list (list bool)).
  Let so := drop_fields masks sn.

  Lemma view_cls : forall ms mos, Forall2 (older_view sn masks) ms mos -> map ocls mos = map ocls ms.
  Proof.
    induction 1 as [|m mo ms mos (b1 & F & b2 & _ & _ & _ & Hc & _) _ IH]; [reflexivity|].
    cbn [map]. rewrite Hc, IH. reflexivity.
  Qed.

  Lemma view_reads : forall ms mos, Forall2 (older_view sn masks) ms mos ->
    Forall2 (fun m mo => exists bs, enc_obj sn m = Ok bs /\ parse so (ocls m) bs = Ok mo) ms mos.
  Proof.
    induction 1 as [|m mo ms mos (b1 & F & b2 & E1 & _ & Po & _) _ IH]; constructor; [|exact IH].
    exists b1. split; assumption.
  Qed.

  Lemma view_small : forall ms mos, Forall (fun m => msg_small sn m = true) ms ->
    Forall2 (older_view sn masks) ms mos -> Forall (fun mo => msg_small so mo = true) mos.
  Proof.
    intros ms mos Hsm H. induction H as [|m mo ms mos (b1 & F & b2 & E1 & _ & _ & _ & _ & Eo & Hl & _) _ IH]; [constructor|].
    inversion Hsm as [|? ? Sm Sms]; subst. constructor; [|exact (IH Sms)].
    apply msg_small_spec in Sm as (b1' & E1' & L). rewrite E1 in E1'. injection E1' as <-.
    apply msg_small_spec. exists b2. split; [exact Eo|]. rewrite (Zlength_of_length b2 b1 Hl). exact L.
  Qed.

  Lemma view_reads_back : forall ms mos, Forall2 (older_view sn masks) ms mos ->
    Forall2 (fun mo n => exists bs, enc_obj so mo = Ok bs /\ parse sn (ocls mo) bs = Ok n) mos (map (norm_obj sn) ms).
  Proof.
    induction 1 as [|m mo ms mos (b1 & F & b2 & _ & _ & _ & Hc & _ & Eo & _ & Pn) _ IH]; cbn [map]; constructor; [|exact IH].
    exists b2. rewrite Hc. split; assumption.
  Qed.

  (* the older writer's frames have the lengths of the newer writer's *)
  Lemma view_redump : forall ms mos stream, Forall (fun m => msg_small sn m = true) ms ->
    Forall2 (older_view sn masks) ms mos -> dump_stream sn ms = Ok stream ->
    exists stream2, dump_stream so mos = Ok stream2 /\ length stream2 = length stream.
  Proof.
    intros ms mos stream Hsm H. revert stream.
    induction H as [|m mo ms mos (b1 & F & b2 & E1 & DF & _ & _ & _ & Eo & Hl & _) _ IH]; intros stream D.
    - exists []. split; [reflexivity|]. cbn in D. injection D as <-. reflexivity.
    - inversion Hsm as [|? ? Sm Sms]; subst.
      destruct (dump_stream_cons _ _ _ _ D) as (F' & S' & DF' & DS & ->). rewrite DF in DF'. injection DF' as <-.
      destruct (IH Sms S' DS) as (S2 & D2 & L2).
      rewrite (dump_delimited _ _ _ E1) in DF.
      destruct (encode_varint (Zlength b1)) as [pre|] eqn:EV; [|discriminate]. cbn [bind] in DF. injection DF as <-.
      exists ((pre ++ b2) ++ S2). split.
      + cbn [dump_stream]. unfold so in *. rewrite (dump_delimited _ _ _ Eo), (Zlength_of_length b2 b1 Hl), EV. cbn [bind]. rewrite D2. reflexivity.
      + rewrite !app_length. lia.
  Qed.
End View.

(* ---- (2) the stream through an older reader / writer ---- *)
Theorem stream_older_reader sn masks ms rest :
  c01_schema_ok sn = true -> C08EvoDef.masks_ok sn masks = true ->
  Forall (fun m => c01_value_ok sn m = true) ms -> Forall (fun m => msg_small sn m = true) ms ->
  exists stream mos stream2,
    dump_stream sn ms = Ok stream /\
    Forall2 (older_view sn masks) ms mos /\
    loads (drop_fields masks sn) (map ocls ms) (stream ++ rest) = (mos, Ok rest) /\
    dump_stream (drop_fields masks sn) mos = Ok stream2 /\ length stream2 = length stream /\
    (forall rest', loads sn (map ocls ms) (stream2 ++ rest') = (map (norm_obj sn) ms, Ok rest')) /\
    Forall (fun m => same_message sn m (norm_obj sn m)) ms.
Proof.
  intros Hs Hmk Hv Hsm.
  destruct (dump_stream_small sn ms Hsm) as (stream & D).
  destruct (older_all sn masks ms Hs Hmk Hv Hsm) as (mos & Hos).
  destruct (view_redump sn masks ms mos stream Hsm Hos D) as (stream2 & D2 & L2).
  exists stream, mos, stream2. split; [exact D|]. split; [exact Hos|]. split.
  { apply (loads_parse_each sn (drop_fields masks sn) ms (map ocls ms) stream rest mos Hsm D (map_length _ _)).
    apply parse_each_forall2. exact (view_reads sn masks ms mos Hos). }
  split; [exact D2|]. split; [exact L2|]. split.
  { intros rest'. rewrite <- (view_cls sn masks ms mos Hos).
    apply (loads_parse_each (drop_fields masks sn) sn mos (map ocls mos) stream2 rest' _
             (view_small sn masks ms mos Hsm Hos) D2 (map_length _ _)).
    apply parse_each_forall2. exact (view_reads_back sn masks ms mos Hos). }
  rewrite Forall_forall in *. intros m Hin. apply rt_same; auto.
Qed.
