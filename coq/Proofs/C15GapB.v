(* C15 gap closing, second group: the JSON forms (table: header of Proofs/C15GapA.v, clause (6)). *)
From BP Require Import Base.Prelude Model.Varint Model.Scalar Model.Time Spec.Varint Spec.Time.
From BP Require Import Proofs.BytesP Proofs.VarintP Proofs.ScalarP Proofs.TimeP.
From BP Require Import Model.TimeCore Model.C15GapDefs Proofs.C15GapA.
From BP Require Model.Json Spec.JsonMap Proofs.C15CalP.
From Coq Require Import ZifyBool ZifyN.
Ltac Zify.zify_post_hook ::= Z.to_euclidean_division_equations.

(* ====================================================================================== *)
(* 1. Duration text: injective; K15-1 characterised                                         *)
(* ====================================================================================== *)
Theorem delta_to_json_inj a b : delta_to_json a = delta_to_json b -> a = b.
Proof.
  intros H. pose proof (dur_parse_delta_to_json a) as Pa. rewrite H, dur_parse_delta_to_json in Pa.
  unfold dur_of_us in Pa. injection Pa as H1 H2. lia.
Qed.

(* the reference's text for a whole number of seconds: sign, integer, "s" *)
Lemma dur_json_whole d : d mod 1000000 = 0 ->
  dur_json (fst (dur_of_us d)) (snd (dur_of_us d)) = ((if d <? 0 then [cMINUS] else []) ++ dec (Z.abs d / 1000000)) ++ [cS].
Proof.
  intros Hd. unfold dur_json, dur_of_us. cbn [fst snd].
  replace (Z.rem d 1000000 * 1000) with 0 by lia.
  replace ((Z.quot d 1000000 <? 0) || (0 <? 0)) with (d <? 0) by lia.
  replace (Z.abs (Z.quot d 1000000)) with (Z.abs d / 1000000) by lia.
  change (frac (Z.abs 0)) with (@nil byte). cbn [app]. rewrite app_assoc. reflexivity.
Qed.

(* what betterproto writes for it: the same with ".000" before the "s" - for EVERY whole second (K15-1) *)
Theorem delta_to_json_whole d : d mod 1000000 = 0 ->
  delta_to_json d = K15_1_text (fst (dur_of_us d)) (snd (dur_of_us d)).
Proof.
  intros Hd. unfold K15_1_text. rewrite (dur_json_whole d Hd), removelast_last.
  unfold delta_to_json. change (10 ^ 6) with 1000000.
  replace (Z.abs d mod 1000000) with 0 by lia.
  change (0 mod 1000 =? 0) with true. cbv iota.
  change (fmt0 3 (0 / 1000)) with [c0; c0; c0]. rewrite <- app_assoc. reflexivity.
Qed.

(* the text is the reference's EXACTLY when the span is not a whole number of seconds *)
Theorem delta_to_json_spec_iff d :
  delta_to_json d = dur_json (fst (dur_of_us d)) (snd (dur_of_us d)) <-> d mod 1000000 <> 0.
Proof.
  split; [|apply delta_to_json_is_spec].
  intros E Hd. rewrite (delta_to_json_whole d Hd) in E. unfold K15_1_text in E.
  rewrite (dur_json_whole d Hd), removelast_last in E. apply app_inv_head in E. discriminate E.
Qed.

(* ====================================================================================== *)
(* 2. to_dict()[field]                                                                      *)
(* ====================================================================================== *)
Theorem to_dict_dur_spec d :
  (to_dict_dur d = None <-> d = 0) /\
  (forall t, to_dict_dur d = Some t -> t = delta_to_json d /\ dur_parse t = Some (dur_of_us d) /\
                                       (td_rangeb d = true -> parse_duration t = Ok d)).
Proof.
  unfold to_dict_dur. destruct (d =? 0) eqn:Z0; split.
  - split; [lia|reflexivity].
  - discriminate.
  - split; [discriminate|lia].
  - intros t H. injection H as <-. split; [reflexivity|]. split; [apply dur_parse_delta_to_json|].
    intros R. apply parse_duration_delta_to_json, td_rangeb_iff, R.
Qed.

Theorem to_dict_ts_spec cal dt :
  to_dict_ts cal dt = Ok (if instant dt =? 0 then None else Some (ts_json cal (snd (ts_of_us (instant dt))))).
Proof.
  unfold to_dict_ts. destruct (instant dt =? 0); [reflexivity|]. rewrite timestamp_to_json_is_spec. reflexivity.
Qed.

(* ====================================================================================== *)
(* 3. Timestamp text: only the instant matters, and the instant is kept apart               *)
(* ====================================================================================== *)
Theorem timestamp_to_json_tz cal a b : instant a = instant b -> timestamp_to_json cal a = timestamp_to_json cal b.
Proof. intros H. unfold timestamp_to_json. rewrite H. reflexivity. Qed.

Theorem ts_text_inj a b :
  (dt_min_us <=? instant a) && (instant a <=? dt_max_us) = true ->
  (dt_min_us <=? instant b) && (instant b <=? dt_max_us) = true ->
  (timestamp_to_json (Model.Json.cal_text (instant a / 1000000)) a =
   timestamp_to_json (Model.Json.cal_text (instant b / 1000000)) b <-> instant a = instant b).
Proof.
  intros Ra Rb. split.
  - destruct (C15CalP.timestamp_json_full a Ra) as (ta & Ea & _ & _ & Ia).
    destruct (C15CalP.timestamp_json_full b Rb) as (tb & Eb & _ & _ & Ib).
    rewrite Ea, Eb. intros H. injection H as ->. rewrite Ia in Ib. injection Ib as H. exact H.
  - intros H. rewrite H. apply timestamp_to_json_tz, H.
Qed.
