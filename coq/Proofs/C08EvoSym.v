(* C08 (schema evolution) helper: Message.__eq__ between the decoded message and the original, in the
   orientation `decoded == original`: obj_eq (norm_obj m) m = true.  Proofs/C01Eq.v proves the orientation
   `original == decoded`; pv_eq is not syntactically symmetric (dict comparison looks every key of the LEFT
   dict up in the right one, a message slot uses the LEFT class), so the flip is proved here:
   the forward result is taken as given and turned around slot by slot.  pv_eq IS symmetric whenever one
   side is not a container; lists flip element by element; the decoded dict has the same keys in the same
   order, so the look-up hits position by position (keys unique); nested messages by induction. *)
From Coq Require Import ZArith List Bool Lia.
From BP Require Import Base.Prelude Model.Types Model.Varint Model.Scalar Model.Float Model.Utf8.
From BP Require Import Model.Object Model.Eq Model.TimeCore Model.Encode Model.Decode Model.WellFormed Model.C01Def.
From BP Require Import gen.Tables Proofs.BytesP Proofs.C01Builtin Proofs.C01Unfold Proofs.C01Value Proofs.C01Slot
     Proofs.C01Slot2 Proofs.C01Dict Proofs.C01Msg Proofs.C01Main Proofs.C01Stable Proofs.C01Eq.

(* ---------- values that are not containers: == is symmetric ---------- *)
Definition atomic (v : pv) : bool :=
  match v with PList _ | PDict _ | PMsg _ => false | _ => true end.

Lemma f64_eq_sym a b : f64_eq a b = f64_eq b a.
Proof. unfold f64_eq. rewrite (orb_comm (f64_is_nan a)), (andb_comm (f64_is_zero a)), (Z.eqb_sym a b). reflexivity. Qed.

Lemma bool_eqb_sym a b : Bool.eqb a b = Bool.eqb b a.
Proof. destruct a, b; reflexivity. Qed.

Lemma pv_eq_sym_l sc a b : atomic a = true -> pv_eq sc a b = pv_eq sc b a.
Proof.
  intros Ha. destruct a; try discriminate Ha; destruct b; cbn [pv_eq]; try reflexivity;
    try apply Z.eqb_sym; try apply bytes_eqb_sym; try apply f64_eq_sym; try apply bool_eqb_sym.
  all: destruct o; reflexivity.
Qed.

Lemma pv_eq_sym_r sc a b : atomic b = true -> pv_eq sc a b = pv_eq sc b a.
Proof. intros Hb. symmetry. apply pv_eq_sym_l. exact Hb. Qed.

Lemma fresh_atomic f : atomic (if fopt f then PNone else PPlaceholder) = true.
Proof. destruct (fopt f); reflexivity. Qed.

(* ---------- one slot of Message.__eq__ turned around ---------- *)
Lemma slot_eq_flip sc f x y :
  (pv_eq sc x y = true -> pv_eq sc y x = true) ->
  slot_eq sc f x y = true -> slot_eq sc f y x = true.
Proof.
  intros Hs H.
  assert (Hgen : pv_eq sc x y || (pv_is_nan x && pv_is_nan y) = true ->
                 pv_eq sc y x || (pv_is_nan y && pv_is_nan x) = true).
  { intros H0. apply orb_true_iff in H0 as [H0|H0].
    - rewrite (Hs H0). reflexivity.
    - rewrite andb_comm, H0. apply orb_true_r. }
  destruct x; destruct y; unfold slot_eq in H |- *; try exact H; try (apply Hgen; exact H).
Qed.

Lemma eq_slots_flip_atomic sc : forall ra rb fs,
  Forall (fun v => atomic v = true) rb -> eq_slots sc ra rb fs = true -> eq_slots sc rb ra fs = true.
Proof.
  induction ra as [|u ra IH]; intros [|v rb] [|f fs] Hat H; try reflexivity.
  inversion Hat as [|? ? Hv Hat']; subst.
  cbn [eq_slots] in H |- *. apply andb_true_iff in H as [H1 H2].
  rewrite (IH rb fs Hat' H2), andb_true_r.
  apply slot_eq_flip; [|exact H1]. intros H0. rewrite <- (pv_eq_sym_r sc u v Hv). exact H0.
Qed.

Lemma obj_eq_flip_new sc o c' : obj_eq sc o (new sc c') = true -> obj_eq sc (new sc c') o = true.
Proof.
  destruct o as [c ra sa ua ga]. rewrite new_unfold, !obj_eq_unfold. intros H.
  apply andb_true_iff in H as [Hc H]. apply Nat.eqb_eq in Hc. subst c'.
  rewrite Nat.eqb_refl. cbn [andb]. apply eq_slots_flip_atomic; [|exact H].
  apply Forall_forall. intros v Hin. apply in_map_iff in Hin as (f & <- & _). apply fresh_atomic.
Qed.

(* ---------- the dict look-up, position by position ---------- *)
Lemma dict_all_flip sc kt (g : pv -> pv) rest : forall pre,
  map_key_ok kt = true ->
  keys_nodup sc (pre ++ rest) = true ->
  Forall (fun kv => scalar_in_range kt (fst kv) = true) (pre ++ rest) ->
  Forall (fun kv => pv_eq sc (g (snd kv)) (snd kv) = true) rest ->
  dict_all sc (pre ++ rest) (map (fun kv => (fst kv, g (snd kv))) rest) = true.
Proof.
  induction rest as [|[k u] rest IH]; intros pre Hk Hnd Hkeys Hv; [reflexivity|].
  inversion Hv as [|? ? Hu Hv']; subst. cbn [snd] in Hu.
  cbn [map dict_all fst snd]. apply andb_true_iff. split.
  - destruct (keys_nodup_app sc pre k u rest Hnd) as (Hpre & _).
    assert (Hkk : scalar_in_range kt k = true).
    { rewrite Forall_forall in Hkeys. apply (Hkeys (k, u)). apply in_or_app. right. left. reflexivity. }
    rewrite dict_find_skip.
    + cbn [dict_find]. rewrite (key_eq_refl sc kt k Hkk Hk). exact Hu.
    + intros [k0 v0] Hin0. cbn [fst].
      rewrite (key_eq_sym sc kt k k0 Hkk); [apply (Hpre (k0, v0) Hin0) | | exact Hk].
      rewrite Forall_forall in Hkeys. apply (Hkeys (k0, v0)). apply in_or_app. left. exact Hin0.
  - replace (pre ++ (k, u) :: rest) with ((pre ++ [(k, u)]) ++ rest) by (rewrite <- app_assoc; reflexivity).
    apply IH; auto; rewrite <- app_assoc; assumption.
Qed.

(* the induction hypothesis of one slot, under the NaN side condition *)
Lemma sub_nan_lift (Q : obj -> Prop) x :
  deep nan_free x = true -> subP (fun o => deep nan_free (PMsg o) = true -> Q o) x -> subP Q x.
Proof.
  intros Hd HP. destruct x as [| |z|b|bits|s|b|us|us|l|d|o]; try exact I.
  - cbn [subP] in *. rewrite deep_plist in Hd. induction l as [|y l IH]; [constructor|].
    inversion HP as [|? ? Py HP']; subst. rewrite deep_list_cons in Hd. apply andb_true_iff in Hd as [Hd1 Hd2].
    constructor; [|apply IH; assumption]. destruct y; try exact I. cbn [elemP] in *. apply Py. exact Hd1.
  - cbn [subP] in *. rewrite deep_pdict in Hd. induction d as [|[k y] d IH]; [constructor|].
    inversion HP as [|? ? Py HP']; subst. cbn [deep_dict] in Hd. apply andb_true_iff in Hd as [Hd1 Hd2].
    constructor; [|apply IH; assumption]. cbn [snd] in *. destruct y; try exact I. cbn [elemP] in *. apply Py. exact Hd1.
  - cbn [subP] in *. apply HP. exact Hd.
Qed.

Section SymProof.
  Variable sc : schema.
  Hypothesis Hsc : c01_schema_ok sc = true.

  Definition SymOk (o : obj) : Prop := obj_eq sc (norm_obj sc o) o = true.
  Definition SymIf (o : obj) : Prop := deep nan_free (PMsg o) = true -> SymOk o.

  (* ---- list elements ---- *)
  Lemma elem_flip t y :
    elemP SymOk y -> pv_eq sc y (norm_elem (norm_obj sc) t y) = true -> pv_eq sc (norm_elem (norm_obj sc) t y) y = true.
  Proof.
    intros HS H. destruct (atomic y) eqn:Ha.
    { rewrite <- (pv_eq_sym_l sc y _ Ha). exact H. }
    destruct y; try discriminate Ha.
    - replace (norm_elem (norm_obj sc) t (PList l)) with (PList l) in * by (destruct t; reflexivity). exact H.
    - replace (norm_elem (norm_obj sc) t (PDict l)) with (PDict l) in * by (destruct t; reflexivity). exact H.
    - cbn [norm_elem]. rewrite pv_eq_msg. exact HS.
  Qed.

  Lemma list_flip t l :
    Forall (elemP SymOk) l ->
    list_eq sc l (map (norm_elem (norm_obj sc) t) l) = true -> list_eq sc (map (norm_elem (norm_obj sc) t) l) l = true.
  Proof.
    induction l as [|y l IH]; intros HS H; [reflexivity|].
    inversion HS as [|? ? Sy HS']; subst. cbn [map list_eq] in H |- *.
    apply andb_true_iff in H as [H1 H2]. rewrite (IH HS' H2), andb_true_r. apply elem_flip; assumption.
  Qed.

  (* ---- map values ---- *)
  Lemma map_value_flip vt pv' y :
    elem_in_range sc vt pv' y = true -> elemP (Good sc) y -> elemP (EqOk sc) y -> elemP SymOk y -> pv_is_nan y = false ->
    pv_eq sc (norm_map_value sc (norm_obj sc) vt y) y = true.
  Proof.
    intros Hr HG HE HS Hn. pose proof (map_value_eq_norm sc Hsc vt pv' y Hr HG HE Hn) as H.
    destruct (atomic y) eqn:Ha.
    { rewrite <- (pv_eq_sym_l sc y _ Ha). exact H. }
    destruct y; try discriminate Ha.
    - rewrite elem_in_range_list in Hr. discriminate Hr.
    - rewrite elem_in_range_dict in Hr. discriminate Hr.
    - cbn [norm_map_value elemP] in *.
      destruct (enc_obj sc o) as [[|b0 bs0]|e]; try (rewrite pv_eq_msg; exact HS).
      rewrite pv_eq_msg in *. apply obj_eq_flip_new. exact H.
  Qed.

  Lemma dict_flip_slot c f d :
    wf_field sc (cngroups (get_class sc c)) f = true ->
    slot_in_range sc f (PDict d) = true ->
    keys_nodup sc d = true ->
    forallb (fun kv => negb (pv_is_nan (snd kv))) d = true ->
    Forall (fun kv => elemP (Good sc) (snd kv)) d -> Forall (fun kv => elemP (EqOk sc) (snd kv)) d ->
    Forall (fun kv => elemP SymOk (snd kv)) d ->
    forall kt vt, fmap f = Some (kt, vt) ->
    dict_all sc d (map (fun kv => (fst kv, norm_map_value sc (norm_obj sc) vt (snd kv))) d) = true.
  Proof.
    intros Hwf Hr Hkn Hnan HG HE HS kt vt Hm.
    assert (Hh : exists pk pv', fhint f = HDict pk pv').
    { unfold slot_in_range in Hr. destruct (fhint f) as [p|p|p|pk pv'] eqn:Hh; eauto;
        rewrite ?elem_in_range_dict in Hr; discriminate Hr. }
    destruct Hh as (pk & pv' & Hh).
    destruct (wf_dict _ _ _ _ _ Hwf Hh) as (_ & _ & _ & _ & kt' & vt' & Hm' & Hk & _).
    rewrite Hm in Hm'. injection Hm' as <- <-.
    assert (Hin : Forall (fun kv => scalar_in_range kt (fst kv) && elem_in_range sc vt pv' (snd kv) = true) d).
    { unfold slot_in_range in Hr. rewrite Hh, Hm in Hr.
      apply (dict_fix_forall (fun k y => scalar_in_range kt k && elem_in_range sc vt pv' y)) in Hr. exact Hr. }
    apply (dict_all_flip sc kt (norm_map_value sc (norm_obj sc) vt) d [] Hk Hkn).
    - eapply Forall_impl; [|exact Hin]. intros kv H. apply andb_true_iff in H as [H _]. exact H.
    - rewrite Forall_forall in *. intros kv Hkv.
      pose proof (Hin kv Hkv) as H. apply andb_true_iff in H as [_ H].
      rewrite forallb_forall in Hnan. pose proof (Hnan kv Hkv) as Hn. apply negb_true_iff in Hn.
      apply (map_value_flip vt pv' (snd kv) H (HG kv Hkv) (HE kv Hkv) (HS kv Hkv) Hn).
  Qed.

  (* ---- one slot ---- *)
  Lemma norm_slot_msg_cases f sel o :
    norm_slot sc (norm_obj sc) f sel (PMsg o) = (if fopt f then PNone else PPlaceholder) \/
    norm_slot sc (norm_obj sc) f sel (PMsg o) = PMsg o \/
    norm_slot sc (norm_obj sc) f sel (PMsg o) = PMsg (norm_obj sc o).
  Proof.
    assert (Hw : forall w, norm_wrapped sc w (PMsg o) = PMsg o).
    { intros w. unfold norm_wrapped. destruct (wrapper_value_type w) as [vt|]; [|reflexivity].
      destruct vt; reflexivity. }
    unfold norm_slot. destruct sel as [[|]|]; auto.
    all: match goal with |- context [if ?b && negb ?c then _ else _] => destruct (b && negb c) end; auto.
    all: destruct (fwraps f) as [w|]; [rewrite Hw; auto | cbn [norm_elem]; auto].
  Qed.

  Lemma norm_slot_flip f sel x :
    subP SymOk x ->
    (forall d kt vt, x = PDict d -> fmap f = Some (kt, vt) ->
       dict_all sc d (map (fun kv => (fst kv, norm_map_value sc (norm_obj sc) vt (snd kv))) d) = true) ->
    pv_eq sc x (norm_slot sc (norm_obj sc) f sel x) = true ->
    pv_eq sc (norm_slot sc (norm_obj sc) f sel x) x = true.
  Proof.
    intros HS Hd H. destruct (atomic x) eqn:Ha.
    { rewrite <- (pv_eq_sym_l sc x _ Ha). exact H. }
    assert (Hfresh : forall v, pv_eq sc v (if fopt f then PNone else PPlaceholder) = true ->
                               pv_eq sc (if fopt f then PNone else PPlaceholder) v = true).
    { intros v H0. rewrite <- (pv_eq_sym_r sc v _ (fresh_atomic f)). exact H0. }
    destruct x as [| |z|b|bits|s|b|us|us|l|d|o]; try discriminate Ha.
    - unfold norm_slot in H |- *. cbn [subP] in HS.
      destruct sel as [[|]|]; destruct l as [|y l']; try (apply Hfresh; exact H).
      all: rewrite pv_eq_list in H |- *; apply list_flip; assumption.
    - unfold norm_slot in H |- *.
      destruct sel as [[|]|]; destruct d as [|kv d']; try (apply Hfresh; exact H).
      all: destruct (fmap f) as [[kt vt]|] eqn:Hm; [|exact H].
      all: rewrite pv_eq_dict, map_length, Nat.eqb_refl; cbn [andb]; apply (Hd _ kt vt eq_refl eq_refl).
    - destruct (norm_slot_msg_cases f sel o) as [E | [E | E]]; rewrite E in H |- *.
      + apply Hfresh. exact H.
      + exact H.
      + rewrite pv_eq_msg. exact HS.
  Qed.

  Lemma sym_slots_norm c cur : forall raw fs i,
    forallb (wf_field sc (cngroups (get_class sc c))) fs = true ->
    slots_in_range sc raw fs = true ->
    forallb (fun x => match x with PDict d => keys_nodup sc d | _ => true end) raw = true ->
    forallb (fun x => match x with
                      | PList l => forallb (fun y => negb (pv_is_nan y)) l
                      | PDict d => forallb (fun kv => negb (pv_is_nan (snd kv))) d
                      | _ => true
                      end) raw = true ->
    Forall (subP (Good sc)) raw -> Forall (subP (EqOk sc)) raw -> Forall (subP SymOk) raw ->
    eq_slots sc raw (norm_slots sc cur i raw fs) fs = true ->
    eq_slots sc (norm_slots sc cur i raw fs) raw fs = true.
  Proof.
    induction raw as [|x raw IH]; intros [|f fs] i Hwf Hr Hk Hn HG HE HS H; try reflexivity.
    cbn [forallb] in Hwf, Hk, Hn. apply andb_true_iff in Hwf as [Hw1 Hw2].
    apply andb_true_iff in Hk as [Hk1 Hk2]. apply andb_true_iff in Hn as [Hn1 Hn2].
    cbn [slots_in_range] in Hr. apply andb_true_iff in Hr as [Hr1 Hr2].
    inversion HG as [|? ? G1 G2]; subst. inversion HE as [|? ? E1 E2]; subst. inversion HS as [|? ? S1 S2]; subst.
    rewrite norm_slots_cons in H |- *. cbn [eq_slots] in H |- *. apply andb_true_iff in H as [H1 H2].
    rewrite (IH fs (S i)) by assumption. rewrite andb_true_r.
    apply slot_eq_flip; [|exact H1].
    apply norm_slot_flip; [exact S1|].
    intros d kt vt -> Hm. cbn [subP] in G1, E1, S1.
    apply (dict_flip_slot c f d Hw1 Hr1 Hk1 Hn1 G1 E1 S1 kt vt Hm).
  Qed.

  Lemma sym_step c raw sow unk cur :
    value_ok sc (Obj c raw sow unk cur) ->
    Forall (subP (fun o => value_ok sc o -> SymIf o)) raw ->
    SymIf (Obj c raw sow unk cur).
  Proof.
    intros Hv HP Hnan. pose proof (all_eq sc Hsc _ Hv Hnan) as Hfwd. pose proof Hv as (Hr & Hd).
    rewrite in_range_unfold in Hr. rewrite deep_msg in Hd. rewrite deep_msg in Hnan.
    apply andb_true_iff in Hr as [Hr Hsl].
    apply andb_true_iff in Hd as [Hloc Hdl]. unfold local_ok in Hloc.
    apply andb_true_iff in Hloc as [Hloc Hku].
    apply andb_true_iff in Hnan as [Hnf Hnl].
    destruct (schema_class_facts sc c Hsc) as (Hwf & _ & _).
    unfold SymOk. rewrite norm_obj_unfold, obj_eq_unfold in Hfwd |- *. rewrite Nat.eqb_refl in Hfwd |- *.
    cbn [andb] in Hfwd |- *.
    assert (HG : Forall (subP (Good sc)) raw).
    { apply (value_ok_slots sc (Good sc) c raw sow unk cur Hv).
      apply Forall_forall. intros x _. apply subP_forall. intros o Ho. apply (all_good sc Hsc o Ho). }
    assert (HE : Forall (subP (EqOk sc)) raw).
    { assert (H : Forall (subP (EqIf sc)) raw).
      { apply (value_ok_slots sc (EqIf sc) c raw sow unk cur Hv).
        apply Forall_forall. intros x _. apply subP_forall. intros o Ho. exact (all_eq sc Hsc o Ho). }
      apply Forall_forall. intros x Hx. apply In_nth_error in Hx as (k & Hk).
      apply sub_eq_lift; [eapply deep_list_nth; eauto | eapply Forall_nth_error; eauto]. }
    assert (HS : Forall (subP SymOk) raw).
    { pose proof (value_ok_slots sc SymIf c raw sow unk cur Hv HP) as H.
      apply Forall_forall. intros x Hx. apply In_nth_error in Hx as (k & Hk).
      apply sub_nan_lift; [eapply deep_list_nth; eauto | eapply Forall_nth_error; eauto]. }
    apply (sym_slots_norm c cur raw _ 0 Hwf Hsl); auto.
  Qed.

  Theorem all_sym : forall o, value_ok sc o -> deep nan_free (PMsg o) = true -> obj_eq sc (norm_obj sc o) o = true.
  Proof.
    apply (obj_nested_ind (fun o => value_ok sc o -> SymIf o)).
    intros c raw s u g HP Hv. apply sym_step; assumption.
  Qed.
End SymProof.

Lemma c01_decoded_equal_sym sc m :
  c01_schema_ok sc = true -> c01_value_ok sc m = true -> deep nan_free (PMsg m) = true ->
  obj_eq sc (norm_obj sc m) m = true.
Proof. intros Hs Hv Hn. apply c01_value_ok_spec in Hv. exact (all_sym sc Hs m Hv Hn). Qed.
