(* C04 (include_default_values generic, wfx schemas), object level (B), part 5: the head of each loop: one attribute of
   the rebuilt object against the same attribute of the original, for the encoder and for ==.  Mirrors C04RtP3. *)
From BP Require Import Base.Prelude Model.Types Model.Varint Model.Scalar Model.Float Model.Utf8 Model.Object Model.Eq Model.TimeCore.
From BP Require Import Model.Encode Model.WellFormed Model.Json Model.C04RepWrap.
From BP Require Import gen.Tables Proofs.BytesP Proofs.C04Def Proofs.C04ScalarP Proofs.C04ElemP Proofs.C04FieldP Proofs.C04ObjP
  Proofs.C04CurP Proofs.C04EncP Proofs.C04RtP Proofs.C04RtP2 Proofs.C04RtP3 Proofs.C04InclDef Proofs.C04InclBaseP Proofs.C04InclFieldP
  Proofs.C04InclObjP Proofs.C04InclCurP Proofs.C04InclEncP Proofs.C04InclRtP Proofs.C04InclRtP2.
From Coq Require Import Lia ZifyBool.

Lemma none_needs_optionalx sc f : value_okx sc f PNone = true -> exists p, fhint f = HOptional p.
Proof. unfold value_okx. destruct (fhint f); try discriminate. eauto. Qed.

Lemma default_not_none_fopt sc ng f : wfx_field sc ng f = true -> default_of sc f <> PNone -> fopt f = false.
Proof.
  intros W D. destruct (fopt f) eqn:O; [|reflexivity]. destruct (wfx_opt_optional sc ng f W O) as [p Hp].
  exfalso. apply D. unfold default_of. rewrite Hp. reflexivity.
Qed.

Definition sel_okG (f : fdesc) (sel : option bool) (x : pv) : Prop :=
  (fgroup f = None -> sel = None) /\ (forall g, fgroup f = Some g -> exists s, sel = Some s) /\
  (forall s, sel = Some s -> s = match x with PPlaceholder => false | _ => true end).

Section Heads.
  Variable sc : schema.
  Variable incl : bool.
  Variable n : nat.
  Hypothesis WS : wfx_schema sc = true.
  Hypothesis IHo : forall o', (pv_size (PMsg o') < n)%nat -> in_rangex sc o' = true -> pv_goodG incl sc (PMsg o') = true -> rt_okG incl sc o'.

  Let nc := length (classes sc).
  Let ne := length (enums sc).

  Lemma gfield_emitted f x : x <> PPlaceholder -> x <> PNone -> emittedG sc incl f None x = true ->
    gfield sc incl None f x = Some (gnorm_pv incl sc x).
  Proof.
    intros Hx Hn He. rewrite (gfield_value sc incl None f x ltac:(discriminate) Hx). rewrite He. destruct x; try congruence; reflexivity.
  Qed.
  Lemma gfield_not_emitted f x : x <> PPlaceholder -> emittedG sc incl f None x = false -> gfield sc incl None f x = None.
  Proof. intros Hx He. rewrite (gfield_value sc incl None f x ltac:(discriminate) Hx). rewrite He. reflexivity. Qed.

  Lemma head_encG ng f sel x :
    wfx_field sc ng f = true -> sel_okG f sel x -> (pv_size x < n)%nat ->
    value_okx sc f x = true -> pv_goodG incl sc x = true -> lazy_cond sc sel f x = true ->
    (incl = true -> present_cond sel f x = true) -> pv_presG incl sc x = true ->
    enc_head_sel sc sel f (or_sentinel f (gfield sc incl sel f x)) = enc_head_sel sc sel f x.
  Proof.
    intros W [Hs1 [Hs2 Hs3]] Hs Hv Hg Hl Hpr Hdp.
    destruct sel as [[|]|].
    - (* the selected member of a oneof *)
      pose proof (Hs3 true eq_refl) as Hx.
      assert (Hxp : x <> PPlaceholder) by (intros ->; discriminate Hx).
      destruct (fgroup f) as [g|] eqn:G; [|specialize (Hs1 eq_refl); discriminate Hs1].
      destruct (selected_emittedG sc ng incl f g x W G Hxp Hv) as [He Hxn].
      rewrite (gfield_selected sc ng incl f g x W G Hxp Hv). cbn [or_sentinel].
      rewrite (enc_head_value sc (Some true) f (gnorm_pv incl sc x))
        by (first [discriminate | apply gnorm_not_ph; assumption | apply gnorm_not_none; assumption]).
      rewrite (enc_head_value sc (Some true) f x) by (first [discriminate | assumption]).
      apply (emit_gnorm sc incl n IHo ng); try assumption. intros E. rewrite E in G. discriminate G.
    - reflexivity.
    - assert (Gn : fgroup f = None).
      { destruct (fgroup f) as [g|] eqn:G; [|reflexivity]. destruct (Hs2 g eq_refl) as [s E]. discriminate E. }
      destruct (pv_eq_dec_ph x) as [->|Hxp].
      + (* PLACEHOLDER *)
        destruct (gfield sc incl None f PPlaceholder) as [v|] eqn:Gf; cbn [or_sentinel].
        * destruct (gfield_some _ _ _ _ _ _ Gf) as [_ [_ [[_ [Ev [_ [Vn [Vp M]]]]]|[[_ [Ei [o [Ed _]]]]|[C _]]]]]; [| |congruence].
          2:{ (* a fresh sub-message would be read back as present: excluded by all_present *)
              exfalso. specialize (Hpr Ei). unfold present_cond in Hpr.
              destruct (default_cases sc f) as [Dn|[[c' [Hh Dm]]|S]]; [congruence| |rewrite Ed in S; discriminate S].
              rewrite Hh in Hpr. discriminate Hpr. }
          assert (O : fopt f = false) by (apply (default_not_none_fopt sc ng f W); rewrite <- Ev; exact Vn).
          rewrite (enc_head_value sc None f v) by (first [discriminate | assumption]).
          unfold enc_head_sel. rewrite (default_emission_emptyG sc ng f WS W Gn O).
          rewrite Ev. exact (proj2 (default_emit_empty (enc_obj sc) sc ng f WS W Gn O)).
        * unfold sentinel. destruct (fopt f) eqn:O; [|reflexivity].
          destruct (wfx_opt_optional sc ng f W O) as [p Hp]. unfold enc_head_sel, default_of. rewrite Hp. reflexivity.
      + destruct (pv_none_dec x) as [->|Hxn].
        * (* None *)
          rewrite gfield_none. cbn [or_sentinel].
          destruct (none_needs_optionalx sc f Hv) as [p Hp].
          unfold sentinel. destruct (fopt f); [reflexivity|]. unfold enc_head_sel, default_of. rewrite Hp. reflexivity.
        * destruct (emittedG sc incl f None x) eqn:He.
          -- rewrite (gfield_emitted f x Hxp Hxn He). cbn [or_sentinel].
             rewrite (enc_head_value sc None f (gnorm_pv incl sc x))
               by (first [discriminate | apply gnorm_not_ph; assumption | apply gnorm_not_none; assumption]).
             rewrite (enc_head_value sc None f x) by (first [discriminate | assumption]).
             apply (emit_gnorm sc incl n IHo ng); assumption.
          -- rewrite (gfield_not_emitted f x Hxp He). cbn [or_sentinel].
             destruct incl; [rewrite emittedG_true in He; discriminate He|].
             destruct (not_emitted_factsG sc ng f None x W Hs1 Hs2 ltac:(discriminate) Hxp Hxn Hv Hl He) as [D [O [_ [_ Sw]]]].
             unfold sentinel. rewrite O.
             rewrite (enc_head_value sc None f x) by (first [discriminate | assumption]).
             unfold enc_head_sel. rewrite (default_emission_emptyG sc ng f WS W Gn O).
             unfold emit_field. rewrite D, Gn, O. cbn [is_some orb].
             replace (match x with PMsg o => osow o | _ => false end) with false by (destruct x; try reflexivity; symmetry; exact Sw).
             reflexivity.
  Qed.

  Lemma value_gnorm_eq ng f x :
    wfx_field sc ng f = true -> (pv_size x < n)%nat -> x <> PPlaceholder -> x <> PNone ->
    value_okx sc f x = true -> pv_goodG incl sc x = true -> field_nan_ok x = true -> dict_cond sc x = true ->
    pv_eq sc (gnorm_pv incl sc x) x || (pv_is_nan (gnorm_pv incl sc x) && pv_is_nan x) = true.
  Proof.
    intros W Hs Hx Hxn Hv Hg Hn Hd.
    assert (Single : forall t p, pyty_fits nc ne t p = true -> elem_in_rangex sc t p x = true ->
                       pv_eq sc (gnorm_pv incl sc x) x || (pv_is_nan (gnorm_pv incl sc x) && pv_is_nan x) = true).
    { intros t p Hp Hr. destruct (not_nan x) eqn:N.
      - rewrite (elem_gnorm_eq sc incl n IHo t p x Hs Hp Hr Hg N). reflexivity.
      - destruct x; try discriminate N. cbn [gnorm_pv pv_is_nan]. cbn in N. apply negb_false_iff in N. rewrite N. apply orb_true_r. }
    unfold value_okx in Hv. unfold elem_ptype in Hv.
    destruct (wfx_kind sc ng f W) as [p Hh Ho Hw Hm Hp|p w Hh Hw Ho Hm Hgr Ht Hws Sp Hp|p Hh Hw Ho Hm Hgr Hp|p Hh Hw Ho Hm Hgr Hp
                                     |pk p kt vt Hh Hw Ho Hm Hgr Ht Hk Hp|p w Hh Hw Ho Hm Hgr Ht Hws Sp Hp];
      fold nc ne in Hp; rewrite ?Hh, ?Hw, ?Hm in Hv.
    - apply (Single (fty f) p Hp). destruct x; try congruence; exact Hv.
    - apply (Single w p Hp). destruct x; try congruence; exact Hv.
    - apply (Single (fty f) p Hp). destruct x; try congruence; exact Hv.
    - destruct x as [| | | | | | | | |l| |]; try discriminate Hv; try congruence.
      rewrite forallb_forall in Hv.
      unfold pv_goodG in Hg. cbn [pv_all] in Hg. rewrite forallb_forall in Hg.
      cbn [field_nan_ok] in Hn. rewrite forallb_forall in Hn.
      cbn [gnorm_pv].
      assert (Sz : forall y, In y l -> (pv_size y < n)%nat)
        by (intros y Hy; rewrite size_list in Hs; pose proof (in_sum_size y l Hy); lia).
      rewrite (list_gnorm_eq sc incl n IHo (fty f) p l Sz Hp Hv Hg Hn). reflexivity.
    - destruct x as [| | | | | | | | | |d|]; try discriminate Hv; try congruence.
      rewrite forallb_forall in Hv.
      unfold pv_goodG in Hg. cbn [pv_all] in Hg. rewrite forallb_forall in Hg.
      cbn [field_nan_ok] in Hn. rewrite forallb_forall in Hn.
      cbn [gnorm_pv]. cbn [dict_cond] in Hd. rewrite (dict_gnorm_eq sc incl n IHo kt vt p d Hk Hp Hd); [reflexivity|].
      intros k y Hy. specialize (Hv _ Hy). cbn [fst snd] in Hv. apply andb_prop in Hv as [Hk' Hy'].
      split; [rewrite size_dict in Hs; pose proof (in_sum_size_d k y d Hy); lia|].
      split; [exact Hk'|]. split; [exact Hy'|]. split; [exact (Hg _ Hy)|exact (Hn _ Hy)].
    - destruct x as [| | | | | | | | |l| |]; try discriminate Hv; try congruence.
      rewrite forallb_forall in Hv.
      unfold pv_goodG in Hg. cbn [pv_all] in Hg. rewrite forallb_forall in Hg.
      cbn [field_nan_ok] in Hn. rewrite forallb_forall in Hn.
      cbn [gnorm_pv].
      assert (Sz : forall y, In y l -> (pv_size y < n)%nat)
        by (intros y Hy; rewrite size_list in Hs; pose proof (in_sum_size y l Hy); lia).
      rewrite (list_gnorm_eq sc incl n IHo w p l Sz Hp Hv Hg Hn). reflexivity.
  Qed.

  Lemma head_eqG ng f sel x :
    wfx_field sc ng f = true -> sel_okG f sel x -> (pv_size x < n)%nat ->
    value_okx sc f x = true -> pv_goodG incl sc x = true -> lazy_cond sc sel f x = true ->
    field_nan_ok x = true -> dict_cond sc x = true ->
    eq_head sc f (or_sentinel f (gfield sc incl sel f x)) x = true.
  Proof.
    intros W [Hs1 [Hs2 Hs3]] Hs Hv Hg Hl Hn Hd.
    destruct (pv_eq_dec_ph x) as [->|Hxp].
    - (* PLACEHOLDER on the right *)
      destruct (gfield sc incl sel f PPlaceholder) as [v|] eqn:Gf; cbn [or_sentinel].
      + destruct (gfield_some _ _ _ _ _ _ Gf) as [_ [_ [[_ [Ev [_ [Vn [Vp M]]]]]|[[_ [Ei [o [Ed ->]]]]|[C _]]]]]; [| |congruence].
        * unfold eq_head.
          pose proof (is_default_defaultG sc ng f WS W) as D.
          destruct v; try congruence; rewrite Ev; exact D.
        * (* the listed default of an unset plain sub-message comes back as a message that is == Cls() *)
          unfold eq_head.
          destruct (default_cases sc f) as [Dn|[[c' [Hh Dm]]|S]]; [congruence| |rewrite Ed in S; discriminate S].
          rewrite Dm in Ed. inversion Ed; subst o. cbn [ocls new]. exact (dnorm_is_default sc WS default_fuel c' f Hh).
      + unfold sentinel. destruct (fopt f) eqn:O; [|reflexivity].
        destruct (wfx_opt_optional sc ng f W O) as [p Hp]. unfold eq_head. cbn [is_default]. rewrite Hp. reflexivity.
    - assert (Hsel : sel <> Some false) by (intros ->; specialize (Hs3 false eq_refl); destruct x; congruence).
      destruct (pv_none_dec x) as [->|Hxn].
      + rewrite gfield_none. cbn [or_sentinel].
        destruct (none_needs_optionalx sc f Hv) as [p Hp]. unfold sentinel.
        destruct (fopt f); [reflexivity|]. unfold eq_head. cbn [is_default]. rewrite Hp. reflexivity.
      + rewrite (gfield_value sc incl sel f x Hsel Hxp).
        destruct (emittedG sc incl f sel x) eqn:He.
        * assert (K : (match x with PNone => None | _ => Some (gnorm_pv incl sc x) end) = Some (gnorm_pv incl sc x))
            by (destruct x; try congruence; reflexivity).
          rewrite K. cbn [or_sentinel].
          pose proof (value_gnorm_eq ng f x W Hs Hxp Hxn Hv Hg Hn Hd) as V.
          pose proof (gnorm_not_ph incl sc x Hxp) as N1.
          unfold eq_head. destruct (gnorm_pv incl sc x) eqn:En; try congruence; destruct x; try congruence; exact V.
        * cbn [or_sentinel].
          destruct incl; [rewrite emittedG_true in He; discriminate He|].
          destruct (not_emitted_factsG sc ng f sel x W Hs1 Hs2 Hsel Hxp Hxn Hv Hl He) as [D [O _]].
          unfold sentinel. rewrite O. unfold eq_head. destruct x; try congruence; exact D.
  Qed.
End Heads.
