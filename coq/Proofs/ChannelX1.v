(* C12 extension (1) — capacity: the queue never holds more entries (items AND flush sentinels) than
   asyncio.Queue(maxsize) allows; what close() / _flush_queue do on a full queue. *)
From BP Require Import Base.Prelude Model.Channel Model.C12X.
From BP Require Import Proofs.ChannelP1 Proofs.ChannelP2 Proofs.ChannelP3 Proofs.ChannelP7.
From Coq Require Import Arith Lia.
Local Open Scope nat_scope.

Definition cap_inv (s : state) : Prop := maxsize s = 0 \/ length (q s) <= maxsize s.

Lemma cap_step : forall s t s', step s t = Some s' -> cap_inv s -> cap_inv s'.
Proof.
  intros s t s' H I. step_inv H; simp_proj; unfold cap_inv in *; simp_proj; try exact I.
  all: norm_tests.
  all: repeat match goal with E : q _ = _ |- _ => rewrite E in *; clear E end.
  all: rewrite ?app_length; cbn [length] in *; lia.
Qed.

Lemma reach_cap : forall c s, Reach c s -> cap_inv s.
Proof.
  induction 1 as [|s t s' R IH Hs]; [right; cbn; lia|]. eapply cap_step; eauto.
Qed.

(* bounded buffer: never more than n entries; the boolean form covers n = 0 (no bound) *)
Theorem capacity : forall c s, Reach c s ->
  (c_maxsize c > 0 -> length (q s) <= c_maxsize c) /\ within_capacity s = true.
Proof.
  intros c s R. pose proof (reach_cap c s R) as I. pose proof (reach_maxsize c s R) as M.
  unfold cap_inv in I. rewrite M in I. split; [lia|].
  unfold within_capacity. rewrite M. apply orb_true_iff.
  destruct I as [I|I]; [left; apply Nat.eqb_eq; exact I|right; apply Nat.leb_le; exact I].
Qed.

(* ---------------------------------------------------------------- unbounded buffer: there is no bound *)
Definition cfg_unb (n : nat) : config := mkC 0 false [([USendFrom n false], false)].

Lemma put_one_unb : forall s T n p, maxsize s = 0 -> nth_error (tasks s) 0 = Some T -> st T = Ready -> mc T = false ->
  prog T = repeat IPut (S n) ++ p -> getters s = [] ->
  exists s1 T1, step s 0 = Some s1 /\ maxsize s1 = 0 /\ nth_error (tasks s1) 0 = Some T1 /\ st T1 = Ready /\ mc T1 = false /\
                prog T1 = repeat IPut n ++ p /\ getters s1 = [] /\ length (q s1) = S (length (q s)).
Proof.
  intros s T n p M HT HS HM HP HG.
  assert (HF : full s = false) by (unfold full; rewrite M; reflexivity).
  eexists. eexists. split.
  - unfold step, step_b. rewrite HT, HS, HM. unfold step_ready. rewrite HP. cbn [repeat app].
    unfold do_put. rewrite HF. unfold put_nowait, wake_getters. simp_proj. rewrite HG. cbn [wakeup fst snd]. reflexivity.
  - simp_proj. rewrite (nth_upd_same _ _ _ _ HT). rewrite app_length. cbn [length st mc prog].
    repeat split; auto. lia.
Qed.

Lemma put_many_unb : forall c n s T p, Reach c s -> maxsize s = 0 -> nth_error (tasks s) 0 = Some T -> st T = Ready ->
  mc T = false -> prog T = repeat IPut n ++ p -> getters s = [] ->
  exists s', Reach c s' /\ length (q s') = n + length (q s).
Proof.
  induction n as [|n IH]; intros s T p R M HT HS HM HP HG.
  - exists s. split; auto.
  - destruct (put_one_unb s T n p M HT HS HM HP HG) as (s1 & T1 & E & M1 & HT1 & HS1 & HM1 & HP1 & HG1 & L1).
    destruct (IH s1 T1 p) as (s' & R' & L'); auto.
    + econstructor; eauto.
    + exists s'. split; auto. lia.
Qed.

(* buffer_limit 0 (or negative): every queue length is reached *)
Theorem capacity_unbounded : forall n, exists c s, c_maxsize c = 0 /\ Reach c s /\ length (q s) = n.
Proof.
  intros n. exists (cfg_unb n).
  assert (R1 : exists s1 T1, Reach (cfg_unb n) s1 /\ maxsize s1 = 0 /\ nth_error (tasks s1) 0 = Some T1 /\ st T1 = Ready /\
                             mc T1 = false /\ prog T1 = repeat IPut n ++ [] /\ getters s1 = [] /\ q s1 = []).
  { eexists. eexists. split.
    - eapply (R_step _ _ 0); [apply R_init|]. unfold step, step_b. cbn. reflexivity.
    - cbn. repeat split; reflexivity. }
  destruct R1 as (s1 & T1 & R & M & HT & HS & HM & HP & HG & HQ).
  destruct (put_many_unb _ n s1 T1 [] R M HT HS HM HP HG) as (s' & R' & L').
  exists s'. repeat split; auto. rewrite L', HQ. cbn. lia.
Qed.

(* ---------------------------------------------------------------- close() and _flush_queue on any state *)
(* close() is synchronous: it sets _closed and schedules _flush_queue as a new task.  It touches neither the queue nor the
   deques, never blocks and never raises (no put_nowait in it: nothing can report QueueFull), whatever the number of blocked
   receivers and however full the queue is.  The caller goes on with the rest of its program. *)
Theorem close_never_fails : forall s t T p, nth_error (tasks s) t = Some T -> st T = Ready -> mc T = false ->
  prog T = IClose :: p ->
  exists s', step s t = Some s' /\ closed s' = true /\ q s' = q s /\ getters s' = getters s /\ putters s' = putters s /\
             W s' = W s /\ unfin s' = unfin s /\ flushed s' = flushed s /\
             tasks s' = upd (tasks s) t (set_prog T p) ++ [flush_task] /\
             nth_error (tasks s') t = Some (set_prog T p) /\ outcome_of s' t = None.
Proof.
  intros s t T p HT HS HM HP. eexists. split.
  - unfold step, step_b. rewrite HT, HS, HM. unfold step_ready. rewrite HP. reflexivity.
  - simp_proj. repeat split; auto.
    + rewrite nth_error_app1; [eapply nth_upd_same; eauto|]. rewrite upd_length. apply nth_error_Some. congruence.
    + unfold outcome_of. simp_proj. rewrite nth_error_app1; [|rewrite upd_length; apply nth_error_Some; congruence].
      rewrite (nth_upd_same _ _ _ _ HT). cbn [st set_prog]. rewrite HS. reflexivity.
Qed.

(* the body of _flush_queue up to its first put: never fails; the first call sets _flushed and commits to
   max(0, W - qsize) sentinels, later calls do nothing *)
Theorem flush_body : forall s t T p, nth_error (tasks s) t = Some T -> st T = Ready -> mc T = false ->
  prog T = IFlush :: p ->
  exists s' T', step s t = Some s' /\ flushed s' = true /\ q s' = q s /\ W s' = W s /\ nth_error (tasks s') t = Some T' /\
                st T' = Ready /\
                prog T' = (if flushed s then [] else repeat IPutFlush (W s - length (q s))) ++ p.
Proof.
  intros s t T p HT HS HM HP. unfold step, step_b. rewrite HT, HS, HM. unfold step_ready. rewrite HP.
  destruct (flushed s) eqn:EF; eexists; eexists; (split; [reflexivity|]); simp_proj;
    rewrite (nth_upd_same _ _ _ _ HT); cbn [st prog set_prog app]; repeat split; auto.
Qed.

(* `await self._queue.put(self.__flush)` (first entry, or resumed after a wake-up):
   queue full  -> the task parks in _putters (BlkPut), the queue is untouched: the sentinel is NOT forced in;
   otherwise   -> the sentinel goes to the back of the queue *)
Theorem flush_put : forall s t T p, nth_error (tasks s) t = Some T -> (st T = Ready \/ st T = WokePut) -> mc T = false ->
  prog T = IPutFlush :: p ->
  exists s' T', step s t = Some s' /\ nth_error (tasks s') t = Some T' /\
    if full s then q s' = q s /\ st T' = BlkPut /\ prog T' = IPutFlush :: p /\ putters s' = putters s ++ [t]
    else q s' = q s ++ [Flush] /\ st T' = Ready /\ prog T' = p /\ sent s' = sent s.
Proof.
  intros s t T p HT HS HM HP. unfold step, step_b. rewrite HT.
  assert (E : (match st T with Ready => if mc T then None else Some (do_put s t T Flush IPutFlush p) | _ => None end) =
              Some (do_put s t T Flush IPutFlush p) -> True) by auto. clear E.
  destruct HS as [HS|HS]; rewrite HS, ?HM; unfold step_ready; rewrite HP, ?HM; unfold do_put;
    destruct (full s) eqn:EF; eexists; eexists; (split; [reflexivity|]); simp_proj.
  all: try (rewrite (nth_upd_same _ _ _ _ HT); cbn [st prog]; auto).
  all: match goal with |- context [wakeup ?b ?w ?l ?ts] =>
         destruct (wakeup_effect b w l ts eq_refl) as [[-> _]|(u0 & U & HU0 & HUs & _ & ->)] end.
  all: try (rewrite (nth_upd_same _ _ _ _ HT); cbn [st prog]; auto).
  all: assert (HT' : nth_error (upd (tasks s) u0 (set_st U WokeGet)) t = Some T)
         by (rewrite nth_upd_other; [exact HT|intros ->; rewrite HU0 in HT; injection HT as ->; congruence]);
       rewrite (nth_upd_same _ _ _ _ HT'); cbn [st prog]; auto.
Qed.
