(* C04, object level (B), part 1: the _group_current that __post_init__ derives for the rebuilt
   message selects exactly the members the original selects. *)
From BP Require Import Base.Prelude Model.Types Model.Float Model.Utf8 Model.Object Model.Eq Model.TimeCore.
From BP Require Import Model.Encode Model.WellFormed Model.Json.
From BP Require Import gen.Tables Proofs.BytesP Proofs.C04Def Proofs.C04ScalarP Proofs.C04ElemP Proofs.C04FieldP Proofs.C04ObjP.
From Coq Require Import Lia ZifyBool.

(* ---- the two loops of post_init, named ---- *)
Fixpoint cur_loop (j : nat) (fs : list fdesc) (raw : list pv) (cur : list (option nat)) {struct fs} : list (option nat) :=
  match fs, raw with
  | f :: fs', v :: raw' =>
      let cur' := match fgroup f with
                  | Some g => if is_sentinel f v then cur else set_nth g (Some j) cur
                  | None => cur
                  end in
      cur_loop (S j) fs' raw' cur'
  | _, _ => cur
  end.
Fixpoint sent_loop (fs : list fdesc) (raw : list pv) {struct fs} : bool :=
  match fs, raw with
  | f :: fs', v :: raw' => is_sentinel f v && sent_loop fs' raw'
  | _, _ => true
  end.

Lemma post_init_unfold sc c raw :
  post_init sc c raw =
  Obj c raw (negb (sent_loop (cfields (get_class sc c)) raw)) []
      (cur_loop O (cfields (get_class sc c)) raw (repeat None (cngroups (get_class sc c)))).
Proof. reflexivity. Qed.

(* ---- set_nth ---- *)
Lemma set_nth_length {A} i (x : A) l : length (set_nth i x l) = length l.
Proof. revert i; induction l as [|y l IH]; intros i; [destruct i; reflexivity|]. destruct i; cbn [set_nth length]; [reflexivity|]. rewrite IH. reflexivity. Qed.
Lemma nth_set_nth_eq {A} i (x d : A) l : (i < length l)%nat -> nth i (set_nth i x l) d = x.
Proof. revert i; induction l as [|y l IH]; intros i H; [cbn in H; lia|]. destruct i; cbn [set_nth nth]; [reflexivity|]. apply IH. cbn in H. lia. Qed.
Lemma nth_set_nth_neq {A} i j (x d : A) l : i <> j -> nth i (set_nth j x l) d = nth i l d.
Proof.
  revert i j; induction l as [|y l IH]; intros i j H; [destruct j; reflexivity|].
  destruct j, i; cbn [set_nth nth]; try reflexivity; try congruence. apply IH. congruence.
Qed.

Lemma cur_loop_length fs : forall j raw cur, length (cur_loop j fs raw cur) = length cur.
Proof.
  induction fs as [|f fs IH]; intros j raw cur; [reflexivity|]. destruct raw as [|v raw]; [reflexivity|].
  cbn [cur_loop]. rewrite IH. destruct (fgroup f); [|reflexivity]. destruct (is_sentinel f v); [reflexivity|apply set_nth_length].
Qed.

Definition assigns (fs : list fdesc) (raw : list pv) (g k : nat) : Prop :=
  exists f v, nth_error fs k = Some f /\ nth_error raw k = Some v /\ fgroup f = Some g /\ is_sentinel f v = false.

(* whatever the loop leaves in slot g is the initial content or the index of an assigning field *)
Lemma cur_loop_char fs : forall j raw cur g,
  nth g (cur_loop j fs raw cur) None = nth g cur None \/
  exists k, assigns fs raw g k /\ nth g (cur_loop j fs raw cur) None = Some (j + k)%nat.
Proof.
  induction fs as [|f fs IH]; intros j raw cur g; [left; reflexivity|]. destruct raw as [|v raw]; [left; reflexivity|].
  cbn [cur_loop].
  set (cur' := match fgroup f with Some g0 => if is_sentinel f v then cur else set_nth g0 (Some j) cur | None => cur end).
  destruct (IH (S j) raw cur' g) as [E|[k [[f' [v' [A1 [A2 [A3 A4]]]]] E]]].
  - rewrite E. unfold cur'. destruct (fgroup f) as [g0|] eqn:Gf; [|left; reflexivity].
    destruct (is_sentinel f v) eqn:Sv; [left; reflexivity|].
    destruct (Nat.eq_dec g g0) as [->|N].
    + destruct (lt_dec g0 (length cur)) as [L|L].
      * right. exists O. split; [exists f, v; repeat split; assumption|]. rewrite nth_set_nth_eq by exact L. f_equal. lia.
      * left. rewrite !nth_overflow; [reflexivity|lia|rewrite set_nth_length; lia].
    + left. apply nth_set_nth_neq. exact N.
  - right. exists (S k). split; [exists f', v'; repeat split; assumption|]. rewrite E. f_equal. lia.
Qed.

(* if some field assigns g (and the slot exists), the slot ends up holding the index of an assigning field *)
Lemma cur_loop_assigned fs : forall j raw cur g k0,
  (g < length cur)%nat -> assigns fs raw g k0 ->
  exists k, assigns fs raw g k /\ nth g (cur_loop j fs raw cur) None = Some (j + k)%nat.
Proof.
  induction fs as [|f fs IH]; intros j raw cur g k0 L [f0 [v0 [A1 [A2 [A3 A4]]]]]; [destruct k0; discriminate A1|].
  destruct raw as [|v raw]; [destruct k0; discriminate A2|].
  cbn [cur_loop].
  set (cur' := match fgroup f with Some g0 => if is_sentinel f v then cur else set_nth g0 (Some j) cur | None => cur end).
  assert (L' : (g < length cur')%nat).
  { unfold cur'. destruct (fgroup f); [|exact L]. destruct (is_sentinel f v); [exact L|rewrite set_nth_length; exact L]. }
  destruct k0 as [|k0].
  - cbn in A1, A2. inversion A1; inversion A2; subst f0 v0.
    destruct (cur_loop_char fs (S j) raw cur' g) as [E|[k [[f' [v' [B1 [B2 [B3 B4]]]]] E]]].
    + exists O. split; [exists f, v; repeat split; assumption|]. rewrite E. unfold cur'. rewrite A3, A4.
      rewrite nth_set_nth_eq by exact L. f_equal. lia.
    + exists (S k). split; [exists f', v'; repeat split; assumption|]. rewrite E. f_equal. lia.
  - destruct (IH (S j) raw cur' g k0 L') as [k [[f' [v' [B1 [B2 [B3 B4]]]]] E]].
    { exists f0, v0. repeat split; assumption. }
    exists (S k). split; [exists f', v'; repeat split; assumption|]. rewrite E. f_equal. lia.
Qed.

Lemma nth_repeat_none g n : nth g (repeat (@None nat) n) None = None.
Proof. revert g; induction n as [|n IH]; intros g; destruct g; cbn; auto. Qed.

(* ---- the rebuilt raw attributes, position by position ---- *)
Definition norm_field (sc : schema) (cur : list (option nat)) (i : nat) (f : fdesc) (x : pv) : pv :=
  match group_selects cur f i with
  | Some false => sentinel f
  | sel =>
      match x with
      | PPlaceholder => sentinel f
      | _ => if emitted sc f sel x then norm_pv sc x else sentinel f
      end
  end.

Lemma norm_raw_cons sc cur i x raw f fs :
  norm_raw sc cur i (x :: raw) (f :: fs) = norm_field sc cur i f x :: norm_raw sc cur (S i) raw fs.
Proof. reflexivity. Qed.

Lemma nth_norm_raw sc cur : forall raw fs i k x f,
  nth_error raw k = Some x -> nth_error fs k = Some f ->
  nth_error (norm_raw sc cur i raw fs) k = Some (norm_field sc cur (i + k) f x).
Proof.
  induction raw as [|y raw IH]; intros fs i k x f Hx Hf; [destruct k; discriminate Hx|].
  destruct fs as [|g fs]; [destruct k; discriminate Hf|]. rewrite norm_raw_cons.
  destruct k as [|k]; cbn [nth_error] in *.
  - inversion Hx; inversion Hf; subst. rewrite Nat.add_0_r. reflexivity.
  - rewrite (IH fs (S i) k x f Hx Hf). f_equal. f_equal. lia.
Qed.

Lemma norm_raw_length sc cur : forall raw fs i, length raw = length fs -> length (norm_raw sc cur i raw fs) = length fs.
Proof.
  induction raw as [|y raw IH]; intros fs i H; destruct fs as [|g fs]; try discriminate H; [reflexivity|].
  rewrite norm_raw_cons. cbn [length]. f_equal. apply IH. cbn in H. lia.
Qed.

Lemma oneof_at cur : forall raw fs i k x f,
  oneof_loop cur i raw fs = true -> nth_error raw k = Some x -> nth_error fs k = Some f ->
  match group_selects cur f (i + k) with
  | Some sel => sel = match x with PPlaceholder => false | _ => true end
  | None => True
  end.
Proof.
  induction raw as [|y raw IH]; intros fs i k x f H Hx Hf; [destruct k; discriminate Hx|].
  destruct fs as [|g fs]; [destruct k; discriminate Hf|]. cbn [oneof_loop] in H. apply andb_prop in H as [H1 H2].
  destruct k as [|k]; cbn [nth_error] in *.
  - inversion Hx; inversion Hf; subst. rewrite Nat.add_0_r. destruct (group_selects cur f i); [|exact I].
    apply eqb_prop in H1. exact H1.
  - replace (i + S k)%nat with (S i + k)%nat by lia. exact (IH fs (S i) k x f H2 Hx Hf).
Qed.

Lemma fields_ok_at sc : forall raw fs k x f,
  fields_ok sc raw fs = true -> nth_error raw k = Some x -> nth_error fs k = Some f -> value_ok sc f x = true.
Proof.
  induction raw as [|y raw IH]; intros fs k x f H Hx Hf; [destruct k; discriminate Hx|].
  destruct fs as [|g fs]; [destruct k; discriminate Hf|]. cbn [fields_ok] in H. apply andb_prop in H as [H1 H2].
  destruct k as [|k]; cbn [nth_error] in *.
  - inversion Hx; inversion Hf; subst. exact H1.
  - exact (IH fs k x f H2 Hx Hf).
Qed.

Lemma forallb_at {A} (p : A -> bool) l k x : forallb p l = true -> nth_error l k = Some x -> p x = true.
Proof. intros H Hx. rewrite forallb_forall in H. apply H. exact (nth_error_In _ _ Hx). Qed.

(* a oneof member: plain, never optional *)
Lemma group_field_plain sc ng f g : wf_field sc ng f = true -> fgroup f = Some g ->
  (g < ng)%nat /\ fopt f = false /\ exists p, fhint f = HPlain p.
Proof.
  intros W G. unfold wf_field in W. rewrite G in W.
  apply andb_prop in W as [W Wh]. apply andb_prop in W as [_ Wg]. apply Nat.ltb_lt in Wg. split; [exact Wg|].
  destruct (fhint f) as [p|p|p|pk p].
  - apply andb_true5 in Wh as [Wop _]. apply negb_true in Wop. split; [exact Wop|]. exists p. reflexivity.
  - apply andb_prop in Wh as [Wh _]. apply andb_prop in Wh as [_ Wh]. discriminate Wh.
  - apply andb_prop in Wh as [Wh _]. apply andb_prop in Wh as [Wh _]. apply andb_prop in Wh as [_ Wh]. discriminate Wh.
  - apply andb_prop in Wh as [Wh _]. apply andb_prop in Wh as [Wh _]. apply andb_prop in Wh as [Wh _].
    apply andb_prop in Wh as [_ Wh]. discriminate Wh.
Qed.

Lemma selected_emitted sc ng f g x :
  wf_field sc ng f = true -> fgroup f = Some g -> x <> PPlaceholder -> value_ok sc f x = true ->
  emitted sc f (Some true) x = true.
Proof.
  intros W G Hx Hv. destruct (group_field_plain sc ng f g W G) as [_ [Hop [p Hp]]].
  unfold emitted, field_to_json, emit. unfold value_ok in Hv. rewrite Hp in *. rewrite Hop.
  assert (W' := W). unfold wf_field in W'. rewrite Hp in W'. apply andb_prop in W' as [_ Wh].
  apply andb_true5 in Wh as [_ [Wwr [_ [_ _]]]]. apply is_some'_false in Wwr. rewrite Wwr.
  cbn [orb].
  destruct (ptype_eqb (fty f) TMessage).
  { destruct x; try congruence; try discriminate Hv; rewrite ?orb_true_r; cbn [orb]; reflexivity. }
  destruct (ptype_eqb (fty f) TMap).
  { destruct x, (fmap f) as [[? ?]|]; reflexivity. }
  rewrite orb_true_r. destruct x; reflexivity.
Qed.

Lemma norm_not_ph sc x : x <> PPlaceholder -> norm_pv sc x <> PPlaceholder.
Proof. destruct x as [| | | | | | | | | | |[c r s u g]]; cbn [norm_pv]; congruence. Qed.

Lemma group_selects_some cur f i g : fgroup f = Some g ->
  group_selects cur f i = Some (opt_nat_eqb (nth g cur None) (Some i)).
Proof. intros G. unfold group_selects. rewrite G. reflexivity. Qed.

Lemma opt_nat_eqb_true a b0 : opt_nat_eqb a b0 = true -> a = b0.
Proof. destruct a, b0; cbn; intros H; try discriminate; [apply Nat.eqb_eq in H; subst|]; reflexivity. Qed.

(* an assigning position of the rebuilt attributes is a selected member of the original *)
Lemma norm_assigner_selected sc cur ng raw fs g k :
  forallb (wf_field sc ng) fs = true -> length raw = length fs ->
  assigns fs (norm_raw sc cur O raw fs) g k -> nth g cur None = Some k.
Proof.
  intros W Hl [f [v [A1 [A2 [A3 A4]]]]].
  assert (exists x, nth_error raw k = Some x) as [x Hx].
  { destruct (nth_error raw k) eqn:E; [eauto|]. apply nth_error_None in E.
    assert (k < length fs)%nat by (apply nth_error_Some; congruence). lia. }
  rewrite (nth_norm_raw sc cur raw fs O k x f Hx A1) in A2. inversion A2; subst v; clear A2. cbn [Nat.add] in A4.
  pose proof (forallb_at _ _ _ _ W A1) as Wf.
  destruct (group_field_plain sc ng f g Wf A3) as [_ [Hop _]].
  unfold norm_field in A4. rewrite (group_selects_some cur f k g A3) in A4.
  destruct (opt_nat_eqb (nth g cur None) (Some k)) eqn:E.
  - apply opt_nat_eqb_true in E. exact E.
  - unfold sentinel, is_sentinel in A4. rewrite Hop in A4. discriminate A4.
Qed.

(* (G) the rebuilt object selects what the original selects *)
Lemma group_selects_norm sc c cur raw :
  let fs := cfields (get_class sc c) in
  let ng := cngroups (get_class sc c) in
  forallb (wf_field sc ng) fs = true -> length cur = ng -> length raw = length fs ->
  oneof_loop cur O raw fs = true -> fields_ok sc raw fs = true ->
  forall k f, nth_error fs k = Some f ->
    group_selects (cur_loop O fs (norm_raw sc cur O raw fs) (repeat None ng)) f k = group_selects cur f k.
Proof.
  intros fs ng W Lc Hl On Fo k f Hf.
  destruct (fgroup f) as [g|] eqn:G; [|unfold group_selects; rewrite G; reflexivity].
  rewrite !(group_selects_some _ f k g G). f_equal.
  pose proof (forallb_at _ _ _ _ W Hf) as Wf.
  destruct (group_field_plain sc ng f g Wf G) as [Lg [Hop _]].
  set (nr := norm_raw sc cur O raw fs).
  destruct (opt_nat_eqb (nth g cur None) (Some k)) eqn:E.
  - (* selected: position k assigns g among the rebuilt attributes *)
    apply opt_nat_eqb_true in E.
    assert (exists x, nth_error raw k = Some x) as [x Hx].
    { destruct (nth_error raw k) eqn:E'; [eauto|]. apply nth_error_None in E'.
      assert (k < length fs)%nat by (apply nth_error_Some; congruence). lia. }
    pose proof (oneof_at cur raw fs O k x f On Hx Hf) as O1. cbn [Nat.add] in O1.
    rewrite (group_selects_some cur f k g G), E in O1. cbn [opt_nat_eqb] in O1. rewrite Nat.eqb_refl in O1.
    assert (Hxp : x <> PPlaceholder) by (intros ->; discriminate O1).
    assert (A : assigns fs nr g k).
    { exists f, (norm_field sc cur k f x). split; [exact Hf|]. split; [exact (nth_norm_raw sc cur raw fs O k x f Hx Hf)|].
      split; [exact G|]. unfold norm_field. rewrite (group_selects_some cur f k g G), E. cbn [opt_nat_eqb]. rewrite Nat.eqb_refl.
      rewrite (not_ph x _ _ Hxp).
      rewrite (selected_emitted sc ng f g x Wf G Hxp (fields_ok_at sc raw fs k x f Fo Hx Hf)).
      pose proof (norm_not_ph sc x Hxp) as N. unfold is_sentinel. rewrite Hop.
      destruct (norm_pv sc x); try reflexivity. congruence. }
    destruct (cur_loop_assigned fs O nr (repeat None ng) g k ltac:(rewrite repeat_length; exact Lg) A) as [k' [A' E']].
    rewrite E'. cbn [Nat.add].
    pose proof (norm_assigner_selected sc cur ng raw fs g k' W Hl A') as S. rewrite E in S. inversion S; subst k'.
    cbn [opt_nat_eqb]. apply Nat.eqb_refl.
  - destruct (cur_loop_char fs O nr (repeat None ng) g) as [E'|[k' [A' E']]]; rewrite E'.
    + rewrite nth_repeat_none. reflexivity.
    + cbn [Nat.add]. pose proof (norm_assigner_selected sc cur ng raw fs g k' W Hl A') as S.
      cbn [opt_nat_eqb]. destruct (Nat.eqb k' k) eqn:Ek; [|reflexivity]. apply Nat.eqb_eq in Ek. subst k'.
      rewrite S in E. cbn [opt_nat_eqb] in E. rewrite Nat.eqb_refl in E. discriminate E.
Qed.
