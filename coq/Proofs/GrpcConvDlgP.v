(* Proofs/GrpcConvDlgP.v — what "the sequential dialogue is finite" amounts to:
     * [dialogue] (the evaluator with fuel) is sound for [Dlg];
     * [Dlg] is functional (a protocol has at most one transcript);
     * [Dlg] is EXACT for the concurrent structure of _stream_stream: a protocol has a finite dialogue if and
       only if SOME schedule of the three tasks completes the call (and then, Proofs/GrpcConvP.v, all do);
       for the real helper: a finite dialogue in which the handler is told about the end of the request stream
       if and only if some schedule completes the call with the handler told. *)
From Coq Require Import List Bool Lia Arith.
From BP Require Import Base.Prelude Model.Grpc Model.GrpcConv Proofs.GrpcConvP Proofs.GrpcConvRealP.
Import ListNotations.

Section DlgP.
  Variables SS HS : Type.
  Variable src_step : SS -> src_act SS.
  Variable hdl_step : HS -> hdl_act HS.

  Notation state := (state SS HS).
  Notation step := (step SS HS src_step hdl_step ss_ideal false).
  Notation run := (run SS HS src_step hdl_step ss_ideal false).
  Notation stuckb := (stuckb SS HS src_step hdl_step ss_ideal false).
  Notation run_r := (GrpcConv.run SS HS src_step hdl_step ss_mode false).
  Notation stuckb_r := (GrpcConv.stuckb SS HS src_step hdl_step ss_mode false).

  Lemma dia : forall t1 t2 s s1 s2, t1 <> t2 -> step t1 s = Some s1 -> step t2 s = Some s2 ->
    exists s3, step t2 s1 = Some s3 /\ step t1 s2 = Some s3.
  Proof. intros t1 t2 s s1 s2. apply step_diamond. reflexivity. Qed.
  Notation Dlg := (Dlg SS HS src_step hdl_step).
  Notation SrcStops := (SrcStops SS src_step).
  Notation dialogue := (dialogue SS HS src_step hdl_step).
  Notation src_stops := (src_stops SS src_step).

  Lemma src_stops_sound n : forall ss ib, src_stops n ss ib = true -> SrcStops ss ib.
  Proof.
    induction n as [|n IH]; intros ss ib H; cbn [GrpcConv.src_stops] in H; [discriminate|].
    destruct (src_step ss) as [|r ss'|k] eqn:E.
    - apply SS_end. exact E.
    - eapply SS_yield; [exact E | apply IH; exact H].
    - destruct ib as [|y ib].
      + eapply SS_block. exact E.
      + eapply SS_await; [exact E | apply IH; exact H].
  Qed.

  Theorem dialogue_sound n : forall ss sf rq hs ib t,
    dialogue n ss sf rq hs ib = Some t -> Dlg ss sf rq hs ib t.
  Proof.
    induction n as [|n IH]; intros ss sf rq hs ib t H; cbn [GrpcConv.dialogue] in H; [discriminate|].
    destruct (hdl_step hs) as [st|y hs'|k] eqn:Eh.
    - destruct (sf || src_stops n ss ib) eqn:Es; [|discriminate].
      inversion H; subst. apply D_done; [exact Eh|].
      destruct sf; [left; reflexivity|]. right. cbn [orb] in Es. eapply src_stops_sound. exact Es.
    - destruct (dialogue n ss sf rq hs' (ib ++ [y])) as [[[[rd em] st] se]|] eqn:Ed; [|discriminate].
      inversion H; subst. eapply D_yield; [exact Eh | apply IH; exact Ed].
    - destruct rq as [|r rq'].
      + destruct sf.
        * destruct (dialogue n ss true [] (k None) ib) as [[[[rd em] st] se]|] eqn:Ed; [|discriminate].
          inversion H; subst. eapply D_recv_end; [exact Eh | apply IH; exact Ed].
        * destruct (src_step ss) as [|r ss'|k'] eqn:Es.
          -- eapply D_src_end; [exact Eh | exact Es | apply IH; exact H].
          -- eapply D_src_yield; [exact Eh | exact Es | apply IH; exact H].
          -- destruct ib as [|y ib']; [discriminate|].
             eapply D_src_await; [exact Eh | exact Es | apply IH; exact H].
      + destruct (dialogue n ss sf rq' (k (Some r)) ib) as [[[[rd em] st] se]|] eqn:Ed; [|discriminate].
        inversion H; subst. eapply D_recv; [exact Eh | apply IH; exact Ed].
  Qed.

  (* ... and complete: a finite dialogue is found with enough fuel (and with any larger amount) *)
  Lemma src_stops_complete ss ib : SrcStops ss ib -> exists n, forall m, (n <= m)%nat -> src_stops m ss ib = true.
  Proof.
    induction 1 as [ss ib He | ss k He | ss k y ib He Hr [n IH] | ss r ss' ib He Hr [n IH]].
    - exists 1%nat. intros [|m] Hm; [lia|]. cbn [GrpcConv.src_stops]. rewrite He. reflexivity.
    - exists 1%nat. intros [|m] Hm; [lia|]. cbn [GrpcConv.src_stops]. rewrite He. reflexivity.
    - exists (S n). intros [|m] Hm; [lia|]. cbn [GrpcConv.src_stops]. rewrite He. apply IH. lia.
    - exists (S n). intros [|m] Hm; [lia|]. cbn [GrpcConv.src_stops]. rewrite He. apply IH. lia.
  Qed.

  Theorem dialogue_complete ss sf rq hs ib t :
    Dlg ss sf rq hs ib t -> exists n, forall m, (n <= m)%nat -> dialogue m ss sf rq hs ib = Some t.
  Proof.
    induction 1 as [ss sf rq hs ib y hs' rd0 em st se He Hd [n IH]
                   | ss sf r rq hs ib k rd0 em st se He Hd [n IH]
                   | ss hs ib k rd0 em st se He Hd [n IH]
                   | ss sf rq hs ib st He Hsrc
                   | ss hs ib k r ss' t He Hs Hd [n IH]
                   | ss hs y ib k k' t He Hs Hd [n IH]
                   | ss hs ib k t He Hs Hd [n IH]].
    - exists (S n). intros [|m] Hm; [lia|]. cbn [GrpcConv.dialogue]. rewrite He, (IH m) by lia. reflexivity.
    - exists (S n). intros [|m] Hm; [lia|]. cbn [GrpcConv.dialogue]. rewrite He, (IH m) by lia. reflexivity.
    - exists (S n). intros [|m] Hm; [lia|]. cbn [GrpcConv.dialogue]. rewrite He, (IH m) by lia. reflexivity.
    - destruct Hsrc as [-> | Hsrc].
      + exists 1%nat. intros [|m] Hm; [lia|]. cbn [GrpcConv.dialogue orb]. rewrite He. reflexivity.
      + destruct (src_stops_complete ss ib Hsrc) as [n Hn].
        exists (S n). intros [|m] Hm; [lia|]. cbn [GrpcConv.dialogue]. rewrite He, (Hn m) by lia.
        rewrite orb_true_r. reflexivity.
    - exists (S n). intros [|m] Hm; [lia|]. cbn [GrpcConv.dialogue]. rewrite He, Hs. apply IH. lia.
    - exists (S n). intros [|m] Hm; [lia|]. cbn [GrpcConv.dialogue]. rewrite He, Hs. apply IH. lia.
    - exists (S n). intros [|m] Hm; [lia|]. cbn [GrpcConv.dialogue]. rewrite He, Hs. apply IH. lia.
  Qed.

  (* a protocol has at most one transcript *)
  Theorem dlg_functional ss hs t1 t2 :
    Dlg ss false [] hs [] t1 -> Dlg ss false [] hs [] t2 -> t1 = t2.
  Proof.
    intros H1 H2.
    destruct (dlg_run _ _ src_step hdl_step false _ _ _ _ _ _ H1 [] [] false false) as [n1 [f1 [S1 [F1 [A1 [B1 [_ [D1 E1]]]]]]]].
    destruct (dlg_run _ _ src_step hdl_step false _ _ _ _ _ _ H2 [] [] false false) as [n2 [f2 [S2 [F2 [A2 [B2 [_ [D2 E2]]]]]]]].
    destruct (maximal_unique _ step dia _ _ _ _ _ S1 F1 S2 F2) as [_ E].
    subst f2. cbn [app orb] in *.
    destruct t1 as [[[rd1 em1] st1] se1], t2 as [[[rd2 em2] st2] se2]. cbn [fst snd] in *.
    rewrite A1 in A2. rewrite B1 in B2. rewrite D1 in D2. rewrite E1 in E2. inversion D2. subst. reflexivity.
  Qed.

  Ltac stepeq :=
    cbn; repeat match goal with H : _ = _ |- _ => rewrite H end; cbn; reflexivity.

  (* once both ends have finished only the sender moves: a maximal schedule from there means the generator stops *)
  Lemma stops_of_run n : forall ss rq ib hs rd b e st q rcv cw ce f,
    steps step n (St ss false rq ib hs rd b e (Some st) q rcv cw (Some ce)) f -> stuck step f ->
    SrcStops ss ib.
  Proof.
    induction n as [n IH] using lt_wf_ind. intros ss rq ib hs rd b e st q rcv cw ce f Hs Hf.
    destruct (src_step ss) as [|r ss'|k] eqn:E.
    - apply SS_end. exact E.
    - assert (Hst : step TSender (St ss false rq ib hs rd b e (Some st) q rcv cw (Some ce)) =
                    Some (St ss' false (rq ++ [r]) ib hs rd b e (Some st) q rcv cw (Some ce))) by stepeq.
      destruct (strip _ step dia _ _ _ Hs Hf _ _ Hst) as [m [-> Hm]].
      eapply SS_yield; [exact E|]. eapply (IH m); [lia | exact Hm | exact Hf].
    - destruct ib as [|y ib'].
      + eapply SS_block. exact E.
      + assert (Hst : step TSender (St ss false rq (y :: ib') hs rd b e (Some st) q rcv cw (Some ce)) =
                      Some (St (k y) false rq ib' hs rd b e (Some st) q rcv cw (Some ce))) by stepeq.
        destruct (strip _ step dia _ _ _ Hs Hf _ _ Hst) as [m [-> Hm]].
        eapply SS_await; [exact E|]. eapply (IH m); [lia | exact Hm | exact Hf].
  Qed.

  Lemma dlg_of_run n : forall ss sf rq ib hs rd b e0 rcv f e,
    steps step n (St ss sf rq ib hs rd b e0 None [] rcv false None) f -> stuck step f ->
    s_cend f = Some e ->
    exists t, Dlg ss sf rq hs ib t.
  Proof.
    induction n as [n IH] using lt_wf_ind. intros ss sf rq ib hs rd b e0 rcv f e Hs Hf He.
    destruct (hdl_step hs) as [st|y hs'|k] eqn:Eh.
    - (* the handler finishes; the caller sees the trailers *)
      assert (H1 : step THandler (St ss sf rq ib hs rd b e0 None [] rcv false None) =
                   Some (St ss sf rq ib hs rd b e0 (Some st) [] rcv false None)) by stepeq.
      destruct (strip _ step dia _ _ _ Hs Hf _ _ H1) as [m1 [-> Hm1]].
      assert (H2 : step TCaller (St ss sf rq ib hs rd b e0 (Some st) [] rcv false None) =
                   Some (St ss sf rq ib hs rd b e0 (Some st) [] rcv false (Some (end_of st)))) by stepeq.
      destruct (strip _ step dia _ _ _ Hm1 Hf _ _ H2) as [m2 [-> Hm2]].
      exists ([], [], st, false). apply D_done; [exact Eh|].
      destruct sf; [left; reflexivity|]. right. eapply stops_of_run; [exact Hm2 | exact Hf].
    - (* a response: sent, then received *)
      assert (H1 : step THandler (St ss sf rq ib hs rd b e0 None [] rcv false None) =
                   Some (St ss sf rq ib hs' rd true e0 None [y] rcv false None)) by stepeq.
      destruct (strip _ step dia _ _ _ Hs Hf _ _ H1) as [m1 [-> Hm1]].
      assert (H2 : step TCaller (St ss sf rq ib hs' rd true e0 None [y] rcv false None) =
                   Some (St ss sf rq (ib ++ [y]) hs' rd true e0 None [] (rcv ++ [y]) false None)) by stepeq.
      destruct (strip _ step dia _ _ _ Hm1 Hf _ _ H2) as [m2 [-> Hm2]].
      destruct (IH m2 ltac:(lia) _ _ _ _ _ _ _ _ _ _ _ Hm2 Hf He) as [[[[rd' em'] st'] se'] Hd].
      exists (rd', y :: em', st', se'). eapply D_yield; [exact Eh | exact Hd].
    - destruct rq as [|r rq'].
      + destruct sf.
        * assert (H1 : step THandler (St ss true [] ib hs rd b e0 None [] rcv false None) =
                       Some (St ss true [] ib (k None) rd b true None [] rcv false None)) by stepeq.
          destruct (strip _ step dia _ _ _ Hs Hf _ _ H1) as [m1 [-> Hm1]].
          destruct (IH m1 ltac:(lia) _ _ _ _ _ _ _ _ _ _ _ Hm1 Hf He) as [[[[rd' em'] st'] se'] Hd].
          exists (rd', em', st', true). eapply D_recv_end; [exact Eh | exact Hd].
        * (* the handler waits for a request: the source has to move *)
          destruct (src_step ss) as [|r ss'|k'] eqn:Es.
          -- assert (H1 : step TSender (St ss false [] ib hs rd b e0 None [] rcv false None) =
                          Some (St ss true [] ib hs rd b e0 None [] rcv false None)) by stepeq.
             destruct (strip _ step dia _ _ _ Hs Hf _ _ H1) as [m1 [-> Hm1]].
             destruct (IH m1 ltac:(lia) _ _ _ _ _ _ _ _ _ _ _ Hm1 Hf He) as [t Hd].
             exists t. eapply D_src_end; [exact Eh | exact Es | exact Hd].
          -- assert (H1 : step TSender (St ss false [] ib hs rd b e0 None [] rcv false None) =
                          Some (St ss' false [r] ib hs rd b e0 None [] rcv false None)) by stepeq.
             destruct (strip _ step dia _ _ _ Hs Hf _ _ H1) as [m1 [-> Hm1]].
             destruct (IH m1 ltac:(lia) _ _ _ _ _ _ _ _ _ _ _ Hm1 Hf He) as [t Hd].
             exists t. eapply D_src_yield; [exact Eh | exact Es | exact Hd].
          -- destruct ib as [|y ib'].
             ++ (* both wait for each other: this state is stuck with the call not completed *)
                exfalso.
                assert (Hstuck : stuck step (St ss false [] [] hs rd b e0 None [] rcv false None)).
                { intros []; cbn; rewrite ?Es, ?Eh; reflexivity. }
                destruct (stuck_steps _ step _ _ _ Hstuck Hs) as [_ ->]. cbn in He. discriminate.
             ++ assert (H1 : step TSender (St ss false [] (y :: ib') hs rd b e0 None [] rcv false None) =
                             Some (St (k' y) false [] ib' hs rd b e0 None [] rcv false None)) by stepeq.
                destruct (strip _ step dia _ _ _ Hs Hf _ _ H1) as [m1 [-> Hm1]].
                destruct (IH m1 ltac:(lia) _ _ _ _ _ _ _ _ _ _ _ Hm1 Hf He) as [t Hd].
                exists t. eapply D_src_await; [exact Eh | exact Es | exact Hd].
      + assert (H1 : step THandler (St ss sf (r :: rq') ib hs rd b e0 None [] rcv false None) =
                     Some (St ss sf rq' ib (k (Some r)) (rd ++ [r]) b e0 None [] rcv false None)) by stepeq.
        destruct (strip _ step dia _ _ _ Hs Hf _ _ H1) as [m1 [-> Hm1]].
        destruct (IH m1 ltac:(lia) _ _ _ _ _ _ _ _ _ _ _ Hm1 Hf He) as [[[[rd' em'] st'] se'] Hd].
        exists (r :: rd', em', st', se'). eapply D_recv; [exact Eh | exact Hd].
  Qed.

  (* "finite dialogue" is exactly "some schedule of the concurrent structure completes the call" (no end-check) *)
  Theorem dlg_exact ss hs :
    (exists t, Dlg ss false [] hs [] t) <->
    (exists sch f, run sch (init ss hs) = Some f /\ stuckb f = true /\ s_cend f <> None).
  Proof.
    split.
    - intros [[[[rd em] st] se] Hd].
      destruct (conversation_complete_ideal _ _ _ _ _ _ _ _ _ _ Hd) as [N [fin [Hfb [Hobs [_ [_ Hall]]]]]].
      destruct (Hall [] (init ss hs) eq_refl) as [_ [[rest [Hrest _]] _]].
      exists rest, fin. split; [exact Hrest|]. split; [exact Hfb|].
      unfold observe in Hobs. inversion Hobs as [[Hrd Hrc Hce]]. rewrite Hce. discriminate.
    - intros [sch [f [Hr [Hfb Hce]]]].
      destruct (s_cend f) as [e|] eqn:E; [|contradiction Hce; reflexivity].
      apply run_steps in Hr. apply stuckb_stuck in Hfb.
      eapply dlg_of_run; [exact Hr | exact Hfb | exact E].
  Qed.

  (* for the real helper: a finite dialogue in which the handler is told about the end of the request stream,
     exactly when some schedule completes the call with the handler told *)
  Theorem dlg_exact_real ss hs :
    (exists rd em st, Dlg ss false [] hs [] (rd, em, st, true)) <->
    (exists sch f, run_r sch (init ss hs) = Some f /\ stuckb_r f = true /\ s_cend f <> None /\ s_hend f = true).
  Proof.
    split.
    - intros [rd [em [st Hd]]].
      destruct (conversation_complete _ _ _ _ _ _ _ _ _ Hd) as [N [fin [Hfb [Hobs [_ [Hend Hall]]]]]].
      destruct (Hall [] (init ss hs) eq_refl) as [_ [[rest [Hrest _]] _]].
      exists rest, fin. split; [exact Hrest|]. split; [exact Hfb|].
      unfold observe in Hobs. inversion Hobs as [[Hrd Hrc Hce]]. rewrite Hce. split; [discriminate | exact Hend].
    - intros [sch [f [Hr [Hfb [Hce He]]]]].
      pose proof (told_run_is_ideal _ _ _ _ sch (init ss hs) f (init_told_ok _ _ ss hs) Hr He) as Hi.
      rewrite stuckb_same in Hfb.
      destruct (s_cend f) as [e|] eqn:E; [|contradiction Hce; reflexivity].
      pose proof (run_steps _ _ _ _ _ _ _ _ _ Hi) as Hs. pose proof (proj1 (stuckb_stuck _ _ _ _ _ _ f) Hfb) as Hf.
      destruct (dlg_of_run _ _ _ _ _ _ _ _ _ _ _ _ Hs Hf E) as [[[[rd em] st] se] Hd].
      destruct (conversation_complete_ideal _ _ _ _ _ _ _ _ _ _ Hd) as [N [fin [_ [_ [_ [Hend Hall]]]]]].
      destruct (Hall sch f Hi) as [_ [_ Heq]]. rewrite <- (Heq Hfb) in Hend. rewrite He in Hend. subst se.
      exists rd, em, st. exact Hd.
  Qed.
End DlgP.
