(* C14, part 2: the materialisation relation [mat] unfolded into named pieces, its inversion lemma, and the
   first two invariance results: [is_default] and Python's == ([pv_eq], both operand positions) do not
   distinguish a PLACEHOLDER from the default that a read stores in its place (recursively). *)
From BP Require Import Base.Prelude Model.Types Model.Float Model.Object Model.Eq Model.Encode Model.History Model.C14Ops.
From BP Require Import Model.WellFormed Proofs.BytesP Proofs.C14Ind.
From Coq Require Import Lia.

(* ---- named pieces ---- *)
Definition src (sc : schema) (f : fdesc) (v : pv) : pv :=
  match v with PPlaceholder => default_of sc f | _ => v end.

Definition mat_go (sc : schema) :=
  fix go (raw raw' : list pv) (fs : list fdesc) {struct raw'} : bool :=
    match raw, raw' with
    | [], [] => true
    | x :: r, x' :: r' =>
        match fs with
        | f' :: fs' => mat sc f' x x' && go r r' fs'
        | [] => pv_same x x' && go r r' []
        end
    | _, _ => false
    end.

Definition mat_elem (sc : schema) (f : fdesc) (x x' : pv) : bool :=
  match x, x' with
  | PMsg _, PMsg _ => mat sc f x x'
  | _, _ => pv_same x x'
  end.

Definition mat_list (sc : schema) (f : fdesc) :=
  fix go (l l' : list pv) {struct l'} : bool :=
    match l, l' with
    | [], [] => true
    | x :: r, x' :: r' => mat_elem sc f x x' && go r r'
    | _, _ => false
    end.

Definition mat_dict (sc : schema) (f : fdesc) :=
  fix go (d d' : list (pv * pv)) {struct d'} : bool :=
    match d, d' with
    | [], [] => true
    | (k, x) :: r, (k', x') :: r' => pv_same k k' && mat_elem sc f x x' && go r r'
    | _, _ => false
    end.

Definition mat_core (sc : schema) (f : fdesc) (w v' : pv) : bool :=
  match w, v' with
  | PMsg (Obj c raw sow unk cur), PMsg (Obj c' raw' sow' unk' cur') =>
      Nat.eqb c c' && Bool.eqb sow sow' && bytes_eqb unk unk' && cur_same cur cur' &&
      mat_go sc raw raw' (cfields (get_class sc c'))
  | PList l, PList l' => mat_list sc f l l'
  | PDict d, PDict d' => mat_dict sc f d d'
  | PPlaceholder, _ => false
  | w, _ => pv_same w v'
  end.

Lemma mat_eq sc f v v' :
  mat sc f v v' =
  match v, v' with
  | PPlaceholder, PPlaceholder => true
  | _, _ => mat_core sc f (src sc f v) v'
  end.
Proof. destruct v' as [| | | | | | | | | | |[c' raw' sow' unk' cur']]; destruct v as [| | | | | | | | | | |[c raw sow unk cur]];
    unfold mat_core, src; cbn [mat]; try reflexivity;
    destruct (default_of sc f) as [| | | | | | | | | | |[c0 raw0 sow0 unk0 cur0]]; reflexivity. Qed.

Definition is_scalar (v : pv) : Prop :=
  match v with PPlaceholder | PMsg _ | PList _ | PDict _ => False | _ => True end.

Lemma default_not_placeholder sc f : default_of sc f <> PPlaceholder.
Proof. unfold default_of. destruct (fhint f) as [[]| | |]; discriminate. Qed.

Lemma src_not_placeholder sc f v : src sc f v <> PPlaceholder.
Proof. destruct v; try discriminate. apply default_not_placeholder. Qed.

Lemma src_id sc f v : v <> PPlaceholder -> src sc f v = v.
Proof. destruct v; try reflexivity. intros H; contradiction H; reflexivity. Qed.

(* ---- inversion ---- *)
Lemma mat_inv sc f v v' :
  mat sc f v v' = true ->
  (v = PPlaceholder /\ v' = PPlaceholder)
  \/ (exists c raw raw' sow unk cur,
        src sc f v = PMsg (Obj c raw sow unk cur) /\ v' = PMsg (Obj c raw' sow unk cur) /\
        mat_go sc raw raw' (cfields (get_class sc c)) = true)
  \/ (exists l l', src sc f v = PList l /\ v' = PList l' /\ mat_list sc f l l' = true)
  \/ (exists d d', src sc f v = PDict d /\ v' = PDict d' /\ mat_dict sc f d d' = true)
  \/ (src sc f v = v' /\ is_scalar v').
Proof.
  intros H. rewrite mat_eq in H.
  assert (Hb : (v = PPlaceholder /\ v' = PPlaceholder) \/ mat_core sc f (src sc f v) v' = true).
  { destruct v; try (right; exact H). destruct v'; try (right; exact H). left; split; reflexivity. }
  destruct Hb as [Hb|Hb]; [left; exact Hb|right].
  pose proof (src_not_placeholder sc f v) as Hnp.
  destruct (src sc f v) as [| | | | | | | | |l|d|[c raw sow unk cur]] eqn:Hs; [contradiction Hnp; reflexivity|..].
  all: destruct v' as [| | | | | | | | |l'|d'|[c' raw' sow' unk' cur']]; cbn [mat_core pv_same] in Hb; try discriminate Hb.
  all: try (right; right; right; split; [apply pv_same_sound; cbn [pv_same]; exact Hb | exact I]).
  - right; left. exists l, l'. repeat split; exact Hb.
  - right; right; left. exists d, d'. repeat split; exact Hb.
  - left.
    apply andb_true_iff in Hb as [Hb H5]. apply andb_true_iff in Hb as [Hb H4].
    apply andb_true_iff in Hb as [Hb H3]. apply andb_true_iff in Hb as [H1 H2].
    apply Nat.eqb_eq in H1. apply eqb_prop in H2. apply bytes_eqb_eq in H3. apply cur_same_eq in H4. subst.
    exists c', raw, raw', sow', unk', cur'. repeat split. exact H5.
Qed.

Lemma mat_not_placeholder sc f v v' : mat sc f v v' = true -> v <> PPlaceholder -> v' <> PPlaceholder.
Proof.
  intros H Hv. apply mat_inv in H.
  destruct H as [[H _]|[(c & raw & raw' & sow & unk & cur & _ & H & _)|[(l & l' & _ & H & _)|[(d & d' & _ & H & _)|[_ H]]]]];
    try (subst; discriminate); [contradiction|].
  intros ->. exact H.
Qed.

(* ---- the field-wise relation the inner loops are proved over ---- *)
Inductive frel (R : fdesc -> pv -> pv -> Prop) : list fdesc -> list pv -> list pv -> Prop :=
| frel_nil fs : frel R fs [] []
| frel_cons f fs x x' r r' : R f x x' -> frel R fs r r' -> frel R (f :: fs) (x :: r) (x' :: r')
| frel_extra x r r' : frel R [] r r' -> frel R [] (x :: r) (x :: r').

Lemma mat_go_frel sc (G : fdesc -> pv -> pv -> Prop) raw' :
  Forall (fun x' => forall f x, mat sc f x x' = true -> G f x x') raw' ->
  forall raw fs, mat_go sc raw raw' fs = true ->
  frel (fun f x x' => mat sc f x x' = true /\ G f x x') fs raw raw'.
Proof.
  induction 1 as [|x' r' Hx Hr IH]; intros raw fs Hg; destruct raw as [|x r]; cbn [mat_go] in Hg; try discriminate.
  - constructor.
  - destruct fs as [|f' fs'].
    + apply andb_true_iff in Hg as [H1 H2]. apply pv_same_sound in H1. subst x'.
      apply frel_extra. apply IH. exact H2.
    + apply andb_true_iff in Hg as [H1 H2]. constructor; [split; [exact H1 | apply Hx; exact H1] | apply IH; exact H2].
Qed.

Lemma frel_impl (R R' : fdesc -> pv -> pv -> Prop) fs raw raw' :
  (forall f x x', R f x x' -> R' f x x') -> frel R fs raw raw' -> frel R' fs raw raw'.
Proof. intros H Hf. induction Hf; constructor; auto. Qed.

Lemma frel_length R fs raw raw' : frel R fs raw raw' -> length raw' = length raw.
Proof. induction 1; cbn [length]; congruence. Qed.

(* the raw attributes of a fresh instance *)
Definition slot (f : fdesc) : pv := if fopt f then PNone else PPlaceholder.

Lemma new_raw sc c : oraw (new sc c) = map slot (cfields (get_class sc c)).
Proof. reflexivity. Qed.

Lemma default_msg_inv sc f o :
  default_of sc f = PMsg o -> exists c, fhint f = HPlain (PyMsg c) /\ o = new sc c.
Proof.
  unfold default_of. destruct (fhint f) as [[]| | |]; try discriminate. intros H. inversion H. eexists; split; reflexivity.
Qed.

Lemma default_list_inv sc f l : default_of sc f = PList l -> l = [] /\ exists t, fhint f = HList t.
Proof. unfold default_of. destruct (fhint f) as [[]| | |]; try discriminate. intros H. inversion H. split; [reflexivity|eexists; reflexivity]. Qed.

Lemma default_dict_inv sc f d : default_of sc f = PDict d -> d = [] /\ exists k v, fhint f = HDict k v.
Proof. unfold default_of. destruct (fhint f) as [[]| | |]; try discriminate. intros H. inversion H. split; [reflexivity|do 2 eexists; reflexivity]. Qed.

Lemma mat_list_nil sc f l l' : mat_list sc f l l' = true -> (l = [] <-> l' = []).
Proof. destruct l, l'; cbn; intros H; try discriminate; split; intros E; try discriminate; reflexivity. Qed.

Lemma mat_dict_nil sc f d d' : mat_dict sc f d d' = true -> (d = [] <-> d' = []).
Proof. destruct d as [|[]], d' as [|[]]; cbn; intros H; try discriminate; split; intros E; try discriminate; reflexivity. Qed.

(* ================================================================================================ *)
(* A. is_default                                                                                    *)
(* ================================================================================================ *)
Definition isdef' (sc : schema) (f : fdesc) (v : pv) : bool :=
  match v with PPlaceholder => true | _ => is_default sc f v end.

Definition isdef_go (sc : schema) :=
  fix go (raw : list pv) (fs : list fdesc) {struct raw} : bool :=
    match raw, fs with
    | x :: raw', f' :: fs' => isdef' sc f' x && go raw' fs'
    | _, _ => true
    end.

Lemma is_default_msg sc f c' raw s u g :
  is_default sc f (PMsg (Obj c' raw s u g)) =
  match fhint f with
  | HPlain (PyMsg c) => Nat.eqb c c' && isdef_go sc raw (cfields (get_class sc c'))
  | _ => false
  end.
Proof. unfold is_default at 1. destruct (fhint f) as [[]| | |]; reflexivity. Qed.

Section Wf.
  Variable sc : schema.
  Hypothesis Hopt : schema_opt_ok sc = true.

  Lemma slot_isdef c f : In f (cfields (get_class sc c)) -> isdef' sc f (slot f) = true.
  Proof.
    intros Hin. pose proof (opt_ok_field sc c f Hopt Hin) as Ho. unfold opt_hint_ok in Ho. unfold slot.
    destruct (fopt f); [|reflexivity]. cbn [isdef']. unfold is_default. destruct (fhint f); try discriminate. reflexivity.
  Qed.

  Lemma isdef_go_slots c : isdef_go sc (map slot (cfields (get_class sc c))) (cfields (get_class sc c)) = true.
  Proof.
    assert (H : forall fs, (forall f, In f fs -> In f (cfields (get_class sc c))) -> isdef_go sc (map slot fs) fs = true).
    { induction fs as [|f fs IH]; intros Hin; [reflexivity|]. cbn [map isdef_go].
      rewrite (slot_isdef c f) by (apply Hin; left; reflexivity). cbn [andb]. apply IH. intros g Hg. apply Hin. right. exact Hg. }
    apply H. auto.
  Qed.

  Lemma default_is_default f : is_default sc f (default_of sc f) = true.
  Proof.
    unfold default_of. destruct (fhint f) as [t| | |] eqn:Hh.
    - destruct t; try (unfold is_default; rewrite Hh; reflexivity).
      unfold new. rewrite is_default_msg, Hh, Nat.eqb_refl. cbn [andb]. apply isdef_go_slots.
    - unfold is_default. rewrite Hh. reflexivity.
    - unfold is_default. rewrite Hh. reflexivity.
    - unfold is_default. rewrite Hh. reflexivity.
  Qed.

  Lemma default_isdef' f : isdef' sc f (default_of sc f) = true.
  Proof. unfold isdef'. pose proof (default_is_default f) as H. destruct (default_of sc f); auto. Qed.

  Lemma isdef_go_frel fs raw raw' :
    frel (fun f x x' => isdef' sc f x' = isdef' sc f x) fs raw raw' -> isdef_go sc raw' fs = isdef_go sc raw fs.
  Proof.
    induction 1 as [fs|f fs x x' r r' Hx Hr IH|x r r' Hr IH]; cbn [isdef_go]; try reflexivity.
    rewrite Hx, IH. reflexivity.
  Qed.

  Definition GA (f : fdesc) (v v' : pv) : Prop :=
    (v <> PPlaceholder -> forall g, is_default sc g v' = is_default sc g v) /\ isdef' sc f v' = isdef' sc f v.

  Lemma is_default_scalar_placeholder f : is_default sc f PPlaceholder = false.
  Proof. unfold is_default. destruct (fhint f) as [[]| | |]; reflexivity. Qed.

  Lemma mat_is_default : forall v' f v, mat sc f v v' = true -> GA f v v'.
  Proof.
    induction v' using pv_induction; intros f v Hm; pose proof Hm as Hi; apply mat_inv in Hi;
      destruct Hi as [[Hv Hv']|[(c0 & raw0 & raw0' & sow0 & unk0 & cur0 & Hs & Hv' & Hg)|[(l0 & l0' & Hs & Hv' & Hg)|[(d0 & d0' & Hs & Hv' & Hg)|[Hs Hsc]]]]];
      try discriminate Hv'; try (exfalso; exact Hsc).
    (* placeholder -> placeholder *)
    1: { subst. split; [intros Hn; contradiction Hn; reflexivity | reflexivity]. }
    (* scalars: v' is what v (or its default) was *)
    1-8: (split; [intros Hn g; rewrite (src_id sc f v Hn) in Hs; subst; reflexivity|];
          destruct v; cbn [src] in Hs; try reflexivity; try (rewrite <- Hs; reflexivity);
          rewrite <- Hs; apply default_isdef').
    - (* list *)
      inversion Hv'; subst l0'. apply mat_list_nil in Hg.
      assert (Hgen : forall g, is_default sc g (PList l) = is_default sc g (PList l0)).
      { intros g. unfold is_default. destruct (fhint g) as [[]| | |]; try reflexivity.
        destruct l, l0; try reflexivity; destruct Hg as [Hg1 Hg2]; [discriminate (Hg2 eq_refl) | discriminate (Hg1 eq_refl)]. }
      split.
      + intros Hn g. rewrite (src_id sc f v Hn) in Hs. subst v. apply Hgen.
      + destruct v; cbn [src] in Hs; try discriminate Hs.
        * cbn [isdef']. rewrite Hgen, <- Hs. apply default_is_default.
        * inversion Hs; subst. cbn [isdef']. apply Hgen.
    - (* dict *)
      inversion Hv'; subst d0'. apply mat_dict_nil in Hg.
      assert (Hgen : forall g, is_default sc g (PDict d) = is_default sc g (PDict d0)).
      { intros g. unfold is_default. destruct (fhint g) as [[]| | |]; try reflexivity.
        destruct d, d0; try reflexivity; destruct Hg as [Hg1 Hg2]; [discriminate (Hg2 eq_refl) | discriminate (Hg1 eq_refl)]. }
      split.
      + intros Hn g. rewrite (src_id sc f v Hn) in Hs. subst v. apply Hgen.
      + destruct v; cbn [src] in Hs; try discriminate Hs.
        * cbn [isdef']. rewrite Hgen, <- Hs. apply default_is_default.
        * inversion Hs; subst. cbn [isdef']. apply Hgen.
    - (* message *)
      inversion Hv'; subst c0 raw0' sow0 unk0 cur0. clear Hv'.
      pose proof (mat_go_frel sc GA raw H raw0 _ Hg) as Hf.
      assert (Hgo : isdef_go sc raw (cfields (get_class sc c)) = isdef_go sc raw0 (cfields (get_class sc c))).
      { apply isdef_go_frel. eapply frel_impl; [|exact Hf]. intros g x x' [_ [_ Hx]]. exact Hx. }
      split.
      + intros Hn g. rewrite (src_id sc f v Hn) in Hs. subst v. rewrite !is_default_msg, Hgo. reflexivity.
      + destruct v; cbn [src] in Hs; try discriminate Hs.
        * destruct (default_msg_inv sc f _ Hs) as [c1 [Hh Ho]]. unfold new in Ho. inversion Ho; subst c1 raw0 sow unk cur.
          cbn [isdef']. rewrite is_default_msg, Hh, Nat.eqb_refl, Hgo. cbn [andb]. apply isdef_go_slots.
        * inversion Hs; subst. cbn [isdef']. rewrite !is_default_msg, Hgo. reflexivity.
  Qed.

  Lemma mat_isdef' f v v' : mat sc f v v' = true -> isdef' sc f v' = isdef' sc f v.
  Proof. intros H. apply (mat_is_default v' f v H). Qed.

  Lemma mat_is_default_any f v v' g :
    mat sc f v v' = true -> v <> PPlaceholder -> is_default sc g v' = is_default sc g v.
  Proof. intros H Hn. apply (mat_is_default v' f v H); exact Hn. Qed.
End Wf.
