(* C03 — side conditions and proofs: the plugin model (Model/Plugin.v) implements the meaning of the
   descriptor (Spec/Descriptor.v). *)
From BP Require Import Base.Prelude Spec.Descriptor gen.C03Tables Model.Plugin Proofs.BytesP.
From Coq Require Import Lia.

(* ======================================================================================
   names_ok: the naming side conditions. Every conjunct is decidable, is evaluated by the harness on
   the real naming functions for every generated schema, and is a known-finding class when false.
   ====================================================================================== *)
Definition no_upper (s : str) : bool := forallb (fun c => negb (is_upper c)) s.
Definition has_upper (s : str) : bool := existsb is_upper s.

Definition opt_str_eqb (a b : option str) : bool :=
  match a, b with
  | Some x, Some y => str_eqb x y
  | None, None => true
  | _, _ => false
  end.

Section NamesOk.
  Variable field_name : str -> str.
  Variable class_name : str -> str.
  Variable enum_member_name : str -> str -> str.

  (* K2: the package regex of parse_source_type_name needs capital-free packages and a capital letter
     somewhere in every top-level type name *)
  Definition pkg_names_ok (D : descriptor) : bool :=
    forallb (fun f => no_upper (fl_package f)
                      && forallb (fun m => has_upper (md_name m)) (fl_messages f)
                      && forallb (fun e => has_upper (ed_name e)) (fl_enums f)) D.

  (* K1 (first half): the class name computed from the flattened name "_A_B" (class definition) is the
     one computed from the dotted name "A.B" (references) *)
  Definition flat_dotted_ok (D : descriptor) : bool :=
    forallb (fun f => forallb (fun p => str_eqb (class_name (flat p)) (class_name (dotted p)))
                              (map fst (file_msgs f) ++ map fst (file_enums f))) D.

  Definition class_paths (D : descriptor) (pkg : str) : list (list str) :=
    map fst (flat_map file_enums (files_of D pkg))
    ++ map fst (filter (fun pm => negb (md_map_entry (snd pm))) (flat_map file_msgs (files_of D pkg))).

  (* K1 / K11: distinct types of one package get distinct class names *)
  Definition class_nodup (D : descriptor) : bool :=
    forallb (fun pkg => nodupb (map (fun p => class_name (dotted p)) (class_paths D pkg))) (output_packages D).

  (* K8: distinct fields of one message / members of one enum get distinct Python names *)
  Definition fields_nodup (D : descriptor) : bool :=
    forallb (fun f => forallb (fun pm => nodupb (map (fun x => field_name (fd_name x)) (md_fields (snd pm))))
                              (file_msgs f)) D.
  Definition members_nodup (D : descriptor) : bool :=
    forallb (fun f => forallb (fun pe => nodupb (map (fun nv => enum_member_name (fst nv) (flat (fst pe)))
                                                     (ed_values (snd pe))))
                              (file_enums f)) D.

  (* K13: the is_map name heuristic has no false positive and is not ambiguous *)
  Definition heur_cands (parent : msg_d) (f : field_d) : list msg_d :=
    filter (fun n => str_eqb (lower (strip_us (md_name n))) (lower (strip_us (fd_name f)) ++ s_entry)
                     && md_map_entry n) (md_nested parent).
  Definition map_keys_ok_msg (pkg : str) (pm : list str * msg_d) : bool :=
    forallb (fun f =>
               match spec_map_entry pkg (fst pm) (snd pm) f with
               | Some e => forallb (fun n => str_eqb (md_name n) (md_name e)) (heur_cands (snd pm) f)
               | None => negb (is_map f (snd pm))
               end) (md_fields (snd pm)).
  Definition map_keys_ok (D : descriptor) : bool :=
    forallb (fun f => forallb (map_keys_ok_msg (fl_package f)) (file_msgs f)) D.

  (* K14: the wrapper regex + hasattr(betterproto, "TYPE_" + X) finds exactly the wrappers of wrappers.proto *)
  Definition wraps_ok (D : descriptor) : bool :=
    forallb (fun f => forallb (fun pm => forallb (fun x => opt_str_eqb (field_wraps (fd_type_name x)) (spec_wraps x))
                                                 (md_fields (snd pm)))
                              (file_msgs f)) D.

  Definition names_ok (D : descriptor) : bool :=
    pkg_names_ok D && flat_dotted_ok D && class_nodup D && fields_nodup D && members_nodup D
    && map_keys_ok D && wraps_ok D.
End NamesOk.
