(* C03 — side conditions and proofs: the plugin model (Model/Plugin.v) implements the meaning of the
   descriptor (Spec/Descriptor.v). *)
From BP Require Import Base.Prelude Spec.Descriptor gen.C03Tables Model.Plugin Proofs.BytesP.
From Coq Require Import Lia.

(* ======================================================================================
   names_ok: the naming side conditions. Every conjunct is decidable, is evaluated by the harness on
   the real naming functions for every generated schema, and is a known-finding class when false.
   ====================================================================================== *)
Definition no_upper (s : str) : bool := forallb (fun c => negb (is_upper c)) s.
Definition has_upper (s : str) : bool := existsb is_upper s.

Definition opt_str_eqb (a b : option str) : bool :=
  match a, b with
  | Some x, Some y => str_eqb x y
  | None, None => true
  | _, _ => false
  end.

Section NamesOk.
  Variable field_name : str -> str.
  Variable class_name : str -> str.
  Variable enum_member_name : str -> str -> str.

  (* K2: the package regex of parse_source_type_name needs capital-free packages and a capital letter
     somewhere in every top-level type name *)
  Definition pkg_names_ok (D : descriptor) : bool :=
    forallb (fun f => no_upper (fl_package f)
                      && forallb (fun m => has_upper (md_name m)) (fl_messages f)
                      && forallb (fun e => has_upper (ed_name e)) (fl_enums f)) D.

  (* K1 (first half): the class name computed from the flattened name "_A_B" (class definition) is the
     one computed from the dotted name "A.B" (references) *)
  Definition flat_dotted_ok (D : descriptor) : bool :=
    forallb (fun f => forallb (fun p => str_eqb (class_name (flat p)) (class_name (dotted p)))
                              (map fst (file_msgs f) ++ map fst (file_enums f))) D.

  Definition class_paths (D : descriptor) (pkg : str) : list (list str) :=
    map fst (flat_map file_enums (files_of D pkg))
    ++ map fst (filter (fun pm => negb (md_map_entry (snd pm))) (flat_map file_msgs (files_of D pkg))).

  (* K1 / K11: distinct types of one package get distinct class names *)
  Definition class_nodup (D : descriptor) : bool :=
    forallb (fun pkg => nodupb (map (fun p => class_name (dotted p)) (class_paths D pkg))) (output_packages D).

  (* K8: distinct fields of one message / members of one enum get distinct Python names *)
  Definition fields_nodup (D : descriptor) : bool :=
    forallb (fun f => forallb (fun pm => nodupb (map (fun x => field_name (fd_name x)) (md_fields (snd pm))))
                              (file_msgs f)) D.
  Definition members_nodup (D : descriptor) : bool :=
    forallb (fun f => forallb (fun pe => nodupb (map (fun nv => enum_member_name (fst nv) (flat (fst pe)))
                                                     (ed_values (snd pe))))
                              (file_enums f)) D.

  (* K13: the is_map name heuristic has no false positive and is not ambiguous *)
  Definition heur_cands (parent : msg_d) (f : field_d) : list msg_d :=
    filter (fun n => str_eqb (lower (strip_us (md_name n))) (lower (strip_us (fd_name f)) ++ s_entry)
                     && md_map_entry n) (md_nested parent).
  Definition map_keys_ok_msg (pkg : str) (pm : list str * msg_d) : bool :=
    forallb (fun f =>
               match spec_map_entry pkg (fst pm) (snd pm) f with
               | Some e => forallb (fun n => str_eqb (md_name n) (md_name e)) (heur_cands (snd pm) f)
               | None => negb (is_map f (snd pm))
               end) (md_fields (snd pm)).
  Definition map_keys_ok (D : descriptor) : bool :=
    forallb (fun f => forallb (map_keys_ok_msg (fl_package f)) (file_msgs f)) D.

  (* K14: the wrapper regex + hasattr(betterproto, "TYPE_" + X) finds exactly the wrappers of wrappers.proto *)
  Definition wraps_ok (D : descriptor) : bool :=
    forallb (fun f => forallb (fun pm => forallb (fun x => opt_str_eqb (field_wraps (fd_type_name x)) (spec_wraps x))
                                                 (md_fields (snd pm)))
                              (file_msgs f)) D.

  Definition names_ok (D : descriptor) : bool :=
    pkg_names_ok D && flat_dotted_ok D && class_nodup D && fields_nodup D && members_nodup D
    && map_keys_ok D && wraps_ok D.
End NamesOk.

(* ======================================================================================
   Part 1 — strings
   ====================================================================================== *)
Lemma str_eqb_eq a b : str_eqb a b = true <-> a = b.
Proof. apply bytes_eqb_eq. Qed.

Lemma str_eqb_refl a : str_eqb a a = true.
Proof. apply str_eqb_eq; reflexivity. Qed.

Lemma str_eqb_neq a b : str_eqb a b = false <-> a <> b.
Proof.
  split.
  - intros H E. apply str_eqb_eq in E. congruence.
  - intros H. destruct (str_eqb a b) eqn:E; [apply str_eqb_eq in E; contradiction | reflexivity].
Qed.

Lemma byte_eqb_eq a b : Byte.eqb a b = true <-> a = b.
Proof. split; [apply Byte.byte_dec_bl | apply Byte.byte_dec_lb]. Qed.

Lemma lower_upper_b c : lower_b (upper_b c) = lower_b c.
Proof. destruct c; reflexivity. Qed.

Lemma is_us_upper_b c : is_us c = false -> is_us (upper_b c) = false.
Proof. destruct c; cbv; congruence. Qed.

Lemma lower_app a b : lower (a ++ b) = lower a ++ lower b.
Proof. apply map_app. Qed.

Lemma strip_us_app a b : strip_us (a ++ b) = strip_us a ++ strip_us b.
Proof. apply filter_app. Qed.

Lemma lower_camel s : forall cap, lower (camel cap s) = lower (strip_us s).
Proof.
  induction s as [|c r IH]; intros cap; [reflexivity|].
  cbn [camel strip_us filter]. destruct (is_us c) eqn:E; cbn [negb].
  - apply IH.
  - fold (strip_us r). cbn [lower map]. fold (lower (camel false r)). fold (lower (strip_us r)).
    rewrite IH. destruct cap; [rewrite lower_upper_b|]; reflexivity.
Qed.

Lemma strip_us_camel s : forall cap, strip_us (camel cap s) = camel cap s.
Proof.
  induction s as [|c r IH]; intros cap; [reflexivity|].
  cbn [camel]. destruct (is_us c) eqn:E.
  - apply IH.
  - cbn [strip_us filter]. fold (strip_us (camel false r)). rewrite IH.
    destruct cap; [rewrite (is_us_upper_b c E)|rewrite E]; reflexivity.
Qed.

Lemma lower_map_entry_name f : lower (map_entry_name f) = lower (strip_us f) ++ s_entry.
Proof. unfold map_entry_name. rewrite lower_app, lower_camel. reflexivity. Qed.

Lemma lower_strip_map_entry_name f : lower (strip_us (map_entry_name f)) = lower (strip_us f) ++ s_entry.
Proof. unfold map_entry_name. rewrite strip_us_app, strip_us_camel, lower_app, lower_camel. reflexivity. Qed.

(* identifiers contain no dot and are not empty *)
Lemma ident_char_not_dot c : ident_char c = true -> is_dot c = false.
Proof. destruct c; cbv; congruence. Qed.

Definition no_dot (s : str) : Prop := Forall (fun c => is_dot c = false) s.

Lemma ident_no_dot s : ident s = true -> no_dot s /\ s <> [].
Proof.
  unfold ident. intros H. apply andb_prop in H as [Hn Hf]. split.
  - apply Forall_forall. intros c Hc. apply ident_char_not_dot.
    rewrite forallb_forall in Hf. auto.
  - destruct s; [discriminate | congruence].
Qed.

Lemma last_seg_aux_no_dot n : forall cur, no_dot n -> last_seg_aux cur n = rev cur ++ n.
Proof.
  induction n as [|c r IH]; intros cur H; cbn [last_seg_aux].
  - now rewrite app_nil_r.
  - inversion H as [|? ? Hc Hr]; subst. rewrite Hc, IH by assumption. cbn [rev]. now rewrite <- app_assoc.
Qed.

Lemma last_seg_aux_app_dot a n : forall cur, last_seg_aux cur (a ++ c_dot :: n) = last_seg_aux [] n.
Proof.
  induction a as [|c r IH]; intros cur; cbn [app last_seg_aux].
  - reflexivity.
  - destruct (is_dot c); apply IH.
Qed.

Lemma last_seg_app_dot a n : no_dot n -> last_seg (a ++ c_dot :: n) = n.
Proof. intros H. unfold last_seg. rewrite last_seg_aux_app_dot, last_seg_aux_no_dot by assumption. reflexivity. Qed.

Lemma join_snoc sep p n : p <> [] -> join sep (p ++ [n]) = join sep p ++ sep ++ n.
Proof.
  induction p as [|a r IH]; intros H; [congruence|].
  destruct r as [|b r'].
  - reflexivity.
  - change ((a :: b :: r') ++ [n]) with (a :: (b :: r') ++ [n]).
    change (join sep (a :: (b :: r') ++ [n])) with (a ++ sep ++ join sep ((b :: r') ++ [n])).
    rewrite IH by congruence. change (join sep (a :: b :: r')) with (a ++ sep ++ join sep (b :: r')).
    now rewrite <- !app_assoc.
Qed.

Lemma full_name_snoc pkg p n : exists a, full_name pkg (p ++ [n]) = a ++ c_dot :: n.
Proof.
  unfold full_name, dotted. destruct p as [|x r].
  - destruct (is_nil pkg); [exists []; reflexivity | exists (c_dot :: pkg); reflexivity].
  - rewrite join_snoc by congruence. cbn [app].
    destruct (is_nil pkg).
    + exists (c_dot :: join [c_dot] (x :: r)). reflexivity.
    + exists (c_dot :: pkg ++ c_dot :: join [c_dot] (x :: r)). cbn [app]. now rewrite <- app_assoc.
Qed.

Lemma last_seg_full_name pkg p n : no_dot n -> last_seg (full_name pkg (p ++ [n])) = n.
Proof. intros H. destruct (full_name_snoc pkg p n) as [a ->]. now apply last_seg_app_dot. Qed.

(* ---- the package regex ---- *)
Definition no_upper_P (s : str) : Prop := Forall (fun c => is_upper c = false) s.

Lemma no_upper_iff s : no_upper s = true <-> no_upper_P s.
Proof.
  unfold no_upper, no_upper_P. rewrite forallb_forall, Forall_forall.
  split; intros H c Hc; specialize (H c Hc); destruct (is_upper c); cbn in *; congruence.
Qed.

Lemma has_upper_split s : has_upper s = true ->
  exists l U r, s = l ++ U :: r /\ no_upper_P l /\ is_upper U = true.
Proof.
  unfold has_upper. induction s as [|c t IH]; cbn [existsb]; [discriminate|].
  destruct (is_upper c) eqn:E; cbn [orb]; intros H.
  - exists [], c, t. repeat split; [constructor | assumption].
  - destruct (IH H) as (l & U & r & -> & Hl & HU). exists (c :: l), U, r. repeat split; [constructor|]; assumption.
Qed.

Lemma scan_plain a : forall t i best, no_upper_P a -> no_dot a ->
  scan_pkg (a ++ t) i best = scan_pkg t (i + length a) best.
Proof.
  induction a as [|c r IH]; intros t i best Hu Hd; cbn [app length].
  - now rewrite Nat.add_0_r.
  - inversion Hu as [|? ? Hc Hr]; inversion Hd as [|? ? Dc Dr]; subst.
    cbn [scan_pkg]. rewrite Hc, Dc. cbn [andb]. rewrite IH by assumption. f_equal. lia.
Qed.

Lemma scan_to_dot a : forall t i best, no_upper_P a -> t <> [] -> (i + length a <> 0)%nat ->
  scan_pkg (a ++ c_dot :: t) i best = scan_pkg t (S (i + length a)) (Some (i + length a)%nat).
Proof.
  induction a as [|c r IH]; intros t i best Hu Ht Hi; cbn [app length].
  - cbn [scan_pkg]. change (is_upper c_dot) with false. change (is_dot c_dot) with true.
    destruct t; [congruence|]. cbn [is_nil negb andb]. rewrite Nat.add_0_r in *.
    destruct (Nat.eqb_spec i 0); [lia|]. reflexivity.
  - inversion Hu as [|? ? Hc Hr]; subst. cbn [scan_pkg]. rewrite Hc.
    rewrite IH by (try assumption; lia). f_equal; [lia | f_equal; lia].
Qed.

Lemma scan_stop_upper U r i best : is_upper U = true -> scan_pkg (U :: r) i best = best.
Proof. intros H. cbn [scan_pkg]. now rewrite H. Qed.

Lemma is_upper_not_dot U : is_upper U = true -> is_dot U = false.
Proof. destruct U; cbv; congruence. Qed.

Lemma lstrip_dot_nondot c s : is_dot c = false -> lstrip_dot (c :: s) = c :: s.
Proof. intros H. cbn [lstrip_dot]. now rewrite H. Qed.

Lemma skipn_S_app {A} (a : list A) x t : skipn (S (length a)) (a ++ x :: t) = t.
Proof. induction a as [|y a IH]; [reflexivity | exact IH]. Qed.

(* the regex splits a fully-qualified name correctly when the package is free of capitals and the
   top-level type name contains one *)
Lemma parse_full_name pkg top rest :
  no_upper_P pkg -> has_upper top = true -> no_dot top ->
  parse_source_type_name (full_name pkg (top :: rest)) = (pkg, dotted (top :: rest)).
Proof.
  intros Hp Ht Hd.
  destruct (has_upper_split top Ht) as (l & U & r & -> & Hl & HU).
  assert (Dl : no_dot l).
  { unfold no_dot in *. rewrite Forall_forall in *. intros c Hc. apply Hd. apply in_or_app. now left. }
  assert (Hdot : exists tail, dotted (@cons str (l ++ U :: r) rest) = l ++ U :: tail).
  { unfold dotted. destruct rest as [|x xs]; cbn [join].
    - now exists r.
    - exists (r ++ [c_dot] ++ join [c_dot] (x :: xs)). now rewrite <- app_assoc. }
  destruct Hdot as [tail Htail].
  unfold full_name. rewrite !Htail. destruct pkg as [|p0 ps]; cbn [is_nil].
  - (* no package: neither attempt matches *)
    unfold parse_source_type_name. change (is_dot c_dot) with true. cbn iota.
    unfold try_parse.
    rewrite scan_plain, scan_stop_upper by assumption.
    change (c_dot :: l ++ U :: tail) with ([c_dot] ++ l ++ U :: tail).
    cbn [app scan_pkg]. change (is_upper c_dot) with false. change (is_dot c_dot) with true.
    cbn [Nat.eqb negb andb].
    rewrite (andb_false_r (negb (is_nil (l ++ U :: tail)))).
    rewrite scan_plain, scan_stop_upper by assumption.
    f_equal. destruct l as [|l0 ls].
    + cbn [app]. cbn [lstrip_dot]. change (is_dot c_dot) with true. cbn iota.
      apply lstrip_dot_nondot. now apply is_upper_not_dot.
    + cbn [app lstrip_dot]. change (is_dot c_dot) with true. cbn iota.
      apply lstrip_dot_nondot. now inversion Dl.
  - unfold parse_source_type_name. change (is_dot c_dot) with true. cbn iota.
    unfold try_parse.
    rewrite scan_to_dot; [| assumption | destruct l; discriminate | cbn [length]; lia ].
    rewrite scan_plain, scan_stop_upper by assumption.
    cbn [Nat.add].
    rewrite firstn_app, Nat.sub_diag, firstn_all, firstn_O, app_nil_r.
    now rewrite skipn_S_app.
Qed.

(* ======================================================================================
   Part 2 — tables (re-proved against the regenerated gen/C03Tables.v on every run) and symbols
   ====================================================================================== *)
Definition str_dec : forall a b : str, {a = b} + {a <> b} := list_eq_dec Byte.byte_eq_dec.

Lemma lookup_not_in {A} k (l : list (str * A)) : ~ In k (map fst l) -> lookup k l = None.
Proof.
  induction l as [|[k' v] r IH]; intros H; [reflexivity|].
  cbn [lookup]. destruct (str_eqb k k') eqn:E.
  - apply str_eqb_eq in E. subst. exfalso. apply H. now left.
  - apply IH. intros Hin. apply H. now right.
Qed.

Lemma lookup_some_in {A} k v (l : list (str * A)) : lookup k l = Some v -> In (k, v) l.
Proof.
  induction l as [|[k' v'] r IH]; [discriminate|].
  cbn [lookup]. destruct (str_eqb k k') eqn:E.
  - apply str_eqb_eq in E. intros [= ->]. subst. now left.
  - intros H. right. auto.
Qed.

Lemma lookups_agree {A B} (g : B -> A) (l1 : list (str * A)) (l2 : list (str * B)) :
  Forall (fun k => lookup k l1 = option_map g (lookup k l2)) (map fst l1 ++ map fst l2) ->
  forall k, lookup k l1 = option_map g (lookup k l2).
Proof.
  intros H k. rewrite Forall_forall in H.
  destruct (in_dec str_dec k (map fst l1 ++ map fst l2)) as [Hin | Hn]; [now apply H|].
  rewrite !lookup_not_in; [reflexivity | |]; intros Hc; apply Hn; apply in_or_app; [right | left]; assumption.
Qed.

Lemma wrappers_agree tn : lookup tn WRAPPER_TYPES = option_map snd (lookup tn wkt_wrappers).
Proof.
  apply lookups_agree. repeat (constructor; [vm_compute; reflexivity|]). constructor.
Qed.

Lemma duration_const : s_Duration = wkt_duration. Proof. reflexivity. Qed.
Lemma timestamp_const : s_Timestamp = wkt_timestamp. Proof. reflexivity. Qed.
Lemma gp_const : s_gp = google_protobuf. Proof. reflexivity. Qed.
Lemma bundled_const : s_bundled_gp = bundled_google_protobuf. Proof. reflexivity. Qed.

Definition valid_types : list Z := [1; 2; 3; 4; 5; 6; 7; 8; 9; 11; 12; 13; 14; 15; 16; 17; 18].

Lemma kind_name_in t kn : kind_name t = Some kn -> In t valid_types.
Proof.
  unfold kind_name, scalar_kind, T_DOUBLE, T_FLOAT, T_INT64, T_UINT64, T_INT32, T_FIXED64, T_FIXED32, T_BOOL,
    T_STRING, T_BYTES, T_UINT32, T_SFIXED32, T_SFIXED64, T_SINT32, T_SINT64, T_MESSAGE, T_ENUM.
  repeat match goal with
         | |- context [?a =? ?b] => destruct (Z.eqb_spec a b) as [->|]; [intros _; cbn; tauto|]
         end.
  discriminate.
Qed.

(* shapes of value types: [prim] scalars, [simple] what py_type can return *)
Definition prim (t : pytype) : Prop :=
  match t with PyInt | PyFloat | PyBool | PyStr | PyBytes => True | _ => False end.
Definition simple (t : pytype) : Prop :=
  match t with
  | PyOptional u => prim u
  | PyList _ | PyDict _ _ => False
  | _ => True
  end.

Lemma prim_simple t : prim t -> simple t.
Proof. destruct t; cbn; tauto. Qed.

Lemma simple_norm t : simple t -> norm_hint t = t.
Proof. destruct t as [| | | | | | | | u | |]; cbn [simple]; try tauto; try reflexivity. destruct u; cbn; tauto. Qed.

Lemma wrapper_values_prim : Forall (fun kv => prim (snd kv)) WRAPPER_TYPES.
Proof. repeat (constructor; [exact I|]). constructor. Qed.

Lemma type_reference_simple cn pkg tn : simple (type_reference cn pkg tn).
Proof.
  unfold type_reference. destruct (lookup tn WRAPPER_TYPES) as [py|] eqn:E.
  - apply lookup_some_in in E. pose proof wrapper_values_prim as F. rewrite Forall_forall in F. exact (F _ E).
  - destruct (str_eqb tn s_Duration); [exact I|]. destruct (str_eqb tn s_Timestamp); [exact I|].
    destruct (parse_source_type_name tn). exact I.
Qed.

(* what the plugin's tables say about one descriptor.proto type number *)
Definition type_row_ok (t : Z) : Prop :=
  match kind_name t with
  | None => True
  | Some kn =>
      field_type_str t = Ok kn
      /\ lookup kn bp_field_proto_type = Some kn
      /\ (exists aw, lookup kn bp_field_accepts = Some (aw, true, true) /\ (t = T_MESSAGE -> aw = true))
      /\ (exists nm, type_enum_name t = Ok nm /\ lookup nm bp_type_constants = Some kn)
      /\ (forall cn pkg f, fd_type f = t ->
            py_type cn pkg f = match scalar_kind t with
                               | Some (_, py) => Ok py
                               | None => Ok (type_reference cn pkg (fd_type_name f))
                               end)
      /\ match scalar_kind t with Some (_, py) => prim py | None => True end
  end.

Lemma type_table_ok : Forall type_row_ok valid_types.
Proof.
  unfold valid_types.
  repeat (constructor;
          [ hnf; split; [vm_compute; reflexivity|];
            split; [vm_compute; reflexivity|];
            split; [eexists; split; [vm_compute; reflexivity | intros E; try discriminate E; reflexivity]|];
            split; [eexists; split; vm_compute; reflexivity|];
            split; [intros cn pkg f E; unfold py_type; rewrite E; reflexivity | exact I]
          |]).
  constructor.
Qed.

Lemma type_row t kn : kind_name t = Some kn -> type_row_ok t.
Proof.
  intros H. pose proof type_table_ok as F. rewrite Forall_forall in F. apply F. eapply kind_name_in; eauto.
Qed.

Lemma map_helper_ok : lookup s_map bp_field_proto_type = Some s_map
                      /\ exists aw ao, lookup s_map bp_field_accepts = Some (aw, ao, true).
Proof. split; [vm_compute; reflexivity | do 2 eexists; vm_compute; reflexivity]. Qed.

Lemma type_message_num : TYPE_MESSAGE_NUM = T_MESSAGE. Proof. reflexivity. Qed.
Lemma label_repeated_num : LABEL_REPEATED_NUM = L_REPEATED. Proof. reflexivity. Qed.

(* ---- induction over nested messages ---- *)
Section MsgInd.
  Variable P : msg_d -> Prop.
  Hypothesis Hstep : forall n fs ns es os me, Forall P ns -> P (mkMsg n fs ns es os me).
  Fixpoint msg_d_ind' (m : msg_d) : P m :=
    match m with
    | mkMsg n fs ns es os me =>
        Hstep n fs ns es os me
          ((fix go (l : list msg_d) : Forall P l :=
              match l with
              | [] => Forall_nil P
              | x :: r => Forall_cons x (msg_d_ind' x) (go r)
              end) ns)
    end.
End MsgInd.

Lemma all_msgs_unfold pre m :
  all_msgs pre m = (pre ++ [md_name m], m) :: flat_map (all_msgs (pre ++ [md_name m])) (md_nested m).
Proof. destruct m; reflexivity. Qed.

Lemma all_enums_in_unfold pre m :
  all_enums_in pre m = map (fun e => ((pre ++ [md_name m]) ++ [ed_name e], e)) (md_enums m)
                       ++ flat_map (all_enums_in (pre ++ [md_name m])) (md_nested m).
Proof. destruct m; reflexivity. Qed.

Lemma all_msgs_head m : forall pre p x, In (p, x) (all_msgs pre m) -> exists rest, p = pre ++ md_name m :: rest.
Proof.
  induction m as [n fs ns es os me IH] using msg_d_ind'. intros pre p x.
  rewrite all_msgs_unfold. cbn [md_name md_nested]. intros [E | Hin].
  - injection E as <- <-. now exists [].
  - apply in_flat_map in Hin as (y & Hy & Hin). rewrite Forall_forall in IH.
    destruct (IH y Hy _ _ _ Hin) as [rest ->]. exists (md_name y :: rest). now rewrite <- app_assoc.
Qed.

Lemma all_enums_in_head m : forall pre p x, In (p, x) (all_enums_in pre m) -> exists rest, p = pre ++ md_name m :: rest.
Proof.
  induction m as [n fs ns es os me IH] using msg_d_ind'. intros pre p x.
  rewrite all_enums_in_unfold. cbn [md_name md_nested md_enums]. intros Hin. apply in_app_or in Hin as [Hin | Hin].
  - apply in_map_iff in Hin as (e & E & _). injection E as <- <-. exists [ed_name e]. now rewrite <- app_assoc.
  - apply in_flat_map in Hin as (y & Hy & Hin). rewrite Forall_forall in IH.
    destruct (IH y Hy _ _ _ Hin) as [rest ->]. exists (md_name y :: rest). now rewrite <- app_assoc.
Qed.

Lemma all_msgs_nested m : forall pre p x e, In (p, x) (all_msgs pre m) -> In e (md_nested x) ->
  In (p ++ [md_name e], e) (all_msgs pre m).
Proof.
  induction m as [n fs ns es os me IH] using msg_d_ind'. intros pre p x e.
  rewrite all_msgs_unfold. cbn [md_name md_nested]. intros [E | Hin] He.
  - injection E as <- <-. cbn [md_nested] in He. right. apply in_flat_map. exists e. split; [assumption|].
    rewrite all_msgs_unfold. now left.
  - right. apply in_flat_map in Hin as (y & Hy & Hin). apply in_flat_map. exists y. split; [assumption|].
    rewrite Forall_forall in IH. eapply IH; eauto.
Qed.

(* a symbol of D lives in a file of D, and its path starts with a top-level name of that file *)
Lemma symbols_in D s : In s (symbols D) ->
  exists f top rest, In f D /\ sym_pkg s = fl_package f /\ sym_path s = top :: rest
    /\ ((exists m, In m (fl_messages f) /\ md_name m = top) \/ (exists e, In e (fl_enums f) /\ ed_name e = top)).
Proof.
  unfold symbols. intros H. apply in_flat_map in H as (f & Hf & H). exists f.
  unfold file_symbols in H. apply in_app_or in H as [H | H]; apply in_map_iff in H as ([p x] & <- & H); cbn [sym_pkg sym_path].
  - unfold file_msgs in H. apply in_flat_map in H as (m & Hm & H).
    destruct (all_msgs_head _ _ _ _ H) as [rest ->]. exists (md_name m), rest. cbn [app]. repeat split; eauto.
  - unfold file_enums in H. apply in_app_or in H as [H | H].
    + apply in_map_iff in H as (e & E & He). injection E as <- <-. exists (ed_name e), []. repeat split; eauto.
    + apply in_flat_map in H as (m & Hm & H).
      destruct (all_enums_in_head _ _ _ _ H) as [rest ->]. exists (md_name m), rest. cbn [app]. repeat split; eauto.
Qed.

Lemma resolve_some D tn s : resolve D tn = Some s -> In s (symbols D) /\ sym_full_name s = tn.
Proof. unfold resolve. intros H. apply find_some in H as [Hin E]. apply str_eqb_eq in E. auto. Qed.

(* ======================================================================================
   Part 3 — one field
   ====================================================================================== *)
Lemma mapM_ok {A B} (f : A -> result B) (l : list A) (g : A -> B) :
  (forall a, In a l -> f a = Ok (g a)) -> mapM f l = Ok (map g l).
Proof.
  induction l as [|a r IH]; intros H; [reflexivity|].
  cbn [mapM map]. rewrite (H a) by now left. cbn [bind]. rewrite IH by (intros; apply H; now right). reflexivity.
Qed.

Lemma nodupb_NoDup l : nodupb l = true -> NoDup l.
Proof.
  induction l as [|x r IH]; intros H; [constructor|].
  cbn [nodupb] in H. apply andb_prop in H as [Hx Hr]. constructor; [|auto].
  intros Hin. apply negb_true_iff in Hx. unfold smem in Hx.
  assert (existsb (str_eqb x) r = true) as E; [|congruence].
  apply existsb_exists. exists x. split; [assumption | apply str_eqb_refl].
Qed.

(* in a list whose elements have pairwise distinct keys, a filter all of whose results share the key
   of one of them returns exactly that element *)
Lemma filter_unique {A} (key : A -> str) (P : A -> bool) (l : list A) (e : A) :
  NoDup (map key l) -> In e l -> P e = true ->
  (forall n, In n (filter P l) -> key n = key e) -> filter P l = [e].
Proof.
  induction l as [|a r IH]; intros Hnd Hin HP Hall; [contradiction|].
  inversion Hnd as [|? ? Hna Hnr]; subst. cbn [filter] in *. destruct Hin as [-> | Hin].
  - rewrite HP in *. f_equal.
    assert (Hempty : forall b, In b (filter P r) -> False).
    { intros b Hb. apply Hna. rewrite <- (Hall b (or_intror Hb)). apply in_map. apply filter_In in Hb. tauto. }
    destruct (filter P r) as [|b t]; [reflexivity|]. exfalso. apply (Hempty b). now left.
  - destruct (P a) eqn:Pa.
    + exfalso. apply Hna. rewrite (Hall a (or_introl eq_refl)). now apply in_map.
    + apply IH; auto.
Qed.

Lemma nth_error_nth {A} (l : list A) n d : (n < length l)%nat -> nth_error l n = Some (nth n l d).
Proof. revert n; induction l as [|a r IH]; intros [|n] H; cbn in *; try lia; [reflexivity | apply IH; lia]. Qed.

Lemma py_index_ok {A} (l : list A) i d : 0 <= i < Zlength l -> py_index l i = Ok (nth (Z.to_nat i) l d).
Proof.
  intros H. unfold py_index. destruct (Z.ltb_spec i 0); [lia|].
  destruct (Z.leb_spec 0 i); [|lia]. destruct (Z.ltb_spec i (Zlength l)); [|lia]. cbn [andb].
  rewrite (nth_error_nth l (Z.to_nat i) d); [reflexivity|]. unfold Zlength in H. lia.
Qed.

Lemma mapM_Forall2 {A B} (f : A -> result B) (Q : A -> B -> Prop) (l : list A) :
  (forall a, In a l -> exists y, f a = Ok y /\ Q a y) ->
  exists ys, mapM f l = Ok ys /\ Forall2 Q l ys.
Proof.
  induction l as [|a r IH]; intros H.
  - exists []. split; [reflexivity | constructor].
  - destruct (H a (or_introl eq_refl)) as (y & Hy & Qy).
    destruct IH as (ys & Hys & Fys); [intros; apply H; now right|].
    exists (y :: ys). cbn [mapM]. rewrite Hy. cbn [bind]. rewrite Hys. cbn [bind]. split; [reflexivity | now constructor].
Qed.

Lemma mapM_map {A B C} (f : B -> result C) (g : A -> B) (l : list A) :
  mapM f (map g l) = mapM (fun a => f (g a)) l.
Proof. induction l as [|a r IH]; [reflexivity|]. cbn [map mapM]. now rewrite IH. Qed.

Lemma all_some_Forall2 {A B C} (h : A -> option C) (r : B -> C) (l : list A) (ys : list B) :
  Forall2 (fun a y => h a = Some (r y)) l ys -> all_some (map h l) = Some (map r ys).
Proof.
  induction 1 as [|a y l ys Hy _ IH]; [reflexivity|]. cbn [map all_some]. now rewrite Hy, IH.
Qed.

Lemma Forall2_impl {A B} (P Q : A -> B -> Prop) l ys :
  (forall a y, P a y -> Q a y) -> Forall2 P l ys -> Forall2 Q l ys.
Proof. intros H. induction 1; constructor; auto. Qed.

Lemma Forall2_map_eq {A B C} (g : A -> C) (h : B -> C) l ys :
  Forall2 (fun a y => h y = g a) l ys -> map h ys = map g l.
Proof. induction 1 as [|a y l ys E _ IH]; [reflexivity|]. cbn [map]. now rewrite E, IH. Qed.

Lemma ns_insert_fresh {A} k (v : A) l : ~ In k (map fst l) -> ns_insert k v l = l ++ [(k, v)].
Proof.
  induction l as [|[k' v'] r IH]; intros H; [reflexivity|].
  cbn [ns_insert]. destruct (str_eqb k k') eqn:E.
  - apply str_eqb_eq in E. subst. exfalso. apply H. now left.
  - cbn [app]. f_equal. apply IH. intros Hin. apply H. now right.
Qed.

Lemma py_namespace_aux {A} (l acc : list (str * A)) : NoDup (map fst (acc ++ l)) ->
  fold_left (fun a kv => ns_insert (fst kv) (snd kv) a) l acc = acc ++ l.
Proof.
  revert acc. induction l as [|[k v] r IH]; intros acc H; cbn [fold_left].
  - now rewrite app_nil_r.
  - cbn [fst snd]. rewrite ns_insert_fresh.
    + rewrite IH; rewrite <- app_assoc; [reflexivity | exact H].
    + rewrite map_app in H. apply NoDup_remove_2 in H. intros Hin. apply H. apply in_or_app. now left.
Qed.

(* with pairwise distinct names, nothing is replaced *)
Lemma py_namespace_nodup {A} (l : list (str * A)) : NoDup (map fst l) -> py_namespace l = l.
Proof. intros H. unfold py_namespace. now rewrite py_namespace_aux. Qed.

Lemma filter_map_comm {A B} (g : A -> B) (P : B -> bool) (l : list A) :
  filter P (map g l) = map g (filter (fun a => P (g a)) l).
Proof. induction l as [|a r IH]; [reflexivity|]. cbn [map filter]. destruct (P (g a)); cbn [map]; now rewrite IH. Qed.

Lemma map_flat_map {A B C} (g : B -> C) (F : A -> list B) (l : list A) :
  map g (flat_map F l) = flat_map (fun a => map g (F a)) l.
Proof. induction l as [|a r IH]; [reflexivity|]. cbn [flat_map]. now rewrite map_app, IH. Qed.

Lemma flat_map_ext_in {A B} (F G : A -> list B) (l : list A) :
  (forall a, In a l -> F a = G a) -> flat_map F l = flat_map G l.
Proof.
  induction l as [|a r IH]; intros H; [reflexivity|]. cbn [flat_map].
  rewrite (H a) by now left. rewrite IH; [reflexivity|]. intros; apply H; now right.
Qed.

Lemma flat_snoc pre n : flat (pre ++ [n]) = flat pre ++ c_us :: n.
Proof. unfold flat. rewrite map_app, concat_app. cbn [map concat]. now rewrite app_nil_r. Qed.

Section Faithful.
  Variable field_name : str -> str.
  Variable class_name : str -> str.
  Variable enum_member_name : str -> str -> str.
  Variable D : descriptor.
  Hypothesis Hwf : protoc_wf D = true.
  Hypothesis Hpk : pkg_names_ok D = true.

  Lemma wf_file f : In f D -> file_wf D f = true.
  Proof. intros H. unfold protoc_wf in Hwf. rewrite forallb_forall in Hwf. auto. Qed.

  Lemma wf_msg f p m : In f D -> In (p, m) (file_msgs f) -> msg_wf D (fl_package f) (p, m) = true.
  Proof.
    intros Hf Hm. pose proof (wf_file f Hf) as H. unfold file_wf in H.
    apply andb_prop in H as [H _]. apply andb_prop in H as [H _]. rewrite forallb_forall in H. auto.
  Qed.

  Lemma wf_msg_parts pkg p m : msg_wf D pkg (p, m) = true ->
    ident (md_name m) = true
    /\ (forall x, In x (md_fields m) -> field_wf D pkg p m x = true)
    /\ (forall e, In e (md_enums m) -> ident (ed_name e) = true)
    /\ NoDup (map md_name (md_nested m))
    /\ (md_map_entry m = true -> map_entry_wf m = true).
  Proof.
    unfold msg_wf. cbn [fst snd]. intros H.
    apply andb_prop in H as [H H5]. apply andb_prop in H as [H H4]. apply andb_prop in H as [H H3].
    apply andb_prop in H as [H1 H2]. rewrite forallb_forall in H2, H3.
    repeat split; auto using nodupb_NoDup.
    intros E. rewrite E in H5. exact H5.
  Qed.

  Lemma top_level_ok f : In f D ->
    no_upper_P (fl_package f)
    /\ (forall m, In m (fl_messages f) -> has_upper (md_name m) = true /\ ident (md_name m) = true)
    /\ (forall e, In e (fl_enums f) -> has_upper (ed_name e) = true /\ ident (ed_name e) = true).
  Proof.
    intros Hf. unfold pkg_names_ok in Hpk. rewrite forallb_forall in Hpk. specialize (Hpk f Hf).
    apply andb_prop in Hpk as [H He]. apply andb_prop in H as [Hp Hm].
    rewrite forallb_forall in Hm, He. split; [now apply no_upper_iff|]. split.
    - intros m Hin. split; [auto|].
      assert (Hmm : In ([md_name m], m) (file_msgs f)).
      { unfold file_msgs. apply in_flat_map. exists m. split; [assumption|]. rewrite all_msgs_unfold. now left. }
      apply (wf_msg_parts _ _ _ (wf_msg f _ _ Hf Hmm)).
    - intros e Hin. split; [auto|]. pose proof (wf_file f Hf) as H. unfold file_wf in H.
      apply andb_prop in H as [H _]. apply andb_prop in H as [_ H]. rewrite forallb_forall in H. auto.
  Qed.

  (* the package regex agrees with the symbol table *)
  Lemma ref_ok tn s : resolve D tn = Some s -> parse_source_type_name tn = (sym_pkg s, dotted (sym_path s)).
  Proof.
    intros H. apply resolve_some in H as [Hin <-].
    destruct (symbols_in D s Hin) as (f & top & rest & Hf & Ep & Epath & Htop).
    destruct (top_level_ok f Hf) as (Hp & Hm & He).
    unfold sym_full_name. rewrite Ep, Epath.
    assert (Hu : has_upper top = true /\ ident top = true).
    { destruct Htop as [(m & Hin' & <-) | (e & Hin' & <-)]; auto. }
    destruct Hu as [Hu Hi]. apply parse_full_name; [assumption | assumption | now apply ident_no_dot].
  Qed.

  Lemma py_type_ok pkg pkg' p' m' x : field_wf D pkg' p' m' x = true ->
    exists t kn, py_type class_name pkg x = Ok t /\ kind_name (fd_type x) = Some kn /\ simple t
      /\ (pkg <> google_protobuf -> spec_value_type class_name D x = Some t).
  Proof.
    intros H. unfold field_wf in H. apply andb_prop in H as [H _]. apply andb_prop in H as [H _].
    destruct (scalar_kind (fd_type x)) as [[kn py]|] eqn:Es.
    - assert (Hk : kind_name (fd_type x) = Some kn) by (unfold kind_name; now rewrite Es).
      pose proof (type_row _ _ Hk) as R. unfold type_row_ok in R. rewrite Hk in R.
      destruct R as (_ & _ & _ & _ & R & Rp). specialize (R class_name pkg x eq_refl). rewrite Es in R, Rp.
      exists py, kn. split; [assumption|]. split; [assumption|]. split; [now apply prim_simple|].
      intros _. unfold spec_value_type. now rewrite Es.
    - destruct (resolve D (fd_type_name x)) as [s|] eqn:Er; [|discriminate].
      assert (Ht : (fd_type x =? T_MESSAGE) || (fd_type x =? T_ENUM) = true).
      { destruct s; rewrite H; [reflexivity | apply orb_true_r]. }
      assert (Hk : exists kn, kind_name (fd_type x) = Some kn).
      { unfold kind_name. rewrite Es. destruct (fd_type x =? T_MESSAGE); [eauto|].
        cbn [orb] in Ht. rewrite Ht. eauto. }
      destruct Hk as [kn Hk].
      pose proof (type_row _ _ Hk) as R. unfold type_row_ok in R. rewrite Hk in R.
      destruct R as (_ & _ & _ & _ & R & _). specialize (R class_name pkg x eq_refl). rewrite Es in R.
      eexists; exists kn. split; [exact R|]. split; [assumption|]. split; [apply type_reference_simple|].
      intros Hpkg. unfold spec_value_type, type_reference. rewrite Es, Ht, wrappers_agree.
      destruct (lookup (fd_type_name x) wkt_wrappers) as [[k py]|]; cbn [option_map snd]; [reflexivity|].
      rewrite duration_const, timestamp_const.
      destruct (str_eqb (fd_type_name x) wkt_duration); [reflexivity|].
      destruct (str_eqb (fd_type_name x) wkt_timestamp); [reflexivity|].
      rewrite Er, (ref_ok _ _ Er). rewrite gp_const, bundled_const.
      apply str_eqb_neq in Hpkg. rewrite Hpkg. cbn [negb]. rewrite andb_true_r. reflexivity.
  Qed.

  (* the heuristic never misses a real map field (needs only protoc's guarantees) *)
  Lemma is_map_complete pkg p m x e :
    field_wf D pkg p m x = true -> (forall n, In n (md_nested m) -> ident (md_name n) = true) ->
    spec_map_entry pkg p m x = Some e -> is_map x m = true /\ In e (heur_cands m x).
  Proof.
    intros Hx Hid Hs. unfold spec_map_entry in Hs.
    destruct (fd_type x =? T_MESSAGE) eqn:Et; [|discriminate].
    apply find_some in Hs as [Hin Hc]. apply andb_prop in Hc as [Hme Hfn]. apply str_eqb_eq in Hfn.
    unfold field_wf in Hx. apply andb_prop in Hx as [_ Hx]. rewrite forallb_forall in Hx. specialize (Hx e Hin).
    rewrite Hme, Hfn, str_eqb_refl in Hx. cbn [andb negb orb] in Hx. apply str_eqb_eq in Hx.
    assert (Hk : lower (strip_us (md_name e)) = lower (strip_us (fd_name x)) ++ s_entry).
    { rewrite Hx. apply lower_strip_map_entry_name. }
    assert (Hc : In e (heur_cands m x)).
    { unfold heur_cands. apply filter_In. split; [assumption|]. now rewrite Hk, str_eqb_refl, Hme. }
    split; [|assumption].
    unfold is_map. rewrite type_message_num, Et, <- Hfn.
    rewrite last_seg_full_name by (apply ident_no_dot; auto).
    rewrite Hx at 1. rewrite lower_map_entry_name, str_eqb_refl.
    apply existsb_exists. exists e. split; [assumption|]. now rewrite Hk, str_eqb_refl, Hme.
  Qed.

  Lemma nested_in_file f p m e : In (p, m) (file_msgs f) -> In e (md_nested m) ->
    In (p ++ [md_name e], e) (file_msgs f).
  Proof.
    unfold file_msgs. intros H He. apply in_flat_map in H as (top & Ht & H).
    apply in_flat_map. exists top. split; [assumption|]. eapply all_msgs_nested; eauto.
  Qed.

  Lemma spec_group_ok m x : (match fd_oneof_index x with
                             | Some i => (0 <=? i) && (i <? Zlength (md_oneofs m))
                             | None => true end) = true ->
    exists g, (if is_oneof x
               then match fd_oneof_index x with
                    | Some i => do g <- py_index (md_oneofs m) i; Ok (Some g)
                    | None => Err EOther
                    end
               else Ok None) = Ok g /\ spec_group m x = Some g.
  Proof.
    intros H. unfold is_oneof, spec_group. destruct (fd_oneof_index x) as [i|].
    - rewrite H. destruct (fd_proto3_optional x); cbn [negb andb]; [eauto|].
      apply andb_prop in H as [H1 H2]. apply Z.leb_le in H1. apply Z.ltb_lt in H2.
      rewrite (py_index_ok (md_oneofs m) i ([] : str)) by lia. cbn [bind]. eauto.
    - rewrite andb_false_r. eauto.
  Qed.

  Lemma compile_plain_ok f p m x :
    In f D -> In (p, m) (file_msgs f) -> In x (md_fields m) ->
    spec_map_entry (fl_package f) p m x = None ->
    opt_str_eqb (field_wraps (fd_type_name x)) (spec_wraps x) = true ->
    exists cf, compile_plain field_name class_name (fl_package f) m x (is_oneof x) = Ok cf
      /\ pf_name cf = field_name (fd_name x)
      /\ (fl_package f <> google_protobuf ->
          spec_field field_name class_name D (fl_package f) p m x = Some (reflect_field cf)).
  Proof.
    intros Hf Hm Hx Hsp Hw.
    destruct (wf_msg_parts _ _ _ (wf_msg f p m Hf Hm)) as (_ & Hfw & _).
    specialize (Hfw x Hx).
    destruct (py_type_ok (fl_package f) _ _ _ _ Hfw) as (t & kn & Hpy & Hk & Hsimple & Hsv).
    pose proof (type_row _ _ Hk) as R. unfold type_row_ok in R. rewrite Hk in R.
    destruct R as (Hft & Hpt & (aw & Hacc & Haw) & _ & _).
    assert (Hg := Hfw). unfold field_wf in Hg. apply andb_prop in Hg as [Hg _]. apply andb_prop in Hg as [_ Hg].
    destruct (spec_group_ok m x Hg) as (g & Hg1 & Hg2).
    assert (Hwr : field_wraps (fd_type_name x) = spec_wraps x).
    { destruct (field_wraps (fd_type_name x)), (spec_wraps x); cbn in Hw; try discriminate; [|reflexivity].
      apply str_eqb_eq in Hw. now subst. }
    assert (Hhelp : field_helper kn (spec_wraps x) (fd_proto3_optional x) g = Ok kn).
    { unfold field_helper. rewrite Hpt, Hacc.
      assert (E : match spec_wraps x with Some _ => negb aw | None => false end = false).
      { unfold spec_wraps. destruct (fd_type x =? T_MESSAGE) eqn:Et; [|reflexivity].
        apply Z.eqb_eq in Et. rewrite (Haw Et).
        destruct (lookup (fd_type_name x) wkt_wrappers) as [[k0 py0]|]; reflexivity. }
      rewrite E. cbn [negb orb andb]. rewrite andb_false_r. now destruct g. }
    unfold compile_plain. rewrite Hpy. cbn [bind]. rewrite Hft. cbn [bind].
    rewrite Hg1. cbn [bind]. rewrite Hwr, Hhelp. cbn [bind].
    eexists. split; [reflexivity|]. split; [reflexivity|].
    intros Hpkg. unfold spec_field. rewrite Hsp, Hk, (Hsv Hpkg), Hg2. unfold reflect_field. cbn [pf_name pf_number
      pf_proto_type pf_map_types pf_group pf_wraps pf_optional pf_hint]. rewrite label_repeated_num.
    do 2 f_equal. pose proof (simple_norm t Hsimple) as Hn.
    destruct (fd_label x =? L_REPEATED); [cbn [norm_hint]; now rewrite Hn|].
    destruct (fd_proto3_optional x); [|now rewrite Hn].
    cbn [norm_hint]. rewrite Hn. destruct t; reflexivity.
  Qed.
  Lemma compile_map_unfold pkg m x :
    compile_map field_name class_name pkg m x =
    (do kvs <- mapM (fun n =>
                do k <- py_index (md_fields n) 0;
                do v <- py_index (md_fields n) 1;
                do pk <- py_type class_name pkg k;
                do pv <- py_type class_name pkg v;
                do nk <- type_enum_name (fd_type k);
                do nv <- type_enum_name (fd_type v);
                Ok (pk, pv, nk, nv)) (heur_cands m x);
     match last (map Some kvs) None with
     | Some (pk, pv, nk, nv) =>
         match lookup nk bp_type_constants, lookup nv bp_type_constants with
         | Some ck, Some cvv =>
             do pt <- field_helper s_map None false None;
             Ok (mkPyField (field_name (fd_name x)) (fd_number x) pt (Some (ck, cvv)) None None false (PyDict pk pv))
         | _, _ => Err EAttribute
         end
     | None => Err EOther
     end).
  Proof. reflexivity. Qed.

  Lemma nested_ident f p m : In f D -> In (p, m) (file_msgs f) ->
    forall n, In n (md_nested m) -> ident (md_name n) = true.
  Proof.
    intros Hf Hm n Hn. pose proof (nested_in_file f p m n Hm Hn) as Hin.
    apply (wf_msg_parts _ _ _ (wf_msg f _ _ Hf Hin)).
  Qed.

  Lemma compile_map_ok f p m x e :
    In f D -> In (p, m) (file_msgs f) -> In x (md_fields m) ->
    spec_map_entry (fl_package f) p m x = Some e ->
    (forall n, In n (heur_cands m x) -> md_name n = md_name e) ->
    exists cf, compile_map field_name class_name (fl_package f) m x = Ok cf
      /\ pf_name cf = field_name (fd_name x)
      /\ (fl_package f <> google_protobuf ->
          spec_field field_name class_name D (fl_package f) p m x = Some (reflect_field cf)).
  Proof.
    intros Hf Hm Hx Hsp Hall.
    destruct (wf_msg_parts _ _ _ (wf_msg f p m Hf Hm)) as (_ & Hfw & _ & Hnd & _).
    destruct (is_map_complete _ _ _ _ _ (Hfw x Hx) (nested_ident f p m Hf Hm) Hsp) as [_ Hc].
    assert (He : In e (md_nested m) /\ md_map_entry e = true).
    { unfold heur_cands in Hc. apply filter_In in Hc as [Hin Hc]. apply andb_prop in Hc. tauto. }
    destruct He as [He Hme].
    assert (Hcands : heur_cands m x = [e]).
    { unfold heur_cands in *. apply (filter_unique md_name); auto. apply filter_In in Hc. tauto. }
    pose proof (nested_in_file f p m e Hm He) as Hein.
    destruct (wf_msg_parts _ _ _ (wf_msg f _ _ Hf Hein)) as (_ & Hefw & _ & _ & Hmw).
    specialize (Hmw Hme). unfold map_entry_wf in Hmw.
    destruct (md_fields e) as [|k [|v [|w ws]]] eqn:Ef; try discriminate.
    apply andb_prop in Hmw as [Hk1 Hv2]. apply Z.eqb_eq in Hk1, Hv2.
    destruct (py_type_ok (fl_package f) _ _ _ _ (Hefw k (or_introl eq_refl)))
      as (tk & knk & Hpyk & Hkk & Hsk & Hsvk).
    destruct (py_type_ok (fl_package f) _ _ _ _ (Hefw v (or_intror (or_introl eq_refl))))
      as (tv & knv & Hpyv & Hkv & Hsv & Hsvv).
    pose proof (type_row _ _ Hkk) as Rk. unfold type_row_ok in Rk. rewrite Hkk in Rk.
    destruct Rk as (_ & _ & _ & (nk & Hnk & Hck) & _).
    pose proof (type_row _ _ Hkv) as Rv. unfold type_row_ok in Rv. rewrite Hkv in Rv.
    destruct Rv as (_ & _ & _ & (nv & Hnv & Hcv) & _).
    destruct map_helper_ok as (Hmp & aw & ao & Hma).
    rewrite compile_map_unfold, Hcands. cbn [mapM]. rewrite Ef.
    change (py_index [k; v] 0) with (Ok k). change (py_index [k; v] 1) with (Ok v). cbn [bind].
    rewrite Hpyk, Hpyv. cbn [bind]. rewrite Hnk, Hnv. cbn [bind map last].
    rewrite Hck, Hcv. unfold field_helper. rewrite Hmp, Hma. cbn [orb andb bind].
    eexists. split; [reflexivity|]. split; [reflexivity|].
    intros Hpkg. unfold spec_field. rewrite Hsp. unfold field_numbered. rewrite Ef. cbn [find].
    rewrite Hk1, Hv2. cbn [Z.eqb Pos.eqb]. rewrite Hkk, Hkv, (Hsvk Hpkg), (Hsvv Hpkg).
    unfold reflect_field. cbn [pf_name pf_number pf_proto_type pf_map_types pf_group pf_wraps pf_optional pf_hint norm_hint].
    now rewrite (simple_norm _ Hsk), (simple_norm _ Hsv).
  Qed.

  (* one field: the plugin's reading is the specification's *)
  Lemma compile_field_ok f p m x :
    In f D -> In (p, m) (file_msgs f) -> In x (md_fields m) ->
    map_keys_ok_msg (fl_package f) (p, m) = true ->
    opt_str_eqb (field_wraps (fd_type_name x)) (spec_wraps x) = true ->
    exists cf, compile_field field_name class_name (fl_package f) m x = Ok cf
      /\ pf_name cf = field_name (fd_name x)
      /\ (fl_package f <> google_protobuf ->
          spec_field field_name class_name D (fl_package f) p m x = Some (reflect_field cf)).
  Proof.
    intros Hf Hm Hx Hmk Hw. unfold map_keys_ok_msg in Hmk. cbn [fst snd] in Hmk.
    rewrite forallb_forall in Hmk. specialize (Hmk x Hx).
    unfold compile_field.
    destruct (spec_map_entry (fl_package f) p m x) as [e|] eqn:Hsp.
    - destruct (wf_msg_parts _ _ _ (wf_msg f p m Hf Hm)) as (_ & Hfw & _).
      destruct (is_map_complete _ _ _ _ _ (Hfw x Hx) (nested_ident f p m Hf Hm) Hsp) as [-> _].
      apply (compile_map_ok f p m x e); auto.
      rewrite forallb_forall in Hmk. intros n Hn. apply str_eqb_eq. auto.
    - apply negb_true_iff in Hmk. rewrite Hmk.
      destruct (compile_plain_ok f p m x Hf Hm Hx Hsp Hw) as (cf & Hc & Hrest).
      exists cf. split; [|assumption]. now destruct (is_oneof x).
  Qed.

  (* ====================================================================================
     Part 4 — classes, traversal, modules
     ==================================================================================== *)
  Hypothesis Hfd : flat_dotted_ok class_name D = true.
  Hypothesis Hcn : class_nodup class_name D = true.
  Hypothesis Hfn : fields_nodup field_name D = true.
  Hypothesis Hmn : members_nodup enum_member_name D = true.
  Hypothesis Hmk : map_keys_ok D = true.
  Hypothesis Hwr : wraps_ok D = true.

  Lemma flat_dotted_msg f p m : In f D -> In (p, m) (file_msgs f) -> class_name (flat p) = class_name (dotted p).
  Proof.
    intros Hf Hm. unfold flat_dotted_ok in Hfd. rewrite forallb_forall in Hfd. specialize (Hfd f Hf).
    rewrite forallb_forall in Hfd. apply str_eqb_eq. apply Hfd. apply in_or_app. left.
    change p with (fst (p, m)). now apply in_map.
  Qed.

  Lemma flat_dotted_enum f p e : In f D -> In (p, e) (file_enums f) -> class_name (flat p) = class_name (dotted p).
  Proof.
    intros Hf Hm. unfold flat_dotted_ok in Hfd. rewrite forallb_forall in Hfd. specialize (Hfd f Hf).
    rewrite forallb_forall in Hfd. apply str_eqb_eq. apply Hfd. apply in_or_app. right.
    change p with (fst (p, e)). now apply in_map.
  Qed.

  Lemma compile_message_ok f p m : In f D -> In (p, m) (file_msgs f) ->
    exists c, compile_message field_name class_name (fl_package f) (flat p) m = Ok c
      /\ fst c = class_name (dotted p)
      /\ fst (reflect_class c) = class_name (dotted p)
      /\ (fl_package f <> google_protobuf ->
          spec_message_class field_name class_name D (fl_package f) (p, m) = Some (reflect_class c)).
  Proof.
    intros Hf Hm.
    assert (Hmk' : map_keys_ok_msg (fl_package f) (p, m) = true).
    { unfold map_keys_ok in Hmk. rewrite forallb_forall in Hmk. specialize (Hmk f Hf).
      rewrite forallb_forall in Hmk. auto. }
    assert (Hwr' : forall x, In x (md_fields m) -> opt_str_eqb (field_wraps (fd_type_name x)) (spec_wraps x) = true).
    { unfold wraps_ok in Hwr. rewrite forallb_forall in Hwr. specialize (Hwr f Hf).
      rewrite forallb_forall in Hwr. specialize (Hwr (p, m) Hm). cbn [snd] in Hwr. rewrite forallb_forall in Hwr. auto. }
    assert (Hnd : NoDup (map (fun x => field_name (fd_name x)) (md_fields m))).
    { unfold fields_nodup in Hfn. rewrite forallb_forall in Hfn. specialize (Hfn f Hf).
      rewrite forallb_forall in Hfn. specialize (Hfn (p, m) Hm). now apply nodupb_NoDup. }
    destruct (mapM_Forall2 (compile_field field_name class_name (fl_package f) m)
                (fun x cf => pf_name cf = field_name (fd_name x)
                             /\ (fl_package f <> google_protobuf ->
                                 spec_field field_name class_name D (fl_package f) p m x = Some (reflect_field cf)))
                (md_fields m)) as (cfs & Hcfs & F).
    { intros x Hx. apply compile_field_ok; auto. }
    unfold compile_message. rewrite Hcfs. cbn [bind]. eexists. split; [reflexivity|].
    cbn [fst]. split; [eapply flat_dotted_msg; eauto|]. split; [eapply flat_dotted_msg; eauto|].
    intros Hpkg. unfold spec_message_class. cbn [fst snd].
    rewrite (all_some_Forall2 _ reflect_field _ cfs).
    2:{ eapply Forall2_impl; [|exact F]. cbn. intros a y [_ H]. auto. }
    unfold reflect_class. cbn [fst snd]. rewrite (flat_dotted_msg f p m Hf Hm). do 3 f_equal.
    rewrite py_namespace_nodup.
    - rewrite map_map. cbn [field_key snd]. reflexivity.
    - rewrite map_map. cbn [field_key fst reflect_field pf_name].
      erewrite (Forall2_map_eq (fun x => field_name (fd_name x)) pf_name); [exact Hnd|].
      eapply Forall2_impl; [|exact F]. cbn. tauto.
  Qed.

  Lemma compile_enum_ok f p e : In f D -> In (p, e) (file_enums f) ->
    reflect_class (compile_enum class_name enum_member_name (flat p) e) = spec_enum_class class_name enum_member_name (p, e).
  Proof.
    intros Hf He. unfold compile_enum, reflect_class, spec_enum_class. cbn [fst snd].
    rewrite (flat_dotted_enum f p e Hf He). do 2 f_equal.
    apply py_namespace_nodup. rewrite map_map.
    unfold members_nodup in Hmn. rewrite forallb_forall in Hmn. specialize (Hmn f Hf).
    rewrite forallb_forall in Hmn. specialize (Hmn (p, e) He). cbn [fst snd] in Hmn.
    apply nodupb_NoDup in Hmn. erewrite map_ext; [exact Hmn|]. now intros [n v].
  Qed.

  (* ---- traversal ---- *)
  Fixpoint items_msgs (l : list item) : list (str * msg_d) :=
    match l with
    | [] => []
    | IMsg nm m :: r => (nm, m) :: items_msgs r
    | IEnum _ _ :: r => items_msgs r
    end.

  Lemma items_msgs_app a b : items_msgs (a ++ b) = items_msgs a ++ items_msgs b.
  Proof. induction a as [|[nm m|nm e] r IH]; cbn [app items_msgs]; [reflexivity | now rewrite IH | exact IH]. Qed.

  Lemma items_enums_app a b :
    items_enums class_name enum_member_name (a ++ b)
    = items_enums class_name enum_member_name a ++ items_enums class_name enum_member_name b.
  Proof. induction a as [|[nm m|nm e] r IH]; cbn [app items_enums]; [reflexivity | exact IH | now rewrite IH]. Qed.

  Lemma items_msgs_enums (g : enum_d -> item) l : (forall e, exists nm, g e = IEnum nm e) -> items_msgs (map g l) = [].
  Proof. intros H. induction l as [|e r IH]; [reflexivity|]. cbn [map]. destruct (H e) as [nm ->]. exact IH. Qed.

  Lemma items_msgs_flat_map {A} (F : A -> list item) l : items_msgs (flat_map F l) = flat_map (fun a => items_msgs (F a)) l.
  Proof. induction l as [|a r IH]; [reflexivity|]. cbn [flat_map]. now rewrite items_msgs_app, IH. Qed.

  Lemma items_enums_flat_map {A} (F : A -> list item) l :
    items_enums class_name enum_member_name (flat_map F l)
    = flat_map (fun a => items_enums class_name enum_member_name (F a)) l.
  Proof. induction l as [|a r IH]; [reflexivity|]. cbn [flat_map]. now rewrite items_enums_app, IH. Qed.

  Lemma items_enums_map (h : enum_d -> str) l :
    items_enums class_name enum_member_name (map (fun e => IEnum (h e) e) l)
    = map (fun e => compile_enum class_name enum_member_name (h e) e) l.
  Proof. induction l as [|e r IH]; [reflexivity|]. cbn [map items_enums]. now rewrite IH. Qed.

  Lemma walk_msg_unfold prefix m :
    walk_msg prefix m =
    IMsg (prefix ++ c_us :: md_name m) m
      :: map (fun e => IEnum ((prefix ++ c_us :: md_name m) ++ c_us :: ed_name e) e) (md_enums m)
      ++ flat_map (walk_msg (prefix ++ c_us :: md_name m)) (md_nested m).
  Proof. destruct m; reflexivity. Qed.

  Lemma walk_msg_msgs m : forall pre,
    items_msgs (walk_msg (flat pre) m) = map (fun pm => (flat (fst pm), snd pm)) (all_msgs pre m).
  Proof.
    induction m as [n fs ns es os me IH] using msg_d_ind'. intros pre.
    rewrite walk_msg_unfold, all_msgs_unfold. cbn [md_name md_enums md_nested items_msgs map fst snd].
    rewrite <- flat_snoc. f_equal.
    rewrite items_msgs_app, items_msgs_enums by eauto. cbn [app].
    rewrite items_msgs_flat_map, map_flat_map. apply flat_map_ext_in.
    intros y Hy. rewrite Forall_forall in IH. apply IH; assumption.
  Qed.

  Lemma walk_msg_enums m : forall pre,
    items_enums class_name enum_member_name (walk_msg (flat pre) m)
    = map (fun pe => compile_enum class_name enum_member_name (flat (fst pe)) (snd pe)) (all_enums_in pre m).
  Proof.
    induction m as [n fs ns es os me IH] using msg_d_ind'. intros pre.
    rewrite walk_msg_unfold, all_enums_in_unfold. cbn [md_name md_enums md_nested items_enums].
    rewrite <- flat_snoc. rewrite items_enums_app, map_app. f_equal.
    - rewrite items_enums_map, map_map. apply map_ext. intros e. cbn [fst snd]. now rewrite (flat_snoc (pre ++ [n]) (ed_name e)).
    - rewrite items_enums_flat_map, map_flat_map. apply flat_map_ext_in.
      intros y Hy. rewrite Forall_forall in IH. apply IH; assumption.
  Qed.

  Lemma traverse_msgs f : items_msgs (traverse f) = map (fun pm => (flat (fst pm), snd pm)) (file_msgs f).
  Proof.
    unfold traverse, file_msgs. rewrite items_msgs_app, items_msgs_enums by eauto. cbn [app].
    rewrite items_msgs_flat_map, map_flat_map. apply flat_map_ext_in. intros m _. exact (walk_msg_msgs m []).
  Qed.

  Lemma traverse_enums f :
    items_enums class_name enum_member_name (traverse f)
    = map (fun pe => compile_enum class_name enum_member_name (flat (fst pe)) (snd pe)) (file_enums f).
  Proof.
    unfold traverse, file_enums. rewrite items_enums_app, map_app. f_equal.
    - rewrite items_enums_map, map_map. apply map_ext. intros e. cbn [fst snd flat map concat]. now rewrite app_nil_r.
    - rewrite items_enums_flat_map, map_flat_map. apply flat_map_ext_in. intros m _. exact (walk_msg_enums m []).
  Qed.

  Lemma items_messages_eq pkg l :
    items_messages field_name class_name pkg l
    = mapM (fun nm => compile_message field_name class_name pkg (fst nm) (snd nm))
           (filter (fun nm => negb (md_map_entry (snd nm))) (items_msgs l)).
  Proof.
    induction l as [|[nm m|nm e] r IH]; cbn [items_messages items_msgs filter]; [reflexivity | | exact IH].
    cbn [snd]. destruct (md_map_entry m); cbn [negb]; [exact IH|]. cbn [mapM fst snd]. now rewrite IH.
  Qed.

  (* ---- one package ---- *)
  Lemma files_of_in pkg f : In f (files_of D pkg) -> In f D /\ fl_package f = pkg.
  Proof. unfold files_of. intros H. apply filter_In in H as [H E]. apply str_eqb_eq in E. auto. Qed.

  Lemma in_flat_files {A} (F : file_d -> list A) pkg a : In a (flat_map F (files_of D pkg)) ->
    exists f, In f D /\ fl_package f = pkg /\ In a (F f).
  Proof. intros H. apply in_flat_map in H as (f & Hf & Ha). apply files_of_in in Hf as [H1 H2]. eauto. Qed.

  Lemma compile_package_ok pkg :
    exists md, compile_package field_name class_name enum_member_name D pkg = Ok md /\ fst md = pkg
      /\ (In pkg (output_packages D) ->
          spec_module field_name class_name enum_member_name D pkg = Some (reflect_module md)).
  Proof.
    set (files := files_of D pkg).
    set (g := fun pm : list str * msg_d => (flat (fst pm), snd pm)).
    set (L := filter (fun pm : list str * msg_d => negb (md_map_entry (snd pm))) (flat_map file_msgs files)).
    set (ENUMS := flat_map file_enums files).
    assert (Hitems : items_msgs (flat_map traverse files) = map g (flat_map file_msgs files)).
    { rewrite items_msgs_flat_map, map_flat_map. apply flat_map_ext_in. intros f _. apply traverse_msgs. }
    assert (Henums : items_enums class_name enum_member_name (flat_map traverse files)
                     = map (fun pe => compile_enum class_name enum_member_name (flat (fst pe)) (snd pe)) ENUMS).
    { rewrite items_enums_flat_map. unfold ENUMS. rewrite map_flat_map. apply flat_map_ext_in. intros f _. apply traverse_enums. }
    destruct (mapM_Forall2 (fun pm => compile_message field_name class_name pkg (flat (fst pm)) (snd pm))
                (fun pm c => fst (reflect_class c) = class_name (dotted (fst pm))
                             /\ (pkg <> google_protobuf ->
                                 spec_message_class field_name class_name D pkg pm = Some (reflect_class c)))
                L) as (cs & Hcs & F).
    { intros [p m] Hin. unfold L in Hin. apply filter_In in Hin as [Hin _].
      apply in_flat_files in Hin as (f & Hf & <- & Hm).
      destruct (compile_message_ok f p m Hf Hm) as (c & Hc & _ & H2 & H3). exists c. cbn [fst snd]. auto. }
    unfold compile_package. fold files. rewrite items_messages_eq, Hitems, filter_map_comm, mapM_map.
    cbn [g fst snd]. fold L. rewrite Hcs. cbn [bind]. eexists. split; [reflexivity|]. split; [reflexivity|].
    intros Hout. unfold output_packages in Hout. apply filter_In in Hout as [Hpk' Hne].
    apply negb_true_iff, str_eqb_neq in Hne.
    unfold spec_module. fold files. fold L. fold ENUMS.
    rewrite (all_some_Forall2 _ reflect_class _ cs).
    2:{ eapply Forall2_impl; [|exact F]. cbn. intros a y [_ H]. auto. }
    unfold reflect_module. cbn [fst snd]. do 2 f_equal. rewrite Henums.
    assert (Hen : map reflect_class (map (fun pe => compile_enum class_name enum_member_name (flat (fst pe)) (snd pe)) ENUMS)
                  = map (spec_enum_class class_name enum_member_name) ENUMS).
    { rewrite map_map. apply map_ext_in. intros [p e] Hin. apply in_flat_files in Hin as (f & Hf & _ & He).
      cbn [fst snd]. eapply compile_enum_ok; eauto. }
    rewrite py_namespace_nodup; rewrite map_app, Hen; [reflexivity|].
    (* distinct class names *)
    unfold class_nodup in Hcn. rewrite forallb_forall in Hcn.
    assert (Hout : In pkg (output_packages D)).
    { unfold output_packages. apply filter_In. split; [assumption|]. apply negb_true_iff. now apply str_eqb_neq. }
    specialize (Hcn pkg Hout). apply nodupb_NoDup in Hcn. unfold class_paths in Hcn. fold files in Hcn. fold ENUMS in Hcn.
    fold L in Hcn. rewrite map_app in Hcn. rewrite map_app.
    assert (E1 : map fst (map (spec_enum_class class_name enum_member_name) ENUMS)
                 = map (fun p => class_name (dotted p)) (map fst ENUMS)).
    { rewrite !map_map. apply map_ext. now intros [p e]. }
    assert (E2 : map fst (map reflect_class cs) = map (fun p => class_name (dotted p)) (map fst L)).
    { rewrite !map_map. apply (Forall2_map_eq (fun pm => class_name (dotted (fst pm))) (fun c => fst (reflect_class c))).
      eapply Forall2_impl; [|exact F]. cbn. tauto. }
    unfold py_class in *. rewrite E1, E2. exact Hcn.
  Qed.

  (* ---- the whole request ---- *)
  Lemma filter_modules (pkgs : list str) (mods : list py_module) :
    Forall2 (fun pkg md => fst md = pkg
                           /\ (In pkg (output_packages D) ->
                               spec_module field_name class_name enum_member_name D pkg = Some (reflect_module md)))
            pkgs mods ->
    (forall p, In p pkgs -> In p (packages D)) ->
    all_some (map (spec_module field_name class_name enum_member_name D)
                  (filter (fun p => negb (str_eqb p google_protobuf)) pkgs))
    = Some (map reflect_module (filter (fun m => negb (str_eqb (fst m) s_gp)) mods)).
  Proof.
    induction 1 as [|pkg md pkgs mods [E H] _ IH]; intros Hsub; [reflexivity|].
    cbn [filter]. rewrite E, gp_const. destruct (str_eqb pkg google_protobuf) eqn:Eg; cbn [negb].
    - apply IH. intros; apply Hsub; now right.
    - cbn [map all_some]. rewrite H, IH; [reflexivity | intros; apply Hsub; now right |].
      unfold output_packages. apply filter_In. split; [apply Hsub; now left | now rewrite Eg].
  Qed.

  Theorem faithful_section :
    exists t, class_table_of field_name class_name enum_member_name D = Some t
              /\ reflect (compile field_name class_name enum_member_name D) = Ok t.
  Proof.
    destruct (mapM_Forall2 (compile_package field_name class_name enum_member_name D)
                (fun pkg md => fst md = pkg
                               /\ (In pkg (output_packages D) ->
                                   spec_module field_name class_name enum_member_name D pkg = Some (reflect_module md)))
                (packages D)) as (mods & Hmods & F).
    { intros pkg _. destruct (compile_package_ok pkg) as (md & H1 & H2 & H3). eauto. }
    eexists. split.
    - unfold class_table_of, output_packages. apply (filter_modules _ _ F). auto.
    - unfold compile. rewrite Hmods. reflexivity.
  Qed.
End Faithful.

Theorem field_faithful field_name class_name enum_member_name D :
  protoc_wf D = true -> names_ok field_name class_name enum_member_name D = true ->
  exists t, class_table_of field_name class_name enum_member_name D = Some t
            /\ reflect (compile field_name class_name enum_member_name D) = Ok t.
Proof.
  intros Hwf Hn. unfold names_ok in Hn.
  repeat match goal with H : _ && _ = true |- _ => apply andb_prop in H as [? ?] end.
  apply faithful_section; assumption.
Qed.

(* ======================================================================================
   Part 5 — the is_map heuristic against the specification's reading
   ====================================================================================== *)
Theorem is_map_no_false_negative D f p m x :
  protoc_wf D = true -> In f D -> In (p, m) (file_msgs f) -> In x (md_fields m) ->
  spec_is_map (fl_package f) p m x = true -> is_map x m = true.
Proof.
  intros Hwf Hf Hm Hx Hs. unfold spec_is_map in Hs.
  destruct (spec_map_entry (fl_package f) p m x) as [e|] eqn:E; [|discriminate].
  destruct (wf_msg_parts D _ _ _ (wf_msg D Hwf f p m Hf Hm)) as (_ & Hfw & _).
  eapply (is_map_complete D); eauto. eapply nested_ident; eauto.
Qed.

Theorem is_map_exact D f p m x :
  protoc_wf D = true -> map_keys_ok D = true ->
  In f D -> In (p, m) (file_msgs f) -> In x (md_fields m) ->
  is_map x m = spec_is_map (fl_package f) p m x.
Proof.
  intros Hwf Hmk Hf Hm Hx.
  destruct (spec_is_map (fl_package f) p m x) eqn:Hs.
  - eapply is_map_no_false_negative; eauto.
  - unfold map_keys_ok in Hmk. rewrite forallb_forall in Hmk. specialize (Hmk f Hf).
    rewrite forallb_forall in Hmk. specialize (Hmk (p, m) Hm). unfold map_keys_ok_msg in Hmk. cbn [fst snd] in Hmk.
    rewrite forallb_forall in Hmk. specialize (Hmk x Hx). unfold spec_is_map in Hs.
    destruct (spec_map_entry (fl_package f) p m x); [discriminate|]. now apply negb_true_iff in Hmk.
Qed.

(* the package regex, for every type of a protoc_wf descriptor set under the naming side condition *)
Theorem type_name_split D tn s :
  protoc_wf D = true -> pkg_names_ok D = true -> resolve D tn = Some s ->
  parse_source_type_name tn = (sym_pkg s, dotted (sym_path s)).
Proof. intros. eapply ref_ok; eauto. Qed.

(* ======================================================================================
   Part 6 — bundled descriptor libraries against descriptor.proto / plugin.proto (finite sweep)
   ====================================================================================== *)
Definition brow_number (r : brow) : Z := let '(_, n, _, _, _) := r in n.
Definition brow_agree (x y : brow) : bool :=
  let '(xn, _, xt, xr, xg) := x in
  let '(yn, _, yt, yr, yg) := y in
  (* a bundled field is named like the reference field (a trailing _ is added to Python keywords) *)
  (str_eqb xn yn || str_eqb xn (yn ++ [c_us])) && str_eqb xt yt && Bool.eqb xr yr && str_eqb xg yg.

(* every field number the bundled class shares with the reference message carries the same name,
   proto type, repeatedness and oneof group *)
Definition agree_on_shared_numbers (e : str * str * list brow * list brow) : bool :=
  let '(_, _, bundled, reference) := e in
  forallb (fun x => match find (fun y => brow_number y =? brow_number x) reference with
                    | Some y => brow_agree x y
                    | None => true
                    end) bundled.

Definition ends_with (suffix s : str) : bool :=
  match prefix_of (rev suffix) (rev s) with Some _ => true | None => false end.

(* every member name the bundled enum shares with the reference enum (the plugin strips the enum-name
   prefix) carries the same number *)
Definition enum_agree_on_shared_names (e : str * str * list (str * Z) * list (str * Z)) : bool :=
  let '(_, _, bundled, reference) := e in
  forallb (fun x => forallb (fun y => negb (str_eqb (fst y) (fst x) || ends_with (c_us :: fst x) (fst y))
                                      || (snd x =? snd y)) reference) bundled.

Definition shared_numbers (e : str * str * list brow * list brow) : Z :=
  let '(_, _, bundled, reference) := e in
  Zlength (filter (fun x => existsb (fun y => brow_number y =? brow_number x) reference) bundled).

(* ======================================================================================
   Part 7 — the output file set: every output package directory and each of its ancestors
   (the root included) receives an __init__.py, so the package is importable
   ====================================================================================== *)
Lemma prefixes_nil_in {A} (l : list A) : In [] (prefixes l).
Proof. destruct l; cbn; auto. Qed.

Lemma prefixes_self_in {A} (l : list A) : In l (prefixes l).
Proof. induction l as [|a r IH]; cbn; [auto|]. right. now apply in_map. Qed.

Theorem output_dirs_complete D p q :
  In p (output_packages D) -> In q (prefixes (pkg_dir p)) -> In q (output_dirs D).
Proof.
  intros Hp Hq. unfold output_dirs. apply in_flat_map. exists p. split; [|assumption].
  unfold output_packages in Hp. now rewrite gp_const.
Qed.
