(* C03 — side conditions and proofs: the plugin model (Model/Plugin.v) implements the meaning of the
   descriptor (Spec/Descriptor.v). *)
From BP Require Import Base.Prelude Spec.Descriptor gen.C03Tables Model.Plugin Proofs.BytesP.
From Coq Require Import Lia.

(* ======================================================================================
   names_ok: the naming side conditions. Every conjunct is decidable, is evaluated by the harness on
   the real naming functions for every generated schema, and is a known-finding class when false.
   ====================================================================================== *)
Definition no_upper (s : str) : bool := forallb (fun c => negb (is_upper c)) s.
Definition has_upper (s : str) : bool := existsb is_upper s.

Definition opt_str_eqb (a b : option str) : bool :=
  match a, b with
  | Some x, Some y => str_eqb x y
  | None, None => true
  | _, _ => false
  end.

Section NamesOk.
  Variable field_name : str -> str.
  Variable class_name : str -> str.
  Variable enum_member_name : str -> str -> str.

  (* K2: the package regex of parse_source_type_name needs capital-free packages and a capital letter
     somewhere in every top-level type name *)
  Definition pkg_names_ok (D : descriptor) : bool :=
    forallb (fun f => no_upper (fl_package f)
                      && forallb (fun m => has_upper (md_name m)) (fl_messages f)
                      && forallb (fun e => has_upper (ed_name e)) (fl_enums f)) D.

  (* K1 (first half): the class name computed from the flattened name "_A_B" (class definition) is the
     one computed from the dotted name "A.B" (references) *)
  Definition flat_dotted_ok (D : descriptor) : bool :=
    forallb (fun f => forallb (fun p => str_eqb (class_name (flat p)) (class_name (dotted p)))
                              (map fst (file_msgs f) ++ map fst (file_enums f))) D.

  Definition class_paths (D : descriptor) (pkg : str) : list (list str) :=
    map fst (flat_map file_enums (files_of D pkg))
    ++ map fst (filter (fun pm => negb (md_map_entry (snd pm))) (flat_map file_msgs (files_of D pkg))).

  (* K1 / K11: distinct types of one package get distinct class names *)
  Definition class_nodup (D : descriptor) : bool :=
    forallb (fun pkg => nodupb (map (fun p => class_name (dotted p)) (class_paths D pkg))) (output_packages D).

  (* K8: distinct fields of one message / members of one enum get distinct Python names *)
  Definition fields_nodup (D : descriptor) : bool :=
    forallb (fun f => forallb (fun pm => nodupb (map (fun x => field_name (fd_name x)) (md_fields (snd pm))))
                              (file_msgs f)) D.
  Definition members_nodup (D : descriptor) : bool :=
    forallb (fun f => forallb (fun pe => nodupb (map (fun nv => enum_member_name (fst nv) (flat (fst pe)))
                                                     (ed_values (snd pe))))
                              (file_enums f)) D.

  (* K13: the is_map name heuristic has no false positive and is not ambiguous *)
  Definition heur_cands (parent : msg_d) (f : field_d) : list msg_d :=
    filter (fun n => str_eqb (lower (strip_us (md_name n))) (lower (strip_us (fd_name f)) ++ s_entry)
                     && md_map_entry n) (md_nested parent).
  Definition map_keys_ok_msg (pkg : str) (pm : list str * msg_d) : bool :=
    forallb (fun f =>
               match spec_map_entry pkg (fst pm) (snd pm) f with
               | Some e => forallb (fun n => str_eqb (md_name n) (md_name e)) (heur_cands (snd pm) f)
               | None => negb (is_map f (snd pm))
               end) (md_fields (snd pm)).
  Definition map_keys_ok (D : descriptor) : bool :=
    forallb (fun f => forallb (map_keys_ok_msg (fl_package f)) (file_msgs f)) D.

  (* K14: the wrapper regex + hasattr(betterproto, "TYPE_" + X) finds exactly the wrappers of wrappers.proto *)
  Definition wraps_ok (D : descriptor) : bool :=
    forallb (fun f => forallb (fun pm => forallb (fun x => opt_str_eqb (field_wraps (fd_type_name x)) (spec_wraps x))
                                                 (md_fields (snd pm)))
                              (file_msgs f)) D.

  Definition names_ok (D : descriptor) : bool :=
    pkg_names_ok D && flat_dotted_ok D && class_nodup D && fields_nodup D && members_nodup D
    && map_keys_ok D && wraps_ok D.
End NamesOk.

(* ======================================================================================
   Part 1 — strings
   ====================================================================================== *)
Lemma str_eqb_eq a b : str_eqb a b = true <-> a = b.
Proof. apply bytes_eqb_eq. Qed.

Lemma str_eqb_refl a : str_eqb a a = true.
Proof. apply str_eqb_eq; reflexivity. Qed.

Lemma str_eqb_neq a b : str_eqb a b = false <-> a <> b.
Proof.
  split.
  - intros H E. apply str_eqb_eq in E. congruence.
  - intros H. destruct (str_eqb a b) eqn:E; [apply str_eqb_eq in E; contradiction | reflexivity].
Qed.

Lemma byte_eqb_eq a b : Byte.eqb a b = true <-> a = b.
Proof. split; [apply Byte.byte_dec_bl | apply Byte.byte_dec_lb]. Qed.

Lemma lower_upper_b c : lower_b (upper_b c) = lower_b c.
Proof. destruct c; reflexivity. Qed.

Lemma is_us_upper_b c : is_us c = false -> is_us (upper_b c) = false.
Proof. destruct c; cbv; congruence. Qed.

Lemma lower_app a b : lower (a ++ b) = lower a ++ lower b.
Proof. apply map_app. Qed.

Lemma strip_us_app a b : strip_us (a ++ b) = strip_us a ++ strip_us b.
Proof. apply filter_app. Qed.

Lemma lower_camel s : forall cap, lower (camel cap s) = lower (strip_us s).
Proof.
  induction s as [|c r IH]; intros cap; [reflexivity|].
  cbn [camel strip_us filter]. destruct (is_us c) eqn:E; cbn [negb].
  - apply IH.
  - fold (strip_us r). cbn [lower map]. fold (lower (camel false r)). fold (lower (strip_us r)).
    rewrite IH. destruct cap; [rewrite lower_upper_b|]; reflexivity.
Qed.

Lemma strip_us_camel s : forall cap, strip_us (camel cap s) = camel cap s.
Proof.
  induction s as [|c r IH]; intros cap; [reflexivity|].
  cbn [camel]. destruct (is_us c) eqn:E.
  - apply IH.
  - cbn [strip_us filter]. fold (strip_us (camel false r)). rewrite IH.
    destruct cap; [rewrite (is_us_upper_b c E)|rewrite E]; reflexivity.
Qed.

Lemma lower_map_entry_name f : lower (map_entry_name f) = lower (strip_us f) ++ s_entry.
Proof. unfold map_entry_name. rewrite lower_app, lower_camel. reflexivity. Qed.

Lemma lower_strip_map_entry_name f : lower (strip_us (map_entry_name f)) = lower (strip_us f) ++ s_entry.
Proof. unfold map_entry_name. rewrite strip_us_app, strip_us_camel, lower_app, lower_camel. reflexivity. Qed.

(* identifiers contain no dot and are not empty *)
Lemma ident_char_not_dot c : ident_char c = true -> is_dot c = false.
Proof. destruct c; cbv; congruence. Qed.

Definition no_dot (s : str) : Prop := Forall (fun c => is_dot c = false) s.

Lemma ident_no_dot s : ident s = true -> no_dot s /\ s <> [].
Proof.
  unfold ident. intros H. apply andb_prop in H as [Hn Hf]. split.
  - apply Forall_forall. intros c Hc. apply ident_char_not_dot.
    rewrite forallb_forall in Hf. auto.
  - destruct s; [discriminate | congruence].
Qed.

Lemma last_seg_aux_no_dot n : forall cur, no_dot n -> last_seg_aux cur n = rev cur ++ n.
Proof.
  induction n as [|c r IH]; intros cur H; cbn [last_seg_aux].
  - now rewrite app_nil_r.
  - inversion H as [|? ? Hc Hr]; subst. rewrite Hc, IH by assumption. cbn [rev]. now rewrite <- app_assoc.
Qed.

Lemma last_seg_aux_app_dot a n : forall cur, last_seg_aux cur (a ++ c_dot :: n) = last_seg_aux [] n.
Proof.
  induction a as [|c r IH]; intros cur; cbn [app last_seg_aux].
  - reflexivity.
  - destruct (is_dot c); apply IH.
Qed.

Lemma last_seg_app_dot a n : no_dot n -> last_seg (a ++ c_dot :: n) = n.
Proof. intros H. unfold last_seg. rewrite last_seg_aux_app_dot, last_seg_aux_no_dot by assumption. reflexivity. Qed.

Lemma join_snoc sep p n : p <> [] -> join sep (p ++ [n]) = join sep p ++ sep ++ n.
Proof.
  induction p as [|a r IH]; intros H; [congruence|].
  destruct r as [|b r'].
  - reflexivity.
  - change ((a :: b :: r') ++ [n]) with (a :: (b :: r') ++ [n]).
    change (join sep (a :: (b :: r') ++ [n])) with (a ++ sep ++ join sep ((b :: r') ++ [n])).
    rewrite IH by congruence. change (join sep (a :: b :: r')) with (a ++ sep ++ join sep (b :: r')).
    now rewrite <- !app_assoc.
Qed.

Lemma full_name_snoc pkg p n : exists a, full_name pkg (p ++ [n]) = a ++ c_dot :: n.
Proof.
  unfold full_name, dotted. destruct p as [|x r].
  - destruct (is_nil pkg); [exists []; reflexivity | exists (c_dot :: pkg); reflexivity].
  - rewrite join_snoc by congruence. cbn [app].
    destruct (is_nil pkg).
    + exists (c_dot :: join [c_dot] (x :: r)). reflexivity.
    + exists (c_dot :: pkg ++ c_dot :: join [c_dot] (x :: r)). cbn [app]. now rewrite <- app_assoc.
Qed.

Lemma last_seg_full_name pkg p n : no_dot n -> last_seg (full_name pkg (p ++ [n])) = n.
Proof. intros H. destruct (full_name_snoc pkg p n) as [a ->]. now apply last_seg_app_dot. Qed.

(* ---- the package regex ---- *)
Definition no_upper_P (s : str) : Prop := Forall (fun c => is_upper c = false) s.

Lemma no_upper_iff s : no_upper s = true <-> no_upper_P s.
Proof.
  unfold no_upper, no_upper_P. rewrite forallb_forall, Forall_forall.
  split; intros H c Hc; specialize (H c Hc); destruct (is_upper c); cbn in *; congruence.
Qed.

Lemma has_upper_split s : has_upper s = true ->
  exists l U r, s = l ++ U :: r /\ no_upper_P l /\ is_upper U = true.
Proof.
  unfold has_upper. induction s as [|c t IH]; cbn [existsb]; [discriminate|].
  destruct (is_upper c) eqn:E; cbn [orb]; intros H.
  - exists [], c, t. repeat split; [constructor | assumption].
  - destruct (IH H) as (l & U & r & -> & Hl & HU). exists (c :: l), U, r. repeat split; [constructor|]; assumption.
Qed.

Lemma scan_plain a : forall t i best, no_upper_P a -> no_dot a ->
  scan_pkg (a ++ t) i best = scan_pkg t (i + length a) best.
Proof.
  induction a as [|c r IH]; intros t i best Hu Hd; cbn [app length].
  - now rewrite Nat.add_0_r.
  - inversion Hu as [|? ? Hc Hr]; inversion Hd as [|? ? Dc Dr]; subst.
    cbn [scan_pkg]. rewrite Hc, Dc. cbn [andb]. rewrite IH by assumption. f_equal. lia.
Qed.

Lemma scan_to_dot a : forall t i best, no_upper_P a -> t <> [] -> (i + length a <> 0)%nat ->
  scan_pkg (a ++ c_dot :: t) i best = scan_pkg t (S (i + length a)) (Some (i + length a)%nat).
Proof.
  induction a as [|c r IH]; intros t i best Hu Ht Hi; cbn [app length].
  - cbn [scan_pkg]. change (is_upper c_dot) with false. change (is_dot c_dot) with true.
    destruct t; [congruence|]. cbn [is_nil negb andb]. rewrite Nat.add_0_r in *.
    destruct (Nat.eqb_spec i 0); [lia|]. reflexivity.
  - inversion Hu as [|? ? Hc Hr]; subst. cbn [scan_pkg]. rewrite Hc.
    rewrite IH by (try assumption; lia). f_equal; [lia | f_equal; lia].
Qed.

Lemma scan_stop_upper U r i best : is_upper U = true -> scan_pkg (U :: r) i best = best.
Proof. intros H. cbn [scan_pkg]. now rewrite H. Qed.

Lemma is_upper_not_dot U : is_upper U = true -> is_dot U = false.
Proof. destruct U; cbv; congruence. Qed.

Lemma lstrip_dot_nondot c s : is_dot c = false -> lstrip_dot (c :: s) = c :: s.
Proof. intros H. cbn [lstrip_dot]. now rewrite H. Qed.

(* the regex splits a fully-qualified name correctly when the package is free of capitals and the
   top-level type name contains one *)
Lemma parse_full_name pkg top rest :
  no_upper_P pkg -> has_upper top = true -> no_dot top ->
  parse_source_type_name (full_name pkg (top :: rest)) = (pkg, dotted (top :: rest)).
Proof.
  intros Hp Ht Hd.
  destruct (has_upper_split top Ht) as (l & U & r & -> & Hl & HU).
  assert (Dl : no_dot l).
  { unfold no_dot in *. rewrite Forall_forall in *. intros c Hc. apply Hd. apply in_or_app. now left. }
  assert (Hdot : exists tail, dotted ((l ++ U :: r) :: rest) = l ++ U :: tail).
  { unfold dotted. destruct rest as [|x xs]; cbn [join].
    - now exists r.
    - exists (r ++ [c_dot] ++ join [c_dot] (x :: xs)). now rewrite <- app_assoc. }
  destruct Hdot as [tail Htail].
  unfold full_name. rewrite !Htail. destruct pkg as [|p0 ps]; cbn [is_nil].
  - (* no package: neither attempt matches *)
    unfold parse_source_type_name. change (is_dot c_dot) with true. cbn iota.
    unfold try_parse.
    rewrite scan_plain, scan_stop_upper by assumption.
    change (c_dot :: l ++ U :: tail) with ([c_dot] ++ l ++ U :: tail).
    cbn [app scan_pkg]. change (is_upper c_dot) with false. change (is_dot c_dot) with true.
    cbn [Nat.eqb negb andb].
    rewrite (andb_false_r (negb (is_nil (l ++ U :: tail)))).
    rewrite scan_plain, scan_stop_upper by assumption.
    f_equal. destruct l as [|l0 ls].
    + cbn [app]. cbn [lstrip_dot]. change (is_dot c_dot) with true. cbn iota.
      apply lstrip_dot_nondot. now apply is_upper_not_dot.
    + cbn [app lstrip_dot]. change (is_dot c_dot) with true. cbn iota.
      apply lstrip_dot_nondot. now inversion Dl.
  - unfold parse_source_type_name. change (is_dot c_dot) with true. cbn iota.
    unfold try_parse.
    rewrite scan_to_dot; [| assumption | destruct l; discriminate | cbn [length]; lia ].
    rewrite scan_plain, scan_stop_upper by assumption.
    cbn [Nat.add].
    rewrite firstn_app, Nat.sub_diag, firstn_all, firstn_O, app_nil_r.
    change (S (length (p0 :: ps))) with (length ((p0 :: ps) ++ [c_dot])).
    change ((p0 :: ps) ++ c_dot :: l ++ U :: tail) with ((p0 :: ps) ++ [c_dot] ++ l ++ U :: tail).
    rewrite app_assoc, skipn_app, skipn_all, Nat.sub_diag. reflexivity.
Qed.
