(* C14 / commutation, part 6 - to_dict / to_json / to_pydict (their effect on the state) are monotone for [mat]; hence
   EVERY observer of Model/C14Ops.v is: observing a copy and observing the original leave related states. *)
From BP Require Import Base.Prelude Model.Types Model.Float Model.Object Model.Eq Model.Encode Model.Decode Model.History Model.C14Ops.
From BP Require Import Model.WellFormed Proofs.BytesP Proofs.C14Ind Proofs.C14Mat Proofs.C14Eq Proofs.C14Enc Proofs.C14Obs Proofs.C14Pres.
From BP Require Import Proofs.C14Sim1 Proofs.C14Sim2 Proofs.C14Sim3.
From Coq Require Import Lia.

Definition tdval (n : nat) (sc : schema) (idv : bool) (f : fdesc) (sel : option bool) (v : pv) : pv :=
  if ptype_eqb (fty f) TMessage then
    match v with
    | PDatetime _ | PTimedelta _ => v
    | _ =>
        if is_some (fwraps f) then v
        else
          match fhint f with
          | HList _ =>
              match v with
              | PList l => PList (map (todict_child (todict_obj n sc idv)) l)
              | _ => v
              end
          | _ =>
              match v with
              | PMsg ch =>
                  if osow ch || idv || fopt f || (match sel with Some true => true | _ => false end)
                  then PMsg (todict_obj n sc idv ch) else v
              | _ => v
              end
          end
    end
  else if ptype_eqb (fty f) TMap then
    match v with
    | PDict d => PDict (map (fun kv => (fst kv, todict_child (todict_obj n sc idv) (snd kv))) d)
    | _ => v
    end
  else v.

Definition tdslot (n : nat) (sc : schema) (idv : bool) (f : fdesc) (sel : option bool) (x : pv) : pv :=
  match sel with Some false => x | _ => tdval n sc idv f sel (src sc f x) end.

Definition todict_go (n : nat) (sc : schema) (idv : bool) (cur : list (option nat)) :=
  fix go (i : nat) (raw : list pv) (fs : list fdesc) {struct raw} : list pv :=
    match raw, fs with
    | x :: raw', f :: fs' => tdslot n sc idv f (group_selects cur f i) x :: go (S i) raw' fs'
    | _, _ => raw
    end.

Lemma todict_obj_S n sc idv c raw sow unk cur :
  todict_obj (S n) sc idv (Obj c raw sow unk cur) = Obj c (todict_go n sc idv cur O raw (cfields (get_class sc c))) sow unk cur.
Proof.
  cbn [todict_obj]. f_equal. generalize O as i. generalize (cfields (get_class sc c)) as fs.
  induction raw as [|x raw IH]; intros fs i; [reflexivity|]. destruct fs as [|f fs]; [reflexivity|].
  cbn [todict_go]. rewrite <- IH. f_equal.
  unfold tdslot, tdval, src. destruct (group_selects cur f i) as [[|]|]; reflexivity.
Qed.

Section Wf.
  Variable sc : schema.

  Section Step.
    Variables (n : nat) (idv : bool).
    Hypothesis IH : forall ch ch', mat_obj sc ch ch' = true ->
      mat_obj sc (todict_obj n sc idv ch) (todict_obj n sc idv ch') = true.

    Lemma mat_elem_tc f x x' :
      mat_elem sc f x x' = true ->
      mat_elem sc f (todict_child (todict_obj n sc idv) x) (todict_child (todict_obj n sc idv) x') = true.
    Proof.
      intros H. unfold mat_elem in H.
      destruct x as [| | | | | | | | | | |o]; try (apply pv_same_sound in H; subst x'; apply mat_elem_refl; intros g; apply mat_refl).
      destruct x' as [| | | | | | | | | | |o']; try (destruct o; cbn [pv_same] in H; discriminate H).
      cbn [todict_child]. unfold mat_elem. rewrite mat_msg_obj in *. apply IH. exact H.
    Qed.

    Lemma mat_list_tc f : forall l' l, mat_list sc f l l' = true ->
      mat_list sc f (map (todict_child (todict_obj n sc idv)) l) (map (todict_child (todict_obj n sc idv)) l') = true.
    Proof.
      induction l' as [|x' l' IHl]; intros [|x l] H; cbn [mat_list] in H; try discriminate H; [reflexivity|].
      apply andb_true_iff in H as [H1 H2]. cbn [map mat_list]. rewrite (mat_elem_tc f x x' H1), (IHl l H2). reflexivity.
    Qed.

    Lemma mat_dict_tc f : forall d' d, mat_dict sc f d d' = true ->
      mat_dict sc f (map (fun kv => (fst kv, todict_child (todict_obj n sc idv) (snd kv))) d)
                    (map (fun kv => (fst kv, todict_child (todict_obj n sc idv) (snd kv))) d') = true.
    Proof.
      induction d' as [|[k' x'] d' IHd]; intros [|[k x] d] H; cbn [mat_dict] in H; try discriminate H; [reflexivity|].
      apply andb_true_iff in H as [H1 H3]. apply andb_true_iff in H1 as [H1 H2]. cbn [map mat_dict fst snd].
      rewrite H1, (mat_elem_tc f x x' H2), (IHd d H3). reflexivity.
    Qed.

    Lemma tdval_mono f sel v v' :
      v <> PPlaceholder -> mat sc f v v' = true -> mat sc f (tdval n sc idv f sel v) (tdval n sc idv f sel v') = true.
    Proof.
      intros Hn Hm. pose proof Hm as Hi. apply mat_inv in Hi. rewrite (src_id sc f v Hn) in Hi.
      destruct Hi as [[Hv _]|[(c0 & raw0 & raw0' & sow0 & unk0 & cur0 & Hs & Hv' & Hg)|[(l0 & l0' & Hs & Hv' & Hg)|[(d0 & d0' & Hs & Hv' & Hg)|[Hs Hsc]]]]].
      - contradiction.
      - subst v v'. unfold tdval.
        destruct (ptype_eqb (fty f) TMessage); [|destruct (ptype_eqb (fty f) TMap); exact Hm].
        destruct (is_some (fwraps f)); [exact Hm|]. destruct (fhint f); try exact Hm.
        all: cbn [osow]; destruct (sow0 || idv || fopt f || match sel with Some true => true | _ => false end); try exact Hm.
        all: rewrite mat_msg_obj; apply IH; rewrite <- (mat_msg_obj sc f); exact Hm.
      - subst v v'. unfold tdval.
        destruct (ptype_eqb (fty f) TMessage); [|destruct (ptype_eqb (fty f) TMap); exact Hm].
        destruct (is_some (fwraps f)); [exact Hm|]. destruct (fhint f); try exact Hm.
        rewrite mat_np by discriminate. cbn [mat_core]. apply mat_list_tc. exact Hg.
      - subst v v'. unfold tdval.
        destruct (ptype_eqb (fty f) TMessage).
        + destruct (is_some (fwraps f)); [exact Hm|]. destruct (fhint f); exact Hm.
        + destruct (ptype_eqb (fty f) TMap); [|exact Hm].
          rewrite mat_np by discriminate. cbn [mat_core]. apply mat_dict_tc. exact Hg.
      - subst v'. apply mat_refl.
    Qed.

    Lemma tdslot_mono f sel x x' :
      mat sc f x x' = true -> mat sc f (tdslot n sc idv f sel x) (tdslot n sc idv f sel x') = true.
    Proof.
      intros H. unfold tdslot.
      assert (L : mat sc f (tdval n sc idv f sel (src sc f x)) (tdval n sc idv f sel (src sc f x')) = true)
        by (apply tdval_mono; [apply src_not_placeholder | apply mat_src_src; exact H]).
      destruct sel as [[|]|]; [exact L | exact H | exact L].
    Qed.

    Lemma todict_go_mono cur : forall raw' raw fs i,
      mat_go sc raw raw' fs = true ->
      mat_go sc (todict_go n sc idv cur i raw fs) (todict_go n sc idv cur i raw' fs) fs = true.
    Proof.
      induction raw' as [|x' r' IHr]; intros [|x r] fs i H; cbn [mat_go] in H; try discriminate H; [destruct fs; reflexivity|].
      destruct fs as [|f fs]; [exact H|].
      apply andb_true_iff in H as [H1 H2]. cbn [todict_go mat_go].
      rewrite (tdslot_mono f _ x x' H1), (IHr r fs (S i) H2). reflexivity.
    Qed.
  End Step.

  Theorem todict_mono idv : forall n o o',
    mat_obj sc o o' = true -> mat_obj sc (todict_obj n sc idv o) (todict_obj n sc idv o') = true.
  Proof.
    induction n as [|n IH]; intros o o' H; [exact H|].
    destruct (mat_obj_inv sc o o' H) as (c & raw & raw' & sow & unk & cur & -> & -> & Hg).
    rewrite !todict_obj_S, mat_obj_mk. apply todict_go_mono; assumption.
  Qed.

  Hypothesis Hopt : schema_opt_ok sc = true.

  Theorem observe_mono o o' b :
    mat_obj sc o o' = true -> mat_obj sc (observe sc o b) (observe sc o' b) = true.
  Proof.
    intros H. destruct b; cbn [observe]; try exact H; try (apply (touch_mono sc Hopt); exact H); try (apply todict_mono; exact H).
    apply (proj1 (get_in_sim sc path o o' i H)).
  Qed.

  Theorem observe_all_mono bs : forall o o',
    mat_obj sc o o' = true -> mat_obj sc (observe_all sc o bs) (observe_all sc o' bs) = true.
  Proof.
    unfold observe_all. induction bs as [|b bs IH]; intros o o' H; [exact H|]. cbn [fold_left].
    apply IH. apply observe_mono. exact H.
  Qed.
End Wf.
