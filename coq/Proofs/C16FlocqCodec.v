(* C16, float clause, part 6: consequences in the vocabulary of the codec.
   - infinities and NaN through d2f;
   - f32_representable (the boolean the round-trip theorems take as hypothesis) means exactly "is a binary32
     number": in the binary32 format and below 2^128;
   - pack_value / unpack_value for TFloat and TDouble: the bytes are the little-endian IEEE 754 encoding
     (Flocq's bits_of_b32 / bits_of_b64) of the correctly rounded value;
   - d2f agrees with Flocq's executable binary_normalize 24 128 BinarySingleNaN.mode_NE. *)
From Coq Require Import ZArith Reals List Bool Lia Lra ZifyBool.
From Flocq Require Import Core IEEE754.Binary IEEE754.Bits.
From BP Require Import Base.Prelude Model.Types Model.Float Model.Object Model.Encode Model.Decode.
From BP Require Import gen.Tables Proofs.BytesP Proofs.C01Float.
From BP Require Import Proofs.C16FlocqBits Proofs.C16FlocqWiden Proofs.C16FlocqRound Proofs.C16FlocqNarrowZ Proofs.C16FlocqNarrow.
Open Scope Z_scope.

Global Instance prec24_gt_0 : Prec_gt_0 24 := eq_refl.
Global Instance prec24_lt_emax : BinarySingleNaN.Prec_lt_emax 24 128 := eq_refl.

(* ---- infinities and NaN through d2f ---- *)
Lemma d2f_inf_fields b :
  0 <= b < 2 ^ 64 -> f64_exp b = 2047 -> f64_man b = 0 ->
  exists w, d2f b = Some w /\ 0 <= w < 2 ^ 32 /\ f32_exp w = 255 /\ f32_man w = 0 /\ f32_sign w = f64_sign b.
Proof.
  intros Hb He Hm. pose proof (sign_cases b Hb) as Hs.
  unfold d2f. rewrite He, Hm. rewrite !Z.eqb_refl.
  eexists. split; [reflexivity|].
  rewrite <- (Z.lor_0_r (Z.shiftl 255 23)). rewrite (mk32 (f64_sign b) 255 0) by (pw2; lia).
  destruct (fields32 (f64_sign b) 255 0 _ Hs ltac:(lia) ltac:(pw2; lia) eq_refl) as (A & B & C & D).
  auto.
Qed.

Lemma d2f_nan_fields b :
  0 <= b < 2 ^ 64 -> f64_exp b = 2047 -> f64_man b <> 0 ->
  exists w, d2f b = Some w /\ 0 <= w < 2 ^ 32 /\ f32_exp w = 255 /\ f32_man w <> 0 /\ f32_sign w = f64_sign b.
Proof.
  intros Hb He Hm. pose proof (sign_cases b Hb) as Hs. pose proof (man_range b) as Hmr.
  unfold d2f. rewrite He. rewrite Z.eqb_refl. replace (f64_man b =? 0) with false by lia.
  eexists. split; [reflexivity|].
  set (y := Z.lor (Z.shiftl 1 22) (Z.shiftr (f64_man b) 29)).
  assert (Hy : 2 ^ 22 <= y < 2 ^ 23).
  { unfold y. rewrite shl, shr by lia. rewrite Z.mul_1_l.
    rewrite (lor_bit 22) by (change (22 + 1) with 23; pw2; lia). pw2. lia. }
  rewrite (mk32 (f64_sign b) 255 y) by (pw2; lia).
  destruct (fields32 (f64_sign b) 255 y _ Hs ltac:(lia) ltac:(pw2; lia) eq_refl) as (A & B & C & D).
  rewrite C, D, B. repeat split; try lia; pw2; lia.
Qed.

Theorem d2f_infinity b :
  0 <= b < 2 ^ 64 -> Z.land (Z.shiftr b 52) 2047 = 2047 -> Z.land b (2 ^ 52 - 1) = 0 ->
  exists w s, d2f b = Some w /\ 0 <= w < 2 ^ 32 /\
              b64_of_bits b = B754_infinity 53 1024 s /\ b32_of_bits w = B754_infinity 24 128 s.
Proof.
  intros Hb He Hm. destruct (d2f_inf_fields b Hb He Hm) as (w & Hd & Hw & A & B & C).
  exists w, (negb (f64_sign b =? 0)). split; [exact Hd|]. split; [exact Hw|].
  split; [apply b64_inf; assumption|]. rewrite <- C. apply b32_inf; assumption.
Qed.

Theorem d2f_nan_nan b :
  0 <= b < 2 ^ 64 -> Z.land (Z.shiftr b 52) 2047 = 2047 -> Z.land b (2 ^ 52 - 1) <> 0 ->
  exists w, d2f b = Some w /\ 0 <= w < 2 ^ 32 /\
            is_nan 53 1024 (b64_of_bits b) = true /\ is_nan 24 128 (b32_of_bits w) = true /\
            Bsign 24 128 (b32_of_bits w) = Bsign 53 1024 (b64_of_bits b).
Proof.
  intros Hb He Hm. destruct (d2f_nan_fields b Hb He Hm) as (w & Hd & Hw & A & B & C).
  destruct (b64_nan b Hb He Hm) as (N1 & S1). destruct (b32_nan w Hw A B) as (N2 & S2).
  exists w. rewrite N1, N2, S1, S2, C. auto.
Qed.

(* ---- decoding is injective on patterns ---- *)
Lemma bits_b32 w : 0 <= w < 2 ^ 32 -> bits_of_b32 (b32_of_bits w) = w.
Proof. intros Hw. unfold bits_of_b32, b32_of_bits. apply bits_of_binary_float_of_bits. exact Hw. Qed.
Lemma bits_b64 b : 0 <= b < 2 ^ 64 -> bits_of_b64 (b64_of_bits b) = b.
Proof. intros Hb. unfold bits_of_b64, b64_of_bits. apply bits_of_binary_float_of_bits. exact Hb. Qed.

Lemma finite64_eq a b :
  0 <= a < 2 ^ 64 -> 0 <= b < 2 ^ 64 -> f64_exp a <> 2047 -> f64_exp b <> 2047 ->
  f64_R a = f64_R b -> f64_sign a = f64_sign b -> a = b.
Proof.
  intros Ha Hb Fa Fb HR HS.
  destruct (b64_finite_all a Ha Fa) as (A1 & A2 & A3). destruct (b64_finite_all b Hb Fb) as (B1 & B2 & B3).
  rewrite <- (bits_b64 a Ha), <- (bits_b64 b Hb). f_equal.
  apply B2R_Bsign_inj; try assumption; congruence.
Qed.

(* ---- representable = is a binary32 number ---- *)
Lemma representable_fields b :
  0 <= b < 2 ^ 64 -> f64_exp b <> 2047 ->
  f32_representable b = true <->
  generic_format radix2 fexp32 (f64_R b) /\ (Rabs (f64_R b) < bpow radix2 128)%R.
Proof.
  intros Hb Hfin. destruct (d2f_rounds b Hb Hfin) as [HS HN]. cbv zeta in HS, HN.
  set (r := round radix2 fexp32 ZnearestE (f64_R b)) in *.
  split.
  - intros Hrep. unfold f32_representable in Hrep.
    destruct (d2f b) as [w|] eqn:Ed; [|discriminate].
    assert (Hfw : f2d w = b) by lia.
    destruct (Rlt_or_le (Rabs r) (bpow radix2 128)) as [Hlt | Hge]; [|specialize (HN Hge); discriminate].
    destruct (HS Hlt) as (w' & Hd' & Hw & Hf & Hsg & HR). inversion Hd'; subst w'.
    destruct (f2d_finite_exact w Hw Hf) as (_ & _ & _ & HX). rewrite Hfw, HR in HX.
    rewrite HX. split; [|exact Hlt]. apply generic_format_round; [apply FLT_exp_valid; exact prec24_gt_0 | apply valid_rnd_N].
  - intros [Hfmt Hlt].
    assert (Hr : r = f64_R b) by (apply round_generic; [apply valid_rnd_N | exact Hfmt]).
    rewrite Hr in HS. destruct (HS Hlt) as (w & Hd & Hw & Hf & Hsg & HR).
    destruct (f2d_finite_exact w Hw Hf) as (Hr64 & Hf64 & Hs64 & HX).
    assert (Hfw : f2d w = b).
    { apply finite64_eq; try assumption; congruence. }
    unfold f32_representable. rewrite Hd. lia.
Qed.

Theorem f32_representable_iff b :
  0 <= b < 2 ^ 64 -> Z.land (Z.shiftr b 52) 2047 <> 2047 ->
  let x := B2R 53 1024 (b64_of_bits b) in
  f32_representable b = true <->
  generic_format radix2 (FLT_exp (-149) 24) x /\ (Rabs x < bpow radix2 128)%R.
Proof.
  intros Hb Hfin x. fold (f64_exp b) in Hfin.
  destruct (b64_finite_all b Hb Hfin) as (B1 & _). unfold x. rewrite B1.
  apply representable_fields; assumption.
Qed.

(* pack then unpack is the identity on the value (and on the pattern) of a representable double *)
Theorem representable_roundtrip b :
  0 <= b < 2 ^ 64 -> Z.land (Z.shiftr b 52) 2047 <> 2047 -> f32_representable b = true ->
  exists w, d2f b = Some w /\ 0 <= w < 2 ^ 32 /\
            is_finite 24 128 (b32_of_bits w) = true /\
            B2R 24 128 (b32_of_bits w) = B2R 53 1024 (b64_of_bits b) /\
            Bsign 24 128 (b32_of_bits w) = Bsign 53 1024 (b64_of_bits b) /\
            B2R 53 1024 (b64_of_bits (f2d w)) = B2R 53 1024 (b64_of_bits b) /\
            f2d w = b.
Proof.
  intros Hb Hfin Hrep.
  destruct (proj1 (f32_representable_iff b Hb Hfin) Hrep) as [Hfmt Hlt]. cbv zeta in Hfmt, Hlt.
  destruct (d2f_correctly_rounded b Hb Hfin) as [HS _]. cbv zeta in HS.
  rewrite (round_generic radix2 (FLT_exp (-149) 24) ZnearestE _ Hfmt) in HS.
  destruct (HS Hlt) as (w & Hd & Hw & F1 & F2 & F3 & F4).
  assert (Hfw : f2d w = b).
  { unfold f32_representable in Hrep. rewrite Hd in Hrep. lia. }
  exists w. rewrite Hfw. repeat split; try assumption; try reflexivity; lia.
Qed.

(* ---- the bytes of a float / double field ---- *)
Lemma unpack_float_le w : 0 <= w < 2 ^ 32 -> unpack_value TFloat (le_bytes 4 w) = Ok (PFloat (f2d w)).
Proof.
  intros Hw. unfold unpack_value. cbn [pack_fmt]. rewrite le_bytes_length. cbn [Nat.eqb].
  rewrite le_value_le_bytes by exact Hw. reflexivity.
Qed.

Theorem float_field_bytes b :
  0 <= b < 2 ^ 64 -> Z.land (Z.shiftr b 52) 2047 <> 2047 ->
  let x := B2R 53 1024 (b64_of_bits b) in
  let r := round radix2 (FLT_exp (-149) 24) ZnearestE x in
  ((Rabs r < bpow radix2 128)%R ->
     exists f : binary32,
       is_finite 24 128 f = true /\ B2R 24 128 f = r /\ Bsign 24 128 f = Bsign 53 1024 (b64_of_bits b) /\
       pack_value TFloat (PFloat b) = Ok (le_bytes 4 (bits_of_b32 f)) /\
       exists b', unpack_value TFloat (le_bytes 4 (bits_of_b32 f)) = Ok (PFloat b') /\ 0 <= b' < 2 ^ 64 /\
                  is_finite 53 1024 (b64_of_bits b') = true /\
                  B2R 53 1024 (b64_of_bits b') = r /\ Bsign 53 1024 (b64_of_bits b') = Bsign 24 128 f) /\
  ((bpow radix2 128 <= Rabs r)%R -> pack_value TFloat (PFloat b) = Err EOverflow).
Proof.
  intros Hb Hfin x r. destruct (d2f_correctly_rounded b Hb Hfin) as [HS HN]. fold x r in HS, HN.
  split.
  - intros Hlt. destruct (HS Hlt) as (w & Hd & Hw & F1 & F2 & F3 & F4).
    exists (b32_of_bits w). rewrite (bits_b32 w Hw). split; [exact F1|]. split; [exact F2|]. split; [exact F3|]. split.
    + unfold pack_value. cbn [pack_fmt]. rewrite Hd. reflexivity.
    + exists (f2d w). split; [apply unpack_float_le; exact Hw|].
      assert (Hfw : Z.land (Z.shiftr w 23) 255 <> 255).
      { intros E. fold (f32_exp w) in E.
        unfold b32_of_bits, binary_float_of_bits in F1. rewrite is_finite_FF2B, (decode_32 w Hw) in F1.
        cbv zeta in F1. rewrite E in F1. cbn [Z.eqb] in F1.
        change (255 =? 255) with true in F1. cbv iota in F1.
        destruct (f32_man w); discriminate. }
      destruct (f2d_exact w Hw Hfw) as (G0 & G1 & G2 & G3 & G4).
      rewrite G1, G2, G4, F2. auto.
  - intros Hge. unfold pack_value. cbn [pack_fmt]. rewrite (HN Hge). reflexivity.
Qed.

Theorem float_field_identity b :
  0 <= b < 2 ^ 64 -> Z.land (Z.shiftr b 52) 2047 <> 2047 -> f32_representable b = true ->
  exists f : binary32,
    is_finite 24 128 f = true /\ B2R 24 128 f = B2R 53 1024 (b64_of_bits b) /\
    Bsign 24 128 f = Bsign 53 1024 (b64_of_bits b) /\
    pack_value TFloat (PFloat b) = Ok (le_bytes 4 (bits_of_b32 f)) /\
    unpack_value TFloat (le_bytes 4 (bits_of_b32 f)) = Ok (PFloat b).
Proof.
  intros Hb Hfin Hrep. destruct (representable_roundtrip b Hb Hfin Hrep) as (w & Hd & Hw & F1 & F2 & F3 & F4 & F5).
  exists (b32_of_bits w). rewrite (bits_b32 w Hw). split; [exact F1|]. split; [exact F2|]. split; [exact F3|]. split.
  - unfold pack_value. cbn [pack_fmt]. rewrite Hd. reflexivity.
  - rewrite unpack_float_le by exact Hw. rewrite F5. reflexivity.
Qed.

Theorem double_field_bytes b :
  0 <= b < 2 ^ 64 ->
  pack_value TDouble (PFloat b) = Ok (le_bytes 8 (bits_of_b64 (b64_of_bits b))) /\
  unpack_value TDouble (le_bytes 8 (bits_of_b64 (b64_of_bits b))) = Ok (PFloat b).
Proof.
  intros Hb. rewrite (bits_b64 b Hb). split; [reflexivity|].
  unfold unpack_value. cbn [pack_fmt]. rewrite le_bytes_length. cbn [Nat.eqb].
  rewrite le_value_le_bytes by exact Hb. reflexivity.
Qed.

(* ---- agreement with Flocq's executable conversion ---- *)
Definition flocq_narrow (b : Z) : binary32 :=
  binary_normalize 24 128 prec24_gt_0 prec24_lt_emax BinarySingleNaN.mode_NE
    (sgn (f64_sign b) (f64_sig b)) (f64_ex b) (negb (f64_sign b =? 0)).

Theorem d2f_is_binary_normalize b :
  0 <= b < 2 ^ 64 -> Z.land (Z.shiftr b 52) 2047 <> 2047 ->
  match d2f b with
  | Some w => 0 <= w < 2 ^ 32 /\ flocq_narrow b = b32_of_bits w
  | None => flocq_narrow b = B754_infinity 24 128 (negb (Z.shiftr b 63 =? 0))
  end.
Proof.
  intros Hb Hfin. fold (f64_exp b) in Hfin. fold (f64_sign b).
  pose proof (sign_cases b Hb) as Hs.
  destruct (d2f_rounds b Hb Hfin) as [HS HN]. cbv zeta in HS, HN.
  pose proof (binary_normalize_correct 24 128 prec24_gt_0 prec24_lt_emax BinarySingleNaN.mode_NE
                (sgn (f64_sign b) (f64_sig b)) (f64_ex b) (negb (f64_sign b =? 0))) as HC.
  fold (flocq_narrow b) in HC. fold (f64_R b) in HC.
  change (SpecFloat.fexp 24 128) with fexp32 in HC.
  change (BinarySingleNaN.round_mode BinarySingleNaN.mode_NE) with ZnearestE in HC.
  set (r := round radix2 fexp32 ZnearestE (f64_R b)) in *.
  (* sign of the real value versus the sign bit *)
  assert (Hsig0 : 0 <= f64_sig b).
  { unfold f64_sig. pose proof (man_range b). destruct (f64_exp b =? 0); pw2; lia. }
  assert (Hmag0 : (0 <= F2R (Float radix2 (f64_sig b) (f64_ex b)))%R) by (apply F2R_ge_0; exact Hsig0).
  assert (Hx : f64_R b = if f64_sign b =? 0 then F2R (Float radix2 (f64_sig b) (f64_ex b))
                         else (- F2R (Float radix2 (f64_sig b) (f64_ex b)))%R).
  { unfold f64_R. apply F2R_sgn. exact Hs. }
  destruct (Rlt_bool_spec (Rabs r) (bpow radix2 128)) as [Hlt | Hge].
  - destruct HC as (C1 & C2 & C3).
    destruct (HS Hlt) as (w & Hd & Hw & Hf & Hsg & HR). rewrite Hd. split; [exact Hw|].
    destruct (b32_finite_all w Hw Hf) as (A1 & A2 & A3).
    apply B2R_Bsign_inj; try assumption.
    + rewrite C1, A1, HR. reflexivity.
    + rewrite C3, A3, Hsg.
      destruct (Rcompare_spec (f64_R b) 0) as [Hneg | Hzero | Hpos]; try reflexivity.
      * destruct (f64_sign b =? 0) eqn:E; [|reflexivity]. rewrite Hx in Hneg. lra.
      * destruct (f64_sign b =? 0) eqn:E; [reflexivity|]. rewrite Hx in Hpos. lra.
  - rewrite (HN Hge). apply B2FF_inj. rewrite HC.
    unfold binary_overflow, BinarySingleNaN.binary_overflow. cbn [BinarySingleNaN.overflow_to_inf SF2FF B2FF].
    f_equal.
    (* overflow implies x <> 0, so the sign of x is the sign bit *)
    assert (Hr0 : r <> 0%R).
    { intros E. rewrite E, Rabs_R0 in Hge. pose proof (bpow_gt_0 radix2 128). lra. }
    assert (Hx0 : f64_R b <> 0%R).
    { intros E. apply Hr0. unfold r. rewrite E. apply round_0. apply valid_rnd_N. }
    destruct (Rlt_bool_spec (f64_R b) 0) as [Hneg | Hpos].
    + destruct (f64_sign b =? 0) eqn:E; [|reflexivity]. rewrite Hx in Hneg. lra.
    + destruct (f64_sign b =? 0) eqn:E; [reflexivity|]. rewrite Hx in Hpos, Hx0. lra.
Qed.

(* ---- non-vacuity of the two real-number hypotheses of d2f_correctly_rounded ---- *)
Lemma inrange_witness b w :
  0 <= b < 2 ^ 64 -> Z.land (Z.shiftr b 52) 2047 <> 2047 -> d2f b = Some w ->
  (Rabs (round radix2 (FLT_exp (-149) 24) ZnearestE (B2R 53 1024 (b64_of_bits b))) < bpow radix2 128)%R.
Proof.
  intros Hb Hfin Hd. destruct (d2f_correctly_rounded b Hb Hfin) as [_ HN]. cbv zeta in HN.
  destruct (Rlt_or_le (Rabs (round radix2 (FLT_exp (-149) 24) ZnearestE (B2R 53 1024 (b64_of_bits b)))) (bpow radix2 128))
    as [Hlt | Hge]; [exact Hlt|].
  rewrite (HN Hge) in Hd. discriminate.
Qed.

Lemma overflow_witness b :
  0 <= b < 2 ^ 64 -> Z.land (Z.shiftr b 52) 2047 <> 2047 -> d2f b = None ->
  (bpow radix2 128 <= Rabs (round radix2 (FLT_exp (-149) 24) ZnearestE (B2R 53 1024 (b64_of_bits b))))%R.
Proof.
  intros Hb Hfin Hd. destruct (d2f_correctly_rounded b Hb Hfin) as [HS _]. cbv zeta in HS.
  destruct (Rlt_or_le (Rabs (round radix2 (FLT_exp (-149) 24) ZnearestE (B2R 53 1024 (b64_of_bits b)))) (bpow radix2 128))
    as [Hlt | Hge]; [|exact Hge].
  destruct (HS Hlt) as (w & Hw & _). rewrite Hd in Hw. discriminate.
Qed.
