(* C05, message level, ACCEPT direction, part 1 of the reader: one element and one field.  The canonical JSON of a
   well-formed abstract field value is converted by _from_dict_init's value conversion into [conc_field]. *)
From BP Require Import Base.Prelude Model.Types Model.Float Model.Utf8 Model.Object Model.WellFormed Model.TimeCore Spec.Time.
From BP Require Model.Json Model.Enum Model.Casing Spec.JsonMap Model.Time.
From BP Require Import gen.Tables.
From BP Require Import Proofs.BytesP Proofs.C04Def Proofs.C04ScalarP Proofs.C04ElemP Proofs.C04FieldP Proofs.C04ObjP.
From BP Require Import Proofs.C05Casing Proofs.C05Leaf Proofs.C05Model Proofs.C05MsgDef Proofs.C05MsgSpec Proofs.C05MsgLeaf
                       Proofs.C05MsgField.
From BP Require Import Proofs.C05AccDef Proofs.C05AccSpec Proofs.C05AccLeaf.
From Coq Require Import Lia.

(* shapes of canonical JSON values *)
Definition not_arr_null (j : S.json) : Prop := match j with S.JArr _ | S.JNull => False | _ => True end.
Lemma los_single conv j : not_arr_null j -> J.list_or_single conv (unconv j) = conv (unconv j).
Proof. destruct j; intros H; try contradiction H; reflexivity. Qed.
Lemma unconv_not_null j : not_arr_null j -> unconv j <> J.JNull.
Proof. destruct j; intros H; try contradiction H; discriminate. Qed.
Lemma spec_scalar_shape k a j : S.spec_scalar k a = Some j -> not_arr_null j.
Proof. intros H. pose proof (spec_scalar_leaf k a j H) as L. destruct j; try contradiction L; try exact I.
  destruct k, a; cbn [S.spec_scalar] in H; try discriminate H;
    repeat match type of H with context [if ?c then _ else _] => destruct c end; discriminate H. Qed.

Lemma mapM_Forall2 {A B} (f : A -> result B) l ys :
  Forall2 (fun x y => f x = Ok y) l ys -> J.mapM f l = Ok ys.
Proof. induction 1 as [|x y l ys H _ IH]; [reflexivity|]. cbn [J.mapM]. rewrite H. cbn [bind]. rewrite IH. reflexivity. Qed.

Lemma mapM_ext {A B} (f g : A -> result B) l : (forall x, f x = g x) -> J.mapM f l = J.mapM g l.
Proof. intros H. induction l as [|x l IH]; [reflexivity|]. cbn [J.mapM]. rewrite H, IH. reflexivity. Qed.

Lemma wrapper_skind w : is_some' (wrapper_cls w) = true -> skind_of w = Some (sk w).
Proof. destruct w; cbn; intros H; try discriminate H; reflexivity. Qed.

Section Field.
  Variable sc : schema.
  Variable js : S.jschema.
  Variable off : nat.
  Hypothesis JM : js_matches off sc js = true.
  Let nj := length (S.jclasses js).
  Let nc := length (classes sc).
  Let ne := length (enums sc).
  Notation wfa := (wf_aval sc js off).
  Notation cel := (conc_elem sc js off).

  Variable n : nat.
  (* the induction hypothesis: messages of smaller size *)
  Hypothesis IHm : forall c afs, (aval_size (S.AMsg afs) < n)%nat -> wfa (S.JMsg c) (S.AMsg afs) = true ->
    exists j, S.spec_val js (S.JMsg c) (S.AMsg afs) = Some j /\
              J.from_dict_cls sc (c + off) (unconv j) = Ok (conc_obj sc js off c afs).

  Lemma spec_val_msg_shape c afs j : S.spec_val js (S.JMsg c) (S.AMsg afs) = Some j -> not_arr_null j.
  Proof. rewrite spec_val_msg. destruct (spec_fields js (S.jclass js c) afs); intros H; inversion H; exact I. Qed.

  Lemma elem_read t p v :
    (aval_size v < n)%nat -> pyty_fits nc ne t p = true ->
    (forall c, p = PyMsg c -> (off <= c)%nat /\ (c - off < nj)%nat) ->
    wfa (kind_of_elem off t p) v = true ->
    exists j, S.spec_val js (kind_of_elem off t p) v = Some j /\ not_arr_null j /\
              J.elem_from_json (recf sc) sc t p (unconv j) = Ok (cel (kind_of_elem off t p) v).
  Proof.
    intros Hs Hp Hm W.
    destruct (scalar_py p) eqn:Sp.
    - pose proof (fits_scalar _ _ _ _ Sp Hp) as Ht. destruct (scalar_not_message t Ht) as [Nm _].
      assert (Ef : forall j, J.elem_from_json (recf sc) sc t p j = J.scalar_from_json sc t p j).
      { intros j. unfold J.elem_from_json. rewrite Nm. destruct p; try discriminate Sp; reflexivity. }
      destruct (skind_of t) as [k|] eqn:K.
      + assert (Kd : kind_of_elem off t p = S.JScalar k).
        { unfold kind_of_elem, sk. rewrite K. destruct t; try discriminate K; destruct p; try discriminate Hp; reflexivity. }
        rewrite Kd in *.
        assert (Lf : match v with S.AMsg _ | S.ATime _ _ | S.ADur _ _ | S.AEnum _ => False | _ => True end)
          by (destruct v; try discriminate W; exact I).
        assert (Wl : wf_leaf k v = true) by (destruct v; try contradiction Lf; exact W).
        destruct (scalar_read sc js off t k p v K Hp Wl) as (j & Sj & Rd & _).
        exists j. rewrite (proj1 (spec_val_scalar js k v Lf)). split; [exact Sj|]. split; [exact (spec_scalar_shape _ _ _ Sj)|].
        rewrite Ef, Rd. f_equal. symmetry. apply conc_elem_leaf. destruct v; try contradiction Lf; exact I.
      + destruct t; try discriminate K; try discriminate Ht. destruct p; try discriminate Hp.
        cbn [kind_of_elem] in *. destruct v; try discriminate W. cbn [wf_aval] in W.
        destruct (enum_read sc js off JM e n0 W) as (j & Sj & Rd). exists j. split; [exact Sj|].
        split; [|rewrite Ef; exact Rd].
        cbn [S.spec_val] in Sj. destruct (S.enum_name (S.jenum js e) n0); inversion Sj; exact I.
    - pose proof (fits_message _ _ _ _ Sp Hp) as ->.
      destruct p; try discriminate Sp; cbn [kind_of_elem] in *.
      + (* nested message *)
        destruct (Hm _ eq_refl) as [M1 M2].
        destruct v as [| | | | | | | |afs]; try discriminate W.
        destruct (IHm (c - off) afs Hs W) as (j & Sj & Rd). exists j. split; [exact Sj|].
        split; [exact (spec_val_msg_shape _ _ _ Sj)|].
        cbn [J.elem_from_json]. change (ptype_eqb TMessage TMessage) with true. cbv iota.
        change (recf sc c (unconv j)) with (J.from_dict_cls sc c (unconv j)).
        replace (c - off + off)%nat with c in Rd by lia. rewrite Rd. reflexivity.
      + destruct v; try discriminate W. cbn [wf_aval] in W. destruct (time_read s n0 W) as (P & _ & _).
        exists (S.JStr (S.ts_str s n0)). split; [reflexivity|]. split; [exact I|].
        cbn [unconv J.elem_from_json]. rewrite P. reflexivity.
      + destruct v; try discriminate W. cbn [wf_aval] in W. destruct (dur_read s n0 W) as (P & _ & _).
        exists (S.JStr (dur_json s n0)). split; [reflexivity|]. split; [exact I|].
        cbn [unconv J.elem_from_json]. rewrite P. reflexivity.
  Qed.

  (* lists and maps *)
  Lemma list_read t p l :
    (forall x, In x l -> (aval_size x < n)%nat) -> pyty_fits nc ne t p = true ->
    (forall c, p = PyMsg c -> (off <= c)%nat /\ (c - off < nj)%nat) ->
    forallb (wfa (kind_of_elem off t p)) l = true ->
    exists js', spec_list js (kind_of_elem off t p) l = Some js' /\
                J.mapM (J.elem_from_json (recf sc) sc t p) (map unconv js') = Ok (map (cel (kind_of_elem off t p)) l).
  Proof.
    intros Hs Hp Hm W. induction l as [|x l IH]; [exists []; split; reflexivity|].
    cbn [forallb] in W. apply andb_prop in W as [W1 W2].
    destruct (elem_read t p x (Hs x (or_introl eq_refl)) Hp Hm W1) as (j & Sj & _ & Rd).
    destruct (IH (fun y Hy => Hs y (or_intror Hy)) W2) as (js' & Sl & Rl).
    exists (j :: js'). split.
    - cbn [spec_list]. rewrite Sj.
      change ((fix each (l0 : list S.aval) : option (list S.json) :=
                 match l0 with
                 | [] => Some []
                 | x0 :: r => match S.spec_val js (kind_of_elem off t p) x0, each r with
                              | Some j0, Some t0 => Some (j0 :: t0)
                              | _, _ => None
                              end
                 end) l) with (spec_list js (kind_of_elem off t p) l).
      rewrite Sl. reflexivity.
    - cbn [map J.mapM]. rewrite Rd. cbn [bind].
      change ((fix go (l0 : list J.json) : result (list pv) :=
                 match l0 with
                 | [] => Ok []
                 | x0 :: r => do y <- J.elem_from_json (recf sc) sc t p x0; do ys <- go r; Ok (y :: ys)
                 end) (map unconv js')) with (J.mapM (J.elem_from_json (recf sc) sc t p) (map unconv js')).
      rewrite Rl. reflexivity.
  Qed.

  Definition uentry (kx : list byte * S.json) : J.json * J.json := (J.JStr (fst kx), unconv (snd kx)).

  Lemma dict_read kt vt pk p l :
    (forall k x, In (k, x) l -> (aval_size x < n)%nat) ->
    map_key_ok kt = true -> pyty_fits nc ne kt pk = true -> pyty_fits nc ne vt p = true ->
    (forall c, p = PyMsg c -> (off <= c)%nat /\ (c - off < nj)%nat) ->
    forallb (fun kx => wf_mkey (sk kt) (fst kx) && wfa (kind_of_elem off vt p) (snd kx)) l = true ->
    exists kvs, spec_entries js (sk kt) (kind_of_elem off vt p) l = Some kvs /\
      J.mapM (fun kx : J.json * J.json => let '(k, x) := kx in
                do k' <- J.key_from_json kt k; do x' <- J.elem_from_json (recf sc) sc vt p x; Ok (k', x'))
             (map uentry kvs)
      = Ok (map (fun kx => (cel (S.JScalar S.KInt32) (fst kx), cel (kind_of_elem off vt p) (snd kx))) l).
  Proof.
    intros Hs Hk Hpk Hp Hm W. induction l as [|[k x] l IH]; [exists []; split; reflexivity|].
    cbn [forallb fst snd] in W. apply andb_prop in W as [W1 W2]. apply andb_prop in W1 as [Wk Wx].
    destruct (elem_read vt p x (Hs k x (or_introl eq_refl)) Hp Hm Wx) as (j & Sj & _ & Rd).
    destruct (key_read sc kt pk k Hk Hpk Wk) as (ks & Ks & Kr & _).
    destruct (IH (fun k' y Hy => Hs k' y (or_intror Hy)) W2) as (kvs & Sl & Rl).
    exists ((ks, j) :: kvs). split.
    - cbn [spec_entries]. rewrite Ks, Sj.
      change ((fix each (l0 : list (S.aval * S.aval)) : option (list (list byte * S.json)) :=
                 match l0 with
                 | [] => Some []
                 | (kv, x0) :: r => match S.key_str (sk kt) kv, S.spec_val js (kind_of_elem off vt p) x0, each r with
                                    | Some ks0, Some j0, Some t0 => Some ((ks0, j0) :: t0)
                                    | _, _, _ => None
                                    end
                 end) l) with (spec_entries js (sk kt) (kind_of_elem off vt p) l).
      rewrite Sl. reflexivity.
    - cbn [map J.mapM uentry fst snd]. rewrite Kr. cbn [bind]. rewrite Rd. cbn [bind].
      match goal with |- (do ys <- ?m; _) = _ =>
        change m with (J.mapM (fun kx : J.json * J.json => let '(k0, x0) := kx in
                         do k' <- J.key_from_json kt k0; do x' <- J.elem_from_json (recf sc) sc vt p x0; Ok (k', x'))
                       (map uentry kvs)) end.
      rewrite Rl. cbn [bind map fst snd]. f_equal. f_equal. f_equal.
      symmetry. apply conc_elem_leaf. unfold wf_mkey in Wk. apply andb_prop in Wk as [Wk _].
      destruct k; try exact I. destruct (sk kt); discriminate Wk.
  Qed.
  Lemma elem_from_scalar t p j : scalar_py p = true -> ptype_eqb t TMessage = false ->
    J.elem_from_json (recf sc) sc t p j = J.scalar_from_json sc t p j.
  Proof. intros Sp Nm. unfold J.elem_from_json. rewrite Nm. destruct p; try discriminate Sp; reflexivity. Qed.

  (* a singular value of element type (t, p) in a field whose value conversion is list_or_single of the element reader *)
  Lemma single_read t p x :
    (aval_size x < n)%nat -> pyty_fits nc ne t p = true ->
    (forall c, p = PyMsg c -> (off <= c)%nat /\ (c - off < nj)%nat) ->
    wfa (kind_of_elem off t p) x = true ->
    exists j, S.spec_val js (kind_of_elem off t p) x = Some j /\ unconv j <> J.JNull /\
      (if ptype_eqb t TMessage
       then J.list_or_single (J.elem_from_json (recf sc) sc TMessage p) (unconv j)
       else J.list_or_single (J.scalar_from_json sc t p) (unconv j)) = Ok (cel (kind_of_elem off t p) x).
  Proof.
    intros Hs Hp Hm W. destruct (elem_read t p x Hs Hp Hm W) as (j & Sj & Sh & Rd).
    exists j. split; [exact Sj|]. split; [exact (unconv_not_null j Sh)|].
    rewrite !(los_single _ j Sh).
    destruct (scalar_py p) eqn:Sp.
    - pose proof (fits_scalar _ _ _ _ Sp Hp) as Ht. destruct (scalar_not_message t Ht) as [Nm _].
      rewrite Nm. rewrite <- (elem_from_scalar t p _ Sp Nm). exact Rd.
    - pose proof (fits_message _ _ _ _ Sp Hp) as ->. exact Rd.
  Qed.

  Lemma field_read ng f fd af :
    wf_field sc ng f = true -> fmatch off nj f fd -> (afield_size af < n)%nat ->
    wf_afield wfa f fd af = true ->
    if omitted fd af then S.spec_field js fd af = Some None
    else exists j, S.spec_field js fd af = Some (Some j) /\ unconv j <> J.JNull /\
                   J.value_from_json (recf sc) sc f (unconv j) = Ok (conc_field cel f fd af).
  Proof.
    intros W [Fk Fkind Fcard Fone Fmsg] Hs Wa.
    destruct f as [name num t mp grp wr op hint ent].
    unfold wf_field in W. cbn [fnum fgroup fhint fopt fwraps fmap fty] in W.
    fold nc ne in W. apply andb_prop in W as [W Wh]. clear W.
    unfold kind_of, elem_ptype in Fkind. unfold card_of in Fcard.
    cbn [fwraps fmap fty fhint fgroup J.hint_elem] in Fkind, Fcard, Fmsg.
    unfold wf_afield in Wa. unfold conc_field, omitted. unfold J.value_from_json.
    cbn [fty fwraps fmap J.hint_elem fhint].
    destruct hint as [p|p|p|pk p]; cbn [J.hint_elem fhint] in *.
    - (* ---- plain ---- *)
      apply andb_true5 in Wh as [Wop [Wwr [Wmp [Wt Wp]]]].
      apply negb_true in Wop. apply is_some'_false in Wwr. apply is_some'_false in Wmp. subst op wr mp.
      destruct af as [|x|l|l].
      + rewrite spec_field_absent. destruct (S.jf_card fd); try discriminate Wa; reflexivity.
      + cbn [afield_size] in Hs. rewrite spec_field_one. rewrite Fkind in *.
        destruct (S.jf_card fd) eqn:Cd; try discriminate Wa; apply andb_prop in Wa as [W1 W2];
          destruct (single_read t p x Hs Wp Fmsg W1) as (j & Sj & Nn & Rd).
        * destruct (S.is_default_val x); [rewrite Sj; reflexivity|].
          exists j. rewrite Sj. split; [reflexivity|]. split; [exact Nn|exact Rd].
        * exists j. rewrite Sj. split; [reflexivity|]. split; [exact Nn|exact Rd].
      + destruct (S.jf_card fd) eqn:Cd; try discriminate Wa. destruct (is_some' grp || explicit_py p); discriminate Fcard.
      + destruct (S.jf_card fd) eqn:Cd; try discriminate Wa. destruct (is_some' grp || explicit_py p); discriminate Fcard.
    - (* ---- optional: wrapper or proto3 optional ---- *)
      rewrite Fcard in *.
      destruct af as [|x|l|l]; try discriminate Wa.
      + rewrite spec_field_absent, Fcard. reflexivity.
      + cbn [afield_size] in Hs. rewrite spec_field_one, Fcard. apply andb_prop in Wa as [W1 W2].
        destruct wr as [w|].
        * apply andb_prop in Wh as [Wh Wrest]. apply andb_prop in Wh as [Wmp Wgrp].
          apply andb_prop in Wrest as [Wrest Wfit]. apply andb_prop in Wrest as [Wrest Wcls]. apply andb_prop in Wrest as [Wop Wt].
          apply ptype_eqb_eq in Wt. subst t.
          destruct (wrapper_value_type w) as [vt|] eqn:Ev; [|discriminate Wfit].
          pose proof (wrapper_same w vt Ev) as Evt. subst vt.
          pose proof (wrapper_scalar w Wcls) as Ht. pose proof (fits_scalar_py _ _ _ _ Ht Wfit) as Sp.
          rewrite Fkind in *.
          assert (Lf : match x with S.AMsg _ | S.ATime _ _ | S.ADur _ _ | S.AEnum _ => False | _ => True end)
            by (destruct x; try discriminate W1; exact I).
          assert (Wl : wf_leaf (sk w) x = true) by (destruct x; try contradiction Lf; exact W1).
          destruct (scalar_read sc js off w (sk w) p x (wrapper_skind w Wcls) Wfit Wl) as (j & Sj & Rd & _).
          exists j. rewrite (proj2 (spec_val_scalar js (sk w) x Lf)), Sj. split; [reflexivity|].
          pose proof (spec_scalar_shape _ _ _ Sj) as Sh. split; [exact (unconv_not_null j Sh)|].
          change (ptype_eqb TMessage TMessage) with true. cbv iota.
          assert (Ec : cel (S.JWrapper (sk w)) x = conc_leaf x) by (apply conc_elem_leaf; destruct x; try contradiction Lf; exact I).
          rewrite Ec, <- Rd. destruct p; try discriminate Sp; apply (los_single _ j Sh).
        * apply andb_prop in Wh as [Wh Wrest]. apply andb_prop in Wh as [Wmp Wgrp].
          apply is_some'_false in Wmp. subst mp.
          apply andb_prop in Wrest as [Wrest Wp]. apply andb_prop in Wrest as [Wop Wt].
          rewrite Fkind in *.
          destruct (single_read t p x Hs Wp Fmsg W1) as (j & Sj & Nn & Rd).
          exists j. rewrite Sj. split; [reflexivity|]. split; [exact Nn|exact Rd].
    - (* ---- repeated ---- *)
      apply andb_prop in Wh as [Wh Wp]. apply andb_prop in Wh as [Wh Wt]. apply andb_prop in Wh as [Wh Wgrp].
      apply andb_prop in Wh as [Wh Wmp]. apply andb_prop in Wh as [Wop Wwr].
      apply is_some'_false in Wwr. apply is_some'_false in Wmp. subst wr mp.
      rewrite Fcard, Fkind in *.
      destruct af as [|x|l|l]; try discriminate Wa.
      rewrite spec_field_rep, Fcard, Fkind.
      destruct l as [|x l']; [reflexivity|]. cbn [is_nil].
      destruct (list_read t p (x :: l')) as (js' & Sl & Rl); try assumption.
      { intros y Hy. pose proof (in_rep_size y _ Hy). lia. }
      exists (S.JArr js'). rewrite Sl. split; [reflexivity|]. split; [discriminate|].
      cbn [unconv J.list_or_single].
      destruct (scalar_py p) eqn:Sp.
      + pose proof (fits_scalar _ _ _ _ Sp Wp) as Ht. destruct (scalar_not_message t Ht) as [Nm _]. rewrite Nm.
        rewrite (mapM_ext _ (J.elem_from_json (recf sc) sc t p)) by (intros; symmetry; apply elem_from_scalar; assumption).
        rewrite Rl. reflexivity.
      + pose proof (fits_message _ _ _ _ Sp Wp) as ->. change (ptype_eqb TMessage TMessage) with true. cbv iota.
        rewrite Rl. reflexivity.
    - (* ---- map ---- *)
      apply andb_prop in Wh as [Wh Wentry]. apply andb_prop in Wh as [Wh Wmap]. apply andb_prop in Wh as [Wh Wt].
      apply andb_prop in Wh as [Wh Wgrp]. apply andb_prop in Wh as [Wop Wwr].
      apply is_some'_false in Wwr. subst wr.
      apply ptype_eqb_eq in Wt. subst t.
      destruct mp as [[kt vt]|]; [|discriminate Wmap].
      apply andb_prop in Wmap as [Wmap Wv]. apply andb_prop in Wmap as [Wmap Wk]. apply andb_prop in Wmap as [Wkey Wvt].
      rewrite Fcard, Fkind in *.
      destruct af as [|x|l|l]; try discriminate Wa.
      rewrite spec_field_map, Fcard, Fkind.
      destruct l as [|kx l']; [reflexivity|]. cbn [is_nil].
      apply andb_prop in Wa as [Wa _].
      destruct (dict_read kt vt pk p (kx :: l')) as (kvs & Sl & Rl); try assumption.
      { intros k y Hy. pose proof (in_map_size k y _ Hy). lia. }
      exists (S.JObj kvs). rewrite Sl. split; [reflexivity|]. split; [discriminate|].
      cbn [unconv]. change (ptype_eqb TMap TMessage) with false. cbv iota.
      change (map (fun kx0 : list byte * S.json => (J.JStr (fst kx0), unconv (snd kx0))) kvs) with (map uentry kvs).
      rewrite Rl. reflexivity.
  Qed.
End Field.
