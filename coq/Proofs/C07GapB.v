(* C07 gap closing, second group (the table is at the top of C07GapA.v): converses / uniqueness ("at most one", "exactly",
   "no other"), the assignment clause composed with the encoding and with to_dict, m.from_dict(d) with several members. *)
From Coq Require Import ZArith List Bool Lia Arith.
From BP Require Import Base.Prelude Model.Types Model.Object Model.Eq Model.Encode Model.Decode Model.WellFormed Model.Json.
From BP Require Import Model.History Model.C07Ops Model.C07Step Model.C07Wire Model.C07GapDef.
From BP Require Import Proofs.C07InvP Proofs.C07LoadP Proofs.C07HistP Proofs.C07ParseP Proofs.C07ObsP Proofs.C07ValP Proofs.C07JsonP.
From BP Require Import Proofs.C07GapA.
Import ListNotations.

(* ---------- (1a) / (3): readable EXACTLY when selected - for every object, from the reading rule alone ---------- *)
Theorem read_iff_selected sc o i f g :
  nth_error (cfs sc o) i = Some f -> fgroup f = Some g ->
  ((exists v, read sc o i = Ok v) <-> which_one_of o g = Some i) /\
  (read sc o i = Err EAttribute <-> which_one_of o g <> Some i) /\
  (forall e, read sc o i = Err e -> e = EAttribute).
Proof.
  destruct o as [c raw sow unk cur]. unfold cfs, which_one_of. cbn [ocls ocur]. intros Hf Hg.
  rewrite (read_member sc c raw sow unk cur i f g Hf Hg).
  destruct (opt_nat_eqb (nth g cur None) (Some i)) eqn:E.
  - apply opt_nat_eqb_eq in E. split; [split; [intros _; exact E | intros _; eauto]|].
    split; [split; [discriminate | intros H; contradiction]|]. intros e H. discriminate.
  - assert (N : nth g cur None <> Some i).
    { intros H. apply opt_nat_eqb_eq in H. congruence. }
    split; [split; [intros (v & H); discriminate | intros H; contradiction]|].
    split; [split; [intros _; exact N | reflexivity]|]. intros e H. injection H as <-. reflexivity.
Qed.

(* "at most one member of each oneof group is set": two readable members of one group are the same member *)
Theorem at_most_one_readable sc o g i j fi fj vi vj :
  nth_error (cfs sc o) i = Some fi -> fgroup fi = Some g ->
  nth_error (cfs sc o) j = Some fj -> fgroup fj = Some g ->
  read sc o i = Ok vi -> read sc o j = Ok vj -> i = j.
Proof.
  intros Hi Hgi Hj Hgj Ri Rj.
  pose proof (proj1 (proj1 (read_iff_selected sc o i fi g Hi Hgi)) (ex_intro _ vi Ri)) as A.
  pose proof (proj1 (proj1 (read_iff_selected sc o j fj g Hj Hgj)) (ex_intro _ vj Rj)) as B.
  congruence.
Qed.

Lemma run7_cls sc : forall ops o o', InvS sc o -> run7 sc o ops = Ok o' -> ocls o' = ocls o.
Proof.
  induction ops as [|p ops IH]; intros o o' HI E; cbn [run7] in E.
  - injection E as <-. reflexivity.
  - destruct (step7 sc o p) as [[o1 x]|] eqn:Es; cbn [bind] in E; [|discriminate].
    rewrite (IH o1 o' (InvS_step7 _ _ _ _ _ HI Es) E). eapply step7_cls; eauto.
Qed.

(* what which_one_of names after a history IS a member of that very group of the class the history started with, the group
   index is in range, that member is readable; and a group index out of range names nothing *)
Theorem reachable_selected_is_member sc c ops o :
  run7 sc (new sc c) ops = Ok o ->
  ocls o = c /\
  (forall g i, which_one_of o g = Some i ->
     (g < cngroups (get_class sc c))%nat /\ member sc c g i /\ exists v, read sc o i = Ok v) /\
  (forall g, (cngroups (get_class sc c) <= g)%nat -> which_one_of o g = None).
Proof.
  intros E. pose proof (InvS_run7 sc ops _ _ (InvS_new sc c) E) as HI.
  pose proof (run7_cls sc ops _ _ (InvS_new sc c) E) as Hc. cbn [ocls new] in Hc.
  destruct HI as (Hr & Hl & Hm & Hn). rewrite Hc in *. split; [reflexivity|]. split.
  - intros g i Hw. unfold which_one_of in Hw.
    assert (Hg : (g < cngroups (get_class sc c))%nat).
    { destruct (Nat.lt_ge_cases g (length (ocur o))) as [H|H]; [lia|]. rewrite nth_overflow in Hw by lia. discriminate. }
    split; [exact Hg|]. pose proof (Hm g i Hw) as Hmem. split; [exact Hmem|].
    destruct Hmem as (f & Hf & Hfg).
    apply (proj2 (proj1 (read_iff_selected sc o i f g ltac:(unfold cfs; rewrite Hc; exact Hf) Hfg))). exact Hw.
  - intros g Hg. unfold which_one_of. apply nth_overflow. lia.
Qed.

(* ---------- (4a) "that member and no other": a member's number / key is in the output IFF which_one_of names it ---------- *)
Lemma excl_iff {A} (key : fdesc -> A) (S : list A) sc o :
  (forall g, (g < cngroups (get_class sc (ocls o)))%nat ->
     match which_one_of o g with
     | Some i => exists f, nth_error (cfs sc o) i = Some f /\ In (key f) S /\
                   forall j f', j <> i -> nth_error (cfs sc o) j = Some f' -> fgroup f' = Some g -> ~ In (key f') S
     | None => forall j f', nth_error (cfs sc o) j = Some f' -> fgroup f' = Some g -> ~ In (key f') S
     end) ->
  forall g j f', (g < cngroups (get_class sc (ocls o)))%nat ->
    nth_error (cfs sc o) j = Some f' -> fgroup f' = Some g ->
    (In (key f') S <-> which_one_of o g = Some j).
Proof.
  intros H g j f' Hg Hj Hfg. specialize (H g Hg). destruct (which_one_of o g) as [i|].
  - destruct H as (f & Hf & Hin & Hno). destruct (Nat.eq_dec j i) as [->|Hne].
    + rewrite Hf in Hj. injection Hj as <-. split; auto.
    + split; [intros Hi; exfalso; exact (Hno j f' Hne Hj Hfg Hi) | intros Hs; congruence].
  - split; [intros Hi; exfalso; exact (H j f' Hj Hfg Hi) | discriminate].
Qed.

Theorem observable_iff sc o bs :
  wf_schema sc = true -> Inv sc o -> selected_values_ok sc o -> enc_obj sc o = Ok bs ->
  exists body rs,
    bs = body ++ ounk o /\ records body = Some rs /\
    forall g j f', (g < cngroups (get_class sc (ocls o)))%nat ->
      nth_error (cfs sc o) j = Some f' -> fgroup f' = Some g ->
      (In (fnum f') (numbers rs) <-> which_one_of o g = Some j).
Proof.
  intros Hwf HI Hv E. destruct (observable sc o bs Hwf HI Hv E) as (body & rs & Hb & Hr & H).
  exists body, rs. split; [exact Hb|]. split; [exact Hr|]. apply (excl_iff fnum (numbers rs) sc o H).
Qed.

Theorem observable_iff_reachable sc c ops o bs :
  wf_schema sc = true -> Forall (op_ok sc c) ops -> run7 sc (new sc c) ops = Ok o -> enc_obj sc o = Ok bs ->
  exists body rs,
    bs = body ++ ounk o /\ records body = Some rs /\
    forall g j f', (g < cngroups (get_class sc (ocls o)))%nat ->
      nth_error (cfs sc o) j = Some f' -> fgroup f' = Some g ->
      (In (fnum f') (numbers rs) <-> which_one_of o g = Some j).
Proof.
  intros Hwf Hok Er E. apply observable_iff; auto.
  - eapply inv_reachable; eauto.
  - eapply selected_values_reachable; eauto.
Qed.

Theorem json_observable_iff cs incl sc o :
  wf_schema sc = true -> Inv sc o -> selected_values_ok sc o -> keys_distinct cs sc (ocls o) ->
  forall g j f', (g < cngroups (get_class sc (ocls o)))%nat ->
    nth_error (cfs sc o) j = Some f' -> fgroup f' = Some g ->
    (In (key_of_field cs f') (jkeys (to_dict cs incl sc o)) <-> which_one_of o g = Some j).
Proof.
  intros Hwf HI Hv Hk. apply (excl_iff (key_of_field cs) (jkeys (to_dict cs incl sc o)) sc o).
  apply to_dict_observable; auto.
Qed.

Theorem json_observable_iff_reachable cs incl sc c ops o :
  wf_schema sc = true -> Forall (op_ok sc c) ops -> run7 sc (new sc c) ops = Ok o -> keys_distinct cs sc (ocls o) ->
  forall g j f', (g < cngroups (get_class sc (ocls o)))%nat ->
    nth_error (cfs sc o) j = Some f' -> fgroup f' = Some g ->
    (In (key_of_field cs f') (jkeys (to_dict cs incl sc o)) <-> which_one_of o g = Some j).
Proof.
  intros Hwf Hok Er Hk. apply json_observable_iff; auto.
  - eapply inv_reachable; eauto.
  - eapply selected_values_reachable; eauto.
Qed.

(* ---------- (5) the assignment clause composed with the encoding and with to_dict ---------- *)
Lemma assign_state sc o i v f g :
  wf_schema sc = true -> Inv sc o -> selected_values_ok sc o ->
  nth_error (cfs sc o) i = Some f -> fgroup f = Some g -> vok v = true ->
  let o' := setattr sc o i v in
  Inv sc o' /\ selected_values_ok sc o' /\ ocls o' = ocls o /\ ounk o' = ounk o /\
  (g < cngroups (get_class sc (ocls o)))%nat /\ which_one_of o' g = Some i.
Proof.
  intros Hwf HI Hv Hf Hg Hvok o'. pose proof (InvS_of_Inv _ _ HI) as HS.
  destruct (setattr_shape sc o i v) as (Hc & Hu).
  split; [apply Inv_of_InvS, InvS_setattr; exact HS|].
  split; [apply (SV_iff sc), SV_setattr; [exact HS | apply (SV_iff sc); exact Hv | intros _; exact Hvok]|].
  split; [exact Hc|]. split; [exact Hu|].
  split; [eapply wf_group_bound; eauto|]. eapply last_wins_wf; eauto.
Qed.

Theorem assign_on_wire sc o i v f g bs :
  wf_schema sc = true -> Inv sc o -> selected_values_ok sc o ->
  nth_error (cfs sc o) i = Some f -> fgroup f = Some g -> vok v = true ->
  enc_obj sc (setattr sc o i v) = Ok bs ->
  exists body rs,
    bs = body ++ ounk o /\ records body = Some rs /\ In (fnum f) (numbers rs) /\
    forall j f', j <> i -> nth_error (cfs sc o) j = Some f' -> fgroup f' = Some g -> ~ In (fnum f') (numbers rs).
Proof.
  intros Hwf HI Hv Hf Hg Hvok E.
  destruct (assign_state sc o i v f g Hwf HI Hv Hf Hg Hvok) as (HI' & Hv' & Hc & Hu & Hl & Hw).
  destruct (observable sc _ bs Hwf HI' Hv' E) as (body & rs & Hb & Hr & H).
  exists body, rs. rewrite Hu in Hb. split; [exact Hb|]. split; [exact Hr|].
  rewrite Hc in H. specialize (H g Hl). rewrite Hw in H. unfold cfs in H. rewrite Hc in H.
  destruct H as (f0 & Hf0 & Hin & Hno). unfold cfs in Hf. rewrite Hf in Hf0. injection Hf0 as <-.
  split; [exact Hin | exact Hno].
Qed.

(* "even when assigning its default value": no condition on the value at all *)
Theorem assign_default_on_wire sc o i f g bs :
  wf_schema sc = true -> Inv sc o -> selected_values_ok sc o ->
  nth_error (cfs sc o) i = Some f -> fgroup f = Some g ->
  enc_obj sc (setattr sc o i (default_of sc f)) = Ok bs ->
  which_one_of (setattr sc o i (default_of sc f)) g = Some i /\
  exists body rs,
    bs = body ++ ounk o /\ records body = Some rs /\ In (fnum f) (numbers rs) /\
    forall j f', j <> i -> nth_error (cfs sc o) j = Some f' -> fgroup f' = Some g -> ~ In (fnum f') (numbers rs).
Proof.
  intros Hwf HI Hv Hf Hg E.
  assert (Hvok : vok (default_of sc f) = true) by (eapply member_default_vok; eauto).
  split; [eapply last_wins_wf; eauto|]. eapply assign_on_wire; eauto.
Qed.

Theorem assign_in_json cs incl sc o i v f g :
  wf_schema sc = true -> Inv sc o -> selected_values_ok sc o -> keys_distinct cs sc (ocls o) ->
  nth_error (cfs sc o) i = Some f -> fgroup f = Some g -> vok v = true ->
  let d := to_dict cs incl sc (setattr sc o i v) in
  In (key_of_field cs f) (jkeys d) /\
  forall j f', j <> i -> nth_error (cfs sc o) j = Some f' -> fgroup f' = Some g -> ~ In (key_of_field cs f') (jkeys d).
Proof.
  intros Hwf HI Hv Hk Hf Hg Hvok d.
  destruct (assign_state sc o i v f g Hwf HI Hv Hf Hg Hvok) as (HI' & Hv' & Hc & Hu & Hl & Hw).
  assert (Hk' : keys_distinct cs sc (ocls (setattr sc o i v))) by (rewrite Hc; exact Hk).
  pose proof (to_dict_observable cs incl sc _ Hwf HI' Hv' Hk') as H.
  rewrite Hc in H. specialize (H g Hl). rewrite Hw in H. unfold cfs in H. rewrite Hc in H.
  destruct H as (f0 & Hf0 & Hin & Hno). unfold cfs in Hf. rewrite Hf in Hf0. injection Hf0 as <-.
  split; [exact Hin | exact Hno].
Qed.

Theorem assign_default_in_json cs incl sc o i f g :
  wf_schema sc = true -> Inv sc o -> selected_values_ok sc o -> keys_distinct cs sc (ocls o) ->
  nth_error (cfs sc o) i = Some f -> fgroup f = Some g ->
  let d := to_dict cs incl sc (setattr sc o i (default_of sc f)) in
  In (key_of_field cs f) (jkeys d) /\
  forall j f', j <> i -> nth_error (cfs sc o) j = Some f' -> fgroup f' = Some g -> ~ In (key_of_field cs f') (jkeys d).
Proof.
  intros Hwf HI Hv Hk Hf Hg. apply assign_in_json; auto. eapply member_default_vok; eauto.
Qed.

(* ---------- (2e) m.from_dict(d) with several members of a group: the LAST entry in dict order wins ---------- *)
Theorem from_dict_inst_last sc o kw1 i v kw2 f g :
  Inv sc o -> nth_error (cfs sc o) i = Some f -> fgroup f = Some g -> (g < cngroups (get_class sc (ocls o)))%nat ->
  touches sc (ocls o) g (OFromDictInst kw2) = false ->
  which_one_of (C07Ops.from_dict_inst sc o (kw1 ++ (i, v) :: kw2)) g = Some i.
Proof.
  intros HI Hf Hg Hl Hm. destruct HI as (_ & Hlen & _).
  unfold which_one_of, C07Ops.from_dict_inst. rewrite ocur_setattrs, ocls_set_sow, ocur_set_sow.
  rewrite fold_left_app. cbn [fold_left fst].
  pose proof (trk_step_miss sc (ocls o) g (OFromDictInst kw2)) as M. cbn [trk_step] in M. rewrite M by exact Hm.
  unfold trk_set at 1. unfold cfs in Hf. rewrite Hf. unfold trk_name. rewrite Hg.
  apply nth_set_nth_eq.
  pose proof (trk_step_length sc (ocls o) (OFromDictInst kw1) (ocur o) Hlen) as L. cbn [trk_step] in L.
  rewrite L, Hlen. exact Hl.
Qed.
