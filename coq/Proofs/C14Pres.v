(* C14, part 6: what a message reports as present (serialized_on_wire, which_one_of, None-ness, at the message
   and at every message reachable by reading) is invariant under [mat]; is_set of optional fields too. *)
From BP Require Import Base.Prelude Model.Types Model.Float Model.Object Model.Eq Model.Encode Model.Decode Model.History Model.C14Ops.
From BP Require Import Model.WellFormed Proofs.BytesP Proofs.C14Ind Proofs.C14Mat Proofs.C14Obs.
From Coq Require Import Lia.

Lemma mat_obj_inv sc o o' :
  mat_obj sc o o' = true ->
  exists c raw raw' sow unk cur,
    o = Obj c raw sow unk cur /\ o' = Obj c raw' sow unk cur /\ mat_go sc raw raw' (cfields (get_class sc c)) = true.
Proof.
  intros H. unfold mat_obj in H. apply mat_inv in H. cbn [src] in H.
  destruct H as [[Hv _]|[(c0 & raw0 & raw0' & sow0 & unk0 & cur0 & Hs & Hv' & Hg)|[(l0 & l0' & Hs & _)|[(d0 & d0' & Hs & _)|[_ Hsc]]]]];
    try discriminate; try (exfalso; exact Hsc).
  inversion Hs; inversion Hv'; subst. do 6 eexists. repeat split. exact Hg.
Qed.

Lemma mat_go_nth sc : forall raw' raw fs i f,
  mat_go sc raw raw' fs = true -> nth_error fs i = Some f ->
  mat sc f (nth i raw PPlaceholder) (nth i raw' PPlaceholder) = true.
Proof.
  induction raw' as [|x' r' IH]; intros raw fs i f Hg Hf; destruct raw as [|x r]; cbn [mat_go] in Hg; try discriminate Hg.
  - destruct i; reflexivity.
  - destruct fs as [|f0 fs]; [destruct i; discriminate Hf|].
    apply andb_true_iff in Hg as [H1 H2]. destruct i as [|i]; cbn [nth nth_error] in *.
    + inversion Hf; subst. exact H1.
    + eapply IH; eassumption.
Qed.

Lemma mat_src_src sc f x x' : mat sc f x x' = true -> mat sc f (src sc f x) (src sc f x') = true.
Proof.
  intros H. destruct (pv_same x PPlaceholder) eqn:Ex.
  - apply pv_same_sound in Ex. subst x. cbn [src]. destruct (pv_same x' PPlaceholder) eqn:Ex'.
    + apply pv_same_sound in Ex'. subst x'. cbn [src]. apply mat_refl.
    + assert (Hn : x' <> PPlaceholder) by (intros ->; discriminate Ex').
      rewrite (src_id sc f x' Hn). rewrite <- mat_placeholder; assumption.
  - assert (Hn : x <> PPlaceholder) by (intros ->; discriminate Ex).
    rewrite (src_id sc f x Hn), (src_id sc f x'); [exact H|]. eapply mat_not_placeholder; eassumption.
Qed.

(* the value a read returns *)
Lemma read_eq sc c raw sow unk cur i :
  read sc (Obj c raw sow unk cur) i =
  match nth_error (cfields (get_class sc c)) i with
  | None => Err EAttribute
  | Some f =>
      match group_selects cur f i with
      | Some false => Err EAttribute
      | _ => Ok (src sc f (nth i raw PPlaceholder))
      end
  end.
Proof.
  unfold read, getattr. destruct (nth_error (cfields (get_class sc c)) i) as [f|]; [|reflexivity].
  destruct (group_selects cur f i) as [[|]|]; try reflexivity; destruct (nth i raw PPlaceholder); reflexivity.
Qed.

Definition res_rel (sc : schema) (r r' : result pv) : Prop :=
  match r, r' with
  | Ok w, Ok w' => w <> PPlaceholder /\ exists f, mat sc f w w' = true
  | Err e, Err e' => e = e'
  | _, _ => False
  end.

Lemma read_mat sc o o' i : mat_obj sc o o' = true -> res_rel sc (read sc o i) (read sc o' i).
Proof.
  intros H. destruct (mat_obj_inv sc o o' H) as (c & raw & raw' & sow & unk & cur & -> & -> & Hg).
  rewrite !read_eq. destruct (nth_error (cfields (get_class sc c)) i) as [f|] eqn:Hf; [|reflexivity].
  destruct (group_selects cur f i) as [[|]|]; try reflexivity.
  all: split; [apply src_not_placeholder|]; exists f; apply mat_src_src; eapply mat_go_nth; eassumption.
Qed.

Lemma res_rel_noneness sc r r' : res_rel sc r r' -> noneness r' = noneness r.
Proof.
  destruct r as [w|e], r' as [w'|e']; cbn [res_rel]; try contradiction; [|reflexivity].
  intros [Hn [f Hm]]. apply mat_inv in Hm. rewrite (src_id sc f w Hn) in Hm.
  destruct Hm as [[Hv _]|[(c0 & raw0 & raw0' & sow0 & unk0 & cur0 & Hs & Hv' & _)|[(l0 & l0' & Hs & Hv' & _)|[(d0 & d0' & Hs & Hv' & _)|[Hs _]]]]];
    subst; try reflexivity. contradiction Hn; reflexivity.
Qed.

Lemma mat_list_nth sc f : forall l' l k,
  mat_list sc f l l' = true ->
  match nth_error l k, nth_error l' k with
  | Some x, Some x' => mat_elem sc f x x' = true
  | None, None => True
  | _, _ => False
  end.
Proof.
  induction l' as [|x' l' IH]; intros l k H; destruct l as [|x l]; cbn [mat_list] in H; try discriminate H.
  - destruct k; exact I.
  - apply andb_true_iff in H as [H1 H2]. destruct k as [|k]; cbn [nth_error]; [exact H1 | apply IH; exact H2].
Qed.

Lemma mat_dict_nth sc f : forall d' d k,
  mat_dict sc f d d' = true ->
  match nth_error d k, nth_error d' k with
  | Some (_, x), Some (_, x') => mat_elem sc f x x' = true
  | None, None => True
  | _, _ => False
  end.
Proof.
  induction d' as [|[k' x'] d' IH]; intros d k H; destruct d as [|[k0 x] d]; cbn [mat_dict] in H; try discriminate H.
  - destruct k; exact I.
  - apply andb_true_iff in H as [H1 H2]. apply andb_true_iff in H1 as [_ H1].
    destruct k as [|k]; cbn [nth_error]; [exact H1 | apply IH; exact H2].
Qed.

Definition opt_rel (sc : schema) (a b : option obj) : Prop :=
  match a, b with
  | Some ch, Some ch' => mat_obj sc ch ch' = true
  | None, None => True
  | _, _ => False
  end.

Lemma mat_elem_child sc f x x' :
  mat_elem sc f x x' = true ->
  opt_rel sc (match x with PMsg ch => Some ch | _ => None end) (match x' with PMsg ch => Some ch | _ => None end).
Proof.
  unfold mat_elem. intros H.
  destruct x as [| | | | | | | | | | |o]; try (apply pv_same_sound in H; subst x'; exact I).
  destruct x' as [| | | | | | | | | | |o'];
    try (destruct o; cbn [pv_same] in H; discriminate H).
  cbn [opt_rel]. rewrite <- (mat_msg_obj sc f). exact H.
Qed.

Lemma child_at_mat sc o o' s : mat_obj sc o o' = true -> opt_rel sc (child_at sc o s) (child_at sc o' s).
Proof.
  intros H. destruct s as [i|i k|i k]; cbn [child_at]; pose proof (read_mat sc o o' i H) as Hr;
    destruct (read sc o i) as [w|e], (read sc o' i) as [w'|e']; cbn [res_rel] in Hr; try contradiction; try exact I.
  all: destruct Hr as [Hn [f Hm]]; pose proof Hm as Hi; apply mat_inv in Hi; rewrite (src_id sc f w Hn) in Hi.
  all: destruct Hi as [[Hv _]|[(c0 & raw0 & raw0' & sow0 & unk0 & cur0 & Hs & Hv' & Hg)|[(l0 & l0' & Hs & Hv' & Hg)|[(d0 & d0' & Hs & Hv' & Hg)|[Hs Hsc]]]]];
    try (contradiction Hn; exact Hv); subst; cbn [opt_rel]; try exact I.
  - rewrite <- (mat_msg_obj sc f). exact Hm.
  - destruct w'; try exact I; exfalso; exact Hsc.
  - pose proof (mat_list_nth sc f l0' l0 k Hg) as Hk.
    destruct (nth_error l0 k) as [x|], (nth_error l0' k) as [x'|]; try contradiction; try exact I.
    apply (mat_elem_child sc f x x' Hk).
  - destruct w'; try exact I; exfalso; exact Hsc.
  - pose proof (mat_dict_nth sc f d0' d0 k Hg) as Hk.
    destruct (nth_error d0 k) as [[k1 x]|], (nth_error d0' k) as [[k2 x']|]; try contradiction; try exact I.
    apply (mat_elem_child sc f x x' Hk).
  - destruct w'; try exact I; exfalso; exact Hsc.
Qed.

Lemma nav_mat sc : forall p o o', mat_obj sc o o' = true -> opt_rel sc (nav sc o p) (nav sc o' p).
Proof.
  induction p as [|s p IH]; intros o o' H; cbn [nav]; [exact H|].
  pose proof (child_at_mat sc o o' s H) as Hc.
  destruct (child_at sc o s) as [ch|], (child_at sc o' s) as [ch'|]; cbn [opt_rel] in Hc; try contradiction; [|exact I].
  apply IH. exact Hc.
Qed.

Lemma presence_here_mat sc o o' : mat_obj sc o o' = true -> presence_here sc o' = presence_here sc o.
Proof.
  intros H. pose proof (mat_obj_inv sc o o' H) as (c & raw & raw' & sow & unk & cur & Ho & Ho' & _).
  assert (E1 : osow o' = osow o) by (subst; reflexivity).
  assert (E2 : ocur o' = ocur o) by (subst; reflexivity).
  assert (E3 : ocls o' = ocls o) by (subst; reflexivity).
  unfold presence_here. rewrite E1, E2, E3. f_equal.
  apply map_ext. intros i. apply (res_rel_noneness sc). apply read_mat. exact H.
Qed.

Theorem mat_presence sc o o' : mat_obj sc o o' = true -> forall p, presence_at sc o' p = presence_at sc o p.
Proof.
  intros H p. unfold presence_at. pose proof (nav_mat sc p o o' H) as Hn.
  destruct (nav sc o p) as [a|], (nav sc o' p) as [a'|]; cbn [opt_rel] in Hn; try contradiction; [|reflexivity].
  rewrite (presence_here_mat sc a a' Hn). reflexivity.
Qed.

(* Message.is_set of a field that does not hold PLACEHOLDER (every proto3-optional field of a real object) *)
Lemma mat_is_set sc o o' i :
  mat_obj sc o o' = true -> nth i (oraw o) PPlaceholder <> PPlaceholder -> is_set sc o' i = is_set sc o i.
Proof.
  intros H Hn. destruct (mat_obj_inv sc o o' H) as (c & raw & raw' & sow & unk & cur & -> & -> & Hg).
  unfold is_set. cbn [ocls oraw] in *. destruct (nth_error (cfields (get_class sc c)) i) as [f|] eqn:Hf; [|reflexivity].
  pose proof (mat_go_nth sc raw' raw _ i f Hg Hf) as Hm. apply mat_inv in Hm. rewrite (src_id sc f _ Hn) in Hm.
  destruct Hm as [[Hv _]|[(c0 & raw0 & raw0' & sow0 & unk0 & cur0 & Hs & Hv' & _)|[(l0 & l0' & Hs & Hv' & _)|[(d0 & d0' & Hs & Hv' & _)|[Hs _]]]]];
    try (contradiction Hn; exact Hv); rewrite ?Hs, ?Hv'; try reflexivity.
Qed.
