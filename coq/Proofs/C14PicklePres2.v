(* C14 / pickle, part 5 - presence at every path: after any observers, and with unknown fields at the top level. *)
From Coq Require Import ZArith List Bool Lia ZifyBool.
From BP Require Import Base.Prelude Model.Types Model.Object Model.Eq Model.Encode Model.Decode Model.WellFormed.
From BP Require Import Model.History Model.C14Ops Model.C01Def Model.C08Step Model.C14Pickle.
From BP Require Import Proofs.C01Unfold Proofs.C01Main Proofs.C08UnknownP.
From BP Require Import Proofs.C14Obs Proofs.C14Pres Proofs.C14Thm Proofs.C14Pickle Proofs.C14PickleUnk Proofs.C14PicklePres.

Theorem pickle_presence_everywhere_of_mat sc o o2 :
  c01_schema_ok sc = true -> c01_value_ok sc o = true -> enc_small sc o = true ->
  deep (sow_ok sc) (PMsg o) = true -> deep (flags_ok sc) (PMsg o) = true ->
  mat_obj sc o o2 = true ->
  exists o', pickle_rt sc o2 = Ok o' /\ forall p, presence_below sc o' p = presence_below sc o2 p.
Proof.
  intros Hs Hv Hsm Hsw Hfl Hm. destruct (pickle_presence_everywhere sc o Hs Hv Hsm Hsw Hfl) as (o' & Hp & H).
  exists o'. split; [rewrite (pickle_of_mat sc (c01_schema_wf sc Hs) o o2 Hm); exact Hp|].
  intros p. rewrite (presence_below_mat sc o o2 Hm). apply H.
Qed.

(* unknown bytes are invisible to every read *)
Lemma child_at_set_unk sc o u s : child_at sc (set_unk o u) s = child_at sc o s.
Proof. destruct s; cbn [child_at]; rewrite read_set_unk; reflexivity. Qed.

Lemma presence_here_set_unk sc o u : presence_here sc (set_unk o u) = presence_here sc o.
Proof.
  unfold presence_here.
  replace (osow (set_unk o u)) with (osow o) by (destruct o; reflexivity).
  replace (ocur (set_unk o u)) with (ocur o) by (destruct o; reflexivity).
  replace (ocls (set_unk o u)) with (ocls o) by (destruct o; reflexivity).
  f_equal. apply map_ext. intros i. rewrite read_set_unk. reflexivity.
Qed.

Lemma presence_at_set_unk sc o u p : presence_at sc (set_unk o u) p = presence_at sc o p.
Proof.
  unfold presence_at. destruct p as [|s p]; cbn [nav]; [rewrite presence_here_set_unk; reflexivity|].
  rewrite child_at_set_unk. reflexivity.
Qed.

Lemma presence_below_set_unk_all sc o u p : presence_below sc (set_unk o u) p = presence_below sc o p.
Proof. unfold presence_below. destruct p; rewrite presence_at_set_unk; reflexivity. Qed.

Lemma deep_clear_unk P o : (forall c r s u g, P (Obj c r s u g) = P (Obj c r s [] g)) -> deep P (PMsg (clear_unk o)) = deep P (PMsg o).
Proof. intros H. destruct o as [c r s u g]. cbn [clear_unk]. rewrite !deep_msg, (H c r s u g). reflexivity. Qed.

Theorem pickle_unknown_presence_everywhere sc o o2 :
  c01_schema_ok sc = true -> c01_value_ok sc (clear_unk o) = true -> unk_records_ok sc o = true ->
  enc_small sc o = true ->
  deep (sow_ok sc) (PMsg o) = true -> deep (flags_ok sc) (PMsg o) = true ->
  mat_obj sc o o2 = true ->
  exists o', pickle_rt sc o2 = Ok o' /\ forall p, presence_below sc o' p = presence_below sc o2 p.
Proof.
  intros Hs Hv Hu Hsm Hsw Hfl Hm.
  destruct (pickle_faithful_unknown sc o Hs Hv Hu Hsm) as (o' & Hp & -> & _).
  exists (set_unk (norm_obj sc (clear_unk o)) (ounk o)).
  split; [rewrite (pickle_of_mat sc (c01_schema_wf sc Hs) o o2 Hm); exact Hp|].
  intros p. rewrite (presence_below_mat sc o o2 Hm), presence_below_set_unk_all.
  assert (E : presence_below sc o p = presence_below sc (clear_unk o) p)
    by (rewrite <- set_unk_nil, presence_below_set_unk_all; reflexivity).
  rewrite E.
  apply c01_value_ok_spec in Hv.
  apply (presence_everywhere sc Hs (clear_unk o) Hv).
  - rewrite deep_clear_unk; [exact Hsw | reflexivity].
  - rewrite deep_clear_unk; [exact Hfl | reflexivity].
Qed.

(* ---- everything about pickle in one statement, over the one-boolean hypotheses of Model/C14Pickle.v ---- *)
Theorem pickle_summary sc o o2 :
  pickle_pre sc o = true -> mat_obj sc o o2 = true ->
  exists o', pickle_rt sc o2 = Ok o' /\
    enc_obj sc o' = enc_obj sc o2 /\ ounk o' = ounk o2 /\ ocls o' = ocls o2 /\ osow o' = true /\
    (forall g, which_one_of o' g = which_one_of o2 g) /\
    (deep nan_free (PMsg o) = true -> obj_eq sc o' o2 = true /\ obj_eq sc o2 o' = true) /\
    (sow_ok sc o = true ->
     presence_below sc o' [] = presence_below sc o2 [] /\ forall i, child_flag sc o' i = child_flag sc o2 i) /\
    (deep (sow_ok sc) (PMsg o) = true -> deep (flags_ok sc) (PMsg o) = true ->
     forall p, presence_below sc o' p = presence_below sc o2 p).
Proof.
  unfold pickle_pre. intros H Hm.
  apply andb_true_iff in H as [H Hsm]. apply andb_true_iff in H as [H Hu]. apply andb_true_iff in H as [Hs Hv].
  destruct (pickle_unknown_of_mat sc o o2 Hs Hv Hu Hsm Hm) as (o' & Hp & Hp0 & He & Henc & Hc & Huk & Hso & Hg & Hw & Hpres).
  exists o'. split; [exact Hp|]. split; [exact Henc|]. split; [exact Huk|]. split; [exact Hc|]. split; [exact Hso|].
  split; [exact Hw|]. split; [exact He|]. split; [exact Hpres|].
  intros Hsw Hfl. destruct (pickle_unknown_presence_everywhere sc o o2 Hs Hv Hu Hsm Hsw Hfl Hm) as (o'' & Hp' & H').
  rewrite Hp in Hp'. injection Hp' as <-. exact H'.
Qed.
