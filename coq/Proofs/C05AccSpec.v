(* C05, message level, ACCEPT direction: the loops of the canonical printer (Spec/JsonMap.v spec_val / spec_field)
   named, with their unfolding equations; a size on abstract values for the induction. *)
From BP Require Import Base.Prelude Model.Types Model.Float Model.Object Model.WellFormed Model.TimeCore Spec.Time.
From BP Require Model.Json Spec.JsonMap.
From BP Require Import Proofs.C04Def Proofs.C05Model Proofs.C05MsgDef Proofs.C05AccDef.
From Coq Require Import Lia.

Section SpecLoops.
Variable js : S.jschema.

Definition spec_list (k : S.jkind) : list S.aval -> option (list S.json) :=
  fix each (l : list S.aval) : option (list S.json) :=
    match l with
    | [] => Some []
    | x :: r => match S.spec_val js k x, each r with
                | Some j, Some t => Some (j :: t)
                | _, _ => None
                end
    end.

Definition spec_entries (kk : S.skind) (k : S.jkind) : list (S.aval * S.aval) -> option (list (list byte * S.json)) :=
  fix each (l : list (S.aval * S.aval)) : option (list (list byte * S.json)) :=
    match l with
    | [] => Some []
    | (kv, x) :: r => match S.key_str kk kv, S.spec_val js k x, each r with
                      | Some ks, Some j, Some t => Some ((ks, j) :: t)
                      | _, _, _ => None
                      end
    end.

Fixpoint spec_fields (fds : list S.jfield) (afs : list S.afield) {struct afs} : option (list (list byte * S.json)) :=
  match fds, afs with
  | [], [] => Some []
  | fd :: fds', f :: fs' =>
      match S.spec_field js fd f, spec_fields fds' fs' with
      | Some None, Some t => Some t
      | Some (Some j), Some t => Some ((S.jf_json fd, j) :: t)
      | _, _ => None
      end
  | _, _ => None
  end.
End SpecLoops.

Lemma spec_val_msg js c afs :
  S.spec_val js (S.JMsg c) (S.AMsg afs) = option_map S.JObj (spec_fields js (S.jclass js c) afs).
Proof. reflexivity. Qed.

Lemma spec_field_absent js fd :
  S.spec_field js fd S.FAbsent = match S.jf_card fd with S.Explicit => Some None | _ => None end.
Proof. reflexivity. Qed.
Lemma spec_field_one js fd v :
  S.spec_field js fd (S.FOne v) =
  match S.jf_card fd with
  | S.Implicit => if S.is_default_val v
                  then (match S.spec_val js (S.jf_kind fd) v with Some _ => Some None | None => None end)
                  else option_map Some (S.spec_val js (S.jf_kind fd) v)
  | S.Explicit => option_map Some (S.spec_val js (S.jf_kind fd) v)
  | _ => None
  end.
Proof. reflexivity. Qed.
Lemma spec_field_rep js fd l :
  S.spec_field js fd (S.FRep l) =
  match S.jf_card fd with
  | S.Repeated => match l with
                  | [] => Some None
                  | _ => option_map (fun js' => Some (S.JArr js')) (spec_list js (S.jf_kind fd) l)
                  end
  | _ => None
  end.
Proof. reflexivity. Qed.
Lemma spec_field_map js fd l :
  S.spec_field js fd (S.FMap l) =
  match S.jf_card fd with
  | S.MapOf kk => match l with
                  | [] => Some None
                  | _ => option_map (fun kvs => Some (S.JObj kvs)) (spec_entries js kk (S.jf_kind fd) l)
                  end
  | _ => None
  end.
Proof. reflexivity. Qed.

Lemma spec_val_scalar js k v : (match v with S.AMsg _ | S.ATime _ _ | S.ADur _ _ | S.AEnum _ => False | _ => True end) ->
  S.spec_val js (S.JScalar k) v = S.spec_scalar k v /\ S.spec_val js (S.JWrapper k) v = S.spec_scalar k v.
Proof. destruct v; intros H; try contradiction H; split; reflexivity. Qed.

(* ---- unfolding wf_aval / conc_elem at a message ---- *)
Lemma wf_aval_msg sc js off c afs :
  wf_aval sc js off (S.JMsg c) (S.AMsg afs) =
  Nat.ltb c (length (S.jclasses js)) && groups_clean (S.jclass js c) afs [] &&
  wf_afields (wf_aval sc js off) (cfields (get_class sc (c + off))) (S.jclass js c) afs.
Proof. reflexivity. Qed.
Lemma conc_elem_msg sc js off c afs :
  conc_elem sc js off (S.JMsg c) (S.AMsg afs) = PMsg (conc_obj sc js off c afs).
Proof. reflexivity. Qed.

(* ---- size ---- *)
Fixpoint aval_size (v : S.aval) : nat :=
  match v with
  | S.AMsg fs => Datatypes.S ((fix go (fs : list S.afield) : nat :=
                                 match fs with [] => O | f :: r => Nat.add (afield_size f) (go r) end) fs)
  | _ => 1%nat
  end
with afield_size (f : S.afield) : nat :=
  match f with
  | S.FAbsent => O
  | S.FOne v => aval_size v
  | S.FRep l => (fix go (l : list S.aval) : nat := match l with [] => O | x :: r => Nat.add (aval_size x) (go r) end) l
  | S.FMap l => (fix go (l : list (S.aval * S.aval)) : nat :=
                   match l with [] => O | kx :: r => Nat.add (aval_size (snd kx)) (go r) end) l
  end.

Definition afields_size (fs : list S.afield) : nat :=
  (fix go (fs : list S.afield) : nat := match fs with [] => O | f :: r => Nat.add (afield_size f) (go r) end) fs.
Lemma aval_size_msg fs : aval_size (S.AMsg fs) = Datatypes.S (afields_size fs). Proof. reflexivity. Qed.
Lemma afields_size_cons f r : afields_size (f :: r) = (afield_size f + afields_size r)%nat. Proof. reflexivity. Qed.

Lemma in_rep_size x l : In x l -> (aval_size x <= afield_size (S.FRep l))%nat.
Proof.
  induction l as [|y r IH]; intros H; [destruct H|].
  change (afield_size (S.FRep (y :: r))) with (aval_size y + afield_size (S.FRep r))%nat.
  destruct H as [->|H]; [lia|]. specialize (IH H). lia.
Qed.
Lemma in_map_size k x l : In (k, x) l -> (aval_size x <= afield_size (S.FMap l))%nat.
Proof.
  induction l as [|[k' y] r IH]; intros H; [destruct H|].
  change (afield_size (S.FMap ((k', y) :: r))) with (aval_size y + afield_size (S.FMap r))%nat.
  destruct H as [E|H]; [inversion E; subst; lia|]. specialize (IH H). lia.
Qed.
