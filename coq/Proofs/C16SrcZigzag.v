(* C16 source-translation tie, zig-zag part: the two expressions that harness/gen_c16_src.py lifts out of
   _preprocess_single / _postprocess_single (gen/C16Src.v src_zigzag / src_unzigzag) are the hand-written model's
   zigzag / unzigzag (Model/Scalar.v) and never raise.  Built only by the "source tie" stage of harness/props/c16.py. *)
From BP Require Import Base.Prelude Model.Types Model.Scalar Spec.Varint Model.C16SrcLib gen.C16Src Proofs.ScalarP.

Lemma src_zigzag_present : src_zigzag_translated = true.
Proof. reflexivity. Qed.

Theorem src_zigzag_is_model v : src_zigzag v = Ok (zigzag v).
Proof. reflexivity. Qed.

Theorem src_unzigzag_is_model v : src_unzigzag v = Ok (unzigzag v).
Proof. reflexivity. Qed.

Lemma src_zigzag_spec v : src_zigzag v = Ok (zigzag_spec v).
Proof. rewrite src_zigzag_is_model, zigzag_is_spec. reflexivity. Qed.

Lemma src_zigzag_inverse v : bind (src_zigzag v) src_unzigzag = Ok v.
Proof. rewrite src_zigzag_is_model. cbn [bind]. rewrite src_unzigzag_is_model, unzigzag_zigzag. reflexivity. Qed.
