(* Proofs about Model/Typing.v (C18): the denotation inverts the three printers.
   Structure:  print c t = render_toks (toks (syntax of t under c))      (string level, per compiler)
               lex (render_toks ts) = Some ts                            (lexer)
               p_ann f q (toks y ++ rest) = Some (y, rest)               (parser, fuel >= sz y)
               sem_syn (syntax of t under c) = Some (sem t)              (interpretation)            *)
From Coq Require Import Strings.String Lia.
From BP Require Import Base.Prelude Model.Types Model.Typing Proofs.BytesP.

Local Open Scope nat_scope.

(* ---------------------------------------------------------------- induction principles *)
Lemma syn_ind' (P : syn -> Prop) :
  (forall n, P (YName n)) -> P YNone -> (forall a, P a -> P (YStr a)) ->
  (forall h l, Forall P l -> P (YApp h l)) -> (forall l, Forall P l -> P (YBar l)) ->
  forall y, P y.
Proof.
  intros Hn Hz Hs Ha Hb. fix IH 1. intros [n| |a|h l|l].
  - apply Hn.
  - apply Hz.
  - apply Hs, IH.
  - apply Ha. induction l as [|x l IHl]; constructor; [apply IH|exact IHl].
  - apply Hb. induction l as [|x l IHl]; constructor; [apply IH|exact IHl].
Qed.

Lemma ty_ind' (P : ty -> Prop) :
  (forall n, P (TName n)) -> (forall n, P (TRef n)) ->
  (forall a, P a -> P (TOptional a)) -> (forall a, P a -> P (TList a)) ->
  (forall k v, P k -> P v -> P (TDict k v)) -> (forall l, Forall P l -> P (TUnion l)) ->
  (forall a, P a -> P (TIterable a)) -> (forall a, P a -> P (TAsyncIterable a)) ->
  (forall a, P a -> P (TAsyncIterator a)) -> forall t, P t.
Proof.
  intros H1 H2 H3 H4 H5 H6 H7 H8 H9. fix IH 1. intros [n|n|a|a|k v|l|a|a|a].
  - apply H1.
  - apply H2.
  - apply H3, IH.
  - apply H4, IH.
  - apply H5; apply IH.
  - apply H6. induction l as [|x l IHl]; constructor; [apply IH|exact IHl].
  - apply H7, IH.
  - apply H8, IH.
  - apply H9, IH.
Qed.

(* ---------------------------------------------------------------- strings *)
Lemma str_eqb_eq a b : str_eqb a b = true <-> a = b.
Proof. apply bytes_eqb_eq. Qed.

Lemma str_eqb_refl a : str_eqb a a = true.
Proof. apply str_eqb_eq. reflexivity. Qed.

Lemma str_eqb_neq a b : a <> b -> str_eqb a b = false.
Proof. intros H. destruct (str_eqb a b) eqn:E; [apply str_eqb_eq in E; contradiction|reflexivity]. Qed.

Definition nodq (s : str) : Prop := Forall (fun b => Byte.eqb b dq = false) s.
Definition idchars (s : str) : Prop := s <> [] /\ Forall (fun b => is_namechar b = true) s.

Lemma namechar_not_dq b : is_namechar b = true -> Byte.eqb b dq = false.
Proof. destruct b; vm_compute; congruence. Qed.

Lemma idchars_nodq s : idchars s -> nodq s.
Proof. intros [_ H]. eapply Forall_impl; [|exact H]. intros b. apply namechar_not_dq. Qed.

Lemma ident_go_chars st s : ident_go st s = true -> Forall (fun b => is_namechar b = true) s.
Proof.
  revert st. induction s as [|b r IH]; intros st H; [constructor|].
  cbn [ident_go] in H. apply andb_prop in H. destruct H as [Hb H]. constructor; [exact Hb|].
  destruct (is_dot b).
  - apply andb_prop in H. destruct H as [_ H]. eapply IH; exact H.
  - apply andb_prop in H. destruct H as [_ H]. eapply IH; exact H.
Qed.

Lemma ident_ok_idchars n : ident_ok n = true -> idchars n.
Proof.
  intros H. split.
  - intros ->. vm_compute in H. discriminate.
  - eapply ident_go_chars. exact H.
Qed.

(* ---------------------------------------------------------------- lexer *)
Definition tok_ok (k : token) : Prop := match k with TkId n => idchars n | _ => True end.
Definition not_id_head (ts : list token) : Prop := match ts with TkId _ :: _ => False | _ => True end.

Fixpoint good_toks (ts : list token) : Prop :=
  match ts with
  | [] => True
  | k :: r => tok_ok k /\ (match k with TkId _ => not_id_head r | _ => True end) /\ good_toks r
  end.

Definition starts_nonname (s : str) : Prop :=
  match s with [] => True | b :: _ => is_namechar b = false end.

Lemma render_nonid_starts ts : not_id_head ts -> good_toks ts -> starts_nonname (render_toks ts).
Proof.
  destruct ts as [|k r]; [intros; exact I|]. intros Hn _. destruct k; cbn in *; try reflexivity. contradiction.
Qed.

Lemma lex_id n rest ts :
  idchars n -> starts_nonname rest -> lex rest = Some ts -> lex (n ++ rest) = Some (TkId n :: ts).
Proof.
  intros [Hne Hall] Hrest Hlex. induction n as [|b n IH]; [contradiction|].
  inversion Hall as [|? ? Hb Hn]; subst.
  destruct n as [|b2 n'].
  - cbn [app lex]. rewrite Hlex, Hb.
    destruct rest as [|b' rest']; [reflexivity|]. cbn in Hrest.
    destruct ts as [|[] ts']; try reflexivity. rewrite Hrest. reflexivity.
  - change ((b :: b2 :: n') ++ rest) with (b :: ((b2 :: n') ++ rest)).
    cbn [lex]. rewrite (IH ltac:(discriminate) Hn). rewrite Hb.
    inversion Hn as [|? ? Hb2 _]; subst. cbn [app]. rewrite Hb2. reflexivity.
Qed.

Lemma lex_render ts : good_toks ts -> lex (render_toks ts) = Some ts.
Proof.
  induction ts as [|k r IH]; [reflexivity|]. intros (Hk & Hadj & Hr).
  specialize (IH Hr). unfold render_toks in *. cbn [flat_map].
  destruct k; cbn [render_tok].
  - apply lex_id; [exact Hk| |exact IH]. apply render_nonid_starts; assumption.
  - cbn. unfold render_toks in IH. rewrite IH. reflexivity.
  - cbn. rewrite IH. reflexivity.
  - cbn. rewrite IH. reflexivity.
  - cbn. rewrite IH. reflexivity.
  - cbn. rewrite IH. reflexivity.
Qed.

(* ---------------------------------------------------------------- sepby *)
Lemma sepby_cons2 {A} (s : A) a b r : sepby s (a :: b :: r) = a ++ s :: sepby s (b :: r).
Proof. reflexivity. Qed.

Lemma sepby_app {A} (s : A) l1 l2 : l1 <> [] -> l2 <> [] ->
  sepby s (l1 ++ l2) = sepby s l1 ++ s :: sepby s l2.
Proof.
  intros H1 H2. induction l1 as [|a l1 IH]; [contradiction|].
  destruct l1 as [|b l1].
  - destruct l2 as [|c l2]; [contradiction|]. reflexivity.
  - change ((a :: b :: l1) ++ l2) with (a :: b :: (l1 ++ l2)). rewrite !sepby_cons2.
    change (b :: (l1 ++ l2)) with ((b :: l1) ++ l2). rewrite IH by discriminate.
    rewrite <- app_assoc. reflexivity.
Qed.

Lemma render_toks_app a b : render_toks (a ++ b) = render_toks a ++ render_toks b.
Proof. unfold render_toks. apply flat_map_app. Qed.

Lemma render_sepby k l :
  render_toks (sepby k l) = join (render_tok k) (map render_toks l).
Proof.
  induction l as [|a l IH]; [reflexivity|]. destruct l as [|b l]; [reflexivity|].
  rewrite sepby_cons2. rewrite render_toks_app. change (k :: ?x) with ([k] ++ x).
  rewrite render_toks_app. rewrite IH. cbn [map join]. unfold render_toks at 2. cbn [flat_map].
  rewrite app_nil_r. reflexivity.
Qed.

(* ---------------------------------------------------------------- well-formed syntax *)
Definition is_bar (y : syn) : bool := match y with YBar _ => true | _ => false end.

Fixpoint wf_syn (q : bool) (y : syn) : Prop :=
  match y with
  | YName n => ident_ok n = true /\ n <> B "None"
  | YNone => True
  | YStr a => q = false /\ wf_syn true a
  | YApp h args => ident_ok h = true /\ args <> [] /\
                   (fix all (l : list syn) : Prop := match l with [] => True | a :: r => wf_syn q a /\ all r end) args
  | YBar alts => 2 <= length alts /\
                 (fix all (l : list syn) : Prop :=
                    match l with [] => True | a :: r => (is_bar a = false /\ wf_syn q a) /\ all r end) alts
  end.

Lemma wf_app_all q l :
  (fix all (l : list syn) : Prop := match l with [] => True | a :: r => wf_syn q a /\ all r end) l
  <-> Forall (wf_syn q) l.
Proof.
  induction l as [|a l IH]; [split; constructor|]. split.
  - intros [H1 H2]. constructor; [exact H1|apply IH, H2].
  - intros H. inversion H; subst. split; [assumption|apply IH; assumption].
Qed.

Lemma wf_bar_all q l :
  (fix all (l : list syn) : Prop :=
     match l with [] => True | a :: r => (is_bar a = false /\ wf_syn q a) /\ all r end) l
  <-> Forall (fun a => is_bar a = false /\ wf_syn q a) l.
Proof.
  induction l as [|a l IH]; [split; constructor|]. split.
  - intros [H1 H2]. constructor; [exact H1|apply IH, H2].
  - intros H. inversion H; subst. split; [assumption|apply IH; assumption].
Qed.

Fixpoint sz (y : syn) : nat :=
  match y with
  | YName _ | YNone => 2
  | YStr a => 2 + sz a
  | YApp _ l => 2 + fold_right (fun a n => 1 + sz a + n) 0 l
  | YBar l => 1 + fold_right (fun a n => 1 + sz a + n) 0 l
  end.
Definition lsz (l : list syn) : nat := fold_right (fun a n => 1 + sz a + n) 0 l.

Definition follow (r : list token) : Prop :=
  match r with [] | TkRbr :: _ | TkComma :: _ | TkQuote :: _ => True | _ => False end.
Definition follow_atom (r : list token) : Prop :=
  match r with TkLbr :: _ => False | _ => True end.
Definition not_bar_head (r : list token) : Prop := match r with TkBar :: _ => False | _ => True end.
Definition not_comma_head (r : list token) : Prop := match r with TkComma :: _ => False | _ => True end.

Lemma follow_atom_of r : follow r -> follow_atom r.
Proof. destruct r as [|[] r]; cbn; tauto. Qed.
Lemma follow_nobar r : follow r -> not_bar_head r.
Proof. destruct r as [|[] r]; cbn; tauto. Qed.

(* the parser statement for one syntax tree *)
Definition P_atom (y : syn) : Prop :=
  forall q rest f, wf_syn q y -> is_bar y = false -> follow_atom rest -> sz y <= S f ->
    p_atom f q (toks y ++ rest) = Some (y, rest).
Definition P_ann (y : syn) : Prop :=
  forall q rest f, wf_syn q y -> follow rest -> sz y <= f ->
    p_ann f q (toks y ++ rest) = Some (y, rest).

Lemma ann_of_atom y : is_bar y = false -> P_atom y -> P_ann y.
Proof.
  intros Hb Ha q rest f Hwf Hf Hsz. destruct f as [|f]; [destruct y; cbn in Hsz; lia|].
  cbn [p_ann]. rewrite (Ha q rest f Hwf Hb (follow_atom_of _ Hf)) by lia.
  destruct rest as [|[] rest]; cbn in Hf; try contradiction; reflexivity.
Qed.

(* argument lists: elements parsed by p_ann, separated by commas, closed by a bracket *)
Lemma args_ok l : Forall P_ann l -> l <> [] -> forall q rest f,
  Forall (wf_syn q) l -> lsz l <= f ->
  p_args f q (sepby TkComma (map toks l) ++ TkRbr :: rest) = Some (l, TkRbr :: rest).
Proof.
  intros HP. induction l as [|a l IH]; [contradiction|]. intros _ q rest f Hwf Hsz.
  inversion HP as [|? ? Pa Pl]; subst. inversion Hwf as [|? ? Wa Wl]; subst.
  cbn [lsz fold_right] in Hsz. fold (lsz l) in Hsz.
  destruct f as [|f]; [lia|]. cbn [p_args].
  destruct l as [|b l].
  - cbn [map sepby]. rewrite (Pa q (TkRbr :: rest) f Wa I) by lia. reflexivity.
  - cbn [map]. rewrite sepby_cons2. rewrite <- app_assoc. cbn [app].
    rewrite (Pa q (TkComma :: _) f Wa I) by lia.
    change (toks b :: map toks l) with (map toks (b :: l)).
    rewrite (IH Pl ltac:(discriminate) q rest f Wl) by lia. reflexivity.
Qed.

(* alternatives: atoms separated by bars *)
Lemma alts_ok l : Forall P_atom l -> l <> [] -> forall q rest f,
  Forall (fun a => is_bar a = false /\ wf_syn q a) l -> follow rest -> lsz l <= f ->
  p_alts f q (sepby TkBar (map toks l) ++ rest) = Some (l, rest).
Proof.
  intros HP. induction l as [|a l IH]; [contradiction|]. intros _ q rest f Hwf Hfo Hsz.
  inversion HP as [|? ? Pa Pl]; subst. inversion Hwf as [|? ? [Ba Wa] Wl]; subst.
  cbn [lsz fold_right] in Hsz. fold (lsz l) in Hsz.
  destruct f as [|f]; [lia|]. cbn [p_alts].
  destruct l as [|b l].
  - cbn [map sepby]. rewrite (Pa q rest f Wa Ba (follow_atom_of _ Hfo)) by lia.
    destruct rest as [|[] rest]; cbn in Hfo; try contradiction; reflexivity.
  - cbn [map]. rewrite sepby_cons2. rewrite <- app_assoc. cbn [app].
    rewrite (Pa q (TkBar :: _) f Wa Ba I) by lia.
    change (toks b :: map toks l) with (map toks (b :: l)).
    rewrite (IH Pl ltac:(discriminate) q rest f Wl Hfo) by lia. reflexivity.
Qed.

Lemma none_ident : ident_ok (B "None") = true.
Proof. vm_compute. reflexivity. Qed.

Lemma parser_ok y : P_atom y /\ P_ann y.
Proof.
  induction y as [n| |a IHa|h l IHl|l IHl] using syn_ind'.
  - assert (Ha : P_atom (YName n)).
    { intros q rest f [Hid Hnn] _ Hfo Hsz. cbn [sz] in Hsz. destruct f as [|f]; [lia|]. cbn [toks app p_atom].
      destruct rest as [|k rest].
      - rewrite Hid, (str_eqb_neq _ _ Hnn). reflexivity.
      - destruct k; cbn in Hfo; try contradiction; rewrite Hid, (str_eqb_neq _ _ Hnn); reflexivity. }
    split; [exact Ha|apply ann_of_atom; [reflexivity|exact Ha]].
  - assert (Ha : P_atom YNone).
    { intros q rest f _ _ Hfo Hsz. cbn [sz] in Hsz. destruct f as [|f]; [lia|]. cbn [toks app p_atom].
      destruct rest as [|k rest].
      - rewrite none_ident, str_eqb_refl. reflexivity.
      - destruct k; cbn in Hfo; try contradiction; rewrite none_ident, str_eqb_refl; reflexivity. }
    split; [exact Ha|apply ann_of_atom; [reflexivity|exact Ha]].
  - destruct IHa as [_ IHa].
    assert (Ha : P_atom (YStr a)).
    { intros q rest f [Hq Hwf] _ _ Hsz. subst q. cbn [sz] in Hsz. destruct f as [|f]; [lia|].
      cbn [toks app p_atom]. rewrite <- app_assoc. cbn [app].
      rewrite (IHa true (TkQuote :: rest) f Hwf I) by lia. reflexivity. }
    split; [exact Ha|apply ann_of_atom; [reflexivity|exact Ha]].
  - assert (Ha : P_atom (YApp h l)).
    { intros q rest f (Hid & Hne & Hall) _ _ Hsz. apply wf_app_all in Hall.
      cbn [sz] in Hsz. fold (lsz l) in Hsz. destruct f as [|f]; [lia|].
      cbn [toks app p_atom]. rewrite Hid. rewrite <- app_assoc. cbn [app].
      rewrite (args_ok l) ; [reflexivity| |exact Hne|exact Hall|lia].
      eapply Forall_impl; [|exact IHl]. intros y [_ H]. exact H. }
    split; [exact Ha|apply ann_of_atom; [reflexivity|exact Ha]].
  - split; [intros q rest f _ Hb; discriminate|].
    intros q rest f [Hlen Hall] Hfo Hsz. apply wf_bar_all in Hall.
    destruct l as [|a l]; [cbn in Hlen; lia|]. destruct l as [|b l]; [cbn in Hlen; lia|].
    inversion IHl as [|? ? [Pa _] Pl]; subst. inversion Hall as [|? ? [Ba Wa] Wl]; subst.
    cbn [sz fold_right] in Hsz.
    destruct f as [|f]; [lia|]. cbn [p_ann toks map]. rewrite sepby_cons2. rewrite <- app_assoc. cbn [app].
    rewrite (Pa q (TkBar :: _) f Wa Ba I) by lia.
    change (toks b :: map toks l) with (map toks (b :: l)).
    rewrite (alts_ok (b :: l)); [reflexivity| |discriminate|exact Wl|exact Hfo|unfold lsz; cbn [fold_right]; lia].
    eapply Forall_impl; [|exact Pl]. intros y [H _]. exact H.
Qed.

(* ---------------------------------------------------------------- tokens of well-formed syntax lex back *)
Lemma none_idchars : idchars (B "None").
Proof. apply ident_ok_idchars, none_ident. Qed.

Definition G_toks (y : syn) : Prop :=
  forall q rest, wf_syn q y -> good_toks rest -> not_id_head rest -> good_toks (toks y ++ rest).

Lemma sepby_good (sep : token) l :
  (match sep with TkId _ => False | _ => True end) ->
  Forall G_toks l -> forall q rest, Forall (wf_syn q) l -> good_toks rest -> not_id_head rest ->
  good_toks (sepby sep (map toks l) ++ rest).
Proof.
  intros Hsep HG. induction l as [|a l IH]; intros q rest Hwf Hr Hn; [exact Hr|].
  inversion HG as [|? ? Ga Gl]; subst. inversion Hwf as [|? ? Wa Wl]; subst.
  destruct l as [|b l].
  - cbn [map sepby]. apply (Ga q); assumption.
  - cbn [map]. rewrite sepby_cons2. rewrite <- app_assoc. cbn [app].
    apply (Ga q); [exact Wa| |destruct sep; try exact I; contradiction].
    cbn [good_toks]. split; [destruct sep; try exact I; contradiction|].
    split; [destruct sep; try exact I; contradiction|].
    change (toks b :: map toks l) with (map toks (b :: l)). apply (IH Gl q); assumption.
Qed.

Lemma toks_good y : G_toks y.
Proof.
  induction y as [n| |a IHa|h l IHl|l IHl] using syn_ind'; intros q rest Hwf Hr Hn.
  - destruct Hwf as [Hid _]. cbn [toks app good_toks]. split; [apply ident_ok_idchars, Hid|]. split; assumption.
  - cbn [toks app good_toks]. split; [apply none_idchars|]. split; assumption.
  - destruct Hwf as [_ Hwf]. cbn [toks app]. rewrite <- app_assoc. cbn [app good_toks].
    split; [exact I|]. split; [exact I|]. apply (IHa true); [exact Hwf| |exact I].
    cbn [good_toks]. split; [exact I|]. split; [exact I|exact Hr].
  - destruct Hwf as (Hid & _ & Hall). apply wf_app_all in Hall.
    cbn [toks app]. rewrite <- app_assoc. cbn [app good_toks].
    split; [apply ident_ok_idchars, Hid|]. split; [exact I|]. split; [exact I|]. split; [exact I|].
    apply (sepby_good TkComma l I IHl q); [exact Hall| |exact I].
    cbn [good_toks]. split; [exact I|]. split; [exact I|exact Hr].
  - destruct Hwf as [_ Hall]. apply wf_bar_all in Hall. cbn [toks].
    apply (sepby_good TkBar l I IHl q); [|exact Hr|exact Hn].
    eapply Forall_impl; [|exact Hall]. intros y [_ H]. exact H.
Qed.

(* ---------------------------------------------------------------- fuel bound *)
Definition sl (l : list syn) : nat := fold_right (fun a n => length (toks a) + n) 0 l.

Lemma sepby_length (s : token) l : l <> [] ->
  length (sepby s (map toks l)) + 1 = length l + sl l.
Proof.
  induction l as [|a l IH]; [contradiction|]. intros _. destruct l as [|b l].
  - cbn. lia.
  - cbn [map]. rewrite sepby_cons2. rewrite app_length. cbn [length].
    change (toks b :: map toks l) with (map toks (b :: l)).
    specialize (IH ltac:(discriminate)). cbn [sl fold_right length] in *. lia.
Qed.

Lemma lsz_bound l : Forall (fun a => sz a <= 4 * length (toks a)) l -> lsz l <= length l + 4 * sl l.
Proof.
  induction 1 as [|a l Ha _ IH]; [cbn; lia|]. cbn [lsz sl fold_right length] in *. fold (lsz l). fold (sl l). lia.
Qed.

Lemma toks_nonempty y q : wf_syn q y -> 1 <= length (toks y).
Proof.
  destruct y as [n| |a|h l|l]; intros Hwf; cbn [toks length]; try lia.
  destruct Hwf as [Hlen _]. destruct l as [|a [|b l]]; cbn in Hlen; try lia.
  cbn [map]. rewrite sepby_cons2, app_length. cbn [length]. lia.
Qed.

Lemma sz_bound y : forall q, wf_syn q y -> sz y <= 4 * length (toks y).
Proof.
  induction y as [n| |a IHa|h l IHl|l IHl] using syn_ind'; intros q Hwf.
  - cbn. lia.
  - cbn. lia.
  - destruct Hwf as [_ Hwf]. specialize (IHa true Hwf). cbn [sz toks length]. rewrite app_length. cbn [length]. lia.
  - destruct Hwf as (_ & Hne & Hall). apply wf_app_all in Hall.
    assert (Hb : Forall (fun a => sz a <= 4 * length (toks a)) l).
    { rewrite Forall_forall in *. intros a Ha. apply (IHl a Ha q). apply Hall, Ha. }
    pose proof (lsz_bound l Hb) as H1. pose proof (sepby_length TkComma l Hne) as H2.
    cbn [sz toks length]. fold (lsz l). rewrite app_length. cbn [length]. lia.
  - destruct Hwf as [Hlen Hall]. apply wf_bar_all in Hall.
    assert (Hb : Forall (fun a => sz a <= 4 * length (toks a)) l).
    { rewrite Forall_forall in *. intros a Ha. apply (IHl a Ha q). apply Hall, Ha. }
    pose proof (lsz_bound l Hb) as H1.
    assert (Hne : l <> []) by (intros ->; cbn in Hlen; lia).
    pose proof (sepby_length TkBar l Hne) as H2.
    cbn [sz toks]. fold (lsz l). lia.
Qed.

Theorem parse_toks y : wf_syn false y -> parse (render_toks (toks y)) = Some y.
Proof.
  intros Hwf. unfold parse.
  assert (Hg : good_toks (toks y)).
  { rewrite <- (app_nil_r (toks y)). apply (toks_good y false); [exact Hwf|exact I|exact I]. }
  rewrite (lex_render _ Hg).
  destruct (parser_ok y) as [_ Pa].
  pose proof (Pa false [] (4 * length (toks y)) Hwf I (sz_bound y false Hwf)) as H.
  rewrite app_nil_r in H. rewrite H. reflexivity.
Qed.

(* ---------------------------------------------------------------- interpretation helpers *)
Definition sem_list (l : list syn) : option (list sty) :=
  (fix go (l : list syn) : option (list sty) :=
     match l with
     | [] => Some []
     | a :: r => match sem_syn a, go r with
                 | Some x, Some xs => Some (x :: xs)
                 | _, _ => None
                 end
     end) l.

Definition sem_bar (l : list syn) : option sty :=
  (fix go (l : list syn) : option sty :=
     match l with
     | [] => Some []
     | a :: r => match sem_syn a, go r with
                 | Some x, Some xs => Some (x ++ xs)
                 | _, _ => None
                 end
     end) l.

Lemma sem_syn_app h args :
  sem_syn (YApp h args) = match head_op h with
                          | None => None
                          | Some o => match sem_list args with Some xs => apply_op o xs | None => None end
                          end.
Proof. reflexivity. Qed.

Lemma sem_syn_bar l : sem_syn (YBar l) = sem_bar l.
Proof. reflexivity. Qed.

Lemma sem_list_map {A} (f : A -> syn) (g : A -> sty) l :
  Forall (fun a => sem_syn (f a) = Some (g a)) l -> sem_list (map f l) = Some (map g l).
Proof.
  induction 1 as [|a l Ha _ IH]; [reflexivity|]. cbn [map]. unfold sem_list in *. rewrite Ha, IH. reflexivity.
Qed.

Lemma sem_bar_cons a l : sem_bar (a :: l) = match sem_syn a, sem_bar l with
                                            | Some x, Some xs => Some (x ++ xs) | _, _ => None end.
Proof. reflexivity. Qed.

Lemma sem_bar_app l1 l2 : sem_bar (l1 ++ l2) = match sem_bar l1, sem_bar l2 with
                                               | Some a, Some b => Some (a ++ b) | _, _ => None end.
Proof.
  induction l1 as [|x l1 IH].
  - cbn [app]. change (sem_bar []) with (Some (@nil aty)). destruct (sem_bar l2); reflexivity.
  - cbn [app]. rewrite !sem_bar_cons, IH. destruct (sem_syn x); [|reflexivity].
    destruct (sem_bar l1); [|reflexivity]. destruct (sem_bar l2); [|reflexivity]. rewrite app_assoc. reflexivity.
Qed.

(* ---------------------------------------------------------------- names *)
Definition name_ok (n : str) : Prop := ident_ok n = true /\ n <> B "None".

Lemma render_id n : render_toks [TkId n] = n.
Proof. unfold render_toks. cbn. apply app_nil_r. Qed.

Lemma render_cons k ts : render_toks (k :: ts) = render_tok k ++ render_toks ts.
Proof. reflexivity. Qed.

Lemma render_app_syn h l :
  render_toks (toks (YApp h l)) = h ++ B "[" ++ join (B ", ") (map (fun a => render_toks (toks a)) l) ++ B "]".
Proof.
  cbn [toks]. rewrite !render_cons. cbn [render_tok]. rewrite render_toks_app, render_sepby.
  rewrite map_map. cbn [render_tok]. rewrite (render_cons TkRbr []). cbn [render_tok].
  change (render_toks []) with (@nil byte). rewrite app_nil_r. reflexivity.
Qed.

Lemma render_str_syn a : render_toks (toks (YStr a)) = dq :: render_toks (toks a) ++ [dq].
Proof.
  cbn [toks]. rewrite render_cons. cbn [render_tok app]. rewrite render_toks_app.
  rewrite (render_cons TkQuote []). reflexivity.
Qed.

(* ---------------------------------------------------------------- the direct and root compilers *)
Definition hd (c : compiler) (o : op) : str :=
  match c with
  | CDirect => op_typing_name o
  | CRoot => B "typing." ++ op_typing_name o
  | C310 => match o with OList => B "list" | ODict => B "dict" | _ => op_typing_name o end
  end.

Lemma hd_head_op c o : head_op (hd c o) = Some o.
Proof. destruct c, o; vm_compute; reflexivity. Qed.

Lemma hd_ident c o : ident_ok (hd c o) = true.
Proof. destruct c, o; vm_compute; reflexivity. Qed.

Fixpoint syn_plain (c : compiler) (t : ty) : syn :=
  match t with
  | TName n => YName n
  | TRef n => YStr (YName n)
  | TOptional a => YApp (hd c OOptional) [syn_plain c a]
  | TList a => YApp (hd c OList) [syn_plain c a]
  | TDict k v => YApp (hd c ODict) [syn_plain c k; syn_plain c v]
  | TUnion ts => YApp (hd c OUnion) (map (syn_plain c) ts)
  | TIterable a => YApp (hd c OIterable) [syn_plain c a]
  | TAsyncIterable a => YApp (hd c OAsyncIterable) [syn_plain c a]
  | TAsyncIterator a => YApp (hd c OAsyncIterator) [syn_plain c a]
  end.

(* [q]: the text will sit inside a string literal, so it may not contain forward references *)
Fixpoint wf_plain (q : bool) (t : ty) : Prop :=
  match t with
  | TName n => name_ok n
  | TRef n => q = false /\ name_ok n
  | TOptional a | TList a | TIterable a | TAsyncIterable a | TAsyncIterator a => wf_plain q a
  | TDict k v => wf_plain q k /\ wf_plain q v
  | TUnion ts => ts <> [] /\
                 (fix all (l : list ty) : Prop := match l with [] => True | a :: r => wf_plain q a /\ all r end) ts
  end.

Lemma wf_plain_all q l :
  (fix all (l : list ty) : Prop := match l with [] => True | a :: r => wf_plain q a /\ all r end) l
  <-> Forall (wf_plain q) l.
Proof.
  induction l as [|a l IH]; [split; constructor|]. split.
  - intros [H1 H2]. constructor; [exact H1|apply IH, H2].
  - intros H. inversion H; subst. split; [assumption|apply IH; assumption].
Qed.

Definition plain (c : compiler) : Prop := c <> C310.

Lemma print_plain c t : plain c -> print c t = render_toks (toks (syn_plain c t)).
Proof.
  intros Hc. induction t as [n|n|a IH|a IH|k v IHk IHv|l IHl|a IH|a IH|a IH] using ty_ind'.
  - cbn [print syn_plain toks]. symmetry. apply render_id.
  - cbn [print syn_plain]. rewrite render_str_syn. cbn [toks]. rewrite render_id. reflexivity.
  - cbn [print syn_plain]. rewrite render_app_syn. cbn [map join]. rewrite <- IH.
    destruct c; [reflexivity|reflexivity|contradiction Hc; reflexivity].
  - cbn [print syn_plain]. rewrite render_app_syn. cbn [map join]. rewrite <- IH.
    destruct c; [reflexivity|reflexivity|contradiction Hc; reflexivity].
  - cbn [print syn_plain]. rewrite render_app_syn. cbn [map join]. rewrite <- IHk, <- IHv.
    destruct c; [| |contradiction Hc; reflexivity].
    + cbn [c_dict hd op_typing_name]. rewrite <- !app_assoc. reflexivity.
    + cbn [c_dict hd op_typing_name]. rewrite <- !app_assoc. reflexivity.
  - cbn [print syn_plain]. rewrite render_app_syn. rewrite map_map.
    assert (Hm : map (print c) l = map (fun x => render_toks (toks (syn_plain c x))) l).
    { apply map_ext_in. intros a Ha. rewrite Forall_forall in IHl. apply IHl, Ha. }
    rewrite <- Hm.
    destruct c; [reflexivity|reflexivity|contradiction Hc; reflexivity].
  - cbn [print syn_plain]. rewrite render_app_syn. cbn [map join]. rewrite <- IH.
    destruct c; [reflexivity|reflexivity|contradiction Hc; reflexivity].
  - cbn [print syn_plain]. rewrite render_app_syn. cbn [map join]. rewrite <- IH.
    destruct c; [reflexivity|reflexivity|contradiction Hc; reflexivity].
  - cbn [print syn_plain]. rewrite render_app_syn. cbn [map join]. rewrite <- IH.
    destruct c; [reflexivity|reflexivity|contradiction Hc; reflexivity].
Qed.

Lemma wf_syn_plain c t : forall q, wf_plain q t -> wf_syn q (syn_plain c t).
Proof.
  induction t as [n|n|a IH|a IH|k v IHk IHv|l IHl|a IH|a IH|a IH] using ty_ind'; intros q Hwf;
    cbn [syn_plain wf_syn wf_plain] in *.
  - exact Hwf.
  - destruct Hwf as [Hq Hn]. split; [exact Hq|exact Hn].
  - split; [apply hd_ident|]. split; [discriminate|]. split; [apply IH, Hwf|exact I].
  - split; [apply hd_ident|]. split; [discriminate|]. split; [apply IH, Hwf|exact I].
  - destruct Hwf as [Hk Hv]. split; [apply hd_ident|]. split; [discriminate|].
    split; [apply IHk, Hk|]. split; [apply IHv, Hv|exact I].
  - destruct Hwf as [Hne Hall]. apply wf_plain_all in Hall.
    split; [apply hd_ident|]. split; [destruct l; [contradiction|discriminate]|].
    apply wf_app_all. rewrite Forall_forall in *. intros y Hy. apply in_map_iff in Hy.
    destruct Hy as (a & <- & Ha). apply (IHl a Ha), Hall, Ha.
  - split; [apply hd_ident|]. split; [discriminate|]. split; [apply IH, Hwf|exact I].
  - split; [apply hd_ident|]. split; [discriminate|]. split; [apply IH, Hwf|exact I].
  - split; [apply hd_ident|]. split; [discriminate|]. split; [apply IH, Hwf|exact I].
Qed.

Lemma sem_list_1 a x : sem_syn a = Some x -> sem_list [a] = Some [x].
Proof. intros H. unfold sem_list. rewrite H. reflexivity. Qed.

Lemma sem_list_2 a b x y : sem_syn a = Some x -> sem_syn b = Some y -> sem_list [a; b] = Some [x; y].
Proof. intros H1 H2. unfold sem_list. rewrite H1, H2. reflexivity. Qed.

Lemma sem_syn_plain c t : forall q, wf_plain q t -> sem_syn (syn_plain c t) = Some (sem t).
Proof.
  induction t as [n|n|a IH|a IH|k v IHk IHv|l IHl|a IH|a IH|a IH] using ty_ind'; intros q Hwf;
    cbn [syn_plain wf_plain] in *.
  - reflexivity.
  - reflexivity.
  - rewrite sem_syn_app, hd_head_op, (sem_list_1 _ _ (IH q Hwf)). reflexivity.
  - rewrite sem_syn_app, hd_head_op, (sem_list_1 _ _ (IH q Hwf)). reflexivity.
  - destruct Hwf as [Hk Hv].
    rewrite sem_syn_app, hd_head_op, (sem_list_2 _ _ _ _ (IHk q Hk) (IHv q Hv)). reflexivity.
  - destruct Hwf as [Hne Hall]. apply wf_plain_all in Hall.
    rewrite sem_syn_app, hd_head_op.
    rewrite (sem_list_map (syn_plain c) sem l).
    + cbn [sem]. rewrite flat_map_concat_map. destruct l as [|a l]; [contradiction|reflexivity].
    + rewrite Forall_forall in *. intros a Ha. apply (IHl a Ha q), Hall, Ha.
  - rewrite sem_syn_app, hd_head_op, (sem_list_1 _ _ (IH q Hwf)). reflexivity.
  - rewrite sem_syn_app, hd_head_op, (sem_list_1 _ _ (IH q Hwf)). reflexivity.
  - rewrite sem_syn_app, hd_head_op, (sem_list_1 _ _ (IH q Hwf)). reflexivity.
Qed.

(* ---------------------------------------------------------------- the 3.10 compiler *)
Definition alts_of (y : syn) : list syn := match y with YBar l => l | _ => [y] end.
Definition mkbar (l : list syn) : syn := match l with [x] => x | _ => YBar l end.

(* the syntax of what stands between the outer quotes *)
Fixpoint inner310 (t : ty) : syn :=
  match t with
  | TName n | TRef n => YName n
  | TOptional a => mkbar (alts_of (inner310 a) ++ [YNone])
  | TList a => YApp (hd C310 OList) [inner310 a]
  | TDict k v => YApp (hd C310 ODict) [inner310 k; inner310 v]
  | TUnion ts => mkbar (flat_map (fun a => alts_of (inner310 a)) ts)
  | TIterable a => YApp (hd C310 OIterable) [inner310 a]
  | TAsyncIterable a => YApp (hd C310 OAsyncIterable) [inner310 a]
  | TAsyncIterator a => YApp (hd C310 OAsyncIterator) [inner310 a]
  end.

Definition syn310 (t : ty) : syn := match t with TName n => YName n | _ => YStr (inner310 t) end.
Definition is_tname (t : ty) : Prop := match t with TName _ => True | _ => False end.

(* where NoTyping310TypingCompiler does not strip the quotes of its argument (dict keys, the three
   iterator forms) the argument has to be a bare name; forward references are fine everywhere else *)
Fixpoint wf310 (t : ty) : Prop :=
  match t with
  | TName n | TRef n => name_ok n
  | TOptional a | TList a => wf310 a
  | TDict k v => is_tname k /\ wf310 k /\ wf310 v
  | TUnion ts => ts <> [] /\
                 (fix all (l : list ty) : Prop := match l with [] => True | a :: r => wf310 a /\ all r end) ts
  | TIterable a | TAsyncIterable a | TAsyncIterator a => is_tname a /\ wf310 a
  end.

Lemma wf310_all l :
  (fix all (l : list ty) : Prop := match l with [] => True | a :: r => wf310 a /\ all r end) l
  <-> Forall wf310 l.
Proof.
  induction l as [|a l IH]; [split; constructor|]. split.
  - intros [H1 H2]. constructor; [exact H1|apply IH, H2].
  - intros H. inversion H; subst. split; [assumption|apply IH; assumption].
Qed.

Lemma toks_alts y : sepby TkBar (map toks (alts_of y)) = toks y.
Proof. destruct y; reflexivity. Qed.

Lemma toks_mkbar l : toks (mkbar l) = sepby TkBar (map toks l).
Proof. destruct l as [|a [|b l]]; reflexivity. Qed.

Lemma fmt310_quoted X : fmt310 (dq :: X ++ [dq]) = X.
Proof. cbn [fmt310]. change (Byte.eqb dq dq) with true. cbn iota. apply removelast_last. Qed.

Lemma fmt310_name n : idchars n -> fmt310 n = n.
Proof.
  intros [Hne Hall]. destruct n as [|b n]; [contradiction|]. inversion Hall; subst.
  cbn [fmt310]. rewrite namechar_not_dq by assumption. reflexivity.
Qed.

Lemma alts_wf q y : wf_syn q y ->
  alts_of y <> [] /\ Forall (fun a => is_bar a = false /\ wf_syn q a) (alts_of y).
Proof.
  intros Hwf. destruct y as [n| |a|h l|l]; cbn [alts_of];
    try (split; [discriminate|constructor; [split; [reflexivity|exact Hwf]|constructor]]).
  destruct Hwf as [Hlen Hall]. apply wf_bar_all in Hall. split; [|exact Hall].
  intros ->. cbn in Hlen. lia.
Qed.

Lemma mkbar_wf q l : l <> [] -> Forall (fun a => is_bar a = false /\ wf_syn q a) l -> wf_syn q (mkbar l).
Proof.
  intros Hne Hall. destruct l as [|a [|b l]]; [contradiction| |].
  - inversion Hall as [|? ? [_ H] _]; subst. exact H.
  - cbn [mkbar wf_syn]. split; [cbn; lia|]. exact (proj2 (wf_bar_all q (a :: b :: l)) Hall).
Qed.

Lemma inner_wf t : wf310 t -> wf_syn true (inner310 t).
Proof.
  induction t as [n|n|a IH|a IH|k v IHk IHv|l IHl|a IH|a IH|a IH] using ty_ind'; intros Hwf;
    cbn [inner310 wf310] in *.
  - exact Hwf.
  - exact Hwf.
  - destruct (alts_wf true _ (IH Hwf)) as [Hne Hall]. apply mkbar_wf.
    + destruct (alts_of (inner310 a)); discriminate.
    + apply Forall_app. split; [exact Hall|]. constructor; [split; [reflexivity|exact I]|constructor].
  - cbn [wf_syn]. split; [apply hd_ident|]. split; [discriminate|]. split; [apply IH, Hwf|exact I].
  - destruct Hwf as (_ & Hk & Hv). cbn [wf_syn]. split; [apply hd_ident|]. split; [discriminate|].
    split; [apply IHk, Hk|]. split; [apply IHv, Hv|exact I].
  - destruct Hwf as [Hne Hall]. apply wf310_all in Hall. apply mkbar_wf.
    + destruct l as [|a l]; [contradiction|]. cbn [flat_map].
      inversion IHl as [|? ? Ia _]; subst. inversion Hall as [|? ? Wa _]; subst.
      destruct (alts_wf true _ (Ia Wa)) as [Hn _]. destruct (alts_of (inner310 a)); [contradiction|discriminate].
    + rewrite Forall_forall in *. intros y Hy. apply in_flat_map in Hy. destruct Hy as (a & Ha & Hy).
      destruct (alts_wf true _ (IHl a Ha (Hall a Ha))) as [_ HF]. rewrite Forall_forall in HF. apply HF, Hy.
  - destruct Hwf as [_ Hwf]. cbn [wf_syn]. split; [apply hd_ident|]. split; [discriminate|]. split; [apply IH, Hwf|exact I].
  - destruct Hwf as [_ Hwf]. cbn [wf_syn]. split; [apply hd_ident|]. split; [discriminate|]. split; [apply IH, Hwf|exact I].
  - destruct Hwf as [_ Hwf]. cbn [wf_syn]. split; [apply hd_ident|]. split; [discriminate|]. split; [apply IH, Hwf|exact I].
Qed.

Definition body310 (t : ty) : str := render_toks (toks (inner310 t)).

Lemma sepby_flatten (g : ty -> list syn) (h : ty -> syn) ts :
  (forall a, In a ts -> g a <> [] /\ sepby TkBar (map toks (g a)) = toks (h a)) ->
  sepby TkBar (map toks (flat_map g ts)) = sepby TkBar (map (fun a => toks (h a)) ts).
Proof.
  induction ts as [|a r IH]; intros H; [reflexivity|].
  destruct (H a (or_introl eq_refl)) as [Hne Ha].
  assert (Hr : forall x, In x r -> g x <> [] /\ sepby TkBar (map toks (g x)) = toks (h x)).
  { intros x Hx. apply H. right. exact Hx. }
  specialize (IH Hr). cbn [flat_map map]. rewrite map_app.
  destruct r as [|b r'].
  - cbn [flat_map map]. rewrite app_nil_r. exact Ha.
  - rewrite sepby_app.
    + rewrite Ha, IH. reflexivity.
    + destruct (g a); [contradiction|discriminate].
    + cbn [flat_map]. destruct (Hr b (or_introl eq_refl)) as [Hb _]. destruct (g b); [contradiction|discriminate].
Qed.

Lemma print310_ok t : wf310 t ->
  print C310 t = render_toks (toks (syn310 t)) /\ fmt310 (print C310 t) = body310 t.
Proof.
  assert (Q : forall t, print C310 t = dq :: body310 t ++ [dq] ->
              syn310 t = YStr (inner310 t) ->
              print C310 t = render_toks (toks (syn310 t)) /\ fmt310 (print C310 t) = body310 t).
  { intros u Hp Hs. rewrite Hs, render_str_syn. split; [exact Hp|]. rewrite Hp. apply fmt310_quoted. }
  induction t as [n|n|a IH|a IH|k v IHk IHv|l IHl|a IH|a IH|a IH] using ty_ind'; intros Hwf;
    cbn [wf310] in Hwf.
  - unfold body310. cbn [print syn310 inner310 toks]. rewrite render_id. split; [reflexivity|].
    apply fmt310_name, ident_ok_idchars, Hwf.
  - apply Q; [|reflexivity]. unfold body310. cbn [print inner310 toks]. rewrite render_id. reflexivity.
  - apply Q; [|reflexivity]. destruct (IH Hwf) as [_ Hf].
    cbn [print c_optional]. rewrite Hf. unfold body310. cbn [inner310].
    rewrite toks_mkbar, map_app. destruct (alts_wf true _ (inner_wf a Hwf)) as [Hne _].
    rewrite sepby_app; [|destruct (alts_of (inner310 a)); [contradiction|discriminate]|discriminate].
    rewrite toks_alts. rewrite render_toks_app, render_cons. cbn [map sepby toks]. rewrite render_id.
    cbn [render_tok]. rewrite <- !app_assoc. reflexivity.
  - apply Q; [|reflexivity]. destruct (IH Hwf) as [_ Hf].
    cbn [print c_list]. rewrite Hf. unfold body310 at 2. cbn [inner310]. rewrite render_app_syn.
    cbn [map join hd]. fold (body310 a). rewrite <- !app_assoc. reflexivity.
  - apply Q; [|reflexivity]. destruct Hwf as (Hk & Wk & Wv). destruct (IHv Wv) as [_ Hf].
    destruct k as [n| | | | | | | |]; try contradiction.
    cbn [print c_dict]. rewrite Hf. unfold body310 at 2. cbn [inner310]. rewrite render_app_syn.
    cbn [map join hd toks]. rewrite render_id. fold (body310 v). rewrite <- !app_assoc. reflexivity.
  - apply Q; [|reflexivity]. destruct Hwf as [Hne Hall]. apply wf310_all in Hall.
    cbn [print c_union]. rewrite map_map.
    assert (Hm : map (fun x => fmt310 (print C310 x)) l = map body310 l).
    { apply map_ext_in. intros a Ha. rewrite Forall_forall in *. apply (IHl a Ha (Hall a Ha)). }
    rewrite Hm. unfold body310 at 2. cbn [inner310]. rewrite toks_mkbar.
    rewrite (sepby_flatten (fun a => alts_of (inner310 a)) inner310 l).
    + rewrite render_sepby, map_map. reflexivity.
    + intros a Ha. rewrite Forall_forall in Hall. destruct (alts_wf true _ (inner_wf a (Hall a Ha))) as [Hn _].
      split; [exact Hn|apply toks_alts].
  - apply Q; [|reflexivity]. destruct Hwf as [Ht Wa]. destruct a as [n| | | | | | | |]; try contradiction.
    cbn [print c_iterable]. unfold body310. cbn [inner310]. rewrite render_app_syn.
    cbn [map join hd toks]. rewrite render_id. rewrite <- !app_assoc. reflexivity.
  - apply Q; [|reflexivity]. destruct Hwf as [Ht Wa]. destruct a as [n| | | | | | | |]; try contradiction.
    cbn [print c_async_iterable]. unfold body310. cbn [inner310]. rewrite render_app_syn.
    cbn [map join hd toks]. rewrite render_id. rewrite <- !app_assoc. reflexivity.
  - apply Q; [|reflexivity]. destruct Hwf as [Ht Wa]. destruct a as [n| | | | | | | |]; try contradiction.
    cbn [print c_async_iterator]. unfold body310. cbn [inner310]. rewrite render_app_syn.
    cbn [map join hd toks]. rewrite render_id. rewrite <- !app_assoc. reflexivity.
Qed.

Lemma sem_alts y : sem_bar (alts_of y) = sem_syn y.
Proof.
  destruct y as [n| |a|h l|l]; cbn [alts_of]; try reflexivity;
    rewrite sem_bar_cons; change (sem_bar []) with (Some (@nil aty));
    match goal with |- context [sem_syn ?x] => destruct (sem_syn x) end; try rewrite app_nil_r; reflexivity.
Qed.

Lemma sem_mkbar l : l <> [] -> sem_syn (mkbar l) = sem_bar l.
Proof.
  intros Hne. destruct l as [|a [|b l]]; [contradiction| |reflexivity].
  cbn [mkbar]. rewrite sem_bar_cons. change (sem_bar []) with (Some (@nil aty)).
  destruct (sem_syn a); [rewrite app_nil_r|]; reflexivity.
Qed.

Lemma sem_inner t : wf310 t -> sem_syn (inner310 t) = Some (sem t).
Proof.
  induction t as [n|n|a IH|a IH|k v IHk IHv|l IHl|a IH|a IH|a IH] using ty_ind'; intros Hwf;
    cbn [inner310 wf310] in *.
  - reflexivity.
  - reflexivity.
  - rewrite sem_mkbar by (destruct (alts_of (inner310 a)); discriminate).
    rewrite sem_bar_app, sem_alts, (IH Hwf). reflexivity.
  - rewrite sem_syn_app, hd_head_op, (sem_list_1 _ _ (IH Hwf)). reflexivity.
  - destruct Hwf as (_ & Hk & Hv).
    rewrite sem_syn_app, hd_head_op, (sem_list_2 _ _ _ _ (IHk Hk) (IHv Hv)). reflexivity.
  - destruct Hwf as [Hne Hall]. apply wf310_all in Hall.
    assert (Hb : sem_bar (flat_map (fun a => alts_of (inner310 a)) l) = Some (flat_map sem l)).
    { clear Hne. induction l as [|a r IHr]; [reflexivity|].
      inversion IHl as [|? ? Ia Ir]; subst. inversion Hall as [|? ? Wa Wr]; subst.
      cbn [flat_map]. rewrite sem_bar_app, sem_alts, (Ia Wa), (IHr Ir Wr). reflexivity. }
    rewrite sem_mkbar; [exact Hb|].
    destruct l as [|a r]; [contradiction|]. cbn [flat_map].
    inversion Hall as [|? ? Wa _]; subst.
    destruct (alts_wf true _ (inner_wf a Wa)) as [Hn _].
    destruct (alts_of (inner310 a)); [contradiction|discriminate].
  - destruct Hwf as [_ Hwf]. rewrite sem_syn_app, hd_head_op, (sem_list_1 _ _ (IH Hwf)). reflexivity.
  - destruct Hwf as [_ Hwf]. rewrite sem_syn_app, hd_head_op, (sem_list_1 _ _ (IH Hwf)). reflexivity.
  - destruct Hwf as [_ Hwf]. rewrite sem_syn_app, hd_head_op, (sem_list_1 _ _ (IH Hwf)). reflexivity.
Qed.

Lemma syn310_wf t : wf310 t -> wf_syn false (syn310 t).
Proof.
  intros Hwf. pose proof (inner_wf t Hwf) as Hi.
  destruct t; cbn [syn310 wf_syn]; try (split; [reflexivity|exact Hi]). exact Hwf.
Qed.

Lemma syn310_sem t : wf310 t -> sem_syn (syn310 t) = Some (sem t).
Proof.
  intros Hwf. pose proof (sem_inner t Hwf) as Hi. destruct t; cbn [syn310 sem_syn]; exact Hi.
Qed.

(* ---------------------------------------------------------------- the main theorem *)
Definition wf (c : compiler) (t : ty) : Prop :=
  match c with C310 => wf310 t | _ => wf_plain false t end.

Lemma denote_syntax y s : wf_syn false y -> sem_syn y = Some s -> denote (render_toks (toks y)) = Some s.
Proof. intros Hwf Hs. unfold denote. rewrite (parse_toks y Hwf). exact Hs. Qed.

Theorem denote_print c t : wf c t -> denote (print c t) = Some (sem t).
Proof.
  intros Hwf. destruct c; cbn [wf] in Hwf.
  - rewrite (print_plain CDirect t) by discriminate.
    apply denote_syntax; [apply wf_syn_plain, Hwf|eapply sem_syn_plain, Hwf].
  - rewrite (print_plain CRoot t) by discriminate.
    apply denote_syntax; [apply wf_syn_plain, Hwf|eapply sem_syn_plain, Hwf].
  - rewrite (proj1 (print310_ok t Hwf)).
    apply denote_syntax; [apply syn310_wf, Hwf|apply syn310_sem, Hwf].
Qed.

Corollary same_type c1 c2 t : wf c1 t -> wf c2 t -> denote (print c1 t) = denote (print c2 t).
Proof. intros H1 H2. rewrite (denote_print c1 t H1), (denote_print c2 t H2). reflexivity. Qed.

(* ---------------------------------------------------------------- template sites *)
Lemma drop_dq_nodq s : nodq s -> drop_dq s = s.
Proof. intros H. destruct s as [|b r]; [reflexivity|]. inversion H; subst. cbn [drop_dq]. rewrite H2. reflexivity. Qed.

Lemma nodq_rev s : nodq s -> nodq (rev s).
Proof. unfold nodq. apply Forall_rev. Qed.

Lemma strip_nodq s : nodq s -> strip_dq s = s.
Proof.
  intros H. unfold strip_dq. rewrite (drop_dq_nodq s H), (drop_dq_nodq _ (nodq_rev s H)). apply rev_involutive.
Qed.

Lemma strip_quoted X : nodq X -> strip_dq (dq :: X ++ [dq]) = X.
Proof.
  intros H. unfold strip_dq. cbn [drop_dq]. change (Byte.eqb dq dq) with true. cbn iota.
  destruct X as [|b r].
  - cbn [app drop_dq]. change (Byte.eqb dq dq) with true. reflexivity.
  - inversion H; subst. cbn [app drop_dq]. rewrite H2.
    change (b :: r ++ [dq]) with ((b :: r) ++ [dq]). rewrite rev_app_distr. cbn [rev app drop_dq].
    change (Byte.eqb dq dq) with true. cbn iota. change (rev r ++ [b]) with (rev (b :: r)).
    rewrite (drop_dq_nodq _ (nodq_rev _ H)). apply rev_involutive.
Qed.

(* text of syntax without string literals contains no quote *)
Lemma nodq_app a b : nodq a -> nodq b -> nodq (a ++ b).
Proof. unfold nodq. intros. apply Forall_app. split; assumption. Qed.

Lemma good_toks_noquote_nodq ts :
  good_toks ts -> Forall (fun k => k <> TkQuote) ts -> nodq (render_toks ts).
Proof.
  induction ts as [|k r IH]; intros Hg Hq; [constructor|].
  destruct Hg as (Hk & _ & Hr). inversion Hq as [|? ? Hk' Hq']; subst.
  rewrite render_cons. apply nodq_app; [|apply IH; assumption].
  destruct k; cbn [render_tok]; try (repeat constructor).
  - apply idchars_nodq, Hk.
  - contradiction Hk'. reflexivity.
Qed.

Definition NQ (y : syn) : Prop := wf_syn true y -> Forall (fun k => k <> TkQuote) (toks y).

Lemma sepby_noquote sep l : sep <> TkQuote ->
  Forall (fun y => Forall (fun k => k <> TkQuote) (toks y)) l ->
  Forall (fun k => k <> TkQuote) (sepby sep (map toks l)).
Proof.
  intros Hs. induction 1 as [|a l Ha _ IH]; [constructor|]. destruct l as [|b l]; [exact Ha|].
  cbn [map]. rewrite sepby_cons2. apply Forall_app. split; [exact Ha|]. constructor; [exact Hs|exact IH].
Qed.

Lemma toks_noquote y : NQ y.
Proof.
  induction y as [n| |a IHa|h l IHl|l IHl] using syn_ind'; intros Hwf; cbn [toks].
  - repeat constructor; discriminate.
  - repeat constructor; discriminate.
  - destruct Hwf as [Hq _]. discriminate.
  - destruct Hwf as (_ & _ & Hall). apply wf_app_all in Hall.
    constructor; [discriminate|]. constructor; [discriminate|]. apply Forall_app. split; [|repeat constructor; discriminate].
    apply sepby_noquote; [discriminate|]. rewrite Forall_forall in *. intros y Hy. apply (IHl y Hy), Hall, Hy.
  - destruct Hwf as [_ Hall]. apply wf_bar_all in Hall.
    apply sepby_noquote; [discriminate|]. rewrite Forall_forall in *. intros y Hy. apply (IHl y Hy), Hall, Hy.
Qed.

Lemma render_nodq y : wf_syn true y -> nodq (render_toks (toks y)).
Proof.
  intros Hwf. apply good_toks_noquote_nodq; [|apply toks_noquote, Hwf].
  rewrite <- (app_nil_r (toks y)). apply (toks_good y true); [exact Hwf|exact I|exact I].
Qed.

(* when is a site sound for a compiler and an argument *)
Definition site_ok (c : compiler) (k : site_kind) (t : ty) : Prop :=
  match k, c with
  | KRaw, _ => wf c t
  | KQuote, C310 => is_tname t /\ wf310 t
  | KQuote, _ => wf_plain true t
  | KQuoteStrip, C310 => wf310 t
  | KQuoteStrip, _ => wf_plain true t
  end.

Lemma quote_plain c t : plain c -> wf_plain true t -> denote (dq :: print c t ++ [dq]) = Some (sem t).
Proof.
  intros Hc Hwf. rewrite (print_plain c t Hc). rewrite <- render_str_syn.
  apply denote_syntax.
  - cbn [wf_syn]. split; [reflexivity|apply wf_syn_plain, Hwf].
  - cbn [sem_syn]. eapply sem_syn_plain, Hwf.
Qed.

Theorem denote_site c k t : site_ok c k t -> denote (render_site k (print c t)) = Some (sem t).
Proof.
  intros Hok. destruct k; cbn [render_site].
  - apply denote_print. destruct c; exact Hok.
  - destruct c; cbn [site_ok] in Hok.
    + apply quote_plain; [discriminate|exact Hok].
    + apply quote_plain; [discriminate|exact Hok].
    + destruct Hok as [Ht Hwf]. destruct t as [n| | | | | | | |]; try contradiction.
      cbn [print]. rewrite <- (render_id n) at 1. change [TkId n] with (toks (YName n)).
      rewrite <- render_str_syn. apply denote_syntax; [|reflexivity].
      cbn [wf_syn]. split; [reflexivity|exact Hwf].
  - destruct c; cbn [site_ok] in Hok.
    + rewrite strip_nodq; [apply quote_plain; [discriminate|exact Hok]|].
      rewrite (print_plain CDirect t) by discriminate. apply render_nodq, wf_syn_plain, Hok.
    + rewrite strip_nodq; [apply quote_plain; [discriminate|exact Hok]|].
      rewrite (print_plain CRoot t) by discriminate. apply render_nodq, wf_syn_plain, Hok.
    + destruct (print310_ok t Hok) as [Hp _]. pose proof (render_nodq _ (inner_wf t Hok)) as Hn.
      fold (body310 t) in Hn.
      assert (Hs : dq :: strip_dq (print C310 t) ++ [dq] = render_toks (toks (YStr (inner310 t)))).
      { rewrite render_str_syn. fold (body310 t). rewrite Hp.
        remember (body310 t) as X eqn:HX. unfold body310 in HX.
        destruct t; cbn [syn310]; try (rewrite render_str_syn, <- HX, (strip_quoted _ Hn); reflexivity).
        cbn [inner310 toks] in HX. rewrite render_id in HX. cbn [toks]. rewrite render_id. subst X.
        rewrite (strip_nodq _ Hn). reflexivity. }
      rewrite Hs. apply denote_syntax.
      * cbn [wf_syn]. split; [reflexivity|apply inner_wf, Hok].
      * cbn [sem_syn]. apply sem_inner, Hok.
Qed.

(* ---------------------------------------------------------------- decidable side conditions *)
Definition name_okb (n : str) : bool := ident_ok n && negb (str_eqb n (B "None")).

Lemma name_okb_ok n : name_okb n = true -> name_ok n.
Proof.
  unfold name_okb, name_ok. intros H. apply andb_prop in H. destruct H as [H1 H2]. split; [exact H1|].
  intros ->. rewrite str_eqb_refl in H2. discriminate.
Qed.

Definition is_tnameb (t : ty) : bool := match t with TName _ => true | _ => false end.

Fixpoint noref (t : ty) : bool :=
  match t with
  | TName _ => true
  | TRef _ => false
  | TOptional a | TList a | TIterable a | TAsyncIterable a | TAsyncIterator a => noref a
  | TDict k v => noref k && noref v
  | TUnion ts => forallb noref ts
  end.

Fixpoint unions_ok (t : ty) : bool :=
  match t with
  | TName _ | TRef _ => true
  | TOptional a | TList a | TIterable a | TAsyncIterable a | TAsyncIterator a => unions_ok a
  | TDict k v => unions_ok k && unions_ok v
  | TUnion ts => negb (match ts with [] => true | _ => false end) && forallb unions_ok ts
  end.

Fixpoint shape310 (t : ty) : bool :=
  match t with
  | TName _ | TRef _ => true
  | TOptional a | TList a => shape310 a
  | TDict k v => is_tnameb k && shape310 k && shape310 v
  | TUnion ts => negb (match ts with [] => true | _ => false end) && forallb shape310 ts
  | TIterable a | TAsyncIterable a | TAsyncIterator a => is_tnameb a && shape310 a
  end.

Fixpoint names_ok (t : ty) : Prop :=
  match t with
  | TName n | TRef n => name_ok n
  | TOptional a | TList a | TIterable a | TAsyncIterable a | TAsyncIterator a => names_ok a
  | TDict k v => names_ok k /\ names_ok v
  | TUnion ts => (fix all (l : list ty) : Prop := match l with [] => True | a :: r => names_ok a /\ all r end) ts
  end.

Lemma names_ok_all l :
  (fix all (l : list ty) : Prop := match l with [] => True | a :: r => names_ok a /\ all r end) l
  <-> Forall names_ok l.
Proof.
  induction l as [|a l IH]; [split; constructor|]. split.
  - intros [H1 H2]. constructor; [exact H1|apply IH, H2].
  - intros H. inversion H; subst. split; [assumption|apply IH; assumption].
Qed.

Lemma is_tnameb_ok t : is_tnameb t = true -> is_tname t.
Proof. destruct t; cbn; congruence || trivial. Qed.

Lemma shape_plain t : forall q, unions_ok t = true -> (q = true -> noref t = true) -> names_ok t -> wf_plain q t.
Proof.
  induction t as [n|n|a IH|a IH|k v IHk IHv|l IHl|a IH|a IH|a IH] using ty_ind'; intros q Hu Hr Hn;
    cbn [unions_ok noref names_ok wf_plain] in *; try (apply IH; assumption).
  - exact Hn.
  - split; [|exact Hn]. destruct q; [specialize (Hr eq_refl); discriminate|reflexivity].
  - apply andb_prop in Hu. destruct Hu as [Hu1 Hu2]. destruct Hn as [Hn1 Hn2]. split.
    + apply IHk; [exact Hu1| |exact Hn1]. intros Hq. pose proof (Hr Hq) as Hx. apply andb_prop in Hx. tauto.
    + apply IHv; [exact Hu2| |exact Hn2]. intros Hq. pose proof (Hr Hq) as Hx. apply andb_prop in Hx. tauto.
  - apply andb_prop in Hu. destruct Hu as [Hne Hu]. apply names_ok_all in Hn.
    split; [destruct l; [discriminate|discriminate]|]. apply wf_plain_all.
    rewrite forallb_forall in Hu. rewrite Forall_forall in *. intros a Ha.
    apply (IHl a Ha); [apply Hu, Ha| |apply Hn, Ha].
    intros Hq. specialize (Hr Hq). rewrite forallb_forall in Hr. apply Hr, Ha.
Qed.

Lemma shape_310 t : shape310 t = true -> names_ok t -> wf310 t.
Proof.
  induction t as [n|n|a IH|a IH|k v IHk IHv|l IHl|a IH|a IH|a IH] using ty_ind'; intros Hs Hn;
    cbn [shape310 names_ok wf310] in *; try (apply IH; assumption); try exact Hn.
  - apply andb_prop in Hs. destruct Hs as [Hs Hv]. apply andb_prop in Hs. destruct Hs as [Hk1 Hk2].
    destruct Hn as [Hn1 Hn2]. split; [apply is_tnameb_ok, Hk1|]. split; [apply IHk|apply IHv]; assumption.
  - apply andb_prop in Hs. destruct Hs as [Hne Hs]. apply names_ok_all in Hn.
    split; [destruct l; [discriminate|discriminate]|]. apply wf310_all.
    rewrite forallb_forall in Hs. rewrite Forall_forall in *. intros a Ha. apply (IHl a Ha); [apply Hs|apply Hn]; exact Ha.
  - apply andb_prop in Hs. destruct Hs as [H1 H2]. split; [apply is_tnameb_ok, H1|apply IH; assumption].
  - apply andb_prop in Hs. destruct Hs as [H1 H2]. split; [apply is_tnameb_ok, H1|apply IH; assumption].
  - apply andb_prop in Hs. destruct Hs as [H1 H2]. split; [apply is_tnameb_ok, H1|apply IH; assumption].
Qed.

Definition shape_ok (c : compiler) (k : site_kind) (t : ty) : bool :=
  match k, c with
  | KRaw, C310 => shape310 t
  | KRaw, _ => unions_ok t
  | KQuote, C310 => is_tnameb t
  | KQuote, _ => unions_ok t && noref t
  | KQuoteStrip, C310 => shape310 t
  | KQuoteStrip, _ => unions_ok t && noref t
  end.

Lemma shape_site_ok c k t : shape_ok c k t = true -> names_ok t -> site_ok c k t.
Proof.
  intros Hs Hn. destruct k, c; cbn [shape_ok site_ok wf] in *;
    try (apply shape_310; assumption);
    try (apply shape_plain; [exact Hs|discriminate|exact Hn]);
    try (apply andb_prop in Hs; destruct Hs as [H1 H2]; apply shape_plain; [exact H1|intros _; exact H2|exact Hn]).
  split; [apply is_tnameb_ok, Hs|]. destruct t; try discriminate. exact Hn.
Qed.

(* the whole site table: every site present, every (site, compiler) combination in the proven domain *)
Definition dummy : str := [x41].
Definition sites_check (tbl : list (site * site_kind)) : bool :=
  forallb (fun s => match site_kind_of tbl s with
                    | Some k => forallb (fun c => shape_ok c k (site_arg s dummy dummy)) [CDirect; CRoot; C310]
                    | None => false
                    end) all_sites.

Lemma site_arg_shape c k s a b a' b' : shape_ok c k (site_arg s a b) = shape_ok c k (site_arg s a' b').
Proof. destruct s, k, c; reflexivity. Qed.

Lemma const_name s : name_okb s = true -> name_ok s.
Proof. apply name_okb_ok. Qed.

Lemma site_arg_names s tin tout : name_ok tin -> name_ok tout -> names_ok (site_arg s tin tout).
Proof.
  intros Hi Ho.
  destruct s; cbn [site_arg names_ok];
    repeat lazymatch goal with
           | |- name_ok _ => first [assumption | apply const_name; vm_compute; reflexivity]
           | |- _ /\ _ => split
           | |- True => exact I
           end.
Qed.

Lemma site_eqb_eq a b : site_eqb a b = true -> a = b.
Proof. destruct a, b; cbn; congruence. Qed.

Theorem sites_sound tbl : sites_check tbl = true ->
  forall c s tin tout, name_ok tin -> name_ok tout ->
  exists text, site_text tbl c s tin tout = Some text /\ denote text = Some (sem (site_arg s tin tout)).
Proof.
  intros Hchk c s tin tout Hi Ho. unfold sites_check in Hchk. rewrite forallb_forall in Hchk.
  assert (Hin : In s all_sites) by (destruct s; cbn; tauto).
  specialize (Hchk s Hin). unfold site_text. destruct (site_kind_of tbl s) as [k|]; [|discriminate].
  eexists. split; [reflexivity|]. apply denote_site, shape_site_ok; [|apply site_arg_names; assumption].
  rewrite forallb_forall in Hchk. rewrite (site_arg_shape c k s tin tout dummy dummy).
  apply Hchk. destruct c; cbn; tauto.
Qed.

(* the pinned template: the 3.10 compiler under a quoting site *)
Lemma refuted_310_stream :
  exists T, name_ok T /\ denote (render_site KQuote (print C310 (TAsyncIterator (TName T)))) = None.
Proof. exists (B "Resp"). split; [apply const_name; vm_compute; reflexivity|vm_compute; reflexivity]. Qed.

Lemma refuted_310_iterator :
  exists T, name_ok T /\
    denote (render_site KQuote (print C310 (TUnion [TAsyncIterable (TName T); TIterable (TName T)]))) = None.
Proof. exists (B "Req"). split; [apply const_name; vm_compute; reflexivity|vm_compute; reflexivity]. Qed.

Lemma pinned_sites_check_fails :
  sites_check [(SStubReq, KQuote); (SStubReqIter, KQuote); (SStubTimeout, KRaw); (SStubDeadline, KRaw);
               (SStubMetadata, KRaw); (SStubRet, KQuote); (SStubRetStream, KQuote); (SBaseReq, KQuote);
               (SBaseReqIter, KRaw); (SBaseRet, KQuote); (SBaseRetStream, KRaw); (SMapping, KRaw)] = false.
Proof. vm_compute. reflexivity. Qed.

(* ---------------------------------------------------------------- pydantic enum bound *)
Lemma enum_total_iff ge : (forall v, enum_accepts ge v = true) <-> ge = None.
Proof.
  split.
  - intros H. destruct ge as [lo|]; [|reflexivity]. specialize (H (lo - 1)%Z). cbn in H.
    apply Z.leb_le in H. lia.
  - intros -> v. reflexivity.
Qed.

Lemma enum_refuted : exists v, (- 2 ^ 31 <= v < 2 ^ 31)%Z /\ enum_accepts (Some 0%Z) v = false.
Proof. exists (-1)%Z. split; [lia|reflexivity]. Qed.

(* ---------------------------------------------------------------- fields *)
Lemma py_type_print c pyd ft : py_type_str c pyd ft = option_map (print c) (base_ty pyd ft).
Proof.
  unfold py_type_str, base_ty. destruct (py_scalar (ft_type ft)); [reflexivity|].
  destruct (ft_type ft); try reflexivity;
    (destruct (ft_ref ft) as [[w| | |n|n]|]; try reflexivity;
     try (cbn [option_map print]; rewrite <- !app_assoc; reflexivity);
     match goal with |- context [assoc ?x wrapper_py] => destruct (assoc x wrapper_py); reflexivity end).
Qed.

Definition builtins_ok (fd : fdesc) : Prop :=
  fd_builtins fd = true -> exists n, py_scalar (ft_type (fd_type fd)) = Some n.

Definition map_key_scalar (fd : fdesc) : Prop :=
  match fd_label fd with LMap k => exists n, py_scalar (ft_type k) = Some n | _ => True end.

Lemma base_scalar pyd ft n : py_scalar (ft_type ft) = Some n -> base_ty pyd ft = Some (TName n).
Proof. intros H. unfold base_ty. rewrite H. reflexivity. Qed.

Lemma annotation_print c pyd fd : builtins_ok fd ->
  annotation_str c pyd fd = option_map (print c) (annotation_ty pyd fd).
Proof.
  intros Hb. unfold annotation_str, annotation_ty, fd_optional.
  destruct (fd_label fd) as [| | |g|k] eqn:L;
    try (rewrite !py_type_print; destruct (base_ty pyd k), (base_ty pyd (fd_type fd)); reflexivity);
    rewrite py_type_print; destruct (base_ty pyd (fd_type fd)) as [b|] eqn:E; try reflexivity;
    cbn [option_map]; (destruct (fd_builtins fd) eqn:Bf;
      [destruct (Hb Bf) as [n Hn]; rewrite (base_scalar pyd _ n Hn) in E; injection E as <-; cbn [with_builtins]
      |cbn [with_builtins]]); try reflexivity; destruct pyd; reflexivity.
Qed.

Lemma base_shape pyd ft t : base_ty pyd ft = Some t -> unions_ok t = true /\ shape310 t = true.
Proof.
  unfold base_ty. destruct (py_scalar (ft_type ft)); [intros [= <-]; split; reflexivity|].
  destruct (ft_type ft); try discriminate;
    (destruct (ft_ref ft) as [[w| | |n|n]|]; try discriminate;
     try (intros [= <-]; split; reflexivity);
     match goal with |- context [assoc ?x wrapper_py] =>
       destruct (assoc x wrapper_py); [intros [= <-]; split; reflexivity|discriminate] end).
Qed.

Lemma with_builtins_shape b t : unions_ok t = true /\ shape310 t = true ->
  unions_ok (with_builtins b t) = true /\ shape310 (with_builtins b t) = true.
Proof. intros H. destruct b, t; cbn [with_builtins]; try exact H; split; reflexivity. Qed.

Lemma field_shape c pyd fd t : annotation_ty pyd fd = Some t -> map_key_scalar fd -> shape_ok c KRaw t = true.
Proof.
  unfold annotation_ty, map_key_scalar. intros Ha Hk.
  assert (Hgoal : unions_ok t = true /\ shape310 t = true -> shape_ok c KRaw t = true).
  { intros [H1 H2]. destruct c; assumption. }
  apply Hgoal. clear Hgoal.
  destruct (fd_label fd) as [| | |g|k] eqn:L.
  - destruct (base_ty pyd (fd_type fd)) as [b|] eqn:E; [|discriminate]. injection Ha as <-.
    pose proof (with_builtins_shape (fd_builtins fd) b (base_shape _ _ _ E)) as Hs.
    destruct (fd_optional pyd fd); cbn [unions_ok shape310]; exact Hs.
  - destruct (base_ty pyd (fd_type fd)) as [b|] eqn:E; [|discriminate]. injection Ha as <-.
    pose proof (with_builtins_shape (fd_builtins fd) b (base_shape _ _ _ E)) as Hs.
    destruct (fd_optional pyd fd); cbn [unions_ok shape310]; exact Hs.
  - destruct (base_ty pyd (fd_type fd)) as [b|] eqn:E; [|discriminate]. injection Ha as <-.
    pose proof (with_builtins_shape (fd_builtins fd) b (base_shape _ _ _ E)) as Hs.
    cbn [unions_ok shape310]; exact Hs.
  - destruct (base_ty pyd (fd_type fd)) as [b|] eqn:E; [|discriminate]. injection Ha as <-.
    pose proof (with_builtins_shape (fd_builtins fd) b (base_shape _ _ _ E)) as Hs.
    destruct (fd_optional pyd fd); cbn [unions_ok shape310]; exact Hs.
  - destruct Hk as [n Hn]. rewrite (base_scalar pyd k n Hn) in Ha.
    destruct (base_ty pyd (fd_type fd)) as [b|] eqn:E; [|discriminate]. injection Ha as <-.
    destruct (base_shape _ _ _ E) as [H1 H2]. cbn [unions_ok shape310 is_tnameb]. rewrite H1, H2. split; reflexivity.
Qed.

(* every option value denotes the same type at a field: the type does not mention the compiler *)
Theorem field_denote c pyd fd t :
  annotation_ty pyd fd = Some t -> builtins_ok fd -> map_key_scalar fd -> names_ok t ->
  exists text, annotation_str c pyd fd = Some text /\ denote text = Some (sem t).
Proof.
  intros Ha Hb Hk Hn. rewrite (annotation_print c pyd fd Hb), Ha. cbn [option_map].
  eexists. split; [reflexivity|].
  apply (denote_site c KRaw t), shape_site_ok; [eapply field_shape; eassumption|exact Hn].
Qed.

(* decidable form of names_ok, for the harness *)
Fixpoint names_okb (t : ty) : bool :=
  match t with
  | TName n | TRef n => name_okb n
  | TOptional a | TList a | TIterable a | TAsyncIterable a | TAsyncIterator a => names_okb a
  | TDict k v => names_okb k && names_okb v
  | TUnion ts => forallb names_okb ts
  end.

Lemma names_okb_ok t : names_okb t = true -> names_ok t.
Proof.
  induction t as [n|n|a IH|a IH|k v IHk IHv|l IHl|a IH|a IH|a IH] using ty_ind'; intros H;
    cbn [names_okb names_ok] in *; try (apply IH; exact H); try (apply name_okb_ok; exact H).
  - apply andb_prop in H. destruct H. split; [apply IHk|apply IHv]; assumption.
  - apply names_ok_all. rewrite forallb_forall in H. rewrite Forall_forall in *. intros a Ha. apply (IHl a Ha), H, Ha.
Qed.

Definition in_domain (c : compiler) (k : site_kind) (t : ty) : bool := shape_ok c k t && names_okb t.

Theorem in_domain_denote c k t : in_domain c k t = true -> denote (render_site k (print c t)) = Some (sem t).
Proof.
  intros H. apply andb_prop in H. destruct H as [H1 H2].
  apply denote_site, shape_site_ok; [exact H1|apply names_okb_ok, H2].
Qed.

(* ---------------------------------------------------------------- metadata does not depend on the options *)
Definition mk (c : compiler) (pyd : bool) : options := {| o_compiler := c; o_pydantic := pyd |}.

Lemma field_args_typing_indep c c' pyd fd : field_args (mk c pyd) fd = field_args (mk c' pyd) fd.
Proof. reflexivity. Qed.

Lemma field_call_typing_indep c c' pyd fd : field_call (mk c pyd) fd = field_call (mk c' pyd) fd.
Proof. reflexivity. Qed.

Lemma field_meta_typing_indep c c' pyd fd : field_meta (mk c pyd) fd = field_meta (mk c' pyd) fd.
Proof. reflexivity. Qed.

Definition set_optional (m : fmeta) : fmeta :=
  {| m_number := m_number m; m_proto_type := m_proto_type m; m_map_types := m_map_types m;
     m_group := m_group m; m_wraps := m_wraps m; m_optional := true |}.

Lemma field_meta_pydantic c fd :
  field_meta (mk c true) fd =
  if is_oneof_member fd then set_optional (field_meta (mk c false) fd) else field_meta (mk c false) fd.
Proof.
  unfold field_meta, is_oneof_member, set_optional, fd_optional, mk. cbn [o_pydantic].
  destruct (fd_label fd); reflexivity.
Qed.

Lemma field_args_pydantic c fd :
  field_args (mk c true) fd =
  match fd_label fd with
  | LOneof g => (match field_wraps fd with Some cn => [B "wraps=betterproto." ++ cn] | None => [] end)
                ++ [B "optional=True"] ++ [B "group=" ++ dq :: g ++ [dq]]
  | _ => field_args (mk c false) fd
  end.
Proof.
  unfold field_args, fd_optional, mk. cbn [o_pydantic]. destruct (fd_label fd); reflexivity.
Qed.

Lemma annotation_ty_pydantic fd :
  annotation_ty true fd =
  match fd_label fd with
  | LOneof _ => option_map (fun b => TOptional (with_builtins (fd_builtins fd) b)) (base_ty true (fd_type fd))
  | LMap k => match base_ty true k, base_ty true (fd_type fd) with Some a, Some b => Some (TDict a b) | _, _ => None end
  | LRepeated => option_map (fun b => TList (with_builtins (fd_builtins fd) b)) (base_ty true (fd_type fd))
  | LOptional => option_map (fun b => TOptional (with_builtins (fd_builtins fd) b)) (base_ty true (fd_type fd))
  | LSingle => option_map (with_builtins (fd_builtins fd)) (base_ty true (fd_type fd))
  end.
Proof.
  unfold annotation_ty, fd_optional. destruct (fd_label fd); try reflexivity;
    destruct (base_ty true (fd_type fd)); reflexivity.
Qed.

(* a field that is not a oneof member and mentions no google type has the same type under both dataclass kinds *)
Definition mentions_google (ft : ftype) : bool :=
  match ft_ref ft with Some (RGoogle _) => true | _ => false end.

Lemma base_ty_pydantic ft : mentions_google ft = false -> base_ty true ft = base_ty false ft.
Proof.
  unfold mentions_google, base_ty. intros H. destruct (py_scalar (ft_type ft)); [reflexivity|].
  destruct (ft_type ft); try reflexivity; destruct (ft_ref ft) as [[w| | |n|n]|]; try reflexivity; discriminate.
Qed.

Lemma annotation_ty_pydantic_same fd :
  is_oneof_member fd = false -> mentions_google (fd_type fd) = false ->
  (match fd_label fd with LMap k => mentions_google k = false | _ => True end) ->
  annotation_ty true fd = annotation_ty false fd.
Proof.
  unfold annotation_ty, is_oneof_member, fd_optional. intros Ho Hg Hk.
  rewrite (base_ty_pydantic _ Hg). destruct (fd_label fd); try reflexivity; try discriminate.
  rewrite (base_ty_pydantic _ Hk). reflexivity.
Qed.

(* ---------------------------------------------------------------- option strings *)
Definition typing_opt (c : compiler) : str :=
  match c with CDirect => B "typing.direct" | CRoot => B "typing.root" | C310 => B "typing.310" end.

Definition option_string (c : compiler) (pyd first : bool) : str :=
  if pyd then (if first then B "pydantic_dataclasses," ++ typing_opt c else typing_opt c ++ B ",pydantic_dataclasses")
  else typing_opt c.

Lemma options_supported c pyd first : parse_options (option_string c pyd first) = Ok (mk c pyd).
Proof. destruct c, pyd, first; vm_compute; reflexivity. Qed.

Lemma options_default : parse_options [] = Ok (mk CDirect false).
Proof. reflexivity. Qed.

Lemma options_pydantic_only : parse_options (B "pydantic_dataclasses") = Ok (mk CDirect true).
Proof. vm_compute. reflexivity. Qed.

Lemma options_multiple_rejected c c' : parse_options (typing_opt c ++ B "," ++ typing_opt c') = Err EValue.
Proof. destruct c, c'; vm_compute; reflexivity. Qed.

(* ---------------------------------------------------------------- import bookkeeping covers every generic used *)
Definition syntax (c : compiler) (t : ty) : syn := match c with C310 => syn310 t | _ => syn_plain c t end.

Lemma syntax_wf c t : wf c t -> wf_syn false (syntax c t).
Proof. destruct c; cbn [wf syntax]; intros H; [apply wf_syn_plain, H|apply wf_syn_plain, H|apply syn310_wf, H]. Qed.

Lemma print_syntax c t : wf c t -> print c t = render_toks (toks (syntax c t)).
Proof.
  destruct c; cbn [wf syntax]; intros H.
  - apply print_plain. discriminate.
  - apply print_plain. discriminate.
  - apply (print310_ok t H).
Qed.

Lemma lex_print c t : wf c t -> lex (print c t) = Some (toks (syntax c t)).
Proof.
  intros H. rewrite (print_syntax c t H). apply lex_render.
  rewrite <- (app_nil_r (toks _)). apply (toks_good _ false); [apply syntax_wf, H|exact I|exact I].
Qed.

(* identifiers that are subscripted in a token list: the generics the text needs to have in scope *)
Fixpoint heads (ts : list token) : list str :=
  match ts with
  | [] => []
  | TkId h :: r => match r with TkLbr :: _ => h :: heads r | _ => heads r end
  | _ :: r => heads r
  end.

Definition text_heads (s : str) : list str := match lex s with Some ts => heads ts | None => [] end.

Fixpoint app_heads (y : syn) : list str :=
  match y with
  | YName _ | YNone => []
  | YStr a => app_heads a
  | YApp h l => h :: flat_map app_heads l
  | YBar l => flat_map app_heads l
  end.

Definition H_toks (y : syn) : Prop :=
  forall rest h, follow_atom rest -> In h (heads (toks y ++ rest)) -> In h (app_heads y) \/ In h (heads rest).

Lemma heads_sepby sep l :
  (forall x, follow_atom (sep :: x)) -> (forall x, heads (sep :: x) = heads x) ->
  Forall H_toks l -> forall rest h, follow_atom rest ->
  In h (heads (sepby sep (map toks l) ++ rest)) -> In h (flat_map app_heads l) \/ In h (heads rest).
Proof.
  intros Hs1 Hs2 HH. induction l as [|a l IH]; intros rest h Hf Hin; [right; exact Hin|].
  inversion HH as [|? ? Ha Hl]; subst. destruct l as [|b l].
  - cbn [map sepby] in Hin. destruct (Ha rest h Hf Hin) as [H|H]; [left; cbn [flat_map]; rewrite app_nil_r; exact H|right; exact H].
  - cbn [map] in Hin. rewrite sepby_cons2 in Hin. rewrite <- app_assoc in Hin. cbn [app] in Hin.
    change (toks b :: map toks l) with (map toks (b :: l)) in Hin.
    destruct (Ha (sep :: sepby sep (map toks (b :: l)) ++ rest) h (Hs1 _) Hin) as [H|H].
    + left. cbn [flat_map]. apply in_or_app. left. exact H.
    + rewrite Hs2 in H.
      destruct (IH Hl rest h Hf H) as [H2|H2]; [left; cbn [flat_map]; apply in_or_app; right; exact H2|right; exact H2].
Qed.

Lemma heads_toks y : H_toks y.
Proof.
  induction y as [n| |a IHa|hh l IHl|l IHl] using syn_ind'; intros rest h Hf Hin.
  - cbn [toks app heads] in Hin. right. destruct rest as [|[] rest]; cbn in Hf; try contradiction; exact Hin.
  - cbn [toks app heads] in Hin. right. destruct rest as [|[] rest]; cbn in Hf; try contradiction; exact Hin.
  - cbn [toks app] in Hin. rewrite <- app_assoc in Hin. cbn [app heads] in Hin.
    destruct (IHa (TkQuote :: rest) h I Hin) as [H|H]; [left; exact H|right; exact H].
  - cbn [toks app] in Hin. rewrite <- app_assoc in Hin. cbn [app heads] in Hin.
    destruct Hin as [<-|Hin]; [left; left; reflexivity|].
    destruct (heads_sepby TkComma l (fun _ => I) (fun _ => eq_refl) IHl (TkRbr :: rest) h I Hin) as [H|H].
    + left. right. exact H.
    + right. exact H.
  - cbn [toks] in Hin. destruct (heads_sepby TkBar l (fun _ => I) (fun _ => eq_refl) IHl rest h Hf Hin) as [H|H]; [left; exact H|right; exact H].
Qed.

Fixpoint ops (t : ty) : list op :=
  match t with
  | TName _ | TRef _ => []
  | TOptional a => OOptional :: ops a
  | TList a => OList :: ops a
  | TDict k v => ODict :: ops k ++ ops v
  | TUnion ts => OUnion :: flat_map ops ts
  | TIterable a => OIterable :: ops a
  | TAsyncIterable a => OAsyncIterable :: ops a
  | TAsyncIterator a => OAsyncIterator :: ops a
  end.

Lemma adds_ops c t o : In o (ops t) -> incl (c_adds c o) (ty_adds c t).
Proof.
  induction t as [n|n|a IH|a IH|k v IHk IHv|l IHl|a IH|a IH|a IH] using ty_ind'; intros Hin x Hx;
    cbn [ops ty_adds] in *; try contradiction;
    try (destruct Hin as [<-|Hin]; [apply in_or_app; right; exact Hx|apply in_or_app; left; apply (IH Hin), Hx]).
  - destruct Hin as [<-|Hin]; [apply in_or_app; right; apply in_or_app; right; exact Hx|].
    apply in_app_or in Hin. destruct Hin as [Hin|Hin].
    + apply in_or_app. left. apply (IHk Hin), Hx.
    + apply in_or_app. right. apply in_or_app. left. apply (IHv Hin), Hx.
  - destruct Hin as [<-|Hin]; [apply in_or_app; right; exact Hx|].
    apply in_or_app. left. apply in_flat_map in Hin. destruct Hin as (a & Ha & Hin).
    apply in_flat_map. exists a. split; [exact Ha|]. rewrite Forall_forall in IHl. apply (IHl a Ha Hin), Hx.
Qed.

Lemma plain_heads c t h : In h (app_heads (syn_plain c t)) -> exists o, In o (ops t) /\ h = hd c o.
Proof.
  induction t as [n|n|a IH|a IH|k v IHk IHv|l IHl|a IH|a IH|a IH] using ty_ind'; cbn [syn_plain app_heads flat_map ops];
    intros Hin; try contradiction;
    try (destruct Hin as [<-|Hin]; [eexists; split; [left; reflexivity|reflexivity]|];
         rewrite app_nil_r in Hin; destruct (IH Hin) as (o & Ho & ->); exists o; split; [right; exact Ho|reflexivity]).
  - destruct Hin as [<-|Hin]; [eexists; split; [left; reflexivity|reflexivity]|].
    rewrite app_nil_r in Hin. apply in_app_or in Hin. destruct Hin as [Hin|Hin].
    + destruct (IHk Hin) as (o & Ho & ->). exists o. split; [right; apply in_or_app; left; exact Ho|reflexivity].
    + destruct (IHv Hin) as (o & Ho & ->). exists o. split; [right; apply in_or_app; right; exact Ho|reflexivity].
  - destruct Hin as [<-|Hin]; [eexists; split; [left; reflexivity|reflexivity]|].
    apply in_flat_map in Hin. destruct Hin as (y & Hy & Hin). apply in_map_iff in Hy. destruct Hy as (a & <- & Ha).
    rewrite Forall_forall in IHl. destruct (IHl a Ha Hin) as (o & Ho & ->). exists o. split; [|reflexivity].
    right. apply in_flat_map. exists a. split; assumption.
Qed.

Lemma heads_mkbar l h : In h (app_heads (mkbar l)) -> In h (flat_map app_heads l).
Proof. destruct l as [|a [|b l]]; cbn [mkbar app_heads flat_map]; intros H; try exact H. rewrite app_nil_r. exact H. Qed.

Lemma heads_alts y h : In h (flat_map app_heads (alts_of y)) -> In h (app_heads y).
Proof. destruct y; cbn [alts_of flat_map app_heads]; intros H; try rewrite app_nil_r in H; exact H. Qed.

Definition iter_op (o : op) : Prop := o <> OOptional /\ o <> OUnion.

Lemma inner_heads t h : In h (app_heads (inner310 t)) -> exists o, In o (ops t) /\ h = hd C310 o /\ iter_op o.
Proof.
  induction t as [n|n|a IH|a IH|k v IHk IHv|l IHl|a IH|a IH|a IH] using ty_ind'; cbn [inner310 ops]; intros Hin.
  - contradiction.
  - contradiction.
  - apply heads_mkbar in Hin. rewrite flat_map_app in Hin. apply in_app_or in Hin. destruct Hin as [Hin|Hin]; [|contradiction].
    apply heads_alts in Hin. destruct (IH Hin) as (o & Ho & E & I1). exists o. split; [right; exact Ho|split; assumption].
  - cbn [app_heads flat_map] in Hin. destruct Hin as [<-|Hin]; [exists OList; split; [left; reflexivity|split; [reflexivity|split; discriminate]]|].
    rewrite app_nil_r in Hin. destruct (IH Hin) as (o & Ho & E & I1). exists o. split; [right; exact Ho|split; assumption].
  - cbn [app_heads flat_map] in Hin. destruct Hin as [<-|Hin]; [exists ODict; split; [left; reflexivity|split; [reflexivity|split; discriminate]]|].
    rewrite app_nil_r in Hin. apply in_app_or in Hin. destruct Hin as [Hin|Hin].
    + destruct (IHk Hin) as (o & Ho & E & I1). exists o. split; [right; apply in_or_app; left; exact Ho|split; assumption].
    + destruct (IHv Hin) as (o & Ho & E & I1). exists o. split; [right; apply in_or_app; right; exact Ho|split; assumption].
  - apply heads_mkbar in Hin. apply in_flat_map in Hin. destruct Hin as (y & Hy & Hin).
    apply in_flat_map in Hy. destruct Hy as (a & Ha & Hy).
    assert (Hin' : In h (app_heads (inner310 a))).
    { apply heads_alts. apply in_flat_map. exists y. split; assumption. }
    rewrite Forall_forall in IHl. destruct (IHl a Ha Hin') as (o & Ho & E & I1). exists o.
    split; [right; apply in_flat_map; exists a; split; assumption|split; assumption].
  - cbn [app_heads flat_map] in Hin. destruct Hin as [<-|Hin]; [exists OIterable; split; [left; reflexivity|split; [reflexivity|split; discriminate]]|].
    rewrite app_nil_r in Hin. destruct (IH Hin) as (o & Ho & E & I1). exists o. split; [right; exact Ho|split; assumption].
  - cbn [app_heads flat_map] in Hin. destruct Hin as [<-|Hin]; [exists OAsyncIterable; split; [left; reflexivity|split; [reflexivity|split; discriminate]]|].
    rewrite app_nil_r in Hin. destruct (IH Hin) as (o & Ho & E & I1). exists o. split; [right; exact Ho|split; assumption].
  - cbn [app_heads flat_map] in Hin. destruct Hin as [<-|Hin]; [exists OAsyncIterator; split; [left; reflexivity|split; [reflexivity|split; discriminate]]|].
    rewrite app_nil_r in Hin. destruct (IH Hin) as (o & Ho & E & I1). exists o. split; [right; exact Ho|split; assumption].
Qed.

(* membership through the sorted, duplicate-free rendering of import_lines *)
Lemma in_insert_sorted x y l : In x (insert_sorted y l) <-> x = y \/ In x l.
Proof.
  induction l as [|z l IH]; cbn [insert_sorted]; [cbn; intuition congruence|].
  destruct (str_eqb y z) eqn:E.
  - apply str_eqb_eq in E. subst z. cbn. intuition congruence.
  - destruct (str_ltb y z); cbn [In]; [intuition congruence|]. rewrite IH. intuition congruence.
Qed.

Lemma in_sort_names x l : In x (sort_names l) <-> In x l.
Proof.
  induction l as [|y l IH]; [tauto|]. cbn [sort_names fold_right]. fold (sort_names l).
  rewrite in_insert_sorted, IH. cbn. intuition congruence.
Qed.

Lemma in_dedup x l : In x (dedup l) <-> In x l.
Proof.
  induction l as [|y l IH]; [tauto|]. cbn [dedup In]. rewrite filter_In, IH. split.
  - intros [H|[H _]]; tauto.
  - intros [H|H]; [left; exact H|]. destruct (str_eqb y x) eqn:E.
    + left. apply str_eqb_eq in E. exact E.
    + right. split; [exact H|reflexivity].
Qed.

Lemma from_import_lines c adds m n : c <> CRoot -> In (m, n) adds ->
  In (B "from " ++ m ++ B " import (") (import_lines c adds) /\
  In (B "    " ++ n ++ B ",") (import_lines c adds).
Proof.
  intros Hc Hin.
  assert (Hm : In m (dedup (map fst adds))) by (apply in_dedup, in_map_iff; exists (m, n); split; [reflexivity|exact Hin]).
  assert (Hn : In n (sort_names (map snd (filter (fun p => str_eqb (fst p) m) adds)))).
  { apply in_sort_names, in_map_iff. exists (m, n). split; [reflexivity|]. apply filter_In. split; [exact Hin|apply str_eqb_refl]. }
  destruct c; [|contradiction Hc; reflexivity|]; cbn [import_lines]; split; apply in_flat_map; exists m; (split; [exact Hm|]).
  - left. reflexivity.
  - right. apply in_or_app. left. apply in_map_iff. exists n. split; [reflexivity|exact Hn].
  - left. reflexivity.
  - right. apply in_or_app. left. apply in_map_iff. exists n. split; [reflexivity|exact Hn].
Qed.

(* what it means for the rendered import block to bring a generic's head identifier into scope *)
Definition bound (c : compiler) (lines : list str) (h : str) : Prop :=
  match c with
  | CDirect => In (B "from typing import (") lines /\ In (B "    " ++ h ++ B ",") lines
  | CRoot => In (B "import typing") lines /\ exists n, h = B "typing." ++ n
  | C310 => h = B "list" \/ h = B "dict" \/
            (In (B "from collections.abc import (") lines /\ In (B "    " ++ h ++ B ",") lines)
  end.

Theorem imports_cover c t h : wf c t ->
  In h (text_heads (print c t)) -> bound c (import_lines c (ty_adds c t)) h.
Proof.
  intros Hwf Hin. unfold text_heads in Hin. rewrite (lex_print c t Hwf) in Hin.
  rewrite <- (app_nil_r (toks _)) in Hin.
  destruct (heads_toks _ [] h I Hin) as [Hh|Hh]; [|contradiction].
  destruct c; cbn [syntax bound] in *.
  - destruct (plain_heads CDirect t h Hh) as (o & Ho & ->).
    pose proof (adds_ops CDirect t o Ho (B "typing", op_typing_name o) (or_introl eq_refl)) as Ha.
    apply (from_import_lines CDirect _ _ _ ltac:(discriminate) Ha).
  - destruct (plain_heads CRoot t h Hh) as (o & Ho & ->).
    pose proof (adds_ops CRoot t o Ho (B "typing", []) (or_introl eq_refl)) as Ha.
    split; [|exists (op_typing_name o); reflexivity].
    cbn [import_lines]. destruct (ty_adds CRoot t); [contradiction|left; reflexivity].
  - assert (Hh' : In h (app_heads (inner310 t))) by (destruct t; cbn [syn310 app_heads] in Hh; try contradiction; exact Hh).
    destruct (inner_heads t h Hh') as (o & Ho & -> & I1 & I2).
    destruct o; try (contradiction I1; reflexivity); try (contradiction I2; reflexivity);
      try (left; reflexivity); try (right; left; reflexivity); right; right.
    + apply (from_import_lines C310 _ (B "collections.abc") (op_typing_name OIterable) ltac:(discriminate)).
      apply (adds_ops C310 t OIterable Ho). left. reflexivity.
    + apply (from_import_lines C310 _ (B "collections.abc") (op_typing_name OAsyncIterable) ltac:(discriminate)).
      apply (adds_ops C310 t OAsyncIterable Ho). left. reflexivity.
    + apply (from_import_lines C310 _ (B "collections.abc") (op_typing_name OAsyncIterator) ltac:(discriminate)).
      apply (adds_ops C310 t OAsyncIterator Ho). left. reflexivity.
Qed.
