(* C01 layer 3d — one singular field: the bytes _serialize_single writes for its value drive the decoder's
   loop from an object whose slot i is still fresh to the object with slot i set to the decoded value
   (oneof: group selection updated), every other slot untouched.  Generic in the element kind
   ([elem_enc]); instantiated for scalars here, for the bundled message types in C01Builtin.v. *)
From Coq Require Import ZArith List Bool Lia ZifyBool.
From BP Require Import Base.Prelude Model.Types Model.Varint Model.Scalar Model.Float Model.Utf8.
From BP Require Import Model.Object Model.Eq Model.TimeCore Model.Encode Model.Decode Model.WellFormed Model.C01Def.
From BP Require Import gen.Tables Proofs.C01Frame Proofs.C01Step Proofs.C01Apply Proofs.C01Elem.

Definition is_nil {A} (l : list A) : bool := match l with [] => true | _ => false end.

Section Field.
  Variables (msg : option ptype -> pv -> result (list byte)) (fuel' : nat) (sc : schema) (c : nat).
  Let cd := get_class sc c.
  Let fs := cfields cd.

  Lemma feeds_singular raw unk cur i f v v' (Empty : Prop) :
    nth_error fs i = Some f ->
    nodup_z (map fnum fs) = true ->
    1 <= fnum f < 2 ^ 29 ->
    ptype_eqb (fty f) TMap = false ->
    (forall l, default_of sc f <> PList l) ->
    (nth i raw PPlaceholder = PPlaceholder \/ nth i raw PPlaceholder = PNone) ->
    (forall g, fgroup f = Some g -> sibs_clear fs raw g i) ->
    elem_enc msg fuel' sc (fty f) (hint_elem (fhint f)) (fwraps f) v v' Empty ->
    marked sc v' = v' ->
    forall se,
    exists bs, serialize_with msg (fnum f) (fty f) v se (fwraps f) = Ok bs /\
      (bs = [] -> se = false /\ Empty) /\ (se = true -> bs <> []) /\
      (small bs -> (length bs <= fuel')%nat ->
       feeds fuel' sc cd (Obj c raw true unk cur) bs
             (if is_nil bs then Obj c raw true unk cur
              else Obj c (set_nth i v' raw) true unk (cur_after f i cur))).
  Proof.
    intros Hf Hnd Hnum Hmap Hnl Hfresh Hsib Helem Hmark se.
    destruct (Helem (fnum f) se Hnum) as (bs & Es & He & Hse & Hd).
    exists bs. split; [exact Es|]. split; [exact He|]. split; [exact Hse|].
    intros Hs Hl. destruct bs as [|b0 bs']; [apply feeds_nil|]. cbn [is_nil].
    destruct (Hd ltac:(discriminate) Hs Hl) as (p & Rd & Hpn & Hdec).
    destruct (Hdec f eq_refl eq_refl eq_refl) as (Hfit & Hval).
    eapply feeds_one; [exact Rd|].
    rewrite <- Hmark at 1.
    apply step_singular; auto.
    rewrite Hpn. apply field_by_number_unique; assumption.
  Qed.
End Field.
