(* C04, object level (B), part 2: replacing a value by its normal form changes neither what the
   encoder emits for it nor how == compares it (given the same for the nested messages). *)
From BP Require Import Base.Prelude Model.Types Model.Varint Model.Scalar Model.Float Model.Utf8 Model.Object Model.Eq Model.TimeCore.
From BP Require Import Model.Encode Model.WellFormed Model.Json.
From BP Require Import gen.Tables Proofs.BytesP Proofs.C04Def Proofs.C04ScalarP Proofs.C04ElemP Proofs.C04FieldP Proofs.C04ObjP Proofs.C04CurP.
From Coq Require Import Lia ZifyBool.

Definition rt_ok (sc : schema) (o : obj) : Prop :=
  obj_eq sc (norm_obj sc o) o = true /\ enc_obj sc (norm_obj sc o) = enc_obj sc o.

(* ---------------------------------------------------------------------------------- *)
(* == is reflexive on the scalars a field holds (NaN aside)                             *)
(* ---------------------------------------------------------------------------------- *)
Lemma bytes_eqb_refl a : bytes_eqb a a = true.
Proof. apply bytes_eqb_eq. reflexivity. Qed.

Lemma f64_eq_refl x : f64_is_nan x = false -> f64_eq x x = true.
Proof. intros H. unfold f64_eq. rewrite H. cbn [orb]. destruct (f64_is_zero x); [reflexivity|apply Z.eqb_refl]. Qed.

Lemma pv_eq_refl_scalar sc t v : scalar_in_range t v = true -> not_nan v = true -> pv_eq sc v v = true.
Proof.
  destruct v; try (destruct t; discriminate); intros _ N; cbn [pv_eq].
  - apply Z.eqb_refl.
  - apply eqb_reflx.
  - apply f64_eq_refl. cbn in N. apply negb_true in N. exact N.
  - apply bytes_eqb_refl.
  - apply bytes_eqb_refl.
Qed.

Lemma serialize_with_congr msg num t v v' se w :
  preprocess_with msg t w v = preprocess_with msg t w v' ->
  serialize_with msg num t v se w = serialize_with msg num t v' se w.
Proof. unfold serialize_with. intros ->. reflexivity. Qed.

Lemma concat_map_map {A} (f : A -> result (list byte)) (h : A -> A) l :
  (forall y, In y l -> f (h y) = f y) -> concat_map f (map h l) = concat_map f l.
Proof.
  induction l as [|y l IH]; intros H; [reflexivity|]. cbn [map concat_map].
  rewrite (H y (or_introl eq_refl)), IH; [reflexivity|]. intros z Hz. apply H. right. exact Hz.
Qed.

Section Elem.
  Variable sc : schema.
  Variable n : nat.
  Hypothesis IHo : forall o', (pv_size (PMsg o') < n)%nat -> in_range sc o' = true -> pv_good sc (PMsg o') = true -> rt_ok sc o'.

  Let nc := length (classes sc).
  Let ne := length (enums sc).
  Let msgf := msg_bytes (enc_obj sc).

  Lemma norm_elem_id t p y : (scalar_py p = true \/ p = PyDatetime \/ p = PyTimedelta) ->
    elem_in_range sc t p y = true -> norm_pv sc y = y.
  Proof.
    intros [Sp|[->| ->]] Hr.
    - rewrite (elem_scalar _ _ _ _ Sp) in Hr. exact (norm_scalar sc t y Hr).
    - destruct y; try discriminate Hr; reflexivity.
    - destruct y; try discriminate Hr; reflexivity.
  Qed.

  Lemma py_cases p : (scalar_py p = true \/ p = PyDatetime \/ p = PyTimedelta) \/ exists c, p = PyMsg c.
  Proof. destruct p; eauto; left; left; reflexivity. Qed.

  (* the encoder *)
  Lemma elem_norm_enc t p y :
    (pv_size y < n)%nat -> pyty_fits nc ne t p = true ->
    elem_in_range sc t p y = true -> pv_good sc y = true ->
    preprocess_with msgf t None (norm_pv sc y) = preprocess_with msgf t None y.
  Proof.
    intros Hs Hp Hr Hg. destruct (py_cases p) as [K|[c ->]].
    - rewrite (norm_elem_id t p y K Hr). reflexivity.
    - assert (t = TMessage) as -> by (destruct t; try discriminate Hp; reflexivity).
      destruct y as [| | | | | | | | | | |o]; try discriminate Hr.
      destruct (in_range_obj sc c o Hr) as [_ Ho]. destruct (IHo o Hs Ho Hg) as [_ E].
      rewrite norm_pv_msg. unfold preprocess_with. eval_tables. unfold msgf, msg_bytes. exact E.
  Qed.

  (* == *)
  Lemma elem_norm_eq t p y :
    (pv_size y < n)%nat -> pyty_fits nc ne t p = true ->
    elem_in_range sc t p y = true -> pv_good sc y = true -> not_nan y = true ->
    pv_eq sc (norm_pv sc y) y = true.
  Proof.
    intros Hs Hp Hr Hg Hn. destruct (py_cases p) as [K|[c ->]].
    - rewrite (norm_elem_id t p y K Hr). destruct K as [Sp|[->| ->]].
      + rewrite (elem_scalar _ _ _ _ Sp) in Hr. exact (pv_eq_refl_scalar sc t y Hr Hn).
      + destruct y; try discriminate Hr. cbn [pv_eq]. apply Z.eqb_refl.
      + destruct y; try discriminate Hr. cbn [pv_eq]. apply Z.eqb_refl.
    - assert (t = TMessage) as -> by (destruct t; try discriminate Hp; reflexivity).
      destruct y as [| | | | | | | | | | |o]; try discriminate Hr.
      destruct (in_range_obj sc c o Hr) as [_ Ho]. destruct (IHo o Hs Ho Hg) as [E _].
      rewrite norm_pv_msg. exact E.
  Qed.

  Lemma list_norm_eq t p l :
    (forall y, In y l -> (pv_size y < n)%nat) -> pyty_fits nc ne t p = true ->
    (forall y, In y l -> elem_in_range sc t p y = true) -> (forall y, In y l -> pv_good sc y = true) ->
    (forall y, In y l -> not_nan y = true) ->
    pv_eq sc (PList (map (norm_pv sc) l)) (PList l) = true.
  Proof.
    intros Hs Hp Hr Hg Hn. induction l as [|y l IH]; [reflexivity|].
    cbn [map pv_eq].
    rewrite (elem_norm_eq t p y (Hs y (or_introl eq_refl)) Hp (Hr y (or_introl eq_refl)) (Hg y (or_introl eq_refl)) (Hn y (or_introl eq_refl))).
    cbn [andb]. apply IH; intros z Hz; [apply Hs|apply Hr|apply Hg|apply Hn]; right; exact Hz.
  Qed.

  (* dicts: the entry of key k is found under k *)
  Definition dfind (sc' : schema) (k u : pv) : list (pv * pv) -> bool :=
    fix find (y : list (pv * pv)) : bool :=
      match y with
      | [] => false
      | (k', v) :: y' => if pv_eq sc' k k' then pv_eq sc' u v else find y'
      end.

  Lemma dfind_at kt k u v (pre post : list (pv * pv)) :
    scalar_in_range kt k = true -> map_key_ok kt = true ->
    (forall k', In k' (map fst pre) -> pv_eq sc k k' = false) ->
    dfind sc k u (pre ++ (k, v) :: post) = pv_eq sc u v.
  Proof.
    intros Hk Hkt Hpre. induction pre as [|[k' v'] pre IH].
    - cbn [app dfind]. rewrite (pv_eq_refl_scalar sc kt k Hk); [reflexivity|].
      destruct kt; try discriminate Hkt; destruct k; try discriminate Hk; reflexivity.
    - cbn [app dfind]. rewrite (Hpre k' (or_introl eq_refl)). apply IH. intros k'' H. apply Hpre. right. exact H.
  Qed.

  Lemma keys_distinct_split (d pre : list (pv * pv)) k v (post : list (pv * pv)) :
    keys_distinct sc (map fst d) = true -> d = pre ++ (k, v) :: post ->
    forall k', In k' (map fst pre) -> pv_eq sc k k' = false.
  Proof.
    revert d. induction pre as [|[k0 v0] pre IH]; intros d H E k' I; [destruct I|].
    subst d. cbn [app map fst keys_distinct] in H. apply andb_prop in H as [H1 H2].
    cbn [map fst In] in I. destruct I as [<-|I].
    - apply negb_true in H1. rewrite map_app in H1. cbn [map fst] in H1.
      destruct (pv_eq sc k k0) eqn:E; [|reflexivity]. exfalso.
      assert (X : existsb (fun k' => pv_eq sc k0 k' || pv_eq sc k' k0) (map fst pre ++ k :: map fst post) = true).
      { apply existsb_exists. exists k. split; [apply in_or_app; right; left; reflexivity|]. rewrite E. apply orb_true_r. }
      congruence.
    - exact (IH _ H2 eq_refl k' I).
  Qed.

  Lemma dict_norm_eq kt vt p d :
    map_key_ok kt = true -> pyty_fits nc ne vt p = true ->
    keys_distinct sc (map fst d) = true ->
    (forall k y, In (k, y) d -> (pv_size y < n)%nat /\ scalar_in_range kt k = true /\ elem_in_range sc vt p y = true
                                /\ pv_good sc y = true /\ not_nan y = true) ->
    pv_eq sc (PDict (map (fun kx => (fst kx, norm_pv sc (snd kx))) d)) (PDict d) = true.
  Proof.
    intros Hkt Hp Hd H. cbn [pv_eq]. rewrite map_length, Nat.eqb_refl. cbn [andb].
    assert (G : forall sub, (forall k y, In (k, y) sub -> In (k, y) d) ->
      (fix go (x : list (pv * pv)) : bool :=
         match x with
         | [] => true
         | (k, u) :: x' =>
             (fix find (y : list (pv * pv)) : bool :=
                match y with
                | [] => false
                | (k', v) :: y' => if pv_eq sc k k' then pv_eq sc u v else find y'
                end) d && go x'
         end) (map (fun kx => (fst kx, norm_pv sc (snd kx))) sub) = true).
    { induction sub as [|[k y] sub IH]; intros Hsub; [reflexivity|]. cbn [map fst snd].
      rewrite IH by (intros k' y' I; apply Hsub; right; exact I). rewrite andb_true_r.
      pose proof (Hsub k y (or_introl eq_refl)) as I. destruct (H k y I) as [Hs [Hk [Hr [Hg Hn]]]].
      destruct (in_split _ _ I) as [pre [post E]].
      change ((fix find (y0 : list (pv * pv)) : bool :=
                 match y0 with
                 | [] => false
                 | (k', v) :: y' => if pv_eq sc k k' then pv_eq sc (norm_pv sc y) v else find y'
                 end) d) with (dfind sc k (norm_pv sc y) d).
      rewrite E. rewrite (dfind_at kt k (norm_pv sc y) y pre post Hk Hkt (keys_distinct_split d pre k y post Hd E)).
      exact (elem_norm_eq vt p y Hs Hp Hr Hg Hn). }
    apply G. auto.
  Qed.
End Elem.
