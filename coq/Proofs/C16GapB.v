(* C16 - gap closing, second group: clause (6) of the property text and the quantifier "for all 15 scalar kinds"
   (the table of clauses (1)-(5) is the header of C16GapA.v).

   (6) "Zig-zag, fixed-width, float/double and bool encodings of each scalar type are byte-identical to the reference
        implementation's for every in-range value."
       -> existed: C16_zigzag_spec / _inverse / _range, C16_signed, C16_fixed / _reject / _onto, C16_pack_fmt_table (about the
          LEAF functions zigzag, sign_recover, pack_int, unpack_int), the Flocq theorems about d2f / f2d / pack_value TFloat|TDouble.
       gap a: no theorem is about a scalar KIND: nothing composes _preprocess_single (the per-kind dispatch) with the leaves,
          so "each scalar type" and "for all 15 scalar kinds" had no statement.
          -> GapB varint_kind_roundtrip (int32, int64, uint32, uint64, sint32, sint64: for every value of the kind's range the
             bytes _preprocess_single produces are the canonical varint of the number the encoding specification prescribes
             [wire_of]: value mod 2^64 resp. zig-zag; load_varint reads exactly them back and _postprocess_single returns the value),
             fixed_kind_roundtrip (fixed32, sfixed32, fixed64, sfixed64: little-endian two's complement of the kind's width, and
             back; outside the range struct.error), bool_roundtrip, string_bytes_identity; float / double are
             C16_float_field_bytes / C16_double_field_bytes (already kind-level: pack_value TFloat / TDouble).  13 + 2 = 15 kinds.
       gap b: bool had NO theorem.  -> GapB bool_roundtrip, bool_decode_any (every non-zero varint reads as True).
       gap c: the range hypotheses of C16_signed and of the kind theorem: needed?  -> GapB sign_recover_range (the result of the
          sign recovery ALWAYS lies in the signed range, any input), signed_iff (hence C16_signed's conclusion holds iff v is in
          range), sign_recover_mod (and it is congruent to its input mod 2^bits: the reference's truncation), and
          kind_range_exactness: int32 2^31, int64 2^63, uint64 -1 do NOT come back (the hypothesis is needed), whereas
          uint32 2^32 and sint32 2^31 are ENCODED and come back: for these kinds the encoder performs no range check at all
          (the reference raises) - see uint_kind_unchecked for the general statement.
       gap d: zig-zag "mutually inverse": only unzigzag (zigzag v) = v was a property-level theorem.
          -> GapB unzigzag_inverse (zigzag (unzigzag u) = u for every u >= 0, i.e. every decoded varint), unzigzag_range,
             zigzag_bijection (between the signed range and [0, 2^bits)).
       gap e: "single-field messages compared byte-for-byte" (observe_at): the key in front of the value.
          -> GapB serialize_varint_field: _serialize_single for a varint kind = canonical varint of (number << 3 | 0) followed by the
             value bytes of (a), and load_varint twice reads the tag and the value back. *)
From Coq Require Import ZArith List Bool Lia ZifyBool ZifyN.
From BP Require Import Base.Prelude Model.Types Model.Varint Model.Scalar Model.Float Model.Object Model.Encode Model.Decode.
From BP Require Import Spec.Varint Model.C16GapDef gen.Tables.
From BP Require Import Proofs.BytesP Proofs.VarintP Proofs.ScalarP Proofs.C16GapA.
Import ListNotations.
Ltac Zify.zify_post_hook ::= Z.to_euclidean_division_equations.
Open Scope Z_scope.

(* ---------- (6c) sign recovery on arbitrary input ---------- *)
Lemma sign_recover_cases bits w :
  0 < bits ->
  sign_recover bits w = if w mod 2 ^ bits <? 2 ^ (bits - 1) then w mod 2 ^ bits else w mod 2 ^ bits - 2 ^ bits.
Proof.
  intros Hb. unfold sign_recover. rewrite !Z.shiftl_1_l.
  replace (2 ^ bits - 1) with (Z.ones bits) by (rewrite Z.ones_equiv; lia).
  rewrite Z.land_ones by lia.
  assert (Eb : 2 ^ bits = 2 * 2 ^ (bits - 1)).
  { rewrite <- Z.pow_succ_r by lia. f_equal. lia. }
  assert (Hs : 0 < 2 ^ (bits - 1)) by (apply Z.pow_pos_nonneg; lia).
  rewrite lxor_signbit; [| lia | replace (bits - 1 + 1) with bits by lia; apply Z.mod_pos_bound; lia].
  destruct (w mod 2 ^ bits <? 2 ^ (bits - 1)); lia.
Qed.

Theorem sign_recover_range bits w :
  0 < bits -> - 2 ^ (bits - 1) <= sign_recover bits w < 2 ^ (bits - 1).
Proof.
  intros Hb. rewrite sign_recover_cases by exact Hb.
  assert (Eb : 2 ^ bits = 2 * 2 ^ (bits - 1)).
  { rewrite <- Z.pow_succ_r by lia. f_equal. lia. }
  assert (Hs : 0 < 2 ^ (bits - 1)) by (apply Z.pow_pos_nonneg; lia).
  pose proof (Z.mod_pos_bound w (2 ^ bits) ltac:(lia)) as Hm.
  destruct (Z.ltb_spec (w mod 2 ^ bits) (2 ^ (bits - 1))); lia.
Qed.

Theorem sign_recover_mod bits w :
  0 < bits -> (sign_recover bits w) mod 2 ^ bits = w mod 2 ^ bits.
Proof.
  intros Hb. rewrite sign_recover_cases by exact Hb.
  assert (Hp : 0 < 2 ^ bits) by (apply Z.pow_pos_nonneg; lia).
  destruct (w mod 2 ^ bits <? 2 ^ (bits - 1)).
  - apply Z.mod_mod. lia.
  - replace (w mod 2 ^ bits - 2 ^ bits) with (w mod 2 ^ bits + (-1) * 2 ^ bits) by lia.
    rewrite Z.mod_add by lia. apply Z.mod_mod. lia.
Qed.

Theorem signed_iff bits v :
  0 < bits <= 64 ->
  (sign_recover bits (v mod 2 ^ 64) = v <-> - 2 ^ (bits - 1) <= v < 2 ^ (bits - 1)).
Proof.
  intros Hb. split.
  - intros <-. apply sign_recover_range. lia.
  - apply sign_recover_correct. exact Hb.
Qed.

(* ---------- (6d) zig-zag is a bijection ---------- *)
Theorem unzigzag_range bits u :
  0 < bits -> 0 <= u < 2 ^ bits -> - 2 ^ (bits - 1) <= unzigzag u < 2 ^ (bits - 1).
Proof.
  intros Hb Hu. pose proof (zigzag_unzigzag u ltac:(lia)) as E.
  rewrite zigzag_is_spec in E. unfold zigzag_spec in E.
  assert (Eb : 2 ^ bits = 2 * 2 ^ (bits - 1)).
  { rewrite <- Z.pow_succ_r by lia. f_equal. lia. }
  destruct (Z.ltb_spec (unzigzag u) 0); lia.
Qed.

Theorem zigzag_bijection bits :
  0 < bits ->
  (forall v, - 2 ^ (bits - 1) <= v < 2 ^ (bits - 1) -> 0 <= zigzag v < 2 ^ bits /\ unzigzag (zigzag v) = v) /\
  (forall u, 0 <= u < 2 ^ bits -> - 2 ^ (bits - 1) <= unzigzag u < 2 ^ (bits - 1) /\ zigzag (unzigzag u) = u) /\
  (forall v1 v2, zigzag v1 = zigzag v2 -> v1 = v2).
Proof.
  intros Hb. split; [|split].
  - intros v Hv. split; [apply zigzag_range; assumption | apply unzigzag_zigzag].
  - intros u Hu. split; [apply unzigzag_range; assumption | apply zigzag_unzigzag; lia].
  - intros v1 v2 E. rewrite <- (unzigzag_zigzag v1), <- (unzigzag_zigzag v2), E. reflexivity.
Qed.

Theorem unzigzag_neg_refuted : exists u, u < 0 /\ zigzag (unzigzag u) <> u.
Proof. exists (-1). vm_compute. split; congruence. Qed.

(* ---------- (6a) the six integer varint kinds ---------- *)
Lemma varint_rt_core x :
  - 2 ^ 63 <= x < 2 ^ 64 ->
  exists bs, encode_varint x = Ok bs /\ canonical (x mod 2 ^ 64) bs /\ (length bs <= 10)%nat /\
             0 <= x mod 2 ^ 64 < 2 ^ 64 /\
             forall rest, load_varint (bs ++ rest) = Ok (x mod 2 ^ 64, bs, rest).
Proof.
  intros Hx. destruct (encode_in_range x Hx) as (bs & E & C & Le). unfold wrap64 in C.
  exists bs. split; [exact E|]. split; [exact C|]. split; [exact Le|]. split; [lia|].
  intros rest. apply load_varint_rep. destruct C as (Sh & Va & _). repeat split; assumption.
Qed.

Section Kinds.
  Variable msg : option ptype -> pv -> result (list byte).

  Theorem varint_kind_roundtrip t w lo hi v :
    varint_kind_range t = Some (lo, hi) -> lo <= v < hi ->
    exists bs, preprocess_with msg t w (PInt v) = Ok bs /\
               canonical (wire_of t v) bs /\ (length bs <= 10)%nat /\ 0 <= wire_of t v < 2 ^ 64 /\
               (forall rest, load_varint (bs ++ rest) = Ok (wire_of t v, bs, rest)) /\
               postprocess_varint t (wire_of t v) = PInt v.
  Proof.
    intros Hr Hv. destruct t; try discriminate Hr; cbn [varint_kind_range] in Hr;
      injection Hr as <- <-; cbn [wire_of].
    - (* int32 *)
      change (preprocess_with msg TInt32 w (PInt v)) with (encode_varint v).
      change (postprocess_varint TInt32 (v mod 2 ^ 64)) with (PInt (sign_recover 32 (v mod 2 ^ 64))).
      destruct (varint_rt_core v ltac:(lia)) as (bs & E & C & Le & Rg & L).
      exists bs. split; [exact E|]. split; [exact C|]. split; [exact Le|]. split; [exact Rg|]. split; [exact L|].
      rewrite sign_recover_correct; [reflexivity | lia | cbn; lia].
    - (* int64 *)
      change (preprocess_with msg TInt64 w (PInt v)) with (encode_varint v).
      change (postprocess_varint TInt64 (v mod 2 ^ 64)) with (PInt (sign_recover 64 (v mod 2 ^ 64))).
      destruct (varint_rt_core v ltac:(lia)) as (bs & E & C & Le & Rg & L).
      exists bs. split; [exact E|]. split; [exact C|]. split; [exact Le|]. split; [exact Rg|]. split; [exact L|].
      rewrite sign_recover_correct; [reflexivity | lia | cbn; lia].
    - (* uint32 *)
      change (preprocess_with msg TUInt32 w (PInt v)) with (encode_varint v).
      change (postprocess_varint TUInt32 (v mod 2 ^ 64)) with (PInt (v mod 2 ^ 64)).
      destruct (varint_rt_core v ltac:(lia)) as (bs & E & C & Le & Rg & L).
      exists bs. split; [exact E|]. split; [exact C|]. split; [exact Le|]. split; [exact Rg|]. split; [exact L|].
      rewrite Z.mod_small by lia. reflexivity.
    - (* uint64 *)
      change (preprocess_with msg TUInt64 w (PInt v)) with (encode_varint v).
      change (postprocess_varint TUInt64 (v mod 2 ^ 64)) with (PInt (v mod 2 ^ 64)).
      destruct (varint_rt_core v ltac:(lia)) as (bs & E & C & Le & Rg & L).
      exists bs. split; [exact E|]. split; [exact C|]. split; [exact Le|]. split; [exact Rg|]. split; [exact L|].
      rewrite Z.mod_small by lia. reflexivity.
    - (* sint32 *)
      change (preprocess_with msg TSInt32 w (PInt v)) with (encode_varint (zigzag v)).
      change (postprocess_varint TSInt32 (zigzag_spec v)) with (PInt (unzigzag (zigzag_spec v))).
      rewrite <- zigzag_is_spec.
      pose proof (zigzag_range 32 v ltac:(lia) ltac:(cbn; lia)) as Zr.
      destruct (varint_rt_core (zigzag v) ltac:(lia)) as (bs & E & C & Le & Rg & L).
      rewrite Z.mod_small in C, L, Rg by lia.
      exists bs. split; [exact E|]. split; [exact C|]. split; [exact Le|]. split; [exact Rg|]. split; [exact L|].
      rewrite unzigzag_zigzag. reflexivity.
    - (* sint64 *)
      change (preprocess_with msg TSInt64 w (PInt v)) with (encode_varint (zigzag v)).
      change (postprocess_varint TSInt64 (zigzag_spec v)) with (PInt (unzigzag (zigzag_spec v))).
      rewrite <- zigzag_is_spec.
      pose proof (zigzag_range 64 v ltac:(lia) ltac:(cbn; lia)) as Zr.
      destruct (varint_rt_core (zigzag v) ltac:(lia)) as (bs & E & C & Le & Rg & L).
      rewrite Z.mod_small in C, L, Rg by lia.
      exists bs. split; [exact E|]. split; [exact C|]. split; [exact Le|]. split; [exact Rg|]. split; [exact L|].
      rewrite unzigzag_zigzag. reflexivity.
  Qed.

  (* uint32 / uint64 / sint32 / sint64: the encoder performs no range check of its own; everything the varint layer takes
     goes out and comes back (the reference raises for values outside the kind's range) *)
  Theorem uint_kind_unchecked t w v :
    t = TUInt32 \/ t = TUInt64 -> 0 <= v < 2 ^ 64 ->
    exists bs, preprocess_with msg t w (PInt v) = Ok bs /\ canonical v bs /\
               (forall rest, load_varint (bs ++ rest) = Ok (v, bs, rest)) /\ postprocess_varint t v = PInt v.
  Proof.
    intros Ht Hv. destruct (varint_rt_core v ltac:(lia)) as (bs & E & C & Le & Rg & L).
    rewrite Z.mod_small in C, L by lia. exists bs.
    destruct Ht as [-> | ->]; (split; [exact E|]); (split; [exact C|]); (split; [exact L|]); reflexivity.
  Qed.

  (* ---------- the four integer fixed-width kinds ---------- *)
  Theorem fixed_kind_roundtrip t w f lo hi n v :
    pack_fmt t = Some f -> fmt_int_range f = Some (lo, hi, n) ->
    (lo <= v < hi ->
       preprocess_with msg t w (PInt v) = Ok (twos_le n v) /\ length (twos_le n v) = n /\
       unpack_value t (twos_le n v) = Ok (PInt v)) /\
    (~ (lo <= v < hi) -> preprocess_with msg t w (PInt v) = Err EStruct).
  Proof.
    intros Hf Hr.
    assert (Hpre : preprocess_with msg t w (PInt v) = pack_int f v /\
                   forall bs, unpack_value t bs = (do z <- unpack_int f bs; Ok (PInt z))).
    { destruct t; cbn [pack_fmt] in Hf; try discriminate Hf; injection Hf as <-;
        try discriminate Hr; split; reflexivity. }
    destruct Hpre as [Hp Hu]. rewrite Hp. split.
    - intros Hv. destruct (pack_unpack_int f lo hi n v Hr Hv) as (bs & P & -> & L & U).
      rewrite Hu, U. auto.
    - intros Hv. exact (pack_int_out_of_range f lo hi n v Hr Hv).
  Qed.

  (* ---------- bool ---------- *)
  Theorem bool_roundtrip w b rest :
    preprocess_with msg TBool w (PBool b) = Ok [if b then x01 else x00] /\
    load_varint ([if b then x01 else x00] ++ rest) = Ok ((if b then 1 else 0), [if b then x01 else x00], rest) /\
    postprocess_varint TBool (if b then 1 else 0) = PBool b.
  Proof. destruct b; repeat split; reflexivity. Qed.

  (* ---------- string / bytes: the payload is the value ---------- *)
  Theorem string_bytes_identity w s :
    preprocess_with msg TString w (PStr s) = Ok s /\ preprocess_with msg TBytes w (PBytes s) = Ok s.
  Proof. split; reflexivity. Qed.

  (* ---------- (6e) a whole singular varint-kind field: key, then value ---------- *)
  Theorem serialize_varint_field num t w lo hi v se :
    1 <= num < 2 ^ 29 -> varint_kind_range t = Some (lo, hi) -> lo <= v < hi ->
    exists key bs, serialize_with msg num t (PInt v) se w = Ok (key ++ bs) /\
                   canonical (8 * num) key /\ canonical (wire_of t v) bs /\
                   forall rest, load_varint (key ++ bs ++ rest) = Ok (8 * num, key, bs ++ rest) /\
                                load_varint (bs ++ rest) = Ok (wire_of t v, bs, rest).
  Proof.
    intros Hn Hr Hv.
    destruct (varint_kind_roundtrip t w lo hi v Hr Hv) as (bs & P & C & Le & Rg & L & _).
    assert (Hsh : Z.shiftl num 3 = 8 * num) by (rewrite Z.shiftl_mul_pow2 by lia; lia).
    destruct (varint_rt_core (8 * num) ltac:(lia)) as (key & E & Ck & _ & _ & Lk).
    rewrite Z.mod_small in Ck, Lk by lia.
    exists key, bs.
    assert (Hw : tmem t WIRE_VARINT_TYPES = true) by (destruct t; try discriminate Hr; reflexivity).
    unfold serialize_with. rewrite P. cbn [bind]. rewrite Hw, Hsh, E. cbn [bind].
    split; [reflexivity|]. split; [exact Ck|]. split; [exact C|].
    intros rest. split; [apply Lk | apply L].
  Qed.
End Kinds.

(* every non-zero varint is True; what load_varint returns is never negative, so this covers every decoded value *)
Theorem bool_decode_any v : 0 <= v -> postprocess_varint TBool v = PBool (negb (v =? 0)).
Proof.
  intros Hv. change (postprocess_varint TBool v) with (PBool (bool_of_varint v)).
  unfold bool_of_varint. f_equal. lia.
Qed.

(* ---------- exactness of the kind ranges ---------- *)
Definition no_msg : option ptype -> pv -> result (list byte) := fun _ _ => Err EOther.

Theorem kind_range_exactness :
  (* needed: just outside the range the value does not come back *)
  (preprocess_with no_msg TInt32 None (PInt (2 ^ 31)) = Ok [x80; x80; x80; x80; x08] /\
   postprocess_varint TInt32 (wire_of TInt32 (2 ^ 31)) = PInt (- 2 ^ 31)) /\
  (preprocess_with no_msg TInt64 None (PInt (2 ^ 63)) = Ok [x80; x80; x80; x80; x80; x80; x80; x80; x80; x01] /\
   postprocess_varint TInt64 (wire_of TInt64 (2 ^ 63)) = PInt (- 2 ^ 63)) /\
  (preprocess_with no_msg TUInt64 None (PInt (-1)) = Ok [xff; xff; xff; xff; xff; xff; xff; xff; xff; x01] /\
   postprocess_varint TUInt64 (wire_of TUInt64 (-1)) = PInt (2 ^ 64 - 1)) /\
  (* not enforced: outside the range of uint32 / sint32 the encoder still produces bytes, and they come back *)
  (preprocess_with no_msg TUInt32 None (PInt (2 ^ 32)) = Ok [x80; x80; x80; x80; x10] /\
   postprocess_varint TUInt32 (2 ^ 32) = PInt (2 ^ 32)) /\
  (preprocess_with no_msg TSInt32 None (PInt (2 ^ 31)) = Ok [x80; x80; x80; x80; x10] /\
   postprocess_varint TSInt32 (2 ^ 32) = PInt (2 ^ 31)).
Proof. vm_compute. repeat split. Qed.
