(* C06: the property-level statements, assembled from the other C06 proof files. *)
From BP Require Import Base.Prelude Model.Types Model.Varint Model.Object Model.Eq Model.Encode Model.Decode.
From BP Require Import Model.WellFormed Model.C06Obs.
From BP Require Import gen.Tables Spec.Varint Spec.C06Wire.
From BP Require Import Proofs.C06SpecP Proofs.C06LoopP Proofs.C06EncP Proofs.C06StoreP Proofs.C06DecP Proofs.C06PresP Proofs.C06WaysP.

(* ---- fresh ---- *)
Theorem fresh sc c :
  wf_schema sc = true ->
  enc_obj sc (new sc c) = Ok [] /\
  forall i f, nth_error (cfields (get_class sc c)) i = Some f -> read sc (new sc c) i = proto3_default sc f.
Proof. intros W. split; [apply fresh_bytes; exact W|]. intros i f Hf. apply fresh_reads; assumption. Qed.

(* ---- implicit presence ---- *)
Theorem implicit_skip_full sc c raw sow unk cur i f x :
  nth_error (cfields (get_class sc c)) i = Some f -> nth_error raw i = Some x ->
  implicit_field f -> is_default sc f x = true ->
  (forall enc, emit_field enc sc f None x = Ok []) /\
  here sc cur i x f = Ok [] /\
  enc_obj sc (Obj c raw sow unk cur) = enc_obj sc (Obj c (set_nth i PPlaceholder raw) sow unk cur).
Proof.
  intros Hf Hx Hi Hd. split; [|apply implicit_skip; assumption].
  intros enc. pose proof (implicit_default_not_msg _ _ _ Hi Hd) as Hm.
  destruct Hi as (Hg & Ho & t & Hh & Ht).
  unfold emit_field. rewrite Hd, Hg, Ho. cbn [is_some orb].
  replace (match x with PMsg o => osow o | _ => false end) with false
    by (destruct x; try reflexivity; exfalso; eapply Hm; reflexivity).
  reflexivity.
Qed.

(* ---- _serialized_on_wire after each way of building an object ---- *)
Lemma setattr_sow sc o i v f : nth_error (fields_of sc o) i = Some f -> osow (setattr sc o i v) = true.
Proof.
  destruct o as [c raw sow unk cur]. unfold fields_of. cbn [ocls]. intros Hf.
  rewrite setattr_unfold, Hf. destruct (fgroup f); reflexivity.
Qed.

Lemma setattr_sow_mono sc o i v : osow o = true -> osow (setattr sc o i v) = true.
Proof.
  destruct o as [c raw sow unk cur]. rewrite setattr_unfold.
  destruct (nth_error _ i) as [f0|]; [destruct (fgroup f0)|]; auto.
Qed.

Lemma getattr_sow sc o i : osow (fst (getattr sc o i)) = osow o.
Proof.
  destruct o as [c raw sow unk cur]. unfold getattr.
  destruct (nth_error _ i) as [f0|]; [|reflexivity].
  destruct (group_selects cur f0 i) as [[|]|]; try reflexivity; destruct (nth i raw PPlaceholder); reflexivity.
Qed.

Lemma fetch_sow sc o i f o1 cur : fetch sc o i f = (o1, cur) -> osow o = true -> osow o1 = true.
Proof.
  unfold fetch. pose proof (getattr_sow sc o i) as G.
  destruct (getattr sc o i) as [o' [v|e]]; cbn [fst] in G; intros H Hs; injection H as <- _.
  - rewrite G. exact Hs.
  - apply setattr_sow_mono. exact Hs.
Qed.

Lemma store_sow sc o i f value o2 : store sc o i f value = Ok o2 -> osow o = true -> osow o2 = true.
Proof.
  unfold store. destruct (fetch sc o i f) as [o1 current] eqn:Ef. intros H Hs.
  pose proof (fetch_sow _ _ _ _ _ _ Ef Hs) as H1. destruct o1 as [c1 raw1 sow1 unk1 cur1]. cbn [osow] in H1. subst sow1.
  destruct (ptype_eqb (fty f) TMap).
  - destruct value; try discriminate. destruct current; try discriminate.
    destruct (getattr sc o0 0) as [? [k|]]; try discriminate.
    destruct (getattr sc o0 1) as [? [v|]]; try discriminate. injection H as <-. reflexivity.
  - assert (A : osow (setattr sc (Obj c1 raw1 true unk1 cur1) i value) = true)
      by (apply setattr_sow_mono; reflexivity).
    destruct current; try (injection H as <-; exact A). injection H as <-. reflexivity.
Qed.

Lemma apply_record_sow fuel' sc cd o p o' :
  apply_record fuel' sc cd o p = Ok o' -> osow o = true -> osow o' = true.
Proof.
  unfold apply_record. intros H Hs.
  destruct (field_by_number cd (pnum p)) as [[i f]|]; [|injection H as <-; destruct o; exact Hs].
  destruct (negb (wire_type_fits f (pwt p))); [injection H as <-; destruct o; exact Hs|].
  destruct (record_value fuel' sc f p); cbn [bind] in H; [|discriminate].
  eapply store_sow; eassumption.
Qed.

Lemma loop_sow fuel' sc cd : forall n o s m rest,
  my_loop fuel' sc cd n o s = Ok (m, rest) -> osow o = true -> osow m = true.
Proof.
  induction n as [|n IH]; intros o s m rest H Hs; [discriminate|].
  cbn [my_loop] in H. destruct s as [|b s]; [injection H as <- _; exact Hs|].
  destruct (load_varint (b :: s)) as [[[nw r] s1]|]; cbn [bind] in H; [|discriminate].
  destruct (load_field fuel' s1 nw r) as [[p s2]|]; cbn [bind] in H; [|discriminate].
  destruct (apply_record fuel' sc cd o p) as [o1|] eqn:A; cbn [bind] in H; [|discriminate].
  eapply IH; [exact H|]. eapply apply_record_sow; eassumption.
Qed.

(* whatever was received (even nothing), parse raises the flag of the object it fills *)
Theorem parse_sow sc c bs m : parse sc c bs = Ok m -> osow m = true.
Proof.
  unfold parse, parse_into. intros H.
  destruct (load (Datatypes.S (length bs)) sc (new sc c) bs None) as [[m' rest]|] eqn:L; cbn [bind] in H; [|discriminate].
  injection H as <-. rewrite load_none in L. eapply loop_sow; [exact L|reflexivity].
Qed.

(* the constructor raises the flag exactly when some argument is not a sentinel; if it stays down the
   object is a default message *)
Lemma all_sentinel_default sc : opt_hinted sc -> forall c fs raw,
  (forall f, In f fs -> In f (cfields (get_class sc c))) ->
  (fix go (fs : list fdesc) (raw : list pv) : bool :=
     match fs, raw with
     | f :: fs', v :: raw' => is_sentinel f v && go fs' raw'
     | _, _ => true
     end) fs raw = true ->
  (fix go (raw : list pv) (fs : list fdesc) {struct raw} : bool :=
     match raw, fs with
     | x :: raw', f' :: fs' =>
         (match x with PPlaceholder => true | _ => is_default sc f' x end) && go raw' fs'
     | _, _ => true
     end) raw fs = true.
Proof.
  intros Hoh c. induction fs as [|f fs IH]; intros raw Hin H; [destruct raw; reflexivity|].
  destruct raw as [|v raw]; [reflexivity|].
  apply andb_prop in H as [Hs Hr]. rewrite IH by (auto; intros; apply Hin; right; assumption).
  rewrite andb_true_r. destruct v; try reflexivity; try discriminate.
  cbn [is_sentinel] in Hs. destruct (Hoh c f (Hin f (or_introl eq_refl)) Hs) as (t & Ht).
  cbn [is_default]. rewrite Ht. reflexivity.
Qed.

Theorem construct_flag sc c kw f :
  wf_schema sc = true -> fhint f = HPlain (PyMsg c) ->
  osow (construct sc c kw) = false -> is_default sc f (PMsg (construct sc c kw)) = true.
Proof.
  intros W Hh Hs. unfold construct, post_init in *. cbn [osow] in Hs. apply negb_false_iff in Hs.
  cbn [is_default]. rewrite Hh, Nat.eqb_refl. cbn [andb].
  eapply (all_sentinel_default sc (wf_opt_hinted sc W) c); [|exact Hs]. auto.
Qed.

(* ---- plain sub-message fields ---- *)
Theorem submessage sc c raw sow unk cur i f ch all :
  wf_schema sc = true ->
  nth_error (cfields (get_class sc c)) i = Some f -> nth_error raw i = Some (PMsg ch) ->
  plain_msg_field f ->
  enc_obj sc (Obj c raw sow unk cur) = Ok all ->
  exists pre h post, all = pre ++ h ++ post /\ here sc cur i (PMsg ch) f = Ok h /\
    (osow ch = true -> starts_with_tag (fnum f) 2 h) /\
    (osow ch = false -> is_default sc f (PMsg ch) = true -> h = []) /\
    ((osow ch = false -> is_default sc f (PMsg ch) = true) -> (h <> [] <-> osow ch = true)).
Proof.
  intros W Hf Hx Hp Hall.
  pose proof (wf_num_range _ _ _ (wf_field_of sc c f W (nth_error_In _ _ Hf))) as Hn.
  destruct (enc_obj_split sc c raw sow unk cur i _ f all Hx Hf Hall) as (pre & h & post & Hh & ->).
  exists pre, h, post. split; [reflexivity|]. split; [exact Hh|].
  destruct (submessage_here _ _ _ _ _ _ Hn Hp Hh) as [A B]. split; [exact A|]. split; [exact B|].
  intros Hc. eapply submessage_iff; eassumption.
Qed.
