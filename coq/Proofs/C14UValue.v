(* CLONE of Proofs/C01Value.v with norm_obj replaced by normu_obj (Model/C14UDef.v: every message keeps its unknown
   bytes) and Good by GoodU; see Proofs/C14UMain.v for what changes. *)
(* C01 layer 4c — values inside a message: the induction hypothesis [GoodU] for nested messages, the
   element lemma for every element kind a field can have (scalars, enum, nested message, datetime,
   timedelta), and the lemma for one singular slot of a message (plain / optional / oneof member /
   wrapper): what Message.dump writes for the slot drives the decoder to the normalised slot. *)
From Coq Require Import ZArith List Bool Lia ZifyBool.
From BP Require Import Base.Prelude Model.Types Model.Varint Model.Scalar Model.Float Model.Utf8.
From BP Require Import Model.Object Model.Eq Model.TimeCore Model.Encode Model.Decode Model.WellFormed Model.C01Def Model.C14UDef.
From BP Require Import Proofs.C14UUnfold.
From BP Require Import gen.Tables Proofs.BytesP Proofs.LenP Proofs.C01Scalar Proofs.C01Frame Proofs.C01Step Proofs.C01Apply
     Proofs.C01Elem Proofs.C01Field Proofs.C01Builtin Proofs.C01Unfold.

Lemma elem_enc_mono msg fuel' sc t ety w v v' (E1 E2 : Prop) :
  (E1 -> E2) -> elem_enc msg fuel' sc t ety w v v' E1 -> elem_enc msg fuel' sc t ety w v v' E2.
Proof.
  intros HE H num se Hn. destruct (H num se Hn) as (bs & A & B & C & D).
  exists bs. split; [exact A|]. split; [intros Hb; destruct (B Hb); auto|]. auto.
Qed.

(* a nested message of class c seen as a field value: is_default only looks at the hint *)
Definition msg_field (c : nat) : fdesc := mkF [] 1 TMessage None None None false (HPlain (PyMsg c)) 0.
Definition obj_default (sc : schema) (o : obj) : bool := is_default sc (msg_field (ocls o)) (PMsg o).

Lemma is_default_msg sc f c o : fhint f = HPlain (PyMsg c) -> is_default sc f (PMsg o) = is_default sc (msg_field c) (PMsg o).
Proof. intros Hh. destruct o. cbn [is_default]. rewrite Hh. reflexivity. Qed.

Section Value.
  Variable sc : schema.
  Hypothesis Hbi : builtins_exact sc = true.

  (* the statement proved for every message by induction on the value *)
  Definition GoodU (o : obj) : Prop :=
    exists bs, enc_obj sc o = Ok bs /\ (bs = [] -> obj_default sc o = true) /\
      (small bs -> forall fuel, (length bs < fuel)%nat ->
         load fuel sc (new sc (ocls o)) bs None = Ok (normu_obj sc o, [])).

  Definition elem_empty (v : pv) : Prop :=
    match v with
    | PStr [] | PBytes [] => True
    | PDatetime us | PTimedelta us => us = 0
    | PMsg o => enc_obj sc o = Ok []
    | _ => False
    end.

  Lemma mark_sow_norm o : mark_sow (PMsg (normu_obj sc o)) = PMsg (normu_obj sc o).
  Proof. destruct o. reflexivity. Qed.

  Lemma elem_msg fuel' o :
    GoodU o ->
    elem_enc (msg_bytes (enc_obj sc)) fuel' sc TMessage (PyMsg (ocls o)) None (PMsg o) (PMsg (normu_obj sc o))
             (enc_obj sc o = Ok []).
  Proof.
    intros (bs & Eb & _ & Hload).
    apply (elem_len (msg_bytes (enc_obj sc)) fuel' sc TMessage (PyMsg (ocls o)) None (PMsg o) (PMsg (normu_obj sc o)) bs);
      try reflexivity.
    - unfold preprocess_with. cbn [tmem existsb ptype_eqb ptype_tag Z.eqb orb FIXED_TYPES]. unfold msg_bytes. exact Eb.
    - intros -> _. exact Eb.
    - intros Hs Hl f. unfold post_len. cbn [ptype_eqb ptype_tag Z.eqb]. unfold parse_new.
      rewrite (Hload Hs fuel' Hl). cbn [bind]. rewrite mark_sow_norm. reflexivity.
  Qed.

  Lemma pyty_fits_scalar nc ne t p :
    pyty_fits nc ne t p = true ->
    match p with
    | PyMsg _ | PyDatetime | PyTimedelta => t = TMessage
    | _ => tmem t scalar_ptypes = true
    end.
  Proof. destruct t, p; cbn; intros H; try discriminate H; reflexivity. Qed.

  Lemma scalar_not_msg t v : scalar_in_range t v = true -> norm_elem (normu_obj sc) t v = norm_scalar t v.
  Proof. destruct v; try reflexivity. destruct t; discriminate. Qed.

  Lemma scalar_elem_in_range t p v :
    match p with PyMsg _ | PyDatetime | PyTimedelta => False | _ => True end ->
    elem_in_range sc t p v = scalar_in_range t v.
  Proof. destruct p; try tauto; intros _; destruct v; try reflexivity; destruct o; reflexivity. Qed.

  (* every element kind *)
  Lemma elem_any fuel' nc ne t p v :
    pyty_fits nc ne t p = true -> elem_in_range sc t p v = true -> elemP GoodU v ->
    elem_enc (msg_bytes (enc_obj sc)) fuel' sc t p None v (norm_elem (normu_obj sc) t v) (elem_empty v).
  Proof.
    intros Hfit Hr HG. pose proof (pyty_fits_scalar _ _ _ _ Hfit) as Ht.
    destruct p.
    1-6: (rewrite scalar_elem_in_range in Hr by exact I; rewrite (scalar_not_msg _ _ Hr);
          eapply elem_enc_mono; [|apply elem_scalar; assumption];
          intros [-> | ->]; exact I).
    - (* nested message *)
      subst t. destruct v; try (destruct o; discriminate Hr); try discriminate Hr.
      rewrite elem_in_range_msg in Hr. apply andb_true_iff in Hr as [Hc _]. apply Nat.eqb_eq in Hc. subst c.
      cbn [norm_elem elem_empty]. apply elem_msg. exact HG.
    - subst t. destruct v; try discriminate Hr; try (destruct o; discriminate Hr).
      cbn [elem_in_range] in Hr. cbn [norm_elem norm_scalar elem_empty].
      apply elem_datetime; [exact Hbi | lia].
    - subst t. destruct v; try discriminate Hr; try (destruct o; discriminate Hr).
      cbn [elem_in_range] in Hr. cbn [norm_elem norm_scalar elem_empty].
      apply elem_timedelta; [exact Hbi | lia].
  Qed.
End Value.
