(* C17: the one fact about the float32 conversions that re-encodability of a decoded message
   rests on: struct.pack("<f", struct.unpack("<f", w)[0]) never raises OverflowError, i.e.
   d2f (f2d w) is never None, for all 2^32 patterns w (Model/Float.v definitions). *)
From BP Require Import Base.Prelude Model.Float Model.C17Typed Proofs.BytesP.
From Coq Require Import ZifyBool.
Ltac Zify.zify_post_hook ::= Z.to_euclidean_division_equations.

Lemma log2_lt_pow2' x n : 0 < n -> 0 <= x < 2 ^ n -> Z.log2 x < n.
Proof.
  intros Hn Hx. destruct (Z.eq_dec x 0) as [->|Hne]; [cbn; lia|]. apply Z.log2_lt_pow2; lia.
Qed.

Lemma lor_bound a b n : 0 <= n -> 0 <= a < 2 ^ n -> 0 <= b < 2 ^ n -> 0 <= Z.lor a b < 2 ^ n.
Proof.
  intros Hn Ha Hb. split; [apply Z.lor_nonneg; lia|].
  destruct (Z.eq_dec n 0) as [->|Hn0].
  { change (2 ^ 0) with 1 in *. replace a with 0 by lia. replace b with 0 by lia. cbn. lia. }
  destruct (Z.eq_dec (Z.lor a b) 0) as [->|Hne]; [apply Z.pow_pos_nonneg; lia|].
  apply Z.log2_lt_pow2; [pose proof (Z.lor_nonneg a b); lia|].
  rewrite Z.log2_lor by lia.
  apply Z.max_lub_lt; apply log2_lt_pow2'; lia.
Qed.

Lemma f64_fields sg X y :
  (sg = 0 \/ sg = 1) -> 0 <= X < 2048 -> 0 <= y < 2 ^ 52 ->
  forall b, b = Z.lor (Z.shiftl sg 63) (Z.lor (Z.shiftl X 52) y) ->
  f64_exp b = X /\ f64_man b = y.
Proof.
  intros Hs HX Hy b ->.
  rewrite (Z.lor_comm (Z.shiftl X 52) y), lor_shiftl_add by lia.
  rewrite Z.lor_comm, lor_shiftl_add by lia.
  unfold f64_exp, f64_man. change 2047 with (Z.ones 11). change (2 ^ 52 - 1) with (Z.ones 52).
  rewrite !Z.land_ones, Z.shiftr_div_pow2 by lia.
  change (2 ^ 63) with (2048 * 2 ^ 52). change (2 ^ 11) with 2048.
  set (P := 2 ^ 52) in *. assert (HP : P = 4503599627370496) by reflexivity.
  split; lia.
Qed.

Theorem f32_reencodable_all w : 0 <= w < 2 ^ 32 -> f32_reencodable w = true.
Proof.
  intros Hw. unfold f32_reencodable.
  destruct (d2f (f2d w)) eqn:Ed; [reflexivity|]. exfalso.
  unfold f2d in Ed.
  set (sg := Z.shiftr w 31) in *. set (e := Z.land (Z.shiftr w 23) 255) in *. set (m := Z.land w (2 ^ 23 - 1)) in *.
  assert (Hsg : sg = 0 \/ sg = 1) by (unfold sg; rewrite Z.shiftr_div_pow2 by lia; change (2 ^ 31) with 2147483648; lia).
  assert (He : 0 <= e < 256) by (unfold e; change 255 with (Z.ones 8); rewrite Z.land_ones by lia; lia).
  assert (Hm : 0 <= m < 2 ^ 23) by (unfold m; change (2 ^ 23 - 1) with (Z.ones 23); rewrite Z.land_ones by lia; lia).
  clearbody sg e m. clear Hw w.
  (* in each case the decoded pattern is sign | exponent field X | fraction y *)
  assert (K : forall X y b, 0 <= X < 2048 -> 0 <= y < 2 ^ 52 ->
              b = Z.lor (Z.shiftl sg 63) (Z.lor (Z.shiftl X 52) y) -> d2f b = None ->
              X <> 2047 /\ X <> 0 /\ - 126 <= X - 1023 /\
              (127 < X - 1023 \/ (X - 1023 = 127 /\ rne_shift (2 ^ 52 + y) 29 = 2 ^ 24))).
  { intros X y b HX Hy Hb Hd. destruct (f64_fields sg X y Hsg HX Hy b Hb) as [HE HM].
    unfold d2f in Hd. rewrite HE, HM in Hd.
    destruct (X =? 2047) eqn:E1; [destruct (y =? 0); discriminate|].
    destruct (X =? 0) eqn:E2; [discriminate|].
    destruct (X - 1023 <? -126) eqn:E3; [destruct (_ >? 60); discriminate|].
    destruct (rne_shift (2 ^ 52 + y) 29 =? 2 ^ 24) eqn:E4.
    - destruct (X - 1023 + 1 >? 127) eqn:E5; [|discriminate]. lia.
    - destruct (X - 1023 >? 127) eqn:E5; [|discriminate]. lia. }
  destruct (e =? 255) eqn:E255.
  - (* inf / nan *)
    destruct (m =? 0) eqn:Em.
    + apply (K 2047 0 _ ltac:(lia) ltac:(lia)) in Ed; [lia|].
      unfold f64_pos_inf. rewrite Z.lor_0_r. reflexivity.
    + assert (Hy : 0 <= Z.lor (Z.shiftl 1 51) (Z.shiftl m 29) < 2 ^ 52).
      { apply lor_bound; [lia | cbn; lia |]. rewrite Z.shiftl_mul_pow2 by lia. change (2 ^ 29) with 536870912. lia. }
      apply (K 2047 _ _ ltac:(lia) Hy) in Ed; [lia|]. reflexivity.
  - destruct (e =? 0) eqn:E0.
    + destruct (m =? 0) eqn:Em.
      * apply (K 0 0 _ ltac:(lia) ltac:(lia)) in Ed; [lia|].
        rewrite Z.shiftl_0_l, !Z.lor_0_r. reflexivity.
      * (* binary32 subnormal *)
        set (k := Z.log2 m) in *.
        assert (Hk : 2 ^ k <= m < 2 ^ (k + 1)) by (replace (k + 1) with (Z.succ k) by lia; apply Z.log2_spec; lia).
        assert (Hk0 : 0 <= k) by apply Z.log2_nonneg.
        assert (Hk22 : k < 23) by (apply Z.log2_lt_pow2; lia).
        assert (Hy : 0 <= Z.shiftl (m - 2 ^ k) (52 - k) < 2 ^ 52).
        { rewrite Z.shiftl_mul_pow2 by lia.
          assert (E52 : 2 ^ 52 = 2 ^ k * 2 ^ (52 - k)) by (rewrite <- Z.pow_add_r by lia; f_equal; lia).
          rewrite Z.pow_add_r in Hk by lia. change (2 ^ 1) with 2 in Hk.
          assert (0 < 2 ^ (52 - k)) by (apply Z.pow_pos_nonneg; lia). nia. }
        apply (K (k - 149 + 1023) _ _ ltac:(lia) Hy) in Ed; [lia|]. reflexivity.
    + (* normal *)
      assert (Hy : 0 <= Z.shiftl m 29 < 2 ^ 52).
      { rewrite Z.shiftl_mul_pow2 by lia. change (2 ^ 29) with 536870912. lia. }
      apply (K (e - 127 + 1023) _ _ ltac:(lia) Hy) in Ed; [|reflexivity].
      destruct Ed as (_ & _ & _ & [Hbad | [_ Hq]]); [lia|].
      unfold rne_shift in Hq. cbn [Z.leb Z.compare] in Hq.
      rewrite Z.shiftl_mul_pow2 in Hq by lia.
      replace (Z.shiftl 1 29 - 1) with (Z.ones 29) in Hq by reflexivity.
      rewrite Z.land_ones, Z.shiftr_div_pow2 in Hq by lia.
      change (Z.shiftl 1 (29 - 1)) with 268435456 in Hq. change (2 ^ 29) with 536870912 in Hq.
      change (2 ^ 52) with (536870912 * 8388608) in Hq. change (2 ^ 24) with 16777216 in Hq.
      change (2 ^ 23) with 8388608 in Hm.
      replace ((536870912 * 8388608 + m * 536870912) mod 536870912) with 0 in Hq by lia.
      replace ((536870912 * 8388608 + m * 536870912) / 536870912) with (8388608 + m) in Hq by lia.
      cbn [Z.ltb Z.compare] in Hq. lia.
Qed.
